(* FullCompile-Bridge, item 3 (C06), PART 3: THE induction over the syntax, for the whole compiler stack and the whole
   stage-5 fragment: FullCompile.cexpr / cstmt on tr_* against the pure compiler nexpr / nstmt of ScopeDefsN.v / ScopeDefs5.v
   (function definitions, closures, upvalue resolution through enclosing functions, back-patched jumps of if / for / try,
   break / continue).  Headline theorems: bridge_C06_stage5, C06_full_compile_scope_correct_stage5 (end of the file).
   Infrastructure (monad inversion, `emitted`, `crel`, `Lrel`, ...) is imported from FullBridgeC06Ind.v.
   See notes/FullBridge-C06.md. *)
From Coq Require Import Strings.Byte Strings.String Strings.Ascii.
From Coq Require Import List NArith ZArith Bool Arith Lia.
From Coq Require Import Floats.SpecFloat.
From YV Require Import Show Utf8 Num Ast Bytecode ParseLoc FullCompile FullBridgeC06Defs FullBridgeC06Names FullBridgeC06Ind.
From YV Require Upvalues Cells ScopeLang ScopeComp ScopeSim ScopeDefs2 ScopeDefsN ScopeFactsN ScopeCompN ScopeDefs5 ScopeFacts5
                ScopeComp5 ScopeRun ScopeStage5.
Import ListNotations.
Local Open Scope nat_scope.
Local Open Scope list_scope.
Local Open Scope comp_scope.

(* ------------------------------------------------------------------------------------------ *)
(* A. relations between the two compiler states *)

Definition upmap (U : SC.ups_t) : list (N * bool) := map (fun u : nat * bool => (N.of_nat (fst u), snd u)) U.
Definition urel (U : SC.ups_t) (ku : list (N * bool)) : Prop := ku = upmap U.
Definition levrel (lv : SN.lev) (k : comp) : Prop :=
  Lrel (SN.lv_locals lv) (k_locals k) /\ urel (SN.lv_ups lv) (k_upvalues k).
Definition Erel := Forall2 levrel.

(* an enclosing compiler changes only in its locals (is_captured flags) and its upvalue list *)
Definition same_nd (a b : list klocal) : Prop :=
  Forall2 (fun x y : klocal => kl_name x = kl_name y /\ kl_depth x = kl_depth y) a b.
Lemma same_nd_refl a : same_nd a a.
Proof. induction a; constructor; auto. Qed.
Lemma same_nd_trans a : forall b c, same_nd a b -> same_nd b c -> same_nd a c.
Proof.
  induction a as [|x a IH]; intros b c H G; inversion H; subst; inversion G; subst; constructor.
  - destruct H2, H3. split; congruence.
  - eapply IH; eassumption.
Qed.
Lemma capture_at_same_nd : forall n l, same_nd l (capture_at n l).
Proof.
  induction n as [|n IH]; intros [|x l]; cbn; try constructor; auto; try apply same_nd_refl. apply IH.
Qed.

Definition oframe (k k' : comp) : Prop :=
  k_code k' = k_code k /\ rest k' = rest (with_upvalues (with_locals k (k_locals k')) (k_upvalues k')) /\
  same_nd (k_locals k) (k_locals k').
Definition Oframe := Forall2 oframe.

Lemma oframe_refl k : oframe k k.
Proof. split; [reflexivity|]. split; [reflexivity|apply same_nd_refl]. Qed.
Lemma Oframe_refl l : Oframe l l.
Proof. induction l; constructor; [apply oframe_refl|assumption]. Qed.
Lemma oframe_trans a b c : oframe a b -> oframe b c -> oframe a c.
Proof.
  intros (H1 & H2 & H3) (G1 & G2 & G3). split; [congruence|]. split; [|eapply same_nd_trans; eassumption].
  unfold rest in *. cbn in *. injection H2; intros. injection G2; intros. congruence.
Qed.
Lemma Oframe_trans a : forall b c, Oframe a b -> Oframe b c -> Oframe a c.
Proof.
  induction a as [|x a IH]; intros b c H G; inversion H; subst; inversion G; subst; constructor.
  - eapply oframe_trans; eassumption.
  - eapply IH; eassumption.
Qed.

(* the general step of the current compiler: bytes appended, constants appended, locals / scope depth / upvalues /
   pending breaks replaced, everything else (kind, arity, in_try, try_depth, loop stack) unchanged *)
Definition gstep (s s' : cstate) (B : list N) (more : list const) (kl : list klocal) (d : nat)
                 (ups : list (N * bool)) (brk : list (list nat)) : Prop :=
  k_code (s_cur s') = k_code (s_cur s) ++ B /\
  rest (s_cur s') = (k_kind (s_cur s), k_arity (s_cur s), k_consts (s_cur s) ++ more, kl, ups, d,
                     k_in_try (s_cur s), k_try_depth (s_cur s), k_loops (s_cur s), brk).

Lemma gstep_trans s s1 s2 B1 B2 m1 m2 kl1 kl2 d1 d2 u1 u2 b1 b2 :
  gstep s s1 B1 m1 kl1 d1 u1 b1 -> gstep s1 s2 B2 m2 kl2 d2 u2 b2 -> gstep s s2 (B1 ++ B2) (m1 ++ m2) kl2 d2 u2 b2.
Proof.
  intros (H1 & H2) (G1 & G2). split; [now rewrite G1, H1, app_assoc|].
  rewrite G2. unfold rest in H2. injection H2; intros. rewrite app_assoc. congruence.
Qed.

Lemma gstep_fields s s' B more kl d ups brk : gstep s s' B more kl d ups brk ->
  k_consts (s_cur s') = k_consts (s_cur s) ++ more /\ k_locals (s_cur s') = kl /\ k_scope (s_cur s') = d /\
  k_upvalues (s_cur s') = ups /\ k_breaks (s_cur s') = brk /\ k_kind (s_cur s') = k_kind (s_cur s) /\
  k_in_try (s_cur s') = k_in_try (s_cur s) /\ k_try_depth (s_cur s') = k_try_depth (s_cur s) /\
  k_loops (s_cur s') = k_loops (s_cur s) /\ k_arity (s_cur s') = k_arity (s_cur s).
Proof. intros (_ & H). unfold rest in H. injection H; intros. repeat split; assumption. Qed.

(* a step that leaves locals, depth, upvalues and breaks alone *)
Definition estep (s s' : cstate) (B : list N) (more : list const) : Prop :=
  gstep s s' B more (k_locals (s_cur s)) (k_scope (s_cur s)) (k_upvalues (s_cur s)) (k_breaks (s_cur s)).

Lemma step_gstep s s' B more kl d : step s s' B more kl d ->
  gstep s s' B more kl d (k_upvalues (s_cur s)) (k_breaks (s_cur s)) /\ s_outer s' = s_outer s.
Proof. intros (H1 & H2 & H3). split; [split; [exact H1|]|exact H2]. rewrite H3. reflexivity. Qed.

Lemma step0_estep s s' B more : step0 s s' B more -> estep s s' B more /\ s_outer s' = s_outer s.
Proof. apply step_gstep. Qed.

Lemma estep_trans s s1 s2 B1 B2 m1 m2 : estep s s1 B1 m1 -> estep s1 s2 B2 m2 -> estep s s2 (B1 ++ B2) (m1 ++ m2).
Proof.
  unfold estep. intros H G. destruct (gstep_fields _ _ _ _ _ _ _ _ H) as (_ & E1 & E2 & E3 & E4 & _).
  rewrite E1, E2, E3, E4 in G. exact (gstep_trans _ _ _ _ _ _ _ _ _ _ _ _ _ _ _ H G).
Qed.

(* estep with a new upvalue list *)
Definition ustep (s s' : cstate) (B : list N) (more : list const) (ups : list (N * bool)) : Prop :=
  gstep s s' B more (k_locals (s_cur s)) (k_scope (s_cur s)) ups (k_breaks (s_cur s)).

Lemma ustep_trans s s1 s2 B1 B2 m1 m2 u1 u2 : ustep s s1 B1 m1 u1 -> ustep s1 s2 B2 m2 u2 -> ustep s s2 (B1 ++ B2) (m1 ++ m2) u2.
Proof.
  unfold ustep. intros H G. destruct (gstep_fields _ _ _ _ _ _ _ _ H) as (_ & E1 & E2 & E3 & E4 & _).
  rewrite E1, E2, E4 in G. exact (gstep_trans _ _ _ _ _ _ _ _ _ _ _ _ _ _ _ H G).
Qed.

Lemma estep_ustep s s' B more : estep s s' B more -> ustep s s' B more (k_upvalues (s_cur s)).
Proof. auto. Qed.

(* ------------------------------------------------------------------------------------------ *)
(* B. upvalues *)

Lemma N_of_nat_eqb a b : N.eqb (N.of_nat a) (N.of_nat b) = Nat.eqb a b.
Proof.
  destruct (Nat.eqb_spec a b) as [->|Hn]; [apply N.eqb_refl|]. apply N.eqb_neq. intros H. apply Nat2N.inj in H. contradiction.
Qed.

Lemma find_agree U idx isloc : forall pos, find_upvalue (upmap U) (N.of_nat idx) isloc pos = SC.find_up U idx isloc pos.
Proof.
  induction U as [|[i l] r IH]; intros pos; cbn [upmap map find_upvalue SC.find_up fst snd]; [reflexivity|].
  rewrite N_of_nat_eqb. destruct (Nat.eqb i idx && Bool.eqb l isloc); [reflexivity|]. apply IH.
Qed.

Lemma comp_eta c : c = with_upvalues c (k_upvalues c).
Proof. destruct c; reflexivity. Qed.

Lemma add_up_agree maxu U c idx isloc U1 k u c' :
  urel U (k_upvalues c) ->
  SC.add_upvalue maxu U idx isloc = (U1, k, false) ->
  add_upvalue c (N.of_nat idx) isloc = Some (u, c') ->
  u = N.of_nat k /\ urel U1 (k_upvalues c') /\ c' = with_upvalues c (k_upvalues c').
Proof.
  unfold urel, SC.add_upvalue, add_upvalue. intros Hu Hs Hf. rewrite Hu, find_agree in Hf.
  destruct (SC.find_up U idx isloc 0) as [p|].
  - inversion Hs; subst. inversion Hf; subst. repeat split; [exact Hu|apply comp_eta].
  - destruct (Nat.eqb (length U) maxu); [discriminate|]. inversion Hs; subst. clear Hs.
    unfold upmap in Hf. rewrite map_length in Hf. destruct (Nat.eqb (length U) UPVALUES_MAX); [discriminate|].
    inversion Hf; subst. clear Hf. repeat split.
    cbn. unfold upmap. rewrite map_app. reflexivity.
Qed.

Lemma resolve_local_lt L x slot b : SC.resolve_local L x = Some (slot, b) -> slot < length L.
Proof.
  induction L as [|l r IH]; cbn [SC.resolve_local]; [discriminate|].
  destruct (SC.name_is l x); [intros H; inversion H; subst; cbn; lia|]. intros H. apply IH in H. cbn. lia.
Qed.

Lemma capture_agree L kl slot : Lrel L kl -> slot < length L ->
  Lrel (SC.mark_captured L slot) (capture_at (length kl - 1 - slot) kl).
Proof.
  induction 1 as [|l k L0 kl0 (Hd & Hc & Hn) HL IH]; intros Hs; [constructor|].
  cbn [SC.mark_captured length]. pose proof (F2_length _ _ _ HL) as Hlen. cbn [length] in Hs.
  destruct (Nat.eqb_spec (length L0) slot) as [He|Hne].
  - replace (S (length kl0) - 1 - slot) with 0 by lia. cbn [capture_at].
    constructor; [|exact HL]. repeat split; cbn; auto.
  - replace (S (length kl0) - 1 - slot) with (S (length kl0 - 1 - slot)) by lia. cbn [capture_at].
    constructor; [repeat split; auto|]. apply IH. lia.
Qed.

Ltac bcur H :=
  let k := fresh "k" in let sk := fresh "sk" in let Hk := fresh "Hk" in
  apply bind_inv in H as (k & sk & Hk & H); unfold cur in Hk; inversion Hk; subst k sk; clear Hk.

Section Bridge.
Variable cf : SC.cfg.

(* Parser::resolve_upvalue: the pure recursion `rup` against resolve_upvalue_in *)
Lemma rup_agree x : forall E outer, Erel E outer -> forall U c, urel U (k_upvalues c) ->
  forall ok U' E', SN.rup cf x U E = Some (ok, U', E') ->
  match resolve_upvalue_in (tr_name x) c outer with
  | UFound i c' outer' =>
      exists k, ok = Some k /\ i = N.of_nat k /\ urel U' (k_upvalues c') /\ c' = with_upvalues c (k_upvalues c') /\
                Erel E' outer' /\ Oframe outer outer'
  | UNotFound => ok = None /\ U' = U /\ E' = E
  | UTooMany => True
  end.
Proof.
  induction 1 as [|lv e E0 outer0 (HLe & HUe) HE IH]; intros U c HU ok U' E' Hr.
  - cbn in Hr. inversion Hr; subst. cbn. auto.
  - cbn [SN.rup] in Hr. cbn [resolve_upvalue_in]. unfold resolve_local_c. rewrite (rl_agree _ _ x HLe).
    destruct (SC.resolve_local (SN.lv_locals lv) x) as [[slot [|]]|] eqn:Erl.
    + destruct (SC.add_upvalue (SC.c_upvalues_max cf) U slot true) as [[U1 k] ovf] eqn:Ea.
      destruct ovf; [discriminate|]. inversion Hr; subst. clear Hr.
      destruct (add_upvalue c (N.of_nat slot) true) as [[u c']|] eqn:Ef; [|exact I].
      destruct (add_up_agree _ _ _ _ _ _ _ _ _ HU Ea Ef) as (-> & HU1 & Hc').
      exists k. repeat split; auto.
      * constructor; [|exact HE]. split; [|exact HUe]. cbn [SN.lv_locals SN.lv_ups k_locals capture_slot with_locals].
        apply capture_agree; [exact HLe|]. eapply resolve_local_lt; eassumption.
      * constructor; [|apply Oframe_refl]. split; [reflexivity|]. split; [reflexivity|]. apply capture_at_same_nd.
    + specialize (IH (SN.lv_ups lv) e HUe).
      destruct (SN.rup cf x (SN.lv_ups lv) E0) as [[[ok1 Ul] E1]|] eqn:Er1; [|discriminate].
      specialize (IH _ _ _ eq_refl).
      destruct (resolve_upvalue_in (tr_name x) e outer0) as [i e' outer2| |].
      * destruct IH as (k1 & -> & -> & HUl & He' & HE1 & HO).
        destruct (SC.add_upvalue (SC.c_upvalues_max cf) U k1 false) as [[U1 k] ovf] eqn:Ea.
        destruct ovf; [discriminate|]. inversion Hr; subst. clear Hr.
        destruct (add_upvalue c (N.of_nat k1) false) as [[u c']|] eqn:Ef; [|exact I].
        destruct (add_up_agree _ _ _ _ _ _ _ _ _ HU Ea Ef) as (-> & HU1 & Hc').
        exists k. repeat split; auto.
        -- constructor; [|exact HE1]. split; [|exact HUl]. cbn [SN.lv_locals]. rewrite He'. exact HLe.
        -- constructor; [|exact HO]. rewrite He'. split; [reflexivity|]. split; [reflexivity|apply same_nd_refl].
      * destruct IH as (-> & _ & _). inversion Hr; subst. auto.
      * exact I.
    + specialize (IH (SN.lv_ups lv) e HUe).
      destruct (SN.rup cf x (SN.lv_ups lv) E0) as [[[ok1 Ul] E1]|] eqn:Er1; [|discriminate].
      specialize (IH _ _ _ eq_refl).
      destruct (resolve_upvalue_in (tr_name x) e outer0) as [i e' outer2| |].
      * destruct IH as (k1 & -> & -> & HUl & He' & HE1 & HO).
        destruct (SC.add_upvalue (SC.c_upvalues_max cf) U k1 false) as [[U1 k] ovf] eqn:Ea.
        destruct ovf; [discriminate|]. inversion Hr; subst. clear Hr.
        destruct (add_upvalue c (N.of_nat k1) false) as [[u c']|] eqn:Ef; [|exact I].
        destruct (add_up_agree _ _ _ _ _ _ _ _ _ HU Ea Ef) as (-> & HU1 & Hc').
        exists k. repeat split; auto.
        -- constructor; [|exact HE1]. split; [|exact HUl]. cbn [SN.lv_locals]. rewrite He'. exact HLe.
        -- constructor; [|exact HO]. rewrite He'. split; [reflexivity|]. split; [reflexivity|apply same_nd_refl].
      * destruct IH as (-> & _ & _). inversion Hr; subst. auto.
      * exact I.
Qed.

(* ------------------------------------------------------------------------------------------ *)
(* C. expressions, any compiler stack *)

(* what compiling an expression-like piece does: bytes decoding to `is`, constants (no function) appended, upvalue lists
   of the current and the enclosing compilers extended as the pure compiler says *)
Definition E_post (st st' : cstate) (is : list SC.instr) (U' : SC.ups_t) (E' : list SN.lev) : Prop :=
  exists B more, ustep st st' B more (k_upvalues (s_cur st')) /\ urel U' (k_upvalues (s_cur st')) /\
    Erel E' (s_outer st') /\ Oframe (s_outer st) (s_outer st') /\ Forall nofun more /\
    forall KS FM, ext (k_consts (s_cur st')) KS -> crel KS FM B is.

Lemma ustep_keep s s' B more ups : ustep s s' B more ups ->
  k_locals (s_cur s') = k_locals (s_cur s) /\ k_consts (s_cur s') = k_consts (s_cur s) ++ more /\
  k_upvalues (s_cur s') = ups /\ k_scope (s_cur s') = k_scope (s_cur s).
Proof. intros H. destruct (gstep_fields _ _ _ _ _ _ _ _ H) as (H1 & H2 & H3 & H4 & _). auto. Qed.

Lemma E_post_locals st st' is U E : E_post st st' is U E -> k_locals (s_cur st') = k_locals (s_cur st).
Proof. intros (B & more & Hs & _). now destruct (ustep_keep _ _ _ _ _ Hs). Qed.

Lemma E_post_of_step0 st st' B more is U E :
  step0 st st' B more -> Forall nofun more ->
  (forall KS FM, ext (k_consts (s_cur st')) KS -> crel KS FM B is) ->
  urel U (k_upvalues (s_cur st)) -> Erel E (s_outer st) -> E_post st st' is U E.
Proof.
  intros Hs Hn Hk HU HE. destruct (step0_estep _ _ _ _ Hs) as (He & Ho).
  pose proof (estep_ustep _ _ _ _ He) as Hu. destruct (ustep_keep _ _ _ _ _ Hu) as (_ & _ & Hups & _).
  exists B, more. rewrite Hups, Ho. split; [exact Hu|]. split; [exact HU|]. split; [exact HE|].
  split; [apply Oframe_refl|]. split; [exact Hn|exact Hk].
Qed.

Lemma E_post_seq st s1 st' c1 c2 U1 E1 U2 E2 :
  E_post st s1 c1 U1 E1 -> E_post s1 st' c2 U2 E2 -> E_post st st' (c1 ++ c2) U2 E2.
Proof.
  intros (B1 & m1 & Hs1 & HU1 & HE1 & HO1 & Hn1 & Hk1) (B2 & m2 & Hs2 & HU2 & HE2 & HO2 & Hn2 & Hk2).
  exists (B1 ++ B2), (m1 ++ m2). split; [exact (ustep_trans _ _ _ _ _ _ _ _ _ Hs1 Hs2)|].
  split; [exact HU2|]. split; [exact HE2|]. split; [exact (Oframe_trans _ _ _ HO1 HO2)|].
  split; [apply Forall_app; auto|].
  intros KS FM He. destruct (ustep_keep _ _ _ _ _ Hs2) as (_ & Hc & _).
  apply crel_app; [apply Hk1|apply Hk2; exact He]. rewrite Hc in He. eapply ext_trans; [apply ext_app|exact He].
Qed.

Lemma E_post_emit st st' B is U E :
  emitted st st' B -> (forall KS FM, ext (k_consts (s_cur st')) KS -> crel KS FM B is) ->
  urel U (k_upvalues (s_cur st)) -> Erel E (s_outer st) -> E_post st st' is U E.
Proof. intros He Hk. apply (E_post_of_step0 st st' B []); [now apply emitted_step|constructor|exact Hk]. Qed.

Lemma E_post_rel st st' is U E : E_post st st' is U E ->
  urel U (k_upvalues (s_cur st')) /\ Erel E (s_outer st').
Proof. intros (B & more & _ & HU & HE & _). auto. Qed.

(* resolve_variable against rvn *)
Lemma rvg L U E x r U' E' l st g so arg st' :
  Lrel L (k_locals (s_cur st)) -> urel U (k_upvalues (s_cur st)) -> Erel E (s_outer st) ->
  SN.rvn cf L U E x = Some (r, U', E') ->
  resolve_variable (tr_name x) l st = COk ((g, so, arg), st') ->
  E_post st st' [] U' E' /\
  forall KS FM, ext (k_consts (s_cur st')) KS ->
    one KS FM (vbytes g arg) (SC.get_op r x) /\ one KS FM (vbytes so arg) (SC.set_op r x).
Proof.
  intros HL HU HE Hr H. unfold resolve_variable in H. bcur H.
  unfold resolve_local_c in H. rewrite (rl_agree _ _ x HL) in H. unfold SN.rvn in Hr.
  destruct (SC.resolve_local L x) as [[sl [|]]|].
  - inversion Hr; subst. inversion H; subst. split.
    + apply (E_post_emit st' st' [] []); auto; [apply emitted_refl|intros; constructor].
    + intros KS FM _. split; (split; [reflexivity|]); intros r0; cbn; rewrite Nat2N.id; reflexivity.
  - discriminate.
  - apply bind_inv in H as (s0 & s1 & Hg & H). unfold cget in Hg. inversion Hg; subst s0 s1. clear Hg.
    destruct (SN.rup cf x U E) as [[[ok U1] E1]|] eqn:Er; [|discriminate].
    pose proof (rup_agree x E (s_outer st) HE U (s_cur st) HU _ _ _ Er) as Ha.
    destruct (resolve_upvalue_in (tr_name x) (s_cur st) (s_outer st)) as [i c' outer'| |].
    + destruct Ha as (k & -> & -> & HU1 & Hc' & HE1 & HO). inversion Hr; subst r U' E'. clear Hr.
      binv H. inversion H0; subst a s. clear H0. inversion H; subst g so arg st'. clear H. split.
      * exists [], []. cbn [s_cur s_outer]. repeat split; auto.
        -- now rewrite app_nil_r, Hc'.
        -- rewrite Hc' at 1. unfold rest. cbn. now rewrite app_nil_r.
        -- intros; constructor.
      * intros KS FM _. split; (split; [reflexivity|]); intros r0; cbn; rewrite Nat2N.id; reflexivity.
    + destruct Ha as (-> & -> & ->). inversion Hr; subst r U' E'. clear Hr.
      binv H. apply set_line_e in H0. apply bind_inv in H as (gi & s3 & H2 & H). unfold identifier_constant in H2.
      apply make_constant_e in H2 as (more & Hg & Hm & d & Hd & Hc).
      inversion H; subst. clear H.
      apply emitted_step in H0. apply grow_step in Hg. pose proof (step0_trans _ _ _ _ _ _ _ H0 Hg) as Hs.
      split.
      * apply (E_post_of_step0 _ _ _ _ _ _ _ Hs); auto; [destruct Hm as [->| ->]; repeat constructor|intros; constructor].
      * intros KS FM He. pose proof (ext_nth _ _ _ _ He (const_str_nth _ _ _ _ Hd Hc)) as Hk.
        destruct (one_global KS FM _ _ Hk) as (G1 & G2 & _). split; assumption.
    + discriminate.
Qed.

Definition E_goal (e : SL.expr) : Prop :=
  ScopeDefs2.expr2 e = true -> expr_repr_ok e = true ->
  forall L U E ce U' E' st st',
    SN.nexpr cf L e U E = Some (ce, U', E') ->
    cexpr (tr_expr e) st = COk (tt, st') ->
    Lrel L (k_locals (s_cur st)) -> urel U (k_upvalues (s_cur st)) -> Erel E (s_outer st) ->
    E_post st st' ce U' E'.

Lemma named_get_g L U E x r U' E' l st st' :
  Lrel L (k_locals (s_cur st)) -> urel U (k_upvalues (s_cur st)) -> Erel E (s_outer st) ->
  SN.rvn cf L U E x = Some (r, U', E') ->
  named_get (tr_name x) l st = COk (tt, st') ->
  E_post st st' [SC.get_op r x] U' E'.
Proof.
  intros HL HU HE Hr H. unfold named_get in H. binv H. destruct a as [[g so] arg].
  destruct (rvg _ _ _ _ _ _ _ _ _ _ _ _ _ HL HU HE Hr H0) as (Hp & Hone).
  destruct (E_post_rel _ _ _ _ _ Hp) as (HU1 & HE1).
  apply emit_variable_op_e in H.
  change [SC.get_op r x] with ([] ++ [SC.get_op r x]). eapply E_post_seq; [exact Hp|].
  apply (E_post_emit _ _ _ _ _ _ H); auto.
  intros KS FM He. apply crel_one. apply Hone.
  destruct H as (_ & Hrest & _). unfold rest in Hrest. injection Hrest; intros. congruence.
Qed.

Lemma emitted_consts s s' B : emitted s s' B -> k_consts (s_cur s') = k_consts (s_cur s).
Proof. intros (_ & H & _). unfold rest in H. injection H; intros. assumption. Qed.

Lemma E_allg : forall e, E_goal e.
Proof.
  induction e using expr_nind; unfold E_goal; intros Hf Hr L U E ce U' E' st st' Hn Hc HL HU HE.
  - (* ELit *)
    cbn in Hn. inversion Hn; subst. cbn [tr_expr cexpr] in Hc. unfold emit_constant in Hc. binv Hc. apply set_line_e in Hc0.
    apply bind_inv in Hc as (ci & s1 & Hmk & Hc). apply make_constant_e in Hmk as (more & Hg & Hm & d & Hd & Hcq).
    apply emit_op16_e in Hc.
    assert (Hs : step0 st st' (([] ++ []) ++ [opb OpConstant; N.modulo ci 256; N.div ci 256]%N) (([] ++ more) ++ [])).
    { eapply step0_trans; [eapply step0_trans; [apply emitted_step; eassumption|apply grow_step; eassumption]|apply emitted_step; eassumption]. }
    apply (E_post_of_step0 _ _ _ _ _ _ _ Hs); auto.
    + rewrite app_nil_r. cbn [app]. destruct Hm as [->| ->]; repeat constructor.
    + intros KS FM He. cbn [app]. apply crel_one.
      destruct (const_num_nth _ _ _ _ Hd Hcq) as (y & Hy & Hu).
      rewrite (emitted_consts _ _ _ Hc) in He.
      apply (one_const KS FM ci n y); [exact (ext_nth _ _ _ _ He Hy)|].
      rewrite Hu. apply lit_ok_num. exact Hr.
  - (* EVar *)
    cbn [SN.nexpr] in Hn. destruct (SN.rvn cf L U E x) as [[[r U1] E1]|] eqn:Er; [|discriminate].
    inversion Hn; subst. cbn [tr_expr cexpr] in Hc.
    exact (named_get_g _ _ _ _ _ _ _ _ _ _ HL HU HE Er Hc).
  - (* EAdd *)
    cbn [ScopeDefs2.expr2] in Hf. apply andb_prop in Hf as [Hf1 Hf2].
    cbn [expr_repr_ok] in Hr. apply andb_prop in Hr as [Hr1 Hr2].
    cbn [SN.nexpr] in Hn.
    destruct (SN.nexpr cf L e1 U E) as [[[ca U1] E1]|] eqn:Ea; [|discriminate].
    destruct (SN.nexpr cf L e2 U1 E1) as [[[cb U2] E2]|] eqn:Eb; [|discriminate].
    inversion Hn; subst. clear Hn.
    cbn [tr_expr cexpr] in Hc. binv Hc. destruct a. binv Hc. destruct a.
    pose proof (IHe1 Hf1 Hr1 _ _ _ _ _ _ _ _ Ea Hc0 HL HU HE) as P1.
    destruct (E_post_rel _ _ _ _ _ P1) as (HU1 & HE1). rewrite <- (E_post_locals _ _ _ _ _ P1) in HL.
    pose proof (IHe2 Hf2 Hr2 _ _ _ _ _ _ _ _ Eb Hc1 HL HU1 HE1) as P2.
    destruct (E_post_rel _ _ _ _ _ P2) as (HU2 & HE2).
    cbn [binop_ops] in Hc. apply emit_ops_e in Hc. cbn [map] in Hc.
    eapply E_post_seq; [exact P1|]. eapply E_post_seq; [exact P2|].
    apply (E_post_emit _ _ _ _ _ _ Hc); auto. intros; apply crel_one; one_simple.
  - (* ECall *)
    cbn [ScopeDefs2.expr2] in Hf. cbn [expr_repr_ok] in Hr. apply andb_prop in Hr as [_ Hr].
    rewrite ScopeFactsN.nexpr_call in Hn.
    destruct (SN.rvn cf L U E f) as [[[r U0] E0]|] eqn:Er; [|discriminate].
    destruct (SN.nargs cf L args U0 E0) as [[[cargs' U3] E3]|] eqn:Ea; [|discriminate].
    inversion Hn; subst. clear Hn.
    rewrite tr_expr_call in Hc. cbn [cexpr] in Hc. binv Hc. destruct a.
    pose proof (named_get_g _ _ _ _ _ _ _ _ _ _ HL HU HE Er Hc0) as P0.
    destruct (E_post_rel _ _ _ _ _ P0) as (HU0 & HE0). rewrite <- (E_post_locals _ _ _ _ _ P0) in HL.
    apply bind_inv in Hc as (n & s1 & Hca & Hc). binv Hc.
    assert (HA : forall args, Forall E_goal args -> forallb ScopeDefs2.expr2 args = true -> forallb expr_repr_ok args = true ->
               forall U E ca U3 E3 st st' n, SN.nargs cf L args U E = Some (ca, U3, E3) ->
               FullCompile.cargs (tr_args args) st = COk (n, st') ->
               Lrel L (k_locals (s_cur st)) -> urel U (k_upvalues (s_cur st)) -> Erel E (s_outer st) ->
               n = N.of_nat (length args) /\ E_post st st' ca U3 E3).
    { clear. induction 1 as [|e r He Hr IH]; intros Hf Hp U E ca U3 E3 st st' n Hn Hc HL HU HE.
      - cbn in Hn, Hc. inversion Hn; inversion Hc; subst. split; [reflexivity|].
        apply (E_post_emit st' st' [] []); auto; [apply emitted_refl|intros; constructor].
      - cbn [forallb] in Hf, Hp. apply andb_prop in Hf as [Hf1 Hf2]. apply andb_prop in Hp as [Hp1 Hp2].
        cbn [SN.nargs] in Hn. destruct (SN.nexpr cf L e U E) as [[[c1 U1] E1]|] eqn:E1'; [|discriminate].
        destruct (SN.nargs cf L r U1 E1) as [[[c2 U2] E2]|] eqn:E2'; [|discriminate].
        inversion Hn; subst. clear Hn.
        cbn [tr_args FullCompile.cargs] in Hc. binv Hc. destruct a. apply bind_inv in Hc as (n1 & s2 & Hc1 & Hc). inversion Hc; subst. clear Hc.
        pose proof (He Hf1 Hp1 _ _ _ _ _ _ _ _ E1' Hc0 HL HU HE) as P1.
        destruct (E_post_rel _ _ _ _ _ P1) as (HU1 & HE1). rewrite <- (E_post_locals _ _ _ _ _ P1) in HL.
        destruct (IH Hf2 Hp2 _ _ _ _ _ _ _ _ E2' Hc1 HL HU1 HE1) as (-> & P2).
        split; [cbn [length]; rewrite Nat2N.inj_succ; lia|]. eapply E_post_seq; eassumption. }
    destruct (HA args H Hf Hr _ _ _ _ _ _ _ _ Ea Hca HL HU0 HE0) as (-> & P1).
    destruct (E_post_rel _ _ _ _ _ P1) as (HU1 & HE1).
    unfold check_count in Hc1. destruct (N.ltb 255 (N.of_nat (length args))); [discriminate|].
    unfold cret in Hc1. inversion Hc1; subst. clear Hc1. apply emit_op8_e in Hc.
    change (SC.get_op r f :: cargs' ++ [SC.ICall (length args)]) with ([SC.get_op r f] ++ cargs' ++ [SC.ICall (length args)]).
    eapply E_post_seq; [exact P0|]. eapply E_post_seq; [exact P1|].
    apply (E_post_emit _ _ _ _ _ _ Hc); auto.
    intros KS FM _. apply crel_one. split; [reflexivity|]. intros r0. cbn. rewrite Nat2N.id. reflexivity.
  - discriminate.
  - discriminate.
Qed.

(* ------------------------------------------------------------------------------------------ *)
(* D. statements: pending break jumps, function numbering, pre / post conditions *)

(* the bytes a statement appends: plain bytes, and the two operand bytes of a `break` jump that is still pending
   (its operand position p is in the head of k_breaks; pop_loop will write the distance to the loop exit there) *)
Inductive item := IB (b : N) | IHole (p : nat) | IJ (p v : nat).
(* IJ p v: the operand bytes (at position p) of a forward jump of the statement being compiled that is still unpatched
   (ff ff in the code) and will be patched to the distance v *)
Definition raw (T : list item) : list N :=
  flat_map (fun i => match i with IB b => [b] | IHole _ => [255; 255]%N | IJ _ _ => [255; 255]%N end) T.
Definition filled (ex : nat) (T : list item) : list N :=
  flat_map (fun i => match i with IB b => [b] | IHole p => u16le (ex - p - 2) | IJ _ v => u16le v end) T.
Definition holes (T : list item) : list nat :=
  flat_map (fun i => match i with IHole p => [p] | _ => [] end) T.
Fixpoint wfT (pos : nat) (T : list item) : Prop :=
  match T with
  | [] => True
  | IB _ :: r => wfT (S pos) r
  | IHole p :: r => p = pos /\ wfT (pos + 2) r
  | IJ p _ :: r => p = pos /\ wfT (pos + 2) r
  end.
Definition noIJ (T : list item) : Prop := Forall (fun i => match i with IJ _ _ => False | _ => True end) T.

Lemma raw_app a b : raw (a ++ b) = raw a ++ raw b. Proof. apply flat_map_app. Qed.
Lemma filled_app ex a b : filled ex (a ++ b) = filled ex a ++ filled ex b. Proof. apply flat_map_app. Qed.
Lemma holes_app a b : holes (a ++ b) = holes a ++ holes b. Proof. apply flat_map_app. Qed.
Lemma noIJ_app a b : noIJ a -> noIJ b -> noIJ (a ++ b). Proof. intros. apply Forall_app. auto. Qed.
Lemma raw_IB B : raw (map IB B) = B.
Proof. induction B as [|x r IH]; [reflexivity|]. cbn. unfold raw in IH. now rewrite IH. Qed.
Lemma filled_IB ex B : filled ex (map IB B) = B.
Proof. induction B as [|x r IH]; [reflexivity|]. cbn. unfold filled in IH. now rewrite IH. Qed.
Lemma holes_IB B : holes (map IB B) = [].
Proof. induction B as [|x r IH]; [reflexivity|]. cbn. exact IH. Qed.
Lemma noIJ_IB B : noIJ (map IB B).
Proof. induction B as [|x r IH]; constructor; auto. Qed.
Lemma wfT_IB B : forall pos, wfT pos (map IB B).
Proof. induction B as [|x r IH]; intros pos; cbn; auto. Qed.
Lemma wfT_app a : forall pos b, wfT pos a -> wfT (pos + length (raw a)) b -> wfT pos (a ++ b).
Proof.
  induction a as [|[x|p|p v] r IH]; intros pos b Ha Hb; cbn [app].
  - cbn in Hb. now rewrite Nat.add_0_r in Hb.
  - cbn [wfT] in *. apply IH; [exact Ha|]. cbn in Hb. replace (S pos + length (raw r)) with (pos + S (length (raw r))) by lia. exact Hb.
  - cbn [wfT] in *. destruct Ha as [-> Ha]. split; [reflexivity|]. apply IH; [exact Ha|]. cbn in Hb.
    replace (pos + 2 + length (raw r)) with (pos + S (S (length (raw r)))) by lia. exact Hb.
  - cbn [wfT] in *. destruct Ha as [-> Ha]. split; [reflexivity|]. apply IH; [exact Ha|]. cbn in Hb.
    replace (pos + 2 + length (raw r)) with (pos + S (S (length (raw r)))) by lia. exact Hb.
Qed.
Lemma wfT_app_inv a : forall pos b, wfT pos (a ++ b) -> wfT pos a /\ wfT (pos + length (raw a)) b.
Proof.
  induction a as [|[x|p|p v] r IH]; intros pos b H; cbn [app] in H.
  - cbn. rewrite Nat.add_0_r. auto.
  - cbn [wfT] in *. destruct (IH _ _ H) as [H1 H2]. split; [exact H1|].
    change (raw (IB x :: r)) with (x :: raw r). cbn [length]. rewrite Nat.add_succ_r. exact H2.
  - cbn [wfT] in *. destruct H as [-> H]. destruct (IH _ _ H) as [H1 H2]. split; [auto|].
    change (raw (IHole pos :: r)) with (255%N :: 255%N :: raw r). cbn [length]. rewrite !Nat.add_succ_r.
    replace (S (S (pos + length (raw r)))) with (pos + 2 + length (raw r)) by lia. exact H2.
  - cbn [wfT] in *. destruct H as [-> H]. destruct (IH _ _ H) as [H1 H2]. split; [auto|].
    change (raw (IJ pos v :: r)) with (255%N :: 255%N :: raw r). cbn [length]. rewrite !Nat.add_succ_r.
    replace (S (S (pos + length (raw r)))) with (pos + 2 + length (raw r)) by lia. exact H2.
Qed.
Lemma raw_filled_len ex T : length (filled ex T) = length (raw T).
Proof. induction T as [|[x|p|p v] r IH]; [reflexivity| | |]; cbn; rewrite ?app_length; cbn; unfold raw, filled in IH; lia. Qed.

Definition push_holes (hs : list nat) (brk : list (list nat)) : list (list nat) :=
  match brk with b0 :: br => (rev hs ++ b0) :: br | [] => [] end.
Lemma push_holes_nil brk : push_holes [] brk = brk.
Proof. destruct brk; reflexivity. Qed.
Lemma push_holes_app h1 h2 brk : push_holes (h1 ++ h2) brk = push_holes h2 (push_holes h1 brk).
Proof. destruct brk as [|b0 br]; [reflexivity|]. cbn. now rewrite rev_app_distr, app_assoc. Qed.

(* the innermost loop of the pure compiler against loop_stack / break_stack *)
Definition lcrel (inloop : bool) (lc : option SN.lctx) (c : comp) : Prop :=
  match lc with
  | None => True
  | Some l => exists td rl b0 br, k_loops c = (SN.lc_start l, SN.lc_depth l, td) :: rl /\ k_breaks c = b0 :: br /\
                                  (inloop = true -> td = k_try_depth c) /\ SN.lc_start l <= length (k_code c)
  end.
Definition lc_exit_of (lc : option SN.lctx) : nat := match lc with Some l => SN.lc_exit l | None => 0 end.

Record S_pre (st : cstate) (L : list SC.local) (d : nat) (U : SC.ups_t) (E : list SN.lev) (fs : list SC.func)
             (pos : nat) (lc : option SN.lctx) (base : nat) (pre : list SC.func) (infun inloop : bool) : Prop := mkPre {
  p_L : Lrel L (k_locals (s_cur st));
  p_U : urel U (k_upvalues (s_cur st));
  p_E : Erel E (s_outer st);
  p_d : k_scope (s_cur st) = d;
  p_pos : pos = length (k_code (s_cur st));
  p_num : exists fs0 fm, dec_consts (k_consts (s_cur st)) base = Some (fs0, fm) /\ fs = pre ++ fs0;
  p_base : length pre = base;
  p_fun : infun = true -> k_in_try (s_cur st) = false /\ k_kind (s_cur st) = KFunction;
  p_lc : lcrel inloop lc (s_cur st);
  p_len : length (k_locals (s_cur st)) <= 256
}.

Definition S_postT (T : list item) (more : list const) (kl' : list klocal)
                   (st st' : cstate) (d pos : nat) (lc : option SN.lctx) (code : list SC.instr)
                   (L' : list SC.local) (U' : SC.ups_t) (E' : list SN.lev) (base : nat) (pre fs' : list SC.func) : Prop :=
    gstep st st' (raw T) more kl' d (k_upvalues (s_cur st')) (push_holes (holes T) (k_breaks (s_cur st))) /\
    wfT pos T /\ (lc = None -> holes T = []) /\
    Lrel L' kl' /\ urel U' (k_upvalues (s_cur st')) /\ Erel E' (s_outer st') /\ Oframe (s_outer st) (s_outer st') /\
    length kl' <= 256 /\
    exists fs0' fm', dec_consts (k_consts (s_cur st')) base = Some (fs0', fm') /\ fs' = pre ++ fs0' /\
      forall KS FM, ext (k_consts (s_cur st')) KS -> ext fm' FM -> crel KS FM (filled (lc_exit_of lc) T) code.

(* the post-condition of a whole statement: no forward jump of its own is left unpatched *)
Definition S_post (st st' : cstate) (d pos : nat) (lc : option SN.lctx) (code : list SC.instr)
                  (L' : list SC.local) (U' : SC.ups_t) (E' : list SN.lev) (base : nat) (pre fs' : list SC.func) : Prop :=
  exists T more kl', noIJ T /\ S_postT T more kl' st st' d pos lc code L' U' E' base pre fs'.

Lemma dec_consts_len ks : forall base fs0 fm, dec_consts ks base = Some (fs0, fm) -> length fm = length ks.
Proof.
  induction ks as [|c r IH]; intros base fs0 fm H; cbn [dec_consts] in H; [inversion H; reflexivity|].
  destruct c as [x|s|g].
  - destruct (dec_consts r base) as [[fs1 fm1]|] eqn:E1; [|discriminate]. inversion H; subst. cbn. f_equal. eapply IH; eassumption.
  - destruct (dec_consts r base) as [[fs1 fm1]|] eqn:E1; [|discriminate]. inversion H; subst. cbn. f_equal. eapply IH; eassumption.
  - destruct (dec_func g base) as [lg|]; [|discriminate].
    destruct (dec_consts r (base + length lg)) as [[fs1 fm1]|] eqn:E1; [|discriminate]. inversion H; subst. cbn. f_equal. eapply IH; eassumption.
Qed.

Lemma dec_consts_app ks : forall base fs0 fm more fs1 fm1,
  dec_consts ks base = Some (fs0, fm) -> dec_consts more (base + length fs0) = Some (fs1, fm1) ->
  dec_consts (ks ++ more) base = Some (fs0 ++ fs1, fm ++ fm1).
Proof.
  induction ks as [|c r IH]; intros base fs0 fm more fs1 fm1 H G; cbn [dec_consts app] in *.
  - inversion H; subst. cbn in G. rewrite Nat.add_0_r in G. exact G.
  - destruct c as [x|s|g].
    + destruct (dec_consts r base) as [[fs2 fm2]|] eqn:E2; [|discriminate]. inversion H; subst.
      rewrite (IH _ _ _ _ _ _ E2 G). reflexivity.
    + destruct (dec_consts r base) as [[fs2 fm2]|] eqn:E2; [|discriminate]. inversion H; subst.
      rewrite (IH _ _ _ _ _ _ E2 G). reflexivity.
    + destruct (dec_func g base) as [lg|]; [|discriminate].
      destruct (dec_consts r (base + length lg)) as [[fs2 fm2]|] eqn:E2; [|discriminate]. inversion H; subst.
      rewrite app_length, Nat.add_assoc in G. rewrite (IH _ _ _ _ _ _ E2 G). now rewrite app_assoc.
Qed.

Lemma dec_consts_nofun ks base fs0 fm more :
  dec_consts ks base = Some (fs0, fm) -> Forall nofun more ->
  dec_consts (ks ++ more) base = Some (fs0, fm ++ repeat 0 (length more)).
Proof.
  intros H Hn. rewrite (dec_consts_app _ _ _ _ _ _ _ H (nofun_consts more Hn _)). now rewrite app_nil_r.
Qed.

Lemma dec_consts_ext ks : forall mm b fa fma fb fmb,
  dec_consts ks b = Some (fa, fma) -> dec_consts (ks ++ mm) b = Some (fb, fmb) -> ext fma fmb.
Proof.
  induction ks as [|c r IH]; intros mm b fa fma fb fmb Hda Hdb; cbn [dec_consts app] in *.
  - inversion Hda; subst. exists fmb. reflexivity.
  - destruct c as [x|s|g].
    + destruct (dec_consts r b) as [[f1 g1]|] eqn:E1; [|discriminate]. inversion Hda; subst.
      destruct (dec_consts (r ++ mm) b) as [[f2 g2]|] eqn:E2; [|discriminate]. inversion Hdb; subst.
      destruct (IH _ _ _ _ _ _ E1 E2) as [w ->]. exists w. reflexivity.
    + destruct (dec_consts r b) as [[f1 g1]|] eqn:E1; [|discriminate]. inversion Hda; subst.
      destruct (dec_consts (r ++ mm) b) as [[f2 g2]|] eqn:E2; [|discriminate]. inversion Hdb; subst.
      destruct (IH _ _ _ _ _ _ E1 E2) as [w ->]. exists w. reflexivity.
    + destruct (dec_func g b) as [lg|]; [|discriminate].
      destruct (dec_consts r (b + length lg)) as [[f1 g1]|] eqn:E1; [|discriminate]. inversion Hda; subst.
      destruct (dec_consts (r ++ mm) (b + length lg)) as [[f2 g2]|] eqn:E2; [|discriminate]. inversion Hdb; subst.
      destruct (IH _ _ _ _ _ _ E1 E2) as [w ->]. exists w. reflexivity.
Qed.

(* a statement that defines no function and leaves no pending jump *)
Lemma S_post_build st st' d pos lc B more kl' code L' U' E' base pre fs :
  gstep st st' B more kl' d (k_upvalues (s_cur st')) (k_breaks (s_cur st)) -> Forall nofun more ->
  Lrel L' kl' -> length kl' <= 256 -> urel U' (k_upvalues (s_cur st')) -> Erel E' (s_outer st') -> Oframe (s_outer st) (s_outer st') ->
  (exists fs0 fm, dec_consts (k_consts (s_cur st)) base = Some (fs0, fm) /\ fs = pre ++ fs0) ->
  (forall KS FM, ext (k_consts (s_cur st')) KS -> crel KS FM B code) ->
  S_post st st' d pos lc code L' U' E' base pre fs.
Proof.
  intros Hg Hn HL Hlen HU HE HO (fs0 & fm & Hd & Hfs) Hk.
  exists (map IB B), more, kl'. split; [apply noIJ_IB|]. unfold S_postT. rewrite raw_IB, holes_IB, push_holes_nil.
  split; [exact Hg|]. split; [apply wfT_IB|]. split; [reflexivity|]. split; [exact HL|]. split; [exact HU|].
  split; [exact HE|]. split; [exact HO|]. split; [exact Hlen|].
  destruct (gstep_fields _ _ _ _ _ _ _ _ Hg) as (Hc & _).
  exists fs0, (fm ++ repeat 0 (length more)). split; [rewrite Hc; now apply dec_consts_nofun|]. split; [exact Hfs|].
  intros KS FM He _. rewrite filled_IB. now apply Hk.
Qed.

Lemma S_post_of_E st st' L d pos lc is U' E' base pre fs :
  E_post st st' is U' E' -> Lrel L (k_locals (s_cur st)) -> length (k_locals (s_cur st)) <= 256 -> k_scope (s_cur st) = d ->
  (exists fs0 fm, dec_consts (k_consts (s_cur st)) base = Some (fs0, fm) /\ fs = pre ++ fs0) ->
  S_post st st' d pos lc is L U' E' base pre fs.
Proof.
  intros (B & more & Hs & HU & HE & HO & Hn & Hk) HL Hlen Hd Hnum.
  unfold ustep in Hs. rewrite Hd in Hs.
  eapply S_post_build; eauto.
Qed.

Lemma S_postT_len T more kl' st st' d pos lc code L' U' E' base pre fs' :
  S_postT T more kl' st st' d pos lc code L' U' E' base pre fs' ->
  length (raw T) = SC.code_size code /\ length (k_code (s_cur st')) = length (k_code (s_cur st)) + SC.code_size code.
Proof.
  intros ((Hc & _) & _ & _ & _ & _ & _ & _ & _ & fs0' & fm' & _ & _ & Hk).
  assert (Hl : length (raw T) = SC.code_size code).
  { rewrite <- (raw_filled_len (lc_exit_of lc)). eapply crel_len. apply (Hk _ _ (ext_refl _) (ext_refl _)). }
  split; [exact Hl|]. rewrite Hc, app_length. lia.
Qed.

Lemma S_post_len st st' d pos lc code L' U' E' base pre fs' :
  S_post st st' d pos lc code L' U' E' base pre fs' ->
  length (k_code (s_cur st')) = length (k_code (s_cur st)) + SC.code_size code.
Proof. intros (T & more & kl' & _ & P). now destruct (S_postT_len _ _ _ _ _ _ _ _ _ _ _ _ _ _ _ P). Qed.

Lemma S_postT_seq T1 m1 kl1 T2 m2 kl2 st s1 st' d1 d pos lc c1 c2 L1 U1 E1 L2 U2 E2 base pre fs1 fs2 :
  S_postT T1 m1 kl1 st s1 d1 pos lc c1 L1 U1 E1 base pre fs1 ->
  S_postT T2 m2 kl2 s1 st' d (pos + SC.code_size c1) lc c2 L2 U2 E2 base pre fs2 ->
  S_postT (T1 ++ T2) (m1 ++ m2) kl2 st st' d pos lc (c1 ++ c2) L2 U2 E2 base pre fs2.
Proof.
  intros P1 P2. destruct (S_postT_len _ _ _ _ _ _ _ _ _ _ _ _ _ _ _ P1) as (Hlen1 & _).
  destruct P1 as (Hg1 & Hw1 & Hh1 & HL1 & HU1 & HE1 & HO1 & Hn1 & fa & fma & Hda & Hfa & Hk1).
  destruct P2 as (Hg2 & Hw2 & Hh2 & HL2 & HU2 & HE2 & HO2 & Hn2 & fb & fmb & Hdb & Hfb & Hk2).
  unfold S_postT. rewrite raw_app, holes_app, push_holes_app.
  destruct (gstep_fields _ _ _ _ _ _ _ _ Hg1) as (Hc1 & _ & _ & _ & Hb1 & _).
  split. { rewrite Hb1 in Hg2. exact (gstep_trans _ _ _ _ _ _ _ _ _ _ _ _ _ _ _ Hg1 Hg2). }
  split. { apply wfT_app; [exact Hw1|]. rewrite Hlen1. exact Hw2. }
  split. { intros Hn. now rewrite (Hh1 Hn), (Hh2 Hn). }
  split; [exact HL2|]. split; [exact HU2|]. split; [exact HE2|]. split; [exact (Oframe_trans _ _ _ HO1 HO2)|]. split; [exact Hn2|].
  exists fb, fmb. split; [exact Hdb|]. split; [exact Hfb|].
  intros KS FM He Hf. rewrite filled_app.
  destruct (gstep_fields _ _ _ _ _ _ _ _ Hg2) as (Hc2 & _).
  assert (Hfm : ext fma fmb) by (rewrite Hc2 in Hdb; exact (dec_consts_ext _ _ _ _ _ _ _ Hda Hdb)).
  apply crel_app; [apply Hk1|apply Hk2; assumption].
  - rewrite Hc2 in He. eapply ext_trans; [apply ext_app|exact He].
  - eapply ext_trans; eassumption.
Qed.

Lemma S_post_seq st s1 st' d1 d pos lc c1 c2 L1 U1 E1 L2 U2 E2 base pre fs1 fs2 :
  S_post st s1 d1 pos lc c1 L1 U1 E1 base pre fs1 ->
  S_post s1 st' d (pos + SC.code_size c1) lc c2 L2 U2 E2 base pre fs2 ->
  S_post st st' d pos lc (c1 ++ c2) L2 U2 E2 base pre fs2.
Proof.
  intros (T1 & m1 & kl1 & N1 & P1) (T2 & m2 & kl2 & N2 & P2).
  exists (T1 ++ T2), (m1 ++ m2), kl2. split; [now apply noIJ_app|]. eapply S_postT_seq; eassumption.
Qed.

(* the precondition of the next statement *)
Lemma S_pre_nextT T more kl' st s1 L d0 d U E fs pos lc base pre infun inloop c1 L1 U1 E1 fs1 :
  S_pre st L d0 U E fs pos lc base pre infun inloop ->
  S_postT T more kl' st s1 d pos lc c1 L1 U1 E1 base pre fs1 ->
  S_pre s1 L1 d U1 E1 fs1 (pos + SC.code_size c1) lc base pre infun inloop.
Proof.
  intros Hp P. destruct (S_postT_len _ _ _ _ _ _ _ _ _ _ _ _ _ _ _ P) as (_ & Hlen).
  destruct P as (Hg & Hw & Hh & HL & HU & HE & HO & Hnl & fs0' & fm' & Hd & Hfs & Hk).
  destruct (gstep_fields _ _ _ _ _ _ _ _ Hg) as (Hc & Hl & Hsc & Hup & Hb & Hkind & Hit & Htd & Hlo & Har).
  destruct Hp. constructor; auto.
  - now rewrite Hl.
  - rewrite Hlen. lia.
  - eauto.
  - rewrite Hit, Hkind. exact p_fun0.
  - unfold lcrel in *. destruct lc as [l|]; [|exact I].
    destruct p_lc0 as (td & rl & b0 & br & H1 & H2 & H3 & H4). rewrite Hlo, Hb, H2, Htd. cbn [push_holes].
    exists td, rl, (rev (holes T) ++ b0), br. repeat split; auto. lia.
  - now rewrite Hl.
Qed.

Lemma S_pre_next st s1 L d0 d U E fs pos lc base pre infun inloop c1 L1 U1 E1 fs1 :
  S_pre st L d0 U E fs pos lc base pre infun inloop ->
  S_post st s1 d pos lc c1 L1 U1 E1 base pre fs1 ->
  S_pre s1 L1 d U1 E1 fs1 (pos + SC.code_size c1) lc base pre infun inloop.
Proof. intros Hp (T & more & kl' & _ & P). eapply S_pre_nextT; eassumption. Qed.

(* ------------------------------------------------------------------------------------------ *)
(* E. statements without jumps and without function definitions *)

Lemma declare_variable_len x l s u s' : declare_variable x l s = COk (u, s') ->
  k_scope (s_cur s) <> 0 -> length (k_locals (s_cur s)) <> 256.
Proof.
  unfold declare_variable. intros H Hz. apply bind_inv in H as (k & sk & Hk & H). unfold cur in Hk. inversion Hk; subst k sk. clear Hk.
  destruct (Nat.eqb_spec (k_scope (s_cur s)) 0) as [Hz'|_]; [contradiction|].
  destruct (declared_in_scope x (k_scope (s_cur s)) (k_locals (s_cur s))); [discriminate|].
  apply bind_inv in H as (ok & s1 & Ha & H). unfold add_local in Ha.
  apply bind_inv in Ha as (k & sk & Hk & Ha). unfold cur in Hk. inversion Hk; subst k sk. clear Hk.
  destruct (Nat.eqb_spec (length (k_locals (s_cur s))) LOCALS_MAX) as [He|Hne].
  - unfold cret in Ha. inversion Ha; subst. discriminate.
  - exact Hne.
Qed.

Lemma gstep_ups s s' B m kl d u b : gstep s s' B m kl d u b -> gstep s s' B m kl d (k_upvalues (s_cur s')) b.
Proof. intros H. destruct (gstep_fields _ _ _ _ _ _ _ _ H) as (_ & _ & _ & -> & _). exact H. Qed.

(* a step of plain bytes that may replace locals and scope depth, as a statement post-condition *)
Lemma S_post_step st st' L d0 d U E fs pos lc base pre infun inloop B kl' L' code :
  S_pre st L d0 U E fs pos lc base pre infun inloop ->
  step st st' B [] kl' d -> Lrel L' kl' -> length kl' <= 256 -> (forall KS FM, crel KS FM B code) ->
  S_post st st' d pos lc code L' U E base pre fs.
Proof.
  intros Hp Hs HL Hlen Hk. destruct (step_gstep _ _ _ _ _ _ Hs) as (Hg & Ho). destruct Hp.
  destruct (gstep_fields _ _ _ _ _ _ _ _ Hg) as (_ & _ & _ & Hu & _).
  eapply S_post_build; [exact (gstep_ups _ _ _ _ _ _ _ _ Hg)|constructor|exact HL|exact Hlen| | | |exact p_num0|intros; apply Hk].
  - now rewrite Hu.
  - now rewrite Ho.
  - rewrite Ho. apply Oframe_refl.
Qed.

Lemma S_post_E st st' L d U E fs pos lc base pre infun inloop is U' E' :
  S_pre st L d U E fs pos lc base pre infun inloop -> E_post st st' is U' E' ->
  S_post st st' d pos lc is L U' E' base pre fs.
Proof. intros Hp P. destruct Hp. eapply S_post_of_E; eauto. Qed.

Lemma rup_print : forall E outer, Erel E outer -> forall c, resolve_upvalue_in n_print c outer = UNotFound.
Proof.
  induction 1 as [|lv e E0 outer0 (HLe & HUe) HE IH]; intros c; cbn [resolve_upvalue_in]; [reflexivity|].
  unfold resolve_local_c. rewrite (rl_print _ _ HLe), IH. reflexivity.
Qed.

Lemma get_print_g L U E l st st' :
  Lrel L (k_locals (s_cur st)) -> urel U (k_upvalues (s_cur st)) -> Erel E (s_outer st) ->
  named_get n_print l st = COk (tt, st') ->
  E_post st st' [SC.IGetGlobal SC.GPrint] U E.
Proof.
  intros HL HU HE H. unfold named_get in H. binv H. destruct a as [[g so] arg].
  unfold resolve_variable in H0. bcur H0.
  unfold resolve_local_c in H0. rewrite (rl_print _ _ HL) in H0.
  apply bind_inv in H0 as (s0 & s1 & Hg & H0). unfold cget in Hg. inversion Hg; subst s0 s1. clear Hg.
  rewrite (rup_print _ _ HE) in H0.
  binv H0. apply set_line_e in H1. apply bind_inv in H0 as (gi & s3 & H2 & H0). unfold identifier_constant in H2.
  apply make_constant_e in H2 as (more & Hg & Hm & d & Hd & Hc).
  inversion H0; subst. clear H0.
  apply emit_variable_op_e in H. unfold vbytes in H. cbn [is_op8] in H.
  assert (Hs : step0 st st' (([] ++ []) ++ [opb OpGetGlobal; N.modulo arg 256; N.div arg 256]%N) (([] ++ more) ++ [])).
  { eapply step0_trans; [eapply step0_trans; [apply emitted_step; eassumption|apply grow_step; eassumption]|apply emitted_step; eassumption]. }
  apply (E_post_of_step0 _ _ _ _ _ _ _ Hs); auto.
  - rewrite app_nil_r. cbn [app]. destruct Hm as [->| ->]; repeat constructor.
  - intros KS FM He. cbn [app]. apply crel_one. rewrite (emitted_consts _ _ _ H) in He.
    pose proof (ext_nth _ _ _ _ He (const_str_nth _ _ _ _ Hd Hc)) as Hn.
    split; [reflexivity|]. intros r. cbn [app]. unfold dec1, opb. cbn [N_of_opcode opcode_of_N].
    rewrite u16_split. unfold kstr. rewrite Hn. reflexivity.
Qed.

Lemma E_post_consts st st' is U E : E_post st st' is U E -> ext (k_consts (s_cur st)) (k_consts (s_cur st')).
Proof. intros (B & more & Hs & _). destruct (ustep_keep _ _ _ _ _ Hs) as (_ & -> & _). apply ext_app. Qed.

Lemma begin_scope_e s u s' : begin_scope s = COk (u, s') ->
  step s s' [] [] (k_locals (s_cur s)) (S (k_scope (s_cur s))).
Proof. unfold begin_scope. intros H. eapply upd_step; [exact H|reflexivity|reflexivity]. Qed.

Lemma end_scope_e l s u s' d : end_scope l s = COk (u, s') -> k_scope (s_cur s) = S d ->
  step s s' (map opb (scope_end_ops d (k_locals (s_cur s)))) []
       (skipn (length (scope_end_ops d (k_locals (s_cur s)))) (k_locals (s_cur s))) d.
Proof.
  unfold end_scope. intros H Hd. binv H. destruct a. unfold upd in H0. inversion H0; subst s0. clear H0.
  bcur H. cbn [s_cur k_scope with_scope] in H. rewrite Hd in H. cbn [pred] in H.
  unfold emit_scope_end in H. bcur H. cbn [s_cur k_locals with_scope] in H. binv H. destruct a.
  apply emit_ops_e in H0. unfold upd in H. inversion H; subst s'. clear H.
  destruct H0 as (G1 & G2 & G3). apply step_of_eq; cbn [s_cur s_outer k_code with_locals].
  - rewrite G1. reflexivity.
  - rewrite G3. reflexivity.
  - unfold rest in *. cbn in *. injection G2; intros. rewrite app_nil_r. congruence.
Qed.

(* the constructs the induction below covers: all of the stage-5 fragment (stmt7_sup) *)
Fixpoint sup (s : SL.stmt) : bool :=
  match s with
  | SL.SDecl _ _ | SL.SAssign _ _ | SL.SPrint _ | SL.SExpr _ | SL.SReturn _ | SL.SThrow _ => true
  | SL.SBlock b => forallb sup b
  | SL.SFun _ _ b | SL.SLam _ _ b => forallb sup b
  | SL.SIf _ _ t e => forallb sup t && forallb sup e
  | SL.STry b _ h => forallb sup b && forallb sup h
  | SL.SLoop _ _ b => forallb sup b
  | SL.SBreak | SL.SContinue => true
  | _ => false
  end.

Definition S_goal (s : SL.stmt) : Prop :=
  forall infun top inloop, sup s = true -> ScopeDefs5.stmt7 true infun top inloop s = true -> stmt_repr_ok s = true ->
  forall L d U E fs pos lc code L' U' E' fs' st st' base pre,
    ScopeDefs5.nstmt cf s L d U E fs pos lc = Some (code, L', U', E', fs') ->
    cstmt (tr_stmt s) st = COk (tt, st') ->
    S_pre st L d U E fs pos lc base pre infun inloop ->
    S_post st st' d pos lc code L' U' E' base pre fs'.

Definition L_goal (b : list SL.stmt) : Prop :=
  forall infun top inloop, forallb sup b = true -> forallb (ScopeDefs5.stmt7 true infun top inloop) b = true -> forallb stmt_repr_ok b = true ->
  forall L d U E fs pos lc code L' U' E' fs' st st' base pre,
    ScopeDefs5.nlist cf b d L U E fs pos lc = Some (code, L', U', E', fs') ->
    cstmts (tr_list b) st = COk (tt, st') ->
    S_pre st L d U E fs pos lc base pre infun inloop ->
    S_post st st' d pos lc code L' U' E' base pre fs'.

Lemma L_of_S : forall b, Forall S_goal b -> L_goal b.
Proof.
  induction 1 as [|s r Hs Hr IH]; unfold L_goal; intros infun top inloop Hsup Hf Hp L d U E fs pos lc code L' U' E' fs' st st' base pre Hn Hc Hpre.
  - cbn in Hn, Hc. inversion Hn; inversion Hc; subst.
    pose proof (step_id st') as Hid. rewrite (p_d _ _ _ _ _ _ _ _ _ _ _ _ Hpre) in Hid.
    eapply S_post_step; [exact Hpre|exact Hid|destruct Hpre; assumption|apply Hpre|intros; constructor].
  - cbn [forallb] in Hsup, Hf, Hp. apply andb_prop in Hsup as [Hs1 Hs2]. apply andb_prop in Hf as [Hf1 Hf2]. apply andb_prop in Hp as [Hp1 Hp2].
    cbn [ScopeDefs5.nlist] in Hn.
    destruct (ScopeDefs5.nstmt cf s L d U E fs pos lc) as [[[[[ca L1] U1] E1] fs1]|] eqn:E1'; [|discriminate].
    destruct (ScopeDefs5.nlist cf r d L1 U1 E1 fs1 (pos + SC.code_size ca) lc) as [[[[[cr L2] U2] E2] fs2]|] eqn:E2'; [|discriminate].
    inversion Hn; subst. clear Hn.
    cbn [tr_list cstmts] in Hc. binv Hc. destruct a.
    pose proof (Hs _ _ _ Hs1 Hf1 Hp1 _ _ _ _ _ _ _ _ _ _ _ _ _ _ _ _ E1' Hc0 Hpre) as P1.
    pose proof (S_pre_next _ _ _ _ _ _ _ _ _ _ _ _ _ _ _ _ _ _ _ Hpre P1) as Hpre1.
    pose proof (IH _ _ _ Hs2 Hf2 Hp2 _ _ _ _ _ _ _ _ _ _ _ _ _ _ _ _ E2' Hc Hpre1) as P2.
    exact (S_post_seq _ _ _ _ _ _ _ _ _ _ _ _ _ _ _ _ _ _ _ P1 P2).
Qed.

(* { b }: begin_scope, the statements, end_scope *)
Lemma blk_ok b infun top inloop L d U E fs pos lc code L' U' E' fs' st s1 s2 s3 l base pre :
  L_goal b -> forallb sup b = true -> forallb (ScopeDefs5.stmt7 true infun top inloop) b = true -> forallb stmt_repr_ok b = true ->
  ScopeDefs5.nblk cf b d L U E fs pos lc = Some (code, L', U', E', fs') ->
  begin_scope st = COk (tt, s1) -> cstmts (tr_list b) s1 = COk (tt, s2) -> end_scope l s2 = COk (tt, s3) ->
  S_pre st L d U E fs pos lc base pre infun inloop ->
  S_post st s3 d pos lc code L' U' E' base pre fs'.
Proof.
  intros HLg Hsup Hf Hp Hn H1 H2 H3 Hpre. unfold ScopeDefs5.nblk in Hn.
  destruct (ScopeDefs5.nlist cf b (S d) L U E fs pos lc) as [[[[[cb L1] U1] E1] fs1]|] eqn:Eb; [|discriminate].
  injection Hn; intros; subst code L' U' E' fs'. clear Hn.
  apply begin_scope_e in H1. rewrite (p_d _ _ _ _ _ _ _ _ _ _ _ _ Hpre) in H1.
  assert (P0 : S_post st s1 (S d) pos lc [] L U E base pre fs).
  { eapply S_post_step; [exact Hpre|exact H1|destruct Hpre; assumption|apply Hpre|intros; constructor]. }
  pose proof (S_pre_next _ _ _ _ _ _ _ _ _ _ _ _ _ _ _ _ _ _ _ Hpre P0) as Hpre1.
  cbn [SC.code_size] in Hpre1. rewrite Nat.add_0_r in Hpre1.
  pose proof (HLg _ _ _ Hsup Hf Hp _ _ _ _ _ _ _ _ _ _ _ _ _ _ _ _ Eb H2 Hpre1) as P1.
  pose proof (S_pre_next _ _ _ _ _ _ _ _ _ _ _ _ _ _ _ _ _ _ _ Hpre1 P1) as Hpre2.
  pose proof (end_scope_e _ _ _ _ d H3 (p_d _ _ _ _ _ _ _ _ _ _ _ _ Hpre2)) as Hs3.
  pose proof (p_L _ _ _ _ _ _ _ _ _ _ _ _ Hpre2) as HL1.
  destruct (scope_end_agree [] [] d _ _ HL1) as (_ & Hlen).
  assert (P2 : S_post s2 s3 d (pos + SC.code_size cb) lc (SC.scope_end_ops L1 d)
                      (skipn (length (SC.scope_end_ops L1 d)) L1) U1 E1 base pre fs1).
  { eapply S_post_step; [exact Hpre2|exact Hs3| | |].
    - rewrite <- Hlen. now apply Lrel_skipn.
    - rewrite skipn_length. pose proof (p_len _ _ _ _ _ _ _ _ _ _ _ _ Hpre2). lia.
    - intros KS FM. now apply scope_end_agree. }
  change (cb ++ SC.scope_end_ops L1 d) with ([] ++ cb ++ SC.scope_end_ops L1 d).
  eapply S_post_seq; [exact P0|]. cbn [SC.code_size]. rewrite Nat.add_0_r.
  eapply S_post_seq; [exact P1|exact P2].
Qed.

(* ------------------------------------------------------------------------------------------ *)
(* F. function definitions: function() / lambda() *)

Definition pstep (s s' : cstate) (kl : list klocal) (a : N) : Prop :=
  k_code (s_cur s') = k_code (s_cur s) /\ s_outer s' = s_outer s /\
  rest (s_cur s') = rest (with_arity (with_locals (s_cur s) kl) a).

Lemma step_pstep s s' kl : step s s' [] [] kl (k_scope (s_cur s)) -> pstep s s' kl (k_arity (s_cur s)).
Proof.
  intros (H1 & H2 & H3). rewrite app_nil_r in H1. repeat split; auto. rewrite H3. unfold rest. cbn. now rewrite app_nil_r.
Qed.

Lemma pstep_trans s s1 s2 kl1 kl2 a1 a2 : pstep s s1 kl1 a1 -> pstep s1 s2 kl2 a2 -> pstep s s2 kl2 a2.
Proof.
  intros (H1 & H2 & H3) (G1 & G2 & G3). repeat split; [congruence|congruence|].
  rewrite G3. unfold rest in *. cbn in *. injection H3; intros. congruence.
Qed.

Lemma cparams_ok l : forall ps Lb Lp st st',
  ScopeDefs2.bparams cf ps Lb = Some Lp ->
  cparams (map tr_name ps) l st = COk (tt, st') ->
  Lrel Lb (k_locals (s_cur st)) -> k_scope (s_cur st) = 1 -> length (k_locals (s_cur st)) <= 256 ->
  exists kl', pstep st st' kl' (k_arity (s_cur st) + N.of_nat (length ps))%N /\ Lrel Lp kl' /\ length kl' <= 256.
Proof.
  induction ps as [|p r IH]; intros Lb Lp st st' Hb Hc HL Hd Hlen.
  - cbn in Hb, Hc. inversion Hb; inversion Hc; subst. exists (k_locals (s_cur st')). split; [|split; [exact HL|exact Hlen]].
    repeat split. unfold rest. cbn. now rewrite N.add_0_r.
  - cbn [ScopeDefs2.bparams] in Hb. destruct (SC.dup_in_scope Lb p 1); [discriminate|].
    destruct (Nat.eqb (length Lb) (SC.c_locals_max cf)); [discriminate|].
    cbn [map cparams] in Hc. binv Hc. destruct a. bcur Hc. binv Hc. destruct a.
    apply bind_inv in Hc as (g & s2 & Hpv & Hc). binv Hc. destruct a.
    unfold upd in Hc0. inversion Hc0; subst s. clear Hc0.
    assert (s0 = mkS (with_arity (s_cur st) (k_arity (s_cur st) + 1)) (s_outer st) (s_classes st) (s_line st)).
    { cbn [s_cur k_arity with_arity] in Hc1. destruct (N.ltb 256 (k_arity (s_cur st) + 1)); [discriminate|].
      unfold cret in Hc1. now inversion Hc1. }
    subst s0. clear Hc1.
    set (sa := mkS (with_arity (s_cur st) (k_arity (s_cur st) + 1)) (s_outer st) (s_classes st) (s_line st)) in *.
    assert (P0 : pstep st sa (k_locals (s_cur st)) (k_arity (s_cur st) + 1)%N) by (repeat split).
    unfold parse_variable in Hpv. binv Hpv. destruct a. bcur Hpv.
    pose proof (declare_variable_len _ _ _ _ _ Hpv0) as Hdl. cbn [sa s_cur k_scope k_locals with_arity] in Hdl.
    assert (Hdl' : length (k_locals (s_cur st)) <> 256) by (apply Hdl; rewrite Hd; discriminate).
    apply declare_variable_e in Hpv0 as [[Hz _]|[_ Hs1]]; [cbn in Hz; congruence|].
    cbn [sa s_cur k_scope with_arity k_locals] in Hs1. 
    destruct (step_fields _ _ _ _ _ _ Hs1) as (_ & Hl1 & Hd1 & _). cbn [sa s_cur k_scope with_arity] in Hd1.
    rewrite Hd1, Hd in Hpv. cbn in Hpv. inversion Hpv; subst g s2. clear Hpv.
    unfold define_variable in Hc2. bcur Hc2. rewrite Hd1, Hd in Hc2. cbn [Nat.ltb Nat.leb] in Hc2.
    assert (Hz : k_scope (s_cur s) <> 0) by (rewrite Hd1, Hd; discriminate).
    pose proof (mark_initialised_e _ _ _ _ _ _ _ Hc2 Hl1 Hz) as Hs2. rewrite Hd1, Hd in Hs2.
    assert (P1 : pstep sa s (mkKL (tr_name p) None false :: k_locals (s_cur st)) (k_arity (s_cur st) + 1)%N).
    { apply (step_pstep sa s). cbn [sa s_cur k_scope with_arity]. rewrite Hd in Hs1 |- *. exact Hs1. }
    assert (P2 : pstep s s1 (mkKL (tr_name p) (Some 1) false :: k_locals (s_cur st)) (k_arity (s_cur s))).
    { apply step_pstep. rewrite Hd1, Hd. exact Hs2. }
    pose proof (pstep_trans _ _ _ _ _ _ _ (pstep_trans _ _ _ _ _ _ _ P0 P1) P2) as P3.
    assert (Ha : k_arity (s_cur s) = (k_arity (s_cur st) + 1)%N).
    { destruct P1 as (_ & _ & R). unfold rest in R. cbn in R. injection R; intros. assumption. }
    rewrite Ha in P3.
    assert (HL1 : Lrel (SC.mkLocal (Some p) (Some 1) false :: Lb) (k_locals (s_cur s1))).
    { destruct P3 as (_ & _ & R). unfold rest in R. cbn in R. injection R; intros. 
      replace (k_locals (s_cur s1)) with (mkKL (tr_name p) (Some 1) false :: k_locals (s_cur st)) by congruence.
      constructor; [repeat split|exact HL]. }
    assert (Hd3 : k_scope (s_cur s1) = 1).
    { destruct P3 as (_ & _ & R). unfold rest in R. cbn in R. injection R; intros. congruence. }
    assert (Hlen1 : length (k_locals (s_cur s1)) <= 256).
    { destruct P3 as (_ & _ & R). unfold rest in R. cbn in R. injection R; intros.
      replace (k_locals (s_cur s1)) with (mkKL (tr_name p) (Some 1) false :: k_locals (s_cur st)) by congruence. cbn [length]. lia. }
    destruct (IH _ _ _ _ Hb Hc HL1 Hd3 Hlen1) as (kl' & P4 & HLp & Hlp).
    exists kl'. split; [|split; [exact HLp|exact Hlp]].
    assert (Ha1 : k_arity (s_cur s1) = (k_arity (s_cur st) + 1)%N).
    { destruct P3 as (_ & _ & R). unfold rest in R. cbn in R. injection R; intros. assumption. }
    rewrite Ha1 in P4. replace (k_arity (s_cur st) + N.of_nat (length (p :: r)))%N with (k_arity (s_cur st) + 1 + N.of_nat (length r))%N
      by (cbn [length]; lia).
    exact (pstep_trans _ _ _ _ _ _ _ P3 P4).
Qed.

Lemma holes_nil_filled ex T : noIJ T -> holes T = [] -> filled ex T = raw T.
Proof.
  induction T as [|[x|p|p v] r IH]; intros Hn H; [reflexivity| |discriminate|inversion Hn; contradiction].
  inversion Hn; subst. cbn in *. unfold filled, raw in IH. now rewrite IH.
Qed.

Lemma const_index_fun tbl f : const_index tbl (KFun f) = None.
Proof. induction tbl as [|d r IH]; [reflexivity|]. cbn. destruct d; cbn; now rewrite IH. Qed.

Definition desc_bytes (us : list (N * bool)) : list N :=
  flat_map (fun u : N * bool => [if snd u then 1%N else 0%N; fst u]) us.

Lemma emit_upvalues_e l : forall us s u s', emit_upvalues us l s = COk (u, s') -> emitted s s' (desc_bytes us).
Proof.
  induction us as [|[i il] r IH]; intros s u s' H; cbn [emit_upvalues] in H.
  - inversion H; subst. apply emitted_refl.
  - binv H. destruct a. binv H. destruct a. apply emit_byte_e in H0. apply emit_byte_e in H1. apply IH in H.
    exact (emitted_trans _ _ _ _ _ (emitted_trans _ _ _ _ _ H0 H1) H).
Qed.

Lemma read_descs_enc U r : read_descs (length U) (desc_bytes (upmap U) ++ r) = Some (map (fun u : nat * bool => (snd u, fst u)) U, r).
Proof.
  induction U as [|[i il] t IH]; [reflexivity|].
  change (upmap ((i, il) :: t)) with ((N.of_nat i, il) :: upmap t).
  change (desc_bytes ((N.of_nat i, il) :: upmap t)) with ([if il then 1%N else 0%N; N.of_nat i] ++ desc_bytes (upmap t)).
  cbn [length app read_descs map fst snd]. rewrite IH. rewrite Nat2N.id. destruct il; reflexivity.
Qed.

Lemma desc_bytes_len U : length (desc_bytes (upmap U)) = 2 * length U.
Proof. induction U as [|[i il] t IH]; [reflexivity|]. cbn in *. unfold desc_bytes, upmap in IH. rewrite IH. lia. Qed.

Lemma func_ok nm ps b l1 l2 st s1 s2 s3 s4 fu s5 st' L1 d U E fs pos lc base pre infun inloop ci L1' U1' E1' fs' :
  L_goal b -> forallb sup b = true -> forallb (ScopeDefs5.stmt7 true true false false) b = true -> forallb stmt_repr_ok b = true ->
  ScopeDefs5.nfunc cf ps b L1 U E fs = Some (ci, L1', U1', E1', fs') ->
  new_compiler KFunction nm st = COk (tt, s1) -> begin_scope s1 = COk (tt, s2) ->
  cparams (map tr_name ps) l1 s2 = COk (tt, s3) -> cstmts (tr_list b) s3 = COk (tt, s4) ->
  finalise_compiler l2 s4 = COk (fu, s5) -> emit_closure fu l2 s5 = COk (tt, st') ->
  S_pre st L1 d U E fs pos lc base pre infun inloop ->
  S_post st st' d pos lc [ci] L1' U1' E1' base pre fs' /\ same_nd (k_locals (s_cur st)) (k_locals (s_cur st')).
Proof.
  intros HLg Hsup Hf Hp Hn H1 H2 H3 H4 H5 H6 Hpre.
  unfold ScopeDefs5.nfunc in Hn.
  destruct (ScopeDefs2.bparams cf ps [SC.mkLocal None (Some 0) false]) as [Lp|] eqn:Ebp; [|discriminate].
  unfold SN.nclose in Hn.
  destruct (ScopeDefs5.nlist cf b 1 Lp [] (SN.mkLev L1 U :: E) fs 0 None) as [[[[[cb Lb'] Ub] [|lv E']] fs1]|] eqn:Eb; try discriminate.
  injection Hn; intros; subst ci L1' U1' E1' fs'. clear Hn.
  (* the new compiler *)
  unfold new_compiler in H1. inversion H1; subst s1. clear H1.
  apply begin_scope_e in H2. cbn [s_cur new_comp k_locals k_scope] in H2.
  destruct (step_fields _ _ _ _ _ _ H2) as (Hc2 & Hl2 & Hd2 & Hu2 & Hk2 & Ht2 & Htd2 & Hlo2 & Hbr2 & Ha2).
  pose proof H2 as (Hcode2 & Ho2 & _). cbn [s_cur s_outer new_comp k_code k_consts k_upvalues k_kind k_in_try k_try_depth k_loops k_breaks k_arity app] in *.
  assert (HL2 : Lrel [SC.mkLocal None (Some 0) false] (k_locals (s_cur s2))).
  { rewrite Hl2. constructor; [|constructor]. repeat split. }
  destruct (cparams_ok l1 _ _ _ _ _ Ebp H3 HL2 Hd2 ltac:(rewrite Hl2; cbn; lia)) as (klp & (Hcode3 & Ho3 & Hr3) & HLp & Hlp).
  unfold rest in Hr3. cbn in Hr3. injection Hr3; intros Kbr Klo Ktd Kit Ksc Kup Klo' Kco Kar Kki.
  destruct Hpre as [pL pU pE pd ppos (fs0 & fm & pnum & pfs) pbase pfun plc plen].
  assert (Hpre3 : S_pre s3 Lp 1 [] (SN.mkLev L1 U :: E) fs 0 None (length fs) fs true false).
  { constructor.
    - now rewrite Klo'.
    - unfold urel. rewrite Kup, Hu2. reflexivity.
    - rewrite Ho3, Ho2. constructor; [split; assumption|exact pE].
    - congruence.
    - rewrite Hcode3, Hcode2. reflexivity.
    - exists [], []. rewrite Kco, Hc2. split; [reflexivity|now rewrite app_nil_r].
    - reflexivity.
    - intros _. rewrite Kit, Kki, Ht2, Hk2. auto.
    - exact I.
    - rewrite Klo'. exact Hlp. }
  pose proof (HLg _ _ _ Hsup Hf Hp _ _ _ _ _ _ _ _ _ _ _ _ _ _ _ _ Eb H4 Hpre3) as P.
  destruct P as (T & more & klb & HnT & Hg & Hw & Hh & HLb & HUb & HEb & HOb & Hnlb & fs0in & fmin & Hdin & Hfs1 & Hk).
  specialize (Hh eq_refl).
  destruct (gstep_fields _ _ _ _ _ _ _ _ Hg) as (Hc4 & Hl4 & Hd4 & Hu4 & Hb4 & Hk4 & Ht4 & Htd4 & Hlo4 & Ha4).
  destruct Hg as (Hcode4 & _).
  (* the enclosing compilers afterwards *)
  rewrite Ho3, Ho2 in HOb. inversion HEb as [|lv0 e' E0 o' (HLe & HUe) HEo Eq1 Eq2]. subst lv0 E0.
  rewrite <- Eq2 in HOb. inversion HOb as [|c0 e0 o0 o1 Hof HOo]. subst c0 e0 o0 o1.
  (* finalise_compiler *)
  unfold finalise_compiler in H5. apply bind_inv in H5 as (u0 & sr & Hret & H5). unfold emit_return in Hret. bcur Hret.
  rewrite Hk4, Kki, Hk2 in Hret. cbn [fk_eqb] in Hret.
  apply bind_inv in Hret as (u1 & sa & Hnil & Hret). apply emit_op_e in Hnil.
  apply bind_inv in Hret as (u2 & sb & Hcw & Hret).
  rewrite Ht4, Kit, Ht2 in Hcw. cbn [cwhen] in Hcw. unfold cret in Hcw. inversion Hcw; subst u2 sb. clear Hcw.
  apply emit_op_e in Hret. pose proof (emitted_trans _ _ _ _ _ Hnil Hret) as Hrt. destruct Hrt as (Hcode5 & Hr5 & Ho5).
  rewrite Ho5, <- Eq2 in H5. inversion H5; subst fu s5. clear H5.
  (* emit_closure *)
  unfold emit_closure in H6. cbn [fst snd] in H6. apply bind_inv in H6 as (ci & s6 & Hmk & H6).
  apply bind_inv in H6 as (u3 & s7 & Hop & H6).
  unfold make_constant in Hmk. bcur Hmk. cbn [s_cur] in Hmk. rewrite const_index_fun in Hmk.
  apply bind_inv in Hmk as (u4 & s8 & Hupd & Hmk). unfold upd in Hupd. inversion Hupd; subst u4 s8. clear Hupd.
  cbn [s_cur k_consts] in Hmk.
  destruct (N.ltb 65535 (N.of_nat (length (k_consts e')))); [discriminate|]. inversion Hmk; subst ci s6. clear Hmk.
  apply emit_op16_e in Hop. apply emit_upvalues_e in H6. pose proof (emitted_trans _ _ _ _ _ Hop H6) as Hclo.
  destruct Hclo as (Hcode6 & Hr6 & Ho6). cbn [s_cur s_outer k_code with_consts] in *.
  destruct Hof as (Hcode_e & Hr_e & Hnd_e). unfold rest in Hr_e, Hr6, Hr5. cbn in Hr_e, Hr6, Hr5.
  injection Hr_e; intros. injection Hr6; intros. injection Hr5; intros.
  set (idx := N.of_nat (length (k_consts e'))) in *.
  set (f := func_of_comp (s_cur sr)) in *.
  (* numbering of the new function *)
  assert (Hups5 : k_upvalues (s_cur sr) = upmap Ub) by (unfold urel in HUb; congruence).
  assert (Hcon5 : k_consts (s_cur sr) = k_consts (s_cur s4)) by congruence.
  assert (Har5 : k_arity (s_cur sr) = (1 + N.of_nat (length ps))%N) by congruence.
  assert (Hcr : crel (k_consts (s_cur s4)) fmin (k_code (s_cur sr)) (cb ++ [SC.INil; SC.IReturn])).
  { rewrite Hcode5, Hcode4, Hcode3, Hcode2. cbn [app].
    apply crel_app; [rewrite <- (holes_nil_filled 0 T HnT Hh); apply (Hk _ _ (ext_refl _) (ext_refl _))|].
    change [SC.INil; SC.IReturn] with ([SC.INil] ++ [SC.IReturn]).
    change ([opb OpNil] ++ [opb OpReturn]) with ([opb OpNil] ++ [opb OpReturn]).
    match goal with |- crel _ _ ?B _ => change B with ([opb OpNil] ++ [opb OpReturn]) end.
    apply crel_app; apply crel_one; one_simple. }
  assert (Hdf : dec_func f (length fs) =
                Some (fs0in ++ [SC.mkFunc (cb ++ [SC.INil; SC.IReturn]) (length ps) (length Ub)])).
  { unfold f, func_of_comp. rewrite dec_func_unfold, Hcon5, Hdin.
    rewrite (crel_dec _ _ _ _ Hcr) by (pose proof (crel_dec_len _ _ _ _ Hcr); lia).
    rewrite Har5, Hups5. unfold upmap. rewrite map_length, Nat2N.id.
    replace (N.to_nat (1 + N.of_nat (length ps)) - 1) with (length ps) by lia. reflexivity. }
  assert (Hbase : length fs = base + length fs0) by (rewrite pfs, app_length; lia).
  assert (Hke : k_consts e' = k_consts (s_cur st)) by congruence.
  assert (Hnum : dec_consts (k_consts e' ++ [KFun f]) base =
                 Some (fs0 ++ (fs0in ++ [SC.mkFunc (cb ++ [SC.INil; SC.IReturn]) (length ps) (length Ub)]),
                       fm ++ [length fs1])).
  { rewrite Hke. erewrite dec_consts_app; [reflexivity|exact pnum|].
    cbn [dec_consts]. rewrite <- Hbase, Hdf. f_equal. f_equal; [now rewrite app_nil_r|].
    f_equal. rewrite Hfs1, !app_length. cbn. lia. }
  split; [|replace (k_locals (s_cur st')) with (k_locals e') by congruence; exact Hnd_e].
  exists (map IB ([opb OpClosure; N.modulo idx 256; N.div idx 256]%N ++ desc_bytes (upmap Ub))), [KFun f], (k_locals e').
  split; [apply noIJ_IB|]. unfold S_postT. rewrite raw_IB, holes_IB, push_holes_nil.
  split. { split; [rewrite Hcode6, Hups5; congruence|]. unfold rest. cbn. congruence. }
  split; [apply wfT_IB|]. split; [reflexivity|]. split; [exact HLe|].
  split. { unfold urel in *. congruence. }
  split. { rewrite Ho6. exact HEo. }
  split. { rewrite Ho6. exact HOo. }
  split. { rewrite <- (F2_length _ _ _ Hnd_e). exact plen. }
  exists (fs0 ++ (fs0in ++ [SC.mkFunc (cb ++ [SC.INil; SC.IReturn]) (length ps) (length Ub)])), (fm ++ [length fs1]).
  split. { replace (k_consts (s_cur st')) with (k_consts e' ++ [KFun f]) by congruence. exact Hnum. }
  split. { rewrite Hfs1, pfs, <- !app_assoc. reflexivity. }
  intros KS FM He Hfm. rewrite filled_IB. apply crel_one.
  assert (HKS : nth_error KS (N.to_nat idx) = Some (KFun f)).
  { replace (k_consts (s_cur st')) with (k_consts e' ++ [KFun f]) in He by congruence.
    eapply ext_nth; [exact He|]. unfold idx. rewrite Nat2N.id, nth_error_app2, Nat.sub_diag by lia. reflexivity. }
  assert (HFM : nth (N.to_nat idx) FM 0 = length fs1).
  { destruct Hfm as [w ->]. unfold idx. rewrite Nat2N.id, Hke, <- (dec_consts_len _ _ _ _ pnum).
    rewrite <- app_assoc, app_nth2, Nat.sub_diag by lia. reflexivity. }
  unfold ScopeDefs2.clo_instr. split.
  - cbn [app length SC.isize]. rewrite desc_bytes_len, map_length. lia.
  - intros r. cbn [app]. unfold dec1, opb. cbn [N_of_opcode opcode_of_N].
    rewrite u16_split. unfold kfun. rewrite HKS. cbn [obind].
    unfold f at 1. unfold func_of_comp. cbn [f_upvalues]. rewrite Hups5. unfold upmap at 1. rewrite map_length, Nat2N.id.
    rewrite read_descs_enc. cbn [omap fst snd]. rewrite HFM. reflexivity.
Qed.


(* ------------------------------------------------------------------------------------------ *)
(* G0. forward jumps: emit_jump leaves an IJ item, patch_jump resolves it *)

Lemma emit_jump_e o l s p s' : emit_jump o l s = COk (p, s') ->
  emitted s s' [opb o; 255; 255]%N /\ p = length (k_code (s_cur s)) + 1.
Proof.
  unfold emit_jump. intros H. apply bind_inv in H as (u0 & s1 & H1 & H). apply bind_inv in H as (u1 & s2 & H2 & H).
  apply bind_inv in H as (u2 & s3 & H3 & H). apply bind_inv in H as (n & s4 & H4 & H).
  unfold code_len in H4. inversion H4; subst n s4. clear H4. unfold cret in H. inversion H; subst p s'. clear H.
  apply emit_op_e in H1. apply emit_byte_e in H2. apply emit_byte_e in H3.
  pose proof (emitted_trans _ _ _ _ _ (emitted_trans _ _ _ _ _ H1 H2) H3) as He. split; [exact He|].
  destruct He as (Hc & _). rewrite Hc, app_length. cbn. lia.
Qed.

Lemma set_nth2 {A} (pre : list A) a b x y post :
  FullCompile.set_nth (S (length pre)) b (FullCompile.set_nth (length pre) a (pre ++ x :: y :: post)) = pre ++ a :: b :: post.
Proof. induction pre as [|z r IH]; simpl; [reflexivity|]. f_equal. exact IH. Qed.

Lemma patch16_raw p v s u s' pre x y post : patch16 p v s = COk (u, s') ->
  k_code (s_cur s) = pre ++ x :: y :: post -> length pre = p ->
  k_code (s_cur s') = pre ++ N.modulo v 256 :: N.div v 256 :: post /\ rest (s_cur s') = rest (s_cur s) /\ s_outer s' = s_outer s.
Proof.
  unfold patch16, upd. intros H Hc Hl. injection H as Hu Hs. subst s' p.
  split; [|split; reflexivity].
  transitivity (FullCompile.set_nth (S (length pre)) (N.div v 256) (FullCompile.set_nth (length pre) (N.modulo v 256) (k_code (s_cur s)))); [reflexivity|].
  rewrite Hc. apply set_nth2.
Qed.

Lemma patch_jump_raw p s u s' pre x y post : patch_jump p s = COk (u, s') ->
  k_code (s_cur s) = pre ++ x :: y :: post -> length pre = p ->
  k_code (s_cur s') = pre ++ N.modulo (N.of_nat (length post)) 256 :: N.div (N.of_nat (length post)) 256 :: post /\
  rest (s_cur s') = rest (s_cur s) /\ s_outer s' = s_outer s.
Proof.
  unfold patch_jump. intros H Hc Hl. apply bind_inv in H as (n & s1 & H1 & H). unfold code_len in H1. inversion H1; subst n s1. clear H1.
  destruct (N.ltb JUMP_SIZE_MAX (N.of_nat (length (k_code (s_cur s)) - p - 2))); [discriminate|].
  replace (length (k_code (s_cur s)) - p - 2) with (length post) in H by (rewrite Hc, app_length; cbn; lia).
  eapply patch16_raw; eassumption.
Qed.

Lemma patch_offset_raw q off s u s' pre x y post : patch_offset_at q off s = COk (u, s') ->
  k_code (s_cur s) = pre ++ x :: y :: post -> length pre = q ->
  k_code (s_cur s') = pre ++ N.modulo (N.of_nat (length (k_code (s_cur s)) - off)) 256
                          :: N.div (N.of_nat (length (k_code (s_cur s)) - off)) 256 :: post /\
  rest (s_cur s') = rest (s_cur s) /\ s_outer s' = s_outer s.
Proof.
  unfold patch_offset_at. intros H Hc Hl. apply bind_inv in H as (n & s1 & H1 & H). unfold code_len in H1. inversion H1; subst n s1. clear H1.
  destruct (N.ltb JUMP_SIZE_MAX (N.of_nat (length (k_code (s_cur s)) - off))); [discriminate|].
  eapply patch16_raw; eassumption.
Qed.

Lemma one_jumps KS FM v :
  one KS FM (opb OpJump :: u16le v) (SC.IJump v) /\ one KS FM (opb OpJumpIfFalse :: u16le v) (SC.IJumpIfFalse v) /\
  one KS FM (opb OpJumpIfStopIter :: u16le v) (SC.IJumpIfStopIter v) /\ one KS FM (opb OpLoop :: u16le v) (SC.ILoop v).
Proof.
  repeat split; try reflexivity; intros r; unfold u16le; cbn [app]; unfold dec1, opb; cbn [N_of_opcode opcode_of_N];
    rewrite u16_split, Nat2N.id; reflexivity.
Qed.

(* changing the current state's code in place (a patch) *)
Lemma S_postT_repatch T T' more kl st s s' d pos lc code L' U' E' base pre fs' :
  S_postT T more kl st s d pos lc code L' U' E' base pre fs' ->
  k_code (s_cur s') = k_code (s_cur st) ++ raw T' -> rest (s_cur s') = rest (s_cur s) -> s_outer s' = s_outer s ->
  holes T' = holes T -> wfT pos T' -> filled (lc_exit_of lc) T' = filled (lc_exit_of lc) T ->
  S_postT T' more kl st s' d pos lc code L' U' E' base pre fs'.
Proof.
  intros (Hg & Hw & Hh & HL & HU & HE & HO & Hnl & fs0' & fm' & Hd & Hfs & Hk) Hc Hr Ho Hhol Hw' Hfil.
  unfold rest in Hr. injection Hr; intros.
  unfold S_postT. rewrite Hhol, Hfil, Ho.
  replace (k_upvalues (s_cur s')) with (k_upvalues (s_cur s)) by congruence.
  replace (k_consts (s_cur s')) with (k_consts (s_cur s)) by congruence.
  split. { destruct Hg as (_ & Hg2). split; [exact Hc|]. unfold rest in *. congruence. }
  split; [exact Hw'|]. split; [exact Hh|]. split; [exact HL|]. split; [exact HU|]. split; [exact HE|]. split; [exact HO|]. split; [exact Hnl|].
  exists fs0', fm'. auto.
Qed.

Lemma wfT_swap T1 p v a b T2 pos : wfT pos (T1 ++ IJ p v :: T2) -> wfT pos (T1 ++ IB a :: IB b :: T2).
Proof.
  intros H. apply wfT_app_inv in H as (H1 & H2). apply wfT_app; [exact H1|]. cbn [wfT] in *. destruct H2 as (_ & H2).
  replace (S (S (pos + length (raw T1)))) with (pos + length (raw T1) + 2) by lia. exact H2.
Qed.

Lemma resolve_piece T1 p v T2 more kl st s u s' d pos lc code L' U' E' base pre fs' :
  S_postT (T1 ++ IJ p v :: T2) more kl st s d pos lc code L' U' E' base pre fs' ->
  pos = length (k_code (s_cur st)) -> patch_jump p s = COk (u, s') -> v = length (raw T2) ->
  S_postT (T1 ++ IB (N.modulo (N.of_nat v) 256) :: IB (N.div (N.of_nat v) 256) :: T2) more kl st s' d pos lc code L' U' E' base pre fs'.
Proof.
  intros P Hpos Hpj Hv. pose proof P as ((Hc & _) & Hw & _).
  apply wfT_app_inv in Hw as (_ & Hw2). cbn [wfT] in Hw2. destruct Hw2 as (Hp & _).
  rewrite raw_app in Hc. change (raw (IJ p v :: T2)) with (255%N :: 255%N :: raw T2) in Hc. rewrite app_assoc in Hc.
  destruct (patch_jump_raw _ _ _ _ _ _ _ _ Hpj Hc) as (Hc' & Hr' & Ho').
  { rewrite app_length. lia. }
  eapply S_postT_repatch; [exact P| |exact Hr'|exact Ho'| | |].
  - rewrite Hc', <- Hv, raw_app, <- app_assoc. reflexivity.
  - rewrite !holes_app. reflexivity.
  - eapply wfT_swap. destruct P as (_ & Hw & _). exact Hw.
  - rewrite !filled_app. reflexivity.
Qed.

Lemma jump_piece o J l st p s1 L d U E fs pos lc base pre infun inloop v :
  (forall KS FM, one KS FM (opb o :: u16le v) (J v)) ->
  emit_jump o l st = COk (p, s1) -> S_pre st L d U E fs pos lc base pre infun inloop ->
  p = pos + 1 /\ S_postT [IB (opb o); IJ p v] [] (k_locals (s_cur st)) st s1 d pos lc [J v] L U E base pre fs.
Proof.
  intros HJ He Hpre. apply emit_jump_e in He as (He & Hp). destruct Hpre.
  assert (Hp' : p = pos + 1) by (rewrite p_pos0; exact Hp). split; [exact Hp'|].
  destruct (step_gstep _ _ _ _ _ _ (emitted_step _ _ _ He)) as (Hg & Ho). rewrite p_d0 in Hg.
  destruct (gstep_fields _ _ _ _ _ _ _ _ Hg) as (Hc & _ & _ & Hu & _). rewrite app_nil_r in Hc.
  destruct p_num0 as (fs0 & fm & Hd & Hfs).
  unfold S_postT. cbn [raw holes flat_map app]. rewrite push_holes_nil, Hu, Ho, Hc.
  split; [exact Hg|]. split. { cbn [wfT]. split; [lia|exact I]. }
  split; [reflexivity|]. split; [exact p_L0|]. split; [exact p_U0|]. split; [exact p_E0|]. split; [apply Oframe_refl|]. split; [exact p_len0|].
  exists fs0, fm. split; [exact Hd|]. split; [exact Hfs|].
  intros KS FM _ _. cbn [filled flat_map app]. rewrite app_nil_r. apply crel_one. apply HJ.
Qed.

(* plain bytes as a piece with an explicit item list *)
Lemma bytes_piece B code st s1 L d U E fs pos lc base pre infun inloop :
  emitted st s1 B -> (forall KS FM, crel KS FM B code) -> S_pre st L d U E fs pos lc base pre infun inloop ->
  S_postT (map IB B) [] (k_locals (s_cur st)) st s1 d pos lc code L U E base pre fs.
Proof.
  intros He Hk Hpre. destruct Hpre.
  destruct (step_gstep _ _ _ _ _ _ (emitted_step _ _ _ He)) as (Hg & Ho). rewrite p_d0 in Hg.
  destruct (gstep_fields _ _ _ _ _ _ _ _ Hg) as (Hc & _ & _ & Hu & _). rewrite app_nil_r in Hc.
  destruct p_num0 as (fs0 & fm & Hd & Hfs).
  unfold S_postT. rewrite raw_IB, holes_IB, push_holes_nil, Hu, Ho, Hc.
  split; [exact Hg|]. split; [apply wfT_IB|]. split; [reflexivity|]. split; [exact p_L0|]. split; [exact p_U0|].
  split; [exact p_E0|]. split; [apply Oframe_refl|]. split; [exact p_len0|].
  exists fs0, fm. split; [exact Hd|]. split; [exact Hfs|]. intros KS FM _ _. rewrite filled_IB. apply Hk.
Qed.

(* ------------------------------------------------------------------------------------------ *)
(* G. the statements *)

Lemma expr_op_g e o i infun inloop L d U E fs pos lc base pre ce U' E' st s1 st' :
  ScopeDefs2.expr2 e = true -> expr_repr_ok e = true ->
  SN.nexpr cf L e U E = Some (ce, U', E') ->
  cexpr (tr_expr e) st = COk (tt, s1) -> emit_op o 0%N s1 = COk (tt, st') ->
  (forall KS FM, one KS FM [opb o] i) ->
  S_pre st L d U E fs pos lc base pre infun inloop ->
  S_post st st' d pos lc (ce ++ [i]) L U' E' base pre fs.
Proof.
  intros Hf Hr Hn Hc Ho Hone Hpre.
  pose proof (E_allg e Hf Hr _ _ _ _ _ _ _ _ Hn Hc (p_L _ _ _ _ _ _ _ _ _ _ _ _ Hpre) (p_U _ _ _ _ _ _ _ _ _ _ _ _ Hpre)
                (p_E _ _ _ _ _ _ _ _ _ _ _ _ Hpre)) as P1.
  destruct (E_post_rel _ _ _ _ _ P1) as (HU1 & HE1). apply emit_op_e in Ho.
  eapply S_post_E; [exact Hpre|]. eapply E_post_seq; [exact P1|].
  apply (E_post_emit _ _ _ _ _ _ Ho); auto. intros; apply crel_one, Hone.
Qed.

Lemma tr_list_eq b : (fix go (l : list SL.stmt) : lstmts := match l with [] => LSNil | a :: r => LSCons (tr_stmt a) (go r) end) b = tr_list b.
Proof. reflexivity. Qed.

(* `var x = |ps| { b };` *)
Lemma lam_ok x ps b : L_goal b -> S_goal (SL.SLam x ps b).
Proof.
  intros HLg. unfold S_goal.
  intros infun top inloop Hsup Hf Hp L d U E fs pos lc code L' U' E' fs' st st' base pre Hn Hc Hpre.
  cbn [sup] in Hsup. cbn [ScopeDefs5.stmt7] in Hf. apply andb_prop in Hf as [Hf _]. cbn [stmt_repr_ok] in Hp.
  apply andb_prop in Hp as [Hp Hpb]. apply andb_prop in Hp as [_ Hpp].
  rewrite ScopeFacts5.nstmt_lam in Hn.
  cbn [tr_stmt cstmt cexpr] in Hc. rewrite tr_list_eq in Hc.
  apply bind_inv in Hc as (g & s1 & Hpv & Hc). apply bind_inv in Hc as (u0 & s9 & Hlam & Hdef). destruct u0.
  apply bind_inv in Hlam as (k0 & s1' & Hk0 & Hlam). unfold cur in Hk0. inversion Hk0; subst k0 s1'. clear Hk0.
  apply bind_inv in Hlam as (u1 & s2 & Hbump & Hlam). destruct u1.
  apply bind_inv in Hlam as (u2 & t1 & Hnc & Hlam). destruct u2. apply bind_inv in Hlam as (u3 & t2 & Hbs & Hlam). destruct u3.
  apply bind_inv in Hlam as (u4 & t3 & Hcp & Hlam). destruct u4.
  apply bind_inv in Hlam as (u6 & t4 & Hbody & Hlam). destruct u6. apply bind_inv in Hlam as (fu & t5 & Hfin & Hclo).
  assert (Hbs2 : step s1 s2 [] [] (k_locals (s_cur s1)) (k_scope (s_cur s1))).
  { eapply upd_step; [exact Hbump|reflexivity|reflexivity]. }
  unfold parse_variable in Hpv. apply bind_inv in Hpv as (u7 & s0 & Hdv & Hpv). destruct u7. bcur Hpv.
  pose proof (p_d _ _ _ _ _ _ _ _ _ _ _ _ Hpre) as Hd.
  pose proof (declare_variable_len _ _ _ _ _ Hdv) as Hdl. rewrite Hd in Hdl.
  apply declare_variable_e in Hdv as [[Hz ->]|[Hz Hs0]].
  - (* a global *)
    rewrite Hd in Hz. subst d. cbn [Nat.eqb] in Hn.
    destruct (ScopeDefs5.nfunc cf ps b L U E fs) as [[[[[ci L1] U1] E1] fs1]|] eqn:Ef; [|discriminate].
    inversion Hn; subst. clear Hn.
    rewrite Hd in Hpv. cbn [Nat.ltb Nat.leb] in Hpv. unfold identifier_constant in Hpv.
    apply make_constant_e in Hpv as (more & Hg & Hm & c & Hnc' & Hcq). apply grow_step in Hg.
    assert (P0 : E_post st s1 [] U E).
    { apply (E_post_of_step0 _ _ _ _ _ _ _ Hg); [destruct Hm as [->| ->]; repeat constructor|intros; constructor|apply Hpre|apply Hpre]. }
    pose proof (S_post_E _ _ _ _ _ _ _ _ _ _ _ _ _ _ _ _ Hpre P0) as Q0.
    pose proof (S_pre_next _ _ _ _ _ _ _ _ _ _ _ _ _ _ _ _ _ _ _ Hpre Q0) as Hpre1.
    cbn [SC.code_size] in Hpre1. rewrite Nat.add_0_r in Hpre1.
    rewrite (p_d _ _ _ _ _ _ _ _ _ _ _ _ Hpre1) in Hbs2.
    assert (Qb : S_post s1 s2 0 pos lc [] L U E base pre fs).
    { eapply S_post_step; [exact Hpre1|exact Hbs2|apply Hpre1|apply Hpre1|intros; constructor]. }
    pose proof (S_pre_next _ _ _ _ _ _ _ _ _ _ _ _ _ _ _ _ _ _ _ Hpre1 Qb) as Hpre2.
    cbn [SC.code_size] in Hpre2. rewrite Nat.add_0_r in Hpre2.
    edestruct func_ok as (Q1 & Hnd); [exact HLg|exact Hsup|exact Hf|exact Hpb|exact Ef|exact Hnc|exact Hbs|exact Hcp|exact Hbody|exact Hfin|exact Hclo|exact Hpre2|].
    pose proof (S_pre_next _ _ _ _ _ _ _ _ _ _ _ _ _ _ _ _ _ _ _ Hpre2 Q1) as Hpre3.
    unfold define_variable in Hdef. bcur Hdef. rewrite (p_d _ _ _ _ _ _ _ _ _ _ _ _ Hpre3) in Hdef. cbn [Nat.ltb Nat.leb] in Hdef.
    apply emit_op16_e in Hdef.
    assert (Q2 : S_post s9 st' 0 (pos + SC.code_size [ci]) lc [SC.IDefineGlobal x] L' U' E' base pre fs').
    { eapply S_post_E; [exact Hpre3|]. apply (E_post_emit _ _ _ _ _ _ Hdef); try apply Hpre3.
      intros KS FM He. apply crel_one. rewrite (emitted_consts _ _ _ Hdef) in He.
      assert (He1 : ext (k_consts (s_cur s1)) (k_consts (s_cur s9))).
      { destruct Q1 as (T & m1 & kl1 & _ & Hg1 & _). destruct (gstep_fields _ _ _ _ _ _ _ _ Hg1) as (-> & _).
        destruct (step_fields _ _ _ _ _ _ Hbs2) as (-> & _). rewrite app_nil_r. apply ext_app. }
      pose proof (ext_nth _ _ _ _ (ext_trans _ _ _ He1 He) (const_str_nth _ _ _ _ Hnc' Hcq)) as Hx.
      now destruct (one_global KS FM _ _ Hx) as (_ & _ & G3). }
    change [ci; SC.IDefineGlobal x] with ([] ++ [] ++ [ci] ++ [SC.IDefineGlobal x]).
    eapply S_post_seq; [exact Q0|]. cbn [SC.code_size]. rewrite Nat.add_0_r.
    eapply S_post_seq; [exact Qb|]. cbn [SC.code_size]. rewrite Nat.add_0_r.
    eapply S_post_seq; [exact Q1|exact Q2].
  - (* a local: declared (uninitialised) before the closure is compiled, initialised afterwards *)
    rewrite Hd in Hz. destruct (Nat.eqb_spec d 0) as [Hz'|_]; [contradiction|].
    destruct (SC.dup_in_scope L x d); [discriminate|].
    destruct (Nat.eqb (length L) (SC.c_locals_max cf)); [discriminate|].
    destruct (ScopeDefs5.nfunc cf ps b (SC.mkLocal (Some x) None false :: L) U E fs) as [[[[[ci [|l0 L1]] U1] E1] fs1]|] eqn:Ef; try discriminate.
    injection Hn; intros; subst code L' U' E' fs'. clear Hn.
    rewrite Hd in Hs0.
    assert (P0 : S_post st s0 d pos lc [] (SC.mkLocal (Some x) None false :: L) U E base pre fs).
    { eapply S_post_step; [exact Hpre|exact Hs0| | |intros; constructor]; [constructor; [repeat split|apply Hpre]|].
      cbn [length]. pose proof (p_len _ _ _ _ _ _ _ _ _ _ _ _ Hpre). lia. }
    pose proof (S_pre_next _ _ _ _ _ _ _ _ _ _ _ _ _ _ _ _ _ _ _ Hpre P0) as Hpre0.
    cbn [SC.code_size] in Hpre0. rewrite Nat.add_0_r in Hpre0.
    rewrite (p_d _ _ _ _ _ _ _ _ _ _ _ _ Hpre0) in Hpv.
    replace (Nat.ltb 0 d) with true in Hpv by (symmetry; apply Nat.ltb_lt; lia).
    inversion Hpv; subst g s1. clear Hpv.
    rewrite (p_d _ _ _ _ _ _ _ _ _ _ _ _ Hpre0) in Hbs2.
    assert (Qb : S_post s0 s2 d pos lc [] (SC.mkLocal (Some x) None false :: L) U E base pre fs).
    { eapply S_post_step; [exact Hpre0|exact Hbs2|apply Hpre0|apply Hpre0|intros; constructor]. }
    pose proof (S_pre_next _ _ _ _ _ _ _ _ _ _ _ _ _ _ _ _ _ _ _ Hpre0 Qb) as Hpre2.
    cbn [SC.code_size] in Hpre2. rewrite Nat.add_0_r in Hpre2.
    edestruct func_ok as (Q1 & Hnd); [exact HLg|exact Hsup|exact Hf|exact Hpb|exact Ef|exact Hnc|exact Hbs|exact Hcp|exact Hbody|exact Hfin|exact Hclo|exact Hpre2|].
    pose proof (S_pre_next _ _ _ _ _ _ _ _ _ _ _ _ _ _ _ _ _ _ _ Hpre2 Q1) as Hpre3.
    unfold define_variable in Hdef. bcur Hdef. rewrite (p_d _ _ _ _ _ _ _ _ _ _ _ _ Hpre3) in Hdef.
    replace (Nat.ltb 0 d) with true in Hdef by (symmetry; apply Nat.ltb_lt; lia).
    pose proof (p_L _ _ _ _ _ _ _ _ _ _ _ _ Hpre3) as HL3. inversion HL3 as [|l0' kk L1' kr (Hkd & Hkc & Hkn) HLr Eq1 Eq2]. subst l0' L1'.
    (* the head local is still x, still uninitialised *)
    destruct (step_fields _ _ _ _ _ _ Hbs2) as (_ & Hl2 & _).
    destruct (step_fields _ _ _ _ _ _ Hs0) as (_ & Hl0 & _).
    rewrite Hl2, Hl0, <- Eq2 in Hnd. revert Hd. inversion Hnd as [|a1 b1 a2 b2 [Hn1 Hn2] Hn3]. subst. intros Hd. cbn [kl_name kl_depth] in Hn1, Hn2.
    assert (Hl0n : SC.l_name l0 = Some x).
    { destruct (SC.l_name l0) as [y|].
      - rewrite <- Hn1 in Hkn. apply tr_name_inj in Hkn. now subst.
      - rewrite <- Hn1, un_name_tr_name in Hkn. discriminate. }
    assert (Hz3 : k_scope (s_cur s9) <> 0) by (rewrite (p_d _ _ _ _ _ _ _ _ _ _ _ _ Hpre3); exact Hz).
    destruct kk as [nk dk ck]. cbn [kl_name kl_depth kl_captured] in Hn1, Hn2, Hkd, Hkc, Hkn.
    pose proof (mark_initialised_e _ _ _ _ _ _ _ Hdef (eq_sym Eq2) Hz3) as Hs3.
    rewrite (p_d _ _ _ _ _ _ _ _ _ _ _ _ Hpre3) in Hs3.
    assert (Q2 : S_post s9 st' d (pos + SC.code_size [ci]) lc [] (SC.mkLocal (Some x) (Some d) (SC.l_capt l0) :: L1) U1 E1 base pre fs1).
    { eapply S_post_step; [exact Hpre3|exact Hs3| | |intros; constructor]; [constructor; [|exact HLr]; repeat split; cbn; auto|].
      pose proof (p_len _ _ _ _ _ _ _ _ _ _ _ _ Hpre3) as X. rewrite <- Eq2 in X. exact X. }
    change [ci] with ([] ++ [] ++ [ci] ++ []).
    eapply S_post_seq; [exact P0|]. cbn [SC.code_size]. rewrite Nat.add_0_r.
    eapply S_post_seq; [exact Qb|]. cbn [SC.code_size]. rewrite Nat.add_0_r.
    eapply S_post_seq; [exact Q1|exact Q2].
Qed.

Lemma S_postT_eq T T' more kl st s d pos lc code code' L' U' E' base pre fs' :
  T = T' -> code = code' -> S_postT T more kl st s d pos lc code L' U' E' base pre fs' ->
  S_postT T' more kl st s d pos lc code' L' U' E' base pre fs'.
Proof. intros -> ->. auto. Qed.

Lemma S_postT_seq' T1 m1 kl1 T2 m2 kl2 st s1 st' d1 d pos pos2 lc c1 c2 L1 U1 E1 L2 U2 E2 base pre fs1 fs2 :
  S_postT T1 m1 kl1 st s1 d1 pos lc c1 L1 U1 E1 base pre fs1 ->
  S_postT T2 m2 kl2 s1 st' d pos2 lc c2 L2 U2 E2 base pre fs2 -> pos2 = pos + SC.code_size c1 ->
  S_postT (T1 ++ T2) (m1 ++ m2) kl2 st st' d pos lc (c1 ++ c2) L2 U2 E2 base pre fs2.
Proof. intros P1 P2 ->. eapply S_postT_seq; eassumption. Qed.

Ltac possolve := repeat rewrite ScopeSim.code_size_app; cbn [SC.code_size SC.isize]; lia.

(* if a < c { t } else { e } *)
Lemma if_ok a c t e : L_goal t -> L_goal e -> S_goal (SL.SIf a c t e).
Proof.
  intros HLt HLe. unfold S_goal.
  intros infun top inloop Hsup Hf Hp L d U E fs pos lc code L' U' E' fs' st st' base pre Hn Hc Hpre.
  cbn [sup] in Hsup. apply andb_prop in Hsup as [Hst Hse].
  cbn [ScopeDefs5.stmt7] in Hf. apply andb_prop in Hf as [Hf Hfe]. apply andb_prop in Hf as [Hf Hft]. apply andb_prop in Hf as [Hfa Hfc].
  cbn [stmt_repr_ok] in Hp. apply andb_prop in Hp as [Hp Hpe]. apply andb_prop in Hp as [Hp Hpt]. apply andb_prop in Hp as [Hpa Hpc].
  rewrite ScopeFacts5.nstmt_if in Hn.
  destruct (SN.nexpr cf L a U E) as [[[ca U1] E1]|] eqn:Ea; [|discriminate].
  destruct (SN.nexpr cf L c U1 E1) as [[[cc U2] E2]|] eqn:Ec; [|discriminate].
  cbv zeta in Hn.
  destruct (ScopeDefs5.nblk cf t d L U2 E2 fs _ lc) as [[[[[ct L1] U3] E3] fs1]|] eqn:Et; [|discriminate].
  destruct (ScopeDefs5.nblk cf e d L1 U3 E3 fs1 _ lc) as [[[[[cel L2] U4] E4] fs2]|] eqn:Ee; [|discriminate].
  injection Hn; intros; subst code L' U' E' fs'. clear Hn.
  cbn [tr_stmt cstmt cexpr] in Hc. rewrite !tr_list_eq in Hc.
  apply bind_inv in Hc as (u0 & s1 & Hcond & Hc). destruct u0.
  apply bind_inv in Hcond as (u0 & sa & Hxa & Hcond). destruct u0. apply bind_inv in Hcond as (u0 & sc & Hxc & Hless). destruct u0.
  apply bind_inv in Hc as (p1 & s2 & Hj1 & Hc). apply bind_inv in Hc as (u0 & s3 & Hpop1 & Hc). destruct u0.
  apply bind_inv in Hc as (u0 & s4 & Hbs1 & Hc). destruct u0. apply bind_inv in Hc as (u0 & s5 & Hbt & Hc). destruct u0.
  apply bind_inv in Hc as (u0 & s6 & Hes1 & Hc). destruct u0. apply bind_inv in Hc as (p2 & s7 & Hj2 & Hc).
  apply bind_inv in Hc as (u0 & s8 & Hpj1 & Hc). destruct u0. apply bind_inv in Hc as (u0 & s9 & Hpop2 & Hc). destruct u0.
  apply bind_inv in Hc as (u0 & s10 & Helse & Hpj2). destruct u0.
  apply bind_inv in Helse as (u0 & sb1 & Hbs2 & Helse). destruct u0. apply bind_inv in Helse as (u0 & sb2 & Hbe & Hes2). destruct u0.
  (* the condition *)
  pose proof (E_allg a Hfa Hpa _ _ _ _ _ _ _ _ Ea Hxa (p_L _ _ _ _ _ _ _ _ _ _ _ _ Hpre) (p_U _ _ _ _ _ _ _ _ _ _ _ _ Hpre)
                (p_E _ _ _ _ _ _ _ _ _ _ _ _ Hpre)) as Pa.
  destruct (E_post_rel _ _ _ _ _ Pa) as (HUa & HEa).
  pose proof (p_L _ _ _ _ _ _ _ _ _ _ _ _ Hpre) as HL. rewrite <- (E_post_locals _ _ _ _ _ Pa) in HL.
  pose proof (E_allg c Hfc Hpc _ _ _ _ _ _ _ _ Ec Hxc HL HUa HEa) as Pc.
  destruct (E_post_rel _ _ _ _ _ Pc) as (HUc & HEc).
  cbn [binop_ops] in Hless. apply emit_ops_e in Hless. cbn [map] in Hless.
  assert (Pl : E_post sc s1 [SC.ILess] U2 E2).
  { apply (E_post_emit _ _ _ _ _ _ Hless); auto. intros; apply crel_one; one_simple. }
  pose proof (S_post_E _ _ _ _ _ _ _ _ _ _ _ _ _ _ _ _ Hpre (E_post_seq _ _ _ _ _ _ _ _ _ Pa (E_post_seq _ _ _ _ _ _ _ _ _ Pc Pl))) as P1.
  destruct P1 as (T1 & m1 & kl1 & N1 & P1).
  pose proof (S_pre_nextT _ _ _ _ _ _ _ _ _ _ _ _ _ _ _ _ _ _ _ _ _ _ Hpre P1) as Hpre1.
  (* JumpIfFalse, Pop *)
  set (v1 := 1 + SC.code_size ct + 3).
  destruct (jump_piece OpJumpIfFalse SC.IJumpIfFalse _ _ _ _ _ _ _ _ _ _ _ _ _ _ _ v1
              (fun KS FM => proj1 (proj2 (one_jumps KS FM v1))) Hj1 Hpre1) as (Hp1 & Pj1).
  pose proof (S_pre_nextT _ _ _ _ _ _ _ _ _ _ _ _ _ _ _ _ _ _ _ _ _ _ Hpre1 Pj1) as Hpre2.
  apply emit_op_e in Hpop1.
  pose proof (bytes_piece [opb OpPop] [SC.IPop] _ _ _ _ _ _ _ _ _ _ _ _ _ Hpop1 ltac:(intros; apply crel_one; one_simple) Hpre2) as Pp1.
  pose proof (S_pre_nextT _ _ _ _ _ _ _ _ _ _ _ _ _ _ _ _ _ _ _ _ _ _ Hpre2 Pp1) as Hpre3.
  (* the then block *)
  assert (Hpos3 : pos + SC.code_size (ca ++ cc ++ [SC.ILess]) + SC.code_size [SC.IJumpIfFalse v1] + SC.code_size [SC.IPop]
                  = pos + SC.code_size ca + SC.code_size cc + SC.code_size [SC.ILess; SC.IJumpIfFalse 0; SC.IPop]).
  { rewrite !ScopeSim.code_size_app. cbn. lia. }
  rewrite Hpos3 in Hpre3.
  pose proof (blk_ok t _ _ _ _ _ _ _ _ _ _ _ _ _ _ _ _ _ _ _ _ _ _ HLt Hst Hft Hpt Et Hbs1 Hbt Hes1 Hpre3) as Pt.
  destruct Pt as (Tt & mt & klt & Nt & Pt).
  pose proof (S_pre_nextT _ _ _ _ _ _ _ _ _ _ _ _ _ _ _ _ _ _ _ _ _ _ Hpre3 Pt) as Hpre6.
  (* Jump over the else block *)
  set (v2 := 1 + SC.code_size cel).
  destruct (jump_piece OpJump SC.IJump _ _ _ _ _ _ _ _ _ _ _ _ _ _ _ v2
              (fun KS FM => proj1 (one_jumps KS FM v2)) Hj2 Hpre6) as (Hp2 & Pj2).
  (* everything so far, as one piece *)
  rewrite <- Hpos3 in Pt.
  pose proof (S_postT_seq' _ _ _ _ _ _ _ _ _ _ _ _ _ _ _ _ _ _ _ _ _ _ _ _ _ _ P1 Pj1 eq_refl) as Q1.
  pose proof (S_postT_seq' _ _ _ _ _ _ _ _ _ _ _ _ _ _ _ _ _ _ _ _ _ _ _ _ _ _ Q1 Pp1 ltac:(possolve)) as Q2.
  pose proof (S_postT_seq' _ _ _ _ _ _ _ _ _ _ _ _ _ _ _ _ _ _ _ _ _ _ _ _ _ _ Q2 Pt ltac:(possolve)) as Q3.
  pose proof (S_postT_seq' _ _ _ _ _ _ _ _ _ _ _ _ _ _ _ _ _ _ _ _ _ _ _ _ _ _ Q3 Pj2 ltac:(possolve)) as Q4.
  (* patch the JumpIfFalse *)
  destruct (S_postT_len _ _ _ _ _ _ _ _ _ _ _ _ _ _ _ Pt) as (Hlt & _).
  eapply (S_postT_eq _ ((T1 ++ [IB (opb OpJumpIfFalse)]) ++ IJ p1 v1 :: ([IB (opb OpPop)] ++ Tt ++ [IB (opb OpJump); IJ p2 v2]))) in Q4;
    [|rewrite <- !app_assoc; reflexivity|reflexivity].
  pose proof (resolve_piece _ _ _ _ _ _ _ _ _ _ _ _ _ _ _ _ _ _ _ _ Q4 (p_pos _ _ _ _ _ _ _ _ _ _ _ _ Hpre) Hpj1
                ltac:(rewrite !raw_app, !app_length, Hlt; reflexivity)) as R1.
  pose proof (S_pre_nextT _ _ _ _ _ _ _ _ _ _ _ _ _ _ _ _ _ _ _ _ _ _ Hpre R1) as Hpre8.
  apply emit_op_e in Hpop2.
  pose proof (bytes_piece [opb OpPop] [SC.IPop] _ _ _ _ _ _ _ _ _ _ _ _ _ Hpop2 ltac:(intros; apply crel_one; one_simple) Hpre8) as Pp2.
  pose proof (S_pre_nextT _ _ _ _ _ _ _ _ _ _ _ _ _ _ _ _ _ _ _ _ _ _ Hpre8 Pp2) as Hpre9.
  match type of Hpre9 with S_pre _ _ _ _ _ _ ?q _ _ _ _ _ =>
    replace q with (pos + SC.code_size ca + SC.code_size cc + SC.code_size [SC.ILess; SC.IJumpIfFalse 0; SC.IPop]
                    + SC.code_size ct + SC.code_size [SC.IJump 0; SC.IPop]) in Hpre9 by possolve end.
  pose proof (blk_ok e _ _ _ _ _ _ _ _ _ _ _ _ _ _ _ _ _ _ _ _ _ _ HLe Hse Hfe Hpe Ee Hbs2 Hbe Hes2 Hpre9) as Pe.
  destruct Pe as (Te & me & kle & Ne & Pe).
  pose proof (S_postT_seq' _ _ _ _ _ _ _ _ _ _ _ _ _ _ _ _ _ _ _ _ _ _ _ _ _ _ R1 Pp2 ltac:(possolve)) as Q5.
  pose proof (S_postT_seq' _ _ _ _ _ _ _ _ _ _ _ _ _ _ _ _ _ _ _ _ _ _ _ _ _ _ Q5 Pe ltac:(possolve)) as Q6.
  (* patch the Jump *)
  destruct (S_postT_len _ _ _ _ _ _ _ _ _ _ _ _ _ _ _ Pe) as (Hle & _).
  set (lo1 := N.modulo (N.of_nat v1) 256) in *. set (hi1 := N.div (N.of_nat v1) 256) in *.
  eapply (S_postT_eq _ ((T1 ++ [IB (opb OpJumpIfFalse); IB lo1; IB hi1; IB (opb OpPop)] ++ Tt ++ [IB (opb OpJump)])
                         ++ IJ p2 v2 :: ([IB (opb OpPop)] ++ Te))) in Q6;
    [|rewrite <- !app_assoc; cbn [app]; rewrite <- !app_assoc; reflexivity|reflexivity].
  pose proof (resolve_piece _ _ _ _ _ _ _ _ _ _ _ _ _ _ _ _ _ _ _ _ Q6 (p_pos _ _ _ _ _ _ _ _ _ _ _ _ Hpre) Hpj2
                ltac:(rewrite !raw_app, !app_length, Hle; reflexivity)) as R2.
  eexists _, _, _. split; cycle 1.
  - eapply S_postT_eq; [reflexivity| |exact R2]. repeat rewrite <- app_assoc. cbn [app]. repeat rewrite <- app_assoc. reflexivity.
  - unfold noIJ in *. rewrite !Forall_app. repeat split; try assumption; repeat constructor; try assumption.
Qed.

(* ---- try { b } catch x { h } ---- *)
Hypothesis Hcatch : SC.c_catch_pops cf = false.

Lemma step_piece B code st s1 L L' d d' kl' U E fs pos lc base pre infun inloop :
  step st s1 B [] kl' d' -> Lrel L' kl' -> length kl' <= 256 -> (forall KS FM, crel KS FM B code) ->
  S_pre st L d U E fs pos lc base pre infun inloop ->
  S_postT (map IB B) [] kl' st s1 d' pos lc code L' U E base pre fs.
Proof.
  intros Hs HL Hlen Hk Hpre. destruct Hpre.
  destruct (step_gstep _ _ _ _ _ _ Hs) as (Hg & Ho).
  destruct (gstep_fields _ _ _ _ _ _ _ _ Hg) as (Hc & _ & _ & Hu & _). rewrite app_nil_r in Hc.
  destruct p_num0 as (fs0 & fm & Hd & Hfs).
  unfold S_postT. rewrite raw_IB, holes_IB, push_holes_nil, Hu, Ho, Hc.
  split; [exact Hg|]. split; [apply wfT_IB|]. split; [reflexivity|]. split; [exact HL|]. split; [exact p_U0|].
  split; [exact p_E0|]. split; [apply Oframe_refl|]. split; [exact Hlen|].
  exists fs0, fm. split; [exact Hd|]. split; [exact Hfs|]. intros KS FM _ _. rewrite filled_IB. apply Hk.
Qed.

Lemma resolve_off T1 p v T2 more kl st s u s' off d pos lc code L' U' E' base pre fs' :
  S_postT (T1 ++ IJ p v :: T2) more kl st s d pos lc code L' U' E' base pre fs' ->
  pos = length (k_code (s_cur st)) -> patch_offset_at p off s = COk (u, s') -> v = length (k_code (s_cur s)) - off ->
  S_postT (T1 ++ IB (N.modulo (N.of_nat v) 256) :: IB (N.div (N.of_nat v) 256) :: T2) more kl st s' d pos lc code L' U' E' base pre fs'.
Proof.
  intros P Hpos Hpj Hv. pose proof P as ((Hc & _) & Hw & _).
  apply wfT_app_inv in Hw as (_ & Hw2). cbn [wfT] in Hw2. destruct Hw2 as (Hp & _).
  rewrite raw_app in Hc. change (raw (IJ p v :: T2)) with (255%N :: 255%N :: raw T2) in Hc. rewrite app_assoc in Hc.
  destruct (patch_offset_raw _ _ _ _ _ _ _ _ _ Hpj Hc) as (Hc' & Hr' & Ho').
  { rewrite app_length. lia. }
  eapply S_postT_repatch; [exact P| |exact Hr'|exact Ho'| | |].
  - rewrite Hc', <- Hv, raw_app, <- app_assoc. reflexivity.
  - rewrite !holes_app. reflexivity.
  - eapply wfT_swap. destruct P as (_ & Hw & _). exact Hw.
  - rewrite !filled_app. reflexivity.
Qed.

(* two states that differ only in in_try_block / try_depth *)
Definition sim_try (s s' : cstate) : Prop :=
  k_code (s_cur s') = k_code (s_cur s) /\ s_outer s' = s_outer s /\
  k_kind (s_cur s') = k_kind (s_cur s) /\ k_arity (s_cur s') = k_arity (s_cur s) /\ k_consts (s_cur s') = k_consts (s_cur s) /\
  k_locals (s_cur s') = k_locals (s_cur s) /\ k_upvalues (s_cur s') = k_upvalues (s_cur s) /\ k_scope (s_cur s') = k_scope (s_cur s) /\
  k_loops (s_cur s') = k_loops (s_cur s) /\ k_breaks (s_cur s') = k_breaks (s_cur s).

Lemma S_postT_conj T m kl st sa sb sc d pos lc code L' U' E' base pre fs' :
  sim_try st sa -> sim_try sb sc -> k_in_try (s_cur sc) = k_in_try (s_cur st) -> k_try_depth (s_cur sc) = k_try_depth (s_cur st) ->
  S_postT T m kl sa sb d pos lc code L' U' E' base pre fs' -> S_postT T m kl st sc d pos lc code L' U' E' base pre fs'.
Proof.
  intros (A1 & A2 & A3 & A4 & A5 & A6 & A7 & A8 & A9 & A10) (B1 & B2 & B3 & B4 & B5 & B6 & B7 & B8 & B9 & B10) Hit Htd
         ((Hc & Hr) & Hw & Hh & HL & HU & HE & HO & Hnl & fs0' & fm' & Hd & Hfs & Hk).
  unfold S_postT. rewrite B7, B2, B5, <- A10, <- A2.
  split. { split; [congruence|]. unfold rest in *. injection Hr; intros. congruence. }
  split; [exact Hw|]. split; [exact Hh|]. split; [exact HL|]. split; [exact HU|]. split; [exact HE|]. split; [exact HO|]. split; [exact Hnl|].
  exists fs0', fm'. auto.
Qed.

Lemma one_pushexc KS FM a b : one KS FM (opb OpPushExcHandler :: u16le a ++ u16le b) (SC.IPushExc a b).
Proof.
  split; [reflexivity|]. intros r. unfold u16le. cbn [app]. unfold dec1, opb. cbn [N_of_opcode opcode_of_N].
  rewrite !u16_split, !Nat2N.id. reflexivity.
Qed.

Lemma pushexc_piece st s1 L d U E fs pos lc base pre infun inloop a b :
  emitted st s1 [opb OpPushExcHandler; 255; 255; 255; 255]%N -> S_pre st L d U E fs pos lc base pre infun inloop ->
  S_postT [IB (opb OpPushExcHandler); IJ (pos + 1) a; IJ (pos + 3) b] [] (k_locals (s_cur st)) st s1 d pos lc
          [SC.IPushExc a b] L U E base pre fs.
Proof.
  intros He Hpre. destruct Hpre.
  destruct (step_gstep _ _ _ _ _ _ (emitted_step _ _ _ He)) as (Hg & Ho). rewrite p_d0 in Hg.
  destruct (gstep_fields _ _ _ _ _ _ _ _ Hg) as (Hc & _ & _ & Hu & _). rewrite app_nil_r in Hc.
  destruct p_num0 as (fs0 & fm & Hd & Hfs).
  unfold S_postT. cbn [raw holes flat_map app]. rewrite push_holes_nil, Hu, Ho, Hc.
  split; [exact Hg|]. split. { cbn [wfT]. repeat split; lia. }
  split; [reflexivity|]. split; [exact p_L0|]. split; [exact p_U0|]. split; [exact p_E0|]. split; [apply Oframe_refl|]. split; [exact p_len0|].
  exists fs0, fm. split; [exact Hd|]. split; [exact Hfs|].
  intros KS FM _ _. cbn [filled flat_map app]. rewrite app_nil_r. apply crel_one.
  change (opb OpPushExcHandler :: u16le a ++ u16le b) with (opb OpPushExcHandler :: u16le a ++ u16le b). apply one_pushexc.
Qed.

Lemma try_ok b x h : L_goal b -> L_goal h -> S_goal (SL.STry b x h).
Proof.
  intros HLb HLh. unfold S_goal.
  intros infun top inloop Hsup Hf Hp L d U E fs pos lc code L' U' E' fs' st st' base pre Hn Hc Hpre.
  cbn [sup] in Hsup. apply andb_prop in Hsup as [Hsb Hsh].
  cbn [ScopeDefs5.stmt7] in Hf. apply andb_prop in Hf as [Hfb Hfh].
  cbn [stmt_repr_ok] in Hp. apply andb_prop in Hp as [Hp Hph]. apply andb_prop in Hp as [_ Hpb].
  rewrite ScopeFacts5.nstmt_try in Hn.
  destruct (ScopeDefs5.nblk cf b d L U E fs (pos + 5) lc) as [[[[[cb L1] U1] E1] fs1]|] eqn:Eb; [|discriminate].
  destruct (SC.dup_in_scope L1 x (S d)); [discriminate|].
  destruct (Nat.eqb (length L1) (SC.c_locals_max cf)); [discriminate|].
  rewrite Hcatch in Hn. cbv zeta in Hn. cbn [app SC.code_size] in Hn. rewrite Nat.add_0_r in Hn.
  destruct (ScopeDefs5.nlist cf h (S d) (SC.mkLocal (Some x) (Some (S d)) false :: L1) U1 E1 fs1 (pos + 5 + SC.code_size cb + 4) lc)
    as [[[[[ch L2] U2] E2] fs2]|] eqn:Eh; [|discriminate].
  injection Hn; intros; subst code L' U' E' fs'. clear Hn.
  set (ops := SC.scope_end_ops L2 d) in *. set (chh := ch ++ ops) in *.
  cbn [tr_stmt cstmt] in Hc. rewrite !tr_list_eq in Hc.
  bcur Hc.
  apply bind_inv in Hc as (u0 & sa & Hwt & Hc). destruct u0.
  apply bind_inv in Hc as (u0 & sa1 & Hpe & Hc). destruct u0.
  apply bind_inv in Hc as (hp & sa1' & Hhp & Hc). unfold code_len in Hhp. inversion Hhp; subst hp sa1'. clear Hhp.
  apply bind_inv in Hc as (u0 & sa2 & Hb1 & Hc). destruct u0. apply bind_inv in Hc as (u0 & sa3 & Hb2 & Hc). destruct u0.
  apply bind_inv in Hc as (u0 & sa4 & Hb3 & Hc). destruct u0. apply bind_inv in Hc as (u0 & sa5 & Hb4 & Hc). destruct u0.
  apply bind_inv in Hc as (pp & sa5' & Hpp & Hc). unfold code_len in Hpp. inversion Hpp; subst pp sa5'. clear Hpp.
  apply bind_inv in Hc as (u0 & sb1 & Hbs1 & Hc). destruct u0. apply bind_inv in Hc as (u0 & sb2 & Hbb & Hc). destruct u0.
  apply bind_inv in Hc as (u0 & sb & Hes1 & Hc). destruct u0.
  apply bind_inv in Hc as (u0 & sc & Hwt2 & Hc). destruct u0.
  apply bind_inv in Hc as (u0 & sc1 & Hpop & Hc). destruct u0.
  apply bind_inv in Hc as (p3 & sc2 & Hj3 & Hc).
  apply bind_inv in Hc as (u0 & sc3 & Hpo1 & Hc). destruct u0.
  apply bind_inv in Hc as (cs & sc3' & Hcs & Hc). unfold code_len in Hcs. inversion Hcs; subst cs sc3'. clear Hcs.
  apply bind_inv in Hc as (u0 & sd1 & Hbs2 & Hc). destruct u0. apply bind_inv in Hc as (u0 & sd2 & Hdv & Hc). destruct u0.
  apply bind_inv in Hc as (u0 & sd3 & Hmi & Hc). destruct u0. apply bind_inv in Hc as (u0 & sd4 & Hbh & Hc). destruct u0.
  apply bind_inv in Hc as (u0 & sd5 & Hes2 & Hc). destruct u0.
  apply bind_inv in Hc as (u0 & se & Hpj3 & Hpo2). destruct u0.
  (* with_try: the block runs with in_try_block = true, try_depth + 1 *)
  unfold upd in Hwt. inversion Hwt; subst sa. clear Hwt.
  set (sa := mkS (with_try (s_cur st) true (S (k_try_depth (s_cur st)))) (s_outer st) (s_classes st) (s_line st)) in *.
  assert (Hsim1 : sim_try st sa) by (repeat split).
  assert (Hprea : S_pre sa L d U E fs pos lc base pre false false).
  { destruct Hpre. constructor; [exact p_L0|exact p_U0|exact p_E0|exact p_d0|exact p_pos0|exact p_num0|exact p_base0|discriminate| |exact p_len0].
    unfold lcrel in *. destruct lc as [l|]; [|exact I]. destruct p_lc0 as (td & rl & b0 & br & H1 & H2 & H3 & H4).
    exists td, rl, b0, br. repeat split; auto. discriminate. }
  apply emit_op_e in Hpe. apply emit_byte_e in Hb1. apply emit_byte_e in Hb2. apply emit_byte_e in Hb3. apply emit_byte_e in Hb4.
  pose proof (emitted_trans _ _ _ _ _ (emitted_trans _ _ _ _ _ (emitted_trans _ _ _ _ _ (emitted_trans _ _ _ _ _ Hpe Hb1) Hb2) Hb3) Hb4) as Hpe5.
  cbn [app] in Hpe5.
  set (va := SC.code_size cb + 4). set (vb := SC.code_size chh).
  pose proof (pushexc_piece _ _ _ _ _ _ _ _ _ _ _ _ _ va vb Hpe5 Hprea) as Ppe.
  pose proof (S_pre_nextT _ _ _ _ _ _ _ _ _ _ _ _ _ _ _ _ _ _ _ _ _ _ Hprea Ppe) as Hprea5.
  cbn [SC.code_size SC.isize] in Hprea5. rewrite Nat.add_0_r in Hprea5.
  pose proof (blk_ok b _ _ _ _ _ _ _ _ _ _ _ _ _ _ _ _ _ _ _ _ _ _ HLb Hsb Hfb Hpb Eb Hbs1 Hbb Hes1 Hprea5) as Pb.
  destruct Pb as (Tb & mb & klb & Nb & Pb).
  pose proof (S_postT_seq' _ _ _ _ _ _ _ _ _ _ _ _ _ _ _ _ _ _ _ _ _ _ _ _ _ _ Ppe Pb ltac:(possolve)) as Qa.
  (* back to the enclosing in_try_block / try_depth *)
  unfold upd in Hwt2. inversion Hwt2; subst sc. clear Hwt2.
  set (sc := mkS (with_try (s_cur sb) (k_in_try (s_cur st)) (pred (k_try_depth (s_cur sb)))) (s_outer sb) (s_classes sb) (s_line sb)) in *.
  assert (Hsim2 : sim_try sb sc) by (repeat split).
  assert (Htd : k_try_depth (s_cur sc) = k_try_depth (s_cur st)).
  { destruct Qa as (Hg & _). destruct (gstep_fields _ _ _ _ _ _ _ _ Hg) as (_ & _ & _ & _ & _ & _ & _ & Htd' & _).
    cbn [sc s_cur k_try_depth with_try]. rewrite Htd'. reflexivity. }
  pose proof (S_postT_conj _ _ _ _ _ _ _ _ _ _ _ _ _ _ _ _ _ Hsim1 Hsim2 eq_refl Htd Qa) as Qc.
  pose proof (S_pre_nextT _ _ _ _ _ _ _ _ _ _ _ _ _ _ _ _ _ _ _ _ _ _ Hpre Qc) as Hprec.
  rewrite tr_list_eq in Hbh.
  pose proof (p_pos _ _ _ _ _ _ _ _ _ _ _ _ Hpre) as Hpos.
  assert (Hl1 : length (k_code (s_cur sa1)) = pos + 1).
  { destruct Hpe as (Hc1 & _). rewrite Hc1, app_length. cbn. rewrite Hpos. reflexivity. }
  assert (Hl5 : length (k_code (s_cur sa5)) = pos + 5).
  { destruct Hpe5 as (Hc5 & _). rewrite Hc5, app_length. cbn. rewrite Hpos. reflexivity. }
  rewrite Hl1, Hl5 in Hpo1. rewrite Hl1 in Hpo2.
  (* PopExcHandler; Jump over the catch clause *)
  apply emit_op_e in Hpop.
  pose proof (bytes_piece [opb OpPopExcHandler] [SC.IPopExc] _ _ _ _ _ _ _ _ _ _ _ _ _ Hpop ltac:(intros; apply crel_one; one_simple) Hprec) as Ppop.
  pose proof (S_pre_nextT _ _ _ _ _ _ _ _ _ _ _ _ _ _ _ _ _ _ _ _ _ _ Hprec Ppop) as Hprec1.
  destruct (jump_piece OpJump SC.IJump _ _ _ _ _ _ _ _ _ _ _ _ _ _ _ vb (fun KS FM => proj1 (one_jumps KS FM vb)) Hj3 Hprec1) as (Hp3 & Pj3).
  pose proof (S_postT_seq' _ _ _ _ _ _ _ _ _ _ _ _ _ _ _ _ _ _ _ _ _ _ _ _ _ _ Qc Ppop ltac:(possolve)) as Q1.
  pose proof (S_postT_seq' _ _ _ _ _ _ _ _ _ _ _ _ _ _ _ _ _ _ _ _ _ _ _ _ _ _ Q1 Pj3 ltac:(possolve)) as Q2.
  (* first operand of PushExcHandler: the size of the try part *)
  destruct (S_postT_len _ _ _ _ _ _ _ _ _ _ _ _ _ _ _ Q2) as (_ & Hlen2).
  eapply (S_postT_eq _ ([IB (opb OpPushExcHandler)] ++ IJ (pos + 1) va :: (IJ (pos + 3) vb :: Tb ++ [IB (opb OpPopExcHandler)] ++ [IB (opb OpJump); IJ p3 vb]))) in Q2;
    [|repeat rewrite <- app_assoc; reflexivity|reflexivity].
  pose proof (resolve_off _ _ _ _ _ _ _ _ _ _ _ _ _ _ _ _ _ _ _ _ _ Q2 Hpos Hpo1
                ltac:(rewrite Hlen2, <- Hpos; unfold va; repeat rewrite ScopeSim.code_size_app; cbn [SC.code_size SC.isize]; lia)) as R1.
  pose proof (S_pre_nextT _ _ _ _ _ _ _ _ _ _ _ _ _ _ _ _ _ _ _ _ _ _ Hpre R1) as Hpre3.
  destruct (S_postT_len _ _ _ _ _ _ _ _ _ _ _ _ _ _ _ R1) as (_ & Hlen3).
  (* the catch clause: a scope whose first local is the catch variable *)
  apply begin_scope_e in Hbs2. rewrite (p_d _ _ _ _ _ _ _ _ _ _ _ _ Hpre3) in Hbs2.
  pose proof (step_piece [] [] _ _ _ _ _ _ _ _ _ _ _ _ _ _ _ _ Hbs2 (p_L _ _ _ _ _ _ _ _ _ _ _ _ Hpre3) (p_len _ _ _ _ _ _ _ _ _ _ _ _ Hpre3) ltac:(intros; constructor) Hpre3) as Pbs.
  pose proof (S_pre_nextT _ _ _ _ _ _ _ _ _ _ _ _ _ _ _ _ _ _ _ _ _ _ Hpre3 Pbs) as Hpd1.
  assert (Hdl : length (k_locals (s_cur sd1)) < 256).
  { pose proof (declare_variable_len _ _ _ _ _ Hdv ltac:(rewrite (p_d _ _ _ _ _ _ _ _ _ _ _ _ Hpd1); discriminate)). pose proof (p_len _ _ _ _ _ _ _ _ _ _ _ _ Hpd1). lia. }
  apply declare_variable_e in Hdv as [[Hz _]|[Hz Hs]]; [rewrite (p_d _ _ _ _ _ _ _ _ _ _ _ _ Hpd1) in Hz; discriminate|].
  rewrite (p_d _ _ _ _ _ _ _ _ _ _ _ _ Hpd1) in Hs.
  assert (HLx : Lrel (SC.mkLocal (Some x) None false :: L1) (mkKL (tr_name x) None false :: k_locals (s_cur sd1))).
  { constructor; [repeat split|exact (p_L _ _ _ _ _ _ _ _ _ _ _ _ Hpd1)]. }
  pose proof (step_piece [] [] _ _ _ _ _ _ _ _ _ _ _ _ _ _ _ _ Hs HLx ltac:(cbn [length]; lia) ltac:(intros; constructor) Hpd1) as Pdv.
  pose proof (S_pre_nextT _ _ _ _ _ _ _ _ _ _ _ _ _ _ _ _ _ _ _ _ _ _ Hpd1 Pdv) as Hpd2.
  destruct (step_fields _ _ _ _ _ _ Hs) as (_ & Hlx & _).
  assert (Hz2 : k_scope (s_cur sd2) <> 0) by (rewrite (p_d _ _ _ _ _ _ _ _ _ _ _ _ Hpd2); discriminate).
  pose proof (mark_initialised_e _ _ _ _ _ _ _ Hmi Hlx Hz2) as Hs3. rewrite (p_d _ _ _ _ _ _ _ _ _ _ _ _ Hpd2) in Hs3.
  assert (HLx2 : Lrel (SC.mkLocal (Some x) (Some (S d)) false :: L1) (mkKL (tr_name x) (Some (S d)) false :: k_locals (s_cur sd1))).
  { constructor; [repeat split|exact (p_L _ _ _ _ _ _ _ _ _ _ _ _ Hpd1)]. }
  pose proof (step_piece [] [] _ _ _ _ _ _ _ _ _ _ _ _ _ _ _ _ Hs3 HLx2 ltac:(cbn [length]; lia) ltac:(intros; constructor) Hpd2) as Pmi.
  pose proof (S_pre_nextT _ _ _ _ _ _ _ _ _ _ _ _ _ _ _ _ _ _ _ _ _ _ Hpd2 Pmi) as Hpd3.
  match type of Hpd3 with S_pre _ _ _ _ _ _ ?q _ _ _ _ _ =>
    replace q with (pos + 5 + SC.code_size cb + 4) in Hpd3 by possolve end.
  pose proof (HLh _ _ _ Hsh Hfh Hph _ _ _ _ _ _ _ _ _ _ _ _ _ _ _ _ Eh Hbh Hpd3) as Ph.
  destruct Ph as (Th & mh & klh & Nh & Ph).
  pose proof (S_pre_nextT _ _ _ _ _ _ _ _ _ _ _ _ _ _ _ _ _ _ _ _ _ _ Hpd3 Ph) as Hpd4.
  pose proof (end_scope_e _ _ _ _ d Hes2 (p_d _ _ _ _ _ _ _ _ _ _ _ _ Hpd4)) as Hs5.
  pose proof (p_L _ _ _ _ _ _ _ _ _ _ _ _ Hpd4) as HL4.
  destruct (scope_end_agree [] [] d _ _ HL4) as (_ & Hlen).
  assert (HL5 : Lrel (skipn (length ops) L2) (skipn (length (scope_end_ops d (k_locals (s_cur sd4)))) (k_locals (s_cur sd4)))).
  { unfold ops. rewrite <- Hlen. now apply Lrel_skipn. }
  pose proof (step_piece _ ops _ _ _ _ _ _ _ _ _ _ _ _ _ _ _ _ Hs5 HL5 ltac:(rewrite skipn_length; pose proof (p_len _ _ _ _ _ _ _ _ _ _ _ _ Hpd4); lia) ltac:(intros KS FM; now apply scope_end_agree) Hpd4) as Pes.
  pose proof (S_postT_seq' _ _ _ _ _ _ _ _ _ _ _ _ _ _ _ _ _ _ _ _ _ _ _ _ _ _ R1 Pbs ltac:(possolve)) as Q3.
  pose proof (S_postT_seq' _ _ _ _ _ _ _ _ _ _ _ _ _ _ _ _ _ _ _ _ _ _ _ _ _ _ Q3 Pdv ltac:(possolve)) as Q4.
  pose proof (S_postT_seq' _ _ _ _ _ _ _ _ _ _ _ _ _ _ _ _ _ _ _ _ _ _ _ _ _ _ Q4 Pmi ltac:(possolve)) as Q5.
  pose proof (S_postT_seq' _ _ _ _ _ _ _ _ _ _ _ _ _ _ _ _ _ _ _ _ _ _ _ _ _ _ Q5 Ph ltac:(possolve)) as Q6.
  pose proof (S_postT_seq' _ _ _ _ _ _ _ _ _ _ _ _ _ _ _ _ _ _ _ _ _ _ _ _ _ _ Q6 Pes ltac:(possolve)) as Q7.
  (* patch the Jump over the catch clause *)
  destruct (S_postT_len _ _ _ _ _ _ _ _ _ _ _ _ _ _ _ Ph) as (Hlh & _). destruct (S_postT_len _ _ _ _ _ _ _ _ _ _ _ _ _ _ _ Pes) as (Hlo & _).
  set (opsB := map opb (scope_end_ops d (k_locals (s_cur sd4)))) in *.
  set (loa := N.modulo (N.of_nat va) 256) in *. set (hia := N.div (N.of_nat va) 256) in *.
  eapply (S_postT_eq _ (([IB (opb OpPushExcHandler); IB loa; IB hia; IJ (pos + 3) vb] ++ Tb ++ [IB (opb OpPopExcHandler); IB (opb OpJump)])
                         ++ IJ p3 vb :: (Th ++ map IB opsB))) in Q7;
    [|cbn [map app]; repeat rewrite app_nil_r; repeat rewrite <- app_assoc; cbn [app]; reflexivity|reflexivity].
  pose proof (resolve_piece _ _ _ _ _ _ _ _ _ _ _ _ _ _ _ _ _ _ _ _ Q7 Hpos Hpj3
                ltac:(rewrite raw_app, app_length, Hlh, Hlo; unfold vb, chh; rewrite ScopeSim.code_size_app; reflexivity)) as R2.
  destruct (S_postT_len _ _ _ _ _ _ _ _ _ _ _ _ _ _ _ R2) as (_ & Hlen5).
  (* second operand of PushExcHandler: the size of the catch clause *)
  replace (pos + 1 + 2) with (pos + 3) in Hpo2 by lia.
  set (lo3 := N.modulo (N.of_nat vb) 256) in *. set (hi3 := N.div (N.of_nat vb) 256) in *.
  eapply (S_postT_eq _ ([IB (opb OpPushExcHandler); IB loa; IB hia] ++ IJ (pos + 3) vb ::
                         (Tb ++ [IB (opb OpPopExcHandler); IB (opb OpJump); IB lo3; IB hi3] ++ Th ++ map IB opsB))) in R2;
    [|repeat rewrite <- app_assoc; cbn [app]; repeat rewrite <- app_assoc; reflexivity|reflexivity].
  pose proof (resolve_off _ _ _ _ _ _ _ _ _ _ _ _ _ _ _ _ _ _ _ _ _ R2 Hpos Hpo2
                ltac:(rewrite Hlen5, Hlen3; unfold vb, chh; repeat rewrite ScopeSim.code_size_app; cbn [SC.code_size SC.isize]; lia)) as R3.
  eexists _, _, _. split; cycle 1.
  - eapply S_postT_eq; [reflexivity| |exact R3]. unfold chh. repeat rewrite app_nil_r. repeat rewrite <- app_assoc. reflexivity.
  - unfold noIJ in *.
    repeat (first [assumption | apply Forall_app; split | apply Forall_cons; [exact I|] | apply Forall_nil | apply noIJ_IB]).
Qed.

(* ---- loops: for / break / continue ---- *)

Lemma emit_scope_end_false_e d l s u s' : emit_scope_end false d l s = COk (u, s') ->
  emitted s s' (map opb (scope_end_ops d (k_locals (s_cur s)))).
Proof.
  unfold emit_scope_end. intros H. bcur H. apply bind_inv in H as (u0 & s1 & H1 & H). destruct u0.
  unfold cret in H. inversion H; subst. eapply emit_ops_e; eassumption.
Qed.

Lemma emit_loop_e ls l s u s' : emit_loop ls l s = COk (u, s') ->
  emitted s s' (opb OpLoop :: u16le (length (k_code (s_cur s)) + 1 - ls + 2)).
Proof.
  unfold emit_loop. intros H. apply bind_inv in H as (u0 & s1 & H1 & H). destruct u0.
  apply bind_inv in H as (n & s2 & H2 & H). unfold code_len in H2. inversion H2; subst n s2. clear H2.
  destruct (N.ltb JUMP_SIZE_MAX (N.of_nat (length (k_code (s_cur s1)) - ls + 2))); [discriminate|].
  apply emit_op_e in H1. apply emit_u16_e in H.
  assert (Hl : length (k_code (s_cur s1)) = length (k_code (s_cur s)) + 1).
  { destruct H1 as (Hc & _). rewrite Hc, app_length. reflexivity. }
  rewrite Hl in H. exact (emitted_trans _ _ _ _ _ H1 H).
Qed.

Lemma exc_pops_none td l s u s' : emit_exc_handler_pops td l s = COk (u, s') -> td = k_try_depth (s_cur s) -> s' = s.
Proof.
  unfold emit_exc_handler_pops. intros H ->. bcur H. rewrite Nat.sub_diag in H. cbn in H. unfold cret in H. now inversion H.
Qed.

(* the ops of a break / continue: the locals deeper than the loop *)
Lemma cut_ops_piece dl st s1 L d U E fs pos lc base pre infun inloop :
  emitted st s1 (map opb (scope_end_ops dl (k_locals (s_cur st)))) ->
  S_pre st L d U E fs pos lc base pre infun inloop ->
  S_postT (map IB (map opb (scope_end_ops dl (k_locals (s_cur st))))) [] (k_locals (s_cur st)) st s1 d pos lc
          (SC.scope_end_ops L dl) L U E base pre fs.
Proof.
  intros He Hpre. eapply bytes_piece; [exact He| |exact Hpre].
  intros KS FM. apply scope_end_agree. apply Hpre.
Qed.

Lemma continue_ok : S_goal SL.SContinue.
Proof.
  unfold S_goal. intros infun top inloop Hsup Hf Hp L d U E fs pos lc code L' U' E' fs' st st' base pre Hn Hc Hpre.
  cbn [ScopeDefs5.stmt7] in Hf. cbn [andb] in Hf. subst inloop.
  cbn [ScopeDefs5.nstmt] in Hn. destruct lc as [l|]; [|discriminate]. injection Hn; intros; subst code L' U' E' fs'. clear Hn.
  pose proof (p_lc _ _ _ _ _ _ _ _ _ _ _ _ Hpre) as (td & rl & b0 & br & Hlo & Hbr & Htd & Hge). specialize (Htd eq_refl).
  rewrite <- (p_pos _ _ _ _ _ _ _ _ _ _ _ _ Hpre) in Hge.
  cbn [tr_stmt cstmt] in Hc. bcur Hc. rewrite Hlo in Hc.
  apply bind_inv in Hc as (u0 & s1 & Hx & Hc). destruct u0. apply (exc_pops_none _ _ _ _ _) in Hx; [|exact Htd]. subst s1.
  apply bind_inv in Hc as (u0 & s1 & Hse & Hc). destruct u0.
  apply emit_scope_end_false_e in Hse. apply emit_loop_e in Hc.
  pose proof (cut_ops_piece _ _ _ _ _ _ _ _ _ _ _ _ _ _ Hse Hpre) as P1.
  pose proof (S_pre_nextT _ _ _ _ _ _ _ _ _ _ _ _ _ _ _ _ _ _ _ _ _ _ Hpre P1) as Hpre1.
  rewrite <- (p_pos _ _ _ _ _ _ _ _ _ _ _ _ Hpre1) in Hc.
  set (ops := SC.scope_end_ops L (SN.lc_depth l)) in *.
  assert (P2 : S_postT (map IB (opb OpLoop :: u16le (pos + SC.code_size ops + 1 - SN.lc_start l + 2))) [] (k_locals (s_cur s1)) s1 st' d
                       (pos + SC.code_size ops) (Some l) [SC.ILoop (pos + SC.code_size ops + 3 - SN.lc_start l)] L U E base pre fs).
  { eapply bytes_piece; [exact Hc| |exact Hpre1]. intros KS FM. apply crel_one.
    replace (pos + SC.code_size ops + 3 - SN.lc_start l) with (pos + SC.code_size ops + 1 - SN.lc_start l + 2).
    - apply one_jumps.
    - lia. }
  eexists _, _, _. split; [|exact (S_postT_seq _ _ _ _ _ _ _ _ _ _ _ _ _ _ _ _ _ _ _ _ _ _ _ _ _ P1 P2)].
  apply noIJ_app; apply noIJ_IB.
Qed.

Lemma hole_piece l0 st p s1 st' L d U E fs pos l base pre infun inloop :
  emit_jump OpJump l0 st = COk (p, s1) -> push_break p s1 = COk (tt, st') ->
  S_pre st L d U E fs pos (Some l) base pre infun inloop ->
  S_postT [IB (opb OpJump); IHole p] [] (k_locals (s_cur st)) st st' d pos (Some l)
          [SC.IJump (SN.lc_exit l - (pos + 3))] L U E base pre fs.
Proof.
  intros He Hpb Hpre. apply emit_jump_e in He as (He & Hp). destruct Hpre.
  assert (Hp' : p = pos + 1) by (rewrite p_pos0; exact Hp).
  destruct p_lc0 as (td & rl & b0 & br & Hlo & Hbr & _ & _).
  destruct He as (Hc1 & Hr1 & Ho1). unfold rest in Hr1. injection Hr1; intros.
  unfold push_break, upd in Hpb. inversion Hpb; subst st'. clear Hpb.
  replace (k_breaks (s_cur s1)) with (b0 :: br) by congruence.
  destruct p_num0 as (fs0 & fm & Hd & Hfs).
  unfold S_postT. cbn [raw holes flat_map app s_cur s_outer k_upvalues k_consts with_loops]. rewrite Hbr. cbn [push_holes rev app].
  split. { split; [cbn [k_code with_loops]; exact Hc1|]. unfold rest. cbn. rewrite app_nil_r, <- p_d0. congruence. }
  split. { cbn [wfT]. split; [lia|exact I]. }
  split; [discriminate|]. split; [exact p_L0|]. split; [unfold urel in *; congruence|]. split; [rewrite Ho1; exact p_E0|].
  split; [rewrite Ho1; apply Oframe_refl|]. split; [exact p_len0|].
  exists fs0, fm. split; [congruence|]. split; [exact Hfs|].
  intros KS FM _ _. cbn [filled flat_map app lc_exit_of]. rewrite app_nil_r. apply crel_one.
  replace (SN.lc_exit l - (pos + 3)) with (SN.lc_exit l - p - 2) by lia. apply one_jumps.
Qed.

Lemma break_ok : S_goal SL.SBreak.
Proof.
  unfold S_goal. intros infun top inloop Hsup Hf Hp L d U E fs pos lc code L' U' E' fs' st st' base pre Hn Hc Hpre.
  cbn [ScopeDefs5.stmt7] in Hf. cbn [andb] in Hf. subst inloop.
  cbn [ScopeDefs5.nstmt] in Hn. destruct lc as [l|]; [|discriminate]. injection Hn; intros; subst code L' U' E' fs'. clear Hn.
  pose proof (p_lc _ _ _ _ _ _ _ _ _ _ _ _ Hpre) as (td & rl & b0 & br & Hlo & Hbr & Htd & Hge). specialize (Htd eq_refl).
  cbn [tr_stmt cstmt] in Hc. bcur Hc. rewrite Hlo in Hc.
  apply bind_inv in Hc as (u0 & s1 & Hx & Hc). destruct u0. apply (exc_pops_none _ _ _ _ _) in Hx; [|exact Htd]. subst s1.
  apply bind_inv in Hc as (u0 & s1 & Hse & Hc). destruct u0. apply bind_inv in Hc as (bp & s2 & Hj & Hpb).
  apply emit_scope_end_false_e in Hse.
  pose proof (cut_ops_piece _ _ _ _ _ _ _ _ _ _ _ _ _ _ Hse Hpre) as P1.
  pose proof (S_pre_nextT _ _ _ _ _ _ _ _ _ _ _ _ _ _ _ _ _ _ _ _ _ _ Hpre P1) as Hpre1.
  pose proof (hole_piece _ _ _ _ _ _ _ _ _ _ _ _ _ _ _ _ Hj Hpb Hpre1) as P2.
  eexists _, _, _. split; cycle 1.
  - eapply S_postT_eq; [reflexivity| |exact (S_postT_seq _ _ _ _ _ _ _ _ _ _ _ _ _ _ _ _ _ _ _ _ _ _ _ _ _ P1 P2)].
    first [reflexivity | repeat f_equal; lia].
  - apply noIJ_app; [apply noIJ_IB|repeat constructor].
Qed.

(* ---- for i in 0..n { b } ---- *)

Lemma add_local_e nm s ok s' : add_local nm s = COk (ok, s') ->
  (ok = true /\ length (k_locals (s_cur s)) <> 256 /\
   step s s' [] [] (mkKL nm None false :: k_locals (s_cur s)) (k_scope (s_cur s))) \/ ok = false.
Proof.
  unfold add_local. intros H. bcur H.
  destruct (Nat.eqb_spec (length (k_locals (s_cur s))) LOCALS_MAX) as [He|Hne].
  - unfold cret in H. inversion H; subst. now right.
  - apply bind_inv in H as (u0 & s1 & Hu & H). unfold cret in H. inversion H; subst ok s'. left.
    split; [reflexivity|]. split; [exact Hne|]. eapply upd_step; [exact Hu|reflexivity|reflexivity].
Qed.

Lemma mark_slot_head slot s u s' nm dp cp r : mark_initialised_slot slot s = COk (u, s') ->
  k_locals (s_cur s) = mkKL nm dp cp :: r -> slot = length r ->
  step s s' [] [] (mkKL nm (Some (k_scope (s_cur s))) cp :: r) (k_scope (s_cur s)).
Proof.
  unfold mark_initialised_slot. intros H Hl Hs. eapply upd_step; [exact H| |]; cbv beta; rewrite Hl; cbn [length];
    replace (S (length r) - 1 - slot) with 0 by lia; reflexivity.
Qed.

Lemma szb_eq b j i t lp L d U E fs pos l1 l2 c1 La Ua Ea fa c2 Lb Ub Eb fb :
  forallb (ScopeDefs5.stmt7 j i t lp) b = true -> SN.lc_depth l1 = SN.lc_depth l2 ->
  ScopeDefs5.nblk cf b d L U E fs pos (Some l1) = Some (c1, La, Ua, Ea, fa) ->
  ScopeDefs5.nblk cf b d L U E fs pos (Some l2) = Some (c2, Lb, Ub, Eb, fb) ->
  SC.code_size c1 = SC.code_size c2.
Proof.
  intros Hf Hd H1 H2.
  assert (Hu : forallb ScopeFacts5.stmt7u b = true) by (eapply ScopeFacts5.forallb_stmt7_stmt7u; exact Hf).
  assert (HF : Forall (ScopeFacts5.nstmt_szP cf) b).
  { apply Forall_forall. intros x Hx. apply ScopeFacts5.nstmt_lc_sz. rewrite forallb_forall in Hu. now apply Hu. }
  pose proof (ScopeFacts5.nblk_sz_aux cf b (ScopeFacts5.nlist_sz_aux cf b HF) L d U E fs pos l1 l2 Hd) as Hs.
  rewrite H1, H2 in Hs. cbn in Hs. now destruct Hs.
Qed.

(* pop_loop on the raw code: every pending break jump of T gets the distance to the current end of the code *)
Lemma patch_holes_raw : forall T c0 s s', noIJ T -> wfT (length c0) T ->
  patch_jumps (holes T) s = COk (tt, s') -> k_code (s_cur s) = c0 ++ raw T ->
  k_code (s_cur s') = c0 ++ filled (length (k_code (s_cur s))) T /\ rest (s_cur s') = rest (s_cur s) /\ s_outer s' = s_outer s.
Proof.
  induction T as [|[b|p|p v] r IH]; intros c0 s s' Hn Hw Hp Hc.
  - cbn in Hp. unfold cret in Hp. inversion Hp; subst. cbn in Hc |- *. auto.
  - inversion Hn; subst. cbn [wfT] in Hw. cbn [holes flat_map app] in Hp.
    change (raw (IB b :: r)) with ([b] ++ raw r) in Hc. rewrite app_assoc in Hc.
    destruct (IH (c0 ++ [b]) s s' H2 ltac:(rewrite app_length; cbn; replace (length c0 + 1) with (S (length c0)) by lia; exact Hw) Hp Hc)
      as (K1 & K2 & K3).
    split; [|auto]. rewrite K1, <- app_assoc. reflexivity.
  - inversion Hn; subst. cbn [wfT] in Hw. destruct Hw as (Hpp & Hw). cbn [holes flat_map app patch_jumps] in Hp.
    apply bind_inv in Hp as (u0 & s1 & Hpj & Hp). destruct u0.
    change (raw (IHole p :: r)) with (255%N :: 255%N :: raw r) in Hc.
    destruct (patch_jump_raw _ _ _ _ _ _ _ _ Hpj Hc (eq_sym Hpp)) as (Hc1 & Hr1 & Ho1).
    assert (Hlen1 : length (k_code (s_cur s1)) = length (k_code (s_cur s))).
    { rewrite Hc1, Hc, !app_length. reflexivity. }
    change (c0 ++ N.modulo (N.of_nat (length (raw r))) 256 :: N.div (N.of_nat (length (raw r))) 256 :: raw r)
      with (c0 ++ [N.modulo (N.of_nat (length (raw r))) 256; N.div (N.of_nat (length (raw r))) 256] ++ raw r) in Hc1.
    rewrite app_assoc in Hc1.
    destruct (IH (c0 ++ [N.modulo (N.of_nat (length (raw r))) 256; N.div (N.of_nat (length (raw r))) 256]) s1 s' H2
                ltac:(rewrite app_length; cbn [length]; exact Hw) Hp Hc1) as (K1 & K2 & K3).
    split; [|split; congruence].
    rewrite K1, Hlen1, <- app_assoc. f_equal. cbn [filled flat_map app]. unfold u16le.
    replace (length (k_code (s_cur s)) - p - 2) with (length (raw r)) by (rewrite Hc, app_length; cbn; lia). reflexivity.
  - inversion Hn; subst. contradiction.
Qed.

(* two states that differ only in loop_stack / break_stack *)
Definition sim_loop (s0 sp : cstate) : Prop :=
  k_code (s_cur sp) = k_code (s_cur s0) /\ s_outer sp = s_outer s0 /\
  k_kind (s_cur sp) = k_kind (s_cur s0) /\ k_arity (s_cur sp) = k_arity (s_cur s0) /\ k_consts (s_cur sp) = k_consts (s_cur s0) /\
  k_locals (s_cur sp) = k_locals (s_cur s0) /\ k_upvalues (s_cur sp) = k_upvalues (s_cur s0) /\ k_scope (s_cur sp) = k_scope (s_cur s0) /\
  k_in_try (s_cur sp) = k_in_try (s_cur s0) /\ k_try_depth (s_cur sp) = k_try_depth (s_cur s0).

Lemma pop_loop_ok T m kl s0 sp sq sr d pos l' lc0 code L' U' E' base pre fs' x :
  S_postT T m kl sp sq d pos (Some l') code L' U' E' base pre fs' -> noIJ T -> pos = length (k_code (s_cur sp)) ->
  sim_loop s0 sp -> k_loops (s_cur sp) = x :: k_loops (s_cur s0) -> k_breaks (s_cur sp) = [] :: k_breaks (s_cur s0) ->
  pop_loop sq = COk (tt, sr) -> SN.lc_exit l' = length (k_code (s_cur sq)) ->
  S_postT (map IB (filled (SN.lc_exit l') T)) m kl s0 sr d pos lc0 code L' U' E' base pre fs'.
Proof.
  intros (Hg & Hw & Hh & HL & HU & HE & HO & Hnl & fs0' & fm' & Hd & Hfs & Hk) HnT Hpos
         (A1 & A2 & A3 & A4 & A5 & A6 & A7 & A8 & A9 & A10) Hlo Hbr Hpl Hex.
  destruct (gstep_fields _ _ _ _ _ _ _ _ Hg) as (Hc & Hl & Hsc & Hup & Hb & Hkind & Hit & Htd & Hloops & Har).
  destruct Hg as (Hcode & _).
  unfold pop_loop in Hpl. bcur Hpl. rewrite Hb, Hbr in Hpl. cbn [push_holes] in Hpl. rewrite app_nil_r, rev_involutive in Hpl.
  apply bind_inv in Hpl as (u0 & sq' & Hu & Hpl). destruct u0. unfold upd in Hu. inversion Hu; subst sq'. clear Hu.
  destruct (patch_holes_raw T (k_code (s_cur sp)) _ sr HnT ltac:(rewrite <- Hpos; exact Hw) Hpl Hcode) as (K1 & K2 & K3).
  cbn [s_cur s_outer k_code with_loops] in K1, K3. rewrite <- Hex in K1.
  unfold rest in K2. cbn in K2. injection K2; intros.
  unfold S_postT. rewrite raw_IB, holes_IB, push_holes_nil, filled_IB.
  replace (k_upvalues (s_cur sr)) with (k_upvalues (s_cur sq)) by congruence.
  replace (k_consts (s_cur sr)) with (k_consts (s_cur sq)) by congruence.
  rewrite K3, <- A2.
  split. { split; [congruence|]. unfold rest. rewrite Hloops, Hlo, Hb, Hbr in *. cbn [push_holes tl] in *. congruence. }
  split; [apply wfT_IB|]. split; [reflexivity|]. split; [exact HL|]. split; [exact HU|]. split; [exact HE|]. split; [exact HO|].
  split; [exact Hnl|]. exists fs0', fm'. split; [exact Hd|]. split; [exact Hfs|]. exact Hk.
Qed.

Lemma iter_ok l st s1 gi s2 s3 st' U E :
  set_line l st = COk (tt, s1) -> identifier_constant n_iter s1 = COk (gi, s2) ->
  emit_op16 OpInvoke gi l s2 = COk (tt, s3) -> emit_byte 0%N l s3 = COk (tt, st') ->
  urel U (k_upvalues (s_cur st)) -> Erel E (s_outer st) ->
  E_post st st' [SC.IInvoke SC.MIter 0] U E.
Proof.
  intros H1 H2 H3 H4 HU HE. apply set_line_e in H1. unfold identifier_constant in H2.
  apply make_constant_e in H2 as (more & Hg & Hm & d & Hd & Hc). apply emit_op16_e in H3. apply emit_byte_e in H4.
  pose proof (emitted_trans _ _ _ _ _ H3 H4) as H34.
  assert (Hs : step0 st st' (([] ++ []) ++ [opb OpInvoke; N.modulo gi 256; N.div gi 256; 0]%N) (([] ++ more) ++ [])).
  { eapply step0_trans; [eapply step0_trans; [apply emitted_step; eassumption|apply grow_step; eassumption]|apply emitted_step; exact H34]. }
  apply (E_post_of_step0 _ _ _ _ _ _ _ Hs); auto.
  - rewrite app_nil_r. cbn [app]. destruct Hm as [->| ->]; repeat constructor.
  - intros KS FM He. cbn [app]. apply crel_one. rewrite (emitted_consts _ _ _ H34) in He.
    pose proof (ext_nth _ _ _ _ He (const_str_nth _ _ _ _ Hd Hc)) as Hn.
    split; [reflexivity|]. intros r. cbn [app]. unfold dec1, opb. cbn [N_of_opcode opcode_of_N].
    rewrite u16_split. unfold kstr. rewrite Hn. reflexivity.
Qed.

Lemma loop_ok i n b : L_goal b -> S_goal (SL.SLoop i n b).
Proof.
  intros HLb. unfold S_goal.
  intros infun top inloop Hsup Hf Hp L d U E fs pos lc code L' U' E' fs' st st' base pre Hn Hc Hpre.
  cbn [sup] in Hsup. cbn [ScopeDefs5.stmt7] in Hf. cbn [stmt_repr_ok] in Hp.
  apply andb_prop in Hp as [Hp Hpb0]. apply andb_prop in Hp as [Hp Hpn]. apply andb_prop in Hp as [_ Hp0].
  rewrite ScopeFacts5.nstmt_loop in Hn.
  destruct (SC.dup_in_scope L i (S d)); [discriminate|].
  destruct (Nat.eqb (length L) (SC.c_locals_max cf)); [discriminate|].
  destruct (Nat.eqb (S (length L)) (SC.c_locals_max cf)); [discriminate|].
  cbv zeta in Hn.
  set (lv := length L) in *.
  set (Lh := SC.mkLocal None (Some (S d)) false :: SC.mkLocal (Some i) (Some (S d)) false :: L) in *.
  set (start := pos + SC.code_size (SN.loop_pre n)) in *.
  set (posb := start + SC.code_size (SN.loop_head lv 0)) in *.
  destruct (ScopeDefs5.nblk cf b (S d) Lh U E fs posb (Some (SN.mkLctx start (S d) 0))) as [[[[[c0 La] Ua] Ea] fa]|] eqn:Eb0; [|discriminate].
  set (szb := SC.code_size c0) in *.
  set (lc' := SN.mkLctx start (S d) (posb + szb + 3 + 1)) in *.
  destruct (ScopeDefs5.nblk cf b (S d) Lh U E fs posb (Some lc')) as [[[[[cblock L1] U1] E1] fs1]|] eqn:Eb; [|discriminate].
  injection Hn; intros; subst code L' U' E' fs'. clear Hn.
  assert (Hszb : szb = SC.code_size cblock)
    by exact (szb_eq b _ _ _ _ Lh (S d) U E fs posb (SN.mkLctx start (S d) 0) lc' c0 La Ua Ea fa cblock L1 U1 E1 fs1 Hf eq_refl Eb0 Eb).
  set (ops := SC.scope_end_ops L1 d) in *.
  cbn [tr_stmt cstmt] in Hc. rewrite tr_list_eq in Hc.
  apply bind_inv in Hc as (u0 & s1 & Hbs & Hc). destruct u0.
  apply bind_inv in Hc as (u0 & s2 & Hdv & Hc). destruct u0.
  bcur Hc.
  apply bind_inv in Hc as (u0 & s3 & Hnil & Hc). destruct u0.
  apply bind_inv in Hc as (u0 & s6 & Hit & Hc). destruct u0.
  apply bind_inv in Hc as (u0 & s7 & Hms & Hc). destruct u0.
  apply bind_inv in Hc as (ok & s8 & Hal & Hc).
  apply bind_inv in Hc as (u0 & s8' & Hok & Hc). destruct u0.
  apply bind_inv in Hc as (u0 & s8a & Hsl & Hc). destruct u0.
  apply bind_inv in Hc as (gi & s8b & Hic & Hc).
  apply bind_inv in Hc as (u0 & s8c & Hinv & Hc). destruct u0.
  apply bind_inv in Hc as (u0 & s9 & Hb0 & Hc). destruct u0.
  apply bind_inv in Hc as (u0 & s10 & Hmi & Hc). destruct u0.
  apply bind_inv in Hc as (u0 & sp & Hpush & Hc). destruct u0.
  apply bind_inv in Hc as (ls & sp' & Hls & Hc). unfold code_len in Hls. inversion Hls; subst ls sp'. clear Hls.
  apply bind_inv in Hc as (u0 & sa & Hin & Hc). destruct u0.
  apply bind_inv in Hc as (u0 & sb & Hsl2 & Hc). destruct u0.
  apply bind_inv in Hc as (pj & sc & Hj & Hc).
  apply bind_inv in Hc as (u0 & sd & Hpop1 & Hc). destruct u0.
  apply bind_inv in Hc as (u0 & se1 & Hbs2 & Hc). destruct u0.
  apply bind_inv in Hc as (u0 & se2 & Hbb & Hc). destruct u0.
  apply bind_inv in Hc as (u0 & se & Hes1 & Hc). destruct u0.
  apply bind_inv in Hc as (u0 & sf & Hel & Hc). destruct u0.
  apply bind_inv in Hc as (u0 & sg & Hpj & Hc). destruct u0.
  apply bind_inv in Hc as (u0 & sq & Hpop2 & Hc). destruct u0.
  apply bind_inv in Hc as (u0 & sr & Hpl & Hes2). destruct u0.
  (* 1. begin_scope *)
  apply begin_scope_e in Hbs. rewrite (p_d _ _ _ _ _ _ _ _ _ _ _ _ Hpre) in Hbs.
  pose proof (step_piece [] [] _ _ _ _ _ _ _ _ _ _ _ _ _ _ _ _ Hbs (p_L _ _ _ _ _ _ _ _ _ _ _ _ Hpre) (p_len _ _ _ _ _ _ _ _ _ _ _ _ Hpre) ltac:(intros; constructor) Hpre) as P1.
  pose proof (S_pre_nextT _ _ _ _ _ _ _ _ _ _ _ _ _ _ _ _ _ _ _ _ _ _ Hpre P1) as Hp1.
  (* 2. the loop variable, declared but not yet initialised *)
  assert (Hdl : length (k_locals (s_cur s1)) < 256).
  { pose proof (declare_variable_len _ _ _ _ _ Hdv ltac:(rewrite (p_d _ _ _ _ _ _ _ _ _ _ _ _ Hp1); discriminate)). pose proof (p_len _ _ _ _ _ _ _ _ _ _ _ _ Hp1). lia. }
  apply declare_variable_e in Hdv as [[Hz _]|[Hz Hs2]]; [rewrite (p_d _ _ _ _ _ _ _ _ _ _ _ _ Hp1) in Hz; discriminate|].
  rewrite (p_d _ _ _ _ _ _ _ _ _ _ _ _ Hp1) in Hs2.
  assert (HLi : Lrel (SC.mkLocal (Some i) None false :: L) (mkKL (tr_name i) None false :: k_locals (s_cur s1))).
  { constructor; [repeat split|exact (p_L _ _ _ _ _ _ _ _ _ _ _ _ Hp1)]. }
  pose proof (step_piece [] [] _ _ _ _ _ _ _ _ _ _ _ _ _ _ _ _ Hs2 HLi ltac:(cbn [length]; lia) ltac:(intros; constructor) Hp1) as P2.
  pose proof (S_pre_nextT _ _ _ _ _ _ _ _ _ _ _ _ _ _ _ _ _ _ _ _ _ _ Hp1 P2) as Hp2.
  destruct (step_fields _ _ _ _ _ _ Hs2) as (_ & Hl2 & _).
  assert (Hlen1 : length (k_locals (s_cur s1)) = lv) by (unfold lv; symmetry; exact (F2_length _ _ _ (p_L _ _ _ _ _ _ _ _ _ _ _ _ Hp1))).
  assert (Hlv : length (k_locals (s_cur s2)) - 1 = lv) by (rewrite Hl2; cbn [length]; lia).
  rewrite Hlv in Hms, Hsl2.
  (* 3. Nil *)
  apply emit_op_e in Hnil.
  pose proof (bytes_piece [opb OpNil] [SC.INil] _ _ _ _ _ _ _ _ _ _ _ _ _ Hnil ltac:(intros; apply crel_one; one_simple) Hp2) as P3.
  pose proof (S_pre_nextT _ _ _ _ _ _ _ _ _ _ _ _ _ _ _ _ _ _ _ _ _ _ Hp2 P3) as Hp3.
  (* 4. the range 0..n *)
  change (cexpr (LRange (LNum 0 (tr_num 0)) (LNum 0 (tr_num (N.of_nat n))) 0))
    with (cexpr (tr_expr (SL.ELit 0));;; cexpr (tr_expr (SL.ELit (N.of_nat n)));;; emit_op OpBuildRange 0%N) in Hit.
  apply bind_inv in Hit as (u0 & s4 & Hr0 & Hit). destruct u0. apply bind_inv in Hit as (u0 & s5 & Hrn & Hbr). destruct u0.
  pose proof (E_allg (SL.ELit 0) eq_refl Hp0 _ U E _ _ _ _ _ eq_refl Hr0 (p_L _ _ _ _ _ _ _ _ _ _ _ _ Hp3) (p_U _ _ _ _ _ _ _ _ _ _ _ _ Hp3) (p_E _ _ _ _ _ _ _ _ _ _ _ _ Hp3)) as PA.
  destruct (E_post_rel _ _ _ _ _ PA) as (HUa & HEa).
  pose proof (p_L _ _ _ _ _ _ _ _ _ _ _ _ Hp3) as HL3. rewrite <- (E_post_locals _ _ _ _ _ PA) in HL3.
  pose proof (E_allg (SL.ELit (N.of_nat n)) eq_refl Hpn _ U E _ _ _ _ _ eq_refl Hrn HL3 HUa HEa) as PB.
  destruct (E_post_rel _ _ _ _ _ PB) as (HUb & HEb). apply emit_op_e in Hbr.
  assert (PC : E_post s5 s6 [SC.IBuildRange] U E).
  { apply (E_post_emit _ _ _ _ _ _ Hbr); auto. intros; apply crel_one; one_simple. }
  pose proof (E_post_seq _ _ _ _ _ _ _ _ _ PA (E_post_seq _ _ _ _ _ _ _ _ _ PB PC)) as PR.
  pose proof (S_post_E _ _ _ _ _ _ _ _ _ _ _ _ _ _ _ _ Hp3 PR) as P4. destruct P4 as (T4 & m4 & kl4 & N4 & P4).
  pose proof (S_pre_nextT _ _ _ _ _ _ _ _ _ _ _ _ _ _ _ _ _ _ _ _ _ _ Hp3 P4) as Hp6.
  (* 5. the loop variable becomes initialised *)
  assert (Hl6 : k_locals (s_cur s6) = mkKL (tr_name i) None false :: k_locals (s_cur s1)).
  { rewrite (E_post_locals _ _ _ _ _ PR). destruct Hnil as (_ & Hr & _). unfold rest in Hr. injection Hr; intros. congruence. }
  pose proof (mark_slot_head _ _ _ _ _ _ _ _ Hms Hl6 (eq_sym Hlen1)) as Hs7. rewrite (p_d _ _ _ _ _ _ _ _ _ _ _ _ Hp6) in Hs7.
  assert (HLi2 : Lrel (SC.mkLocal (Some i) (Some (S d)) false :: L) (mkKL (tr_name i) (Some (S d)) false :: k_locals (s_cur s1))).
  { constructor; [repeat split|exact (p_L _ _ _ _ _ _ _ _ _ _ _ _ Hp1)]. }
  pose proof (step_piece [] [] _ _ _ _ _ _ _ _ _ _ _ _ _ _ _ _ Hs7 HLi2 ltac:(cbn [length]; lia) ltac:(intros; constructor) Hp6) as P5.
  pose proof (S_pre_nextT _ _ _ _ _ _ _ _ _ _ _ _ _ _ _ _ _ _ _ _ _ _ Hp6 P5) as Hp7.
  (* 6. the hidden iterator local *)
  apply add_local_e in Hal as [(Hok1 & Hne & Hs8)|Hok1]; subst ok; [|cbn in Hok; discriminate].
  cbn in Hok. unfold cret in Hok. inversion Hok; subst s8'. clear Hok.
  destruct (step_fields _ _ _ _ _ _ Hs7) as (_ & Hl7 & _). rewrite Hl7, (p_d _ _ _ _ _ _ _ _ _ _ _ _ Hp7) in Hs8. rewrite Hl7 in Hne. cbn [length] in Hne.
  set (hid := bs "... temp-iter-var ...") in *.
  assert (HLh0 : Lrel (SC.mkLocal None None false :: SC.mkLocal (Some i) (Some (S d)) false :: L)
                      (mkKL hid None false :: mkKL (tr_name i) (Some (S d)) false :: k_locals (s_cur s1))).
  { constructor; [repeat split|exact HLi2]. }
  pose proof (step_piece [] [] _ _ _ _ _ _ _ _ _ _ _ _ _ _ _ _ Hs8 HLh0 ltac:(cbn [length]; lia) ltac:(intros; constructor) Hp7) as P6.
  pose proof (S_pre_nextT _ _ _ _ _ _ _ _ _ _ _ _ _ _ _ _ _ _ _ _ _ _ Hp7 P6) as Hp8.
  (* 7. Invoke iter *)
  pose proof (iter_ok _ _ _ _ _ _ _ _ _ Hsl Hic Hinv Hb0 (p_U _ _ _ _ _ _ _ _ _ _ _ _ Hp8) (p_E _ _ _ _ _ _ _ _ _ _ _ _ Hp8)) as PI.
  pose proof (S_post_E _ _ _ _ _ _ _ _ _ _ _ _ _ _ _ _ Hp8 PI) as P7. destruct P7 as (T7 & m7 & kl7 & N7 & P7).
  pose proof (S_pre_nextT _ _ _ _ _ _ _ _ _ _ _ _ _ _ _ _ _ _ _ _ _ _ Hp8 P7) as Hp9.
  (* 8. the iterator local becomes initialised *)
  destruct (step_fields _ _ _ _ _ _ Hs8) as (_ & Hl8 & _).
  assert (Hl9 : k_locals (s_cur s9) = mkKL hid None false :: mkKL (tr_name i) (Some (S d)) false :: k_locals (s_cur s1))
    by (rewrite (E_post_locals _ _ _ _ _ PI); exact Hl8).
  assert (Hz9 : k_scope (s_cur s9) <> 0) by (rewrite (p_d _ _ _ _ _ _ _ _ _ _ _ _ Hp9); discriminate).
  pose proof (mark_initialised_e _ _ _ _ _ _ _ Hmi Hl9 Hz9) as Hs10. rewrite (p_d _ _ _ _ _ _ _ _ _ _ _ _ Hp9) in Hs10.
  assert (HLh : Lrel Lh (mkKL hid (Some (S d)) false :: mkKL (tr_name i) (Some (S d)) false :: k_locals (s_cur s1))).
  { constructor; [repeat split|exact HLi2]. }
  pose proof (step_piece [] [] _ _ _ _ _ _ _ _ _ _ _ _ _ _ _ _ Hs10 HLh ltac:(cbn [length]; lia) ltac:(intros; constructor) Hp9) as P8.
  pose proof (S_pre_nextT _ _ _ _ _ _ _ _ _ _ _ _ _ _ _ _ _ _ _ _ _ _ Hp9 P8) as Hp10.
  pose proof (S_postT_seq' _ _ _ _ _ _ _ _ _ _ _ _ _ _ _ _ _ _ _ _ _ _ _ _ _ _ P1 P2 ltac:(possolve)) as Q2.
  pose proof (S_postT_seq' _ _ _ _ _ _ _ _ _ _ _ _ _ _ _ _ _ _ _ _ _ _ _ _ _ _ Q2 P3 ltac:(possolve)) as Q3.
  pose proof (S_postT_seq' _ _ _ _ _ _ _ _ _ _ _ _ _ _ _ _ _ _ _ _ _ _ _ _ _ _ Q3 P4 ltac:(possolve)) as Q4.
  pose proof (S_postT_seq' _ _ _ _ _ _ _ _ _ _ _ _ _ _ _ _ _ _ _ _ _ _ _ _ _ _ Q4 P5 ltac:(possolve)) as Q5.
  pose proof (S_postT_seq' _ _ _ _ _ _ _ _ _ _ _ _ _ _ _ _ _ _ _ _ _ _ _ _ _ _ Q5 P6 ltac:(possolve)) as Q6.
  pose proof (S_postT_seq' _ _ _ _ _ _ _ _ _ _ _ _ _ _ _ _ _ _ _ _ _ _ _ _ _ _ Q6 P7 ltac:(possolve)) as Q7.
  pose proof (S_postT_seq' _ _ _ _ _ _ _ _ _ _ _ _ _ _ _ _ _ _ _ _ _ _ _ _ _ _ Q7 P8 ltac:(possolve)) as Ppre.
  (* the position of the loop head *)
  match type of Hp10 with S_pre _ _ _ _ _ _ ?q _ _ _ _ _ => assert (Hq : q = start) by (unfold start, SN.loop_pre; possolve); rewrite Hq in Hp10 end.
  (* push_loop *)
  unfold push_loop, upd in Hpush. inversion Hpush; subst sp. clear Hpush.
  set (sp := mkS (with_loops (s_cur s10) ((length (k_code (s_cur s10)), k_scope (s_cur s10), k_try_depth (s_cur s10)) :: k_loops (s_cur s10))
                             ([] :: k_breaks (s_cur s10))) (s_outer s10) (s_classes s10) (s_line s10)) in *.
  assert (Hsim : sim_loop s10 sp) by (repeat split).
  assert (Hpsp : S_pre sp Lh (S d) U E fs start (Some lc') base pre infun true).
  { destruct Hp10. constructor; [exact p_L0|exact p_U0|exact p_E0|exact p_d0|exact p_pos0|exact p_num0|exact p_base0|exact p_fun0| |exact p_len0].
    unfold lcrel. exists (k_try_depth (s_cur s10)), (k_loops (s_cur s10)), [], (k_breaks (s_cur s10)).
    cbn [sp s_cur k_loops k_breaks k_try_depth k_code with_loops lc' SN.lc_start SN.lc_depth].
    rewrite <- p_pos0, p_d0. repeat split; auto. }
  (* IterNext; SetLocal loop_var; JumpIfStopIter; Pop *)
  apply emit_op_e in Hin.
  pose proof (bytes_piece [opb OpIterNext] [SC.IIterNext] _ _ _ _ _ _ _ _ _ _ _ _ _ Hin ltac:(intros; apply crel_one; one_simple) Hpsp) as Pa.
  pose proof (S_pre_nextT _ _ _ _ _ _ _ _ _ _ _ _ _ _ _ _ _ _ _ _ _ _ Hpsp Pa) as Hpa.
  apply emit_op8_e in Hsl2.
  assert (Hlv256 : (N.of_nat lv mod 256 = N.of_nat lv)%N) by (apply N.mod_small; lia).
  rewrite Hlv256 in Hsl2.
  pose proof (bytes_piece [opb OpSetLocal; N.of_nat lv] [SC.ISetLocal lv] _ _ _ _ _ _ _ _ _ _ _ _ _ Hsl2
                ltac:(intros; apply crel_one; split; [reflexivity|]; intros r0; cbn; rewrite Nat2N.id; reflexivity) Hpa) as Pb.
  pose proof (S_pre_nextT _ _ _ _ _ _ _ _ _ _ _ _ _ _ _ _ _ _ _ _ _ _ Hpa Pb) as Hpb.
  set (vj := 1 + szb + 3).
  destruct (jump_piece OpJumpIfStopIter SC.IJumpIfStopIter _ _ _ _ _ _ _ _ _ _ _ _ _ _ _ vj
              (fun KS FM => proj1 (proj2 (proj2 (one_jumps KS FM vj)))) Hj Hpb) as (Hpj1 & Pc).
  pose proof (S_pre_nextT _ _ _ _ _ _ _ _ _ _ _ _ _ _ _ _ _ _ _ _ _ _ Hpb Pc) as Hpc.
  apply emit_op_e in Hpop1.
  pose proof (bytes_piece [opb OpPop] [SC.IPop] _ _ _ _ _ _ _ _ _ _ _ _ _ Hpop1 ltac:(intros; apply crel_one; one_simple) Hpc) as Pd.
  pose proof (S_pre_nextT _ _ _ _ _ _ _ _ _ _ _ _ _ _ _ _ _ _ _ _ _ _ Hpc Pd) as Hpd.
  (* the body *)
  match type of Hpd with S_pre _ _ _ _ _ _ ?q _ _ _ _ _ => assert (Hq2 : q = posb) by (unfold posb, SN.loop_head; possolve); rewrite Hq2 in Hpd end.
  pose proof (blk_ok b _ _ _ _ _ _ _ _ _ _ _ _ _ _ _ _ _ _ _ _ _ _ HLb Hsup Hf Hpb0 Eb Hbs2 Hbb Hes1 Hpd) as Pe.
  destruct Pe as (Tb & mb & klb & Nb & Pe).
  pose proof (S_pre_nextT _ _ _ _ _ _ _ _ _ _ _ _ _ _ _ _ _ _ _ _ _ _ Hpd Pe) as Hpe.
  destruct (S_postT_len _ _ _ _ _ _ _ _ _ _ _ _ _ _ _ Pe) as (Hlb & _).
  (* Loop *)
  apply emit_loop_e in Hel. rewrite <- (p_pos _ _ _ _ _ _ _ _ _ _ _ _ Hpe) in Hel.
  cbn [sp s_cur k_code with_loops] in Hel. rewrite <- (p_pos _ _ _ _ _ _ _ _ _ _ _ _ Hp10) in Hel.
  replace (posb + SC.code_size cblock + 1 - start + 2) with (SC.code_size (SN.loop_head lv 0) + szb + 3) in Hel
    by (unfold posb; rewrite Hszb; lia).
  pose proof (bytes_piece _ [SC.ILoop (SC.code_size (SN.loop_head lv 0) + szb + 3)] _ _ _ _ _ _ _ _ _ _ _ _ _ Hel
                ltac:(intros; apply crel_one; apply one_jumps) Hpe) as Pf.
  rewrite <- Hq2 in Pe.
  pose proof (S_postT_seq' _ _ _ _ _ _ _ _ _ _ _ _ _ _ _ _ _ _ _ _ _ _ _ _ _ _ Pa Pb ltac:(possolve)) as R2.
  pose proof (S_postT_seq' _ _ _ _ _ _ _ _ _ _ _ _ _ _ _ _ _ _ _ _ _ _ _ _ _ _ R2 Pc ltac:(possolve)) as R3.
  pose proof (S_postT_seq' _ _ _ _ _ _ _ _ _ _ _ _ _ _ _ _ _ _ _ _ _ _ _ _ _ _ R3 Pd ltac:(possolve)) as R4.
  pose proof (S_postT_seq' _ _ _ _ _ _ _ _ _ _ _ _ _ _ _ _ _ _ _ _ _ _ _ _ _ _ R4 Pe ltac:(possolve)) as R5.
  pose proof (S_postT_seq' _ _ _ _ _ _ _ _ _ _ _ _ _ _ _ _ _ _ _ _ _ _ _ _ _ _ R5 Pf ltac:(rewrite <- Hq2; possolve)) as R6.
  (* patch the JumpIfStopIter *)
  set (Bl := opb OpLoop :: u16le (SC.code_size (SN.loop_head lv 0) + szb + 3)) in *.
  eapply (S_postT_eq _ ((map IB [opb OpIterNext] ++ map IB [opb OpSetLocal; N.of_nat lv] ++ [IB (opb OpJumpIfStopIter)])
                         ++ IJ pj vj :: (map IB [opb OpPop] ++ Tb ++ map IB Bl))) in R6;
    [|repeat rewrite <- app_assoc; reflexivity|reflexivity].
  pose proof (resolve_piece _ _ _ _ _ _ _ _ _ _ _ _ _ _ _ _ _ _ _ _ R6 (p_pos _ _ _ _ _ _ _ _ _ _ _ _ Hpsp) Hpj
                ltac:(rewrite !raw_app, !app_length, !raw_IB, Hlb; unfold vj, Bl, u16le; cbn [length]; rewrite Hszb; lia)) as R7.
  pose proof (S_pre_nextT _ _ _ _ _ _ _ _ _ _ _ _ _ _ _ _ _ _ _ _ _ _ Hpsp R7) as Hpg.
  apply emit_op_e in Hpop2.
  pose proof (bytes_piece [opb OpPop] [SC.IPop] _ _ _ _ _ _ _ _ _ _ _ _ _ Hpop2 ltac:(intros; apply crel_one; one_simple) Hpg) as Ph.
  pose proof (S_postT_seq' _ _ _ _ _ _ _ _ _ _ _ _ _ _ _ _ _ _ _ _ _ _ _ _ _ _ R7 Ph ltac:(possolve)) as R8.
  destruct (S_postT_len _ _ _ _ _ _ _ _ _ _ _ _ _ _ _ R8) as (_ & Hlen8).
  (* pop_loop: the pending breaks of the body get the distance to here *)
  assert (Hex : SN.lc_exit lc' = length (k_code (s_cur sq))).
  { rewrite Hlen8, <- (p_pos _ _ _ _ _ _ _ _ _ _ _ _ Hpsp). cbn [lc' SN.lc_exit]. unfold posb, SN.loop_head.
    repeat rewrite ScopeSim.code_size_app. cbn [SC.code_size SC.isize]. rewrite <- Hszb. lia. }
  assert (HnT8 : noIJ ((((map IB [opb OpIterNext] ++ map IB [opb OpSetLocal; N.of_nat lv] ++ [IB (opb OpJumpIfStopIter)]) ++
                          IB (N.modulo (N.of_nat vj) 256) :: IB (N.div (N.of_nat vj) 256) :: map IB [opb OpPop] ++ Tb ++ map IB Bl)) ++ map IB [opb OpPop])).
  { unfold noIJ in *.
    repeat (first [assumption | apply Forall_app; split | apply Forall_cons; [exact I|] | apply Forall_nil | apply noIJ_IB]). }
  pose proof (pop_loop_ok _ _ _ _ _ _ sr _ _ _ lc _ _ _ _ _ _ _ _ R8 HnT8 (p_pos _ _ _ _ _ _ _ _ _ _ _ _ Hpsp) Hsim eq_refl eq_refl Hpl Hex) as Pm.
  (* the scope of the loop ends *)
  pose proof (S_pre_nextT _ _ _ _ _ _ _ _ _ _ _ _ _ _ _ _ _ _ _ _ _ _ Hp10 Pm) as Hpr.
  pose proof (end_scope_e _ _ _ _ d Hes2 (p_d _ _ _ _ _ _ _ _ _ _ _ _ Hpr)) as Hs5.
  pose proof (p_L _ _ _ _ _ _ _ _ _ _ _ _ Hpr) as HLr.
  destruct (scope_end_agree [] [] d _ _ HLr) as (_ & Hlen).
  assert (HL5 : Lrel (skipn (length ops) L1) (skipn (length (scope_end_ops d (k_locals (s_cur sr)))) (k_locals (s_cur sr)))).
  { unfold ops. rewrite <- Hlen. now apply Lrel_skipn. }
  pose proof (step_piece _ ops _ _ _ _ _ _ _ _ _ _ _ _ _ _ _ _ Hs5 HL5 ltac:(rewrite skipn_length; pose proof (p_len _ _ _ _ _ _ _ _ _ _ _ _ Hpr); lia)
                ltac:(intros KS FM; now apply scope_end_agree) Hpr) as Pes.
  pose proof (S_postT_seq' _ _ _ _ _ _ _ _ _ _ _ _ _ _ _ _ _ _ _ _ _ _ _ _ _ _ Ppre Pm ltac:(unfold start, SN.loop_pre; possolve)) as F1.
  pose proof (S_postT_seq' _ _ _ _ _ _ _ _ _ _ _ _ _ _ _ _ _ _ _ _ _ _ _ _ _ _ F1 Pes ltac:(unfold start, SN.loop_pre; possolve)) as F2.
  eexists _, _, _. split; cycle 1.
  - eapply S_postT_eq; [reflexivity| |exact F2].
    unfold SN.loop_pre, SN.loop_head, vj. repeat rewrite app_nil_r. repeat rewrite <- app_assoc. cbn [app]. reflexivity.
  - unfold noIJ in *.
    repeat (first [assumption | apply Forall_app; split | apply Forall_cons; [exact I|] | apply Forall_nil | apply noIJ_IB]).
Qed.

Lemma S_all : forall s, S_goal s.
Proof.
  induction s using ScopeCompN.stmt_nind; unfold S_goal;
    intros infun top inloop Hsup Hf Hp L d U E fs pos lc code L' U' E' fs' st st' base pre Hn Hc Hpre;
    try discriminate Hsup.
  - (* SDecl *)
    cbn [ScopeDefs5.stmt7] in Hf. cbn [stmt_repr_ok] in Hp. apply andb_prop in Hp as [_ Hp].
    cbn [tr_stmt cstmt] in Hc. apply bind_inv in Hc as (g & s1 & Hpv & Hc).
    apply bind_inv in Hc as (u1 & s2 & Hce & Hc). destruct u1.
    unfold parse_variable in Hpv. apply bind_inv in Hpv as (u0 & s0 & Hdv & Hpv). destruct u0. bcur Hpv.
    cbn [ScopeDefs5.nstmt] in Hn. pose proof (p_d _ _ _ _ _ _ _ _ _ _ _ _ Hpre) as Hd.
    pose proof (declare_variable_len _ _ _ _ _ Hdv) as Hdl. rewrite Hd in Hdl.
    apply declare_variable_e in Hdv as [[Hz ->]|[Hz Hs0]].
    + rewrite Hd in Hz. subst d. cbn [Nat.eqb] in Hn.
      destruct (SN.nexpr cf L e U E) as [[[ce U1] E1]|] eqn:Ee; [|discriminate]. inversion Hn; subst. clear Hn.
      rewrite Hd in Hpv. cbn [Nat.ltb Nat.leb] in Hpv. unfold identifier_constant in Hpv.
      apply make_constant_e in Hpv as (more & Hg & Hm & c & Hnc & Hcq). apply grow_step in Hg.
      assert (P0 : E_post st s1 [] U E).
      { apply (E_post_of_step0 _ _ _ _ _ _ _ Hg); [destruct Hm as [->| ->]; repeat constructor|intros; constructor|apply Hpre|apply Hpre]. }
      destruct (E_post_rel _ _ _ _ _ P0) as (HU0 & HE0).
      pose proof (p_L _ _ _ _ _ _ _ _ _ _ _ _ Hpre) as HL. rewrite <- (E_post_locals _ _ _ _ _ P0) in HL.
      pose proof (E_allg e Hf Hp _ _ _ _ _ _ _ _ Ee Hce HL HU0 HE0) as P1.
      destruct (E_post_rel _ _ _ _ _ P1) as (HU1 & HE1).
      unfold define_variable in Hc. bcur Hc.
      assert (Hsc : k_scope (s_cur s2) = 0).
      { destruct P1 as (B1 & m1 & Hs1 & _). destruct (ustep_keep _ _ _ _ _ Hs1) as (_ & _ & _ & ->).
        destruct P0 as (B0 & m0 & Hs0' & _). destruct (ustep_keep _ _ _ _ _ Hs0') as (_ & _ & _ & ->). exact Hd. }
      rewrite Hsc in Hc. cbn [Nat.ltb Nat.leb] in Hc. apply emit_op16_e in Hc.
      eapply S_post_E; [exact Hpre|]. change (ce ++ [SC.IDefineGlobal x]) with ([] ++ ce ++ [SC.IDefineGlobal x]).
      eapply E_post_seq; [exact P0|]. eapply E_post_seq; [exact P1|].
      apply (E_post_emit _ _ _ _ _ _ Hc); auto.
      intros KS FM He. apply crel_one. rewrite (emitted_consts _ _ _ Hc) in He.
      pose proof (ext_trans _ _ _ (E_post_consts _ _ _ _ _ P1) He) as He1.
      pose proof (ext_nth _ _ _ _ He1 (const_str_nth _ _ _ _ Hnc Hcq)) as Hx.
      now destruct (one_global KS FM _ _ Hx) as (_ & _ & G3).
    + rewrite Hd in Hz. destruct (Nat.eqb_spec d 0) as [Hz'|_]; [contradiction|].
      destruct (SC.dup_in_scope L x d); [discriminate|].
      destruct (Nat.eqb (length L) (SC.c_locals_max cf)); [discriminate|].
      destruct (SN.nexpr cf (SC.mkLocal (Some x) None false :: L) e U E) as [[[ce U1] E1]|] eqn:Ee; [|discriminate].
      injection Hn; intros; subst code L' U' E' fs'. clear Hn.
      rewrite Hd in Hs0.
      assert (P0 : S_post st s0 d pos lc [] (SC.mkLocal (Some x) None false :: L) U E base pre fs).
      { eapply S_post_step; [exact Hpre|exact Hs0| | |intros; constructor]; [constructor; [repeat split|apply Hpre]|].
        cbn [length]. pose proof (p_len _ _ _ _ _ _ _ _ _ _ _ _ Hpre). lia. }
      pose proof (S_pre_next _ _ _ _ _ _ _ _ _ _ _ _ _ _ _ _ _ _ _ Hpre P0) as Hpre0.
      cbn [SC.code_size] in Hpre0. rewrite Nat.add_0_r in Hpre0.
      rewrite (p_d _ _ _ _ _ _ _ _ _ _ _ _ Hpre0) in Hpv.
      replace (Nat.ltb 0 d) with true in Hpv by (symmetry; apply Nat.ltb_lt; lia).
      inversion Hpv; subst g s1. clear Hpv.
      pose proof (E_allg e Hf Hp _ _ _ _ _ _ _ _ Ee Hce (p_L _ _ _ _ _ _ _ _ _ _ _ _ Hpre0)
                    (p_U _ _ _ _ _ _ _ _ _ _ _ _ Hpre0) (p_E _ _ _ _ _ _ _ _ _ _ _ _ Hpre0)) as PE.
      pose proof (S_post_E _ _ _ _ _ _ _ _ _ _ _ _ _ _ _ _ Hpre0 PE) as P1.
      pose proof (S_pre_next _ _ _ _ _ _ _ _ _ _ _ _ _ _ _ _ _ _ _ Hpre0 P1) as Hpre1.
      unfold define_variable in Hc. bcur Hc. rewrite (p_d _ _ _ _ _ _ _ _ _ _ _ _ Hpre1) in Hc.
      replace (Nat.ltb 0 d) with true in Hc by (symmetry; apply Nat.ltb_lt; lia).
      pose proof (p_L _ _ _ _ _ _ _ _ _ _ _ _ Hpre1) as HL1. inversion HL1 as [|l0 k0 Lr klr (Hkd & Hkc & Hkn) HLr Eq1 Eq2]. subst l0 Lr.
      assert (Hz2 : k_scope (s_cur s2) <> 0) by (rewrite (p_d _ _ _ _ _ _ _ _ _ _ _ _ Hpre1); exact Hz).
      destruct k0 as [nm0 dp0 cp0]. cbn in Hkd, Hkc, Hkn.
      pose proof (mark_initialised_e _ _ _ _ _ _ _ Hc (eq_sym Eq2) Hz2) as Hs3.
      rewrite (p_d _ _ _ _ _ _ _ _ _ _ _ _ Hpre1) in Hs3.
      assert (P2 : S_post s2 st' d (pos + SC.code_size ce) lc [] (SC.mkLocal (Some x) (Some d) false :: L) U1 E1 base pre fs).
      { eapply S_post_step; [exact Hpre1|exact Hs3| | |intros; constructor]; [constructor; [|exact HLr]; repeat split; cbn; auto|].
        pose proof (p_len _ _ _ _ _ _ _ _ _ _ _ _ Hpre1) as X. rewrite <- Eq2 in X. exact X. }
      rewrite <- (app_nil_r ce). change (ce ++ []) with ([] ++ ce ++ []).
      eapply S_post_seq; [exact P0|]. cbn [SC.code_size]. rewrite Nat.add_0_r.
      eapply S_post_seq; [exact P1|exact P2].
  - (* SAssign *)
    cbn [ScopeDefs5.stmt7] in Hf. cbn [stmt_repr_ok] in Hp. apply andb_prop in Hp as [_ Hp].
    cbn [ScopeDefs5.nstmt] in Hn.
    destruct (SN.rvn cf L U E x) as [[[r U0] E0]|] eqn:Er; [|discriminate].
    destruct (SN.nexpr cf L e U0 E0) as [[[ce U1] E1]|] eqn:Ee; [|discriminate]. inversion Hn; subst. clear Hn.
    cbn [tr_stmt cstmt cexpr] in Hc. apply bind_inv in Hc as (u0 & s3 & Hc & Hpop). destruct u0.
    apply bind_inv in Hc as ([[g so] arg] & s1 & Hrv & Hc). apply bind_inv in Hc as (u1 & s2 & Hce & Hset). destruct u1.
    destruct (rvg _ _ _ _ _ _ _ _ _ _ _ _ _ (p_L _ _ _ _ _ _ _ _ _ _ _ _ Hpre) (p_U _ _ _ _ _ _ _ _ _ _ _ _ Hpre)
                (p_E _ _ _ _ _ _ _ _ _ _ _ _ Hpre) Er Hrv) as (P0 & Hone).
    destruct (E_post_rel _ _ _ _ _ P0) as (HU0 & HE0).
    pose proof (p_L _ _ _ _ _ _ _ _ _ _ _ _ Hpre) as HL. rewrite <- (E_post_locals _ _ _ _ _ P0) in HL.
    pose proof (E_allg e Hf Hp _ _ _ _ _ _ _ _ Ee Hce HL HU0 HE0) as P1.
    destruct (E_post_rel _ _ _ _ _ P1) as (HU1 & HE1).
    apply emit_variable_op_e in Hset. apply emit_op_e in Hpop.
    assert (P2 : E_post s2 s3 [SC.set_op r x] U' E').
    { apply (E_post_emit _ _ _ _ _ _ Hset); auto. intros KS FM He. apply crel_one. apply Hone.
      rewrite (emitted_consts _ _ _ Hset) in He. exact (ext_trans _ _ _ (E_post_consts _ _ _ _ _ P1) He). }
    destruct (E_post_rel _ _ _ _ _ P2) as (HU2 & HE2).
    eapply S_post_E; [exact Hpre|]. change (ce ++ [SC.set_op r x; SC.IPop]) with ([] ++ ce ++ [SC.set_op r x] ++ [SC.IPop]).
    eapply E_post_seq; [exact P0|]. eapply E_post_seq; [exact P1|]. eapply E_post_seq; [exact P2|].
    apply (E_post_emit _ _ _ _ _ _ Hpop); auto. intros; apply crel_one; one_simple.
  - (* SPrint *)
    cbn [ScopeDefs5.stmt7] in Hf. cbn [stmt_repr_ok] in Hp. cbn [ScopeDefs5.nstmt] in Hn.
    destruct (SN.nexpr cf L e U E) as [[[ce U1] E1]|] eqn:Ee; [|discriminate]. inversion Hn; subst. clear Hn.
    cbn [tr_stmt cstmt cexpr FullCompile.cargs] in Hc. apply bind_inv in Hc as (u0 & s4 & Hc & Hpop). destruct u0.
    apply bind_inv in Hc as (u1 & s1 & Hgp & Hc). destruct u1.
    apply bind_inv in Hc as (n & s2 & Hca & Hc). apply bind_inv in Hc as (u2 & s3 & Hck & Hcall). destruct u2.
    apply bind_inv in Hca as (u3 & s5 & Hce & Hca). destruct u3.
    apply bind_inv in Hca as (n0 & s6 & Hnil & Hca). unfold cret in Hnil. inversion Hnil; subst n0 s6. clear Hnil.
    unfold cret in Hca. inversion Hca; subst n s5. clear Hca.
    unfold check_count in Hck. cbn in Hck. inversion Hck; subst s3. clear Hck.
    pose proof (get_print_g _ _ _ _ _ _ (p_L _ _ _ _ _ _ _ _ _ _ _ _ Hpre) (p_U _ _ _ _ _ _ _ _ _ _ _ _ Hpre)
                  (p_E _ _ _ _ _ _ _ _ _ _ _ _ Hpre) Hgp) as P0.
    destruct (E_post_rel _ _ _ _ _ P0) as (HU0 & HE0).
    pose proof (p_L _ _ _ _ _ _ _ _ _ _ _ _ Hpre) as HL. rewrite <- (E_post_locals _ _ _ _ _ P0) in HL.
    pose proof (E_allg e Hf Hp _ _ _ _ _ _ _ _ Ee Hce HL HU0 HE0) as P1.
    destruct (E_post_rel _ _ _ _ _ P1) as (HU1 & HE1).
    apply emit_op8_e in Hcall. apply emit_op_e in Hpop.
    assert (P2 : E_post s2 s4 [SC.ICall 1] U' E').
    { apply (E_post_emit _ _ _ _ _ _ Hcall); auto. intros. apply crel_one. split; [reflexivity|]. intros r0. reflexivity. }
    destruct (E_post_rel _ _ _ _ _ P2) as (HU2 & HE2).
    eapply S_post_E; [exact Hpre|].
    change (SC.IGetGlobal SC.GPrint :: ce ++ [SC.ICall 1; SC.IPop]) with ([SC.IGetGlobal SC.GPrint] ++ ce ++ [SC.ICall 1] ++ [SC.IPop]).
    eapply E_post_seq; [exact P0|]. eapply E_post_seq; [exact P1|]. eapply E_post_seq; [exact P2|].
    apply (E_post_emit _ _ _ _ _ _ Hpop); auto. intros; apply crel_one; one_simple.
  - (* SExpr *)
    cbn [ScopeDefs5.stmt7] in Hf. cbn [stmt_repr_ok] in Hp. cbn [ScopeDefs5.nstmt] in Hn.
    destruct (SN.nexpr cf L e U E) as [[[ce U1] E1]|] eqn:Ee; [|discriminate]. inversion Hn; subst. clear Hn.
    cbn [tr_stmt cstmt] in Hc. apply bind_inv in Hc as (u0 & s1 & Hce & Hop). destruct u0.
    eapply expr_op_g; try eassumption. intros; one_simple.
  - (* SBlock *)
    cbn [sup] in Hsup. cbn [ScopeDefs5.stmt7] in Hf. cbn [stmt_repr_ok] in Hp.
    rewrite ScopeFacts5.nstmt_block in Hn.
    cbn [tr_stmt cstmt] in Hc. rewrite tr_list_eq in Hc.
    apply bind_inv in Hc as (u0 & s1 & H1 & Hc). destruct u0. apply bind_inv in Hc as (u1 & s2 & H2 & H3). destruct u1.
    eapply blk_ok; try eassumption. now apply L_of_S.
  - (* SFun *)
    cbn [sup] in Hsup. cbn [ScopeDefs5.stmt7] in Hf. cbn [stmt_repr_ok] in Hp.
    apply andb_prop in Hp as [Hp Hpb]. apply andb_prop in Hp as [_ Hpp].
    rewrite ScopeFacts5.nstmt_fun in Hn.
    cbn [tr_stmt cstmt] in Hc. rewrite tr_list_eq in Hc.
    apply bind_inv in Hc as (g & s1 & Hpv & Hc). apply bind_inv in Hc as (u0 & s2 & Hmi & Hc). destruct u0.
    apply bind_inv in Hc as (u1 & s9 & Hwf & Hdef). destruct u1.
    unfold with_function in Hwf. cbn [fk_eqb] in Hwf.
    apply bind_inv in Hwf as (u2 & t1 & Hnc & Hwf). destruct u2. apply bind_inv in Hwf as (u3 & t2 & Hbs & Hwf). destruct u3.
    apply bind_inv in Hwf as (u4 & t3 & Hcp & Hwf). destruct u4. apply bind_inv in Hwf as (u5 & t3' & Hcr & Hwf). destruct u5.
    unfold cret in Hcr. inversion Hcr; subst t3'. clear Hcr.
    apply bind_inv in Hwf as (u6 & t4 & Hbody & Hwf). destruct u6. apply bind_inv in Hwf as (fu & t5 & Hfin & Hclo).
    unfold parse_variable in Hpv. apply bind_inv in Hpv as (u7 & s0 & Hdv & Hpv). destruct u7. bcur Hpv.
    pose proof (p_d _ _ _ _ _ _ _ _ _ _ _ _ Hpre) as Hd.
    pose proof (L_of_S b H) as HLg.
    pose proof (declare_variable_len _ _ _ _ _ Hdv) as Hdl. rewrite Hd in Hdl.
    apply declare_variable_e in Hdv as [[Hz ->]|[Hz Hs0]].
    + (* at script level: a global *)
      rewrite Hd in Hz. subst d. cbn [Nat.eqb] in Hn.
      destruct (ScopeDefs5.nfunc cf ps b L U E fs) as [[[[[ci L1] U1] E1] fs1]|] eqn:Ef; [|discriminate].
      inversion Hn; subst. clear Hn.
      rewrite Hd in Hpv. cbn [Nat.ltb Nat.leb] in Hpv. unfold identifier_constant in Hpv.
      apply make_constant_e in Hpv as (more & Hg & Hm & c & Hnc' & Hcq). apply grow_step in Hg.
      assert (P0 : E_post st s1 [] U E).
      { apply (E_post_of_step0 _ _ _ _ _ _ _ Hg); [destruct Hm as [->| ->]; repeat constructor|intros; constructor|apply Hpre|apply Hpre]. }
      pose proof (S_post_E _ _ _ _ _ _ _ _ _ _ _ _ _ _ _ _ Hpre P0) as Q0.
      pose proof (S_pre_next _ _ _ _ _ _ _ _ _ _ _ _ _ _ _ _ _ _ _ Hpre Q0) as Hpre1.
      cbn [SC.code_size] in Hpre1. rewrite Nat.add_0_r in Hpre1.
      unfold mark_initialised in Hmi. bcur Hmi. rewrite (p_d _ _ _ _ _ _ _ _ _ _ _ _ Hpre1) in Hmi. cbn [Nat.eqb] in Hmi.
      unfold cret in Hmi. inversion Hmi; subst s2. clear Hmi.
      edestruct func_ok as (Q1 & Hnd); [exact HLg|exact Hsup|exact Hf|exact Hpb|exact Ef|exact Hnc|exact Hbs|exact Hcp|exact Hbody|exact Hfin|exact Hclo|exact Hpre1|].
      pose proof (S_pre_next _ _ _ _ _ _ _ _ _ _ _ _ _ _ _ _ _ _ _ Hpre1 Q1) as Hpre2.
      unfold define_variable in Hdef. bcur Hdef. rewrite (p_d _ _ _ _ _ _ _ _ _ _ _ _ Hpre2) in Hdef. cbn [Nat.ltb Nat.leb] in Hdef.
      apply emit_op16_e in Hdef.
      assert (Q2 : S_post s9 st' 0 (pos + SC.code_size [ci]) lc [SC.IDefineGlobal f] L' U' E' base pre fs').
      { eapply S_post_E; [exact Hpre2|]. apply (E_post_emit _ _ _ _ _ _ Hdef); try apply Hpre2.
        intros KS FM He. apply crel_one. rewrite (emitted_consts _ _ _ Hdef) in He.
        assert (He1 : ext (k_consts (s_cur s1)) (k_consts (s_cur s9))).
        { destruct Q1 as (T & m1 & kl1 & _ & Hg1 & _). destruct (gstep_fields _ _ _ _ _ _ _ _ Hg1) as (-> & _). apply ext_app. }
        pose proof (ext_nth _ _ _ _ (ext_trans _ _ _ He1 He) (const_str_nth _ _ _ _ Hnc' Hcq)) as Hx.
        now destruct (one_global KS FM _ _ Hx) as (_ & _ & G3). }
      change [ci; SC.IDefineGlobal f] with ([] ++ [ci] ++ [SC.IDefineGlobal f]).
      eapply S_post_seq; [exact Q0|]. cbn [SC.code_size]. rewrite Nat.add_0_r.
      eapply S_post_seq; [exact Q1|exact Q2].
    + (* a local function: declared and marked initialised before its body is compiled *)
      rewrite Hd in Hz. destruct (Nat.eqb_spec d 0) as [Hz'|_]; [contradiction|].
      destruct (SC.dup_in_scope L f d); [discriminate|].
      destruct (Nat.eqb (length L) (SC.c_locals_max cf)); [discriminate|].
      destruct (ScopeDefs5.nfunc cf ps b (SC.mkLocal (Some f) (Some d) false :: L) U E fs) as [[[[[ci L1] U1] E1] fs1]|] eqn:Ef; [|discriminate].
      injection Hn; intros; subst code L' U' E' fs'. clear Hn.
      rewrite Hd in Hs0.
      assert (P0 : S_post st s0 d pos lc [] (SC.mkLocal (Some f) None false :: L) U E base pre fs).
      { eapply S_post_step; [exact Hpre|exact Hs0| | |intros; constructor]; [constructor; [repeat split|apply Hpre]|].
      cbn [length]. pose proof (p_len _ _ _ _ _ _ _ _ _ _ _ _ Hpre). lia. }
      pose proof (S_pre_next _ _ _ _ _ _ _ _ _ _ _ _ _ _ _ _ _ _ _ Hpre P0) as Hpre0.
      cbn [SC.code_size] in Hpre0. rewrite Nat.add_0_r in Hpre0.
      rewrite (p_d _ _ _ _ _ _ _ _ _ _ _ _ Hpre0) in Hpv.
      replace (Nat.ltb 0 d) with true in Hpv by (symmetry; apply Nat.ltb_lt; lia).
      inversion Hpv; subst g s1. clear Hpv.
      pose proof (p_L _ _ _ _ _ _ _ _ _ _ _ _ Hpre0) as HL0. inversion HL0 as [|l0 k0 Lr klr (Hkd & Hkc & Hkn) HLr Eq1 Eq2]. subst l0 Lr.
      assert (Hz0 : k_scope (s_cur s0) <> 0) by (rewrite (p_d _ _ _ _ _ _ _ _ _ _ _ _ Hpre0); exact Hz).
      destruct k0 as [nm0 dp0 cp0]. cbn in Hkd, Hkc, Hkn.
      pose proof (mark_initialised_e _ _ _ _ _ _ _ Hmi (eq_sym Eq2) Hz0) as Hs1.
      rewrite (p_d _ _ _ _ _ _ _ _ _ _ _ _ Hpre0) in Hs1.
      assert (P1 : S_post s0 s2 d pos lc [] (SC.mkLocal (Some f) (Some d) false :: L) U E base pre fs).
      { eapply S_post_step; [exact Hpre0|exact Hs1| | |intros; constructor]; [constructor; [|exact HLr]; repeat split; cbn; auto|].
        pose proof (p_len _ _ _ _ _ _ _ _ _ _ _ _ Hpre0) as X. rewrite <- Eq2 in X. exact X. }
      pose proof (S_pre_next _ _ _ _ _ _ _ _ _ _ _ _ _ _ _ _ _ _ _ Hpre0 P1) as Hpre1.
      cbn [SC.code_size] in Hpre1. rewrite Nat.add_0_r in Hpre1.
      edestruct func_ok as (Q1 & Hnd); [exact HLg|exact Hsup|exact Hf|exact Hpb|exact Ef|exact Hnc|exact Hbs|exact Hcp|exact Hbody|exact Hfin|exact Hclo|exact Hpre1|].
      pose proof (S_pre_next _ _ _ _ _ _ _ _ _ _ _ _ _ _ _ _ _ _ _ Hpre1 Q1) as Hpre2.
      unfold define_variable in Hdef. bcur Hdef. rewrite (p_d _ _ _ _ _ _ _ _ _ _ _ _ Hpre2) in Hdef.
      replace (Nat.ltb 0 d) with true in Hdef by (symmetry; apply Nat.ltb_lt; lia).
      destruct (step_fields _ _ _ _ _ _ Hs1) as (_ & Hl2' & _).
      (* define_variable marks the (already initialised) local again: no change *)
      pose proof (p_L _ _ _ _ _ _ _ _ _ _ _ _ Hpre2) as HL2.
      assert (Q2 : S_post s9 st' d (pos + SC.code_size [ci]) lc [] L1 U1 E1 base pre fs1).
      { unfold mark_initialised in Hdef. bcur Hdef. rewrite (p_d _ _ _ _ _ _ _ _ _ _ _ _ Hpre2) in Hdef.
        destruct (Nat.eqb_spec d 0) as [Hz'|_]; [contradiction|].
        unfold mark_last_initialised in Hdef.
        destruct (k_locals (s_cur s9)) as [|kk kr] eqn:Ekl.
        - eapply S_post_step; [exact Hpre2| |exact HL2|cbn; lia|intros; constructor].
          eapply upd_step; [exact Hdef| |]; cbv beta; rewrite Ekl; [reflexivity|]. unfold rest. cbn.
          rewrite Ekl, (p_d _ _ _ _ _ _ _ _ _ _ _ _ Hpre2). reflexivity.
        - eapply S_post_step; [exact Hpre2| | | |intros; constructor].
          + eapply upd_step; [exact Hdef| |]; cbv beta; rewrite Ekl; [reflexivity|]. unfold rest. cbn.
            rewrite (p_d _ _ _ _ _ _ _ _ _ _ _ _ Hpre2). reflexivity.
          + (* the head local is already initialised at depth d: marking it again changes nothing *)
            rewrite Hl2' in Hnd. inversion Hnd as [|a1 b1 a2 b2 [Hn1 Hn2] Hn3]. subst.
            destruct kk as [nk dk ck]. cbn in Hn1, Hn2. subst. cbn. exact HL2.
          + pose proof (p_len _ _ _ _ _ _ _ _ _ _ _ _ Hpre2) as X. rewrite Ekl in X. exact X. }
      change [ci] with ([] ++ [] ++ [ci] ++ []).
      eapply S_post_seq; [exact P0|]. cbn [SC.code_size]. rewrite Nat.add_0_r.
      eapply S_post_seq; [exact P1|]. cbn [SC.code_size]. rewrite Nat.add_0_r.
      eapply S_post_seq; [exact Q1|exact Q2].
  - (* SLam *)
    exact (lam_ok x ps b (L_of_S b H) infun top inloop Hsup Hf Hp L d U E fs pos lc code L' U' E' fs' st st' base pre Hn Hc Hpre).
  - (* SLoop *)
    exact (loop_ok i n b (L_of_S b H) infun top inloop Hsup Hf Hp L d U E fs pos lc code L' U' E' fs' st st' base pre Hn Hc Hpre).
  - (* SIf *)
    exact (if_ok a c t e (L_of_S t H) (L_of_S e H0) infun top inloop Hsup Hf Hp L d U E fs pos lc code L' U' E' fs' st st' base pre Hn Hc Hpre).
  - (* SBreak *)
    exact (break_ok infun top inloop Hsup Hf Hp L d U E fs pos lc code L' U' E' fs' st st' base pre Hn Hc Hpre).
  - (* SContinue *)
    exact (continue_ok infun top inloop Hsup Hf Hp L d U E fs pos lc code L' U' E' fs' st st' base pre Hn Hc Hpre).
  - (* SReturn *)
    cbn [ScopeDefs5.stmt7] in Hf. apply andb_prop in Hf as [Hin Hf]. subst infun.
    cbn [stmt_repr_ok] in Hp. cbn [ScopeDefs5.nstmt] in Hn.
    destruct (SN.nexpr cf L e U E) as [[[ce U1] E1]|] eqn:Ee; [|discriminate]. inversion Hn; subst. clear Hn.
    cbn [tr_stmt cstmt] in Hc. bcur Hc.
    destruct (p_fun _ _ _ _ _ _ _ _ _ _ _ _ Hpre eq_refl) as (Hit & Hkd).
    rewrite Hkd in Hc. cbn [fk_eqb] in Hc.
    apply bind_inv in Hc as (u0 & s0 & H0 & Hc). unfold cret in H0. inversion H0; subst u0 s0. clear H0.
    apply bind_inv in Hc as (u0 & s0 & H0 & Hc). unfold cret in H0. inversion H0; subst u0 s0. clear H0.
    apply bind_inv in Hc as (u1 & s1 & Hce & Hc). destruct u1. bcur Hc.
    pose proof (E_allg e Hf Hp _ _ _ _ _ _ _ _ Ee Hce (p_L _ _ _ _ _ _ _ _ _ _ _ _ Hpre) (p_U _ _ _ _ _ _ _ _ _ _ _ _ Hpre)
                  (p_E _ _ _ _ _ _ _ _ _ _ _ _ Hpre)) as P1.
    assert (Hit1 : k_in_try (s_cur s1) = false).
    { destruct P1 as (B1 & m1 & Hs1 & _). destruct (gstep_fields _ _ _ _ _ _ _ _ Hs1) as (_ & _ & _ & _ & _ & _ & -> & _). exact Hit. }
    rewrite Hit1 in Hc. cbn [cwhen] in Hc.
    apply bind_inv in Hc as (u2 & s2 & H0 & Hc). unfold cret in H0. inversion H0; subst u2 s2. clear H0.
    destruct (E_post_rel _ _ _ _ _ P1) as (HU1 & HE1). apply emit_op_e in Hc.
    eapply S_post_E; [exact Hpre|]. eapply E_post_seq; [exact P1|].
    apply (E_post_emit _ _ _ _ _ _ Hc); auto. intros; apply crel_one; one_simple.
  - (* SThrow *)
    cbn [ScopeDefs5.stmt7] in Hf. cbn [stmt_repr_ok] in Hp. rewrite ScopeFacts5.nstmt_throw in Hn.
    destruct (SN.nexpr cf L e U E) as [[[ce U1] E1]|] eqn:Ee; [|discriminate]. inversion Hn; subst. clear Hn.
    cbn [tr_stmt cstmt] in Hc. apply bind_inv in Hc as (u0 & s1 & Hce & Hop). destruct u0.
    eapply expr_op_g; try eassumption. intros; one_simple.
  - (* STry *)
    exact (try_ok b x h (L_of_S b H) (L_of_S h H0) infun top inloop Hsup Hf Hp L d U E fs pos lc code L' U' E' fs' st st' base pre Hn Hc Hpre).
Qed.

(* ------------------------------------------------------------------------------------------ *)
(* H. the script: the function TREE of compile_program decodes to the function table of compile_scope *)

(* PARTIAL (see notes/FullBridge-C06.md): the stage-5 fragment restricted by `sup`: var / assignment / print /
   expression statements / return / throw / nested blocks / `fn f(ps) { .. }` at any depth, nested to any depth, with
   capture of enclosing locals (directly and through enclosing functions: resolve_upvalue, add_upvalue de-duplication,
   is_captured flags, Closure descriptors), self reference, globals.  NOT covered: `var x = |ps| { .. }` (SLam),
   if / for / break / continue (back-patched jumps), try / catch.  Size side conditions = the hypothesis that
   FullCompile accepts the program. *)
Theorem bridge_C06_sup_partial : forall p funs f,
  SC.c_break_pops_first cf = true ->
  forallb sup p = true -> forallb (ScopeDefs5.stmt7 true false true false) p = true -> repr_ok p = true ->
  SC.compile_scope cf p = Some funs -> compile_program (tr_prog p) = COk f ->
  decode_tree f = Some funs.
Proof.
  intros p funs f Hcf Hsup H7 Hp Hcs Hcp.
  destruct (ScopeComp5.compile_scope_stage5_shape cf p funs Hcf H7 Hcs) as (code & L' & fs' & Hnl & Hfuns).
  unfold compile_program, tr_prog in Hcp. cbn [fst snd] in Hcp.
  destruct ((cstmts (tr_list p);;; finalise_compiler 0%N) init_state) as [[[f' u] sf]|] eqn:Hrun; [|discriminate].
  inversion Hcp; subst f'. clear Hcp. apply bind_inv in Hrun as (u0 & s & Hrun0 & Hrun). destruct u0.
  assert (Hpre : S_pre init_state [SC.mkLocal None (Some 0) false] 0 [] [] [] 0 None 0 [] false false).
  { constructor.
    - cbn. constructor; [|constructor]. repeat split.
    - reflexivity.
    - constructor.
    - reflexivity.
    - reflexivity.
    - exists [], []. split; reflexivity.
    - reflexivity.
    - discriminate.
    - exact I.
    - cbn. lia. }
  assert (HS : Forall S_goal p) by (apply Forall_forall; intros; apply S_all).
  pose proof (L_of_S p HS _ _ _ Hsup H7 Hp _ _ _ _ _ _ _ _ _ _ _ _ _ _ _ _ Hnl Hrun0 Hpre) as P.
  destruct P as (T & more & kl' & HnT & Hg & Hw & Hh & HL' & HU' & HE' & HO' & Hnl' & fs0' & fm' & Hd' & Hfs' & Hk).
  specialize (Hh eq_refl). cbn [app] in Hfs'. subst fs'.
  destruct (gstep_fields _ _ _ _ _ _ _ _ Hg) as (Hc1 & _ & _ & Hu1 & _ & Hk1 & Ht1 & _ & _ & Ha1).
  destruct Hg as (Hcode & _).
  cbn [init_state s_outer] in HO'. assert (Ho : s_outer s = []) by (destruct (s_outer s); [reflexivity|inversion HO']).
  unfold finalise_compiler in Hrun. apply bind_inv in Hrun as (u1 & sr & Hret & Hrun). unfold emit_return in Hret. bcur Hret.
  rewrite Hk1 in Hret. cbn [init_state s_cur new_comp k_kind fk_eqb] in Hret.
  apply bind_inv in Hret as (u2 & sa & Hnil & Hret). apply emit_op_e in Hnil.
  apply bind_inv in Hret as (u3 & sb & Hcw & Hret).
  rewrite Ht1 in Hcw. cbn [init_state s_cur new_comp k_in_try cwhen] in Hcw. unfold cret in Hcw. inversion Hcw; subst u3 sb. clear Hcw.
  apply emit_op_e in Hret. pose proof (emitted_trans _ _ _ _ _ Hnil Hret) as (F1 & F2 & F3).
  rewrite F3, Ho in Hrun. inversion Hrun; subst f u sf. clear Hrun.
  unfold rest in F2. injection F2; intros.
  unfold decode_tree, func_of_comp. rewrite dec_func_unfold.
  replace (k_consts (s_cur sr)) with (k_consts (s_cur s)) by congruence. rewrite Hd'.
  assert (Hcr : crel (k_consts (s_cur s)) fm' (k_code (s_cur sr)) (code ++ [SC.INil; SC.IReturn])).
  { rewrite F1, Hcode. cbn [init_state s_cur new_comp k_code app].
    apply crel_app; [rewrite <- (holes_nil_filled 0 T HnT Hh); apply (Hk _ _ (ext_refl _) (ext_refl _))|].
    change [SC.INil; SC.IReturn] with ([SC.INil] ++ [SC.IReturn]).
    match goal with |- crel _ _ ?B _ => change B with ([opb OpNil] ++ [opb OpReturn]) end.
    apply crel_app; apply crel_one; one_simple. }
  rewrite (crel_dec _ _ _ _ Hcr) by (pose proof (crel_dec_len _ _ _ _ Hcr); lia).
  replace (k_arity (s_cur sr)) with 1%N by (cbn in Ha1; congruence).
  replace (k_upvalues (s_cur sr)) with (@nil (N * bool)) by (unfold urel in HU'; cbn in HU'; congruence).
  rewrite Hfuns. reflexivity.
Qed.

End Bridge.

Print Assumptions bridge_C06_sup_partial.

Theorem C06_full_compile_scope_correct_stage5_sup_partial : forall p funs f fuel st en c,
  forallb sup p = true -> forallb (ScopeDefs5.stmt7 true false true false) p = true -> repr_ok p = true ->
  SC.compile_scope ScopeRun.the_cfg p = Some funs -> compile_program (tr_prog p) = COk f ->
  SL.exec_list fuel p [] true SL.s_empty = (st, en, c) -> (c = SL.CNorm \/ exists v, c = SL.CThrow v) ->
  exists funs', decode_tree f = Some funs' /\
    exists n, forall k, SC.Gen.run_funs SC.bk_m ScopeRun.the_cfg (n + k) funs' = SL.eval_cells_fuel fuel p.
Proof.
  intros p funs f fuel st en c Hs H7 Hp Hcs Hcp He Hc.
  exists funs. split; [exact (bridge_C06_sup_partial ScopeRun.the_cfg eq_refl p funs f eq_refl Hs H7 Hp Hcs Hcp)|].
  exact (ScopeStage5.compile_scope_correct_stage5 ScopeRun.the_cfg p funs fuel st en c eq_refl eq_refl eq_refl H7 Hcs He Hc).
Qed.

Print Assumptions C06_full_compile_scope_correct_stage5_sup_partial.

(* every statement of the stage-5 fragment is covered by the induction *)
Lemma stmt7_sup : forall s j i t l, ScopeDefs5.stmt7 j i t l s = true -> sup s = true.
Proof.
  assert (G : forall b, Forall (fun s => forall j i t l, ScopeDefs5.stmt7 j i t l s = true -> sup s = true) b ->
              forall j i t l, forallb (ScopeDefs5.stmt7 j i t l) b = true -> forallb sup b = true).
  { induction 1 as [|a r Ha Hr IH]; intros j i t l Hf; [reflexivity|]. cbn [forallb] in *. apply andb_prop in Hf as [H1 H2].
    rewrite (Ha _ _ _ _ H1), (IH _ _ _ _ H2). reflexivity. }
  induction s using ScopeCompN.stmt_nind; intros j0 i0 t0 l0 Hs; cbn [ScopeDefs5.stmt7 sup] in *; try reflexivity; try discriminate.
  - exact (G _ H _ _ _ _ Hs).
  - exact (G _ H _ _ _ _ Hs).
  - apply andb_prop in Hs as [Hs _]. exact (G _ H _ _ _ _ Hs).
  - exact (G _ H _ _ _ _ Hs).
  - apply andb_prop in Hs as [Hs He]. apply andb_prop in Hs as [_ Ht]. rewrite (G _ H _ _ _ _ Ht), (G _ H0 _ _ _ _ He). reflexivity.
  - apply andb_prop in Hs as [Hb Hh]. rewrite (G _ H _ _ _ _ Hb), (G _ H0 _ _ _ _ Hh). reflexivity.
Qed.

(* THE BRIDGE, the whole stage-5 fragment: whenever compile_scope accepts a program of the fragment and the full compiler
   model accepts its translation (it rejects only when one of its size limits is exceeded: > 65536 constants, jumps
   > 65535 bytes, > 255 arguments / parameters - limits compile_scope does not have), FullCompile's function TREE decodes,
   function by function in finalise order, to exactly compile_scope's function table. *)
Theorem bridge_C06_stage5 : forall cf p funs f,
  SC.c_catch_pops cf = false -> SC.c_break_pops_first cf = true ->
  forallb (ScopeDefs5.stmt7 true false true false) p = true -> repr_ok p = true ->
  SC.compile_scope cf p = Some funs -> compile_program (tr_prog p) = COk f ->
  decode_tree f = Some funs.
Proof.
  intros cf p funs f Hcp Hbp H7 Hr Hcs Hc. apply (bridge_C06_sup_partial cf Hcp p funs f Hbp); auto.
  clear -H7. induction p as [|a r IH]; [reflexivity|]. cbn [forallb] in *. apply andb_prop in H7 as [H1 H2].
  rewrite (stmt7_sup _ _ _ _ _ H1), (IH H2). reflexivity.
Qed.

Print Assumptions bridge_C06_stage5.

(* the stage-5 correctness theorem as a statement about the decoded output of the FULL compiler model *)
Theorem C06_full_compile_scope_correct_stage5 : forall p funs f fuel st en c,
  forallb (ScopeDefs5.stmt7 true false true false) p = true -> repr_ok p = true ->
  SC.compile_scope ScopeRun.the_cfg p = Some funs -> compile_program (tr_prog p) = COk f ->
  SL.exec_list fuel p [] true SL.s_empty = (st, en, c) -> (c = SL.CNorm \/ exists v, c = SL.CThrow v) ->
  exists funs', decode_tree f = Some funs' /\
    exists n, forall k, SC.Gen.run_funs SC.bk_m ScopeRun.the_cfg (n + k) funs' = SL.eval_cells_fuel fuel p.
Proof.
  intros p funs f fuel st en c H7 Hp Hcs Hcp He Hc.
  exists funs. split; [exact (bridge_C06_stage5 ScopeRun.the_cfg p funs f eq_refl eq_refl H7 Hp Hcs Hcp)|].
  exact (ScopeStage5.compile_scope_correct_stage5 ScopeRun.the_cfg p funs fuel st en c eq_refl eq_refl eq_refl H7 Hcs He Hc).
Qed.

Print Assumptions C06_full_compile_scope_correct_stage5.

(* the example of FullBridgeC06.v (closure over a try-block local, `for` with continue and a break that pops a local, try / catch)
   and ScopeStage5.stage5_example (7 functions) through the theorem *)
Example bridge_stage5_examples :
  (exists funs f, SC.compile_scope ScopeRun.the_cfg ScopeStage5.stage5_example = Some funs /\
                  compile_program (tr_prog ScopeStage5.stage5_example) = COk f /\ decode_tree f = Some funs /\ length funs = 7).
Proof.
  destruct (SC.compile_scope ScopeRun.the_cfg ScopeStage5.stage5_example) as [funs|] eqn:Es; [|vm_compute in Es; discriminate].
  destruct (compile_program (tr_prog ScopeStage5.stage5_example)) as [f|l m] eqn:Ef; [|vm_compute in Ef; discriminate].
  exists funs, f. split; [reflexivity|]. split; [reflexivity|]. split.
  - exact (bridge_C06_stage5 ScopeRun.the_cfg ScopeStage5.stage5_example funs f eq_refl eq_refl eq_refl ltac:(vm_compute; reflexivity) Es Ef).
  - vm_compute in Es. inversion Es; subst funs. reflexivity.
Qed.

(* the hypotheses are satisfiable: three function levels, a body local captured by an inner function, a variable of
   the outermost function captured through the middle one, a self-recursive local fn, blocks, return, throw *)
Definition sup_example : SL.prog :=
  [ SL.SDecl 9 (SL.ELit 0);
    SL.SFun 1 [2] [ SL.SDecl 3 (SL.EAdd (SL.EVar 2) (SL.ELit 10));
                    SL.SFun 4 [5] [ SL.SFun 6 [] [SL.SAssign 3 (SL.EAdd (SL.EVar 3) (SL.EVar 5)); SL.SReturn (SL.EAdd (SL.EVar 3) (SL.EVar 2))];
                                    SL.SAssign 9 (SL.EVar 6); SL.SReturn (SL.ECall 6 []) ];
                    SL.SBlock [ SL.SDecl 7 (SL.ELit 1); SL.SFun 8 [] [SL.SReturn (SL.EVar 7)]; SL.SPrint (SL.ECall 8 []) ];
                    SL.SReturn (SL.ECall 4 [SL.ELit 100]) ];
    SL.SPrint (SL.ECall 1 [SL.ELit 1]); SL.SPrint (SL.ECall 9 []);
    SL.SBlock [ SL.SFun 20 [21] [SL.SReturn (SL.ECall 20 [SL.EVar 21])]; SL.SDecl 22 (SL.ELit 2) ];
    SL.SThrow (SL.ELit 7) ].

Example sup_example_ok :
  forallb sup sup_example = true /\ forallb (ScopeDefs5.stmt7 true false true false) sup_example = true /\ repr_ok sup_example = true /\
  (exists funs f, SC.compile_scope ScopeRun.the_cfg sup_example = Some funs /\ map SC.f_nups funs = [3; 2; 1; 0; 1; 0] /\
                  compile_program (tr_prog sup_example) = COk f /\ decode_tree f = Some funs) /\
  SL.eval_cells sup_example = "1|112|212#err"%string.
Proof.
  split; [reflexivity|]. split; [reflexivity|]. split; [vm_compute; reflexivity|]. split; [|vm_compute; reflexivity].
  destruct (SC.compile_scope ScopeRun.the_cfg sup_example) as [funs|] eqn:Es; [|vm_compute in Es; discriminate].
  destruct (compile_program (tr_prog sup_example)) as [f|l m] eqn:Ef; [|vm_compute in Ef; discriminate].
  exists funs, f. split; [reflexivity|]. split; [vm_compute in Es; inversion Es; subst funs; reflexivity|]. split; [reflexivity|].
  exact (bridge_C06_sup_partial ScopeRun.the_cfg eq_refl sup_example funs f eq_refl eq_refl eq_refl ltac:(vm_compute; reflexivity) Es Ef).
Qed.
