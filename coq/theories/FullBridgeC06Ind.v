(* FullCompile-Bridge, item 3 (C06), PART 2: the induction over the syntax (FullCompile.cexpr / cstmt on tr_* against
   the pure compiler nexpr / nstmt of ScopeDefsN.v / ScopeDefs5.v).  See the head of each section and
   notes/FullBridge-C06.md for what is covered and the exact gap. *)
From Coq Require Import Strings.Byte Strings.String Strings.Ascii.
From Coq Require Import List NArith ZArith Bool Arith Lia.
From Coq Require Import Floats.SpecFloat.
From YV Require Import Show Utf8 Num Ast Bytecode ParseLoc FullCompile FullBridgeC06Defs FullBridgeC06Names.
From YV Require Upvalues Cells ScopeLang ScopeComp ScopeSim ScopeDefs2 ScopeDefsN ScopeFactsN ScopeCompN ScopeDefs5 ScopeComp5 ScopeRun ScopeStage5.
Import ListNotations.
Local Open Scope nat_scope.
Local Open Scope list_scope.
Local Open Scope comp_scope.

(* ------------------------------------------------------------------------------------------ *)
(* A. the monad: inversion of successful runs *)

Lemma bind_inv {A B} (m : C A) (k : A -> C B) s r :
  cbind m k s = COk r -> exists a s1, m s = COk (a, s1) /\ k a s1 = COk r.
Proof. unfold cbind. destruct (m s) as [[a s1]|]; [eauto|discriminate]. Qed.

Ltac binv H :=
  let a := fresh "a" in let s1 := fresh "s" in let H1 := fresh H in
  apply bind_inv in H as (a & s1 & H1 & H).

(* everything of a compiler but its code, line table, name and lambda counter *)
Definition rest (c : comp) :=
  (k_kind c, k_arity c, k_consts c, k_locals c, k_upvalues c, k_scope c, k_in_try c, k_try_depth c, k_loops c, k_breaks c).

(* s' = s with the bytes B appended to the current function's code (and lines / current line changed) *)
Definition emitted (s s' : cstate) (B : list N) : Prop :=
  k_code (s_cur s') = k_code (s_cur s) ++ B /\ rest (s_cur s') = rest (s_cur s) /\ s_outer s' = s_outer s.

Lemma emitted_refl s : emitted s s [].
Proof. unfold emitted. now rewrite app_nil_r. Qed.

Lemma emitted_trans s s1 s2 B1 B2 : emitted s s1 B1 -> emitted s1 s2 B2 -> emitted s s2 (B1 ++ B2).
Proof.
  intros (H1 & H2 & H3) (G1 & G2 & G3). repeat split.
  - now rewrite G1, H1, app_assoc.
  - now rewrite G2.
  - now rewrite G3.
Qed.

Lemma emit_byte_e b l s u s' : emit_byte b l s = COk (u, s') -> emitted s s' [b].
Proof. unfold emit_byte, upd, set_line, cbind. intros H. inversion H; subst. repeat split. Qed.

Lemma emit_op_e o l s u s' : emit_op o l s = COk (u, s') -> emitted s s' [opb o].
Proof. apply emit_byte_e. Qed.

Lemma emit_op8_e o n l s u s' : emit_op8 o n l s = COk (u, s') -> emitted s s' [opb o; n].
Proof.
  unfold emit_op8. intros H. binv H. destruct a. apply emit_op_e in H0. apply emit_byte_e in H.
  exact (emitted_trans _ _ _ _ _ H0 H).
Qed.

Lemma emit_u16_e n l s u s' : emit_u16 n l s = COk (u, s') -> emitted s s' [N.modulo n 256; N.div n 256]%N.
Proof.
  unfold emit_u16. intros H. binv H. destruct a. apply emit_byte_e in H0. apply emit_byte_e in H.
  exact (emitted_trans _ _ _ _ _ H0 H).
Qed.

Lemma emit_op16_e o n l s u s' : emit_op16 o n l s = COk (u, s') ->
  emitted s s' [opb o; N.modulo n 256; N.div n 256]%N.
Proof.
  unfold emit_op16. intros H. binv H. destruct a. apply emit_op_e in H0. apply emit_u16_e in H.
  exact (emitted_trans _ _ _ _ _ H0 H).
Qed.

Lemma emit_ops_e ops l : forall s u s', emit_ops ops l s = COk (u, s') -> emitted s s' (map opb ops).
Proof.
  induction ops as [|o r IH]; intros s u s' H; cbn [emit_ops] in H.
  - inversion H; subst. apply emitted_refl.
  - binv H. destruct a. apply emit_op_e in H0. apply IH in H.
    exact (emitted_trans _ _ _ _ _ H0 H).
Qed.

Lemma set_line_e l s u s' : set_line l s = COk (u, s') -> emitted s s' [].
Proof. unfold set_line. intros H. inversion H; subst. unfold emitted. cbn. now rewrite app_nil_r. Qed.

(* ------------------------------------------------------------------------------------------ *)
(* B. constants *)

Lemma bytes_eqb_true a : forall b, bytes_eqb a b = true -> a = b.
Proof.
  induction a as [|x a IH]; intros [|y b] H; cbn in H; try discriminate; [reflexivity|].
  apply andb_prop in H as [H1 H2]. apply Byte.byte_dec_bl in H1. subst. f_equal. now apply IH.
Qed.

Lemma bytes_eqb_rfl a : bytes_eqb a a = true.
Proof. induction a as [|x a IH]; cbn; [reflexivity|]. rewrite IH, andb_true_r. now apply Byte.byte_dec_lb. Qed.

Lemma feqb_un_num x y : feqb x y = true -> un_num x = un_num y.
Proof.
  unfold feqb, SFeqb.
  destruct x as [sx|sx| |sx mx ex], y as [sy|sy| |sy my ey]; cbn; intros H;
    repeat match goal with b : bool |- _ => destruct b end; cbn in H; try discriminate H; try reflexivity.
  destruct (Z.compare ex ey) eqn:Ec; try discriminate H. apply Z.compare_eq in Ec. subst ey.
  destruct (Pos.compare_cont Eq mx my) eqn:Em; try discriminate H.
  apply Pos.compare_eq in Em. subst my. reflexivity.
Qed.

Definition ext {A} (a b : list A) : Prop := exists m, b = a ++ m.
Lemma ext_refl {A} (a : list A) : ext a a.
Proof. exists []. now rewrite app_nil_r. Qed.
Lemma ext_trans {A} (a b c : list A) : ext a b -> ext b c -> ext a c.
Proof. intros [m ->] [n ->]. exists (m ++ n). now rewrite app_assoc. Qed.
Lemma ext_app {A} (a m : list A) : ext a (a ++ m).
Proof. now exists m. Qed.
Lemma ext_nth {A} (a b : list A) i x : ext a b -> nth_error a i = Some x -> nth_error b i = Some x.
Proof.
  intros [m ->] H. rewrite nth_error_app1; [exact H|]. apply nth_error_Some. congruence.
Qed.

(* what make_constant does: the table grows by at most the constant, the index names a constant equal to it *)
Lemma const_index_nth tbl c : forall i, const_index tbl c = Some i ->
  exists d, nth_error tbl i = Some d /\ const_eqb d c = true.
Proof.
  induction tbl as [|d r IH]; intros i H; cbn in H; [discriminate|].
  destruct (const_eqb d c) eqn:Ed.
  - inversion H; subst. exists d. auto.
  - destruct (const_index r c) as [k|]; [|discriminate]. inversion H; subst. cbn. now apply IH.
Qed.

Lemma const_index_none_nth tbl c : const_index tbl c = None -> const_index (tbl ++ [c]) c = None \/ True.
Proof. auto. Qed.

Definition consts_grow (s s' : cstate) (more : list const) : Prop :=
  k_code (s_cur s') = k_code (s_cur s) /\ s_outer s' = s_outer s /\
  k_consts (s_cur s') = k_consts (s_cur s) ++ more /\
  rest (s_cur s') = rest (with_consts (s_cur s) (k_consts (s_cur s) ++ more)).

Lemma make_constant_e c s i s' : make_constant c s = COk (i, s') ->
  exists more, consts_grow s s' more /\ (more = [] \/ more = [c]) /\
    (exists d, nth_error (k_consts (s_cur s')) (N.to_nat i) = Some d /\ (const_eqb d c = true \/ d = c)).
Proof.
  unfold make_constant. intros H. binv H. unfold cur in H0. inversion H0; subst a s0. clear H0.
  destruct (const_index (k_consts (s_cur s)) c) as [k|] eqn:Ei.
  - destruct (N.ltb 65535 (N.of_nat k)); [discriminate|]. inversion H; subst.
    exists []. split; [|split; [now left|]].
    + unfold consts_grow. rewrite app_nil_r. repeat split.
    + rewrite Nat2N.id. destruct (const_index_nth _ _ _ Ei) as (d & Hd & He). exists d. auto.
  - binv H. unfold upd in H0. inversion H0; subst a s0. clear H0.
    destruct (N.ltb 65535 (N.of_nat (length (k_consts (s_cur s))))); [discriminate|]. inversion H; subst. clear H.
    exists [c]. split; [|split; [now right|]].
    + unfold consts_grow. cbn. repeat split.
    + cbn. rewrite Nat2N.id. exists c. split; [|now right].
      rewrite nth_error_app2 by lia. now rewrite Nat.sub_diag.
Qed.

(* ------------------------------------------------------------------------------------------ *)
(* C. the code relation: the bytes B decode, instruction by instruction, to `is` (relative to FINAL tables KS, FM) *)

Definition one (KS : list const) (FM : list nat) (b : list N) (i : SC.instr) : Prop :=
  length b = SC.isize i /\ forall r, dec1 KS FM (b ++ r) = Some (i, r).

Inductive crel (KS : list const) (FM : list nat) : list N -> list SC.instr -> Prop :=
| crel_nil : crel KS FM [] []
| crel_cons i b B is : one KS FM b i -> crel KS FM B is -> crel KS FM (b ++ B) (i :: is).

Lemma crel_one KS FM b i : one KS FM b i -> crel KS FM b [i].
Proof. intros H. rewrite <- (app_nil_r b). constructor; [exact H|constructor]. Qed.

Lemma crel_app KS FM B1 is1 : crel KS FM B1 is1 -> forall B2 is2, crel KS FM B2 is2 -> crel KS FM (B1 ++ B2) (is1 ++ is2).
Proof.
  induction 1 as [|i b B is Hb _ IH]; intros B2 is2 H2; [exact H2|].
  rewrite <- app_assoc. cbn. constructor; [exact Hb|now apply IH].
Qed.

Lemma crel_len KS FM B is : crel KS FM B is -> length B = SC.code_size is.
Proof. induction 1 as [|i b B is [Hl _] _ IH]; [reflexivity|]. rewrite app_length, Hl, IH. reflexivity. Qed.

Lemma isize_pos i : 1 <= SC.isize i.
Proof. destruct i; cbn; lia. Qed.

Lemma crel_dec KS FM B is : crel KS FM B is -> forall fuel, length is < fuel -> dec_code fuel KS FM B = Some is.
Proof.
  induction 1 as [|i b B is [Hl Hd] _ IH]; intros fuel Hf.
  - destruct fuel; [lia|]. reflexivity.
  - destruct fuel; [lia|]. cbn [dec_code]. cbn [length] in Hf.
    destruct (b ++ B) as [|x r] eqn:Eb.
    + pose proof (isize_pos i). destruct b; cbn in *; [lia|discriminate].
    + rewrite <- Eb, Hd, IH by lia. reflexivity.
Qed.

Lemma crel_dec_len KS FM B is : crel KS FM B is -> length is <= length B.
Proof.
  induction 1 as [|i b B is [Hl _] _ IH]; [cbn; lia|]. rewrite app_length. cbn. pose proof (isize_pos i). lia.
Qed.

Lemma u16_split v : u16 (N.modulo v 256) (N.div v 256) = N.to_nat v.
Proof. unfold u16. f_equal. rewrite N.add_comm. symmetry. apply N.div_mod. discriminate. Qed.

Lemma one_op KS FM o i :
  (forall r, dec1 KS FM (opb o :: r) = Some (i, r)) -> SC.isize i = 1 -> one KS FM [opb o] i.
Proof. intros H Hs. split; [now rewrite Hs|exact H]. Qed.

Ltac one_simple := apply one_op; [intros ?; reflexivity|reflexivity].

(* ------------------------------------------------------------------------------------------ *)
(* D. locals, variable resolution *)
Module SN := ScopeDefsN.

Lemma expr_nind : forall P : SL.expr -> Prop,
  (forall n, P (SL.ELit n)) -> (forall x, P (SL.EVar x)) -> (forall a b, P a -> P b -> P (SL.EAdd a b)) ->
  (forall f args, Forall P args -> P (SL.ECall f args)) -> P SL.EVecNew ->
  (forall v k args, Forall P args -> P (SL.ECallIdx v k args)) -> forall e, P e.
Proof.
  intros P H1 H2 H3 H4 H5 H6. fix IH 1. intros e.
  assert (G : forall l, Forall P l).
  { refine (fix go (l : list SL.expr) : Forall P l := match l with [] => Forall_nil P | a :: r => _ end).
    constructor; [apply IH|apply go]. }
  destruct e.
  - apply H1. - apply H2. - apply H3; apply IH. - apply H4, G. - apply H5. - apply H6, G.
Qed.

Definition lrel (l : SC.local) (k : klocal) : Prop :=
  kl_depth k = SC.l_depth l /\ kl_captured k = SC.l_capt l /\
  match SC.l_name l with Some x => kl_name k = tr_name x | None => un_name (kl_name k) = None end.
Definition Lrel := Forall2 lrel.

Lemma F2_length {A B} (R : A -> B -> Prop) l1 l2 : Forall2 R l1 l2 -> length l1 = length l2.
Proof. induction 1; cbn; congruence. Qed.

Lemma tr_name_eqb x y : bytes_eqb (tr_name x) (tr_name y) = Nat.eqb x y.
Proof.
  destruct (Nat.eqb_spec x y) as [->|Hn]; [apply bytes_eqb_rfl|].
  destruct (bytes_eqb (tr_name x) (tr_name y)) eqn:E; [|reflexivity].
  apply bytes_eqb_true in E. apply tr_name_inj in E. contradiction.
Qed.

Lemma rl_agree L kl x : Lrel L kl ->
  resolve_local_in (tr_name x) kl =
  match SC.resolve_local L x with Some (s, true) => LFound s | Some (_, false) => LUninit | None => LNotFound end.
Proof.
  induction 1 as [|l k L0 kl0 (Hd & Hc & Hn) HL IH]; cbn [resolve_local_in SC.resolve_local]; [reflexivity|].
  unfold SC.name_is. destruct (SC.l_name l) as [y|] eqn:En.
  - rewrite Hn, tr_name_eqb. destruct (Nat.eqb y x); [|exact IH].
    rewrite Hd, (F2_length _ _ _ HL). destruct (SC.l_depth l); reflexivity.
  - destruct (bytes_eqb (kl_name k) (tr_name x)) eqn:Eb; [|exact IH].
    apply bytes_eqb_true in Eb. rewrite Eb, un_name_tr_name in Hn. discriminate.
Qed.

(* the general step: bytes appended, constants appended, locals and scope depth replaced *)
Definition step (s s' : cstate) (B : list N) (more : list const) (kl' : list klocal) (d' : nat) : Prop :=
  k_code (s_cur s') = k_code (s_cur s) ++ B /\ s_outer s' = s_outer s /\
  rest (s_cur s') = rest (with_scope (with_locals (with_consts (s_cur s) (k_consts (s_cur s) ++ more)) kl') d').

Definition step0 (s s' : cstate) (B : list N) (more : list const) : Prop :=
  step s s' B more (k_locals (s_cur s)) (k_scope (s_cur s)).

Lemma step_trans s s1 s2 B1 B2 m1 m2 kl1 kl2 d1 d2 :
  step s s1 B1 m1 kl1 d1 -> step s1 s2 B2 m2 kl2 d2 -> step s s2 (B1 ++ B2) (m1 ++ m2) kl2 d2.
Proof.
  intros (H1 & H2 & H3) (G1 & G2 & G3). unfold step. rewrite G1, H1, G2, H2, app_assoc.
  split; [reflexivity|]. split; [reflexivity|].
  rewrite G3. unfold rest in *. cbn in *. injection H3; intros. rewrite app_assoc. congruence.
Qed.

Lemma emitted_step s s' B : emitted s s' B -> step0 s s' B [].
Proof.
  intros (H1 & H2 & H3). unfold step0, step. rewrite app_nil_r. repeat split; auto.
Qed.

Lemma grow_step s s' more : consts_grow s s' more -> step0 s s' [] more.
Proof.
  intros (H1 & H2 & H3 & H4). unfold step0, step. rewrite app_nil_r. repeat split; auto.
Qed.

Lemma step0_trans s s1 s2 B1 B2 m1 m2 : step0 s s1 B1 m1 -> step0 s1 s2 B2 m2 -> step0 s s2 (B1 ++ B2) (m1 ++ m2).
Proof.
  unfold step0. intros H G. 
  assert (E1 : k_locals (s_cur s1) = k_locals (s_cur s) /\ k_scope (s_cur s1) = k_scope (s_cur s)).
  { destruct H as (_ & _ & H3). unfold rest in H3. cbn in H3. inversion H3. auto. }
  destruct E1 as [E1 E2]. rewrite E1, E2 in G. exact (step_trans _ _ _ _ _ _ _ _ _ _ _ H G).
Qed.

(* projections of a step *)
Lemma step_fields s s' B more kl' d' : step s s' B more kl' d' ->
  k_consts (s_cur s') = k_consts (s_cur s) ++ more /\ k_locals (s_cur s') = kl' /\ k_scope (s_cur s') = d' /\
  k_upvalues (s_cur s') = k_upvalues (s_cur s) /\ k_kind (s_cur s') = k_kind (s_cur s) /\
  k_in_try (s_cur s') = k_in_try (s_cur s) /\ k_try_depth (s_cur s') = k_try_depth (s_cur s) /\
  k_loops (s_cur s') = k_loops (s_cur s) /\ k_breaks (s_cur s') = k_breaks (s_cur s) /\ k_arity (s_cur s') = k_arity (s_cur s).
Proof. intros (_ & _ & H3). unfold rest in H3. cbn in H3. inversion H3. repeat split; auto. Qed.

Definition nofun (c : const) : Prop := match c with KFun _ => False | _ => True end.

Definition vbytes (o : opcode) (arg : N) : list N :=
  if is_op8 o then [opb o; arg] else [opb o; N.modulo arg 256; N.div arg 256]%N.

Lemma emit_variable_op_e o arg l s u s' : emit_variable_op o arg l s = COk (u, s') -> emitted s s' (vbytes o arg).
Proof. unfold emit_variable_op, vbytes. destruct (is_op8 o); [apply emit_op8_e|apply emit_op16_e]. Qed.

Lemma const_str_nth ks i d s : nth_error ks i = Some d -> (const_eqb d (KStr s) = true \/ d = KStr s) ->
  nth_error ks i = Some (KStr s).
Proof.
  intros H [He| ->]; [|exact H]. destruct d as [y|t|g]; cbn in He; try discriminate.
  apply bytes_eqb_true in He. now subst.
Qed.

Lemma const_num_nth ks i d x : nth_error ks i = Some d -> (const_eqb d (KNum x) = true \/ d = KNum x) ->
  exists y, nth_error ks i = Some (KNum y) /\ un_num y = un_num x.
Proof.
  intros H [He| ->]; [|eauto]. destruct d as [y|t|g]; cbn in He; try discriminate.
  exists y. split; [exact H|]. now apply feqb_un_num.
Qed.

(* the three instructions that name a global *)
Lemma one_global KS FM i x :
  nth_error KS (N.to_nat i) = Some (KStr (tr_name x)) ->
  one KS FM [opb OpGetGlobal; N.modulo i 256; N.div i 256]%N (SC.IGetGlobal (SC.GUser x)) /\
  one KS FM [opb OpSetGlobal; N.modulo i 256; N.div i 256]%N (SC.ISetGlobal x) /\
  one KS FM [opb OpDefineGlobal; N.modulo i 256; N.div i 256]%N (SC.IDefineGlobal x).
Proof.
  intros H. repeat split; try reflexivity; intros r; cbn [app]; unfold dec1, opb; cbn [N_of_opcode opcode_of_N];
    rewrite u16_split; unfold kstr; rewrite H; cbn [obind omap]; unfold un_user; rewrite un_name_tr_name; reflexivity.
Qed.

Section Bridge.
Variable cf : SC.cfg.

Lemma rv_agree L U x r U' E' l st g so arg st' :
  Lrel L (k_locals (s_cur st)) -> s_outer st = [] ->
  SN.rvn cf L U [] x = Some (r, U', E') ->
  resolve_variable (tr_name x) l st = COk ((g, so, arg), st') ->
  U' = U /\ E' = [] /\ exists more, step0 st st' [] more /\ Forall nofun more /\
    forall KS FM, ext (k_consts (s_cur st')) KS ->
      one KS FM (vbytes g arg) (SC.get_op r x) /\ one KS FM (vbytes so arg) (SC.set_op r x).
Proof.
  intros HL Ho Hr H. unfold resolve_variable in H. binv H. unfold cur in H0. inversion H0; subst a s. clear H0.
  unfold resolve_local_c in H. rewrite (rl_agree _ _ x HL) in H. unfold SN.rvn in Hr.
  destruct (SC.resolve_local L x) as [[sl [|]]|].
  - inversion Hr; subst. inversion H; subst. split; [reflexivity|]. split; [reflexivity|].
    exists []. split; [apply emitted_step, emitted_refl|]. split; [constructor|].
    intros KS FM _. split; (split; [reflexivity|]); intros r0; cbn; rewrite Nat2N.id; reflexivity.
  - discriminate.
  - cbn in Hr. inversion Hr; subst. split; [reflexivity|]. split; [reflexivity|].
    binv H. unfold cget in H0. inversion H0; subst a s. clear H0.
    rewrite Ho in H. cbn [resolve_upvalue_in] in H.
    binv H. apply set_line_e in H0. binv H. unfold identifier_constant in H1.
    apply make_constant_e in H1 as (more & Hg & Hm & d & Hd & Hc).
    inversion H; subst. clear H.
    exists more. split.
    + apply emitted_step in H0. apply grow_step in Hg. exact (step0_trans _ _ _ _ _ _ _ H0 Hg).
    + split; [destruct Hm as [->| ->]; repeat constructor|].
      intros KS FM He. pose proof (const_str_nth _ _ _ _ Hd Hc) as Hn.
      pose proof (ext_nth _ _ _ _ He Hn) as Hk.
      destruct (one_global KS FM _ _ Hk) as (G1 & G2 & _). split; assumption.
Qed.

(* ------------------------------------------------------------------------------------------ *)
(* E. expressions (script level: no enclosing function, so every name is a local or a global) *)

Lemma tr_expr_call f args : tr_expr (SL.ECall f args) = LCall (LVar 0 (tr_name f)) (tr_args args) 0.
Proof.
  reflexivity.
Qed.

Lemma step0_keep st st' B more : step0 st st' B more ->
  k_locals (s_cur st') = k_locals (s_cur st) /\ s_outer st' = s_outer st /\
  k_consts (s_cur st') = k_consts (s_cur st) ++ more.
Proof.
  intros H. pose proof H as (_ & Ho & _). apply step_fields in H as (H1 & H2 & _). auto.
Qed.

Lemma lit_ok_num n : lit_ok n = true -> un_num (tr_num n) = Some n.
Proof.
  unfold lit_ok. destruct (un_num (tr_num n)) as [m|]; [|discriminate]. intros H. apply N.eqb_eq in H. now subst.
Qed.

Lemma one_const KS FM i n y :
  nth_error KS (N.to_nat i) = Some (KNum y) -> un_num y = Some n ->
  one KS FM [opb OpConstant; N.modulo i 256; N.div i 256]%N (SC.IConst n).
Proof.
  intros H Hy. split; [reflexivity|]. intros r. cbn [app]. unfold dec1, opb. cbn [N_of_opcode opcode_of_N].
  rewrite u16_split. unfold knum. rewrite H, Hy. reflexivity.
Qed.

Definition E_goal (e : SL.expr) : Prop :=
  ScopeDefs2.expr2 e = true -> expr_repr_ok e = true ->
  forall L U ce U' E' st st',
    SN.nexpr cf L e U [] = Some (ce, U', E') ->
    cexpr (tr_expr e) st = COk (tt, st') ->
    Lrel L (k_locals (s_cur st)) -> s_outer st = [] ->
    U' = U /\ E' = [] /\ exists B more, step0 st st' B more /\ Forall nofun more /\
      forall KS FM, ext (k_consts (s_cur st')) KS -> crel KS FM B ce.

Lemma named_get_ok L U x r U' E' l st st' :
  Lrel L (k_locals (s_cur st)) -> s_outer st = [] ->
  SN.rvn cf L U [] x = Some (r, U', E') ->
  named_get (tr_name x) l st = COk (tt, st') ->
  U' = U /\ E' = [] /\ exists B more, step0 st st' B more /\ Forall nofun more /\
    forall KS FM, ext (k_consts (s_cur st')) KS -> crel KS FM B [SC.get_op r x].
Proof.
  intros HL Ho Hr H. unfold named_get in H. binv H. destruct a as [[g so] arg].
  destruct (rv_agree _ _ _ _ _ _ _ _ _ _ _ _ HL Ho Hr H0) as (-> & -> & more & Hs & Hn & Hone).
  split; [reflexivity|]. split; [reflexivity|].
  apply emit_variable_op_e in H. pose proof (emitted_step _ _ _ H) as Hs2.
  exists ([] ++ vbytes g arg), (more ++ []). split; [exact (step0_trans _ _ _ _ _ _ _ Hs Hs2)|].
  split; [now rewrite app_nil_r|].
  intros KS FM He. cbn [app]. apply crel_one.
  destruct (step0_keep _ _ _ _ Hs2) as (_ & _ & Hc). rewrite app_nil_r in Hc. rewrite Hc in He.
  now apply Hone.
Qed.

Lemma E_all : forall e, E_goal e.
Proof.
  induction e using expr_nind; unfold E_goal; intros Hf Hr L U ce U' E' st st' Hn Hc HL Ho.
  - (* ELit *)
    cbn in Hn. inversion Hn; subst. split; [reflexivity|]. split; [reflexivity|].
    cbn [tr_expr cexpr] in Hc. unfold emit_constant in Hc. binv Hc. apply set_line_e in Hc0.
    binv Hc. apply make_constant_e in Hc1 as (more & Hg & Hm & d & Hd & Hcq).
    apply emit_op16_e in Hc.
    exists (([] ++ []) ++ [opb OpConstant; N.modulo a0 256; N.div a0 256]%N), (([] ++ more) ++ []).
    split; [|split].
    + eapply step0_trans; [eapply step0_trans; [apply emitted_step; eassumption|apply grow_step; eassumption]|apply emitted_step; eassumption].
    + rewrite app_nil_r. cbn [app]. destruct Hm as [->| ->]; repeat constructor.
    + intros KS FM He. cbn [app]. apply crel_one.
      destruct (const_num_nth _ _ _ _ Hd Hcq) as (y & Hy & Hu).
      destruct (step0_keep _ _ _ _ (emitted_step _ _ _ Hc)) as (_ & _ & Hk). rewrite app_nil_r in Hk. rewrite Hk in He.
      apply (one_const KS FM a0 n y); [exact (ext_nth _ _ _ _ He Hy)|].
      rewrite Hu. apply lit_ok_num. exact Hr.
  - (* EVar *)
    cbn [SN.nexpr] in Hn. destruct (SN.rvn cf L U [] x) as [[[r U1] E1]|] eqn:Er; [|discriminate].
    inversion Hn; subst. cbn [tr_expr cexpr] in Hc.
    exact (named_get_ok _ _ _ _ _ _ _ _ _ HL Ho Er Hc).
  - (* EAdd *)
    cbn [ScopeDefs2.expr2] in Hf. apply andb_prop in Hf as [Hf1 Hf2].
    cbn [expr_repr_ok] in Hr. apply andb_prop in Hr as [Hr1 Hr2].
    cbn [SN.nexpr] in Hn.
    destruct (SN.nexpr cf L e1 U []) as [[[ca U1] E1]|] eqn:Ea; [|discriminate].
    cbn [tr_expr cexpr] in Hc. binv Hc. destruct a. binv Hc. destruct a.
    destruct (IHe1 Hf1 Hr1 _ _ _ _ _ _ _ Ea Hc0 HL Ho) as (-> & -> & B1 & m1 & Hs1 & Hn1 & Hk1).
    destruct (SN.nexpr cf L e2 U []) as [[[cb U2] E2]|] eqn:Eb; [|discriminate].
    inversion Hn; subst. clear Hn.
    destruct (step0_keep _ _ _ _ Hs1) as (Hl1 & Ho1 & Hc1').
    rewrite <- Hl1 in HL. rewrite <- Ho1 in Ho.
    destruct (IHe2 Hf2 Hr2 _ _ _ _ _ _ _ Eb Hc1 HL Ho) as (-> & -> & B2 & m2 & Hs2 & Hn2 & Hk2).
    split; [reflexivity|]. split; [reflexivity|].
    cbn [binop_ops] in Hc. apply emit_ops_e in Hc. cbn [map] in Hc. apply emitted_step in Hc.
    destruct (step0_keep _ _ _ _ Hs2) as (_ & _ & Hc2'). destruct (step0_keep _ _ _ _ Hc) as (_ & _ & Hc3').
    exists ((B1 ++ B2) ++ [opb OpAdd]), ((m1 ++ m2) ++ []). split; [|split].
    + eapply step0_trans; [eapply step0_trans; eassumption|eassumption].
    + rewrite app_nil_r. apply Forall_app. auto.
    + intros KS FM He. rewrite app_nil_r in Hc3'. rewrite <- app_assoc.
      apply crel_app; [|apply crel_app].
      * apply Hk1. rewrite Hc3', Hc2' in He. eapply ext_trans; [apply ext_app|exact He].
      * apply Hk2. rewrite Hc3' in He. exact He.
      * apply crel_one. one_simple.
  - (* ECall *)
    cbn [ScopeDefs2.expr2] in Hf. cbn [expr_repr_ok] in Hr. apply andb_prop in Hr as [_ Hr].
    rewrite ScopeFactsN.nexpr_call in Hn.
    destruct (SN.rvn cf L U [] f) as [[[r U0] E0]|] eqn:Er; [|discriminate].
    destruct (SN.nargs cf L args U0 E0) as [[[cargs' U3] E3]|] eqn:Ea; [|discriminate].
    inversion Hn; subst. clear Hn.
    rewrite tr_expr_call in Hc. cbn [cexpr] in Hc. binv Hc. destruct a.
    destruct (named_get_ok _ _ _ _ _ _ _ _ _ HL Ho Er Hc0) as (-> & -> & B0 & m0 & Hs0 & Hn0 & Hk0).
    binv Hc. binv Hc.
    destruct (step0_keep _ _ _ _ Hs0) as (Hl0 & Ho0 & Hc0').
    rewrite <- Hl0 in HL. rewrite <- Ho0 in Ho.
    (* the arguments *)
    assert (HA : forall args, Forall E_goal args -> forallb ScopeDefs2.expr2 args = true -> forallb expr_repr_ok args = true ->
               forall ca U3 E3 st st' n, SN.nargs cf L args U [] = Some (ca, U3, E3) ->
               FullCompile.cargs (tr_args args) st = COk (n, st') ->
               Lrel L (k_locals (s_cur st)) -> s_outer st = [] ->
               U3 = U /\ E3 = [] /\ n = N.of_nat (length args) /\ exists B more, step0 st st' B more /\ Forall nofun more /\
                 forall KS FM, ext (k_consts (s_cur st')) KS -> crel KS FM B ca).
    { clear. induction 1 as [|e r He Hr IH]; intros Hf Hp ca U3 E3 st st' n Hn Hc HL Ho.
      - cbn in Hn, Hc. inversion Hn; inversion Hc; subst. repeat split.
        exists [], []. split; [apply emitted_step, emitted_refl|]. split; [constructor|]. intros; constructor.
      - cbn [forallb] in Hf, Hp. apply andb_prop in Hf as [Hf1 Hf2]. apply andb_prop in Hp as [Hp1 Hp2].
        cbn [SN.nargs] in Hn. destruct (SN.nexpr cf L e U []) as [[[c1 U1] E1]|] eqn:E1'; [|discriminate].
        cbn [tr_args FullCompile.cargs] in Hc. binv Hc. destruct a. binv Hc. inversion Hc; subst. clear Hc.
        destruct (He Hf1 Hp1 _ _ _ _ _ _ _ E1' Hc0 HL Ho) as (-> & -> & B1 & m1 & Hs1 & Hn1 & Hk1).
        destruct (SN.nargs cf L r U []) as [[[c2 U2] E2]|] eqn:E2'; [|discriminate].
        inversion Hn; subst. clear Hn.
        destruct (step0_keep _ _ _ _ Hs1) as (Hl1 & Ho1 & Hc1').
        rewrite <- Hl1 in HL. rewrite <- Ho1 in Ho.
        destruct (IH Hf2 Hp2 _ _ _ _ _ _ eq_refl Hc1 HL Ho) as (-> & -> & -> & B2 & m2 & Hs2 & Hn2 & Hk2).
        repeat split. { cbn [length]. lia. }
        destruct (step0_keep _ _ _ _ Hs2) as (_ & _ & Hc2').
        exists (B1 ++ B2), (m1 ++ m2). split; [eapply step0_trans; eassumption|]. split; [apply Forall_app; auto|].
        intros KS FM Hx. apply crel_app; [apply Hk1|apply Hk2; exact Hx].
        rewrite Hc2' in Hx. eapply ext_trans; [apply ext_app|exact Hx]. }
    destruct (HA args H Hf Hr _ _ _ _ _ _ Ea Hc1 HL Ho) as (-> & -> & -> & B1 & m1 & Hs1 & Hn1 & Hk1).
    split; [reflexivity|]. split; [reflexivity|].
    apply emit_op8_e in Hc. apply emitted_step in Hc.
    destruct (step0_keep _ _ _ _ Hs1) as (_ & _ & Hc1'). destruct (step0_keep _ _ _ _ Hc) as (_ & _ & Hc3').
    assert (Hs2' : step0 s0 s1 [] []).
    { unfold check_count in Hc2. destruct (N.ltb 255 (N.of_nat (length args))); [discriminate|]. inversion Hc2; subst.
      apply emitted_step, emitted_refl. }
    destruct (step0_keep _ _ _ _ Hs2') as (_ & _ & Hc2').
    exists (((B0 ++ B1) ++ []) ++ [opb OpCall; N.of_nat (length args)]), (((m0 ++ m1) ++ []) ++ []). split; [|split].
    + eapply step0_trans; [eapply step0_trans; [eapply step0_trans|]|]; eassumption.
    + rewrite !app_nil_r. apply Forall_app. auto.
    + intros KS FM He. rewrite !app_nil_r in *. rewrite <- app_assoc.
      change (SC.get_op r f :: cargs' ++ [SC.ICall (length args)]) with ([SC.get_op r f] ++ cargs' ++ [SC.ICall (length args)]).
      apply crel_app; [|apply crel_app].
      * apply Hk0. rewrite Hc3', Hc2', Hc1' in He. eapply ext_trans; [apply ext_app|exact He].
      * apply Hk1. rewrite Hc3', Hc2' in He. exact He.
      * apply crel_one. split; [reflexivity|]. intros r0. cbn. rewrite Nat2N.id. reflexivity.
  - discriminate.
  - discriminate.
Qed.

(* ------------------------------------------------------------------------------------------ *)
(* F. statements.  Covered here (`frag0`): var / assignment / print / expression statement / throw / blocks, at script
   level and inside blocks (locals, shadowing, scope ends: Pop per local), no function definitions, no jumps. *)

Fixpoint frag0 (s : SL.stmt) : bool :=
  match s with
  | SL.SDecl _ e | SL.SAssign _ e | SL.SPrint e | SL.SExpr e | SL.SThrow e => ScopeDefs2.expr2 e
  | SL.SBlock b => forallb frag0 b
  | _ => false
  end.

Lemma step_of_eq s s' B more kl d :
  k_code (s_cur s') = k_code (s_cur s) ++ B -> s_outer s' = s_outer s ->
  rest (s_cur s') = rest (with_scope (with_locals (with_consts (s_cur s) (k_consts (s_cur s) ++ more)) kl) d) ->
  step s s' B more kl d.
Proof. intros. repeat split; assumption. Qed.

Lemma step0_step s s' B more : step0 s s' B more -> step s s' B more (k_locals (s_cur s)) (k_scope (s_cur s)).
Proof. auto. Qed.

Lemma step_id s : step s s [] [] (k_locals (s_cur s)) (k_scope (s_cur s)).
Proof. apply emitted_step, emitted_refl. Qed.

(* a step that only replaces locals / scope depth *)
Lemma upd_step f s u s' kl d : upd f s = COk (u, s') ->
  k_code (f (s_cur s)) = k_code (s_cur s) ->
  rest (f (s_cur s)) = rest (with_scope (with_locals (s_cur s) kl) d) ->
  step s s' [] [] kl d.
Proof.
  unfold upd. intros H Hc Hr. inversion H; subst. apply step_of_eq; cbn [s_cur s_outer].
  - now rewrite Hc, app_nil_r.
  - reflexivity.
  - rewrite Hr. unfold rest. cbn. now rewrite app_nil_r.
Qed.

Lemma Lrel_skipn n : forall L kl, Lrel L kl -> Lrel (skipn n L) (skipn n kl).
Proof. induction n as [|n IH]; intros L kl H; [exact H|]. destruct H; cbn; [constructor|now apply IH]. Qed.

Lemma scope_end_agree KS FM d : forall L kl, Lrel L kl ->
  crel KS FM (map opb (scope_end_ops d kl)) (SC.scope_end_ops L d) /\
  length (scope_end_ops d kl) = length (SC.scope_end_ops L d).
Proof.
  induction 1 as [|l k L0 kl0 (Hd & Hc & Hn) HL [IH1 IH2]]; cbn [scope_end_ops SC.scope_end_ops map]; [split; [constructor|reflexivity]|].
  rewrite Hd, Hc. destruct (SC.l_depth l) as [v|]; [|split; [constructor|reflexivity]].
  destruct (Nat.ltb_spec d v) as [Hlt|Hge].
  - replace (Nat.leb v d) with false by (symmetry; apply Nat.leb_gt; lia).
    cbn [map length]. split; [|now rewrite IH2].
    change (opb (if SC.l_capt l then OpCloseUpvalue else OpPop) :: map opb (scope_end_ops d kl0))
      with ([opb (if SC.l_capt l then OpCloseUpvalue else OpPop)] ++ map opb (scope_end_ops d kl0)).
    constructor; [|exact IH1]. destruct (SC.l_capt l); one_simple.
  - replace (Nat.leb v d) with true by (symmetry; apply Nat.leb_le; lia). split; [constructor|reflexivity].
Qed.

Lemma rl_print L kl : Lrel L kl -> resolve_local_in n_print kl = LNotFound.
Proof.
  induction 1 as [|l k L0 kl0 (Hd & Hc & Hn) HL IH]; cbn [resolve_local_in]; [reflexivity|].
  destruct (bytes_eqb (kl_name k) n_print) eqn:Eb; [|exact IH]. apply bytes_eqb_true in Eb.
  destruct (SC.l_name l) as [y|]; rewrite Eb in Hn.
  - assert (Hu : un_name n_print = un_name (tr_name y)) by now rewrite Hn. rewrite un_name_tr_name in Hu. discriminate.
  - discriminate.
Qed.

Lemma get_print_ok L l st st' :
  Lrel L (k_locals (s_cur st)) -> s_outer st = [] ->
  named_get n_print l st = COk (tt, st') ->
  exists B more, step0 st st' B more /\ Forall nofun more /\
    forall KS FM, ext (k_consts (s_cur st')) KS -> crel KS FM B [SC.IGetGlobal SC.GPrint].
Proof.
  intros HL Ho H. unfold named_get in H. binv H. destruct a as [[g so] arg].
  unfold resolve_variable in H0. binv H0. unfold cur in H1. inversion H1; subst a s0. clear H1.
  unfold resolve_local_c in H0. rewrite (rl_print _ _ HL) in H0.
  binv H0. unfold cget in H1. inversion H1; subst a s0. clear H1.
  rewrite Ho in H0. cbn [resolve_upvalue_in] in H0.
  binv H0. apply set_line_e in H1. apply bind_inv in H0 as (gi & s3 & H2 & H0). unfold identifier_constant in H2.
  apply make_constant_e in H2 as (more & Hg & Hm & d & Hd & Hc).
  inversion H0; subst. clear H0.
  apply emit_variable_op_e in H. unfold vbytes in H. cbn [is_op8] in H.
  exists (([] ++ []) ++ [opb OpGetGlobal; N.modulo arg 256; N.div arg 256]%N), (([] ++ more) ++ []).
  split; [|split].
  - eapply step0_trans; [eapply step0_trans; [apply emitted_step; eassumption|apply grow_step; eassumption]|apply emitted_step; eassumption].
  - rewrite app_nil_r. cbn [app]. destruct Hm as [->| ->]; repeat constructor.
  - intros KS FM He. cbn [app]. apply crel_one.
    destruct (step0_keep _ _ _ _ (emitted_step _ _ _ H)) as (_ & _ & Hk). rewrite app_nil_r in Hk. rewrite Hk in He.
    pose proof (ext_nth _ _ _ _ He (const_str_nth _ _ _ _ Hd Hc)) as Hn.
    split; [reflexivity|]. intros r. cbn [app]. unfold dec1, opb. cbn [N_of_opcode opcode_of_N].
    rewrite u16_split. unfold kstr. rewrite Hn. reflexivity.
Qed.

(* conclusion shared by statements and statement lists *)
Definition S_post (st st' : cstate) (d : nat) (code : list SC.instr) (L' : list SC.local)
                  (U U' : SC.ups_t) (E' : list SN.lev) (fs' : list SC.func) : Prop :=
  U' = U /\ E' = [] /\ fs' = [] /\ exists B more kl', step st st' B more kl' d /\ Lrel L' kl' /\ Forall nofun more /\
    forall KS FM, ext (k_consts (s_cur st')) KS -> crel KS FM B code.

Definition S_goal (s : SL.stmt) : Prop :=
  frag0 s = true -> stmt_repr_ok s = true ->
  forall L d U code L' U' E' fs' pos lc st st',
    ScopeDefs5.nstmt cf s L d U [] [] pos lc = Some (code, L', U', E', fs') ->
    cstmt (tr_stmt s) st = COk (tt, st') ->
    Lrel L (k_locals (s_cur st)) -> s_outer st = [] -> k_scope (s_cur st) = d ->
    S_post st st' d code L' U U' E' fs'.

Definition L_goal (b : list SL.stmt) : Prop :=
  forallb frag0 b = true -> forallb stmt_repr_ok b = true ->
  forall L d U code L' U' E' fs' pos lc st st',
    ScopeDefs5.nlist cf b d L U [] [] pos lc = Some (code, L', U', E', fs') ->
    cstmts (tr_list b) st = COk (tt, st') ->
    Lrel L (k_locals (s_cur st)) -> s_outer st = [] -> k_scope (s_cur st) = d ->
    S_post st st' d code L' U U' E' fs'.

(* an expression statement-like wrapper: expression, then one fixed opcode *)
Lemma expr_then_op e L U ce U' E' st s1 st' o i :
  ScopeDefs2.expr2 e = true -> expr_repr_ok e = true ->
  SN.nexpr cf L e U [] = Some (ce, U', E') ->
  cexpr (tr_expr e) st = COk (tt, s1) -> emit_op o 0%N s1 = COk (tt, st') ->
  (forall KS FM, one KS FM [opb o] i) ->
  Lrel L (k_locals (s_cur st)) -> s_outer st = [] ->
  S_post st st' (k_scope (s_cur st)) (ce ++ [i]) L U U' E' [].
Proof.
  intros Hf Hr Hn Hc Ho Hone HL Hout.
  destruct (E_all e Hf Hr _ _ _ _ _ _ _ Hn Hc HL Hout) as (-> & -> & B & more & Hs & Hnf & Hk).
  repeat split. apply emit_op_e in Ho. apply emitted_step in Ho.
  exists (B ++ [opb o]), (more ++ []), (k_locals (s_cur st)). split; [exact (step0_trans _ _ _ _ _ _ _ Hs Ho)|].
  split; [exact HL|]. split; [now rewrite app_nil_r|].
  intros KS FM He. destruct (step0_keep _ _ _ _ Ho) as (_ & _ & Hk'). rewrite app_nil_r in Hk'. rewrite Hk' in He.
  apply crel_app; [now apply Hk|apply crel_one, Hone].
Qed.

Lemma L_of_S : forall b, Forall S_goal b -> L_goal b.
Proof.
  induction 1 as [|s r Hs Hr IH]; unfold L_goal; intros Hf Hp L d U code L' U' E' fs' pos lc st st' Hn Hc HL Ho Hd.
  - cbn in Hn, Hc. inversion Hn; inversion Hc; subst. repeat split.
    exists [], [], (k_locals (s_cur st')). split; [apply step_id|]. split; [exact HL|]. split; [constructor|]. intros; constructor.
  - cbn [forallb] in Hf, Hp. apply andb_prop in Hf as [Hf1 Hf2]. apply andb_prop in Hp as [Hp1 Hp2].
    cbn [ScopeDefs5.nlist] in Hn.
    destruct (ScopeDefs5.nstmt cf s L d U [] [] pos lc) as [[[[[ca L1] U1] E1] fs1]|] eqn:E1'; [|discriminate].
    cbn [tr_list cstmts] in Hc. binv Hc. destruct a.
    destruct (Hs Hf1 Hp1 _ _ _ _ _ _ _ _ _ _ _ _ E1' Hc0 HL Ho Hd) as (-> & -> & -> & B1 & m1 & kl1 & Hs1 & HL1 & Hn1 & Hk1).
    destruct (ScopeDefs5.nlist cf r d L1 U [] [] (pos + SC.code_size ca) lc) as [[[[[cr L2] U2] E2] fs2]|] eqn:E2'; [|discriminate].
    inversion Hn; subst. clear Hn.
    destruct (step_fields _ _ _ _ _ _ Hs1) as (Hc1 & Hl1 & Hd1 & _). pose proof Hs1 as (_ & Ho1 & _).
    rewrite <- Hl1 in HL1. rewrite <- Ho1 in Ho.
    destruct (IH Hf2 Hp2 _ _ _ _ _ _ _ _ _ _ _ _ E2' Hc HL1 Ho Hd1) as (-> & -> & -> & B2 & m2 & kl2 & Hs2 & HL2 & Hn2 & Hk2).
    repeat split. exists (B1 ++ B2), (m1 ++ m2), kl2. split; [exact (step_trans _ _ _ _ _ _ _ _ _ _ _ Hs1 Hs2)|].
    split; [exact HL2|]. split; [apply Forall_app; auto|].
    intros KS FM He. destruct (step_fields _ _ _ _ _ _ Hs2) as (Hc2 & _).
    apply crel_app; [apply Hk1|apply Hk2; exact He]. rewrite Hc2 in He. eapply ext_trans; [apply ext_app|exact He].
Qed.

Lemma declare_variable_e x l s u s' : declare_variable x l s = COk (u, s') ->
  (k_scope (s_cur s) = 0 /\ s' = s) \/
  (k_scope (s_cur s) <> 0 /\ step s s' [] [] (mkKL x None false :: k_locals (s_cur s)) (k_scope (s_cur s))).
Proof.
  unfold declare_variable. intros H. binv H. unfold cur in H0. inversion H0; subst a s0. clear H0.
  destruct (Nat.eqb_spec (k_scope (s_cur s)) 0) as [Hz|Hz].
  - left. inversion H; subst. auto.
  - right. split; [exact Hz|].
    destruct (declared_in_scope x (k_scope (s_cur s)) (k_locals (s_cur s))); [discriminate|].
    binv H. unfold add_local in H0. binv H0. unfold cur in H1. inversion H1; subst a0 s1. clear H1.
    destruct (Nat.eqb (length (k_locals (s_cur s))) LOCALS_MAX).
    + inversion H0; subst. discriminate.
    + binv H0. inversion H0; subst. inversion H; subst. clear H H0.
      eapply upd_step; [exact H1|reflexivity|reflexivity].
Qed.

Lemma mark_initialised_e s u s' nm dp cp r : mark_initialised s = COk (u, s') ->
  k_locals (s_cur s) = mkKL nm dp cp :: r -> k_scope (s_cur s) <> 0 ->
  step s s' [] [] (mkKL nm (Some (k_scope (s_cur s))) cp :: r) (k_scope (s_cur s)).
Proof.
  unfold mark_initialised. intros H Hl Hz. binv H. unfold cur in H0. inversion H0; subst a s0. clear H0.
  destruct (Nat.eqb_spec (k_scope (s_cur s)) 0) as [Hz'|_]; [contradiction|].
  unfold mark_last_initialised in H. eapply upd_step; [exact H| |]; cbv beta; rewrite Hl; reflexivity.
Qed.

Ltac bcur H :=
  let k := fresh "k" in let sk := fresh "sk" in let Hk := fresh "Hk" in
  apply bind_inv in H as (k & sk & Hk & H); unfold cur in Hk; inversion Hk; subst k sk; clear Hk.

Lemma S_all : forall s, S_goal s.
Proof.
  induction s using ScopeCompN.stmt_nind; unfold S_goal; intros Hf Hp L d U code L' U' E' fs' pos lc st st' Hn Hc HL Ho Hd;
    try discriminate Hf.
  - (* SDecl *)
    cbn [frag0] in Hf. cbn [stmt_repr_ok] in Hp. apply andb_prop in Hp as [_ Hp].
    cbn [tr_stmt cstmt] in Hc. apply bind_inv in Hc as (g & s1 & Hpv & Hc).
    binv Hc. destruct a. unfold parse_variable in Hpv. binv Hpv. destruct a.
    apply bind_inv in Hpv as (k & s3 & Hcur & Hpv). unfold cur in Hcur. inversion Hcur; subst k s3. clear Hcur.
    cbn [ScopeDefs5.nstmt] in Hn.
    apply declare_variable_e in Hpv0 as [[Hz ->]|[Hz Hs0]].
    + (* a global *)
      rewrite Hd in Hz. subst d. cbn [Nat.eqb] in Hn.
      destruct (SN.nexpr cf L e U []) as [[[ce U1] E1]|] eqn:Ee; [|discriminate]. inversion Hn; subst. clear Hn.
      rewrite Hd in Hpv. cbn [Nat.ltb Nat.leb] in Hpv. unfold identifier_constant in Hpv.
      apply make_constant_e in Hpv as (more & Hg & Hm & c & Hnc & Hcq). apply grow_step in Hg.
      destruct (step0_keep _ _ _ _ Hg) as (Hl1 & Ho1 & Hc1).
      rewrite <- Hl1 in HL. rewrite <- Ho1 in Ho.
      destruct (E_all e Hf Hp _ _ _ _ _ _ _ Ee Hc0 HL Ho) as (-> & -> & B & m2 & Hs & Hnf & Hk).
      unfold define_variable in Hc. bcur Hc.
      destruct (step_fields _ _ _ _ _ _ Hs) as (Hc2 & _ & Hd2 & _).
      destruct (step_fields _ _ _ _ _ _ Hg) as (_ & _ & Hd1 & _).
      rewrite Hd2, Hd1, Hd in Hc. cbn [Nat.ltb Nat.leb] in Hc. apply emit_op16_e in Hc. apply emitted_step in Hc.
      destruct (step0_keep _ _ _ _ Hc) as (_ & _ & Hc3). rewrite app_nil_r in Hc3.
      repeat split.
      exists (([] ++ B) ++ [opb OpDefineGlobal; N.modulo g 256; N.div g 256]%N), ((more ++ m2) ++ []), (k_locals (s_cur st)).
      split; [|split; [|split]].
      * assert (Hst : step0 st st' (([] ++ B) ++ [opb OpDefineGlobal; N.modulo g 256; N.div g 256]%N) ((more ++ m2) ++ []))
          by (eapply step0_trans; [eapply step0_trans|]; eassumption).
        unfold step0 in Hst. rewrite Hd in Hst. exact Hst.
      * rewrite Hl1 in HL. exact HL.
      * rewrite app_nil_r. apply Forall_app. split; [|exact Hnf]. destruct Hm as [->| ->]; repeat constructor.
      * intros KS FM He. cbn [app]. apply crel_app; [apply Hk; now rewrite Hc3 in He|].
        apply crel_one. rewrite Hc3, Hc2 in He.
        pose proof (ext_nth _ _ _ _ (ext_trans _ _ _ (ext_app _ _) He) (const_str_nth _ _ _ _ Hnc Hcq)) as Hx.
        now destruct (one_global KS FM _ _ Hx) as (_ & _ & G3).
    + (* a local *)
      rewrite Hd in Hz. destruct (Nat.eqb_spec d 0) as [Hz'|_]; [contradiction|].
      destruct (SC.dup_in_scope L x d); [discriminate|].
      destruct (Nat.eqb (length L) (SC.c_locals_max cf)); [discriminate|].
      destruct (SN.nexpr cf (SC.mkLocal (Some x) None false :: L) e U []) as [[[ce U1] E1]|] eqn:Ee; [|discriminate].
      inversion Hn; subst code L' U' E' fs'. clear Hn.
      destruct (step_fields _ _ _ _ _ _ Hs0) as (Hc1 & Hl1 & Hd1 & _). pose proof Hs0 as (_ & Ho1 & _).
      rewrite Hd1, Hd in Hpv. replace (Nat.ltb 0 d) with true in Hpv by (symmetry; apply Nat.ltb_lt; lia).
      inversion Hpv; subst g s1. clear Hpv.
      assert (HL1 : Lrel (SC.mkLocal (Some x) None false :: L) (k_locals (s_cur s0))).
      { rewrite Hl1. constructor; [|exact HL]. repeat split. }
      rewrite <- Ho1 in Ho.
      destruct (E_all e Hf Hp _ _ _ _ _ _ _ Ee Hc0 HL1 Ho) as (-> & -> & B & m2 & Hs & Hnf & Hk).
      unfold define_variable in Hc. bcur Hc.
      destruct (step_fields _ _ _ _ _ _ Hs) as (Hc2 & Hl2 & Hd2 & _).
      rewrite Hd2, Hd1, Hd in Hc. replace (Nat.ltb 0 d) with true in Hc by (symmetry; apply Nat.ltb_lt; lia).
      rewrite Hl1 in Hl2.
      assert (Hz2 : k_scope (s_cur s) <> 0) by (rewrite Hd2, Hd1, Hd; exact Hz).
      pose proof (mark_initialised_e _ _ _ _ _ _ _ Hc Hl2 Hz2) as Hs3.
      rewrite Hd2, Hd1, Hd in Hs3.
      repeat split.
      exists (([] ++ B) ++ []), (([] ++ m2) ++ []), (mkKL (tr_name x) (Some d) false :: k_locals (s_cur st)).
      split; [|split; [|split]].
      * eapply step_trans; [eapply step_trans; [exact Hs0|apply step0_step; exact Hs]|exact Hs3].
      * constructor; [repeat split|exact HL].
      * now rewrite app_nil_r.
      * intros KS FM He. cbn [app]. rewrite app_nil_r. apply Hk.
        destruct (step_fields _ _ _ _ _ _ Hs3) as (Hc3 & _). rewrite app_nil_r in Hc3. now rewrite Hc3 in He.
  - (* SAssign *)
    cbn [frag0] in Hf. cbn [stmt_repr_ok] in Hp. apply andb_prop in Hp as [_ Hp].
    cbn [ScopeDefs5.nstmt] in Hn.
    destruct (SN.rvn cf L U [] x) as [[[r U0] E0]|] eqn:Er; [|discriminate].
    cbn [tr_stmt cstmt cexpr] in Hc. binv Hc. destruct a. apply bind_inv in Hc0 as ([[g so] arg] & s1 & Hrv & Hc0).
    binv Hc0. destruct a.
    destruct (rv_agree _ _ _ _ _ _ _ _ _ _ _ _ HL Ho Er Hrv) as (-> & -> & m0 & Hs0 & Hn0 & Hone).
    destruct (SN.nexpr cf L e U []) as [[[ce U1] E1]|] eqn:Ee; [|discriminate]. inversion Hn; subst. clear Hn.
    destruct (step0_keep _ _ _ _ Hs0) as (Hl0 & Ho0 & Hc0').
    rewrite <- Hl0 in HL. rewrite <- Ho0 in Ho.
    destruct (E_all e Hf Hp _ _ _ _ _ _ _ Ee Hc1 HL Ho) as (-> & -> & B & m1 & Hs1 & Hn1 & Hk).
    apply emit_variable_op_e in Hc0. apply emitted_step in Hc0. apply emit_op_e in Hc. apply emitted_step in Hc.
    destruct (step0_keep _ _ _ _ Hs1) as (_ & _ & Hc1'). destruct (step0_keep _ _ _ _ Hc0) as (_ & _ & Hc2').
    destruct (step0_keep _ _ _ _ Hc) as (_ & _ & Hc3'). rewrite app_nil_r in Hc2', Hc3'.
    repeat split.
    exists ((([] ++ B) ++ vbytes so arg) ++ [opb OpPop]), (((m0 ++ m1) ++ []) ++ []), (k_locals (s_cur st)).
    split; [|split; [|split]].
    + apply step0_step. eapply step0_trans; [eapply step0_trans; [eapply step0_trans|]|]; eassumption.
    + rewrite Hl0 in HL. exact HL.
    + rewrite !app_nil_r. apply Forall_app. auto.
    + intros KS FM He. cbn [app]. rewrite Hc3', Hc2' in He. rewrite <- app_assoc.
      apply crel_app; [now apply Hk|].
      change [SC.set_op r x; SC.IPop] with ([SC.set_op r x] ++ [SC.IPop]).
      apply crel_app; apply crel_one; [|one_simple].
      apply Hone. rewrite Hc1' in He. eapply ext_trans; [apply ext_app|exact He].
  - (* SPrint *)
    cbn [frag0] in Hf. cbn [stmt_repr_ok] in Hp. cbn [ScopeDefs5.nstmt] in Hn.
    destruct (SN.nexpr cf L e U []) as [[[ce U1] E1]|] eqn:Ee; [|discriminate]. inversion Hn; subst. clear Hn.
    cbn [tr_stmt cstmt cexpr FullCompile.cargs] in Hc. binv Hc. destruct a. binv Hc0. destruct a.
    apply bind_inv in Hc0 as (n & s2 & Hca & Hc0). binv Hc0. destruct a.
    binv Hca. destruct a. apply bind_inv in Hca as (n0 & s5 & Hnil & Hca). inversion Hnil; subst n0 s5. clear Hnil.
    inversion Hca; subst n s2. clear Hca.
    destruct (get_print_ok _ _ _ _ HL Ho Hc1) as (B0 & m0 & Hs0 & Hn0 & Hk0).
    destruct (step0_keep _ _ _ _ Hs0) as (Hl0 & Ho0 & Hc0').
    rewrite <- Hl0 in HL. rewrite <- Ho0 in Ho.
    destruct (E_all e Hf Hp _ _ _ _ _ _ _ Ee Hca0 HL Ho) as (-> & -> & B & m1 & Hs1 & Hn1 & Hk).
    unfold check_count in Hc2. cbn in Hc2. inversion Hc2; subst s1. clear Hc2.
    apply emit_op8_e in Hc0. apply emitted_step in Hc0. apply emit_op_e in Hc. apply emitted_step in Hc.
    destruct (step0_keep _ _ _ _ Hs1) as (_ & _ & Hc1'). destruct (step0_keep _ _ _ _ Hc0) as (_ & _ & Hc2').
    destruct (step0_keep _ _ _ _ Hc) as (_ & _ & Hc3'). rewrite app_nil_r in Hc2', Hc3'.
    repeat split.
    exists (((B0 ++ B) ++ [opb OpCall; (0 + 1)%N]) ++ [opb OpPop]), (((m0 ++ m1) ++ []) ++ []), (k_locals (s_cur st)).
    split; [|split; [|split]].
    + apply step0_step. eapply step0_trans; [eapply step0_trans; [eapply step0_trans|]|]; eassumption.
    + rewrite Hl0 in HL. exact HL.
    + rewrite !app_nil_r. apply Forall_app. auto.
    + intros KS FM He. rewrite Hc3', Hc2' in He. rewrite <- !app_assoc.
      change (SC.IGetGlobal SC.GPrint :: ce ++ [SC.ICall 1; SC.IPop]) with ([SC.IGetGlobal SC.GPrint] ++ ce ++ [SC.ICall 1] ++ [SC.IPop]).
      apply crel_app; [|apply crel_app; [now apply Hk|apply crel_app; apply crel_one]].
      * apply Hk0. rewrite Hc1' in He. eapply ext_trans; [apply ext_app|exact He].
      * split; [reflexivity|]. intros r0. reflexivity.
      * one_simple.
  - (* SExpr *)
    cbn [frag0] in Hf. cbn [stmt_repr_ok] in Hp. cbn [ScopeDefs5.nstmt] in Hn.
    destruct (SN.nexpr cf L e U []) as [[[ce U1] E1]|] eqn:Ee; [|discriminate]. inversion Hn; subst. clear Hn.
    cbn [tr_stmt cstmt] in Hc. binv Hc. destruct a.
    eapply expr_then_op; try eassumption. intros; one_simple.
  - (* SBlock *)
    cbn [frag0] in Hf. cbn [stmt_repr_ok] in Hp.
    rewrite ScopeFacts5.nstmt_block in Hn. unfold ScopeDefs5.nblk in Hn.
    destruct (ScopeDefs5.nlist cf b (S d) L U [] [] pos lc) as [[[[[cb L1] U1] E1] fs1]|] eqn:Eb; [|discriminate].
    injection Hn; intros; subst code L' U' E' fs'. clear Hn.
    cbn [tr_stmt cstmt] in Hc. change ((fix go (l : list SL.stmt) : lstmts := match l with [] => LSNil | a :: r => LSCons (tr_stmt a) (go r) end) b) with (tr_list b) in Hc.
    binv Hc. destruct a. binv Hc. destruct a.
    unfold begin_scope in Hc0.
    assert (Hs0 : step st s [] [] (k_locals (s_cur st)) (S d)).
    { eapply upd_step; [exact Hc0|reflexivity|]. cbv beta. unfold rest. cbn. rewrite Hd. reflexivity. }
    destruct (step_fields _ _ _ _ _ _ Hs0) as (Hc0' & Hl0 & Hd0 & _). pose proof Hs0 as (_ & Ho0 & _).
    rewrite <- Hl0 in HL. rewrite <- Ho0 in Ho.
    destruct (L_of_S b H Hf Hp _ _ _ _ _ _ _ _ _ _ _ _ Eb Hc1 HL Ho Hd0) as (-> & -> & -> & B & m1 & kl1 & Hs1 & HL1 & Hn1 & Hk).
    destruct (step_fields _ _ _ _ _ _ Hs1) as (Hc1' & Hl1 & Hd1 & _).
    unfold end_scope in Hc. binv Hc. destruct a. unfold upd in Hc2. inversion Hc2; subst s1. clear Hc2.
    binv Hc. unfold cur in Hc2. inversion Hc2; subst a s1. clear Hc2.
    cbn [s_cur k_scope with_scope] in Hc. rewrite Hd1 in Hc. cbn [pred] in Hc.
    unfold emit_scope_end in Hc. binv Hc. unfold cur in Hc2. inversion Hc2; subst a s1. clear Hc2.
    cbn [s_cur k_locals with_scope] in Hc. rewrite Hl1 in Hc. binv Hc. destruct a.
    apply emit_ops_e in Hc2. unfold upd in Hc. inversion Hc; subst st'. clear Hc.
    destruct (scope_end_agree [] [] d _ _ HL1) as (_ & Hlen).
    repeat split.
    exists (([] ++ B) ++ map opb (scope_end_ops d kl1)), (([] ++ m1) ++ []), (skipn (length (scope_end_ops d kl1)) kl1).
    split; [|split; [|split]].
    + destruct Hc2 as (G1 & G2 & G3). apply step_of_eq; cbn [s_cur s_outer k_code with_locals].
      * rewrite G1. cbn [s_cur k_code with_scope]. destruct Hs1 as (K1 & _). rewrite K1. destruct Hs0 as (K0 & _). rewrite K0.
        now rewrite !app_nil_r, app_assoc.
      * rewrite G3. cbn [s_outer]. destruct Hs1 as (_ & K1 & _). rewrite K1. exact Ho0.
      * destruct Hs1 as (_ & _ & K1). destruct Hs0 as (_ & _ & K0).
        unfold rest in *. cbn in *. injection G2; intros. injection K1; intros. injection K0; intros.
        rewrite !app_nil_r in *. cbn [app]. congruence.
    + rewrite Hlen. now apply Lrel_skipn.
    + now rewrite app_nil_r.
    + intros KS FM He. cbn [app]. cbn [s_cur k_consts with_locals] in He.
      destruct Hc2 as (_ & G2 & _). unfold rest in G2. cbn in G2. injection G2; intros.
      apply crel_app; [apply Hk; congruence|]. now apply scope_end_agree.
  - (* SThrow *)
    cbn [frag0] in Hf. cbn [stmt_repr_ok] in Hp. rewrite ScopeFacts5.nstmt_throw in Hn.
    destruct (SN.nexpr cf L e U []) as [[[ce U1] E1]|] eqn:Ee; [|discriminate]. inversion Hn; subst. clear Hn.
    cbn [tr_stmt cstmt] in Hc. binv Hc. destruct a.
    eapply expr_then_op; try eassumption. intros; one_simple.
Qed.

(* ------------------------------------------------------------------------------------------ *)
(* G. the script: compile_program against compile_scope *)

Lemma frag0_stmt7 : forall s j i t l, frag0 s = true -> ScopeDefs5.stmt7 j i t l s = true.
Proof.
  induction s using ScopeCompN.stmt_nind; intros j0 i0 t0 l0 Hs; cbn [frag0 ScopeDefs5.stmt7] in *; try discriminate; try exact Hs.
  revert Hs. apply ScopeCompN.forallb_Forall_imp. revert H. apply Forall_impl. intros a Ha. apply Ha.
Qed.

Lemma nofun_consts ks : Forall nofun ks -> forall base, dec_consts ks base = Some ([], repeat 0 (length ks)).
Proof.
  induction 1 as [|c r Hc Hr IH]; intros base; [reflexivity|].
  destruct c as [x|s|g]; cbn [dec_consts length repeat]; [rewrite IH; reflexivity|rewrite IH; reflexivity|destruct Hc].
Qed.

Lemma dec_func_unfold a u n code ks l base :
  dec_func (MkFunc a u n code ks l) base =
  match dec_consts ks base with
  | Some (ch, fm) =>
      match dec_code (S (length code)) ks fm code with
      | Some is => Some (ch ++ [SC.mkFunc is (N.to_nat a - 1) (N.to_nat u)])
      | None => None
      end
  | None => None
  end.
Proof. reflexivity. Qed.

(* PARTIAL (see notes/FullBridge-C06.md): the unconditional bridge for the sub-fragment `frag0` of the stage-5 fragment:
   var / assignment / print / expression statements / throw / nested blocks over literals, variables (locals and
   globals, shadowing), `+` and calls.  NOT covered by this proof: if / for / break / continue (back-patched jumps),
   function definitions and closures (the function tree, upvalue resolution), try / catch, return.
   Size side conditions appear as the hypothesis that FullCompile accepts the program (it rejects exactly when a
   limit is exceeded: > 65536 constants, > 255 arguments, ...), not as explicit bounds. *)
Theorem bridge_C06_frag0_partial : forall p funs f,
  SC.c_break_pops_first cf = true ->
  forallb frag0 p = true -> repr_ok p = true ->
  SC.compile_scope cf p = Some funs -> compile_program (tr_prog p) = COk f ->
  decode_tree f = Some funs.
Proof.
  intros p funs f Hcf Hf Hp Hcs Hcp.
  assert (H7 : forallb (ScopeDefs5.stmt7 true false true false) p = true).
  { clear -Hf. induction p as [|a r IH]; [reflexivity|]. cbn [forallb] in *. apply andb_prop in Hf as [H1 H2].
    rewrite (frag0_stmt7 _ _ _ _ _ H1), (IH H2). reflexivity. }
  destruct (ScopeComp5.compile_scope_stage5_shape cf p funs Hcf H7 Hcs) as (code & L' & fs' & Hnl & Hfuns).
  unfold compile_program, tr_prog in Hcp. cbn [fst snd] in Hcp.
  destruct ((cstmts (tr_list p);;; finalise_compiler 0%N) init_state) as [[[f' u] sf]|] eqn:Hrun; [|discriminate].
  inversion Hcp; subst f'. clear Hcp. binv Hrun. destruct a.
  assert (HL0 : Lrel [SC.mkLocal None (Some 0) false] (k_locals (s_cur init_state))).
  { cbn. constructor; [|constructor]. repeat split. }
  assert (HS : Forall S_goal p) by (apply Forall_forall; intros; apply S_all).
  destruct (L_of_S p HS Hf Hp _ _ _ _ _ _ _ _ _ _ _ _ Hnl Hrun0 HL0 eq_refl eq_refl)
    as (_ & _ & -> & B & more & kl' & Hs & HL' & Hnf & Hk).
  destruct (step_fields _ _ _ _ _ _ Hs) as (Hc1 & _ & _ & Hu1 & Hk1 & Ht1 & _ & _ & _ & Ha1).
  pose proof Hs as (Hcode & Hout & _).
  unfold finalise_compiler in Hrun. binv Hrun. destruct a. unfold emit_return in Hrun1. bcur Hrun1.
  rewrite Hk1 in Hrun1. cbn [init_state s_cur new_comp k_kind fk_eqb] in Hrun1.
  binv Hrun1. destruct a. apply emit_op_e in Hrun2. binv Hrun1. destruct a.
  rewrite Ht1 in Hrun3. cbn [init_state s_cur new_comp k_in_try cwhen] in Hrun3.
  destruct Hrun2 as (E1 & E2 & E3).
  unfold cret in Hrun3. inversion Hrun3; subst s2. clear Hrun3.
  apply emit_op_e in Hrun1. destruct Hrun1 as (F1 & F2 & F3).
  rewrite F3, E3, Hout in Hrun. cbn [init_state s_outer] in Hrun. inversion Hrun; subst f u sf. clear Hrun.
  unfold decode_tree, func_of_comp. rewrite dec_func_unfold.
  assert (Hks : k_consts (s_cur s0) = more).
  { unfold rest in F2, E2. injection F2; intros. injection E2; intros. cbn in Hc1. congruence. }
  assert (Hups : k_upvalues (s_cur s0) = []).
  { unfold rest in F2, E2. injection F2; intros. injection E2; intros. cbn in Hu1. congruence. }
  assert (Har : k_arity (s_cur s0) = 1%N).
  { unfold rest in F2, E2. injection F2; intros. injection E2; intros. cbn in Ha1. congruence. }
  rewrite Hks, Hups, Har, (nofun_consts _ Hnf).
  assert (Hcr : crel more (repeat 0 (length more)) (k_code (s_cur s0)) (code ++ [SC.INil; SC.IReturn])).
  { rewrite F1, E1, Hcode. cbn [init_state s_cur new_comp k_code app]. rewrite <- app_assoc.
    apply crel_app; [apply Hk; rewrite Hc1; cbn; apply ext_refl|].
    change [SC.INil; SC.IReturn] with ([SC.INil] ++ [SC.IReturn]). apply crel_app; apply crel_one; one_simple. }
  rewrite (crel_dec _ _ _ _ Hcr) by (pose proof (crel_dec_len _ _ _ _ Hcr); lia).
  rewrite Hfuns. reflexivity.
Qed.

End Bridge.

Print Assumptions bridge_C06_frag0_partial.

(* the corollary: the stage-5 correctness theorem as a statement about the decoded output of the FULL compiler, for every
   program of `frag0` (unconditionally - no per-program check), configuration read off the current sources *)
Theorem C06_full_compile_scope_correct_stage5_partial : forall p funs f fuel st en c,
  forallb frag0 p = true -> repr_ok p = true ->
  SC.compile_scope ScopeRun.the_cfg p = Some funs -> compile_program (tr_prog p) = COk f ->
  SL.exec_list fuel p [] true SL.s_empty = (st, en, c) -> (c = SL.CNorm \/ exists v, c = SL.CThrow v) ->
  exists funs', decode_tree f = Some funs' /\
    exists n, forall k, SC.Gen.run_funs SC.bk_m ScopeRun.the_cfg (n + k) funs' = SL.eval_cells_fuel fuel p.
Proof.
  intros p funs f fuel st en c Hf Hp Hcs Hcp He Hc.
  exists funs. split; [exact (bridge_C06_frag0_partial ScopeRun.the_cfg p funs f eq_refl Hf Hp Hcs Hcp)|].
  apply (ScopeStage5.compile_scope_correct_stage5 ScopeRun.the_cfg p funs fuel st en c eq_refl eq_refl eq_refl); auto.
  clear -Hf. induction p as [|a r IH]; [reflexivity|]. cbn [forallb] in *. apply andb_prop in Hf as [H1 H2].
  rewrite (frag0_stmt7 _ _ _ _ _ H1), (IH H2). reflexivity.
Qed.

Print Assumptions C06_full_compile_scope_correct_stage5_partial.

(* the hypotheses are satisfiable: nested blocks, shadowing, locals popped at scope ends, calls, throw *)
Definition frag0_example : SL.prog :=
  [ SL.SDecl 1 (SL.ELit 5); SL.SDecl 9 (SL.ELit 0);
    SL.SBlock [ SL.SDecl 2 (SL.EAdd (SL.EVar 1) (SL.ELit 1));
                SL.SBlock [ SL.SDecl 1 (SL.EAdd (SL.EVar 2) (SL.EVar 2)); SL.SAssign 2 (SL.EVar 1); SL.SPrint (SL.EVar 1) ];
                SL.SAssign 1 (SL.EAdd (SL.EVar 2) (SL.EVar 1)); SL.SPrint (SL.EVar 2) ];
    SL.SPrint (SL.EVar 1); SL.SExpr (SL.EVar 9); SL.SThrow (SL.EAdd (SL.EVar 1) (SL.ELit 100)); SL.SPrint (SL.ELit 3) ].

Example frag0_example_ok :
  forallb frag0 frag0_example = true /\ repr_ok frag0_example = true /\
  (exists funs f, SC.compile_scope ScopeRun.the_cfg frag0_example = Some funs /\
                  compile_program (tr_prog frag0_example) = COk f /\ decode_tree f = Some funs) /\
  SL.eval_cells frag0_example = "12|12|17#err"%string.
Proof.
  split; [reflexivity|]. split; [vm_compute; reflexivity|]. split; [|vm_compute; reflexivity].
  destruct (SC.compile_scope ScopeRun.the_cfg frag0_example) as [funs|] eqn:Es; [|vm_compute in Es; discriminate].
  destruct (compile_program (tr_prog frag0_example)) as [f|l m] eqn:Ef; [|vm_compute in Ef; discriminate].
  exists funs, f. split; [reflexivity|]. split; [reflexivity|].
  exact (bridge_C06_frag0_partial ScopeRun.the_cfg frag0_example funs f eq_refl eq_refl ltac:(vm_compute; reflexivity) Es Ef).
Qed.
