(* FullCompile-Bridge, item 3 (C06): every literal n < 2^53 of the mini language survives the round trip through the f64
   constant FullCompile stores (tr_num n = Num.f64_of_Z n = binary_normalize 53 1024 n 0 false) and the decoder's
   un_num: lit_ok n = true.  Removes the literal part of the side condition repr_ok of the C06 bridge theorems.
   (requested by the owner of FullBridgeC06*.v; nothing there depends on this proof) *)
From Coq Require Import ZArith NArith Zpower Lia Bool.
From Coq Require Import Floats.SpecFloat.
From YV Require Import Num FullBridgeC06Defs.
Local Open Scope Z_scope.

Lemma digits2_shift k m : digits2_pos (shift_pos k m) = (digits2_pos m + k)%positive.
Proof.
  unfold shift_pos. induction k using Pos.peano_ind.
  - simpl. lia.
  - rewrite Pos.iter_succ. simpl. rewrite IHk. lia.
Qed.

Lemma shift_pos_N k m : Npos (shift_pos k m) = (Npos m * 2 ^ Npos k)%N.
Proof.
  unfold shift_pos. induction k using Pos.peano_ind.
  - simpl. lia.
  - rewrite Pos.iter_succ. change (N.pos (Pos.iter xO m k)~0) with (2 * N.pos (Pos.iter xO m k))%N.
    rewrite IHk. replace (N.pos (Pos.succ k)) with (N.succ (N.pos k)) by lia. rewrite N.pow_succ_r'. lia.
Qed.

Lemma digits2_lower m : 2 ^ (Zpos (digits2_pos m) - 1) <= Zpos m.
Proof.
  induction m; cbn [digits2_pos].
  - replace (Z.pos (Pos.succ (digits2_pos m)) - 1) with (Z.succ (Zpos (digits2_pos m) - 1)) by lia.
    rewrite Z.pow_succ_r by lia. lia.
  - replace (Z.pos (Pos.succ (digits2_pos m)) - 1) with (Z.succ (Zpos (digits2_pos m) - 1)) by lia.
    rewrite Z.pow_succ_r by lia. lia.
  - simpl. lia.
Qed.

Lemma digits2_le53 m : Zpos m < 2 ^ 53 -> Zpos (digits2_pos m) <= 53.
Proof.
  intros H. destruct (Z_le_gt_dec (Zpos (digits2_pos m)) 53) as [|G]; auto. exfalso.
  pose proof (digits2_lower m) as L.
  assert (2 ^ 53 <= 2 ^ (Zpos (digits2_pos m) - 1)) by (apply Z.pow_le_mono_r; lia). lia.
Qed.

(* a 53-digit mantissa with an exponent in range is already rounded *)
Lemma bra_exact mz ez : digits2_pos mz = 53%positive -> -1074 <= ez <= 971 ->
  binary_round_aux prec emax false (Zpos mz) ez loc_Exact = S754_finite false mz ez.
Proof.
  intros Hd He. unfold binary_round_aux, shr_fexp, Zdigits2, fexp, emin, prec, emax. rewrite Hd.
  replace (Z.max (53 + ez - 53) (3 - 1024 - 53) - ez) with 0 by lia.
  cbn [SpecFloat.shr shr_record_of_loc shr_m shr_r shr_s loc_of_shr_record round_nearest_even Zdigits2]. rewrite Hd.
  replace (Z.max (53 + ez - 53) (3 - 1024 - 53) - ez) with 0 by lia.
  cbn [SpecFloat.shr shr_record_of_loc shr_m shr_r shr_s]. replace (Zle_bool ez (1024 - 53)) with true by (symmetry; apply Z.leb_le; lia).
  reflexivity.
Qed.

Theorem lit_ok_small : forall n : N, (n < 2 ^ 53)%N -> FullBridgeC06Defs.lit_ok n = true.
Proof.
  intros [|m] Hn; [reflexivity|].
  unfold lit_ok, tr_num, f64_of_Z. cbn [Z.of_N binary_normalize]. unfold binary_round.
  assert (Hm : Zpos m < 2 ^ 53) by (change (2 ^ 53) with (Z.of_N (2 ^ 53)); lia).
  pose proof (digits2_le53 m Hm) as Hd.
  unfold fexp, emin, prec, emax, shl_align.
  replace (Z.max (Z.pos (digits2_pos m) + 0 - 53) (3 - 1024 - 53) - 0) with (Z.pos (digits2_pos m) - 53) by lia.
  replace (Z.max (Z.pos (digits2_pos m) + 0 - 53) (3 - 1024 - 53)) with (Z.pos (digits2_pos m) - 53) by lia.
  destruct (Z.pos (digits2_pos m) - 53) as [|p|k] eqn:E.
  - fold prec emax. rewrite bra_exact; [|lia|lia]. cbn [un_num]. apply N.eqb_refl.
  - lia.
  - fold prec emax. rewrite bra_exact; [| |lia].
    + cbn [un_num]. rewrite shift_pos_N. rewrite N.mod_mul by (apply N.pow_nonzero; lia). cbn [N.eqb].
      rewrite N.div_mul by (apply N.pow_nonzero; lia). apply N.eqb_refl.
    + rewrite digits2_shift. lia.
Qed.
Print Assumptions lit_ok_small.
