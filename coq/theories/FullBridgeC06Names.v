(* FullBridge C06: the name translation `tr_name` (x |-> "v<decimal x>") is read back exactly by `un_name`,
   for every x; hence `tr_name` is injective.  Proofs only; definitions in FullBridgeC06Defs.v. *)
From Coq Require Import Strings.Byte Strings.String Strings.Ascii.
From Coq Require Import List NArith Bool Arith Lia.
From YV Require Import Show Utf8 FullCompile FullBridgeC06Defs.
From YV Require ScopeLang ScopeComp.
Import ListNotations.
Local Open Scope list_scope.

Local Notation lbs := list_byte_of_string.

Lemma lbs_String : forall c s, lbs (String c s) = byte_of_ascii c :: lbs s.
Proof. reflexivity. Qed.

Lemma digit_of_hex : forall d, (d < 10)%N -> digit_of (byte_of_ascii (hex_digit d)) = Some d.
Proof.
  intros d H.
  assert (C : (d = 0 \/ d = 1 \/ d = 2 \/ d = 3 \/ d = 4 \/ d = 5 \/ d = 6 \/ d = 7 \/ d = 8 \/ d = 9)%N) by lia.
  repeat (destruct C as [C | C]; [subst d; vm_compute; reflexivity | ]).
  subst d; vm_compute; reflexivity.
Qed.

Lemma un_digits_cons_hex : forall d r a, (d < 10)%N ->
  un_digits (byte_of_ascii (hex_digit d) :: r) a = un_digits r (a * 10 + d)%N.
Proof.
  intros d r a H. change (un_digits (byte_of_ascii (hex_digit d) :: r) a)
    with (match digit_of (byte_of_ascii (hex_digit d)) with
          | Some d' => un_digits r (a * 10 + d')%N | None => None end).
  rewrite (digit_of_hex d H). reflexivity.
Qed.

Lemma show_N_aux_digits : forall f n acc, (n < 2 ^ N.of_nat f)%N ->
  exists ds k, lbs (show_N_aux (S f) n acc) = ds ++ lbs acc /\ ds <> [] /\
    forall r a, un_digits (ds ++ r) a = un_digits r (a * k + n)%N.
Proof.
  induction f as [| f IH]; intros n acc Hn.
  - change (2 ^ N.of_nat 0)%N with 1%N in Hn. assert (n = 0%N) by lia. subst n.
    exists [byte_of_ascii (hex_digit 0)], 10%N. split; [reflexivity |]. split; [discriminate |].
    intros r a. change ([byte_of_ascii (hex_digit 0)] ++ r) with (byte_of_ascii (hex_digit 0) :: r).
    apply un_digits_cons_hex. lia.
  - assert (Hd : (n mod 10 < 10)%N) by (apply N.mod_lt; lia).
    assert (Hdm : n = (10 * (n / 10) + n mod 10)%N) by (apply N.div_mod; lia).
    change (show_N_aux (S (S f)) n acc) with
      (if N.eqb (n / 10) 0 then String (hex_digit (n mod 10)) acc
       else show_N_aux (S f) (n / 10) (String (hex_digit (n mod 10)) acc)).
    destruct (N.eqb (n / 10) 0) eqn:E.
    + apply N.eqb_eq in E.
      exists [byte_of_ascii (hex_digit (n mod 10))], 10%N. split; [reflexivity |]. split; [discriminate |].
      intros r a. change ([byte_of_ascii (hex_digit (n mod 10))] ++ r) with (byte_of_ascii (hex_digit (n mod 10)) :: r).
      rewrite (un_digits_cons_hex _ r a Hd). f_equal. lia.
    + assert (Hq : (n / 10 < 2 ^ N.of_nat f)%N).
      { apply N.div_lt_upper_bound; [lia |].
        rewrite Nat2N.inj_succ, N.pow_succ_r' in Hn. lia. }
      destruct (IH (n / 10)%N (String (hex_digit (n mod 10)) acc) Hq) as (ds & k & E1 & E2 & E3).
      exists (ds ++ [byte_of_ascii (hex_digit (n mod 10))]), (k * 10)%N.
      split; [| split].
      * rewrite E1, lbs_String, <- app_assoc. reflexivity.
      * intro H. apply app_eq_nil in H. destruct H as [_ H]. discriminate H.
      * intros r a. rewrite <- app_assoc.
        change ([byte_of_ascii (hex_digit (n mod 10))] ++ r) with (byte_of_ascii (hex_digit (n mod 10)) :: r).
        rewrite E3, (un_digits_cons_hex _ r _ Hd). f_equal. lia.
Qed.

Lemma show_N_digits : forall n, exists d ds,
  lbs (show_N n) = d :: ds /\ un_digits (d :: ds) 0%N = Some n.
Proof.
  intros n. unfold show_N.
  assert (Hn : (n < 2 ^ N.of_nat (N.to_nat (N.size n)))%N) by (rewrite N2Nat.id; apply N.size_gt).
  destruct (show_N_aux_digits _ n EmptyString Hn) as (ds & k & E1 & E2 & E3).
  change (lbs EmptyString) with (@nil byte) in E1. rewrite app_nil_r in E1.
  destruct ds as [| d ds']; [congruence |].
  exists d, ds'. split; [exact E1 |].
  specialize (E3 [] 0%N). rewrite app_nil_r in E3. rewrite E3. reflexivity.
Qed.

Lemma tr_name_shape : forall x, tr_name x = x76 :: lbs (show_N (N.of_nat x)).
Proof. reflexivity. Qed.

Lemma un_name_v : forall d ds,
  un_name (x76 :: d :: ds) =
  match un_digits (d :: ds) 0%N with Some n => Some (SC.GUser (N.to_nat n)) | None => None end.
Proof. reflexivity. Qed.

Lemma un_name_tr_name : forall x, un_name (tr_name x) = Some (SC.GUser x).
Proof.
  intros x. rewrite tr_name_shape.
  destruct (show_N_digits (N.of_nat x)) as (d & ds & E1 & E2).
  rewrite E1, un_name_v, E2, Nat2N.id. reflexivity.
Qed.

Theorem name_ok_all : forall x : nat, FullBridgeC06Defs.name_ok x = true.
Proof.
  intros x. unfold name_ok. rewrite un_name_tr_name. apply Nat.eqb_refl.
Qed.

Theorem tr_name_inj : forall x y, FullBridgeC06Defs.tr_name x = FullBridgeC06Defs.tr_name y -> x = y.
Proof.
  intros x y H.
  pose proof (un_name_tr_name x) as Hx. rewrite H, un_name_tr_name in Hx.
  injection Hx as Hx. symmetry. exact Hx.
Qed.

Print Assumptions name_ok_all.
Print Assumptions tr_name_inj.
