(* FullCompile-Bridge, item 3 (C06): the side condition `repr_ok p` of the bridge theorems follows from an explicit bound:
   every number literal of the program (and every `for` bound / vector index) is below 2^53.  Names need no condition
   (FullBridgeC06Names.name_ok_all); literals: FullBridgeC06Lit.lit_ok_small. *)
From Coq Require Import List NArith Bool Arith Lia.
From YV Require Import FullBridgeC06Defs FullBridgeC06Names FullBridgeC06Lit FullBridgeC06Ind.
From YV Require ScopeLang ScopeCompN.
Import ListNotations.

Definition small (n : N) : bool := N.ltb n (2 ^ 53).

Fixpoint expr_small (e : SL.expr) : bool :=
  match e with
  | SL.ELit n => small n
  | SL.EVar _ | SL.EVecNew => true
  | SL.EAdd a b => expr_small a && expr_small b
  | SL.ECall _ args => forallb expr_small args
  | SL.ECallIdx _ k args => small (N.of_nat k) && forallb expr_small args
  end.

Fixpoint stmt_small (s : SL.stmt) : bool :=
  match s with
  | SL.SDecl _ e | SL.SAssign _ e | SL.SVPush _ e | SL.SPrint e | SL.SExpr e | SL.SReturn e | SL.SThrow e => expr_small e
  | SL.SBlock b | SL.SFiber b | SL.SFun _ _ b | SL.SLam _ _ b => forallb stmt_small b
  | SL.SLoop _ n b => small (N.of_nat n) && forallb stmt_small b
  | SL.SIf a c t e => expr_small a && expr_small c && forallb stmt_small t && forallb stmt_small e
  | SL.SBreak | SL.SContinue => true
  | SL.STry b _ h => forallb stmt_small b && forallb stmt_small h
  end.

Lemma small_lit n : small n = true -> lit_ok n = true.
Proof. unfold small. intros H. apply N.ltb_lt in H. now apply lit_ok_small. Qed.

Lemma forallb_imp_F {A} (f g : A -> bool) l : Forall (fun a => f a = true -> g a = true) l -> forallb f l = true -> forallb g l = true.
Proof.
  induction 1 as [|a r Ha Hr IH]; intros H; [reflexivity|]. cbn in *. apply andb_prop in H as [H1 H2].
  rewrite (Ha H1), (IH H2). reflexivity.
Qed.

Lemma forallb_all {A} (f : A -> bool) l : (forall a, f a = true) -> forallb f l = true.
Proof. intros H. induction l as [|a r IH]; [reflexivity|]. cbn. now rewrite H, IH. Qed.

Lemma expr_repr_small : forall e, expr_small e = true -> expr_repr_ok e = true.
Proof.
  induction e using expr_nind; cbn [expr_small expr_repr_ok]; intros Hs.
  - now apply small_lit.
  - apply name_ok_all.
  - apply andb_prop in Hs as [H1 H2]. now rewrite IHe1, IHe2.
  - rewrite name_ok_all. cbn [andb]. revert Hs. now apply forallb_imp_F.
  - reflexivity.
  - apply andb_prop in Hs as [H1 H2]. rewrite name_ok_all, (small_lit _ H1). cbn [andb]. revert H2. now apply forallb_imp_F.
Qed.

Lemma stmt_repr_small : forall s, stmt_small s = true -> stmt_repr_ok s = true.
Proof.
  induction s using ScopeCompN.stmt_nind; cbn [stmt_small stmt_repr_ok]; intros Hs;
    rewrite ?name_ok_all; cbn [andb]; try (now apply expr_repr_small); try reflexivity;
    try (revert Hs; now apply forallb_imp_F).
  - rewrite (forallb_all _ ps name_ok_all). cbn [andb]. revert Hs. now apply forallb_imp_F.
  - rewrite (forallb_all _ ps name_ok_all). cbn [andb]. revert Hs. now apply forallb_imp_F.
  - apply andb_prop in Hs as [H1 H2]. rewrite (small_lit 0 eq_refl), (small_lit _ H1). cbn [andb]. revert H2. now apply forallb_imp_F.
  - apply andb_prop in Hs as [Hs H4]. apply andb_prop in Hs as [Hs H3]. apply andb_prop in Hs as [H1 H2].
    rewrite (expr_repr_small _ H1), (expr_repr_small _ H2). cbn [andb].
    rewrite (forallb_imp_F _ _ _ H H3), (forallb_imp_F _ _ _ H0 H4). reflexivity.
  - apply andb_prop in Hs as [H1 H2]. rewrite (forallb_imp_F _ _ _ H H1), (forallb_imp_F _ _ _ H0 H2). reflexivity.
Qed.

(* literals below 2^53 are enough *)
Theorem repr_ok_small : forall p, forallb stmt_small p = true -> repr_ok p = true.
Proof. intros p. unfold repr_ok. apply forallb_imp_F. apply Forall_forall. intros s _. apply stmt_repr_small. Qed.

Print Assumptions repr_ok_small.
