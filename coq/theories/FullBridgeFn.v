(* FullBridge, item 2: FullCompile's function TREE agrees with FnCompile's (C05, function fragment, no capture).
   Technique of FullBridgeC05.v (code with holes over the FINAL byte string of each function), redone for
   FnCompile's instruction type xinstr (XI i | XClosure f ups) and its incremental assembler xasm_from; a nested
   function is compiled against a fresh [all'] = its own code, the induction hypothesis for a body is a statement
   about EVERY [all]. *)
From Coq Require Import Strings.Byte Strings.String.
From Coq Require Import List NArith ZArith Bool Arith Lia.
From Coq Require Import Floats.SpecFloat.
From YV Require Import Show Utf8 Num Ast Bytecode ParseLoc FullCompile FullCompileRun FullCompileProofs FullBridgeBase.
From YV Require CompileExpr CompileExprProofs FnCompile FnProofs.
From YV Require Import FullBridgeFnDefs.
Import ListNotations.
Local Open Scope nat_scope.
Local Open Scope list_scope.
Local Open Scope comp_scope.

Module CP := CompileExprProofs.
Module FP := FnProofs.

(* ------------------------------------------------------------------ *)
(* lists                                                                *)

Lemma firstn_plus {A} (l : list A) : forall i n, firstn (i + n) l = firstn i l ++ firstn n (skipn i l).
Proof.
  induction l as [|x r IH]; intros [|i] n; simpl; auto.
  - rewrite firstn_nil. reflexivity.
  - rewrite IH. reflexivity.
Qed.

Lemma skipn_plus {A} (l : list A) : forall i n, skipn (i + n) l = skipn n (skipn i l).
Proof.
  induction l as [|x r IH]; intros [|i] n; simpl; auto.
  rewrite skipn_nil. reflexivity.
Qed.

Lemma firstn_len_app {A} (a b : list A) : firstn (length a) (a ++ b) = a.
Proof. induction a; simpl; auto. f_equal. auto. Qed.
Lemma skipn_len_app {A} (a b : list A) : skipn (length a) (a ++ b) = b.
Proof. induction a; simpl; auto. Qed.

(* ------------------------------------------------------------------ *)
(* the tree relation                                                    *)

Inductive tree_rel : func -> FC.fobj -> Prop :=
| TR g f :
    f_code g = fst (FC.xassemble f) ->
    Forall2 const_rel (f_consts g) (snd (FC.xassemble f)) ->
    f_arity g = FC.fo_arity f ->
    f_upvalues g = N.of_nat (FC.fo_nups f) ->
    f_name g = FC.fo_name f ->
    tree_rel g f
with const_rel : const -> FC.xconst -> Prop :=
| CRc c : const_rel (conv c) (FC.XC c)
| CRf g f : tree_rel g f -> const_rel (KFun g) (FC.XF f).

Definition xplain (c : FC.xconst) : Prop := match c with FC.XC c => cplain c | FC.XF _ => True end.

(* ------------------------------------------------------------------ *)
(* the assembler of FnCompile, positionally                             *)

Definition xtbl_after (tbl : list FC.xconst) (l : list FC.xinstr) : list FC.xconst := fold_left FC.xtable_step l tbl.

Lemma xtbl_after_app tbl a b : xtbl_after tbl (a ++ b) = xtbl_after (xtbl_after tbl a) b.
Proof. unfold xtbl_after. apply fold_left_app. Qed.

Lemma xcode_size_app a b : FC.xcode_size (a ++ b) = FC.xcode_size a + FC.xcode_size b.
Proof. induction a; simpl; auto. rewrite IHa. lia. Qed.

Lemma flat_desc_length (ups : list (bool * N)) :
  length (flat_map (fun u : bool * N => [if fst u then 1%N else 0%N; snd u]) ups) = 2 * length ups.
Proof. induction ups; simpl; auto. rewrite IHups. lia. Qed.

Lemma xasm_instr_length all T i ins : length (FC.xasm_instr all T i ins) = FC.xisize ins.
Proof.
  destruct ins as [j|f ups].
  - destruct j; simpl; auto; unfold FC.xidx_bytes; destruct (FC.xconst_index T _); reflexivity.
  - cbn [FC.xasm_instr FC.xisize length]. rewrite app_length, flat_desc_length. reflexivity.
Qed.

Lemma xasm_from_snd all l : forall tbl k, snd (FC.xasm_from all tbl k l) = xtbl_after tbl l.
Proof.
  induction l as [|a l IH]; intros tbl k; simpl; [reflexivity|].
  destruct (FC.xasm_from all (FC.xtable_step tbl a) (S k) l) eqn:E. simpl.
  rewrite <- (IH (FC.xtable_step tbl a) (S k)), E. reflexivity.
Qed.

Lemma xasm_from_cons all tbl k ins r :
  fst (FC.xasm_from all tbl k (ins :: r)) =
  FC.xasm_instr all (FC.xtable_step tbl ins) k ins ++ fst (FC.xasm_from all (FC.xtable_step tbl ins) (S k) r).
Proof. simpl. destruct (FC.xasm_from all (FC.xtable_step tbl ins) (S k) r). reflexivity. Qed.

Lemma xasm_from_app all l1 : forall tbl k l2,
  fst (FC.xasm_from all tbl k (l1 ++ l2)) =
  fst (FC.xasm_from all tbl k l1) ++ fst (FC.xasm_from all (xtbl_after tbl l1) (k + length l1) l2).
Proof.
  induction l1 as [|a l1 IH]; intros tbl k l2.
  - simpl. rewrite Nat.add_0_r. reflexivity.
  - change ((a :: l1) ++ l2) with (a :: (l1 ++ l2)). rewrite !xasm_from_cons, IH, <- app_assoc.
    cbn [length xtbl_after fold_left]. replace (S k + length l1) with (k + S (length l1)) by lia. reflexivity.
Qed.

Lemma xasm_from_length all l : forall tbl k, length (fst (FC.xasm_from all tbl k l)) = FC.xcode_size l.
Proof.
  induction l as [|a l IH]; intros tbl k; [reflexivity|].
  rewrite xasm_from_cons, app_length, xasm_instr_length, IH. reflexivity.
Qed.

(* constant tables *)
Lemma xconst_index_lt tbl c i : FC.xconst_index tbl c = Some i -> i < length tbl.
Proof.
  revert i. induction tbl as [|d tbl IH]; simpl; intros i E. discriminate.
  destruct d as [d|f].
  - destruct (CE.const_eqb c d). inversion E; lia.
    destruct (FC.xconst_index tbl c); inversion E; subst. specialize (IH _ eq_refl). lia.
  - destruct (FC.xconst_index tbl c); inversion E; subst. specialize (IH _ eq_refl). lia.
Qed.

Lemma xconst_index_app tbl m c k : FC.xconst_index tbl c = Some k -> FC.xconst_index (tbl ++ m) c = Some k.
Proof.
  revert k. induction tbl as [|d tbl IH]; simpl; intros k E. discriminate.
  destruct d as [d|f].
  - destruct (CE.const_eqb c d); auto.
    destruct (FC.xconst_index tbl c); inversion E; subst. rewrite (IH _ eq_refl). reflexivity.
  - destruct (FC.xconst_index tbl c); inversion E; subst. rewrite (IH _ eq_refl). reflexivity.
Qed.

Lemma xconst_index_snoc tbl c : cplain c -> FC.xconst_index tbl c = None ->
  FC.xconst_index (tbl ++ [FC.XC c]) c = Some (length tbl).
Proof.
  intros Hc. induction tbl as [|d tbl IH]; simpl; intros E.
  - rewrite (ce_const_eqb_refl c Hc). reflexivity.
  - destruct d as [d|f].
    + destruct (CE.const_eqb c d); [discriminate|].
      destruct (FC.xconst_index tbl c); [discriminate|]. rewrite (IH eq_refl). reflexivity.
    + destruct (FC.xconst_index tbl c); [discriminate|]. rewrite (IH eq_refl). reflexivity.
Qed.

Lemma xtable_step_prefix tbl ins : exists m, FC.xtable_step tbl ins = tbl ++ m.
Proof.
  destruct ins as [j|f ups]; simpl.
  - destruct (CE.instr_const j); [|exists []; rewrite app_nil_r; reflexivity].
    unfold FC.xadd_constant. destruct (FC.xconst_index tbl c); [exists []; rewrite app_nil_r; reflexivity|eauto].
  - eauto.
Qed.

Lemma xtbl_after_prefix l : forall tbl, exists m, xtbl_after tbl l = tbl ++ m.
Proof.
  induction l as [|a l IH]; intros tbl; simpl.
  - exists []. rewrite app_nil_r. reflexivity.
  - destruct (xtable_step_prefix tbl a) as [m1 E1]. destruct (IH (FC.xtable_step tbl a)) as [m2 E2].
    exists (m1 ++ m2). unfold xtbl_after in *. rewrite E2, E1, app_assoc. reflexivity.
Qed.

Lemma const_index_fun tbl g : const_index tbl (KFun g) = None.
Proof.
  induction tbl as [|d tbl IH]; simpl; auto.
  replace (const_eqb d (KFun g)) with false by (destruct d; reflexivity). rewrite IH. reflexivity.
Qed.

Lemma const_index_xagree K tbl c :
  Forall2 const_rel K tbl -> Forall xplain tbl -> cplain c -> const_index K (conv c) = FC.xconst_index tbl c.
Proof.
  intros HR. induction HR as [|k x K tbl Hkx HR IH]; intros HP Hc; [reflexivity|].
  inversion HP as [|? ? Px HP']; subst. cbn [const_index FC.xconst_index].
  destruct Hkx as [d|g f Hgf].
  - cbn [xplain] in Px. rewrite (const_eqb_agree d c Px Hc). destruct (CE.const_eqb c d); auto.
    rewrite (IH HP' Hc). reflexivity.
  - replace (const_eqb (KFun g) (conv c)) with false by (destruct c; reflexivity).
    rewrite (IH HP' Hc). reflexivity.
Qed.

Lemma Forall2_length' {A B} (R : A -> B -> Prop) l l' : Forall2 R l l' -> length l = length l'.
Proof. induction 1; simpl; auto. Qed.

(* ================================================================== *)
Definition afits (all : list FC.xinstr) : Prop :=
  (N.of_nat (FC.xcode_size all) < 65536)%N /\ (N.of_nat (length (xtbl_after [] all)) <= 65536)%N.

Section Pos.
Set Default Proof Using "All".

Variable all : list FC.xinstr.
Hypothesis Hfits : afits all.

Definition X : list N := fst (FC.xasm_from all [] 0 all).
Definition T : list FC.xconst := xtbl_after [] all.
Definition off (i : nat) : nat := FC.xcode_size (firstn i all).
Definition tblat (i : nat) : list FC.xconst := xtbl_after [] (firstn i all).
Definition at_ (i : nat) (is : list FC.xinstr) : Prop := exists post, skipn i all = is ++ post.

(* THE RELOCATION LEMMA: the byte distance between two instruction indices *)
Lemma off_plus i n : off (i + n) = off i + FC.xcode_size (firstn n (skipn i all)).
Proof. unfold off. rewrite firstn_plus, xcode_size_app. reflexivity. Qed.

Lemma off_mono i j : i <= j -> off i <= off j.
Proof. intros H. replace j with (i + (j - i)) by lia. rewrite off_plus. lia. Qed.

Lemma off_le_all i : off i <= FC.xcode_size all.
Proof. unfold off. rewrite <- (firstn_skipn i all) at 2. rewrite xcode_size_app. lia. Qed.

Lemma at_nil i : at_ i [].
Proof. exists (skipn i all). reflexivity. Qed.

Lemma at_app i a b : at_ i (a ++ b) -> at_ i a /\ at_ (i + length a) b.
Proof.
  intros [post H]. split.
  - exists (b ++ post). rewrite H, app_assoc. reflexivity.
  - exists post. rewrite skipn_plus, H, <- app_assoc, skipn_len_app. reflexivity.
Qed.

Lemma at_cons i x r : at_ i (x :: r) -> nth_error all i = Some x /\ at_ (S i) r.
Proof.
  intros H. change (x :: r) with ([x] ++ r) in H. apply at_app in H. destruct H as [[post H1] H2].
  split.
  - rewrite <- (firstn_skipn i all), H1.
    destruct (Nat.le_gt_cases i (length all)) as [Hle|Hgt].
    + rewrite nth_error_app2; rewrite firstn_length, Nat.min_l by lia; [|lia]. rewrite Nat.sub_diag. reflexivity.
    + rewrite skipn_all2 in H1 by lia. discriminate.
  - simpl in H2. replace (S i) with (i + 1) by lia. exact H2.
Qed.

Lemma at_firstn i is : at_ i is -> firstn (i + length is) all = firstn i all ++ is.
Proof. intros [post H]. rewrite firstn_plus, H, firstn_len_app. reflexivity. Qed.

Lemma off_at i is : at_ i is -> off (i + length is) = off i + FC.xcode_size is.
Proof. intros H. unfold off. rewrite (at_firstn _ _ H), xcode_size_app. reflexivity. Qed.

Lemma tblat_at i is : at_ i is -> tblat (i + length is) = xtbl_after (tblat i) is.
Proof. intros H. unfold tblat. rewrite (at_firstn _ _ H), xtbl_after_app. reflexivity. Qed.

Lemma at_one i ins : nth_error all i = Some ins -> at_ i [ins].
Proof.
  intros H. destruct (nth_error_split _ _ H) as (l1 & l2 & E & L). exists l2.
  rewrite E, <- L, skipn_len_app. reflexivity.
Qed.

Lemma off_S i ins : nth_error all i = Some ins -> off (S i) = off i + FC.xisize ins.
Proof.
  intros H. replace (S i) with (i + length [ins]) by (simpl; lia). rewrite (off_at _ _ (at_one _ _ H)). simpl. lia.
Qed.

Lemma tblat_S i ins : nth_error all i = Some ins -> tblat (S i) = FC.xtable_step (tblat i) ins.
Proof.
  intros H. replace (S i) with (i + length [ins]) by (simpl; lia). rewrite (tblat_at _ _ (at_one _ _ H)). reflexivity.
Qed.

Lemma tblat_all : tblat (length all) = T.
Proof. unfold tblat, T. rewrite firstn_all. reflexivity. Qed.

Lemma off_all : off (length all) = FC.xcode_size all.
Proof. unfold off. rewrite firstn_all. reflexivity. Qed.

Lemma X_length : length X = FC.xcode_size all.
Proof. unfold X. apply xasm_from_length. Qed.

(* the bytes of instruction i use the table as it is right after that instruction *)
Lemma X_at i ins : nth_error all i = Some ins -> has_at X (off i) (FC.xasm_instr all (tblat (S i)) i ins).
Proof.
  intros H. rewrite (tblat_S _ _ H). destruct (nth_error_split _ _ H) as (l1 & l2 & E & L).
  assert (EX : X = fst (FC.xasm_from all [] 0 (l1 ++ ins :: l2))) by (unfold X; rewrite <- E; reflexivity).
  rewrite xasm_from_app, xasm_from_cons in EX. simpl in EX. rewrite L in EX.
  assert (Et : tblat i = xtbl_after [] l1).
  { unfold tblat. rewrite E, <- L, firstn_len_app. reflexivity. }
  rewrite Et. eexists _, _. split; [exact EX|]. rewrite xasm_from_length. unfold off.
  rewrite E, <- L, firstn_len_app. reflexivity.
Qed.

Lemma T_prefix i : exists m, T = tblat i ++ m.
Proof.
  unfold T, tblat.
  assert (E : xtbl_after [] all = xtbl_after [] (firstn i all ++ skipn i all)) by (rewrite firstn_skipn; reflexivity).
  rewrite E, xtbl_after_app. apply xtbl_after_prefix.
Qed.

Lemma tblat_bound i : (N.of_nat (length (tblat i)) <= 65536)%N.
Proof. destruct (T_prefix i) as [m E]. pose proof (proj2 Hfits) as B. fold T in B. rewrite E, app_length in B. lia. Qed.

Lemma tblat_index_mono i j c k : i <= j -> FC.xconst_index (tblat i) c = Some k -> FC.xconst_index (tblat j) c = Some k.
Proof.
  intros Hij H. unfold tblat in *. replace j with (i + (j - i)) by lia.
  rewrite firstn_plus, xtbl_after_app.
  destruct (xtbl_after_prefix (firstn (j - i) (skipn i all)) (xtbl_after [] (firstn i all))) as [m E].
  rewrite E. apply xconst_index_app. exact H.
Qed.

(* ---------- the state invariant ---------- *)
Definition cpos (s : cstate) (i : nat) : Prop := length (scode s) = off i.
Definition kpos (s : cstate) (i : nat) : Prop :=
  Forall2 const_rel (k_consts (s_cur s)) (tblat i) /\ Forall xplain (tblat i).
Definition St (s : cstate) (i : nat) (P : list nat) : Prop :=
  cpos s i /\ kpos s i /\ agree P (scode s) X.

Lemma kpos_none s i ins : nth_error all i = Some (FC.XI ins) -> CE.instr_const ins = None -> kpos s i -> kpos s (S i).
Proof.
  intros H Hn [K1 K2]. unfold kpos. rewrite (tblat_S _ _ H). cbn [FC.xtable_step]. rewrite Hn. auto.
Qed.

Lemma kpos_known s i ins c k :
  nth_error all i = Some (FC.XI ins) -> CE.instr_const ins = Some c -> FC.xconst_index (tblat i) c = Some k ->
  kpos s i -> kpos s (S i).
Proof.
  intros H Hc Hk [K1 K2]. unfold kpos. rewrite (tblat_S _ _ H). cbn [FC.xtable_step]. rewrite Hc.
  unfold FC.xadd_constant. rewrite Hk. auto.
Qed.

(* one instruction's bytes appended *)
Lemma St_step s s' i P ins :
  nth_error all i = Some ins -> cpos s i -> agree P (scode s) X -> kpos s (S i) ->
  ext s s' (FC.xasm_instr all (tblat (S i)) i ins) -> St s' (S i) P /\ rest s' = rest s.
Proof.
  intros H Hc Ha [K1 K2] (R & K & C). split; [|exact R]. unfold St, cpos, kpos. rewrite C, K.
  split; [|split; [split; assumption|]].
  - rewrite app_length, xasm_instr_length, (off_S _ _ H). unfold cpos in Hc. lia.
  - apply agree_app; auto. unfold cpos in Hc. rewrite Hc. apply X_at. exact H.
Qed.

Lemma op_step s i P o l :
  nth_error all i = Some (FC.XI (CE.IOp o)) -> St s i P ->
  exists s', emit_op o l s = COk (tt, s') /\ St s' (S i) P /\ rest s' = rest s.
Proof.
  intros H (Hc & Hk & Ha). destruct (emit_op_ext o l s) as (s' & E & Hx). exists s'. split; auto.
  eapply St_step; eauto. eapply kpos_none; eauto.
Qed.

Lemma op8_step s i P o n l :
  nth_error all i = Some (FC.XI (CE.IOp8 o n)) -> St s i P ->
  exists s', emit_op8 o n l s = COk (tt, s') /\ St s' (S i) P /\ rest s' = rest s.
Proof.
  intros H (Hc & Hk & Ha). destruct (emit_op8_ext o n l s) as (s' & E & Hx). exists s'. split; auto.
  eapply St_step; eauto. eapply kpos_none; eauto.
Qed.

(* make_constant = the table step of the instruction at index i *)
Lemma mkconst_step s i ins c :
  nth_error all i = Some (FC.XI ins) -> CE.instr_const ins = Some c -> cplain c -> kpos s i ->
  exists g s', make_constant (conv c) s = COk (g, s') /\ rest s' = rest s /\ scode s' = scode s /\
               kpos s' (S i) /\ FC.xconst_index (tblat (S i)) c = Some (N.to_nat g).
Proof.
  intros H Hc Hp [K1 K2]. unfold make_constant, cbind, cur.
  rewrite (const_index_xagree _ _ _ K1 K2 Hp).
  pose proof (tblat_bound (S i)) as HB. rewrite (tblat_S _ _ H) in HB. unfold kpos. rewrite (tblat_S _ _ H).
  cbn [FC.xtable_step] in *. rewrite Hc in *. unfold FC.xadd_constant in *.
  destruct (FC.xconst_index (tblat i) c) as [k|] eqn:E.
  - pose proof (xconst_index_lt _ _ _ E) as Hlt.
    replace (N.ltb 65535 (N.of_nat k)) with false by (symmetry; apply N.ltb_ge; lia).
    exists (N.of_nat k), s. unfold cret. rewrite Nat2N.id. repeat split; auto.
  - rewrite app_length in HB. simpl in HB. rewrite (Forall2_length' _ _ _ K1).
    unfold upd. cbn [s_cur s_outer s_classes s_line].
    replace (N.ltb 65535 (N.of_nat (length (tblat i)))) with false by (symmetry; apply N.ltb_ge; lia).
    eexists _, _. split; [reflexivity|]. rewrite Nat2N.id.
    unfold rest, scode. simpl. repeat split; auto.
    + apply Forall2_app; auto. constructor; [constructor|constructor].
    + apply Forall_app; auto.
    + apply xconst_index_snoc; auto.
Qed.

Lemma xidx_bytes_at i c g : FC.xconst_index (tblat i) c = Some (N.to_nat g) -> FC.xidx_bytes (tblat i) c = u16 g.
Proof. intros H. unfold FC.xidx_bytes. rewrite H, N2Nat.id. reflexivity. Qed.

(* `Constant idx` / `*Global idx` with the index make_constant returned *)
Lemma const16_step s i P ins c o g l :
  nth_error all i = Some (FC.XI ins) -> CE.instr_const ins = Some c ->
  (forall tb, FC.xasm_instr all tb i (FC.XI ins) = N_of_opcode o :: FC.xidx_bytes tb c) ->
  FC.xconst_index (tblat (S i)) c = Some (N.to_nat g) ->
  cpos s i -> agree P (scode s) X -> kpos s (S i) ->
  exists s', emit_op16 o g l s = COk (tt, s') /\ St s' (S i) P /\ rest s' = rest s.
Proof.
  intros H Hc Hasm Hg Hcp Ha Hk. destruct (emit_op16_ext o g l s) as (s' & E & Hx). exists s'. split; auto.
  eapply St_step; eauto. rewrite Hasm, (xidx_bytes_at _ _ _ Hg). exact Hx.
Qed.

(* Set/Get of a global whose name constant was allotted earlier (index g) *)
Lemma global16_step s j P o x g l i0 :
  nth_error all j = Some (FC.XI (CE.IGlobal o x)) -> i0 <= j ->
  FC.xconst_index (tblat i0) (CE.CStr x) = Some (N.to_nat g) -> St s j P ->
  exists s', emit_op16 o g l s = COk (tt, s') /\ St s' (S j) P /\ rest s' = rest s.
Proof.
  intros Hn Hle Hi (Hc & Hk & Ha).
  pose proof (tblat_index_mono _ _ _ _ Hle Hi) as Hj.
  assert (Hle' : i0 <= S j) by lia. pose proof (tblat_index_mono _ _ _ _ Hle' Hi) as HSj.
  eapply const16_step; eauto; try reflexivity.
  eapply kpos_known; eauto. reflexivity.
Qed.

(* a nested function that captures nothing: make_constant (KFun g) always appends; Closure idx16 *)
Lemma make_constant_fun g s :
  (N.of_nat (length (k_consts (s_cur s))) <= 65535)%N ->
  make_constant (KFun g) s =
  COk (N.of_nat (length (k_consts (s_cur s))),
       mkS (with_consts (s_cur s) (k_consts (s_cur s) ++ [KFun g])) (s_outer s) (s_classes s) (s_line s)).
Proof.
  intros Hle. unfold make_constant, cbind, cur. rewrite const_index_fun. unfold upd.
  cbn [s_cur s_outer s_classes s_line].
  replace (N.ltb 65535 (N.of_nat (length (k_consts (s_cur s))))) with false by (symmetry; apply N.ltb_ge; lia).
  reflexivity.
Qed.

Lemma closure_step s i P f g l :
  nth_error all i = Some (FC.XClosure f []) -> tree_rel g f -> St s i P ->
  exists s', emit_closure (g, []) l s = COk (tt, s') /\ St s' (S i) P /\ rest s' = rest s.
Proof.
  intros H Hgf (Hc & [K1 K2] & Ha).
  pose proof (tblat_bound (S i)) as HB. rewrite (tblat_S _ _ H) in HB. cbn [FC.xtable_step] in HB.
  rewrite app_length in HB. simpl in HB.
  pose proof (Forall2_length' _ _ _ K1) as HL.
  unfold emit_closure. cbn [fst snd].
  rewrite (cbind_ok _ _ _ _ _ (make_constant_fun g s ltac:(lia))).
  set (s1 := mkS (with_consts (s_cur s) (k_consts (s_cur s) ++ [KFun g])) (s_outer s) (s_classes s) (s_line s)).
  destruct (emit_op16_ext OpClosure (N.of_nat (length (k_consts (s_cur s)))) l s1) as (s2 & E2 & Hx).
  rewrite (cbind_ok _ _ _ _ _ E2). cbn [emit_upvalues]. exists s2. split; [reflexivity|].
  assert (R1 : rest s1 = rest s) by reflexivity.
  assert (K1' : kpos s1 (S i)).
  { unfold kpos. rewrite (tblat_S _ _ H). cbn [FC.xtable_step]. split.
    - apply Forall2_app; auto. constructor; [constructor; exact Hgf|constructor].
    - apply Forall_app; split; auto. constructor; [exact I|constructor]. }
  destruct (St_step s1 s2 i P _ H Hc Ha K1') as [S2 R2].
  { cbn [FC.xasm_instr flat_map]. rewrite app_nil_r, (tblat_S _ _ H). cbn [FC.xtable_step].
    rewrite app_length. cbn [length]. replace (length (tblat i) + 1 - 1) with (length (tblat i)) by lia.
    rewrite <- HL. exact Hx. }
  split; auto.
Qed.

(* ---------- jumps ---------- *)
Lemma jump_step s i P o n l :
  nth_error all i = Some (FC.XI (CE.IJump o n)) -> St s i P ->
  exists s' p, emit_jump o l s = COk (p, s') /\ St s' (S i) (p :: P) /\ rest s' = rest s /\
               good X (off (S i + n)) p.
Proof.
  intros H (Hc & Hk & Ha). destruct (emit_jump_ext o l s) as (s' & E & (R & K & C)).
  exists s', (S (length (scode s))). split; auto.
  pose proof (X_at _ _ H) as Hat. unfold cpos in Hc.
  pose proof (off_S _ _ H) as HS. cbn [FC.xisize CE.isize] in HS.
  pose proof (has_at_length _ _ _ Hat) as HL. rewrite xasm_instr_length in HL. cbn [FC.xisize CE.isize] in HL.
  cbn [FC.xasm_instr] in Hat.
  split; [|split; [exact R|]].
  - unfold St, cpos, kpos. rewrite C, K. split; [|split; [split|]].
    + rewrite app_length. simpl. lia.
    + destruct Hk as [K1 K2]. rewrite (tblat_S _ _ H). exact K1.
    + destruct Hk as [K1 K2]. rewrite (tblat_S _ _ H). exact K2.
    + apply agree_jump; auto.
      * rewrite Hc.
        change (N_of_opcode o :: CE.u16le ?z) with ([N_of_opcode o] ++ CE.u16le z) in Hat.
        apply has_at_app_l in Hat. exact Hat.
      * lia.
  - unfold good. rewrite off_plus, HS, Hc.
    replace (off i + 3 + FC.xcode_size (firstn n (skipn (S i) all)) - S (off i) - 2)
      with (FC.xcode_size (firstn n (skipn (S i) all))) by lia.
    split; [lia|]. split.
    + replace (S (off i)) with (off i + 1) by lia. eapply has_at_nth; [exact Hat|reflexivity].
    + replace (S (S (off i))) with (off i + 2) by lia. eapply has_at_nth; [exact Hat|reflexivity].
Qed.

Lemma patch_step s j P P' p :
  St s j P -> good X (off j) p -> (forall q, In q P -> q = p \/ In q P') ->
  exists s', patch_jump p s = COk (tt, s') /\ St s' j P' /\ rest s' = rest s.
Proof.
  intros (Hc & Hk & Ha) (G1 & G2 & G3) Hsub. unfold cpos in Hc.
  destruct (patch_jump_ok p s) as (s' & E & (R & K & C)).
  { rewrite Hc. pose proof (off_le_all j). pose proof (proj1 Hfits). lia. }
  exists s'. split; auto. split; [|exact R]. unfold St, cpos, kpos. rewrite C, K, !set_nth_length.
  split; [exact Hc|]. split; [exact Hk|].
  eapply agree_patch; eauto; try lia; rewrite Hc; assumption.
Qed.

Lemma patch_jumps_step j P' : forall l s P,
  Forall (good X (off j)) l -> St s j P -> (forall q, In q P -> In q l \/ In q P') ->
  exists s', patch_jumps l s = COk (tt, s') /\ St s' j P' /\ rest s' = rest s.
Proof.
  induction l as [|p r IH]; intros s P HF HS Hsub; simpl.
  - exists s. split; auto. split; auto. destruct HS as (Hc & Hk & Ha). split; [exact Hc|]. split; [exact Hk|].
    eapply agree_weaken; eauto. intros q Hq. destruct (Hsub q Hq) as [[]|]; auto.
  - inversion HF; subst.
    destruct (patch_step s j P (r ++ P') p HS H1) as (s1 & E1 & HS1 & R1).
    { intros q Hq. destruct (Hsub q Hq) as [[->|Hr]|Hp]; auto; right; apply in_or_app; auto. }
    destruct (IH s1 (r ++ P') H2 HS1) as (s2 & E2 & HS2 & R2).
    { intros q Hq. apply in_app_or in Hq. exact Hq. }
    exists s2. rewrite (cbind_ok _ _ _ _ _ E1). split; auto. split; auto. congruence.
Qed.

Lemma loop_step s i P n l :
  nth_error all i = Some (FC.XI (CE.ILoop n)) -> 1 <= n <= S i -> St s i P ->
  exists s', emit_loop (off (S i - n)) l s = COk (tt, s') /\ St s' (S i) P /\ rest s' = rest s.
Proof.
  intros H Hn (Hc & Hk & Ha). unfold cpos in Hc.
  pose proof (off_S _ _ H) as HS. cbn [FC.xisize CE.isize] in HS.
  assert (Hd : off (S i) = off (S i - n) + FC.xcode_size (firstn n (skipn (S i - n) all))).
  { rewrite <- off_plus. f_equal. lia. }
  assert (Hm : off (S i - n) <= off i) by (apply off_mono; lia).
  assert (Heq : length (scode s) + 1 - off (S i - n) + 2 = FC.xcode_size (firstn n (skipn (S i - n) all))) by lia.
  destruct (emit_loop_ext (off (S i - n)) l s) as (s' & E & Hx).
  { rewrite Heq. pose proof (off_le_all (S i)). pose proof (proj1 Hfits). lia. }
  exists s'. split; auto. eapply St_step; eauto.
  - eapply kpos_none; eauto.
  - cbn [FC.xasm_instr]. rewrite Heq in Hx. exact Hx.
Qed.

(* the function is finished: no hole left, every instruction emitted *)
Lemma St_done s : St s (length all) [] ->
  scode s = X /\ Forall2 const_rel (k_consts (s_cur s)) T.
Proof.
  intros (Hc & [K1 K2] & Ha). unfold cpos in Hc. rewrite off_all in Hc. rewrite tblat_all in K1. split; auto.
  apply agree_done; auto. rewrite X_length. exact Hc.
Qed.

Lemma St_init s : scode s = [] -> k_consts (s_cur s) = [] -> St s 0 [].
Proof.
  intros Hc Hk. unfold St, cpos, kpos. rewrite Hc, Hk. unfold off, tblat. simpl.
  split; [reflexivity|]. split; [split; constructor|apply agree_nil].
Qed.

End Pos.

Arguments X all : clear implicits.
Arguments T all : clear implicits.

(* ================================================================== *)
(* size conditions                                                      *)

Definition sub_fits (c : list FC.xinstr) : bool :=
  forallb (fun i => match i with FC.XI _ => true | FC.XClosure f _ => xfits f end) c.

Lemma xfits_unfold nm a u code : xfits (FC.mkF nm a u code) = xfits1 (FC.mkF nm a u code) && sub_fits code.
Proof.
  cbn [xfits]. f_equal. induction code as [|x r IH]; [reflexivity|].
  destruct x; cbn [sub_fits forallb]; rewrite IH; reflexivity.
Qed.

Lemma sub_fits_app a b : sub_fits (a ++ b) = true -> sub_fits a = true /\ sub_fits b = true.
Proof. unfold sub_fits. rewrite forallb_app. intros H. apply andb_prop in H. exact H. Qed.
Lemma sub_fits_cons i l : sub_fits (i :: l) = true -> sub_fits [i] = true /\ sub_fits l = true.
Proof. unfold sub_fits. cbn [forallb]. intros H. apply andb_prop in H. destruct H as [A B]. rewrite A. auto. Qed.

Lemma xfits1_afits nm a u code : xfits1 (FC.mkF nm a u code) = true -> afits code.
Proof.
  unfold xfits1, afits. cbn [FC.fo_code]. intros H. apply andb_prop in H. destruct H as [H _].
  apply andb_prop in H. destruct H as [H1 H2]. apply N.ltb_lt in H1. apply N.leb_le in H2.
  unfold FC.xassemble in H2. cbn [FC.fo_code] in H2. rewrite xasm_from_snd in H2. auto.
Qed.

(* ================================================================== *)
(* environments: CE.cenv <-> Compiler.locals, for the whole compiler stack *)

Definition pend (o : option name) : list klocal :=
  match o with Some p => [mkKL p None false] | None => [] end.

Definition fslot0 : klocal := mkKL [] (Some 0) false.

(* slot 0: "self" in the script compiler, "" in a function's; ("", 0) in FnCompile; no local is captured *)
Inductive lrel : list klocal -> list (name * nat) -> Prop :=
| lrel_script : lrel [slot0] [([], 0)]
| lrel_fn : lrel [fslot0] [([], 0)]
| lrel_cons n d KL L : lrel KL L -> lrel (mkKL n (Some d) false :: KL) ((n, d) :: L).

Definition comprel (c : comp) (env : CE.cenv) : Prop :=
  k_scope c = CE.cdepth env /\
  exists KL, k_locals c = pend (CE.cpending env) ++ KL /\ lrel KL (CE.clocals env).

Definition envrel (s : cstate) (env : CE.cenv) (outers : list CE.cenv) (infn : bool) : Prop :=
  comprel (s_cur s) env /\ Forall2 comprel (s_outer s) outers /\
  k_in_try (s_cur s) = false /\ k_try_depth (s_cur s) = 0 /\ k_upvalues (s_cur s) = [] /\
  k_kind (s_cur s) = (if infn then KFunction else KScript).

Definition lamrel (s : cstate) (st : FC.cst) : Prop :=
  map k_lambdas (s_cur s :: s_outer s) = map N.of_nat (FC.lams st).

(* VESTIGIAL: an invariant "no captured slot, no upvalue recorded" on FnCompile's threaded state turned out to be
   unnecessary - what the proofs need follows from [nocap_code] of the emitted code itself (scope_end_nocap,
   FnProofs.closure_nocap).  Kept as a trivial predicate so that the statements of Pe / Ps keep their shape. *)
Definition allnil (st : FC.cst) : Prop := True.

(* what an expression leaves alone: everything but code, lines, constants, the lambda counter (and s_line, classes) *)
Definition restl (s : cstate) : list comp * comp := (s_outer s, with_lambdas (restc (s_cur s)) 0).

Lemma rest_restl s s' : rest s' = rest s -> restl s' = restl s.
Proof. intros H. unfold restl. rewrite (rest_outer _ _ H), (rest_cur _ _ H). reflexivity. Qed.

Lemma restl_outer s s' : restl s' = restl s -> s_outer s' = s_outer s.
Proof. unfold restl. congruence. Qed.
Lemma restl_c s s' : restl s' = restl s -> with_lambdas (restc (s_cur s')) 0 = with_lambdas (restc (s_cur s)) 0.
Proof. unfold restl. congruence. Qed.
Lemma restl_locals s s' : restl s' = restl s -> k_locals (s_cur s') = k_locals (s_cur s).
Proof. intros H. apply restl_c in H. apply (f_equal k_locals) in H. exact H. Qed.
Lemma restl_scope s s' : restl s' = restl s -> k_scope (s_cur s') = k_scope (s_cur s).
Proof. intros H. apply restl_c in H. apply (f_equal k_scope) in H. exact H. Qed.
Lemma restl_loops s s' : restl s' = restl s -> k_loops (s_cur s') = k_loops (s_cur s).
Proof. intros H. apply restl_c in H. apply (f_equal k_loops) in H. exact H. Qed.
Lemma restl_breaks s s' : restl s' = restl s -> k_breaks (s_cur s') = k_breaks (s_cur s).
Proof. intros H. apply restl_c in H. apply (f_equal k_breaks) in H. exact H. Qed.
Lemma restl_in_try s s' : restl s' = restl s -> k_in_try (s_cur s') = k_in_try (s_cur s).
Proof. intros H. apply restl_c in H. apply (f_equal k_in_try) in H. exact H. Qed.
Lemma restl_try_depth s s' : restl s' = restl s -> k_try_depth (s_cur s') = k_try_depth (s_cur s).
Proof. intros H. apply restl_c in H. apply (f_equal k_try_depth) in H. exact H. Qed.
Lemma restl_upvalues s s' : restl s' = restl s -> k_upvalues (s_cur s') = k_upvalues (s_cur s).
Proof. intros H. apply restl_c in H. apply (f_equal k_upvalues) in H. exact H. Qed.
Lemma restl_kind s s' : restl s' = restl s -> k_kind (s_cur s') = k_kind (s_cur s).
Proof. intros H. apply restl_c in H. apply (f_equal k_kind) in H. exact H. Qed.

Lemma envrel_restl s s' env outers infn : restl s' = restl s -> envrel s env outers infn -> envrel s' env outers infn.
Proof.
  intros R (H1 & H2 & H3 & H4 & H5 & H6). unfold envrel, comprel in *.
  rewrite (restl_outer _ _ R), (restl_locals _ _ R), (restl_scope _ _ R), (restl_in_try _ _ R),
          (restl_try_depth _ _ R), (restl_upvalues _ _ R), (restl_kind _ _ R).
  repeat (split; [assumption|]); assumption.
Qed.

Lemma lamrel_rest s s' st : rest s' = rest s -> lamrel s st -> lamrel s' st.
Proof.
  unfold lamrel. intros R H. cbn [map] in *. rewrite (rest_outer _ _ R), (restc_lambdas _ _ (rest_cur _ _ R)). exact H.
Qed.

(* ---------- names ---------- *)
Lemma lrel_length KL L : lrel KL L -> length KL = length L.
Proof. induction 1; simpl; auto. Qed.

Lemma ce_bytes_eqb_nil x : nonempty_name x = true -> CE.bytes_eqb x [] = false.
Proof. destruct x; simpl; auto; discriminate. Qed.

Lemma utf8_bytes_eqb_nil x : nonempty_name x = true -> Utf8.bytes_eqb [] x = false.
Proof. destruct x; simpl; auto; discriminate. Qed.

Lemma lrel_resolve KL L x : lrel KL L -> namef_ok x = true ->
  resolve_local_in x KL = match CE.find_local L x with Some k => LFound k | None => LNotFound end.
Proof.
  intros HR Hx. unfold namef_ok in Hx. apply andb_prop in Hx. destruct Hx as [Hne Hself].
  apply negb_true_iff in Hself.
  induction HR.
  - unfold slot0. cbn [resolve_local_in kl_name kl_depth CE.find_local]. rewrite Hself.
    rewrite (ce_bytes_eqb_nil _ Hne). reflexivity.
  - unfold fslot0. cbn [resolve_local_in kl_name kl_depth CE.find_local]. rewrite (utf8_bytes_eqb_nil _ Hne).
    rewrite (ce_bytes_eqb_nil _ Hne). reflexivity.
  - cbn [resolve_local_in kl_name kl_depth CE.find_local]. rewrite (ce_bytes_eqb x n), (bytes_eqb_sym x n).
    destruct (Utf8.bytes_eqb n x).
    + rewrite (lrel_length _ _ HR). reflexivity.
    + exact IHHR.
Qed.

Lemma resolve_local_rel c env x : comprel c env -> namef_ok x = true ->
  resolve_local_c c x =
  match CE.resolve_local env x with
  | CE.LFound k => LFound (N.to_nat k)
  | CE.LUninit => LUninit
  | CE.LNone => LNotFound
  end.
Proof.
  intros [_ (KL & HL & HR)] Hx. unfold resolve_local_c, CE.resolve_local. rewrite HL.
  destruct (CE.cpending env) as [p|]; cbn [pend app].
  - cbn [resolve_local_in kl_name kl_depth]. rewrite (ce_bytes_eqb x p), (bytes_eqb_sym x p).
    destruct (Utf8.bytes_eqb p x); auto.
    rewrite (lrel_resolve _ _ _ HR Hx). destruct (CE.find_local (CE.clocals env) x); auto. rewrite Nat2N.id. auto.
  - rewrite (lrel_resolve _ _ _ HR Hx). destruct (CE.find_local (CE.clocals env) x); auto. rewrite Nat2N.id. auto.
Qed.

(* an enclosing compiler finds the name iff find_in_outer does *)
Lemma outer_found c env x : comprel c env -> namef_ok x = true ->
  match resolve_local_c c x with
  | LFound i => FC.find_in_outer env x = Some i
  | _ => FC.find_in_outer env x = None
  end.
Proof.
  intros Hc Hx. rewrite (resolve_local_rel _ _ _ Hc Hx). unfold CE.resolve_local, FC.find_in_outer.
  destruct (CE.cpending env) as [p|].
  - destruct (CE.bytes_eqb x p); auto.
    destruct (CE.find_local (CE.clocals env) x); auto. rewrite Nat2N.id. reflexivity.
  - destruct (CE.find_local (CE.clocals env) x); auto. rewrite Nat2N.id. reflexivity.
Qed.

Lemma resolve_upvalue_none cs outers : Forall2 comprel cs outers ->
  forall c x j, namef_ok x = true -> FC.find_outer outers x j = None -> resolve_upvalue_in x c cs = UNotFound.
Proof.
  induction 1 as [|e env cs outers He HF IH]; intros c x j Hx Hf; [reflexivity|].
  cbn [resolve_upvalue_in FC.find_outer] in *. pose proof (outer_found _ _ _ He Hx) as Ho.
  destruct (resolve_local_c e x) eqn:E.
  - rewrite Ho in Hf. discriminate.
  - rewrite Ho in Hf. rewrite (IH e x _ Hx Hf). reflexivity.
  - rewrite Ho in Hf. rewrite (IH e x _ Hx Hf). reflexivity.
Qed.

(* resolve_var when nothing is captured *)
Lemma resolve_var_nocap env outers pendl st x r st1 :
  FC.var_ok env pendl x = true -> FC.resolve_var env outers st x = (r, st1) -> (forall k, r <> FC.RUp k) ->
  st1 = st /\
  ((exists k, r = FC.RLocal k /\ CE.resolve_local env x = CE.LFound k) \/
   (r = FC.RGlobal /\ CE.resolve_local env x = CE.LNone /\ FC.find_outer outers x 0 = None)).
Proof.
  intros Hok R Nup. unfold FC.var_ok in Hok. apply andb_prop in Hok. destruct Hok as [Np _].
  unfold CE.not_pending in Np. unfold FC.resolve_var, FC.rkind_of, CE.resolve in R.
  destruct (CE.resolve_local env x) as [k| |] eqn:E; try discriminate.
  - inversion R; subst. split; auto. left. eauto.
  - destruct (FC.find_outer outers x 0) as [[j slot]|] eqn:FO.
    + destruct (FC.add_chain j true (N.of_nat slot) (FC.upss st)) as [us i]. inversion R; subst.
      exfalso. eapply Nup. reflexivity.
    + inversion R; subst. split; auto.
Qed.

Lemma resolve_variable_local s env outers infn x l k :
  envrel s env outers infn -> namef_ok x = true -> CE.resolve_local env x = CE.LFound k ->
  resolve_variable x l s = COk ((OpGetLocal, OpSetLocal, k), s).
Proof.
  intros He Hx Hr. unfold resolve_variable, cbind, cur. rewrite (resolve_local_rel _ _ _ (proj1 He) Hx), Hr.
  unfold cret. rewrite N2Nat.id. reflexivity.
Qed.

Lemma resolve_variable_global s env outers infn x l :
  envrel s env outers infn -> namef_ok x = true -> CE.resolve_local env x = CE.LNone ->
  FC.find_outer outers x 0 = None ->
  resolve_variable x l s =
  cbind (make_constant (KStr x)) (fun g => cret (OpGetGlobal, OpSetGlobal, g))
        (mkS (s_cur s) (s_outer s) (s_classes s) l).
Proof.
  intros He Hx Hr Hf. pose proof (resolve_local_rel _ _ _ (proj1 He) Hx) as Hres. rewrite Hr in Hres.
  destruct He as (_ & Ho & _).
  unfold resolve_variable, cbind, cur, cget. rewrite Hres.
  rewrite (resolve_upvalue_none _ _ Ho (s_cur s) x 0 Hx Hf). reflexivity.
Qed.

Lemma check_count_ok n l msg s : (n <= 255)%N -> check_count n l msg s = COk (tt, s).
Proof. intros H. unfold check_count. replace (N.ltb 255 n) with false by (symmetry; apply N.ltb_ge; exact H). reflexivity. Qed.

(* ================================================================== *)
(* expressions                                                          *)

Definition EmitsX {A} (all : list FC.xinstr) (env : CE.cenv) (outers : list CE.cenv) (infn : bool)
           (st st' : FC.cst) (m : C A) (is : list FC.xinstr) (a : A) : Prop :=
  afits all ->
  forall s i P, at_ all i is -> St all s i P -> envrel s env outers infn -> lamrel s st ->
    exists s', m s = COk (a, s') /\ St all s' (i + length is) P /\ restl s' = restl s /\ lamrel s' st'.

Lemma lamrel_restl_same s s' st : restl s' = restl s -> k_lambdas (s_cur s') = k_lambdas (s_cur s) ->
  lamrel s st -> lamrel s' st.
Proof. unfold lamrel. intros R L H. cbn [map] in *. rewrite (restl_outer _ _ R), L. exact H. Qed.

Lemma EmitsX_bind {A B} all env outers infn st st1 st2 (m : C A) (k : A -> C B) is1 is2 a b :
  EmitsX all env outers infn st st1 m is1 a -> EmitsX all env outers infn st1 st2 (k a) is2 b ->
  EmitsX all env outers infn st st2 (cbind m k) (is1 ++ is2) b.
Proof.
  intros H1 H2 Hf s i P Hat HS He Hl. apply (at_app all Hf) in Hat. destruct Hat as [A1 A2].
  destruct (H1 Hf s i P A1 HS He Hl) as (s1 & E1 & S1 & R1 & L1).
  destruct (H2 Hf s1 _ P A2 S1 (envrel_restl _ _ _ _ _ R1 He) L1) as (s2 & E2 & S2 & R2 & L2).
  exists s2. rewrite (cbind_ok _ _ _ _ _ E1). split; auto. rewrite app_length, Nat.add_assoc. split; auto.
  split; auto. congruence.
Qed.

Lemma EmitsX_ret {A} all env outers infn st (a : A) : EmitsX all env outers infn st st (cret a) [] a.
Proof. intros _ s i P _ HS _ Hl. exists s. simpl. rewrite Nat.add_0_r. auto. Qed.

Lemma EmitsX_eq {A} all env outers infn st st' (m m' : C A) is a :
  (forall s, m s = m' s) -> EmitsX all env outers infn st st' m' is a -> EmitsX all env outers infn st st' m is a.
Proof. intros E H Hf s i P Hat HS He Hl. rewrite E. apply H; auto. Qed.

Lemma emitsX_op all env outers infn st o l : EmitsX all env outers infn st st (emit_op o l) [FC.XI (CE.IOp o)] tt.
Proof.
  intros Hf s i P Hat HS _ Hl. apply (at_cons all Hf) in Hat. destruct Hat as [Hn _].
  destruct (op_step all Hf s i P o l Hn HS) as (s' & E & S' & R). exists s'. simpl. rewrite Nat.add_1_r.
  split; auto. split; auto. split; [apply rest_restl; auto|eapply lamrel_rest; eauto].
Qed.

Lemma emitsX_op8 all env outers infn st o n l :
  EmitsX all env outers infn st st (emit_op8 o n l) [FC.XI (CE.IOp8 o n)] tt.
Proof.
  intros Hf s i P Hat HS _ Hl. apply (at_cons all Hf) in Hat. destruct Hat as [Hn _].
  destruct (op8_step all Hf s i P o n l Hn HS) as (s' & E & S' & R). exists s'. simpl. rewrite Nat.add_1_r.
  split; auto. split; auto. split; [apply rest_restl; auto|eapply lamrel_rest; eauto].
Qed.

Lemma emitsX_ops all env outers infn st ops l :
  EmitsX all env outers infn st st (emit_ops ops l) (FC.xi (map CE.IOp ops)) tt.
Proof.
  induction ops as [|o r IH]; simpl. apply EmitsX_ret.
  change (EmitsX all env outers infn st st (emit_op o l ;;; emit_ops r l)
            ([FC.XI (CE.IOp o)] ++ FC.xi (map CE.IOp r)) tt).
  eapply EmitsX_bind; [apply emitsX_op|exact IH].
Qed.

Lemma St_set_line all s l i P : St all s i P -> St all (mkS (s_cur s) (s_outer s) (s_classes s) l) i P.
Proof. exact (fun H => H). Qed.

Lemma emitsX_constant all env outers infn st c l :
  cplain c -> EmitsX all env outers infn st st (emit_constant (conv c) l) [FC.XI (CE.IConst c)] tt.
Proof.
  intros Hp Hf s i P Hat HS _ Hl. apply (at_cons all Hf) in Hat. destruct Hat as [Hn _].
  unfold emit_constant. rewrite (cbind_ok _ _ _ _ _ (set_line_step l s)).
  apply (St_set_line all s l) in HS. destruct HS as (Hc & Hk & Ha).
  destruct (mkconst_step all Hf _ i _ c Hn eq_refl Hp Hk) as (g & s1 & E1 & R1 & C1 & K1 & I1).
  rewrite (cbind_ok _ _ _ _ _ E1).
  destruct (const16_step all Hf s1 i P _ c OpConstant g l Hn eq_refl (fun _ => eq_refl) I1) as (s2 & E2 & S2 & R2); auto.
  { unfold cpos in *. rewrite C1. exact Hc. }
  { rewrite C1. exact Ha. }
  exists s2. simpl. rewrite Nat.add_1_r. split; auto. split; auto.
  assert (R : rest s2 = rest s) by (rewrite R2, R1; reflexivity).
  split; [apply rest_restl; auto|eapply lamrel_rest; eauto].
Qed.

Lemma emitsX_check all env outers infn st n l msg :
  (n <= 255)%N -> EmitsX all env outers infn st st (check_count n l msg) [] tt.
Proof. intros H. eapply EmitsX_eq; [intros s; apply check_count_ok; exact H|apply EmitsX_ret]. Qed.

(* `x` resolved as a global by make_constant at instruction index i (a Touch, or the Get itself) *)
Lemma resolve_global_step all env outers infn x l s i ins :
  afits all ->
  envrel s env outers infn -> namef_ok x = true -> CE.resolve_local env x = CE.LNone ->
  FC.find_outer outers x 0 = None ->
  nth_error all i = Some (FC.XI ins) -> CE.instr_const ins = Some (CE.CStr x) -> kpos all s i ->
  exists g s', resolve_variable x l s = COk ((OpGetGlobal, OpSetGlobal, g), s') /\ rest s' = rest s /\
               scode s' = scode s /\ kpos all s' (S i) /\
               FC.xconst_index (tblat all (S i)) (CE.CStr x) = Some (N.to_nat g).
Proof.
  intros Hfi He Hx Hr Hf Hn Hc Hk. rewrite (resolve_variable_global _ _ _ _ _ l He Hx Hr Hf).
  destruct (mkconst_step all Hfi (mkS (s_cur s) (s_outer s) (s_classes s) l) i ins (CE.CStr x) Hn Hc I Hk)
    as (g & s1 & E1 & R1 & C1 & K1 & I1).
  exists g, s1. rewrite (cbind_ok _ _ _ _ _ E1). auto.
Qed.

(* the ITouch instruction: only the table moves *)
Lemma touch_St all s s1 i P c : afits all ->
  nth_error all i = Some (FC.XI (CE.ITouch c)) -> St all s i P -> scode s1 = scode s -> kpos all s1 (S i) ->
  St all s1 (S i) P.
Proof.
  intros Hf Hn (Hc & _ & Ha) C1 K1. split; [|split; [exact K1|rewrite C1; exact Ha]].
  unfold cpos in *. rewrite C1, (off_S all Hf _ _ Hn). simpl. lia.
Qed.

(* ---------- the induction predicates ---------- *)
Definition Pe (e : lexpr) : Prop :=
  forall all env outers infn pendl st is st',
    lokf_e e = true -> FC.xexpr_ok env pendl (erase_expr e) = true ->
    FC.xcexpr env outers st (erase_expr e) = (is, st') -> FC.nocap_code is = true -> sub_fits is = true ->
    allnil st ->
    allnil st' /\ EmitsX all env outers infn st st' (cexpr e) is tt.
Definition Pes (es : lexprs) : Prop :=
  forall all env outers infn pendl st is st',
    lokf_es es = true -> forallb (FC.xexpr_ok env pendl) (erase_exprs es) = true ->
    FP.xclist env outers (erase_exprs es) st = (is, st') -> FC.nocap_code is = true -> sub_fits is = true ->
    allnil st ->
    allnil st' /\ EmitsX all env outers infn st st' (cargs es) is (CE.nlen (erase_exprs es)).
Definition Pps (ps : lparts) : Prop :=
  forall all env outers infn pendl st is st',
    lokf_ps ps = true -> FP.xparts_ok env pendl (erase_parts ps) = true ->
    FP.xcparts env outers (erase_parts ps) st = (is, st') -> FC.nocap_code is = true -> sub_fits is = true ->
    allnil st ->
    allnil st' /\ EmitsX all env outers infn st st' (cparts ps) is (CE.nlen (erase_parts ps)).

Ltac andb_split :=
  repeat match goal with
         | H : _ && _ = true |- _ => apply andb_prop in H; destruct H
         end.

Ltac split_nf :=
  repeat match goal with
         | H : FC.nocap_code (_ ++ _) = true |- _ => apply FP.nocap_app in H; destruct H
         | H : sub_fits (_ ++ _) = true |- _ => apply sub_fits_app in H; destruct H
         | H : FC.nocap_code (_ :: _ ++ _) = true |- _ => apply FP.nocap_cons in H; destruct H
         | H : sub_fits (_ :: _ ++ _) = true |- _ => apply sub_fits_cons in H; destruct H
         | H : FC.nocap_code (_ :: _ :: _) = true |- _ => apply FP.nocap_cons in H; destruct H
         | H : sub_fits (_ :: _ :: _) = true |- _ => apply sub_fits_cons in H; destruct H
         end.

Ltac nil_l :=
  match goal with |- EmitsX ?a ?b ?c ?d ?e ?f ?m ?is ?r => change (EmitsX a b c d e f m ([] ++ is) r) end.

Ltac pe_start :=
  intros all env outers infn pendl st is st' Hl Hok Hc Hn Hf Hnil.

Lemma case_unary op e l : Pe e -> Pe (LUnary op e l).
Proof.
  intros IH. pe_start. cbn [lokf_e erase_expr FC.xexpr_ok FC.xcexpr] in *.
  destruct (FC.xcexpr env outers st (erase_expr e)) as [c1 st1] eqn:E1. inversion Hc; subst; clear Hc. split_nf.
  destruct (IH all env outers infn pendl st c1 st' Hl Hok E1) as [N1 M1]; auto.
  split; auto. rewrite unop_code_ops. eapply EmitsX_bind; [exact M1|apply emitsX_op].
Qed.

Lemma binop_xi op : FC.xi (CE.binop_code op) = FC.xi (map CE.IOp (binop_ops op)).
Proof. rewrite binop_code_ops. reflexivity. Qed.

Lemma case_binary op a b l : Pe a -> Pe b -> Pe (LBinary op a b l).
Proof.
  intros IHa IHb. pe_start. cbn [lokf_e erase_expr FC.xexpr_ok FC.xcexpr] in *.
  destruct (FC.xcexpr env outers st (erase_expr a)) as [ca st1] eqn:E1.
  destruct (FC.xcexpr env outers st1 (erase_expr b)) as [cb st2] eqn:E2. inversion Hc; subst; clear Hc.
  andb_split. split_nf.
  destruct (IHa all env outers infn pendl st ca st1) as [N1 M1]; auto.
  destruct (IHb all env outers infn pendl st1 cb st') as [N2 M2]; auto.
  split; auto. rewrite binop_xi.
  eapply EmitsX_bind; [exact M1|]. eapply EmitsX_bind; [exact M2|apply emitsX_ops].
Qed.

Lemma case_range a b l : Pe a -> Pe b -> Pe (LRange a b l).
Proof.
  intros IHa IHb. pe_start. cbn [lokf_e erase_expr FC.xexpr_ok FC.xcexpr] in *.
  destruct (FC.xcexpr env outers st (erase_expr a)) as [ca st1] eqn:E1.
  destruct (FC.xcexpr env outers st1 (erase_expr b)) as [cb st2] eqn:E2. inversion Hc; subst; clear Hc.
  andb_split. split_nf.
  destruct (IHa all env outers infn pendl st ca st1) as [N1 M1]; auto.
  destruct (IHb all env outers infn pendl st1 cb st') as [N2 M2]; auto.
  split; auto.
  eapply EmitsX_bind; [exact M1|]. eapply EmitsX_bind; [exact M2|apply emitsX_op].
Qed.

Lemma case_index a b l : Pe a -> Pe b -> Pe (LIndex a b l).
Proof.
  intros IHa IHb. pe_start. cbn [lokf_e erase_expr FC.xexpr_ok FC.xcexpr] in *.
  destruct (FC.xcexpr env outers st (erase_expr a)) as [ca st1] eqn:E1.
  destruct (FC.xcexpr env outers st1 (erase_expr b)) as [cb st2] eqn:E2. inversion Hc; subst; clear Hc.
  andb_split. split_nf.
  destruct (IHa all env outers infn pendl st ca st1) as [N1 M1]; auto.
  destruct (IHb all env outers infn pendl st1 cb st') as [N2 M2]; auto.
  split; auto.
  eapply EmitsX_bind; [exact M1|]. eapply EmitsX_bind; [exact M2|apply emitsX_op].
Qed.

Lemma case_setindex o i e l : Pe o -> Pe i -> Pe e -> Pe (LSetIndex o i e l).
Proof.
  intros IHo IHi IHe. pe_start. cbn [lokf_e erase_expr FC.xexpr_ok FC.xcexpr] in *.
  destruct (FC.xcexpr env outers st (erase_expr o)) as [co st1] eqn:E1.
  destruct (FC.xcexpr env outers st1 (erase_expr i)) as [ci st2] eqn:E2.
  destruct (FC.xcexpr env outers st2 (erase_expr e)) as [ce st3] eqn:E3. inversion Hc; subst; clear Hc.
  andb_split. split_nf.
  destruct (IHo all env outers infn pendl st co st1) as [N1 M1]; auto.
  destruct (IHi all env outers infn pendl st1 ci st2) as [N2 M2]; auto.
  destruct (IHe all env outers infn pendl st2 ce st') as [N3 M3]; auto.
  split; auto.
  eapply EmitsX_bind; [exact M1|]. eapply EmitsX_bind; [exact M2|].
  eapply EmitsX_bind; [exact M3|apply emitsX_op].
Qed.

Lemma nlen_le {A} (l : list A) : (length l <=? 255) = true -> (CE.nlen l <= 255)%N.
Proof. intros H. apply Nat.leb_le in H. unfold CE.nlen. lia. Qed.

Lemma nlen_cons {A} (x : A) r : CE.nlen (x :: r) = (CE.nlen r + 1)%N.
Proof. unfold CE.nlen. simpl length. lia. Qed.

Lemma case_call f args l : Pe f -> Pes args -> Pe (LCall f args l).
Proof.
  intros IHf IHa. pe_start. cbn [lokf_e erase_expr FC.xexpr_ok] in *. rewrite FP.xcexpr_call in Hc.
  destruct (FC.xcexpr env outers st (erase_expr f)) as [cf st1] eqn:E1.
  destruct (FP.xclist env outers (erase_exprs args) st1) as [ca st2] eqn:E2. inversion Hc; subst; clear Hc.
  andb_split. split_nf.
  destruct (IHf all env outers infn pendl st cf st1) as [N1 M1]; auto.
  destruct (IHa all env outers infn pendl st1 ca st') as [N2 M2]; auto.
  split; auto.
  eapply EmitsX_bind; [exact M1|]. eapply EmitsX_bind; [exact M2|].
  nil_l.
  eapply EmitsX_bind; [apply emitsX_check; apply nlen_le; auto|apply emitsX_op8].
Qed.

Lemma case_tuple es l : Pes es -> Pe (LTuple es l).
Proof.
  intros IHa. pe_start. cbn [lokf_e erase_expr FC.xexpr_ok] in *. rewrite FP.xcexpr_tuple in Hc.
  destruct (FP.xclist env outers (erase_exprs es) st) as [ca st2] eqn:E2. inversion Hc; subst; clear Hc.
  andb_split. split_nf.
  destruct (IHa all env outers infn pendl st ca st') as [N2 M2]; auto.
  split; auto.
  eapply EmitsX_bind; [exact M2|].
  nil_l.
  eapply EmitsX_bind; [apply emitsX_check; apply nlen_le; auto|apply emitsX_op8].
Qed.

Lemma case_vec es l : Pes es -> Pe (LVec es l).
Proof.
  intros IHa. pe_start. cbn [lokf_e erase_expr FC.xexpr_ok] in *. rewrite FP.xcexpr_vec in Hc.
  destruct (FP.xclist env outers (erase_exprs es) st) as [ca st2] eqn:E2. inversion Hc; subst; clear Hc.
  andb_split. split_nf.
  destruct (IHa all env outers infn pendl st ca st') as [N2 M2]; auto.
  split; auto.
  eapply EmitsX_bind; [exact M2|].
  nil_l.
  eapply EmitsX_bind; [apply emitsX_check; apply nlen_le; auto|apply emitsX_op8].
Qed.

Lemma case_interp ps l : Pps ps -> Pe (LInterp ps l).
Proof.
  intros IH. pe_start. cbn [lokf_e erase_expr] in *. rewrite FP.xexpr_ok_interp in Hok. rewrite FP.xcexpr_interp in Hc.
  destruct (FP.xcparts env outers (erase_parts ps) st) as [ca st2] eqn:E2. inversion Hc; subst; clear Hc.
  andb_split. split_nf. cbn [cexpr].
  destruct (IH all env outers infn pendl st ca st') as [N2 M2]; auto.
  split; auto.
  eapply EmitsX_bind; [exact M2|].
  nil_l.
  eapply EmitsX_bind; [apply emitsX_check; apply nlen_le; auto|apply emitsX_op8].
Qed.

Lemma case_enil : Pes LENil.
Proof. pe_start. cbn in Hc. inversion Hc; subst. split; auto. simpl. apply EmitsX_ret. Qed.

Lemma case_econs e r : Pe e -> Pes r -> Pes (LECons e r).
Proof.
  intros IHe IHr. pe_start. cbn [lokf_es erase_exprs forallb FP.xclist] in *.
  destruct (FC.xcexpr env outers st (erase_expr e)) as [c1 st1] eqn:E1.
  destruct (FP.xclist env outers (erase_exprs r) st1) as [c2 st2] eqn:E2. inversion Hc; subst; clear Hc.
  andb_split. split_nf. rewrite nlen_cons.
  destruct (IHe all env outers infn pendl st c1 st1) as [N1 M1]; auto.
  destruct (IHr all env outers infn pendl st1 c2 st') as [N2 M2]; auto.
  split; auto. cbn [cargs].
  eapply EmitsX_bind; [exact M1|].
  rewrite <- (app_nil_r c2).
  eapply EmitsX_bind; [exact M2|apply EmitsX_ret].
Qed.

Lemma case_pnil : Pps LPNil.
Proof. pe_start. cbn in Hc. inversion Hc; subst. split; auto. simpl. apply EmitsX_ret. Qed.

Lemma case_pstr l s r : Pps r -> Pps (LPStr l s r).
Proof.
  intros IHr. pe_start. cbn [lokf_ps erase_parts FP.xparts_ok FP.xcparts] in *.
  destruct (FP.xcparts env outers (erase_parts r) st) as [c2 st2] eqn:E2. inversion Hc; subst; clear Hc.
  andb_split. rewrite nlen_cons.
  change (FC.XI (CE.IConst (CE.CStr s)) :: c2) with ([FC.XI (CE.IConst (CE.CStr s))] ++ c2) in *. split_nf.
  destruct (IHr all env outers infn pendl st c2 st') as [N2 M2]; auto.
  split; auto. cbn [cparts].
  eapply EmitsX_bind; [apply (emitsX_constant all env outers infn st (CE.CStr s)); exact I|].
  rewrite <- (app_nil_r c2).
  eapply EmitsX_bind; [exact M2|apply EmitsX_ret].
Qed.

Lemma case_pexpr e l r : Pe e -> Pps r -> Pps (LPExpr e l r).
Proof.
  intros IHe IHr. pe_start. cbn [lokf_ps erase_parts FP.xparts_ok FP.xcparts] in *.
  destruct (FC.xcexpr env outers st (erase_expr e)) as [c1 st1] eqn:E1.
  destruct (FP.xcparts env outers (erase_parts r) st1) as [c2 st2] eqn:E2. inversion Hc; subst; clear Hc.
  andb_split. rewrite nlen_cons.
  change (FC.XI (CE.IOp OpFormatString) :: c2) with ([FC.XI (CE.IOp OpFormatString)] ++ c2) in *. split_nf.
  destruct (IHe all env outers infn pendl st c1 st1) as [N1 M1]; auto.
  destruct (IHr all env outers infn pendl st1 c2 st') as [N2 M2]; auto.
  split; auto. cbn [cparts].
  eapply EmitsX_bind; [exact M1|].
  eapply EmitsX_bind; [apply emitsX_op|].
  rewrite <- (app_nil_r c2).
  eapply EmitsX_bind; [exact M2|apply EmitsX_ret].
Qed.

(* ---------- && and || : back-patched forward jumps ---------- *)
Lemma case_and a lop b : Pe a -> Pe b -> Pe (LAnd a lop b).
Proof.
  intros IHa IHb. pe_start. cbn [lokf_e erase_expr FC.xexpr_ok FC.xcexpr] in *.
  destruct (FC.xcexpr env outers st (erase_expr a)) as [ca st1] eqn:E1.
  destruct (FC.xcexpr env outers st1 (erase_expr b)) as [cb st2] eqn:E2. inversion Hc; subst; clear Hc.
  andb_split.
  change (ca ++ FC.XI (CE.IJump OpJumpIfFalse (S (length cb))) :: FC.XI (CE.IOp OpPop) :: cb)
    with (ca ++ [FC.XI (CE.IJump OpJumpIfFalse (S (length cb))); FC.XI (CE.IOp OpPop)] ++ cb) in *.
  split_nf.
  destruct (IHa all env outers infn pendl st ca st1) as [N1 M1]; auto.
  destruct (IHb all env outers infn pendl st1 cb st') as [N2 M2]; auto.
  split; auto.
  intros Hfi s i P Hat HS He Hlm. cbn [cexpr].
  apply (at_app all Hfi) in Hat. destruct Hat as [A1 A2].
  destruct (M1 Hfi s i P A1 HS He Hlm) as (s1 & X1 & S1 & R1 & L1).
  rewrite (cbind_ok _ _ _ _ _ X1).
  set (j := i + length ca) in *.
  cbn [app] in A2.
  apply (at_cons all Hfi) in A2. destruct A2 as [Nj A2]. apply (at_cons all Hfi) in A2. destruct A2 as [Np A2].
  destruct (jump_step all Hfi s1 j P _ _ lop Nj S1) as (s2 & p & X2 & S2 & R2 & G).
  rewrite (cbind_ok _ _ _ _ _ X2).
  destruct (op_step all Hfi s2 (S j) (p :: P) _ lop Np S2) as (s3 & X3 & S3 & R3).
  rewrite (cbind_ok _ _ _ _ _ X3).
  assert (R13 : rest s3 = rest s1) by congruence.
  assert (He3 : envrel s3 env outers infn).
  { eapply envrel_restl; [|exact He]. rewrite (rest_restl _ _ R13). exact R1. }
  destruct (M2 Hfi s3 (S (S j)) (p :: P) A2 S3 He3 (lamrel_rest _ _ _ R13 L1)) as (s4 & X4 & S4 & R4 & L4).
  rewrite (cbind_ok _ _ _ _ _ X4).
  replace (S j + S (length cb)) with (S (S j) + length cb) in G by lia.
  destruct (patch_step all Hfi s4 _ (p :: P) P p S4 G) as (s5 & X5 & S5 & R5).
  { intros q [->|Hq]; auto. }
  exists s5. split; auto. split; [|split].
  - rewrite app_length. simpl length. replace (i + (length ca + S (S (length cb)))) with (S (S j) + length cb) by (unfold j; lia).
    exact S5.
  - rewrite (rest_restl _ _ R5), R4, (rest_restl _ _ R13). exact R1.
  - eapply lamrel_rest; eauto.
Qed.

Lemma case_or a lop b : Pe a -> Pe b -> Pe (LOr a lop b).
Proof.
  intros IHa IHb. pe_start. cbn [lokf_e erase_expr FC.xexpr_ok FC.xcexpr] in *.
  destruct (FC.xcexpr env outers st (erase_expr a)) as [ca st1] eqn:E1.
  destruct (FC.xcexpr env outers st1 (erase_expr b)) as [cb st2] eqn:E2. inversion Hc; subst; clear Hc.
  andb_split.
  change (ca ++ FC.XI (CE.IJump OpJumpIfFalse 1) :: FC.XI (CE.IJump OpJump (S (length cb))) :: FC.XI (CE.IOp OpPop) :: cb)
    with (ca ++ [FC.XI (CE.IJump OpJumpIfFalse 1); FC.XI (CE.IJump OpJump (S (length cb))); FC.XI (CE.IOp OpPop)] ++ cb) in *.
  split_nf.
  destruct (IHa all env outers infn pendl st ca st1) as [N1 M1]; auto.
  destruct (IHb all env outers infn pendl st1 cb st') as [N2 M2]; auto.
  split; auto.
  intros Hfi s i P Hat HS He Hlm. cbn [cexpr].
  apply (at_app all Hfi) in Hat. destruct Hat as [A1 A2].
  destruct (M1 Hfi s i P A1 HS He Hlm) as (s1 & X1 & S1 & R1 & L1).
  rewrite (cbind_ok _ _ _ _ _ X1).
  set (j := i + length ca) in *.
  cbn [app] in A2.
  apply (at_cons all Hfi) in A2. destruct A2 as [Nj A2]. apply (at_cons all Hfi) in A2. destruct A2 as [Nj2 A2].
  apply (at_cons all Hfi) in A2. destruct A2 as [Np A2].
  destruct (jump_step all Hfi s1 j P _ _ lop Nj S1) as (s2 & p1 & X2 & S2 & R2 & G1).
  rewrite (cbind_ok _ _ _ _ _ X2).
  destruct (jump_step all Hfi s2 (S j) (p1 :: P) _ _ lop Nj2 S2) as (s3 & p2 & X3 & S3 & R3 & G2).
  rewrite (cbind_ok _ _ _ _ _ X3).
  replace (S j + 1) with (S (S j)) in G1 by lia.
  destruct (patch_step all Hfi s3 _ (p2 :: p1 :: P) (p2 :: P) p1 S3 G1) as (s4 & X4 & S4 & R4).
  { intros q [->|[->|Hq]]; simpl; auto. }
  rewrite (cbind_ok _ _ _ _ _ X4).
  destruct (op_step all Hfi s4 (S (S j)) (p2 :: P) _ lop Np S4) as (s5 & X5 & S5 & R5).
  rewrite (cbind_ok _ _ _ _ _ X5).
  assert (R15 : rest s5 = rest s1) by congruence.
  assert (He5 : envrel s5 env outers infn).
  { eapply envrel_restl; [|exact He]. rewrite (rest_restl _ _ R15). exact R1. }
  destruct (M2 Hfi s5 (S (S (S j))) (p2 :: P) A2 S5 He5 (lamrel_rest _ _ _ R15 L1)) as (s6 & X6 & S6 & R6 & L6).
  rewrite (cbind_ok _ _ _ _ _ X6).
  replace (S (S j) + S (length cb)) with (S (S (S j)) + length cb) in G2 by lia.
  destruct (patch_step all Hfi s6 _ (p2 :: P) P p2 S6 G2) as (s7 & X7 & S7 & R7).
  { intros q [->|Hq]; auto. }
  exists s7. split; auto. split; [|split].
  - rewrite app_length. simpl length.
    replace (i + (length ca + S (S (S (length cb))))) with (S (S (S j)) + length cb) by (unfold j; lia). exact S7.
  - rewrite (rest_restl _ _ R7), R6, (rest_restl _ _ R15). exact R1.
  - eapply lamrel_rest; eauto.
Qed.

(* ---------- variables ---------- *)
Lemma nocap_get_up k x : FC.nocap_code (FC.xi [FC.var_get (FC.RUp k) x]) = true -> False.
Proof. discriminate. Qed.
Lemma nocap_set_up k x : FC.nocap_code (FC.xi [FC.var_set (FC.RUp k) x]) = true -> False.
Proof. discriminate. Qed.

Lemma emitsX_get_global all env outers infn st x l :
  namef_ok x = true -> CE.resolve_local env x = CE.LNone -> FC.find_outer outers x 0 = None ->
  EmitsX all env outers infn st st (named_get x l) [FC.XI (CE.IGlobal OpGetGlobal x)] tt.
Proof.
  intros Hx Hr Ho Hfi s i P Hat HS He Hlm. unfold named_get.
  apply (at_cons all Hfi) in Hat. destruct Hat as [Hn _]. destruct HS as (Hc & Hk & Ha).
  destruct (resolve_global_step all _ _ _ _ l _ _ _ Hfi He Hx Hr Ho Hn eq_refl Hk) as (g & s1 & E1 & R1 & C1 & K1 & I1).
  rewrite (cbind_ok _ _ _ _ _ E1). cbn [emit_variable_op is_op8].
  destruct (const16_step all Hfi s1 i P _ (CE.CStr x) OpGetGlobal g l Hn eq_refl (fun _ => eq_refl) I1) as (s2 & E2 & S2 & R2); auto.
  { unfold cpos in *. rewrite C1. exact Hc. }
  { rewrite C1. exact Ha. }
  exists s2. simpl. rewrite Nat.add_1_r. split; auto. split; auto.
  assert (R : rest s2 = rest s) by congruence.
  split; [apply rest_restl; auto|eapply lamrel_rest; eauto].
Qed.

Lemma emitsX_get_local all env outers infn st x l k :
  namef_ok x = true -> CE.resolve_local env x = CE.LFound k ->
  EmitsX all env outers infn st st (named_get x l) [FC.XI (CE.IOp8 OpGetLocal k)] tt.
Proof.
  intros Hx Hr Hfi s i P Hat HS He Hlm. unfold named_get.
  rewrite (cbind_ok _ _ _ _ _ (resolve_variable_local _ _ _ _ _ l _ He Hx Hr)). cbn [emit_variable_op is_op8].
  apply (emitsX_op8 all env outers infn st OpGetLocal k l); auto.
Qed.

Lemma case_var l x : Pe (LVar l x).
Proof.
  pe_start. cbn [lokf_e erase_expr FC.xexpr_ok FC.xcexpr cexpr] in *.
  destruct (FC.resolve_var env outers st x) as [r st1] eqn:R. inversion Hc; subst; clear Hc.
  assert (Nup : forall k, r <> FC.RUp k) by (intros k ->; exact (nocap_get_up _ _ Hn)).
  destruct (resolve_var_nocap _ _ _ _ _ _ _ Hok R Nup) as [-> [(k & -> & Hr)|(-> & Hr & Ho)]]; split; auto.
  - apply emitsX_get_local; auto.
  - apply emitsX_get_global; auto.
Qed.

Lemma case_assign x e l : Pe e -> Pe (LAssign x e l).
Proof.
  intros IH. pe_start. cbn [lokf_e erase_expr FC.xexpr_ok FC.xcexpr cexpr] in *.
  destruct (FC.resolve_var env outers st x) as [r st1] eqn:R.
  destruct (FC.xcexpr env outers st1 (erase_expr e)) as [c st2] eqn:E1.
  apply andb_prop in Hl. destruct Hl as [Hx Hle]. apply andb_prop in Hok. destruct Hok as [Hvo Hoke].
  assert (Nup : forall k, r <> FC.RUp k).
  { intros k ->. inversion Hc; subst. split_nf.
    match goal with H : FC.nocap_code [_] = true |- _ => discriminate H end. }
  destruct (resolve_var_nocap _ _ _ _ _ _ _ Hvo R Nup) as [-> [(k & -> & Hr)|(-> & Hr & Ho)]];
    inversion Hc; subst; clear Hc.
  - split_nf. destruct (IH all env outers infn pendl st c st') as [N1 M1]; auto. split; auto.
    intros Hfi s i P Hat HS He Hlm.
    rewrite (cbind_ok _ _ _ _ _ (resolve_variable_local _ _ _ _ _ l _ He Hx Hr)).
    revert Hfi s i P Hat HS He Hlm.
    change (EmitsX all env outers infn st st' (cexpr e ;;; emit_variable_op OpSetLocal k l)
      (c ++ [FC.XI (CE.IOp8 OpSetLocal k)]) tt).
    eapply EmitsX_bind; [exact M1|apply emitsX_op8].
  - split_nf. destruct (IH all env outers infn pendl st c st') as [N1 M1]; auto. split; auto.
    intros Hfi s i P Hat HS He Hlm. cbn [app] in Hat. apply (at_cons all Hfi) in Hat. destruct Hat as [Hn0 Hat].
    destruct (resolve_global_step all _ _ _ _ l _ _ _ Hfi He Hx Hr Ho Hn0 eq_refl (proj1 (proj2 HS)))
      as (g & s1 & X1 & R1 & C1 & K1 & I1).
    rewrite (cbind_ok _ _ _ _ _ X1).
    pose proof (touch_St all s s1 i P _ Hfi Hn0 HS C1 K1) as S1.
    apply (at_app all Hfi) in Hat. destruct Hat as [A1 A2]. apply (at_cons all Hfi) in A2. destruct A2 as [Nj _].
    destruct (M1 Hfi s1 (S i) P A1 S1 (envrel_restl _ _ _ _ _ (rest_restl _ _ R1) He) (lamrel_rest _ _ _ R1 Hlm))
      as (s2 & X2 & S2 & R2 & L2).
    rewrite (cbind_ok _ _ _ _ _ X2). cbn [emit_variable_op is_op8].
    destruct (global16_step all Hfi s2 _ P OpSetGlobal x g l (S i) Nj ltac:(lia) I1 S2) as (s3 & X3 & S3 & R3).
    exists s3. split; auto. split; [|split].
    + cbn [app length]. rewrite app_length. simpl length.
      replace (i + S (length c + 1)) with (S (S i + length c)) by lia. exact S3.
    + rewrite (rest_restl _ _ R3), R2. apply rest_restl; auto.
    + exact (lamrel_rest _ _ _ R3 L2).
Qed.

Lemma compound_code_ops op : is_compound_op op = true -> CE.compound_code op = map CE.IOp (binop_ops op).
Proof. destruct op; simpl; try discriminate; reflexivity. Qed.

Lemma emit_compound_eq op l : is_compound_op op = true -> emit_compound op l = emit_ops (binop_ops op) l.
Proof. intros H. unfold emit_compound. rewrite H. reflexivity. Qed.

Lemma is_compound_agree op : CE.is_compound_op op = is_compound_op op.
Proof. destruct op; reflexivity. Qed.

Lemma xi_app a b : FC.xi (a ++ b) = FC.xi a ++ FC.xi b.
Proof. unfold FC.xi. apply map_app. Qed.

Lemma case_compound x op lop e l : Pe e -> Pe (LCompound x op lop e l).
Proof.
  intros IH. pe_start. cbn [lokf_e erase_expr FC.xexpr_ok FC.xcexpr cexpr] in *.
  destruct (FC.resolve_var env outers st x) as [r st1] eqn:R.
  destruct (FC.xcexpr env outers st1 (erase_expr e)) as [c st2] eqn:E1.
  apply andb_prop in Hl. destruct Hl as [Hx Hle]. apply andb_prop in Hok. destruct Hok as [Hvo Hoke].
  apply andb_prop in Hvo. destruct Hvo as [Hvo Hop]. rewrite is_compound_agree in Hop.
  inversion Hc; subst; clear Hc. rewrite (compound_code_ops _ Hop), xi_app in *.
  change (FC.XI (FC.var_get r x) :: c ++ FC.xi (map CE.IOp (binop_ops op)) ++ FC.xi [FC.var_set r x])
    with (FC.xi [FC.var_get r x] ++ c ++ FC.xi (map CE.IOp (binop_ops op)) ++ FC.xi [FC.var_set r x]) in *.
  split_nf.
  assert (Nup : forall k, r <> FC.RUp k).
  { intros k ->. match goal with H : FC.nocap_code (FC.xi [FC.var_get _ _]) = true |- _ => discriminate H end. }
  destruct (resolve_var_nocap _ _ _ _ _ _ _ Hvo R Nup) as [-> [(k & -> & Hr)|(-> & Hr & Ho)]].
  - destruct (IH all env outers infn pendl st c st') as [N1 M1]; auto. split; auto.
    intros Hfi s i P Hat HS He Hlm.
    rewrite (cbind_ok _ _ _ _ _ (resolve_variable_local _ _ _ _ _ lop _ He Hx Hr)).
    revert Hfi s i P Hat HS He Hlm.
    change (EmitsX all env outers infn st st'
              (emit_variable_op OpGetLocal k lop ;;; cexpr e ;;; emit_compound op l ;;; emit_variable_op OpSetLocal k l)
              ([FC.XI (CE.IOp8 OpGetLocal k)] ++ c ++ FC.xi (map CE.IOp (binop_ops op)) ++ [FC.XI (CE.IOp8 OpSetLocal k)]) tt).
    eapply EmitsX_bind; [apply emitsX_op8|]. eapply EmitsX_bind; [exact M1|].
    eapply EmitsX_bind; [|apply emitsX_op8].
    rewrite (emit_compound_eq _ l Hop). apply emitsX_ops.
  - destruct (IH all env outers infn pendl st c st') as [N1 M1]; auto. split; auto.
    intros Hfi s i P Hat HS He Hlm. cbn [FC.xi map app FC.var_get] in Hat.
    apply (at_cons all Hfi) in Hat. destruct Hat as [Hn0 Hat]. destruct HS as (Hcp & Hk & Ha).
    destruct (resolve_global_step all _ _ _ _ lop _ _ _ Hfi He Hx Hr Ho Hn0 eq_refl Hk)
      as (g & s1 & X1 & R1 & C1 & K1 & I1).
    rewrite (cbind_ok _ _ _ _ _ X1). cbn [emit_variable_op is_op8].
    destruct (const16_step all Hfi s1 i P _ (CE.CStr x) OpGetGlobal g lop Hn0 eq_refl (fun _ => eq_refl) I1)
      as (s2 & X2 & S2 & R2); auto.
    { unfold cpos in *. rewrite C1. exact Hcp. }
    { rewrite C1. exact Ha. }
    rewrite (cbind_ok _ _ _ _ _ X2).
    apply (at_app all Hfi) in Hat. destruct Hat as [A1 A2]. apply (at_app all Hfi) in A2. destruct A2 as [A2 A3].
    cbn [FC.xi map FC.var_set] in A3. apply (at_cons all Hfi) in A3. destruct A3 as [Nj _].
    assert (R02 : rest s2 = rest s) by congruence.
    destruct (M1 Hfi s2 (S i) P A1 S2 (envrel_restl _ _ _ _ _ (rest_restl _ _ R02) He) (lamrel_rest _ _ _ R02 Hlm))
      as (s3 & X3 & S3 & R3 & L3).
    rewrite (cbind_ok _ _ _ _ _ X3). rewrite (emit_compound_eq _ l Hop).
    assert (R03 : restl s3 = restl s) by (rewrite R3; apply rest_restl; auto).
    destruct (emitsX_ops all env outers infn st' (binop_ops op) l Hfi s3 _ P A2 S3 (envrel_restl _ _ _ _ _ R03 He) L3)
      as (s4 & X4 & S4 & R4 & L4).
    rewrite (cbind_ok _ _ _ _ _ X4).
    destruct (global16_step all Hfi s4 _ P OpSetGlobal x g l (S i) Nj ltac:(lia) I1 S4) as (s5 & X5 & S5 & R5).
    exists s5. split; auto. split; [|split].
    + cbn [FC.xi map app length]. rewrite !app_length. cbn [length map].
      match goal with |- St _ _ ?a _ => match type of S5 with St _ _ ?b _ => replace a with b by lia end end.
      exact S5.
    + rewrite (rest_restl _ _ R5), R4. exact R03.
    + exact (lamrel_rest _ _ _ R5 L4).
Qed.

(* ================================================================== *)
(* statements: infrastructure                                           *)

(* ---------- FullCompile's declaration / scope primitives as equations ---------- *)
Lemma parse_variable_global x l s : k_scope (s_cur s) = 0 -> parse_variable x l s = make_constant (KStr x) s.
Proof.
  intros H. unfold parse_variable, declare_variable, cbind, cur. rewrite H. cbn [Nat.eqb Nat.ltb Nat.leb]. unfold cret.
  rewrite H. reflexivity.
Qed.

Lemma define_variable_global g l s : k_scope (s_cur s) = 0 -> define_variable g l s = emit_op16 OpDefineGlobal g l s.
Proof. intros H. unfold define_variable, cbind, cur. rewrite H. reflexivity. Qed.

Lemma parse_variable_local x l s d :
  k_scope (s_cur s) = S d -> declared_in_scope x (S d) (k_locals (s_cur s)) = false ->
  Nat.eqb (length (k_locals (s_cur s))) LOCALS_MAX = false ->
  parse_variable x l s =
  COk (0%N, mkS (with_locals (s_cur s) (mkKL x None false :: k_locals (s_cur s))) (s_outer s) (s_classes s) (s_line s)).
Proof.
  intros H Hd Hn. unfold parse_variable, declare_variable, add_local, cbind, cur. rewrite H. cbn [Nat.eqb].
  rewrite Hd, Hn. unfold upd, cret. cbn [s_cur k_scope with_locals]. rewrite H. reflexivity.
Qed.

Lemma define_variable_local g l s d x KL :
  k_scope (s_cur s) = S d -> k_locals (s_cur s) = mkKL x None false :: KL ->
  define_variable g l s =
  COk (tt, mkS (with_locals (s_cur s) (mkKL x (Some (S d)) false :: KL)) (s_outer s) (s_classes s) (s_line s)).
Proof.
  intros H HL. unfold define_variable, mark_initialised, mark_last_initialised, cbind, cur. rewrite H. cbn [Nat.ltb Nat.leb Nat.eqb].
  unfold upd. rewrite H. cbn [Nat.eqb]. cbv beta. rewrite HL, H. reflexivity.
Qed.

Lemma mark_initialised_local s d x dep KL :
  k_scope (s_cur s) = S d -> k_locals (s_cur s) = mkKL x dep false :: KL ->
  mark_initialised s =
  COk (tt, mkS (with_locals (s_cur s) (mkKL x (Some (S d)) false :: KL)) (s_outer s) (s_classes s) (s_line s)).
Proof.
  intros H HL. unfold mark_initialised, mark_last_initialised, cbind, cur. rewrite H. cbn [Nat.eqb].
  unfold upd. rewrite HL, H. reflexivity.
Qed.

Lemma mark_initialised_global s : k_scope (s_cur s) = 0 -> mark_initialised s = COk (tt, s).
Proof. intros H. unfold mark_initialised, cbind, cur. rewrite H. reflexivity. Qed.

Lemma end_scope_eq l s :
  end_scope l s =
  (let s0 := mkS (with_scope (s_cur s) (pred (k_scope (s_cur s)))) (s_outer s) (s_classes s) (s_line s) in
   let ops := scope_end_ops (pred (k_scope (s_cur s))) (k_locals (s_cur s)) in
   cbind (emit_ops ops l) (fun _ => upd (fun c => with_locals c (skipn (length ops) (k_locals c)))) s0).
Proof. reflexivity. Qed.

Lemma emit_exc_handler_pops_none td l s : k_try_depth (s_cur s) = 0 -> emit_exc_handler_pops td l s = COk (tt, s).
Proof. intros H. unfold emit_exc_handler_pops, cbind, cur. rewrite H. reflexivity. Qed.

Lemma emit_scope_end_keep d l s s1 :
  emit_ops (scope_end_ops d (k_locals (s_cur s))) l s = COk (tt, s1) -> emit_scope_end false d l s = COk (tt, s1).
Proof. intros H. unfold emit_scope_end, cbind, cur. cbv zeta. rewrite H. reflexivity. Qed.

(* ---------- environment facts ---------- *)
Lemma lrel_declared KL L x d : lrel KL L -> 1 <= d ->
  declared_in_scope x d KL = CE.declared_here d L x.
Proof.
  intros HR Hd. induction HR.
  - unfold slot0. cbn [declared_in_scope kl_depth CE.declared_here].
    replace (Nat.ltb 0 d) with true by (symmetry; apply Nat.ltb_lt; lia). reflexivity.
  - unfold fslot0. cbn [declared_in_scope kl_depth CE.declared_here].
    replace (Nat.ltb 0 d) with true by (symmetry; apply Nat.ltb_lt; lia). reflexivity.
  - cbn [declared_in_scope kl_depth kl_name CE.declared_here]. rewrite (ce_bytes_eqb x n), IHHR. reflexivity.
Qed.

Lemma lrel_scope_end KL L d : lrel KL L -> scope_end_ops d KL = repeat OpPop (CE.count_above d L).
Proof.
  intros HR. induction HR.
  - unfold slot0. cbn [scope_end_ops kl_depth kl_captured CE.count_above]. reflexivity.
  - unfold fslot0. cbn [scope_end_ops kl_depth kl_captured CE.count_above]. reflexivity.
  - cbn [scope_end_ops kl_depth kl_captured CE.count_above].
    destruct (Nat.leb_spec d0 d) as [H|H].
    + replace (d <? d0) with false by (symmetry; apply Nat.ltb_ge; lia). reflexivity.
    + replace (d <? d0) with true by (symmetry; apply Nat.ltb_lt; lia). cbn [repeat]. rewrite IHHR. reflexivity.
Qed.

Lemma lrel_nonempty KL L : lrel KL L -> L <> [].
Proof. destruct 1; discriminate. Qed.

Lemma lrel_skipn nd : forall KL L, lrel KL (nd ++ L) -> L <> [] -> lrel (skipn (length nd) KL) L.
Proof.
  induction nd as [|x r IH]; intros KL L HR HL; simpl in *; auto.
  inversion HR; subst.
  - exfalso. match goal with H : [] = _ ++ _ |- _ => symmetry in H; apply app_eq_nil in H; destruct H; contradiction end.
  - exfalso. match goal with H : [] = _ ++ _ |- _ => symmetry in H; apply app_eq_nil in H; destruct H; contradiction end.
  - apply IH; auto.
Qed.

Definition dinv (env : CE.cenv) : Prop := Forall (fun l : name * nat => snd l <= CE.cdepth env) (CE.clocals env).

Lemma dinv_begin env : dinv env -> dinv (CE.begin_scope env).
Proof. unfold dinv. cbn. intros H. eapply Forall_impl; [|exact H]. cbn. intros; lia. Qed.
Lemma dinv_loop env : dinv env -> dinv (CE.push_loop env).
Proof. exact (fun H => H). Qed.
Lemma dinv_add env x : dinv env -> dinv (CE.add_local env x).
Proof. intros H. unfold dinv, CE.add_local. cbn. constructor; [cbn; lia|]. exact H. Qed.
Lemma dinv_after env st : dinv env -> dinv (FC.env_after' env st).
Proof.
  intros H. destruct st; auto; cbn [FC.env_after']; destruct (CE.cdepth env) eqn:E; auto; apply dinv_add; exact H.
Qed.
Lemma dinv_fn ps : dinv (FC.fn_env ps).
Proof.
  unfold dinv, FC.fn_env. cbn. apply Forall_app. split.
  - apply Forall_forall. intros x Hx. apply in_map_iff in Hx. destruct Hx as (p & <- & _). cbn. lia.
  - constructor; [cbn; lia|constructor].
Qed.

Definition envs_after' (env : CE.cenv) (l : list stmt) : CE.cenv := fold_left FC.env_after' l env.

Lemma envs_after_shape b : forall env, CE.cdepth env <> 0 ->
  exists nd, CE.clocals (envs_after' env b) = nd ++ CE.clocals env /\ length nd = FC.count_decls' b /\
             Forall (fun l : name * nat => snd l = CE.cdepth env) nd /\
             CE.cdepth (envs_after' env b) = CE.cdepth env /\ CE.cloop (envs_after' env b) = CE.cloop env /\
             (CE.cpending env = None -> CE.cpending (envs_after' env b) = None).
Proof.
  induction b as [|x r IH]; intros env D.
  - exists []. cbn. repeat split; auto.
  - unfold envs_after'. cbn [fold_left]. fold (envs_after' (FC.env_after' env x) r).
    assert (D' : CE.cdepth (FC.env_after' env x) <> 0).
    { destruct x; try exact D; cbn [FC.env_after']; destruct (CE.cdepth env) eqn:E; try congruence; cbn; congruence. }
    destruct (IH _ D') as (nd & A1 & A2 & A3 & A4 & A5 & A6).
    destruct x; try (exists nd; cbn [FC.env_after' FC.count_decls'] in *; repeat split; auto; fail).
    + cbn [FC.env_after' FC.count_decls'] in *. destruct (CE.cdepth env) eqn:E; [congruence|].
      cbn [CE.add_local CE.clocals CE.cdepth CE.cloop CE.cpending] in *. rewrite ?E in A1, A3, A4.
      exists (nd ++ [(x, S n)]). rewrite <- app_assoc. cbn [app]. repeat split; auto.
      all: try (rewrite app_length; simpl; lia); try (apply Forall_app; split; auto).
    + cbn [FC.env_after' FC.count_decls'] in *. destruct (CE.cdepth env) eqn:E; [congruence|].
      cbn [CE.add_local CE.clocals CE.cdepth CE.cloop CE.cpending] in *. rewrite ?E in A1, A3, A4.
      exists (nd ++ [(f, S n)]). rewrite <- app_assoc. cbn [app]. repeat split; auto.
      all: try (rewrite app_length; simpl; lia); try (apply Forall_app; split; auto).
Qed.

Lemma count_above_decls d nd L :
  Forall (fun l : name * nat => snd l = S d) nd -> Forall (fun l : name * nat => snd l <= d) L ->
  CE.count_above d (nd ++ L) = length nd.
Proof.
  intros H1 H2. induction H1 as [|[y k] r Hk _ IH]; cbn [app length].
  - apply CP.count_above_le. exact H2.
  - cbn [CE.count_above]. cbn [snd] in Hk. subst k.
    replace (d <? S d) with true by (symmetry; apply Nat.ltb_lt; lia). rewrite IH. reflexivity.
Qed.

Lemma scope_end_nil total : forall n, FC.scope_end_code [] total n = map CE.IOp (repeat OpPop n).
Proof. intros n. revert total. induction n; intros total; cbn; auto. rewrite IHn. reflexivity. Qed.

Lemma scope_end_nocap cap : forall n total,
  FC.nocap_code (FC.xi (FC.scope_end_code cap total n)) = true ->
  FC.scope_end_code cap total n = map CE.IOp (repeat OpPop n).
Proof.
  induction n as [|n IH]; intros total H; [reflexivity|].
  cbn [FC.scope_end_code FC.xi map] in H. apply FP.nocap_cons in H. destruct H as [H1 H2].
  cbn [FC.scope_end_code repeat map]. rewrite (IH _ H2).
  destruct (FC.mem_nat (total - 1) cap); [discriminate H1|reflexivity].
Qed.

Lemma allnil_set_caps st c : allnil st -> allnil (FC.set_cur_caps st c).
Proof. exact (fun _ => I). Qed.

(* ---------- the statement invariant ---------- *)
(* ghost: for every open loop (innermost first) its start byte, its scope depth, its EXIT byte *)
Definition lstack := list (nat * nat * nat).
Definition looprel (all : list FC.xinstr) (s : cstate) (stack : lstack) : Prop :=
  k_loops (s_cur s) = map (fun t : nat * nat * nat => (fst (fst t), snd (fst t), 0)) stack /\
  Forall2 (fun b (t : nat * nat * nat) => Forall (good (X all) (snd t)) b) (k_breaks (s_cur s)) stack.
Definition pending (s : cstate) : list nat := concat (k_breaks (s_cur s)).
Definition loopcond (all : list FC.xinstr) (env : CE.cenv) (stack : lstack) (i cont E : nat) : Prop :=
  forall d nl, CE.cloop env = Some (d, nl) ->
    exists LS rst, stack = (LS, d, E) :: rst /\ cont <= i /\ LS = off all (i - cont).

(* what no statement of the fragment changes in the current compiler: the enclosing compilers, name, arity *)
Definition ghost (s : cstate) : list comp * list byte * N := (s_outer s, k_name (s_cur s), k_arity (s_cur s)).

Record Post (all : list FC.xinstr) (s : cstate) (i : nat) (Q : list nat) (env : CE.cenv) (outers : list CE.cenv)
       (infn : bool) (st : FC.cst) (stack : lstack) (G : list comp * list byte * N) : Prop := mkPost {
  po_st : St all s i (Q ++ pending s);
  po_env : envrel s env outers infn;
  po_pend : CE.cpending env = None;
  po_lam : lamrel s st;
  po_loop : looprel all s stack;
  po_ghost : ghost s = G }.

Lemma restl_ghost s s' : restl s' = restl s -> ghost s' = ghost s.
Proof.
  intros R. unfold ghost. rewrite (restl_outer _ _ R). pose proof (restl_c _ _ R) as Rc.
  pose proof (f_equal k_name Rc) as H1. pose proof (f_equal k_arity Rc) as H2. cbn in H1, H2. rewrite H1, H2. reflexivity.
Qed.

Lemma Post_restl all s s' i i' Q Q' env outers infn st st' stack G :
  restl s' = restl s -> lamrel s' st' -> St all s' i' (Q' ++ pending s) ->
  Post all s i Q env outers infn st stack G -> Post all s' i' Q' env outers infn st' stack G.
Proof.
  intros R HL HS [_ He Hp _ [L1 L2] Hg]. split; auto.
  - unfold pending. rewrite (restl_breaks _ _ R). exact HS.
  - eapply envrel_restl; eauto.
  - split; [rewrite (restl_loops _ _ R); auto|rewrite (restl_breaks _ _ R); auto].
  - rewrite (restl_ghost _ _ R). exact Hg.
Qed.

Lemma Post_rest all s s' i i' Q Q' env outers infn st stack G :
  rest s' = rest s -> St all s' i' (Q' ++ pending s) ->
  Post all s i Q env outers infn st stack G -> Post all s' i' Q' env outers infn st stack G.
Proof.
  intros R HS HP. eapply Post_restl; [apply rest_restl; exact R| |exact HS|exact HP].
  eapply lamrel_rest; [exact R|exact (po_lam _ _ _ _ _ _ _ _ _ _ HP)].
Qed.

Lemma lift_emits all env outers infn st st' m is s i Q stack G :
  afits all -> EmitsX all env outers infn st st' m is tt -> at_ all i is -> Post all s i Q env outers infn st stack G ->
  exists s', m s = COk (tt, s') /\ Post all s' (i + length is) Q env outers infn st' stack G.
Proof.
  intros Hf HE Hat HP.
  destruct (HE Hf s i _ Hat (po_st _ _ _ _ _ _ _ _ _ _ HP) (po_env _ _ _ _ _ _ _ _ _ _ HP) (po_lam _ _ _ _ _ _ _ _ _ _ HP))
    as (s' & E & S' & R & L).
  exists s'. split; auto. eapply Post_restl; eauto.
Qed.

Lemma Post_set_line all s l i Q env outers infn st stack G :
  Post all s i Q env outers infn st stack G -> Post all (mkS (s_cur s) (s_outer s) (s_classes s) l) i Q env outers infn st stack G.
Proof. intros [H1 H2 H3 H4 H5 H6]. split; assumption. Qed.

(* a change of the current compiler's locals / scope depth only *)
Definition restp (s : cstate) : list comp * list N * list const * comp :=
  (s_outer s, scode s, k_consts (s_cur s), with_locals (with_scope (restc (s_cur s)) 0) []).

Lemma Post_change all s s' i Q env env' outers infn st stack G :
  Post all s i Q env outers infn st stack G -> restp s' = restp s ->
  comprel (s_cur s') env' -> CE.cpending env' = None -> Post all s' i Q env' outers infn st stack G.
Proof.
  intros [HS (_ & Ho & Ht & Htd & Hu & Hk) _ HL [L1 L2] Hg] R Hc Hp.
  unfold restp in R.
  pose proof (f_equal (fun r : list comp * list N * list const * comp => fst (fst (fst r))) R) as R1.
  pose proof (f_equal (fun r : list comp * list N * list const * comp => snd (fst (fst r))) R) as R2.
  pose proof (f_equal (fun r : list comp * list N * list const * comp => snd (fst r)) R) as R3.
  pose proof (f_equal (fun r : list comp * list N * list const * comp => snd r) R) as R4.
  cbn [fst snd] in R1, R2, R3, R4.
  pose proof (f_equal k_breaks R4) as Eb. pose proof (f_equal k_loops R4) as El.
  pose proof (f_equal k_lambdas R4) as Elm. pose proof (f_equal k_in_try R4) as Eit.
  pose proof (f_equal k_try_depth R4) as Etd. pose proof (f_equal k_upvalues R4) as Eu.
  pose proof (f_equal k_kind R4) as Ek. pose proof (f_equal k_name R4) as En. pose proof (f_equal k_arity R4) as Ea.
  cbn in Eb, El, Elm, Eit, Etd, Eu, Ek, En, Ea.
  split; auto.
  - unfold pending. rewrite Eb. destruct HS as (C1 & [K1 K2] & A1). unfold St, cpos, kpos. rewrite R2, R3. auto.
  - unfold envrel. rewrite R1, Eit, Etd, Eu, Ek. auto 10.
  - unfold lamrel in *. cbn [map] in *. rewrite R1, Elm. exact HL.
  - split; [rewrite El; auto|rewrite Eb; auto].
  - unfold ghost in *. rewrite R1, En, Ea. exact Hg.
Qed.

Definition restq (s : cstate) : list comp * comp :=
  (s_outer s, with_lambdas (with_locals (with_scope (restc (s_cur s)) 0) []) 0).

Lemma restl_restq s s' : restl s' = restl s -> restq s' = restq s.
Proof.
  intros R. unfold restq. rewrite (restl_outer _ _ R). f_equal.
  pose proof (restl_c _ _ R) as Rc.
  apply (f_equal (fun c => with_locals (with_scope c 0) [])) in Rc. exact Rc.
Qed.

Lemma Post_build all s s' i i' Q env env' outers infn st st' stack G :
  Post all s i Q env outers infn st stack G -> restq s' = restq s ->
  St all s' i' (Q ++ pending s) -> lamrel s' st' -> comprel (s_cur s') env' -> CE.cpending env' = None ->
  Post all s' i' Q env' outers infn st' stack G.
Proof.
  intros [_ (_ & Ho & Ht & Htd & Hu & Hk) _ _ [L1 L2] Hg] R HS HL Hc Hp.
  unfold restq in R.
  pose proof (f_equal fst R) as R1. pose proof (f_equal snd R) as R4. cbn [fst snd] in R1, R4.
  pose proof (f_equal k_breaks R4) as Eb. pose proof (f_equal k_loops R4) as El.
  pose proof (f_equal k_in_try R4) as Eit.
  pose proof (f_equal k_try_depth R4) as Etd. pose proof (f_equal k_upvalues R4) as Eu.
  pose proof (f_equal k_kind R4) as Ek. pose proof (f_equal k_name R4) as En. pose proof (f_equal k_arity R4) as Ea.
  cbn in Eb, El, Eit, Etd, Eu, Ek, En, Ea.
  split; auto.
  - unfold pending. rewrite Eb. exact HS.
  - unfold envrel. rewrite R1, Eit, Etd, Eu, Ek. auto 10.
  - split; [rewrite El; auto|rewrite Eb; auto].
  - unfold ghost in *. rewrite R1, En, Ea. exact Hg.
Qed.

(* ---------- the induction predicates for statements ---------- *)
Definition Ps (stm : lstmt) : Prop :=
  forall all env outers infn pendl st brk cont is st' s i Q stack G,
    afits all ->
    lokf_s stm = true -> FC.xstmt_ok env pendl infn (erase_stmt stm) = true -> dinv env ->
    FC.xcstmt env outers st brk cont (erase_stmt stm) = (is, st') ->
    FC.nocap_code is = true -> sub_fits is = true -> allnil st ->
    at_ all i is -> Post all s i Q env outers infn st stack G ->
    loopcond all env stack i cont (off all (i + length is + brk)) ->
    allnil st' /\
    exists s', cstmt stm s = COk (tt, s') /\
               Post all s' (i + length is) Q (FC.env_after' env (erase_stmt stm)) outers infn st' stack G.

Definition Pss (ss : lstmts) : Prop :=
  forall all env outers infn pendl st brk cont is st' s i Q stack G,
    afits all ->
    lokf_ss ss = true -> FC.xstmts_ok env pendl infn (erase_stmts ss) = true -> dinv env ->
    FC.xcstmts env outers st brk cont (erase_stmts ss) = (is, st') ->
    FC.nocap_code is = true -> sub_fits is = true -> allnil st ->
    at_ all i is -> Post all s i Q env outers infn st stack G ->
    loopcond all env stack i cont (off all (i + length is + brk)) ->
    allnil st' /\
    exists s', cstmts ss s = COk (tt, s') /\
               Post all s' (i + length is) Q (envs_after' env (erase_stmts ss)) outers infn st' stack G.

(* destruct the scrutinee of the outermost `let (c, st) := t in ..` of hypothesis H (after cbn the sibling functions of a
   mutual fixpoint are not syntactically the constants any more, so the term is taken from H itself) *)
Ltac dlet H c st E :=
  match type of H with
  | context [let (_, _) := ?t in _] => destruct t as [c st] eqn:E; try rewrite E in H
  end.

Ltac ps_start :=
  intros all env outers infn pendl st brk cont is st' s i Q stack G Hfi Hl Hok Hd Hc Hn Hf Hnil Hat HP HL.

(* ---------- expression statement ---------- *)
Lemma case_sexpr e l : Pe e -> Ps (LSExpr e l).
Proof.
  intros IHe. ps_start. cbn [lokf_s erase_stmt FC.xstmt_ok FC.xcstmt FC.env_after' cstmt] in *.
  dlet Hc c st1 E1. inversion Hc; subst; clear Hc. split_nf.
  destruct (IHe all env outers infn pendl st c st') as [N1 M1]; auto. split; auto.
  destruct (lift_emits all env outers infn st st' (cexpr e ;;; emit_op OpPop l) _ s i Q stack G Hfi
              (EmitsX_bind _ _ _ _ _ _ _ _ _ _ _ _ _ M1 (emitsX_op all env outers infn st' OpPop l)) Hat HP) as (s' & X1 & HP').
  exists s'. split; auto.
Qed.

(* ---------- var ---------- *)
Lemma stmt_ok_var_local env pendl infn x init d :
  CE.cdepth env = S d -> FC.xstmt_ok env pendl infn (SVar 0%N x init) = true ->
  CE.declared_here (S d) (CE.clocals env) x = false /\ length (CE.clocals env) < 256 /\
  match init with Some e => FC.xexpr_ok (CE.with_pending env x) pendl e = true | None => True end.
Proof.
  intros Hd H. cbn [FC.xstmt_ok] in H. rewrite Hd in H.
  apply andb_prop in H. destruct H as [H H3]. apply andb_prop in H. destruct H as [H1 H2].
  apply negb_true_iff in H1. apply Nat.ltb_lt in H2. repeat split; auto. destruct init; auto.
Qed.

Lemma locals_not_max (KL : list klocal) : length KL < 256 -> Nat.eqb (length KL) LOCALS_MAX = false.
Proof. intros H. apply Nat.eqb_neq. unfold LOCALS_MAX. lia. Qed.

(* the state after `declare_variable x` in a scope: x is the newest local, not yet initialised *)
Definition declared (s : cstate) (x : name) : cstate :=
  mkS (with_locals (s_cur s) (mkKL x None false :: k_locals (s_cur s))) (s_outer s) (s_classes s) (s_line s).
Definition defined (s : cstate) (x : name) (d : nat) (KL : list klocal) : cstate :=
  mkS (with_locals (s_cur s) (mkKL x (Some d) false :: KL)) (s_outer s) (s_classes s) (s_line s).

Lemma declare_local all s i Q env outers infn st stack G x l d :
  Post all s i Q env outers infn st stack G -> CE.cdepth env = S d ->
  CE.declared_here (S d) (CE.clocals env) x = false -> length (CE.clocals env) < 256 ->
  parse_variable x l s = COk (0%N, declared s x) /\
  k_scope (s_cur s) = S d /\ lrel (k_locals (s_cur s)) (CE.clocals env) /\
  envrel (declared s x) (CE.with_pending env x) outers infn.
Proof.
  intros [HS He Hp HLm HLp Hg] Hd Hdecl Hlen.
  destruct He as ((Esc & KL & EKL & ELr) & Ho & Ht & Htd & Hu & Hk).
  rewrite Hp in EKL. cbn [pend app] in EKL. subst KL. rewrite Hd in Esc.
  split; [|split; [exact Esc|split; [exact ELr|]]].
  - apply (parse_variable_local x l s d Esc).
    + rewrite (lrel_declared _ _ x (S d) ELr) by lia. exact Hdecl.
    + apply locals_not_max. rewrite (lrel_length _ _ ELr). exact Hlen.
  - unfold envrel, comprel, declared. cbn [s_cur s_outer k_scope k_locals k_in_try k_try_depth k_upvalues k_kind with_locals
                                          CE.with_pending CE.cdepth CE.cpending CE.clocals pend app].
    split; [split; [rewrite Esc, Hd; reflexivity|eexists; split; [reflexivity|exact ELr]]|auto].
Qed.

(* the state after define_variable of the newest local: Post for the extended environment *)
Lemma define_local_post all s s2 i i' Q env outers infn st st' stack G x d :
  Post all s i Q env outers infn st stack G -> CE.cdepth env = S d ->
  lrel (k_locals (s_cur s)) (CE.clocals env) ->
  restl s2 = restl (declared s x) -> St all s2 i' (Q ++ pending s) -> lamrel s2 st' ->
  Post all (defined s2 x (S d) (k_locals (s_cur s))) i' Q (CE.add_local env x) outers infn st' stack G.
Proof.
  intros HP Hd ELr R2 S2 L2.
  eapply Post_build; [exact HP| |exact S2|exact L2| |reflexivity].
  - transitivity (restq s2); [reflexivity|]. rewrite (restl_restq _ _ R2). reflexivity.
  - unfold comprel, defined. cbn [s_cur k_scope k_locals with_locals CE.add_local CE.cdepth CE.cpending CE.clocals pend app].
    split.
    + rewrite (restl_scope _ _ R2). unfold declared. cbn [s_cur k_scope with_locals].
      destruct HP as [_ ((Esc & _) & _) _ _ _ _]. exact Esc.
    + eexists. split; [reflexivity|]. rewrite Hd. apply lrel_cons. exact ELr.
Qed.

Lemma St_touch_global all s i P x l :
  afits all -> nth_error all i = Some (FC.XI (CE.ITouch (CE.CStr x))) -> St all s i P -> k_scope (s_cur s) = 0 ->
  exists g s1, parse_variable x l s = COk (g, s1) /\ rest s1 = rest s /\ St all s1 (S i) P /\
               FC.xconst_index (tblat all (S i)) (CE.CStr x) = Some (N.to_nat g).
Proof.
  intros Hfi N0 HS Hsc. pose proof HS as (Hc & Hk & Ha).
  destruct (mkconst_step all Hfi s i _ (CE.CStr x) N0 eq_refl I Hk) as (g & s1 & X1 & R1 & C1 & K1 & I1).
  exists g, s1. rewrite (parse_variable_global x l s Hsc). split; auto. split; auto. split; auto.
  eapply touch_St; eauto.
Qed.

Lemma Post_scope0 all s i Q env outers infn st stack G :
  Post all s i Q env outers infn st stack G -> CE.cdepth env = 0 -> k_scope (s_cur s) = 0.
Proof. intros [_ ((Esc & _) & _) _ _ _ _] H. rewrite Esc. exact H. Qed.

Lemma case_svar x lname lsemi : Ps (LSVar x lname lsemi).
Proof.
  ps_start. cbn [erase_stmt cstmt] in *.
  rewrite (cbind_ok _ _ _ _ _ (set_line_step lname s)).
  set (s0 := mkS (s_cur s) (s_outer s) (s_classes s) lname).
  assert (HP0 : Post all s0 i Q env outers infn st stack G) by (apply Post_set_line; exact HP).
  destruct (CE.cdepth env) as [|d] eqn:Ed.
  - (* global *)
    cbn [FC.xcstmt FC.env_after'] in *. rewrite Ed in *. inversion Hc; subst; clear Hc. split; auto.
    cbn [FC.xi map app] in Hat.
    apply (at_cons all Hfi) in Hat. destruct Hat as [N0 Hat]. apply (at_cons all Hfi) in Hat. destruct Hat as [N1 Hat].
    apply (at_cons all Hfi) in Hat. destruct Hat as [N2 _].
    pose proof (Post_scope0 _ _ _ _ _ _ _ _ _ _ HP0 Ed) as E4.
    destruct (St_touch_global all s0 i _ x lname Hfi N0 (po_st _ _ _ _ _ _ _ _ _ _ HP0) E4) as (g & s1 & X1 & R1 & S1 & I1).
    rewrite (cbind_ok _ _ _ _ _ X1). cbv beta.
    destruct (op_step all Hfi s1 (S i) _ OpNil lname N1 S1) as (s2 & X2 & S2 & R2).
    rewrite (cbind_ok _ _ _ _ _ X2). cbv beta.
    assert (R02 : rest s2 = rest s0) by congruence.
    assert (E4' : k_scope (s_cur s2) = 0) by (rewrite (restc_scope _ _ (rest_cur _ _ R02)); exact E4).
    rewrite (define_variable_global g lsemi s2 E4').
    destruct (global16_step all Hfi s2 (S (S i)) _ OpDefineGlobal x g lsemi (S i) N2 ltac:(lia) I1 S2) as (s3 & X3 & S3 & R3).
    exists s3. split; auto. cbn [length]. replace (i + 3) with (S (S (S i))) by lia.
    eapply Post_rest; [|exact S3|exact HP0]. congruence.
  - (* local *)
    cbn [FC.xcstmt FC.env_after'] in *. rewrite Ed in *. inversion Hc; subst; clear Hc. split; auto.
    destruct (stmt_ok_var_local env pendl infn x None d Ed Hok) as (Hdecl & Hlen & _).
    destruct (declare_local all s0 i Q env outers infn st' stack G x lname d HP0 Ed Hdecl Hlen) as (X1 & Sc1 & ELr & He1).
    rewrite (cbind_ok _ _ _ _ _ X1).
    cbn [FC.xi map] in Hat. apply (at_cons all Hfi) in Hat. destruct Hat as [N0 _].
    assert (S1 : St all (declared s0 x) i (Q ++ pending s0)) by exact (po_st _ _ _ _ _ _ _ _ _ _ HP0).
    destruct (op_step all Hfi (declared s0 x) i _ OpNil lname N0 S1) as (s2 & X2 & S2 & R2).
    rewrite (cbind_ok _ _ _ _ _ X2). cbv beta.
    pose proof (rest_restl _ _ R2) as Rl2.
    rewrite (define_variable_local 0%N lsemi s2 d x (k_locals (s_cur s0))).
    2:{ rewrite (restl_scope _ _ Rl2). exact Sc1. }
    2:{ rewrite (restl_locals _ _ Rl2). reflexivity. }
    eexists. split; [reflexivity|]. cbn [length]. replace (i + 1) with (S i) by lia.
    apply (define_local_post all s0 s2 i (S i) Q env outers infn st' st' stack G x d HP0 Ed ELr Rl2 S2).
    eapply lamrel_rest; [exact R2|]. exact (po_lam _ _ _ _ _ _ _ _ _ _ HP0).
Qed.

Lemma case_svarinit x e lsemi : Pe e -> Ps (LSVarInit x e lsemi).
Proof.
  intros IHe. ps_start. cbn [erase_stmt cstmt lokf_s] in *.
  destruct (CE.cdepth env) as [|d] eqn:Ed.
  - (* global *)
    cbn [FC.xcstmt FC.env_after' FC.xstmt_ok] in *. rewrite Ed in *.
    dlet Hc c st1 E1. inversion Hc; subst; clear Hc. split_nf.
    destruct (IHe all env outers infn pendl st c st') as [N1 M1]; auto. split; auto.
    apply (at_cons all Hfi) in Hat. destruct Hat as [N0 Hat]. apply (at_app all Hfi) in Hat. destruct Hat as [A1 A2].
    cbn [FC.xi map] in A2. apply (at_cons all Hfi) in A2. destruct A2 as [N2 _].
    pose proof (Post_scope0 _ _ _ _ _ _ _ _ _ _ HP Ed) as E4.
    destruct (St_touch_global all s i _ x lsemi Hfi N0 (po_st _ _ _ _ _ _ _ _ _ _ HP) E4) as (g & s1 & X1 & R1 & S1 & I1).
    rewrite (cbind_ok _ _ _ _ _ X1). cbv beta.
    pose proof (Post_rest all s s1 i (S i) Q Q env outers infn st stack G R1 S1 HP) as HP1.
    destruct (lift_emits all env outers infn st st' (cexpr e) c s1 (S i) Q stack G Hfi M1 A1 HP1) as (s2 & X2 & HP2).
    rewrite (cbind_ok _ _ _ _ _ X2). cbv beta.
    pose proof (Post_scope0 _ _ _ _ _ _ _ _ _ _ HP2 Ed) as E4'.
    rewrite (define_variable_global g lsemi s2 E4').
    destruct (global16_step all Hfi s2 _ _ OpDefineGlobal x g lsemi (S i) N2 ltac:(lia) I1 (po_st _ _ _ _ _ _ _ _ _ _ HP2))
      as (s3 & X3 & S3 & R3).
    exists s3. split; auto.
    cbn [length]. rewrite app_length. cbn [length].
    replace (i + S (length c + 1)) with (S (S i + length c)) by lia.
    eapply Post_rest; [exact R3|exact S3|exact HP2].
  - (* local *)
    cbn [FC.xcstmt FC.env_after'] in *. rewrite Ed in *.
    destruct (stmt_ok_var_local env pendl infn x (Some (erase_expr e)) d Ed Hok) as (Hdecl & Hlen & Hoke).
    destruct (IHe all (CE.with_pending env x) outers infn pendl st is st') as [N1 M1]; auto. split; auto.
    destruct (declare_local all s i Q env outers infn st stack G x lsemi d HP Ed Hdecl Hlen) as (X1 & Sc1 & ELr & He1).
    rewrite (cbind_ok _ _ _ _ _ X1). cbv beta.
    assert (S1 : St all (declared s x) i (Q ++ pending s)) by exact (po_st _ _ _ _ _ _ _ _ _ _ HP).
    assert (L1 : lamrel (declared s x) st) by exact (po_lam _ _ _ _ _ _ _ _ _ _ HP).
    destruct (M1 Hfi (declared s x) i _ Hat S1 He1 L1) as (s2 & X2 & S2 & R2 & L2).
    rewrite (cbind_ok _ _ _ _ _ X2). cbv beta.
    rewrite (define_variable_local 0%N lsemi s2 d x (k_locals (s_cur s))).
    2:{ rewrite (restl_scope _ _ R2). exact Sc1. }
    2:{ rewrite (restl_locals _ _ R2). reflexivity. }
    eexists. split; [reflexivity|].
    exact (define_local_post all s s2 i _ Q env outers infn st st' stack G x d HP Ed ELr R2 S2 L2).
Qed.

(* ---------- statement lists ---------- *)
Lemma case_snil : Pss LSNil.
Proof.
  ps_start. cbn in Hc. inversion Hc; subst. split; auto. exists s. cbn. rewrite Nat.add_0_r. auto.
Qed.

Lemma cloop_after env x : CE.cloop (FC.env_after' env x) = CE.cloop env.
Proof. destruct x; try reflexivity; cbn [FC.env_after']; destruct (CE.cdepth env); reflexivity. Qed.

Lemma case_scons stm r : Ps stm -> Pss r -> Pss (LSCons stm r).
Proof.
  intros IHs IHr. ps_start.
  cbn [lokf_ss erase_stmts FC.xstmts_ok FC.xcstmts cstmts] in *.
  dlet Hc c1 st1 E1. dlet Hc c2 st2 E2.
  inversion Hc; subst; clear Hc. andb_split. split_nf.
  pose proof (FP.xslen_of _ _ _ _ _ _ _ _ E1) as L1. pose proof (FP.slens_len _ _ _ _ _ _ _ _ E2) as L2.
  apply (at_app all Hfi) in Hat. destruct Hat as [A1 A2].
  destruct (IHs all env outers infn pendl st (FC.xslens (FC.env_after' env (erase_stmt stm)) outers (erase_stmts r) + brk)
              cont c1 st1 s i Q stack G) as (N1 & s1 & X1 & HP1); auto.
  { intros d nl Hcl. destruct (HL d nl Hcl) as (LS & rst & H1' & H2' & H3'). exists LS, rst. split; [|auto].
    rewrite H1'. do 3 f_equal. rewrite app_length. lia. }
  rewrite (cbind_ok _ _ _ _ _ X1). cbv beta.
  destruct (IHr all (FC.env_after' env (erase_stmt stm)) outers infn pendl st1 brk (cont + FC.xslen env outers (erase_stmt stm))
              c2 st' s1 (i + length c1) Q stack G)
    as (N2 & s2 & X2 & HP2); auto.
  { apply dinv_after. exact Hd. }
  { intros d nl Hcl. rewrite cloop_after in Hcl.
    destruct (HL d nl Hcl) as (LS & rst & H1' & H2' & H3'). exists LS, rst. split; [|split; [lia|]].
    - rewrite H1'. do 3 f_equal. rewrite app_length. lia.
    - rewrite H3'. f_equal. lia. }
  split; auto. exists s2. split; auto.
  rewrite app_length, Nat.add_assoc. exact HP2.
Qed.

(* ---------- blocks: begin_scope; statements; end_scope ---------- *)
Lemma forget_nil : forall n total, FC.forget_slots [] total n = [].
Proof. induction n; intros total; cbn; auto. Qed.

Lemma ops_steps all (Hfi : afits all) ops l : forall s i P,
  at_ all i (FC.xi (map CE.IOp ops)) -> St all s i P ->
  exists s', emit_ops ops l s = COk (tt, s') /\ St all s' (i + length ops) P /\ rest s' = rest s.
Proof.
  induction ops as [|o r IH]; intros s i P Hat HS; cbn [emit_ops].
  - exists s. rewrite Nat.add_0_r. auto.
  - cbn [FC.xi map] in Hat. apply (at_cons all Hfi) in Hat. destruct Hat as [N0 Hat].
    destruct (op_step all Hfi s i P o l N0 HS) as (s1 & X1 & S1 & R1).
    destruct (IH s1 (S i) P Hat S1) as (s2 & X2 & S2 & R2).
    exists s2. rewrite (cbind_ok _ _ _ _ _ X1). split; auto. cbn [length].
    replace (i + S (length r)) with (S i + length r) by lia. split; auto. congruence.
Qed.

Lemma block_ok t lend : Pss t ->
  forall all env outers infn pendl st brk cont is st' s i Q stack G,
    afits all -> lokf_ss t = true -> FC.xstmts_ok (CE.begin_scope env) pendl infn (erase_stmts t) = true -> dinv env ->
    FP.xcblock env outers st brk cont (erase_stmts t) = (is, st') ->
    FC.nocap_code is = true -> sub_fits is = true -> allnil st ->
    at_ all i is -> Post all s i Q env outers infn st stack G ->
    loopcond all env stack i cont (off all (i + length is + brk)) ->
    allnil st' /\
    exists s0 s1 s',
      begin_scope s = COk (tt, s0) /\ cstmts t s0 = COk (tt, s1) /\ end_scope lend s1 = COk (tt, s') /\
      Post all s' (i + length is) Q env outers infn st' stack G.
Proof.
  intros IH all env outers infn pendl st brk cont is st' s i Q stack G Hfi Hl Hok Hd Hc Hn Hf Hnil Hat HP HL.
  unfold FP.xcblock in Hc. cbv zeta in Hc. dlet Hc c st1 E1. inversion Hc; subst; clear Hc. split_nf.
  apply (at_app all Hfi) in Hat. destruct Hat as [A1 A2].
  set (n := FC.count_decls' (erase_stmts t)) in *.
  set (s0 := mkS (with_scope (s_cur s) (S (k_scope (s_cur s)))) (s_outer s) (s_classes s) (s_line s)).
  pose proof HP as [HS ((Esc & KL & EKL & ELr) & _) Hpe _ _ _].
  rewrite Hpe in EKL. cbn [pend app] in EKL. subst KL.
  assert (HP0 : Post all s0 i Q (CE.begin_scope env) outers infn st stack G).
  { eapply Post_change; [exact HP|reflexivity| |exact Hpe].
    split; [unfold s0; cbn [s_cur k_scope with_scope CE.begin_scope CE.cdepth]; rewrite Esc; reflexivity|].
    exists (k_locals (s_cur s)). cbn [CE.begin_scope CE.cpending CE.clocals]. rewrite Hpe. split; [reflexivity|exact ELr]. }
  destruct (IH all (CE.begin_scope env) outers infn pendl st (n + brk) cont c st1 s0 i Q stack G) as (N1 & s1 & X1 & HP1); auto.
  { apply dinv_begin. exact Hd. }
  { intros d nl Hcl. destruct (HL d nl Hcl) as (LS & rst & H1' & H2' & H3'). exists LS, rst. split; [|auto].
    rewrite H1'. do 3 f_equal. rewrite app_length, FP.xi_length, FP.scope_end_length. fold n. lia. }
  match goal with H : FC.nocap_code (FC.xi (FC.scope_end_code _ _ _)) = true |- _ =>
    pose proof (scope_end_nocap _ _ _ H) as Ese end.
  rewrite Ese in *.
  split; [apply allnil_set_caps; exact N1|].
  destruct (envs_after_shape (erase_stmts t) (CE.begin_scope env)) as (nd & B1 & B2 & B3 & B4 & B5 & B6).
  { cbn. congruence. }
  cbn [CE.begin_scope CE.clocals CE.cdepth CE.cloop CE.cpending] in B1, B3, B4, B5, B6. fold n in B2.
  pose proof HP1 as [S1 ((Fsc & KL1 & FKL & FLr) & _) Fpe FL _ _].
  rewrite Fpe in FKL. cbn [pend app] in FKL. subst KL1. rewrite B4 in Fsc. rewrite B1 in FLr.
  assert (Hcnt : CE.count_above (CE.cdepth env) (nd ++ CE.clocals env) = n).
  { rewrite count_above_decls; auto. }
  assert (Hops : scope_end_ops (pred (k_scope (s_cur s1))) (k_locals (s_cur s1)) = repeat OpPop n).
  { rewrite Fsc. cbn [pred]. rewrite (lrel_scope_end _ _ _ FLr), Hcnt. reflexivity. }
  set (s1' := mkS (with_scope (s_cur s1) (pred (k_scope (s_cur s1)))) (s_outer s1) (s_classes s1) (s_line s1)).
  assert (S1' : St all s1' (i + length c) (Q ++ pending s1)) by exact S1.
  destruct (ops_steps all Hfi (repeat OpPop n) lend s1' _ _ A2 S1') as (s2 & X2 & S2 & R2).
  rewrite repeat_length in S2.
  exists s0, s1. eexists. split; [reflexivity|]. split; [exact X1|]. split.
  { rewrite end_scope_eq. cbv zeta. rewrite Hops. fold s1'. rewrite (cbind_ok _ _ _ _ _ X2). cbv beta. rewrite upd_eq. reflexivity. }
  rewrite repeat_length.
  eapply Post_build; [exact HP1| | | | |exact Hpe].
  - transitivity (restq s2); [reflexivity|]. rewrite (restl_restq _ _ (rest_restl _ _ R2)). reflexivity.
  - rewrite app_length, FP.xi_length, map_length, repeat_length, Nat.add_assoc. exact S2.
  - assert (L2 : lamrel s2 st1) by (eapply lamrel_rest; [exact R2|exact FL]). exact L2.
  - pose proof (rest_cur _ _ R2) as Rc2. split.
    + cbn [s_cur k_scope with_locals]. rewrite (restc_scope _ _ Rc2). unfold s1'. cbn [s_cur k_scope with_scope].
      rewrite Fsc. reflexivity.
    + exists (skipn n (k_locals (s_cur s2))). rewrite Hpe. cbn [pend app s_cur k_locals with_locals]. split; [reflexivity|].
      rewrite (restc_locals _ _ Rc2). unfold s1'. cbn [s_cur k_locals with_scope]. rewrite <- B2.
      apply lrel_skipn; [exact FLr|]. eapply lrel_nonempty; exact ELr.
Qed.

Lemma case_block b lend : Pss b -> Ps (LSBlock b lend).
Proof.
  intros IH. ps_start.
  cbn [lokf_s erase_stmt cstmt] in *. rewrite FP.xcstmt_block in Hc.
  assert (Hok' : FC.xstmts_ok (CE.begin_scope env) pendl infn (erase_stmts b) = true) by exact Hok.
  destruct (block_ok b lend IH all env outers infn pendl st brk cont is st' s i Q stack G Hfi Hl Hok' Hd Hc Hn Hf Hnil Hat HP HL)
    as (N1 & s0 & s1 & s' & X0 & X1 & X2 & HP').
  split; auto. exists s'. rewrite (cbind_ok _ _ _ _ _ X0). cbv beta. rewrite (cbind_ok _ _ _ _ _ X1). cbv beta. auto.
Qed.

(* ---------- if / else ---------- *)
Definition if_prefix (c : lexpr) (lcond : N) (t : lstmts) (lthen : N) (rest : nat -> C unit) : C unit :=
  cexpr c ;;;
  then_jump <- emit_jump OpJumpIfFalse lcond ;;
  emit_op OpPop lcond ;;;
  begin_scope ;;; cstmts t ;;; end_scope lthen ;;;
  else_jump <- emit_jump OpJump lthen ;;
  patch_jump then_jump ;;;
  emit_op OpPop lthen ;;;
  rest else_jump.

Lemma if_core c lcond t lthen el tail : Pe c -> Pss t ->
  forall all env outers infn pendl st brk cont cc st1 ct st2 s i Q stack G,
    afits all -> lokf_e c = true -> lokf_ss t = true ->
    FC.xexpr_ok env pendl (erase_expr c) = true ->
    FC.xstmts_ok (CE.begin_scope env) pendl infn (erase_stmts t) = true -> dinv env ->
    FC.xcexpr env outers st (erase_expr c) = (cc, st1) ->
    FP.xcblock env outers st1 (2 + el + brk) (cont + length cc + 2) (erase_stmts t) = (ct, st2) ->
    FC.nocap_code cc = true -> FC.nocap_code ct = true -> sub_fits cc = true -> sub_fits ct = true -> allnil st ->
    at_ all i (cc ++ FC.XI (CE.IJump OpJumpIfFalse (length ct + 2)) :: FC.XI (CE.IOp OpPop) ::
               ct ++ FC.XI (CE.IJump OpJump (S el)) :: FC.XI (CE.IOp OpPop) :: tail) ->
    Post all s i Q env outers infn st stack G ->
    loopcond all env stack i cont (off all (i + (length cc + 2 + length ct + 2 + el) + brk)) ->
    allnil st2 /\
    exists s7 p2,
      (forall rest, if_prefix c lcond t lthen rest s = rest p2 s7) /\
      Post all s7 (i + (length cc + 2 + length ct + 2)) (p2 :: Q) env outers infn st2 stack G /\
      good (X all) (off all (i + (length cc + 2 + length ct + 2) + el)) p2 /\
      at_ all (i + (length cc + 2 + length ct + 2)) tail.
Proof.
  intros IHc IH all env outers infn pendl st brk cont cc st1 ct st2 s i Q stack G Hfi Lc Lt Oc Ot Hd Ec Et Ncc Nct Fcc Fct Hnil Hat HP HL.
  set (tl := length ct) in *.
  destruct (IHc all env outers infn pendl st cc st1) as [N1 M1]; auto.
  apply (at_app all Hfi) in Hat. destruct Hat as [A1 A2].
  apply (at_cons all Hfi) in A2. destruct A2 as [Nj A2]. apply (at_cons all Hfi) in A2. destruct A2 as [Np A2].
  apply (at_app all Hfi) in A2. destruct A2 as [A3 A4]. fold tl in A4.
  apply (at_cons all Hfi) in A4. destruct A4 as [Nk A4]. apply (at_cons all Hfi) in A4. destruct A4 as [Np2 A5].
  (* condition *)
  destruct (lift_emits all env outers infn st st1 (cexpr c) cc s i Q stack G Hfi M1 A1 HP) as (s1 & X1 & HP1).
  set (j := i + length cc) in *.
  (* then_jump *)
  destruct (jump_step all Hfi s1 j _ _ _ lcond Nj (po_st _ _ _ _ _ _ _ _ _ _ HP1)) as (s2 & p1 & X2 & S2 & R2 & G1).
  assert (HP2 : Post all s2 (S j) (p1 :: Q) env outers infn st1 stack G) by (eapply Post_rest; [exact R2|exact S2|exact HP1]).
  destruct (lift_emits all env outers infn st1 st1 (emit_op OpPop lcond) [FC.XI (CE.IOp OpPop)] s2 (S j) (p1 :: Q) stack G Hfi
              (emitsX_op all env outers infn st1 OpPop lcond) (at_one all Hfi _ _ Np) HP2) as (s3 & X3 & HP3).
  simpl length in HP3. replace (S j + 1) with (S (S j)) in HP3 by lia.
  (* the then block *)
  destruct (block_ok t lthen IH all env outers infn pendl st1 (2 + el + brk) (cont + length cc + 2) ct st2 s3 (S (S j)) (p1 :: Q) stack G
              Hfi Lt Ot Hd Et Nct Fct N1 A3 HP3) as (N2 & s4 & s5 & s6 & X4 & X5 & X6 & HP6).
  { intros d nl Hcl. destruct (HL d nl Hcl) as (LS & rst & H1 & H2 & H3). exists LS, rst. split; [|split; [unfold j; lia|]].
    - rewrite H1. do 3 f_equal. unfold j, tl. lia.
    - rewrite H3. f_equal. unfold j. lia. }
  fold tl in HP6. set (k := S (S j) + tl) in *.
  (* else_jump *)
  destruct (jump_step all Hfi s6 k _ _ _ lthen Nk (po_st _ _ _ _ _ _ _ _ _ _ HP6)) as (s7 & p2 & X7 & S7 & R7 & G2).
  assert (HP7 : Post all s7 (S k) (p2 :: p1 :: Q) env outers infn st2 stack G) by (eapply Post_rest; [exact R7|exact S7|exact HP6]).
  (* patch then_jump *)
  replace (S j + (tl + 2)) with (S k) in G1 by (unfold k; lia).
  destruct (patch_step all Hfi s7 (S k) _ ((p2 :: Q) ++ pending s7) p1 (po_st _ _ _ _ _ _ _ _ _ _ HP7) G1) as (s8 & X8 & S8 & R8).
  { intros q [->|[->|Hq]]; simpl; auto. }
  assert (HP8 : Post all s8 (S k) (p2 :: Q) env outers infn st2 stack G) by (eapply Post_rest; [exact R8|exact S8|exact HP7]).
  destruct (lift_emits all env outers infn st2 st2 (emit_op OpPop lthen) [FC.XI (CE.IOp OpPop)] s8 (S k) (p2 :: Q) stack G Hfi
              (emitsX_op all env outers infn st2 OpPop lthen) (at_one all Hfi _ _ Np2) HP8) as (s9 & X9 & HP9).
  simpl length in HP9.
  assert (Hidx : i + (length cc + 2 + tl + 2) = S k + 1) by (unfold k, j; lia).
  split; [exact N2|].
  exists s9, p2. split; [|split; [|split]].
  - intros rest. unfold if_prefix.
    rewrite (cbind_ok _ _ _ _ _ X1). cbv beta. rewrite (cbind_ok _ _ _ _ _ X2). cbv beta.
    rewrite (cbind_ok _ _ _ _ _ X3). cbv beta. rewrite (cbind_ok _ _ _ _ _ X4). cbv beta.
    rewrite (cbind_ok _ _ _ _ _ X5). cbv beta. rewrite (cbind_ok _ _ _ _ _ X6). cbv beta.
    rewrite (cbind_ok _ _ _ _ _ X7). cbv beta. rewrite (cbind_ok _ _ _ _ _ X8). cbv beta.
    rewrite (cbind_ok _ _ _ _ _ X9). reflexivity.
  - rewrite Hidx. exact HP9.
  - rewrite Hidx. replace (S k + 1 + el) with (S k + S el) by lia. exact G2.
  - rewrite Hidx. replace (S k + 1) with (S (S k)) by lia. exact A5.
Qed.

Lemma case_if c lcond t lthen : Pe c -> Pss t -> Ps (LSIf c lcond t lthen).
Proof.
  intros IHc IH. ps_start.
  cbn [lokf_s erase_stmt FC.env_after'] in *. rewrite FP.xcstmt_if in Hc. cbv zeta in Hc.
  assert (Hok' : FC.xexpr_ok env pendl (erase_expr c) && FC.xstmts_ok (CE.begin_scope env) pendl infn (erase_stmts t) && true = true)
    by exact Hok.
  clear Hok. apply andb_prop in Hl. destruct Hl as [Lc Lt]. apply andb_prop in Hok'. destruct Hok' as [Hok' _].
  apply andb_prop in Hok'. destruct Hok' as [Oc Ot].
  dlet Hc cc st1 Ec. dlet Hc ct st2 Et. inversion Hc; subst; clear Hc.
  pose proof (FP.blen_len _ _ _ _ _ _ _ _ Et) as Lt'. rewrite <- Lt' in *.
  assert (Hn' : FC.nocap_code cc = true /\ FC.nocap_code ct = true).
  { apply FP.nocap_app in Hn. destruct Hn as [Hn1 Hn]. apply FP.nocap_cons in Hn. destruct Hn as [_ Hn].
    apply FP.nocap_cons in Hn. destruct Hn as [_ Hn]. apply FP.nocap_app in Hn. tauto. }
  assert (Hf' : sub_fits cc = true /\ sub_fits ct = true).
  { apply sub_fits_app in Hf. destruct Hf as [Hf1 Hf]. apply sub_fits_cons in Hf. destruct Hf as [_ Hf].
    apply sub_fits_cons in Hf. destruct Hf as [_ Hf]. apply sub_fits_app in Hf. tauto. }
  destruct Hn' as [Ncc Nct]. destruct Hf' as [Fcc Fct].
  assert (Hlen : length (cc ++ FC.XI (CE.IJump OpJumpIfFalse (length ct + 2)) :: FC.XI (CE.IOp OpPop) ::
                          ct ++ [FC.XI (CE.IJump OpJump 1); FC.XI (CE.IOp OpPop)]) = length cc + 2 + length ct + 2 + 0).
  { rewrite app_length. cbn [length]. rewrite app_length. cbn [length]. lia. }
  rewrite Hlen in *.
  destruct (if_core c lcond t lthen 0 [] IHc IH all env outers infn pendl st brk cont cc st1 ct st' s i Q stack G
              Hfi Lc Lt Oc Ot Hd Ec Et Ncc Nct Fcc Fct Hnil Hat HP HL) as (N2 & s7 & p2 & X7 & HP7 & G7 & _).
  split; auto.
  change (cstmt (LSIf c lcond t lthen)) with (if_prefix c lcond t lthen (fun p => patch_jump p)). rewrite X7.
  rewrite !Nat.add_0_r in *.
  destruct (patch_step all Hfi s7 _ _ (Q ++ pending s7) p2 (po_st _ _ _ _ _ _ _ _ _ _ HP7) G7) as (s8 & X8 & S8 & R8).
  { intros q Hq. simpl in Hq. destruct Hq as [->|Hq]; auto. }
  exists s8. split; auto. eapply Post_rest; [exact R8|exact S8|exact HP7].
Qed.

Lemma stmt_ok_else env pendl infn s' :
  match s' with SBlock _ _ | SIf _ _ _ _ => FC.xstmt_ok env pendl infn s' | _ => false end = true ->
  FC.xstmt_ok env pendl infn s' = true.
Proof. destruct s'; auto; discriminate. Qed.
Lemma stmt_else_env env pendl infn s' :
  match s' with SBlock _ _ | SIf _ _ _ _ => FC.xstmt_ok env pendl infn s' | _ => false end = true ->
  FC.env_after' env s' = env.
Proof. destruct s'; try discriminate; reflexivity. Qed.

Lemma case_ifelse c lcond t lthen e : Pe c -> Pss t -> Ps e -> Ps (LSIfElse c lcond t lthen e).
Proof.
  intros IHc IH IHe. ps_start.
  cbn [lokf_s erase_stmt FC.env_after'] in *. rewrite FP.xcstmt_if in Hc. cbv zeta in Hc.
  assert (Hok' : FC.xexpr_ok env pendl (erase_expr c) && FC.xstmts_ok (CE.begin_scope env) pendl infn (erase_stmts t) &&
                 match erase_stmt e with
                 | SBlock _ _ | SIf _ _ _ _ => FC.xstmt_ok env pendl infn (erase_stmt e)
                 | _ => false
                 end = true) by exact Hok.
  clear Hok. apply andb_prop in Hl. destruct Hl as [Hl Le]. apply andb_prop in Hl. destruct Hl as [Lc Lt].
  apply andb_prop in Hok'. destruct Hok' as [Hok' Oe]. pose proof (stmt_else_env _ _ _ _ Oe) as Hea. apply stmt_ok_else in Oe.
  apply andb_prop in Hok'. destruct Hok' as [Oc Ot].
  dlet Hc cc st1 Ec. dlet Hc ct st2 Et. dlet Hc ce st3 Ee. inversion Hc; subst; clear Hc.
  pose proof (FP.blen_len _ _ _ _ _ _ _ _ Et) as Lt'. pose proof (FP.xslen_of _ _ _ _ _ _ _ _ Ee) as Le'.
  rewrite <- Lt', <- Le' in *.
  assert (Hn' : FC.nocap_code cc = true /\ FC.nocap_code ct = true /\ FC.nocap_code ce = true).
  { apply FP.nocap_app in Hn. destruct Hn as [Hn1 Hn]. apply FP.nocap_cons in Hn. destruct Hn as [_ Hn].
    apply FP.nocap_cons in Hn. destruct Hn as [_ Hn]. apply FP.nocap_app in Hn. destruct Hn as [Hn2 Hn].
    apply FP.nocap_cons in Hn. destruct Hn as [_ Hn]. apply FP.nocap_cons in Hn. tauto. }
  assert (Hf' : sub_fits cc = true /\ sub_fits ct = true /\ sub_fits ce = true).
  { apply sub_fits_app in Hf. destruct Hf as [Hf1 Hf]. apply sub_fits_cons in Hf. destruct Hf as [_ Hf].
    apply sub_fits_cons in Hf. destruct Hf as [_ Hf]. apply sub_fits_app in Hf. destruct Hf as [Hf2 Hf].
    apply sub_fits_cons in Hf. destruct Hf as [_ Hf]. apply sub_fits_cons in Hf. tauto. }
  destruct Hn' as (Ncc & Nct & Nce). destruct Hf' as (Fcc & Fct & Fce).
  assert (Hlen : length (cc ++ FC.XI (CE.IJump OpJumpIfFalse (length ct + 2)) :: FC.XI (CE.IOp OpPop) ::
                          ct ++ FC.XI (CE.IJump OpJump (S (length ce))) :: FC.XI (CE.IOp OpPop) :: ce)
                 = length cc + 2 + length ct + 2 + length ce).
  { rewrite app_length. cbn [length]. rewrite app_length. cbn [length]. lia. }
  rewrite Hlen in *.
  destruct (if_core c lcond t lthen (length ce) ce IHc IH all env outers infn pendl st brk cont cc st1 ct st2 s i Q stack G
              Hfi Lc Lt Oc Ot Hd Ec Et Ncc Nct Fcc Fct Hnil Hat HP HL) as (N2 & s7 & p2 & X7 & HP7 & G7 & A5).
  change (cstmt (LSIfElse c lcond t lthen e)) with (if_prefix c lcond t lthen (fun p => cstmt e ;;; patch_jump p)). rewrite X7.
  set (m := i + (length cc + 2 + length ct + 2)) in *.
  destruct (IHe all env outers infn pendl st2 brk (cont + length cc + 2 + length ct + 2) ce st' s7 m (p2 :: Q) stack G)
    as (N3 & s8 & X8 & HP8); auto.
  { intros d nl Hcl. destruct (HL d nl Hcl) as (LS & rst & H1 & H2 & H3). exists LS, rst. split; [|split; [unfold m; lia|]].
    - rewrite H1. do 3 f_equal. unfold m. lia.
    - rewrite H3. f_equal. unfold m. lia. }
  split; auto.
  rewrite (cbind_ok _ _ _ _ _ X8). cbv beta.
  rewrite Hea in HP8.
  replace (m + length ce) with (m + length ce + 0) in HP8 by lia.
  destruct (patch_step all Hfi s8 _ _ (Q ++ pending s8) p2 (po_st _ _ _ _ _ _ _ _ _ _ HP8)) as (s9 & X9 & S9 & R9).
  { rewrite Nat.add_0_r. exact G7. }
  { intros q Hq. simpl in Hq. destruct Hq as [->|Hq]; auto. }
  exists s9. split; auto.
  replace (i + (length cc + 2 + length ct + 2 + length ce)) with (m + length ce + 0) by (unfold m; lia).
  eapply Post_rest; [exact R9|exact S9|exact HP8].
Qed.

(* ---------- while ---------- *)
Lemma Post_push_loop all s i Q env outers infn st stack G :
  Post all s i Q env outers infn st stack G -> Post all s i Q (CE.push_loop env) outers infn st stack G.
Proof. intros [H1 H2 H3 H4 H5 H6]. split; assumption. Qed.
Lemma Post_unpush_loop all s i Q env outers infn st stack G :
  Post all s i Q (CE.push_loop env) outers infn st stack G -> Post all s i Q env outers infn st stack G.
Proof. intros [H1 H2 H3 H4 H5 H6]. split; assumption. Qed.

(* a change of loop_stack / break_stack only *)
Lemma Post_loops all s s' i i' Q env outers infn st stack stack' G :
  Post all s i Q env outers infn st stack G ->
  s_outer s' = s_outer s -> with_loops (restc (s_cur s')) [] [] = with_loops (restc (s_cur s)) [] [] ->
  looprel all s' stack' -> St all s' i' (Q ++ pending s') ->
  Post all s' i' Q env outers infn st stack' G.
Proof.
  intros [_ (Hc & Ho & Ht & Htd & Hu & Hk) Hp HL _ Hg] R1 R4 HLp HS.
  pose proof (f_equal k_locals R4) as E1. pose proof (f_equal k_scope R4) as E2.
  pose proof (f_equal k_lambdas R4) as Elm. pose proof (f_equal k_in_try R4) as Eit.
  pose proof (f_equal k_try_depth R4) as Etd. pose proof (f_equal k_upvalues R4) as Eu.
  pose proof (f_equal k_kind R4) as Ek. pose proof (f_equal k_name R4) as En. pose proof (f_equal k_arity R4) as Ea.
  cbn in E1, E2, Elm, Eit, Etd, Eu, Ek, En, Ea.
  split; auto.
  - unfold envrel, comprel in *. rewrite R1, E1, E2, Eit, Etd, Eu, Ek. auto 10.
  - unfold lamrel in *. cbn [map] in *. rewrite R1, Elm. exact HL.
  - unfold ghost in *. rewrite R1, En, Ea. exact Hg.
Qed.

Lemma case_while c lcond b lend : Pe c -> Pss b -> Ps (LSWhile c lcond b lend).
Proof.
  intros IHc IH. ps_start.
  cbn [lokf_s erase_stmt FC.env_after' cstmt] in *. rewrite FP.xcstmt_while in Hc. cbv zeta in Hc.
  assert (Hok' : FC.xexpr_ok env pendl (erase_expr c) && FC.xstmts_ok (CE.begin_scope (CE.push_loop env)) pendl infn (erase_stmts b) = true)
    by exact Hok.
  clear Hok. apply andb_prop in Hl. destruct Hl as [Lc Lb]. apply andb_prop in Hok'. destruct Hok' as [Oc Ob].
  dlet Hc cc st1 Ec. dlet Hc cb st2 Eb. inversion Hc; subst; clear Hc.
  pose proof (FP.blen_len _ _ _ _ _ _ _ _ Eb) as Lb'. rewrite <- Lb' in *.
  set (bl := length cb) in *.
  assert (Hn' : FC.nocap_code cc = true /\ FC.nocap_code cb = true).
  { apply FP.nocap_app in Hn. destruct Hn as [Hn1 Hn]. apply FP.nocap_cons in Hn. destruct Hn as [_ Hn].
    apply FP.nocap_cons in Hn. destruct Hn as [_ Hn]. apply FP.nocap_app in Hn. tauto. }
  assert (Hf' : sub_fits cc = true /\ sub_fits cb = true).
  { apply sub_fits_app in Hf. destruct Hf as [Hf1 Hf]. apply sub_fits_cons in Hf. destruct Hf as [_ Hf].
    apply sub_fits_cons in Hf. destruct Hf as [_ Hf]. apply sub_fits_app in Hf. tauto. }
  destruct Hn' as [Ncc Ncb]. destruct Hf' as [Fcc Fcb].
  destruct (IHc all env outers infn pendl st cc st1) as [N1 M1]; auto.
  assert (Hlen : length (cc ++ FC.XI (CE.IJump OpJumpIfFalse (bl + 2)) :: FC.XI (CE.IOp OpPop) ::
                          cb ++ [FC.XI (CE.ILoop (length cc + 2 + bl + 1)); FC.XI (CE.IOp OpPop)]) = length cc + 2 + bl + 2).
  { rewrite app_length. cbn [length]. rewrite app_length. cbn [length]. unfold bl. lia. }
  rewrite Hlen in *.
  apply (at_app all Hfi) in Hat. destruct Hat as [A1 A2].
  apply (at_cons all Hfi) in A2. destruct A2 as [Nj A2]. apply (at_cons all Hfi) in A2. destruct A2 as [Np A2].
  apply (at_app all Hfi) in A2. destruct A2 as [A3 A4]. fold bl in A4. cbn [FC.xi map] in A4.
  apply (at_cons all Hfi) in A4. destruct A4 as [Nl A4]. apply (at_cons all Hfi) in A4. destruct A4 as [Np2 _].
  set (j := i + length cc) in *. set (k := S (S j) + bl) in *.
  set (Ew := off all (S (S k))).
  pose proof HP as [HS He Hpe HLm [L1 L2] Hg].
  pose proof He as ((Esc & _) & _ & _ & Etd & _).
  pose proof HS as (Hcp & Hk & Ha). unfold cpos, scode in Hcp.
  (* push_loop; code_len *)
  set (s0 := mkS (with_loops (s_cur s) ((length (k_code (s_cur s)), k_scope (s_cur s), k_try_depth (s_cur s)) :: k_loops (s_cur s))
                             ([] :: k_breaks (s_cur s))) (s_outer s) (s_classes s) (s_line s)).
  assert (X0 : push_loop s = COk (tt, s0)) by reflexivity.
  assert (X0' : code_len s0 = COk (off all i, s0)) by (unfold code_len, s0; cbn [s_cur k_code with_loops]; rewrite Hcp; reflexivity).
  set (stack' := (off all i, CE.cdepth env, Ew) :: stack).
  assert (HP0 : Post all s0 i Q env outers infn st stack' G).
  { eapply Post_loops; [exact HP|reflexivity|reflexivity| |exact HS].
    split; unfold s0, stack'; cbn [s_cur k_loops k_breaks with_loops map fst snd].
    - rewrite Hcp, Esc, Etd, L1. reflexivity.
    - constructor; [constructor|exact L2]. }
  rewrite (cbind_ok _ _ _ _ _ X0). cbv beta. rewrite (cbind_ok _ _ _ _ _ X0'). cbv beta.
  (* condition, exit_jump, Pop *)
  destruct (lift_emits all env outers infn st st1 (cexpr c) cc s0 i Q stack' G Hfi M1 A1 HP0) as (s1 & X1 & HP1).
  rewrite (cbind_ok _ _ _ _ _ X1). cbv beta. fold j in HP1.
  destruct (jump_step all Hfi s1 j _ _ _ lcond Nj (po_st _ _ _ _ _ _ _ _ _ _ HP1)) as (s2 & p1 & X2 & S2 & R2 & G1).
  rewrite (cbind_ok _ _ _ _ _ X2). cbv beta.
  assert (HP2 : Post all s2 (S j) (p1 :: Q) env outers infn st1 stack' G) by (eapply Post_rest; [exact R2|exact S2|exact HP1]).
  destruct (lift_emits all env outers infn st1 st1 (emit_op OpPop lcond) [FC.XI (CE.IOp OpPop)] s2 (S j) (p1 :: Q) stack' G Hfi
              (emitsX_op all env outers infn st1 OpPop lcond) (at_one all Hfi _ _ Np) HP2) as (s3 & X3 & HP3).
  rewrite (cbind_ok _ _ _ _ _ X3). cbv beta.
  simpl length in HP3. replace (S j + 1) with (S (S j)) in HP3 by lia.
  (* body *)
  destruct (block_ok b lend IH all (CE.push_loop env) outers infn pendl st1 2 (length cc + 2) cb st' s3 (S (S j)) (p1 :: Q) stack' G
              Hfi Lb Ob (dinv_loop _ Hd) Eb Ncb Fcb N1 A3 (Post_push_loop _ _ _ _ _ _ _ _ _ _ HP3))
    as (N2 & s4 & s5 & s6 & X4 & X5 & X6 & HP6).
  { intros d nl Hcl. cbn [CE.push_loop CE.cloop] in Hcl. inversion Hcl; subst d nl. exists (off all i), stack.
    split; [|split; [unfold j; lia|]].
    - unfold stack', Ew. do 3 f_equal. fold bl. unfold k. lia.
    - f_equal. unfold j. lia. }
  split; [exact N2|].
  rewrite (cbind_ok _ _ _ _ _ X4). cbv beta. rewrite (cbind_ok _ _ _ _ _ X5). cbv beta.
  rewrite (cbind_ok _ _ _ _ _ X6). cbv beta. fold bl in HP6. fold k in HP6.
  (* Loop *)
  assert (Hki : S k - (length cc + 2 + bl + 1) = i) by (unfold k, j; lia).
  destruct (loop_step all Hfi s6 k _ _ lend Nl ltac:(unfold k, j; lia) (po_st _ _ _ _ _ _ _ _ _ _ HP6)) as (s7 & X7 & S7 & R7).
  rewrite Hki in X7. rewrite (cbind_ok _ _ _ _ _ X7). cbv beta.
  assert (HP7 : Post all s7 (S k) (p1 :: Q) (CE.push_loop env) outers infn st' stack' G) by (eapply Post_rest; [exact R7|exact S7|exact HP6]).
  (* patch exit_jump *)
  replace (S j + (bl + 2)) with (S k) in G1 by (unfold k; lia).
  destruct (patch_step all Hfi s7 (S k) _ (Q ++ pending s7) p1 (po_st _ _ _ _ _ _ _ _ _ _ HP7) G1) as (s8 & X8 & S8 & R8).
  { intros q Hq. simpl in Hq. destruct Hq as [->|Hq]; auto. }
  rewrite (cbind_ok _ _ _ _ _ X8). cbv beta.
  assert (HP8 : Post all s8 (S k) Q env outers infn st' stack' G)
    by (apply Post_unpush_loop; eapply Post_rest; [exact R8|exact S8|exact HP7]).
  destruct (lift_emits all env outers infn st' st' (emit_op OpPop lend) [FC.XI (CE.IOp OpPop)] s8 (S k) Q stack' G Hfi
              (emitsX_op all env outers infn st' OpPop lend) (at_one all Hfi _ _ Np2) HP8) as (s9 & X9 & HP9).
  rewrite (cbind_ok _ _ _ _ _ X9). cbv beta.
  simpl length in HP9. replace (S k + 1) with (S (S k)) in HP9 by lia.
  (* pop_loop *)
  pose proof HP9 as [S9 He9 _ HLm9 [K1 K2] Hg9].
  unfold stack' in K1, K2. cbn [map fst snd] in K1.
  inversion K2 as [|bnew t0 brest st0 Hnew Hrest Ebk Es]. subst t0 st0. cbn [snd] in Hnew.
  unfold pop_loop, cbind at 1, cur. rewrite <- Ebk. rewrite (cbind_ok _ _ _ _ _ (upd_eq _ _)). cbv beta.
  set (s9' := mkS (with_loops (s_cur s9) (tl (k_loops (s_cur s9))) (tl (k_breaks (s_cur s9)))) (s_outer s9) (s_classes s9) (s_line s9)).
  assert (S9' : St all s9' (S (S k)) (Q ++ bnew ++ concat brest)).
  { unfold pending in S9. rewrite <- Ebk in S9. exact S9. }
  destruct (patch_jumps_step all Hfi (S (S k)) (Q ++ concat brest) (rev bnew) s9' _ (Forall_rev Hnew) S9') as (s10 & X10 & S10 & R10).
  { intros q Hq. apply in_app_or in Hq. destruct Hq as [Hq|Hq]; [right; apply in_or_app; auto|].
    apply in_app_or in Hq. destruct Hq as [Hq|Hq]; [left; apply in_rev in Hq; exact Hq|right; apply in_or_app; auto]. }
  exists s10. split; [exact X10|].
  replace (i + (length cc + 2 + bl + 2)) with (S (S k)) by (unfold k, j; lia).
  pose proof (rest_cur _ _ R10) as Rc10.
  eapply Post_loops; [exact HP9|rewrite (rest_outer _ _ R10); reflexivity|rewrite Rc10; reflexivity| |].
  - split.
    + rewrite (restc_loops _ _ Rc10). unfold s9'. cbn [s_cur k_loops with_loops]. rewrite K1. reflexivity.
    + rewrite (restc_breaks _ _ Rc10). unfold s9'. cbn [s_cur k_breaks with_loops]. rewrite <- Ebk. exact Hrest.
  - unfold pending. rewrite (restc_breaks _ _ Rc10). unfold s9'. cbn [s_cur k_breaks with_loops]. rewrite <- Ebk. cbn [tl]. exact S10.
Qed.

(* ---------- break / continue ---------- *)
Lemma case_break l : Ps (LSBreak l).
Proof.
  ps_start. cbn [erase_stmt FC.xstmt_ok FC.xcstmt FC.env_after' cstmt] in *. cbv zeta in Hc.
  inversion Hc; subst; clear Hc. split; auto.
  rewrite xi_app in *. apply FP.nocap_app in Hn. destruct Hn as [Hn1 Hn2].
  pose proof (scope_end_nocap _ _ _ Hn1) as Ese. rewrite Ese in *.
  destruct (CE.cloop env) as [[d nl]|] eqn:Ecl; [|discriminate].
  destruct (HL d nl Ecl) as (LS & rst & Est & Hci & HLS).
  pose proof HP as [HS He Hpe HLm [L1 L2] Hg].
  pose proof He as ((Esc & KL & EKL & ELr) & _ & _ & Etd & _). rewrite Hpe in EKL. cbn [pend app] in EKL. subst KL.
  rewrite Est in L1, L2. cbn [map fst snd] in L1.
  inversion L2 as [|b0 t0 brest st0 Hb0 Hrest Eb Es]. subst t0 st0. cbn [snd] in Hb0.
  unfold cbind at 1, cur. rewrite L1.
  rewrite (cbind_ok _ _ _ _ _ (emit_exc_handler_pops_none 0 l s Etd)). cbv beta.
  assert (Hops : scope_end_ops d (k_locals (s_cur s)) = repeat OpPop (CE.loop_pops env)).
  { rewrite (lrel_scope_end _ _ d ELr). unfold CE.loop_pops. rewrite Ecl. reflexivity. }
  set (n := CE.loop_pops env) in *.
  apply (at_app all Hfi) in Hat. destruct Hat as [A1 A2]. rewrite FP.xi_length, map_length, repeat_length in A2.
  cbn [FC.xi map] in A2. apply (at_cons all Hfi) in A2. destruct A2 as [Nj _].
  destruct (ops_steps all Hfi (repeat OpPop n) l s i _ A1 HS) as (s1 & X1 & S1 & R1). rewrite repeat_length in S1.
  rewrite <- Hops in X1. rewrite (cbind_ok _ _ _ _ _ (emit_scope_end_keep _ _ _ _ X1)). cbv beta.
  destruct (jump_step all Hfi s1 (i + n) _ _ _ l Nj S1) as (s2 & p & X2 & S2 & R2 & G2).
  rewrite (cbind_ok _ _ _ _ _ X2). cbv beta.
  assert (R02 : rest s2 = rest s) by congruence. pose proof (rest_cur _ _ R02) as Rc2.
  unfold push_break. rewrite upd_eq. rewrite (restc_breaks _ _ Rc2), <- Eb.
  eexists. split; [reflexivity|].
  rewrite app_length, FP.xi_length, map_length, repeat_length. cbn [FC.xi map length].
  replace (i + (n + 1)) with (S (i + n)) by lia.
  assert (HG : good (X all) (off all (i + length (FC.xi (map CE.IOp (repeat OpPop n)) ++ FC.xi [CE.IJump OpJump brk]) + brk)) p).
  { rewrite app_length, FP.xi_length, map_length, repeat_length. cbn [FC.xi map length].
    replace (i + (n + 1) + brk) with (S (i + n) + brk) by lia. exact G2. }
  eapply Post_loops; [exact HP|cbn [s_outer]; rewrite (rest_outer _ _ R02); reflexivity|cbn [s_cur]; rewrite <- Rc2; reflexivity| |].
  - split; cbn [s_cur k_loops k_breaks with_loops].
    + rewrite (restc_loops _ _ Rc2), Est. exact L1.
    + rewrite Est. constructor; [|exact Hrest]. cbn [snd]. constructor; [exact HG|exact Hb0].
  - unfold pending. cbn [s_cur k_breaks with_loops concat].
    destruct S2 as (C2 & KK2 & A2'). split; [exact C2|]. split; [exact KK2|].
    eapply agree_weaken; [exact A2'|]. unfold pending. rewrite <- Eb. cbn [concat].
    intros q Hq. simpl in Hq. destruct Hq as [->|Hq].
    + apply in_or_app. right. left. reflexivity.
    + apply in_app_or in Hq. destruct Hq as [Hq|Hq]; apply in_or_app; [left; exact Hq|right; right; exact Hq].
Qed.

Lemma case_continue l : Ps (LSContinue l).
Proof.
  ps_start. cbn [erase_stmt FC.xstmt_ok FC.xcstmt FC.env_after' cstmt] in *. cbv zeta in Hc.
  inversion Hc; subst; clear Hc. split; auto.
  rewrite xi_app in *. apply FP.nocap_app in Hn. destruct Hn as [Hn1 Hn2].
  pose proof (scope_end_nocap _ _ _ Hn1) as Ese. rewrite Ese in *.
  destruct (CE.cloop env) as [[d nl]|] eqn:Ecl; [|discriminate].
  destruct (HL d nl Ecl) as (LS & rst & Est & Hci & HLS).
  pose proof HP as [HS He Hpe HLm [L1 L2] Hg].
  pose proof He as ((Esc & KL & EKL & ELr) & _ & _ & Etd & _). rewrite Hpe in EKL. cbn [pend app] in EKL. subst KL.
  rewrite Est in L1. cbn [map fst snd] in L1.
  unfold cbind at 1, cur. rewrite L1.
  rewrite (cbind_ok _ _ _ _ _ (emit_exc_handler_pops_none 0 l s Etd)). cbv beta.
  assert (Hops : scope_end_ops d (k_locals (s_cur s)) = repeat OpPop (CE.loop_pops env)).
  { rewrite (lrel_scope_end _ _ d ELr). unfold CE.loop_pops. rewrite Ecl. reflexivity. }
  set (n := CE.loop_pops env) in *.
  apply (at_app all Hfi) in Hat. destruct Hat as [A1 A2]. rewrite FP.xi_length, map_length, repeat_length in A2.
  cbn [FC.xi map] in A2. apply (at_cons all Hfi) in A2. destruct A2 as [Nj _].
  destruct (ops_steps all Hfi (repeat OpPop n) l s i _ A1 HS) as (s1 & X1 & S1 & R1). rewrite repeat_length in S1.
  rewrite <- Hops in X1. rewrite (cbind_ok _ _ _ _ _ (emit_scope_end_keep _ _ _ _ X1)). cbv beta.
  assert (Hki : S (i + n) - (cont + n + 1) = i - cont) by lia.
  destruct (loop_step all Hfi s1 (i + n) _ _ l Nj ltac:(lia) S1) as (s2 & X2 & S2 & R2).
  rewrite Hki, <- HLS in X2.
  exists s2. split; [exact X2|].
  rewrite app_length, FP.xi_length, map_length, repeat_length. cbn [FC.xi map length].
  replace (i + (n + 1)) with (S (i + n)) by lia.
  eapply Post_rest; [|exact S2|exact HP]. congruence.
Qed.

(* ---------- return ---------- *)
Lemma emit_return_fn l s s2 s3 :
  k_kind (s_cur s) = KFunction -> k_in_try (s_cur s) = false ->
  emit_op OpNil l s = COk (tt, s2) -> emit_op OpReturn l s2 = COk (tt, s3) ->
  emit_return l s = COk (tt, s3).
Proof.
  intros H1 H2 X2 X3. unfold emit_return. unfold cbind at 1. unfold cur. rewrite H1, H2. cbn [fk_eqb cwhen].
  rewrite (cbind_ok _ _ _ _ _ X2). cbv beta. unfold cbind at 1, cret. exact X3.
Qed.

Lemma case_return l : Ps (LSReturn l).
Proof.
  ps_start. cbn [erase_stmt FC.xstmt_ok FC.xcstmt FC.env_after' cstmt] in *.
  inversion Hc; subst; clear Hc. split; auto.
  apply andb_prop in Hok. destruct Hok as [Hin _]. subst infn.
  pose proof HP as [HS He _ _ _ _]. pose proof He as (_ & _ & Eit & _ & _ & Ek).
  unfold cbind at 1, cur. rewrite Ek. cbn [fk_eqb]. unfold cbind at 1, cret.
  cbn [FC.xi map] in Hat. apply (at_cons all Hfi) in Hat. destruct Hat as [N0 Hat].
  apply (at_cons all Hfi) in Hat. destruct Hat as [N1 _].
  destruct (op_step all Hfi s i _ OpNil l N0 HS) as (s2 & X2 & S2 & R2).
  destruct (op_step all Hfi s2 (S i) _ OpReturn l N1 S2) as (s3 & X3 & S3 & R3).
  exists s3. split; [exact (emit_return_fn l s s2 s3 Ek Eit X2 X3)|].
  cbn [FC.xi map length]. replace (i + 2) with (S (S i)) by lia.
  eapply Post_rest; [|exact S3|exact HP]. congruence.
Qed.

Lemma case_returne e l : Pe e -> Ps (LSReturnE e l).
Proof.
  intros IHe. ps_start. cbn [lokf_s erase_stmt FC.xstmt_ok FC.xcstmt FC.env_after' cstmt] in *.
  dlet Hc c st1 E1. inversion Hc; subst; clear Hc. split_nf.
  apply andb_prop in Hok. destruct Hok as [Hin Hok]. subst infn.
  destruct (IHe all env outers true pendl st c st') as [N1 M1]; auto. split; auto.
  pose proof HP as [HS He _ _ _ _]. pose proof He as (_ & _ & Eit & _ & _ & Ek).
  unfold cbind at 1, cur. rewrite Ek. cbn [fk_eqb]. unfold cbind at 1, cret. unfold cbind at 1, cret.
  apply (at_app all Hfi) in Hat. destruct Hat as [A1 A2].
  destruct (lift_emits all env outers true st st' (cexpr e) c s i Q stack G Hfi M1 A1 HP) as (s1 & X1 & HP1).
  rewrite (cbind_ok _ _ _ _ _ X1). cbv beta.
  pose proof HP1 as [_ He1 _ _ _ _]. pose proof He1 as (_ & _ & Eit1 & _).
  unfold cbind at 1, cur. rewrite Eit1. cbn [cwhen]. unfold cbind at 1, cret.
  destruct (lift_emits all env outers true st' st' (emit_op OpReturn l) _ s1 _ Q stack G Hfi
              (emitsX_op all env outers true st' OpReturn l) A2 HP1) as (s2 & X2 & HP2).
  exists s2. split; [exact X2|]. rewrite app_length, Nat.add_assoc. exact HP2.
Qed.

(* ================================================================== *)
(* all expressions and statements, given the three function-introduction cases                                      *)
Section Main.

Hypothesis H_lambdaE : forall ps body l, Pe body -> Pe (LLambdaE ps body l).
Hypothesis H_lambdaB : forall ps body l, Pss body -> Pe (LLambdaB ps body l).
Hypothesis H_fn : forall f ps body l, Pss body -> Ps (LSFn f ps body l).

Theorem bridge_all_cond :
  (forall e, Pe e) /\ (forall es, Pes es) /\ (forall ps, Pps ps) /\ (forall st, Ps st) /\ (forall ss, Pss ss).
Proof.
  assert (H : (forall e, Pe e) /\ (forall es, Pes es) /\ (forall ps, Pps ps) /\
              (forall k : lkvs, True) /\ (forall st, Ps st) /\ (forall ss, Pss ss) /\ (forall m : lmethods, True)).
  { apply lsyntax_mutind; try (intros; exact I);
      try (intros; pe_start; simpl in Hl; discriminate);
      try (intros; ps_start; simpl in Hl; discriminate).
    - intros l. pe_start. cbn in Hc. inversion Hc; subst. split; auto. apply emitsX_op.
    - intros l. pe_start. cbn in Hc. inversion Hc; subst. split; auto. apply emitsX_op.
    - intros l. pe_start. cbn in Hc. inversion Hc; subst. split; auto. apply emitsX_op.
    - intros l x. pe_start. cbn in Hc. inversion Hc; subst. split; auto. simpl in Hl.
      apply (emitsX_constant all env outers infn st' (CE.CNum x)). exact Hl.
    - intros l s0. pe_start. cbn in Hc. inversion Hc; subst. split; auto.
      apply (emitsX_constant all env outers infn st' (CE.CStr s0)). exact I.
    - intros. apply case_interp; auto.
    - intros. apply case_var.
    - intros. apply case_assign; auto.
    - intros. apply case_compound; auto.
    - intros. apply case_unary; auto.
    - intros. apply case_binary; auto.
    - intros. apply case_and; auto.
    - intros. apply case_or; auto.
    - intros. apply case_range; auto.
    - intros. apply case_call; auto.
    - intros. apply case_index; auto.
    - intros. apply case_setindex; auto.
    - intros. apply case_tuple; auto.
    - intros. apply case_vec; auto.
    - intros. apply H_lambdaE; auto.
    - intros. apply H_lambdaB; auto.
    - apply case_enil.
    - intros. apply case_econs; auto.
    - apply case_pnil.
    - intros. apply case_pstr; auto.
    - intros. apply case_pexpr; auto.
    - intros. apply case_sexpr; auto.
    - intros. apply case_svar.
    - intros. apply case_svarinit; auto.
    - intros. apply H_fn; auto.
    - intros. apply case_block; auto.
    - intros. apply case_if; auto.
    - intros. apply case_ifelse; auto.
    - intros. apply case_while; auto.
    - intros. apply case_return.
    - intros. apply case_returne; auto.
    - intros. apply case_break.
    - intros. apply case_continue.
    - apply case_snil.
    - intros. apply case_scons; auto. }
  tauto.
Qed.

Lemma emit_return_script l s s2 s3 :
  k_kind (s_cur s) = KScript -> k_in_try (s_cur s) = false ->
  emit_op OpNil l s = COk (tt, s2) -> emit_op OpReturn l s2 = COk (tt, s3) ->
  emit_return l s = COk (tt, s3).
Proof.
  intros H1 H2 X2 X3. unfold emit_return. unfold cbind at 1. unfold cur. rewrite H1, H2. cbn [fk_eqb cwhen].
  rewrite (cbind_ok _ _ _ _ _ X2). cbv beta. unfold cbind at 1, cret. exact X3.
Qed.

Definition erase_prog (lp : lprogram) : Ast.program := erase_stmts (fst lp).

(* ITEM 2: the function TREE FullCompile builds for a script of the function fragment that captures nothing is the
   assembly (xassemble, per function) of the tree FnCompile builds. *)
Theorem full_compile_fn_tree_cond lp :
  lokf_ss (fst lp) = true -> FC.xprogram_ok (erase_prog lp) = true ->
  FC.nocap_code (FC.fo_code (FC.xprogram (erase_prog lp))) = true -> xfits (FC.xprogram (erase_prog lp)) = true ->
  exists g, compile_program lp = COk g /\ tree_rel g (FC.xprogram (erase_prog lp)).
Proof.
  intros Hl Hok Hn Hfit. destruct bridge_all_cond as (_ & _ & _ & _ & HSS).
  unfold FC.xprogram in *. set (p := erase_prog lp) in *.
  destruct (FC.xcstmts CE.cenv0 [] FC.cst0 0 0 p) as [c st'] eqn:Ec.
  set (all := c ++ FC.xi [CE.IOp OpNil; CE.IOp OpReturn]) in *.
  rewrite xfits_unfold in Hfit. apply andb_prop in Hfit. destruct Hfit as [Hf1 Hf2].
  pose proof (xfits1_afits _ _ _ _ Hf1) as Hfi. cbn [FC.fo_code] in Hn.
  apply FP.nocap_app in Hn. destruct Hn as [Hn _]. apply sub_fits_app in Hf2. destruct Hf2 as [Hf2 _].
  destruct (HSS (fst lp) all CE.cenv0 [] false [] FC.cst0 0 0 c st' init_state 0 [] [] (ghost init_state))
    as (N1 & s1 & X1 & HP1); auto.
  { repeat constructor. }
  { split; repeat constructor. }
  { exists (FC.xi [CE.IOp OpNil; CE.IOp OpReturn]). reflexivity. }
  { split.
    - apply (St_init all Hfi); reflexivity.
    - split; [split; [reflexivity|exists [slot0]; split; [reflexivity|apply lrel_script]]|].
      split; [constructor|]. repeat split.
    - reflexivity.
    - reflexivity.
    - split; [reflexivity|constructor].
    - reflexivity. }
  { intros d nl Hcl. discriminate. }
  cbn [Nat.add] in HP1. set (n := length c) in *.
  destruct HP1 as [S1 He1 _ _ [K1 K2] Hg1].
  cbn [map] in K1. inversion K2 as [Eb|]. unfold pending in S1. rewrite <- Eb in S1. cbn [concat app] in S1.
  destruct He1 as (_ & _ & Eit & _ & Eup & Ek).
  assert (N1' : nth_error all n = Some (FC.XI (CE.IOp OpNil))).
  { unfold all, n. rewrite nth_error_app2 by lia. rewrite Nat.sub_diag. reflexivity. }
  assert (N2' : nth_error all (S n) = Some (FC.XI (CE.IOp OpReturn))).
  { unfold all, n. rewrite nth_error_app2 by lia. replace (S _ - _) with 1 by lia. reflexivity. }
  destruct (op_step all Hfi s1 n [] OpNil (snd lp) N1' S1) as (s2 & X2 & S2 & R2).
  destruct (op_step all Hfi s2 (S n) [] OpReturn (snd lp) N2' S2) as (s3 & X3 & S3 & R3).
  pose proof (emit_return_script (snd lp) s1 s2 s3 Ek Eit X2 X3) as X4.
  assert (R13 : rest s3 = rest s1) by congruence. pose proof (rest_cur _ _ R13) as Rc.
  unfold ghost in Hg1. cbn [init_state s_outer s_cur new_comp k_name k_arity] in Hg1.
  injection Hg1 as G1 G2 G3.
  assert (O3 : s_outer s3 = []) by (rewrite (rest_outer _ _ R13); exact G1).
  unfold compile_program. rewrite (cbind_ok _ _ _ _ _ X1). cbv beta.
  unfold finalise_compiler. rewrite (cbind_ok _ _ _ _ _ X4). cbv beta. rewrite O3.
  eexists. split; [reflexivity|].
  assert (Hlen : S (S n) = length all) by (unfold all, n; rewrite app_length; simpl; lia).
  rewrite Hlen in S3. destruct (St_done all Hfi s3 S3) as [Hcode Hconsts].
  constructor; cbn [func_of_comp f_code f_consts f_arity f_upvalues f_name FC.fo_arity FC.fo_nups FC.fo_name].
  - unfold FC.xassemble. cbn [FC.fo_code]. exact Hcode.
  - unfold FC.xassemble. cbn [FC.fo_code]. rewrite xasm_from_snd. exact Hconsts.
  - rewrite (restc_arity _ _ Rc). exact G3.
  - rewrite (restc_upvalues _ _ Rc), Eup. reflexivity.
  - rewrite (restc_name _ _ Rc). exact G2.
Qed.

End Main.

(* ================================================================== *)
(* functions                                                            *)

Definition pk (p : name) : klocal := mkKL p (Some 1) false.
(* the compiler of a function right after its parameter list *)
Definition fcomp (nm : list byte) (done : list name) : comp :=
  mkComp KFunction nm (N.of_nat (S (length done))) [] [] [] (map pk (rev done) ++ [fslot0]) [] 1 0%N false 0 [] [].

Lemma declared_params x : forall L, (forall y, In y L -> CE.bytes_eqb y x = false) ->
  declared_in_scope x 1 (map pk L ++ [fslot0]) = false.
Proof.
  induction L as [|y L IH]; intros H; cbn [map app declared_in_scope pk fslot0 kl_depth kl_name].
  - reflexivity.
  - cbn [Nat.ltb Nat.leb]. rewrite IH by (intros z Hz; apply H; right; exact Hz).
    rewrite <- (ce_bytes_eqb x y), (ce_bytes_eqb x y), (bytes_eqb_sym x y), <- (ce_bytes_eqb y x), (H y (or_introl eq_refl)).
    reflexivity.
Qed.

Lemma cparam_step {B} l nm o cl ln x done (K : C B) :
  (forall y, In y done -> CE.bytes_eqb y x = false) -> length done < 255 ->
  (upd (fun c => with_arity c (k_arity c + 1)%N) ;;;
   k <- cur ;;
   (if N.ltb 256%N (k_arity k) then cerr l "Cannot have more than 255 parameters." else cret tt) ;;;
   g <- parse_variable x l ;;
   define_variable g l ;;; K) (mkS (fcomp nm done) o cl ln) = K (mkS (fcomp nm (done ++ [x])) o cl ln).
Proof.
  intros Hd Hlen.
  unfold cbind at 1. rewrite upd_eq. cbn [s_cur s_outer s_classes s_line].
  unfold cbind at 1, cur at 1. cbn [s_cur k_arity with_arity fcomp].
  unfold cbind at 1, cret at 1.
  match goal with |- context [N.ltb 256 ?a] =>
    replace (N.ltb 256 a) with false by (symmetry; apply N.ltb_ge; unfold name in *; lia) end.
  cbv beta iota.
  match goal with |- context [mkS ?c o cl ln] => set (s1 := mkS c o cl ln) end.
  assert (X1 : parse_variable x l s1 = COk (0%N, declared s1 x)).
  { apply (parse_variable_local x l s1 0).
    - reflexivity.
    - unfold s1. cbn [s_cur k_locals with_arity fcomp]. apply declared_params. intros y Hy. apply Hd. apply in_rev. exact Hy.
    - unfold s1. cbn [s_cur k_locals with_arity fcomp]. apply locals_not_max. rewrite app_length, map_length, rev_length. simpl. clear - Hlen. unfold name in *. lia. }
  rewrite (cbind_ok _ _ _ _ _ X1). cbv beta.
  rewrite (cbind_ok _ _ _ _ _ (define_variable_local 0%N l (declared s1 x) 0 x (k_locals (s_cur s1)) eq_refl eq_refl)). cbv beta.
  f_equal. unfold declared, s1, fcomp.
  cbv beta iota delta [s_cur s_outer s_classes s_line with_locals with_arity k_kind k_name k_arity k_code k_lines
    k_consts k_locals k_upvalues k_scope k_lambdas k_in_try k_try_depth k_loops k_breaks].
  rewrite rev_app_distr, app_length. cbn [rev app map length pk]. f_equal. f_equal. unfold name in *. lia.
Qed.

Lemma cparams_ok l nm o cl ln : forall ps done,
  (forall y, In y done -> existsb (CE.bytes_eqb y) ps = false) -> FC.nodup_names ps = true ->
  length done + length ps <= 255 ->
  cparams ps l (mkS (fcomp nm done) o cl ln) = COk (tt, mkS (fcomp nm (done ++ ps)) o cl ln).
Proof.
  induction ps as [|x r IH]; intros done Hd Hn Hlen.
  - rewrite app_nil_r. reflexivity.
  - cbn [cparams]. cbn [FC.nodup_names] in Hn. apply andb_prop in Hn. destruct Hn as [Hx Hn]. apply negb_true_iff in Hx.
    cbn [length] in Hlen.
    rewrite (cparam_step l nm o cl ln x done (cparams r l)).
    + rewrite IH; auto.
      * rewrite <- app_assoc. reflexivity.
      * intros y Hy. apply in_app_or in Hy. destruct Hy as [Hy|[<-|[]]]; [|exact Hx].
        pose proof (Hd y Hy) as H. cbn [existsb] in H. apply orb_false_iff in H. tauto.
      * rewrite app_length. simpl. lia.
    + intros y Hy. pose proof (Hd y Hy) as H. cbn [existsb] in H. apply orb_false_iff in H. tauto.
    + lia.
Qed.

Lemma fn_prologue {B} nm ps l (K : C B) s :
  FC.nodup_names ps = true -> length ps <= 255 ->
  (new_compiler KFunction nm ;;; begin_scope ;;; cparams ps l ;;; K) s =
  K (mkS (fcomp nm ps) (s_cur s :: s_outer s) (s_classes s) (s_line s)).
Proof.
  intros Hn Hlen. unfold cbind at 1, new_compiler. unfold cbind at 1, begin_scope. rewrite upd_eq.
  cbn [s_cur s_outer s_classes s_line].
  change (mkS (with_scope (new_comp KFunction nm) (S (k_scope (new_comp KFunction nm)))) (s_cur s :: s_outer s) (s_classes s) (s_line s))
    with (mkS (fcomp nm []) (s_cur s :: s_outer s) (s_classes s) (s_line s)).
  rewrite (cbind_ok _ _ _ _ _ (cparams_ok l nm _ _ _ ps [] ltac:(intros y []) Hn ltac:(simpl; unfold name in *; lia))). reflexivity.
Qed.

Lemma lrel_params : forall L, lrel (map pk L ++ [fslot0]) (map (fun p : name => (p, 1)) L ++ [([], 0)]).
Proof. induction L; cbn [map app]; [apply lrel_fn|apply lrel_cons; exact IHL]. Qed.

Lemma allnil_push st : allnil st -> allnil (FC.push_fn st).
Proof. exact (fun _ => I). Qed.
Lemma allnil_pop st : allnil st -> allnil (FC.pop_fn st).
Proof. exact (fun _ => I). Qed.

(* the invariant at the start of a function body *)
Lemma fn_body_post code nm ps s env1 outers infn st0 :
  afits code -> envrel s env1 outers infn -> lamrel s st0 ->
  Post code (mkS (fcomp nm ps) (s_cur s :: s_outer s) (s_classes s) (s_line s)) 0 [] (FC.fn_env ps) (env1 :: outers) true
       (FC.push_fn st0) [] (s_cur s :: s_outer s, nm, N.of_nat (S (length ps))).
Proof.
  intros Hfi He HL. split.
  - apply (St_init code Hfi); reflexivity.
  - split; [split; [reflexivity|]|].
    + exists (map pk (rev ps) ++ [fslot0]). split; [reflexivity|]. unfold FC.fn_env. cbn [CE.clocals]. apply lrel_params.
    + split; [constructor; [exact (proj1 He)|exact (proj1 (proj2 He))]|]. repeat split.
  - reflexivity.
  - unfold lamrel in *. cbn [s_cur s_outer map FC.push_fn FC.lams fcomp k_lambdas]. f_equal. exact HL.
  - split; [reflexivity|constructor].
  - reflexivity.
Qed.

Lemma St_cur all s s' i P : s_cur s' = s_cur s -> St all s i P -> St all s' i P.
Proof. intros E H. unfold St, cpos, kpos, scode in *. rewrite E. exact H. Qed.

(* finalise_compiler at the end of a function that captures nothing *)
Lemma fn_finish {B} code (Hfi : afits code) l (K : func * list (N * bool) -> C B) sb n envb outersb stb e o nm ar :
  Post code sb n [] envb outersb true stb [] (e :: o, nm, ar) ->
  nth_error code n = Some (FC.XI (CE.IOp OpNil)) -> nth_error code (S n) = Some (FC.XI (CE.IOp OpReturn)) ->
  S (S n) = length code ->
  exists g sr, (fu <- finalise_compiler l ;; K fu) sb = K (g, []) sr /\ s_cur sr = e /\ s_outer sr = o /\
               tree_rel g (FC.mkF nm ar 0 code).
Proof.
  intros [S1 He1 _ _ [K1 K2] Hg1] N1 N2 Hlen.
  cbn [map] in K1. inversion K2 as [Eb|]. unfold pending in S1. rewrite <- Eb in S1. cbn [concat app] in S1.
  destruct He1 as (_ & _ & Eit & _ & Eup & Ek).
  destruct (op_step code Hfi sb n [] OpNil l N1 S1) as (s2 & X2 & S2 & R2).
  destruct (op_step code Hfi s2 (S n) [] OpReturn l N2 S2) as (s3 & X3 & S3 & R3).
  pose proof (emit_return_fn l sb s2 s3 Ek Eit X2 X3) as X4.
  assert (R13 : rest s3 = rest sb) by congruence. pose proof (rest_cur _ _ R13) as Rc.
  unfold ghost in Hg1. injection Hg1 as G1 G2 G3.
  assert (O3 : s_outer s3 = e :: o) by (rewrite (rest_outer _ _ R13); exact G1).
  rewrite Hlen in S3. destruct (St_done code Hfi s3 S3) as [Hcode Hconsts].
  eexists. eexists. split; [|split; [|split]].
  - unfold cbind at 1. unfold finalise_compiler. rewrite (cbind_ok _ _ _ _ _ X4). cbv beta. rewrite O3.
    rewrite (restc_upvalues _ _ Rc), Eup. reflexivity.
  - reflexivity.
  - reflexivity.
  - constructor; cbn [func_of_comp f_code f_consts f_arity f_upvalues f_name FC.fo_arity FC.fo_nups FC.fo_name].
    + unfold FC.xassemble. cbn [FC.fo_code]. exact Hcode.
    + unfold FC.xassemble. cbn [FC.fo_code]. rewrite xasm_from_snd. exact Hconsts.
    + rewrite (restc_arity _ _ Rc). exact G3.
    + rewrite (restc_upvalues _ _ Rc), Eup. reflexivity.
    + rewrite (restc_name _ _ Rc). exact G2.
Qed.

(* one nested function: prologue, body (given), finalise_compiler, Closure in the parent *)
Lemma function_bridge all (Hfi : afits all) nm ps l (tailm : C unit) code n env1 outers infn st0 stb' s i P :
  FC.nodup_names ps = true -> length ps <= 255 -> afits code ->
  (forall sb,
     Post code sb 0 [] (FC.fn_env ps) (env1 :: outers) true (FC.push_fn st0) []
          (s_cur s :: s_outer s, nm, N.of_nat (S (length ps))) ->
     exists sb' envb, tailm sb = (fu <- finalise_compiler l ;; emit_closure fu l) sb' /\
       Post code sb' n [] envb (env1 :: outers) true stb' [] (s_cur s :: s_outer s, nm, N.of_nat (S (length ps)))) ->
  nth_error code n = Some (FC.XI (CE.IOp OpNil)) -> nth_error code (S n) = Some (FC.XI (CE.IOp OpReturn)) ->
  S (S n) = length code ->
  nth_error all i = Some (FC.XClosure (FC.mkF nm (N.of_nat (S (length ps))) 0 code) []) ->
  St all s i P -> envrel s env1 outers infn -> lamrel s st0 ->
  exists s', (new_compiler KFunction nm ;;; begin_scope ;;; cparams ps l ;;; tailm) s = COk (tt, s') /\
     St all s' (S i) P /\ restl s' = restl s /\ k_lambdas (s_cur s') = k_lambdas (s_cur s) /\
     map k_lambdas (s_cur s :: s_outer s) = map N.of_nat (tl (FC.lams stb')).
Proof.
  intros Hnd Hlen Hfc Hbody N1 N2 Hl Nc HS He Hlm.
  rewrite (fn_prologue nm ps l tailm s Hnd Hlen).
  destruct (Hbody _ (fn_body_post code nm ps s env1 outers infn st0 Hfc He Hlm)) as (sb' & envb & Et & HPb').
  rewrite Et.
  destruct (fn_finish code Hfc l (fun fu => emit_closure fu l) sb' n envb _ stb' _ _ nm _ HPb' N1 N2 Hl)
    as (g & sr & Ef & Ecur & Eout & Htr).
  rewrite Ef.
  destruct (closure_step all Hfi sr i P _ g l Nc Htr (St_cur all s sr i P Ecur HS)) as (s' & X' & S' & R').
  exists s'. split; [exact X'|]. split; [exact S'|]. split; [|split].
  - rewrite (rest_restl _ _ R'). unfold restl. rewrite Ecur, Eout. reflexivity.
  - rewrite (restc_lambdas _ _ (rest_cur _ _ R')), Ecur. reflexivity.
  - pose proof (po_lam _ _ _ _ _ _ _ _ _ _ HPb') as Lb. pose proof (po_ghost _ _ _ _ _ _ _ _ _ _ HPb') as Gb.
    unfold ghost in Gb. injection Gb as G1 _ _. unfold lamrel in Lb. rewrite G1 in Lb.
    apply (f_equal (@tl N)) in Lb. cbn [map tl] in Lb. cbn [map]. rewrite Lb. destruct (FC.lams stb'); reflexivity.
Qed.

Lemma fits_single nm a u code ups : sub_fits [FC.XClosure (FC.mkF nm a u code) ups] = true -> afits code /\ sub_fits code = true.
Proof.
  unfold sub_fits at 1. cbn [forallb]. rewrite andb_true_r, xfits_unfold. intros H. apply andb_prop in H. destruct H as [H1 H2].
  split; [eapply xfits1_afits; exact H1|exact H2].
Qed.

Lemma lamrel_cons s st : lamrel s st ->
  exists a r, FC.lams st = a :: r /\ k_lambdas (s_cur s) = N.of_nat a /\ map k_lambdas (s_outer s) = map N.of_nat r.
Proof.
  unfold lamrel. intros H. destruct (FC.lams st) as [|a r]; cbn [map] in H; [discriminate|]. injection H as H1 H2. eauto.
Qed.

Lemma nth_error_app_at {A} (l : list A) x r : nth_error (l ++ x :: r) (length l) = Some x.
Proof. rewrite nth_error_app2 by lia. rewrite Nat.sub_diag. reflexivity. Qed.

(* the parent after `lambda_count += 1` *)
Lemma lambda_bump s st env outers infn all i P :
  St all s i P -> envrel s env outers infn -> lamrel s st ->
  let s0 := mkS (with_lambdas (s_cur s) (k_lambdas (s_cur s) + 1)) (s_outer s) (s_classes s) (s_line s) in
  St all s0 i P /\ envrel s0 env outers infn /\ lamrel s0 (snd (FC.bump_lambda st)) /\ restl s0 = restl s /\
  lambda_name (k_lambdas (s_cur s)) = FC.lambda_fname (fst (FC.bump_lambda st)).
Proof.
  intros HS He Hlm s0. subst s0. destruct (lamrel_cons _ _ Hlm) as (a & r & El & Ea & Er).
  split; [exact HS|]. split; [eapply envrel_restl; [|exact He]; reflexivity|]. split; [|split; [reflexivity|]].
  - unfold lamrel, FC.bump_lambda. rewrite El. cbn [snd FC.lams FC.set_nth' nth map s_cur s_outer k_lambdas with_lambdas].
    rewrite Ea, Er. f_equal. lia.
  - unfold FC.bump_lambda. rewrite El, Ea. reflexivity.
Qed.

(* ---------- |ps| { body } ---------- *)
Lemma case_lambdab ps body lend : Pss body -> Pe (LLambdaB ps body lend).
Proof.
  intros IH. pe_start. cbn [lokf_e erase_expr] in *. rewrite FP.xcexpr_lambda in Hc.
  assert (Hok' : FC.nodup_names ps && (length ps <=? 255) &&
                 FC.xstmts_ok (FC.fn_env ps) (FC.pend_of env pendl) true (erase_stmts body) = true) by exact Hok.
  clear Hok. apply andb_prop in Hok'. destruct Hok' as [Hok' Okb]. apply andb_prop in Hok'. destruct Hok' as [Hnd Hlen].
  apply Nat.leb_le in Hlen.
  destruct (FC.bump_lambda st) as [a st0] eqn:Eb.
  unfold FP.body_code in Hc. dlet Hc cfull stb0 E0. dlet E0 c stb E1. inversion E0; subst cfull stb0; clear E0.
  dlet Hc ins st2 Ecl.
  inversion Hc; subst is st'; clear Hc.
  apply FP.nocap_cons in Hn. destruct Hn as [Hn _].
  destruct (FP.closure_nocap _ _ _ _ _ _ Ecl Hn) as [-> Nco].
  apply FP.nocap_app in Nco. destruct Nco as [Nc _].
  destruct (fits_single _ _ _ _ _ Hf) as [Hfc Fco]. apply sub_fits_app in Fco. destruct Fco as [Fc _].
  unfold FC.closure_of in Ecl. injection Ecl as _ Est2. subst st2.
  split; [exact I|].
  set (code := c ++ FC.xi [CE.IOp OpNil; CE.IOp OpReturn]) in *.
  intros Hfi s i P Hat HS He Hlm. cbn [cexpr].
  unfold cbind at 1, cur at 1. rewrite (cbind_ok _ _ _ _ _ (upd_eq _ _)). cbv beta.
  destruct (lambda_bump s st env outers infn all i P HS He Hlm) as (HS0 & He0 & Hlm0 & Rl0 & Enm).
  rewrite Eb in Hlm0, Enm. cbn [fst snd] in Hlm0, Enm. rewrite Enm.
  set (s0 := mkS (with_lambdas (s_cur s) (k_lambdas (s_cur s) + 1)) (s_outer s) (s_classes s) (s_line s)) in *.
  apply (at_cons all Hfi) in Hat. destruct Hat as [Ncl _].
  destruct (function_bridge all Hfi (FC.lambda_fname a) ps lend
              (cstmts body ;;; fu <- finalise_compiler lend ;; emit_closure fu lend)
              code (length c) env outers infn st0 stb s0 i P Hnd Hlen Hfc) as (s' & X' & S' & R' & Lk & Lmap); auto.
  - intros sb HPb.
    destruct (IH code (FC.fn_env ps) (env :: outers) true (FC.pend_of env pendl) (FC.push_fn st0) 0 0 c stb sb 0 [] []
                 (s_cur s0 :: s_outer s0, FC.lambda_fname a, N.of_nat (S (length ps))) Hfc Hl Okb (dinv_fn ps) E1 Nc Fc I)
      as (_ & sb' & Xb & HPb').
    + exists (FC.xi [CE.IOp OpNil; CE.IOp OpReturn]). reflexivity.
    + exact HPb.
    + intros d nl Hcl. discriminate.
    + exists sb'. eexists. split; [rewrite (cbind_ok _ _ _ _ _ Xb); reflexivity|exact HPb'].
  - unfold code. apply nth_error_app_at.
  - unfold code. change (FC.xi [CE.IOp OpNil; CE.IOp OpReturn]) with ([FC.XI (CE.IOp OpNil)] ++ [FC.XI (CE.IOp OpReturn)]).
    rewrite app_assoc. replace (S (length c)) with (length (c ++ [FC.XI (CE.IOp OpNil)])) by (rewrite app_length; simpl; lia).
    apply nth_error_app_at.
  - unfold code. rewrite app_length. simpl. lia.
  - exists s'. split; [exact X'|]. cbn [length]. replace (i + 1) with (S i) by lia. split; [exact S'|].
    split; [rewrite R'; exact Rl0|].
    unfold lamrel. cbn [FC.pop_fn FC.lams map]. rewrite (restl_outer _ _ R'), Lk. exact Lmap.
Qed.

(* ---------- |ps| e ---------- *)
Lemma case_lambdae ps body lend : Pe body -> Pe (LLambdaE ps body lend).
Proof.
  intros IH. pe_start. cbn [lokf_e erase_expr] in *. rewrite FP.xcexpr_lambda in Hc.
  assert (Hok' : FC.nodup_names ps && (length ps <=? 255) &&
                 FC.xexpr_ok (FC.fn_env ps) (FC.pend_of env pendl) (erase_expr body) = true) by exact Hok.
  clear Hok. apply andb_prop in Hok'. destruct Hok' as [Hok' Okb]. apply andb_prop in Hok'. destruct Hok' as [Hnd Hlen].
  apply Nat.leb_le in Hlen.
  destruct (FC.bump_lambda st) as [a st0] eqn:Eb.
  unfold FP.body_code in Hc. dlet Hc cfull stb0 E0. dlet E0 c stb E1. inversion E0; subst cfull stb0; clear E0.
  dlet Hc ins st2 Ecl.
  inversion Hc; subst is st'; clear Hc.
  apply FP.nocap_cons in Hn. destruct Hn as [Hn _].
  destruct (FP.closure_nocap _ _ _ _ _ _ Ecl Hn) as [-> Nco].
  apply FP.nocap_app in Nco. destruct Nco as [Nc _].
  destruct (fits_single _ _ _ _ _ Hf) as [Hfc Fco]. apply sub_fits_app in Fco. destruct Fco as [Fc _].
  unfold FC.closure_of in Ecl. injection Ecl as _ Est2. subst st2.
  split; [exact I|].
  set (code := c ++ FC.xi [CE.IOp OpReturn; CE.IOp OpNil; CE.IOp OpReturn]) in *.
  destruct (IH code (FC.fn_env ps) (env :: outers) true (FC.pend_of env pendl) (FC.push_fn st0) c stb Hl Okb E1 Nc Fc I) as [_ M1].
  assert (Nr : nth_error code (length c) = Some (FC.XI (CE.IOp OpReturn))) by (unfold code; apply nth_error_app_at).
  intros Hfi s i P Hat HS He Hlm. cbn [cexpr].
  unfold cbind at 1, cur at 1. rewrite (cbind_ok _ _ _ _ _ (upd_eq _ _)). cbv beta.
  destruct (lambda_bump s st env outers infn all i P HS He Hlm) as (HS0 & He0 & Hlm0 & Rl0 & Enm).
  rewrite Eb in Hlm0, Enm. cbn [fst snd] in Hlm0, Enm. rewrite Enm.
  set (s0 := mkS (with_lambdas (s_cur s) (k_lambdas (s_cur s) + 1)) (s_outer s) (s_classes s) (s_line s)) in *.
  apply (at_cons all Hfi) in Hat. destruct Hat as [Ncl _].
  destruct (function_bridge all Hfi (FC.lambda_fname a) ps lend
              (cexpr body ;;; emit_op OpReturn lend ;;; fu <- finalise_compiler lend ;; emit_closure fu lend)
              code (S (length c)) env outers infn st0 stb s0 i P Hnd Hlen Hfc) as (s' & X' & S' & R' & Lk & Lmap); auto.
  - intros sb HPb.
    destruct (lift_emits code (FC.fn_env ps) (env :: outers) true (FC.push_fn st0) stb (cexpr body) c sb 0 [] []
                (s_cur s0 :: s_outer s0, FC.lambda_fname a, N.of_nat (S (length ps))) Hfc M1) as (sb1 & X1 & HP1).
    + exists (FC.xi [CE.IOp OpReturn; CE.IOp OpNil; CE.IOp OpReturn]). reflexivity.
    + exact HPb.
    + destruct (lift_emits code (FC.fn_env ps) (env :: outers) true stb stb (emit_op OpReturn lend) [FC.XI (CE.IOp OpReturn)]
                  sb1 (0 + length c) [] [] (s_cur s0 :: s_outer s0, FC.lambda_fname a, N.of_nat (S (length ps))) Hfc
                  (emitsX_op code (FC.fn_env ps) (env :: outers) true stb OpReturn lend) (at_one code Hfc _ _ Nr) HP1)
        as (sb2 & X2 & HP2).
      exists sb2. eexists. split.
      * rewrite (cbind_ok _ _ _ _ _ X1). cbv beta. rewrite (cbind_ok _ _ _ _ _ X2). reflexivity.
      * cbn [length] in HP2. replace (0 + length c + 1) with (S (length c)) in HP2 by lia. exact HP2.
  - unfold code. change (FC.xi [CE.IOp OpReturn; CE.IOp OpNil; CE.IOp OpReturn])
      with ([FC.XI (CE.IOp OpReturn)] ++ FC.XI (CE.IOp OpNil) :: [FC.XI (CE.IOp OpReturn)]).
    rewrite app_assoc. replace (S (length c)) with (length (c ++ [FC.XI (CE.IOp OpReturn)])) by (rewrite app_length; simpl; lia).
    apply nth_error_app_at.
  - unfold code. change (FC.xi [CE.IOp OpReturn; CE.IOp OpNil; CE.IOp OpReturn])
      with ([FC.XI (CE.IOp OpReturn); FC.XI (CE.IOp OpNil)] ++ [FC.XI (CE.IOp OpReturn)]).
    rewrite app_assoc. replace (S (S (length c))) with (length (c ++ [FC.XI (CE.IOp OpReturn); FC.XI (CE.IOp OpNil)]))
      by (rewrite app_length; simpl; lia).
    apply nth_error_app_at.
  - unfold code. rewrite app_length. simpl. lia.
  - exists s'. split; [exact X'|]. cbn [length]. replace (i + 1) with (S i) by lia. split; [exact S'|].
    split; [rewrite R'; exact Rl0|].
    unfold lamrel. cbn [FC.pop_fn FC.lams map]. rewrite (restl_outer _ _ R'), Lk. exact Lmap.
Qed.

(* ---------- fn f(ps) { body } ---------- *)
Lemma define_variable_marked g l s d x dep KL :
  k_scope (s_cur s) = S d -> k_locals (s_cur s) = mkKL x dep false :: KL ->
  define_variable g l s =
  COk (tt, mkS (with_locals (s_cur s) (mkKL x (Some (S d)) false :: KL)) (s_outer s) (s_classes s) (s_line s)).
Proof.
  intros H HL. unfold define_variable, cbind, cur. rewrite H. cbn [Nat.ltb Nat.leb].
  exact (mark_initialised_local s d x dep KL H HL).
Qed.

Lemma fn_tail_eq {B} (m : C unit) (K : C B) sb : (cret tt ;;; m ;;; K) sb = (m ;;; K) sb.
Proof. reflexivity. Qed.

Lemma case_fn f ps body lend : Pss body -> Ps (LSFn f ps body lend).
Proof.
  intros IH. ps_start. cbn [lokf_s erase_stmt cstmt] in *. rewrite FP.xcstmt_fn in Hc. cbv zeta in Hc.
  change (with_function KFunction f ps lend (cstmts body) lend)
    with (new_compiler KFunction f ;;; begin_scope ;;; cparams ps lend ;;;
          (cret tt ;;; cstmts body ;;; fu <- finalise_compiler lend ;; emit_closure fu lend)).
  destruct (CE.cdepth env) as [|d] eqn:Ed.
  - (* global *)
    assert (Hok' : true && negb (FC.is_lambda_name f) && FC.nodup_names ps && (length ps <=? 255) &&
                   FC.xstmts_ok (FC.fn_env ps) (FC.pend_of env pendl) true (erase_stmts body) = true).
    { pose proof Hok as Hok1. cbn [FC.xstmt_ok] in Hok1. rewrite Ed in Hok1. exact Hok1. }
    clear Hok. apply andb_prop in Hok'. destruct Hok' as [Hok' Okb]. apply andb_prop in Hok'. destruct Hok' as [Hok' Hlen].
    apply andb_prop in Hok'. destruct Hok' as [_ Hnd]. apply Nat.leb_le in Hlen.
    unfold FP.body_code in Hc. dlet Hc cfull stb0 E0. dlet E0 c stb E1. inversion E0; subst cfull stb0; clear E0.
    dlet Hc ins st2 Ecl. inversion Hc; subst is st'; clear Hc.
    cbn [FC.env_after']. rewrite Ed.
    apply FP.nocap_cons in Hn. destruct Hn as [_ Hn]. apply FP.nocap_cons in Hn. destruct Hn as [Hn _].
    apply sub_fits_cons in Hf. destruct Hf as [_ Hf]. apply sub_fits_cons in Hf. destruct Hf as [Hf _].
    destruct (FP.closure_nocap _ _ _ _ _ _ Ecl Hn) as [-> Nco].
    apply FP.nocap_app in Nco. destruct Nco as [Nc _].
    destruct (fits_single _ _ _ _ _ Hf) as [Hfc Fco]. apply sub_fits_app in Fco. destruct Fco as [Fc _].
    unfold FC.closure_of in Ecl. injection Ecl as _ Est2. subst st2.
    split; [exact I|].
    set (code := c ++ FC.xi [CE.IOp OpNil; CE.IOp OpReturn]) in *.
    apply (at_cons all Hfi) in Hat. destruct Hat as [N0 Hat]. apply (at_cons all Hfi) in Hat. destruct Hat as [Ncl Hat].
    apply (at_cons all Hfi) in Hat. destruct Hat as [N2 _].
    pose proof (Post_scope0 _ _ _ _ _ _ _ _ _ _ HP Ed) as E4.
    destruct (St_touch_global all s i _ f lend Hfi N0 (po_st _ _ _ _ _ _ _ _ _ _ HP) E4) as (g & s1 & X1 & R1 & S1 & I1).
    rewrite (cbind_ok _ _ _ _ _ X1). cbv beta.
    pose proof (Post_rest all s s1 i (S i) Q Q env outers infn st stack G R1 S1 HP) as HP1.
    rewrite (cbind_ok _ _ _ _ _ (mark_initialised_global s1 (Post_scope0 _ _ _ _ _ _ _ _ _ _ HP1 Ed))). cbv beta.
    destruct (function_bridge all Hfi f ps lend
                (cret tt ;;; cstmts body ;;; fu <- finalise_compiler lend ;; emit_closure fu lend)
                code (length c) env outers infn st stb s1 (S i) (Q ++ pending s1) Hnd Hlen Hfc) as (s2 & X2 & S2 & R2 & Lk & Lmap); auto.
    + intros sb HPb. rewrite fn_tail_eq.
      destruct (IH code (FC.fn_env ps) (env :: outers) true (FC.pend_of env pendl) (FC.push_fn st) 0 0 c stb sb 0 [] []
                   (s_cur s1 :: s_outer s1, f, N.of_nat (S (length ps))) Hfc Hl Okb (dinv_fn ps) E1 Nc Fc I)
        as (_ & sb' & Xb & HPb').
      * exists (FC.xi [CE.IOp OpNil; CE.IOp OpReturn]). reflexivity.
      * exact HPb.
      * intros d nl Hcl. discriminate.
      * exists sb'. eexists. split; [rewrite (cbind_ok _ _ _ _ _ Xb); reflexivity|exact HPb'].
    + unfold code. apply nth_error_app_at.
    + unfold code. change (FC.xi [CE.IOp OpNil; CE.IOp OpReturn]) with ([FC.XI (CE.IOp OpNil)] ++ [FC.XI (CE.IOp OpReturn)]).
      rewrite app_assoc. replace (S (length c)) with (length (c ++ [FC.XI (CE.IOp OpNil)])) by (rewrite app_length; simpl; lia).
      apply nth_error_app_at.
    + unfold code. rewrite app_length. simpl. lia.
    + exact (po_st _ _ _ _ _ _ _ _ _ _ HP1).
    + exact (po_env _ _ _ _ _ _ _ _ _ _ HP1).
    + exact (po_lam _ _ _ _ _ _ _ _ _ _ HP1).
    + rewrite (cbind_ok _ _ _ _ _ X2). cbv beta.
      assert (L2 : lamrel s2 (FC.pop_fn stb)).
      { unfold lamrel. cbn [FC.pop_fn FC.lams map]. rewrite (restl_outer _ _ R2), Lk. exact Lmap. }
      pose proof (Post_restl all s1 s2 (S i) (S (S i)) Q Q env outers infn st (FC.pop_fn stb) stack G R2 L2 S2 HP1) as HP2.
      rewrite (define_variable_global g lend s2 (Post_scope0 _ _ _ _ _ _ _ _ _ _ HP2 Ed)).
      destruct (global16_step all Hfi s2 (S (S i)) _ OpDefineGlobal f g lend (S i) N2 ltac:(lia) I1 (po_st _ _ _ _ _ _ _ _ _ _ HP2))
        as (s3 & X3 & S3 & R3).
      exists s3. split; [exact X3|]. cbn [length]. replace (i + 3) with (S (S (S i))) by lia.
      eapply Post_rest; [exact R3|exact S3|exact HP2].
  - (* local *)
    assert (Hok' : negb (CE.declared_here (S d) (CE.clocals env) f) && (length (CE.clocals env) <? 256) &&
                   negb (FC.is_lambda_name f) && FC.nodup_names ps && (length ps <=? 255) &&
                   FC.xstmts_ok (FC.fn_env ps) (FC.pend_of (CE.add_local env f) pendl) true (erase_stmts body) = true).
    { pose proof Hok as Hok1. cbn [FC.xstmt_ok] in Hok1. rewrite Ed in Hok1. exact Hok1. }
    clear Hok. apply andb_prop in Hok'. destruct Hok' as [Hok' Okb]. apply andb_prop in Hok'. destruct Hok' as [Hok' Hlen].
    apply andb_prop in Hok'. destruct Hok' as [Hok' Hnd]. apply andb_prop in Hok'. destruct Hok' as [Hok' _].
    apply andb_prop in Hok'. destruct Hok' as [Hdecl Hlc]. apply negb_true_iff in Hdecl. apply Nat.ltb_lt in Hlc.
    apply Nat.leb_le in Hlen.
    unfold FP.body_code in Hc. dlet Hc cfull stb0 E0. dlet E0 c stb E1. inversion E0; subst cfull stb0; clear E0.
    dlet Hc ins st2 Ecl. inversion Hc; subst is st'; clear Hc.
    cbn [FC.env_after']. rewrite Ed.
    apply FP.nocap_cons in Hn. destruct Hn as [Hn _].
    destruct (FP.closure_nocap _ _ _ _ _ _ Ecl Hn) as [-> Nco].
    apply FP.nocap_app in Nco. destruct Nco as [Nc _].
    destruct (fits_single _ _ _ _ _ Hf) as [Hfc Fco]. apply sub_fits_app in Fco. destruct Fco as [Fc _].
    unfold FC.closure_of in Ecl. injection Ecl as _ Est2. subst st2.
    split; [exact I|].
    set (code := c ++ FC.xi [CE.IOp OpNil; CE.IOp OpReturn]) in *.
    apply (at_cons all Hfi) in Hat. destruct Hat as [Ncl _].
    destruct (declare_local all s i Q env outers infn st stack G f lend d HP Ed Hdecl Hlc) as (X1 & Sc1 & ELr & He1).
    rewrite (cbind_ok _ _ _ _ _ X1). cbv beta.
    rewrite (cbind_ok _ _ _ _ _ (mark_initialised_local (declared s f) d f None (k_locals (s_cur s)) Sc1 eq_refl)). cbv beta.
    pose proof (define_local_post all s (declared s f) i i Q env outers infn st st stack G f d HP Ed ELr eq_refl
                  (po_st _ _ _ _ _ _ _ _ _ _ HP) (po_lam _ _ _ _ _ _ _ _ _ _ HP)) as HP1.
    set (s1 := defined (declared s f) f (S d) (k_locals (s_cur s))) in *.
    change (mkS (with_locals (s_cur (declared s f)) (mkKL f (Some (S d)) false :: k_locals (s_cur s)))
                (s_outer (declared s f)) (s_classes (declared s f)) (s_line (declared s f))) with s1.
    destruct (function_bridge all Hfi f ps lend
                (cret tt ;;; cstmts body ;;; fu <- finalise_compiler lend ;; emit_closure fu lend)
                code (length c) (CE.add_local env f) outers infn st stb s1 i (Q ++ pending s1) Hnd Hlen Hfc)
      as (s2 & X2 & S2 & R2 & Lk & Lmap); auto.
    + intros sb HPb. rewrite fn_tail_eq.
      destruct (IH code (FC.fn_env ps) (CE.add_local env f :: outers) true (FC.pend_of (CE.add_local env f) pendl) (FC.push_fn st) 0 0
                   c stb sb 0 [] [] (s_cur s1 :: s_outer s1, f, N.of_nat (S (length ps))) Hfc Hl Okb (dinv_fn ps) E1 Nc Fc I)
        as (_ & sb' & Xb & HPb').
      * exists (FC.xi [CE.IOp OpNil; CE.IOp OpReturn]). reflexivity.
      * exact HPb.
      * intros d0 nl Hcl. discriminate.
      * exists sb'. eexists. split; [rewrite (cbind_ok _ _ _ _ _ Xb); reflexivity|exact HPb'].
    + unfold code. apply nth_error_app_at.
    + unfold code. change (FC.xi [CE.IOp OpNil; CE.IOp OpReturn]) with ([FC.XI (CE.IOp OpNil)] ++ [FC.XI (CE.IOp OpReturn)]).
      rewrite app_assoc. replace (S (length c)) with (length (c ++ [FC.XI (CE.IOp OpNil)])) by (rewrite app_length; simpl; lia).
      apply nth_error_app_at.
    + unfold code. rewrite app_length. simpl. lia.
    + exact (po_st _ _ _ _ _ _ _ _ _ _ HP1).
    + exact (po_env _ _ _ _ _ _ _ _ _ _ HP1).
    + exact (po_lam _ _ _ _ _ _ _ _ _ _ HP1).
    + rewrite (cbind_ok _ _ _ _ _ X2). cbv beta.
      assert (L2 : lamrel s2 (FC.pop_fn stb)).
      { unfold lamrel. cbn [FC.pop_fn FC.lams map]. rewrite (restl_outer _ _ R2), Lk. exact Lmap. }
      pose proof (Post_restl all s1 s2 i (S i) Q Q (CE.add_local env f) outers infn st (FC.pop_fn stb) stack G R2 L2 S2 HP1) as HP2.
      assert (Sc2 : k_scope (s_cur s2) = S d) by (rewrite (restl_scope _ _ R2); exact Sc1).
      assert (KL2 : k_locals (s_cur s2) = mkKL f (Some (S d)) false :: k_locals (s_cur s)) by (rewrite (restl_locals _ _ R2); reflexivity).
      rewrite (define_variable_marked 0%N lend s2 d f (Some (S d)) (k_locals (s_cur s)) Sc2 KL2).
      eexists. split; [reflexivity|]. cbn [length]. replace (i + 1) with (S i) by lia.
      eapply Post_change; [exact HP2|reflexivity| |reflexivity].
      destruct (po_env _ _ _ _ _ _ _ _ _ _ HP2) as ((Esc & KL & EKL & ELr2) & _).
      split; [exact Esc|]. exists KL. cbn [s_cur k_locals with_locals]. rewrite <- KL2. split; [exact EKL|exact ELr2].
Qed.

(* ================================================================== *)
(* HEADLINE THEOREMS                                                    *)

Theorem bridge_all :
  (forall e, Pe e) /\ (forall es, Pes es) /\ (forall ps, Pps ps) /\ (forall st, Ps st) /\ (forall ss, Pss ss).
Proof. exact (bridge_all_cond case_lambdae case_lambdab case_fn). Qed.

(* ITEM 2 of the brief.  For EVERY script of the function fragment of C05 (FnCompile.xprogram_ok: fn declarations global and
   local, lambdas with expression / block bodies, calls, return, and the whole statement fragment inside function bodies)
   whose compiled code captures nothing (nocap_code: no upvalue instruction, every Closure without descriptors - the hypothesis
   of C05_compile_fn_correct_nocapture), FullCompile's function TREE is the assembly, function by function, of FnCompile's
   tree: code bytes = fst (xassemble f), constants entry by entry (numbers / strings equal, nested functions related
   recursively), arity, upvalue count, name.
   Side conditions: [lokf_ss] (identifiers non-empty and not `self`, number literals not NaN / negative: true of every parser
   output), [xfits] (per function of the tree: code < 65536 bytes, <= 65536 constants - otherwise FullCompile, like
   compiler.rs, reports an error).
   NOT covered by this theorem (covered by the evaluated checker FullBridgeFnDefs.bridge_Fn only): programs in which a
   function captures a local of an enclosing function (upvalue descriptors, CloseUpvalue at scope ends). *)
Theorem full_compile_fn_tree lp :
  lokf_ss (fst lp) = true -> FC.xprogram_ok (erase_prog lp) = true ->
  FC.nocap_code (FC.fo_code (FC.xprogram (erase_prog lp))) = true -> xfits (FC.xprogram (erase_prog lp)) = true ->
  exists g, compile_program lp = COk g /\ tree_rel g (FC.xprogram (erase_prog lp)).
Proof. exact (full_compile_fn_tree_cond case_lambdae case_lambdab case_fn lp). Qed.
Print Assumptions full_compile_fn_tree.

(* ---------- corollary: C05_compile_fn_correct_nocapture about FullCompile's output ---------- *)
From YV Require ExprSem FnSem FnVM.

(* the machine (FnVM.v executes the symbolic function objects) runs the fobj [f] whose assembly IS the function tree [g]
   FullCompile built ([tree_rel g f]) *)
Theorem full_compile_fn_correct_nocapture : forall fuel lp s' o,
  lokf_ss (fst lp) = true -> FC.xprogram_ok (erase_prog lp) = true ->
  FC.nocap_code (FC.fo_code (FC.xprogram (erase_prog lp))) = true -> xfits (FC.xprogram (erase_prog lp)) = true ->
  FnSem.frun_program fuel (erase_prog lp) = (s', o) ->
  exists g f, compile_program lp = COk g /\ tree_rel g f /\
    match o with
    | FnSem.FNormal => exists k m, FnVM.mrun k (FnVM.mstate0 f) = FnVM.MDone m /\ FnVM.mwd m = FnSem.ewd s'
    | FnSem.FErr e => e <> ExprSem.Unsupported -> exists k, FnVM.mrun k (FnVM.mstate0 f) = FnVM.MFail e (FnSem.ewd s')
    | FnSem.FFuel => True
    | FnSem.FBreak | FnSem.FContinue | FnSem.FReturn _ => False
    end.
Proof.
  intros fuel lp s' o Hl Hok Hn Hfit Hrun.
  destruct (full_compile_fn_tree lp Hl Hok Hn Hfit) as (g & E & Htr).
  exists g, (FC.xprogram (erase_prog lp)). split; [exact E|]. split; [exact Htr|].
  exact (FP.compile_fn_correct_nocapture fuel (erase_prog lp) s' o Hok Hn Hrun).
Qed.
Print Assumptions full_compile_fn_correct_nocapture.

(* the checker is sound for the relation: what bridge_Fn evaluates to "same" satisfies the arity / upvalue / name / code part *)

(* ---------- the hypotheses are satisfiable (non-vacuity) ---------- *)
From YV Require Parser.
Definition ex_src : list byte :=
  bs "fn add(a, b) { return a + b; } fn twice(x) { fn h(y) { return add(y, y); } return h(x); } var l = |u| u * 2; var k = |v| { var z = v; { var w = 2; z = z + w; } return z; }; fn loop(n) { var i = 0; while true { if i >= n && l(1) { return i; } else if i > 100 { break; } i = i + 1; continue; } return; } print(twice(3), l(4), k(1), loop(5));".

(* named functions with parameters calling one another, a local fn, an expression lambda, a block lambda with a nested
   block, return inside while / if, break, continue *)
Definition ex_ok : bool :=
  match lparse_source ex_src with
  | Parser.POk lp =>
    lokf_ss (fst lp) && FC.xprogram_ok (erase_prog lp) &&
    FC.nocap_code (FC.fo_code (FC.xprogram (erase_prog lp))) && xfits (FC.xprogram (erase_prog lp)) &&
    match compile_program lp with
    | COk g => tree_eqb g (FC.xprogram (erase_prog lp)) && Nat.leb 6 (length (f_consts g)) && Nat.leb 60 (length (f_code g))
    | CErr _ _ => false
    end
  | _ => false
  end.

Example full_compile_fn_tree_nonvacuous :
  exists lp, lparse_source ex_src = Parser.POk lp /\
    lokf_ss (fst lp) = true /\ FC.xprogram_ok (erase_prog lp) = true /\
    FC.nocap_code (FC.fo_code (FC.xprogram (erase_prog lp))) = true /\ xfits (FC.xprogram (erase_prog lp)) = true /\
    exists g, compile_program lp = COk g /\ tree_eqb g (FC.xprogram (erase_prog lp)) = true /\
              Nat.leb 6 (length (f_consts g)) = true /\ Nat.leb 60 (length (f_code g)) = true.
Proof.
  assert (H : ex_ok = true) by (vm_compute; reflexivity).
  unfold ex_ok in H. destruct (lparse_source ex_src) as [lp| |]; try discriminate H.
  exists lp. split; [reflexivity|].
  apply andb_prop in H. destruct H as [H H5]. apply andb_prop in H. destruct H as [H H4].
  apply andb_prop in H. destruct H as [H H3]. apply andb_prop in H. destruct H as [H1 H2].
  repeat (split; [assumption|]).
  destruct (compile_program lp) as [g|]; [|discriminate H5]. exists g. split; [reflexivity|].
  apply andb_prop in H5. destruct H5 as [H5 H7]. apply andb_prop in H5. destruct H5 as [H5 H6]. auto.
Qed.

(* ---------- the evaluated checker is sound for tree_rel ---------- *)
From YV Require NumProofs.

Lemma Ns_eqb_true a : forall b, Ns_eqb a b = true -> a = b.
Proof.
  induction a as [|x a IH]; intros [|y b] H; try discriminate; auto.
  cbn in H. apply andb_prop in H. destruct H as [H1 H2]. apply N.eqb_eq in H1. subst. f_equal. auto.
Qed.

Lemma utf8_bytes_eqb_true a b : Utf8.bytes_eqb a b = true -> a = b.
Proof. rewrite <- ce_bytes_eqb. apply CP.cbytes_eqb_eq. Qed.

(* what FullBridgeFnDefs.bridge_Fn answers "same" for satisfies the relation of the theorems (also for programs WITH
   captures, which the proved theorem does not cover) *)
Fixpoint tree_eqb_sound (g : func) {struct g} : forall f, tree_eqb g f = true -> tree_rel g f.
Proof.
  destruct g as [a u n code ks lines]. intros f H. cbn [tree_eqb] in H.
  destruct (FC.xassemble f) as [bytes tbl] eqn:E.
  apply andb_prop in H. destruct H as [H Hk]. apply andb_prop in H. destruct H as [H Hc].
  apply andb_prop in H. destruct H as [H Hn]. apply andb_prop in H. destruct H as [Ha Hu].
  constructor; rewrite ?E; cbn [f_code f_consts f_arity f_upvalues f_name fst snd].
  - apply Ns_eqb_true. exact Hc.
  - clear E. revert tbl Hk. clear - tree_eqb_sound.
    induction ks as [|k ks IHks]; intros tbl Hk.
    + destruct tbl; [constructor|discriminate Hk].
    + destruct tbl as [|t tbl]; [destruct k; discriminate Hk|].
      destruct k as [x|s0|g']; destruct t as [[y|t0]|f']; try discriminate Hk;
        apply andb_prop in Hk; destruct Hk as [H1 H2]; constructor; try (apply IHks; exact H2).
      * apply NumProofs.f64_eq_exact_true in H1. subst y. exact (CRc (CE.CNum x)).
      * apply utf8_bytes_eqb_true in H1. subst t0. exact (CRc (CE.CStr s0)).
      * constructor. apply tree_eqb_sound. exact H1.
  - apply N.eqb_eq. exact Ha.
  - apply N.eqb_eq. exact Hu.
  - apply utf8_bytes_eqb_true. exact Hn.
Qed.
Print Assumptions tree_eqb_sound.

Theorem bridge_Fn_same_sound lp :
  bridge_Fn lp = "same"%string -> exists g, compile_program lp = COk g /\ tree_rel g (FC.xprogram (erase_prog lp)).
Proof.
  unfold bridge_Fn. cbv zeta. change (erase_program lp) with (erase_prog lp).
  destruct (negb (FC.xprogram_ok (erase_prog lp) && lokf_ss (fst lp))); [intros H; discriminate H|].
  destruct (negb (xfits (FC.xprogram (erase_prog lp)))); [intros H; discriminate H|].
  destruct (compile_program lp) as [g|]; [|intros H; discriminate H].
  destruct (tree_eqb g (FC.xprogram (erase_prog lp))) eqn:E; [|intros H; discriminate H].
  intros _. exists g. split; [reflexivity|apply tree_eqb_sound; exact E].
Qed.
Print Assumptions bridge_Fn_same_sound.
