(* FullBridge, item 2 (definitions): FullCompile's function TREE against FnCompile's (C05, function fragment).
   EXECUTABLE DEFINITIONS ONLY:
     tree_eqb g f   : the decidable version of FullBridgeFn.tree_rel (code bytes, constant table entry by entry
                      - numbers / strings / nested functions recursively -, arity, upvalue count, name);
     xfits f        : the explicit size side conditions, per function of the tree
                      (code < 65536 bytes, <= 65536 constants, <= 256 upvalues);
     lokf_e / lokf_s: side conditions on the located syntax (true of every parser output): identifiers are
                      non-empty and not the keyword `self`, number literals are `plain`;
     bridge_Fn      : the checker "same" / "DIFF" / "notfrag" / "nofit" / "cerr";  bridge_Fn_hex: the wire entry. *)
From Coq Require Import Strings.Byte Strings.String.
From Coq Require Import List NArith ZArith Bool Arith.
From Coq Require Import Floats.SpecFloat.
From YV Require Import Show Utf8 Num Ast Scanner Parser ParseRun Bytecode ParseLoc FullCompile FullCompileRun FullCompileProofs.
From YV Require CompileExpr FnCompile.
Import ListNotations.
Local Open Scope nat_scope.
Local Open Scope list_scope.
Local Open Scope string_scope.

Module FC := FnCompile.

(* ---------- the decidable tree relation ---------- *)
Fixpoint tree_eqb (g : func) (f : FC.fobj) {struct g} : bool :=
  match g with
  | MkFunc a u n code ks _ =>
    let (bytes, tbl) := FC.xassemble f in
    N.eqb a (FC.fo_arity f) && N.eqb u (N.of_nat (FC.fo_nups f)) && Utf8.bytes_eqb n (FC.fo_name f) &&
    Ns_eqb code bytes &&
    (fix go (ks : list const) (tbl : list FC.xconst) {struct ks} : bool :=
       match ks, tbl with
       | [], [] => true
       | KNum x :: r, FC.XC (CE.CNum y) :: r' => f64_eq_exact x y && go r r'
       | KStr s :: r, FC.XC (CE.CStr t) :: r' => Utf8.bytes_eqb s t && go r r'
       | KFun g' :: r, FC.XF f' :: r' => tree_eqb g' f' && go r r'
       | _, _ => false
       end) ks tbl
  end.

(* ---------- size side conditions, for every function of the tree ---------- *)
Definition xfits1 (f : FC.fobj) : bool :=
  (N.of_nat (FC.xcode_size (FC.fo_code f)) <? 65536)%N &&
  (N.of_nat (length (snd (FC.xassemble f))) <=? 65536)%N &&
  (FC.fo_nups f <=? 256)%nat.

Fixpoint xfits (f : FC.fobj) : bool :=
  match f with
  | FC.mkF nm a u code =>
    xfits1 (FC.mkF nm a u code) &&
    (fix go (c : list FC.xinstr) : bool :=
       match c with
       | [] => true
       | FC.XI _ :: r => go r
       | FC.XClosure f' _ :: r => xfits f' && go r
       end) code
  end.

(* ---------- side conditions on the located syntax ---------- *)
(* an Identifier token is never empty and never the keyword `self` *)
Definition namef_ok (x : name) : bool := nonempty_name x && negb (Utf8.bytes_eqb (bs "self") x).

Fixpoint lokf_e (e : lexpr) : bool :=
  match e with
  | LNil _ | LTrue _ | LFalse _ | LStr _ _ => true
  | LNum _ x => plain x
  | LInterp ps _ => lokf_ps ps
  | LVar _ x => namef_ok x
  | LAssign x e1 _ => namef_ok x && lokf_e e1
  | LCompound x _ _ e1 _ => namef_ok x && lokf_e e1
  | LUnary _ e1 _ => lokf_e e1
  | LBinary _ a b _ | LRange a b _ | LIndex a b _ => lokf_e a && lokf_e b
  | LAnd a _ b | LOr a _ b => lokf_e a && lokf_e b
  | LCall f args _ => lokf_e f && lokf_es args
  | LSetIndex o i e1 _ => lokf_e o && lokf_e i && lokf_e e1
  | LTuple es _ | LVec es _ => lokf_es es
  | LLambdaE _ b _ => lokf_e b
  | LLambdaB _ b _ => lokf_ss b
  | _ => false
  end
with lokf_es (es : lexprs) : bool :=
  match es with LENil => true | LECons e r => lokf_e e && lokf_es r end
with lokf_ps (ps : lparts) : bool :=
  match ps with LPNil => true | LPStr _ _ r => lokf_ps r | LPExpr e _ r => lokf_e e && lokf_ps r end
with lokf_s (s : lstmt) : bool :=
  match s with
  | LSExpr e _ => lokf_e e
  | LSVar _ _ _ => true
  | LSVarInit _ e _ => lokf_e e
  | LSFn _ _ b _ => lokf_ss b
  | LSReturn _ => true
  | LSReturnE e _ => lokf_e e
  | LSBlock b _ => lokf_ss b
  | LSIf c _ t _ => lokf_e c && lokf_ss t
  | LSIfElse c _ t _ e => lokf_e c && lokf_ss t && lokf_s e
  | LSWhile c _ b _ => lokf_e c && lokf_ss b
  | LSBreak _ | LSContinue _ => true
  | _ => false
  end
with lokf_ss (l : lstmts) : bool :=
  match l with LSNil => true | LSCons s r => lokf_s s && lokf_ss r end.

(* ---------- the checker ---------- *)
Definition bridge_Fn (lp : lprogram) : string :=
  let p := erase_program lp in
  if negb (FC.xprogram_ok p && lokf_ss (fst lp)) then "notfrag" else
  let f := FC.xprogram p in
  if negb (xfits f) then "nofit" else
  match compile_program lp with
  | COk g => if tree_eqb g f then "same" else "DIFF"
  | CErr _ _ => "cerr"
  end.

(* + does the compiled tree capture anything?  ("same/nocap" is the domain of the proved theorem
   FullBridgeFn.full_compile_fn_tree, "same/cap" is covered by this check only) *)
Definition bridge_Fn_cap (lp : lprogram) : string :=
  let r := bridge_Fn lp in
  match r with
  | "same" => if FC.nocap_code (FC.fo_code (FC.xprogram (erase_program lp))) then "same/nocap" else "same/cap"
  | _ => r
  end.

Definition bridge_Fn_src (src : list byte) : string :=
  match lparse_source src with
  | POk lp => bridge_Fn_cap lp
  | PErr _ _ _ => "parse"
  | POutOfFuel => "fuel"
  end.

(* the entry a driver uses: the source as a hex string *)
Definition bridge_Fn_hex (h : string) : string := bridge_Fn_src (bytes_of_hex h).
