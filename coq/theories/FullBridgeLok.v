(* FullBridge-Lok: the side condition `lok_ss` of FullBridgeC05.full_compile_stmt_bridge is TRUE of every output of
   the located parser - proved, not evaluated.

   1. `lwf_*` (FullBridgeLokDefs.v): a total well-formedness predicate over the located syntax.
   2. `lwf_lok`: inside the C05 fragment (CE.stmts_ok) lwf implies lok; corollary `full_compile_stmt_bridge_lwf`.
   3. parser half: `lparse_program_lwf`: if every token satisfies `tok_ok` then the tree ParseLoc builds is lwf -
      a walk through every function of ParseLoc.v, by induction on the fuel of the knot.
   4. scanner half (FullBridgeLokScan.v): every token of `scan_all src` satisfies `tok_ok`.
   5. headline `lparse_source_lwf` and the source-level corollary `full_compile_stmt_bridge_source`. *)
From Coq Require Import Strings.Byte Strings.String.
From Coq Require Import List NArith ZArith Bool Arith Lia.
From Coq Require Import Floats.SpecFloat.
From YV Require Import Show Utf8 NumText Ast Scanner ParserRules Parser ParseLoc.
From YV Require Import FullBridgeLokDefs.
From YV Require FullBridgeLokScan.
From YV Require FullCompile FullCompileProofs FullBridgeC05 CompileExpr CompileExprProofs.
Import ListNotations.
Local Open Scope list_scope.

Module CE := CompileExpr.
Module CP := CompileExprProofs.
Module B5 := FullBridgeC05.

(* ================================================================== *)
(* 2. inside the fragment, lwf implies lok                              *)

Lemma andb3 a b : a && b = true -> a = true /\ b = true.
Proof. apply andb_prop. Qed.

Ltac bsplit :=
  repeat match goal with
         | H : _ && _ = true |- _ => apply andb_prop in H; destruct H
         end.
Ltac bgoal := repeat (first [assumption | apply andb_true_intro; split]).

Lemma lwf_lok_all :
  (forall e, lwf_e e = true -> forall env, CE.expr_ok env (erase_expr e) = true -> B5.lok_e e = true) /\
  (forall es, lwf_es es = true -> forall env, forallb (CE.expr_ok env) (erase_exprs es) = true -> B5.lok_es es = true) /\
  (forall ps, lwf_ps ps = true -> forall env, B5.interp_ok env (erase_parts ps) = true -> B5.lok_ps ps = true) /\
  (forall kvs : lkvs, True) /\
  (forall s, lwf_s s = true -> forall env, CE.stmt_ok env (erase_stmt s) = true -> B5.lok_s s = true) /\
  (forall l, lwf_ss l = true -> forall env, CE.stmts_ok env (erase_stmts l) = true -> B5.lok_ss l = true) /\
  (forall ms : lmethods, True).
Proof.
  apply FullCompileProofs.lsyntax_mutind; intros; try exact I; try reflexivity;
    cbn [lwf_e lwf_es lwf_ps lwf_s lwf_ss erase_expr erase_exprs erase_parts erase_stmt erase_stmts
         B5.lok_e B5.lok_es B5.lok_ps B5.lok_s B5.lok_ss forallb B5.interp_ok] in *;
    try (rewrite B5.expr_ok_interp in *);
    try (rewrite CP.stmt_ok_block in *); try (rewrite CP.stmt_ok_if in *); try (rewrite CP.stmt_ok_while in *);
    try match goal with H : CE.expr_ok _ _ = true |- _ => cbn [CE.expr_ok] in H end;
    try match goal with H : CE.stmt_ok _ _ = true |- _ => cbn [CE.stmt_ok] in H end;
    try match goal with H : CE.stmts_ok _ (_ :: _) = true |- _ => cbn [CE.stmts_ok] in H end;
    try discriminate; bsplit;
    try match goal with H : match CE.cdepth ?env with O => _ | S _ => _ end = true |- _ =>
          destruct (CE.cdepth env); bsplit end;
    try match goal with H : match ?s with SBlock _ _ => _ | _ => _ end = true |- _ => apply B5.stmt_ok_else in H end;
    bgoal; eauto.
Qed.

Theorem lwf_lok : forall l env, lwf_ss l = true -> CE.stmts_ok env (erase_stmts l) = true -> B5.lok_ss l = true.
Proof. intros l env H1 H2. exact (proj1 (proj2 (proj2 (proj2 (proj2 (proj2 lwf_lok_all))))) l H1 env H2). Qed.

(* full_compile_stmt_bridge with lwf_ss in place of lok_ss *)
Theorem full_compile_stmt_bridge_lwf : forall lp : lprogram,
  lwf_ss (fst lp) = true -> CE.program_ok (erase_stmts (fst lp)) = true -> CE.fits (B5.prog_code lp) = true ->
  exists f, FullCompile.compile_program lp = FullCompile.COk f /\
            FullCompile.f_code f = CE.assemble (B5.prog_code lp) /\
            FullCompile.f_consts f = map FullCompileProofs.conv (CE.const_table (B5.prog_code lp)) /\
            FullCompile.f_arity f = 1%N /\ FullCompile.f_upvalues f = 0%N /\ FullCompile.f_name f = [].
Proof.
  intros lp Hw Hok Hfits. apply B5.full_compile_stmt_bridge; [|exact Hok|exact Hfits].
  exact (lwf_lok _ _ Hw Hok).
Qed.
Print Assumptions full_compile_stmt_bridge_lwf.

(* ================================================================== *)
(* 3. the parser half: a walk through ParseLoc.v                        *)

Definition tko (t : token) : Prop := tok_ok t = true.
(* every token the parser holds or will be handed satisfies tok_ok; every attribute ARGUMENT in the attribute table is
   the lexeme of an Identifier token *)
Definition idt (t : token) : Prop := name_ok (tsource t) = true.
Definition attr_ok (a : attribute) : Prop := Forall idt (a_args a).
Definition sinv (s : pstate) : Prop :=
  tko (p_prev s) /\ tko (p_cur s) /\ Forall tko (p_rest s) /\ Forall attr_ok (p_attrs s).
Definition T {A} : A -> Prop := fun _ => True.

Definition spec {A} (P : pstate -> Prop) (m : M A) (Q : A -> pstate -> Prop) : Prop :=
  forall s a s', P s -> m s = POk (a, s') -> Q a s'.
Definition wf {A} (Q : A -> Prop) (m : M A) : Prop := spec sinv m (fun a s' => sinv s' /\ Q a).

Lemma bind_ok A B (m : M A) (k : A -> M B) s r :
  bind m k s = POk r -> exists a s1, m s = POk (a, s1) /\ k a s1 = POk r.
Proof. unfold bind. destruct (m s) as [[a s1]| |]; try discriminate. intros H. exists a, s1. auto. Qed.

Lemma spec_bind A B P (m : M A) (k : A -> M B) Q1 Q :
  spec P m Q1 -> (forall a, spec (Q1 a) (k a) Q) -> spec P (bind m k) Q.
Proof.
  intros H1 H2 s b s' Hs E. destruct (bind_ok _ _ _ _ _ _ E) as (a & s1 & E1 & E2).
  eapply H2; [eapply H1; eassumption|exact E2].
Qed.
Lemma wf_bind A B (Q1 : A -> Prop) (Q : B -> Prop) m k :
  wf Q1 m -> (forall a, Q1 a -> wf Q (k a)) -> wf Q (bind m k).
Proof.
  intros H1 H2. eapply spec_bind; [exact H1|]. intros a s b s' [Hs Ha] E. eapply H2; eassumption.
Qed.
Lemma wf_weaken A (Q Q' : A -> Prop) m : wf Q m -> (forall a, Q a -> Q' a) -> wf Q' m.
Proof. intros H HQ s a s' Hs E. destruct (H s a s' Hs E). auto. Qed.
Lemma wf_T A (Q : A -> Prop) m : wf Q m -> wf T m.
Proof. intros H. eapply wf_weaken; [exact H|]. intros; exact I. Qed.
Lemma wf_ret A (Q : A -> Prop) a : Q a -> wf Q (ret a).
Proof. intros H s b s' Hs E. inversion E; subst. auto. Qed.

(* ---------- primitives ---------- *)
Ltac prim := intros s a s' Hs E; cbn in E; inversion E; subst; split; [exact Hs|try exact I].
Lemma wf_get : wf sinv get. Proof. prim. exact Hs. Qed.
Lemma wf_check k : wf T (check k). Proof. prim. Qed.
Lemma wf_check_any k : wf T (check_any k). Proof. prim. Qed.
Lemma wf_current : wf tko current. Proof. prim. apply Hs. Qed.
Lemma wf_previous : wf tko previous. Proof. prim. apply Hs. Qed.
Lemma wf_pline : wf T pline. Proof. prim. Qed.
Lemma wf_compiler : wf T compiler_. Proof. prim. Qed.
Lemma wf_in_class : wf T in_class. Proof. prim. Qed.
Lemma wf_set_stm b : wf T (set_stm b). Proof. prim. Qed.
Lemma wf_set_comps b : wf T (set_comps b). Proof. prim. Qed.
Lemma wf_set_classes b : wf T (set_classes b). Proof. prim. Qed.
Lemma wf_set_attrs al op : Forall attr_ok al -> wf T (set_attrs al op).
Proof. intros Ha s a s' Hs E. cbn in E. inversion E; subst. split; [|exact I]. destruct Hs as (H1 & H2 & H3 & _). repeat split; assumption. Qed.
Lemma wf_new_compiler k : wf T (new_compiler k). Proof. prim. Qed.
Lemma wf_finalise_compiler : wf T finalise_compiler. Proof. prim. Qed.
Lemma wf_update_comp f : wf T (update_comp f).
Proof. intros s a s' Hs E. unfold update_comp in E. destruct (p_comps s); cbn in E; inversion E; subst; split; [exact Hs|exact I|exact Hs|exact I]. Qed.
Lemma wf_set_previous t : tko t -> wf T (set_previous t).
Proof. intros Ht s a s' Hs E. cbn in E. inversion E; subst. split; [|exact I]. destruct Hs as (_ & H2 & H3 & H4). split; [exact Ht|split; [|split]; assumption]. Qed.
Lemma wf_error A (Q : A -> Prop) msg : wf Q (error msg). Proof. intros s a s' Hs E. discriminate E. Qed.
Lemma wf_error_at A (Q : A -> Prop) t msg : wf Q (error_at t msg). Proof. intros s a s' Hs E. discriminate E. Qed.
Lemma wf_error_at_current A (Q : A -> Prop) msg : wf Q (error_at_current msg). Proof. intros s a s' Hs E. discriminate E. Qed.
Lemma wf_model_error A (Q : A -> Prop) msg : wf Q (model_error msg). Proof. intros s a s' Hs E. discriminate E. Qed.
Lemma wf_out_of_fuel A (Q : A -> Prop) : wf Q out_of_fuel. Proof. intros s a s' Hs E. discriminate E. Qed.

Lemma tko_eof l : tko (mkToken TEof l []). Proof. reflexivity. Qed.
Lemma advance_spec c : spec (fun s => sinv s /\ p_cur s = c) advance (fun _ s' => sinv s' /\ p_prev s' = c).
Proof.
  intros s a s' [(Hp & Hc & Hr & Ha) Ec] E. unfold advance in E. destruct (p_rest s) as [|t r] eqn:Er.
  - inversion E; subst. split; [|reflexivity]. split; [exact Hc|split; [apply tko_eof|split; [constructor|exact Ha]]].
  - inversion Hr; subst.
    destruct (tk t); try discriminate; inversion E; subst; (split; [|reflexivity]);
      (split; [exact Hc|split; [|split]; assumption]).
Qed.
Lemma wf_advance : wf T advance.
Proof. intros s a s' Hs E. destruct (advance_spec (p_cur s) s a s' (conj Hs eq_refl) E) as [H _]. split; [exact H|exact I]. Qed.

Create HintDb lokdb.
#[local] Hint Resolve wf_get wf_check wf_check_any wf_current wf_previous wf_pline wf_compiler wf_in_class wf_set_stm
  wf_set_comps wf_set_classes wf_set_attrs wf_new_compiler wf_finalise_compiler wf_update_comp wf_set_previous
  wf_error wf_error_at wf_error_at_current wf_model_error wf_out_of_fuel wf_advance : lokdb.
#[local] Hint Extern 1 (T _) => exact I : lokdb core.
#[local] Hint Extern 1 (Forall _ []) => constructor : lokdb core.
Lemma sinv_attrs s : sinv s -> Forall attr_ok (p_attrs s). Proof. intros H; apply H. Qed.
#[local] Hint Resolve sinv_attrs : lokdb.

(* ---------- result predicates ---------- *)
Definition QN (x : name) : Prop := name_ok x = true.
Definition QNs (l : list name) : Prop := names_ok l = true.
Definition QE (e : lexpr) : Prop := lwf_e e = true.
Definition QEs (l : list lexpr) : Prop := forallb lwf_e l = true.
Definition QG (p : list lexpr * bool) : Prop := QEs (fst p).
Definition kv_ok (p : lexpr * lexpr) : bool := lwf_e (fst p) && lwf_e (snd p).
Definition QKs (l : list (lexpr * lexpr)) : Prop := forallb kv_ok l = true.
Definition ip_ok (p : ipart) : bool := match p with IPS _ _ => true | IPE e _ => lwf_e e end.
Definition QPs (l : list ipart) : Prop := forallb ip_ok l = true.
Definition QI (p : list ipart * N) : Prop := QPs (fst p).
Definition QS (s : lstmt) : Prop := lwf_s s = true.
Definition QSs (l : list lstmt) : Prop := forallb lwf_s l = true.
Definition QD (o : option lstmt) : Prop := match o with Some s => QS s | None => True end.
Definition pm_ok (m : pmethod) : bool := name_ok (pm_name m) && names_ok (pm_params m) && lwf_ss (pm_body m).
Definition QM (m : pmethod) : Prop := pm_ok m = true.
Definition QMs (l : list pmethod) : Prop := forallb pm_ok l = true.
Definition QF (r : list name * N * list lstmt * N) : Prop := QNs (fst (fst (fst r))) /\ QSs (snd (fst r)).
Definition QO (o : option lexpr) : Prop := match o with Some e => QE e | None => True end.

Lemma forallb_rev A (f : A -> bool) l : forallb f (rev l) = forallb f l.
Proof.
  induction l as [|a l IH]; [reflexivity|]. cbn [rev forallb]. rewrite forallb_app, IH. cbn [forallb].
  rewrite andb_true_r. apply andb_comm.
Qed.
Lemma lwf_es_of l : lwf_es (lexprs_of l) = forallb lwf_e l.
Proof. induction l as [|e l IH]; [reflexivity|]. cbn [lexprs_of lwf_es forallb]. rewrite IH. reflexivity. Qed.
Lemma lwf_ss_of l : lwf_ss (lstmts_of l) = forallb lwf_s l.
Proof. induction l as [|e l IH]; [reflexivity|]. cbn [lstmts_of lwf_ss forallb]. rewrite IH. reflexivity. Qed.
Lemma lwf_kvs_of l : lwf_kvs (lkvs_of l) = forallb kv_ok l.
Proof. induction l as [|[k v] l IH]; [reflexivity|]. cbn [lkvs_of lwf_kvs forallb kv_ok fst snd]. rewrite IH. reflexivity. Qed.
Lemma lwf_ps_of l : lwf_ps (lparts_of l) = forallb ip_ok l.
Proof. induction l as [|[ln s|e ln] l IH]; [reflexivity| |]; cbn [lparts_of lwf_ps forallb ip_ok]; rewrite IH; reflexivity. Qed.
Lemma lwf_ms_of l : lwf_ms (lmethods_of l) = forallb pm_ok l.
Proof.
  induction l as [|m l IH]; [reflexivity|]. cbn [lmethods_of lwf_ms forallb]. rewrite IH. unfold pm_ok. reflexivity.
Qed.

Lemma Q_nil A (f : A -> bool) : forallb f [] = true. Proof. reflexivity. Qed.
Lemma Q_cons A (f : A -> bool) a l : f a = true -> forallb f l = true -> forallb f (a :: l) = true.
Proof. intros H1 H2. cbn [forallb]. rewrite H1, H2. reflexivity. Qed.
Lemma Q_rev A (f : A -> bool) l : forallb f l = true -> forallb f (rev l) = true.
Proof. rewrite forallb_rev. auto. Qed.
Lemma QPs_lit t acc : QPs acc -> QPs (lit_part t acc).
Proof. intros H. unfold lit_part. destruct (tsource t); [exact H|]. apply Q_cons; [reflexivity|exact H]. Qed.

Ltac unq := unfold QG, QI, QF, QD, QO, QM, QMs in *; unfold QN, QNs, QE, QEs, QKs, QPs, QS, QSs, T, names_ok in *.
Ltac fin :=
  unq; unfold pm_ok in *; cbv beta in *;
  cbn [fst snd kv_ok ip_ok pm_name pm_params pm_body] in *;
  cbn [lwf_e lwf_s lwf_es lwf_ss lwf_ps lwf_kvs lwf_ms forallb fst snd kv_ok ip_ok pm_ok pm_name pm_params pm_body] in *;
  rewrite ?lwf_es_of, ?lwf_ss_of, ?lwf_kvs_of, ?lwf_ps_of, ?lwf_ms_of, ?forallb_rev in *;
  cbn [forallb] in *;
  repeat match goal with
         | H : _ /\ _ |- _ => destruct H
         | H : _ && _ = true |- _ => apply andb_prop in H; destruct H
         end;
  repeat first [assumption | exact I | reflexivity | split | apply andb_true_intro; split | apply QPs_lit].

(* ---------- automation ---------- *)
Ltac leaf := first [ solve [eauto 5 with lokdb] | eapply wf_T; solve [eauto 5 with lokdb] ].
Ltac inst_T := try match goal with |- @wf ?A ?Q _ => is_evar Q; unify Q (@T A) end.

(* the two ways an Identifier lexeme is taken from the token stream *)
Lemma tkind_eqb_id k : tkind_eqb k TIdentifier = true -> k = TIdentifier.
Proof. destruct k; cbn; intros H; try discriminate; reflexivity. Qed.
Lemma tko_id t : tko t -> tk t = TIdentifier -> name_ok (tsource t) = true.
Proof. unfold tko, tok_ok. intros H E. rewrite E in H. exact H. Qed.
Lemma tko_num t : tko t -> tk t = TNumber -> num_ok (tsource t) = true.
Proof. unfold tko, tok_ok. intros H E. rewrite E in H. exact H. Qed.

Lemma consume_id_spec msg :
  spec sinv (consume TIdentifier msg) (fun _ s' => sinv s' /\ name_ok (tsource (p_prev s')) = true).
Proof.
  intros s a s' Hs E. unfold consume in E. unfold bind at 1 in E. cbn [check] in E.
  destruct (tkind_eqb (tk (p_cur s)) TIdentifier) eqn:Ek; [|discriminate].
  destruct (advance_spec (p_cur s) s a s' (conj Hs eq_refl) E) as [H1 H2]. split; [exact H1|].
  rewrite H2. apply tko_id; [apply Hs|apply tkind_eqb_id; exact Ek].
Qed.
Lemma match_id_spec :
  spec sinv (match_token TIdentifier) (fun b s' => sinv s' /\ (b = true -> name_ok (tsource (p_prev s')) = true)).
Proof.
  intros s a s' Hs E. unfold match_token in E. unfold bind at 1 in E. cbn [check] in E.
  destruct (tkind_eqb (tk (p_cur s)) TIdentifier) eqn:Ek.
  - destruct (bind_ok _ _ _ _ _ _ E) as (u & s1 & E1 & E2). cbn in E2. inversion E2; subst.
    destruct (advance_spec (p_cur s) s u s' (conj Hs eq_refl) E1) as [H1 H2]. split; [exact H1|]. intros _.
    rewrite H2. apply tko_id; [apply Hs|apply tkind_eqb_id; exact Ek].
  - cbn in E. inversion E; subst. split; [exact Hs|discriminate].
Qed.
Lemma wf_consume_id A msg (k : token -> M A) Q :
  (forall p, QN (tsource p) -> tko p -> wf Q (k p)) ->
  wf Q (bind (consume TIdentifier msg) (fun _ => bind previous k)).
Proof.
  intros H s a s' Hs E. destruct (bind_ok _ _ _ _ _ _ E) as (u & s1 & E1 & E2).
  destruct (consume_id_spec msg s u s1 Hs E1) as [H1 H2]. unfold bind at 1 in E2. cbn [previous] in E2.
  eapply H; [exact H2|apply H1|exact H1|exact E2].
Qed.
Lemma wf_match_id A (X : M A) (k : token -> M A) Q :
  wf Q X -> (forall p, QN (tsource p) -> tko p -> wf Q (k p)) ->
  wf Q (bind (match_token TIdentifier) (fun m => if negb m then X else bind previous k)).
Proof.
  intros HX H s a s' Hs E. destruct (bind_ok _ _ _ _ _ _ E) as (b & s1 & E1 & E2).
  destruct (match_id_spec s b s1 Hs E1) as [H1 H2]. destruct b; cbn [negb] in E2.
  - unfold bind at 1 in E2. cbn [previous] in E2. eapply H; [apply H2; reflexivity|apply H1|exact H1|exact E2].
  - eapply HX; eassumption.
Qed.

Ltac wfgo :=
  lazymatch goal with
  | |- wf _ (bind (consume TIdentifier _) (fun _ => bind previous _)) =>
    eapply wf_consume_id; intros ? ? ?; wfgo
  | |- wf _ (bind (match_token TIdentifier) (fun m => if negb m then _ else bind previous _)) =>
    eapply wf_match_id; [ wfgo | intros ? ? ?; wfgo ]
  | |- wf _ (bind _ _) => eapply wf_bind; [ wfgo | intros ? ?; wfgo ]
  | |- wf _ (ret _) => inst_T; apply wf_ret; try solve [fin]
  | |- wf _ (let _ := _ in _) => cbv zeta; wfgo
  | |- wf _ (match ?x with _ => _ end) => destruct x eqn:?; wfgo
  | |- wf _ _ => try leaf
  | |- _ => idtac
  end.

(* ---------- derived functions of Parser.v ---------- *)
Lemma wf_begin_scope : wf T begin_scope. Proof. unfold begin_scope. leaf. Qed.
Lemma wf_end_scope : wf T end_scope. Proof. unfold end_scope. leaf. Qed.
Lemma wf_push_loop : wf T push_loop. Proof. unfold push_loop. leaf. Qed.
Lemma wf_pop_loop : wf T pop_loop. Proof. unfold pop_loop. leaf. Qed.
Lemma wf_mark_last_initialised : wf T mark_last_initialised. Proof. unfold mark_last_initialised. leaf. Qed.
#[local] Hint Resolve wf_begin_scope wf_end_scope wf_push_loop wf_pop_loop wf_mark_last_initialised : lokdb.
Lemma wf_add_local n : wf T (add_local n). Proof. unfold add_local. wfgo. Qed.
Lemma wf_mark_initialised : wf T mark_initialised. Proof. unfold mark_initialised. wfgo. Qed.
#[local] Hint Resolve wf_add_local wf_mark_initialised : lokdb.
Lemma wf_define_variable : wf T define_variable. Proof. unfold define_variable. leaf. Qed.
#[local] Hint Resolve wf_define_variable : lokdb.
Lemma wf_match_token k : wf T (match_token k). Proof. unfold match_token. wfgo. Qed.
Lemma wf_consume k msg : wf T (consume k msg). Proof. unfold consume. wfgo. Qed.
#[local] Hint Resolve wf_match_token wf_consume : lokdb.
Lemma wf_match_binary_assignment : wf T match_binary_assignment. Proof. unfold match_binary_assignment. wfgo. Qed.
Lemma wf_declare_variable : wf T declare_variable. Proof. unfold declare_variable. wfgo. Qed.
Lemma wf_resolve_variable n : wf T (resolve_variable n). Proof. unfold resolve_variable. wfgo. Qed.
Lemma wf_check_no_attributes : wf T check_no_attributes. Proof. unfold check_no_attributes. wfgo. Qed.
Lemma wf_check_supported_attributes k : wf T (check_supported_attributes k). Proof. unfold check_supported_attributes. wfgo. Qed.
#[local] Hint Resolve wf_match_binary_assignment wf_declare_variable wf_resolve_variable wf_check_no_attributes
  wf_check_supported_attributes : lokdb.
Definition QA (k : nat) (o : option attribute) : Prop :=
  match o with Some a => attr_ok a /\ length (a_args a) = k | None => True end.
Lemma remove_attr_ok n al o rest : Forall attr_ok al -> remove_attr n al = (o, rest) ->
  match o with Some a => attr_ok a | None => True end /\ Forall attr_ok rest.
Proof.
  revert o rest. induction al as [|a al IH]; intros o rest F E; cbn in E.
  - inversion E; subst. split; [exact I|constructor].
  - inversion F; subst. destruct (bytes_eqb (tsource (a_name a)) n).
    + inversion E; subst. split; assumption.
    + destruct (remove_attr n al) as [x r'] eqn:E2. inversion E; subst.
      destruct (IH _ _ H2 eq_refl) as [H4 H5]. split; [exact H4|constructor; assumption].
Qed.
Lemma wf_take_attribute n k : wf (QA k) (take_attribute n k).
Proof.
  unfold take_attribute. eapply wf_bind; [apply wf_get|]. intros s Hs.
  destruct (remove_attr (bs n) (p_attrs s)) as [o rest] eqn:E.
  destruct (remove_attr_ok _ _ _ _ (sinv_attrs _ Hs) E) as [H1 H2].
  destruct o as [a|]; [|apply wf_ret; exact I].
  eapply wf_bind; [apply wf_set_attrs; exact H2|]. intros _ _.
  destruct (Nat.eqb (length (a_args a)) k) eqn:Ek; [|apply wf_error_at].
  apply wf_ret. split; [exact H1|apply Nat.eqb_eq; exact Ek].
Qed.
Lemma QA_hd a : QA 1 (Some a) -> name_ok (tsource (hd default_token (a_args a))) = true.
Proof.
  intros [H1 H2]. unfold attr_ok in H1. destruct (a_args a) as [|t [|t2 l]]; try discriminate H2.
  inversion H1; subst. assumption.
Qed.
#[local] Hint Resolve wf_take_attribute : lokdb.

(* declare_variable does not touch the tokens: parse_variable returns the lexeme of the Identifier just consumed *)
Definition neut {A} (m : M A) : Prop := forall s a s', m s = POk (a, s') -> p_prev s' = p_prev s.
Lemma neut_bind A B (m : M A) (k : A -> M B) : neut m -> (forall a, neut (k a)) -> neut (bind m k).
Proof.
  intros H1 H2 s b s' E. destruct (bind_ok _ _ _ _ _ _ E) as (a & s1 & E1 & E2).
  rewrite (H2 _ _ _ _ E2). exact (H1 _ _ _ E1).
Qed.
Lemma neut_ret A (a : A) : neut (ret a). Proof. intros s b s' E. inversion E; subst; reflexivity. Qed.
Lemma neut_error A msg : neut (@error A msg). Proof. intros s b s' E. discriminate E. Qed.
Lemma neut_compiler : neut compiler_. Proof. intros s b s' E. inversion E; subst; reflexivity. Qed.
Lemma neut_previous : neut previous. Proof. intros s b s' E. inversion E; subst; reflexivity. Qed.
Lemma neut_update_comp f : neut (update_comp f).
Proof. intros s b s' E. unfold update_comp in E. destruct (p_comps s); cbn in E; inversion E; subst; reflexivity. Qed.
Ltac ngo :=
  lazymatch goal with
  | |- neut (bind _ _) => apply neut_bind; [ngo | intros ?; ngo]
  | |- neut (match ?x with _ => _ end) => destruct x; ngo
  | |- neut _ => first [apply neut_ret | apply neut_error | apply neut_compiler | apply neut_previous | apply neut_update_comp]
  end.
Lemma declare_variable_prev s a s' : declare_variable s = POk (a, s') -> p_prev s' = p_prev s.
Proof. revert s a s'. change (neut declare_variable). unfold declare_variable, add_local. ngo. Qed.
Lemma wf_parse_variable msg : wf QN (parse_variable msg).
Proof.
  intros s a s' Hs E. unfold parse_variable in E.
  destruct (bind_ok _ _ _ _ _ _ E) as (u & s1 & E1 & E2).
  destruct (consume_id_spec msg s u s1 Hs E1) as [H1 H2].
  destruct (bind_ok _ _ _ _ _ _ E2) as (u2 & s2 & E3 & E4).
  destruct (wf_declare_variable s1 u2 s2 H1 E3) as [H3 _].
  cbn in E4. inversion E4; subst. split; [exact H3|]. unfold QN.
  rewrite (declare_variable_prev _ _ _ E3). exact H2.
Qed.
#[local] Hint Resolve wf_parse_variable : lokdb.

(* ---------- the knot ---------- *)
Record RecOk (r : lrec) : Prop := mkRecOk {
  ok_pp : forall p, wf QE (lr_parse_precedence r p);
  ok_il : forall p ca e, QE e -> wf QE (lr_infix_loop r p ca e);
  ok_args : forall m n acc, QEs acc -> wf QEs (lr_args_loop r m n acc);
  ok_group : forall n acc, QEs acc -> wf QG (lr_group_loop r n acc);
  ok_map : forall n acc, QKs acc -> wf QKs (lr_map_loop r n acc);
  ok_interp : forall acc, QPs acc -> wf QI (lr_interp_loop r acc);
  ok_param : forall acc, QNs acc -> wf QNs (lr_param_loop r acc);
  ok_decl : wf QD (lr_declaration r);
  ok_stmt : wf QS (lr_statement r);
  ok_block : wf QSs (lr_block_loop r);
  ok_method : wf QMs (lr_method_loop r);
  ok_prog : wf QSs (lr_program_loop r);
  ok_attr_args : forall acc, Forall idt acc -> wf (Forall idt) (lr_attr_args_loop r acc);
  ok_attrs : forall acc, Forall attr_ok acc -> wf (Forall attr_ok) (lr_attrs_loop r acc)
}.

Lemma rec_bottom_ok : RecOk lrec_bottom.
Proof. constructor; intros; cbn; apply wf_out_of_fuel. Qed.

Lemma QEs_nil : QEs []. Proof. reflexivity. Qed.
Lemma QEs_cons e l : QE e -> QEs l -> QEs (e :: l). Proof. apply Q_cons. Qed.
Lemma QEs_rev l : QEs l -> QEs (rev l). Proof. apply Q_rev. Qed.
Lemma QNs_nil : QNs []. Proof. reflexivity. Qed.
Lemma QNs_cons e l : QN e -> QNs l -> QNs (e :: l). Proof. apply Q_cons. Qed.
Lemma QNs_rev l : QNs l -> QNs (rev l). Proof. apply Q_rev. Qed.
Lemma QKs_nil : QKs []. Proof. reflexivity. Qed.
Lemma QKs_cons k v l : QE k -> QE v -> QKs l -> QKs ((k, v) :: l).
Proof. intros H1 H2 H3. apply Q_cons; [|exact H3]. unfold kv_ok. cbn [fst snd]. unfold QE in *. rewrite H1, H2. reflexivity. Qed.
Lemma QKs_rev l : QKs l -> QKs (rev l). Proof. apply Q_rev. Qed.
Lemma QPs_nil : QPs []. Proof. reflexivity. Qed.
Lemma QPs_cons e ln l : QE e -> QPs l -> QPs (IPE e ln :: l). Proof. intros H1 H2. apply Q_cons; [exact H1|exact H2]. Qed.
Lemma QPs_rev l : QPs l -> QPs (rev l). Proof. apply Q_rev. Qed.
#[local] Hint Resolve QEs_nil QEs_cons QEs_rev QNs_nil QNs_cons QNs_rev QKs_nil QKs_cons QKs_rev QPs_nil QPs_cons QPs_rev
  QPs_lit : lokdb.

Section Walk.
Variable rules : tkind -> rule.
(* the only facts about the Pratt table that are used *)
Hypothesis Hvar : forall k, r_prefix (rules k) = Some PVariable -> k = TIdentifier.
Hypothesis Hnum : forall k, r_prefix (rules k) = Some PNumber -> k = TNumber.

Section Step.
Variable r : lrec.
Hypothesis Hr : RecOk r.
Definition Hpp := ok_pp r Hr. Definition Hil := ok_il r Hr. Definition Hargs := ok_args r Hr.
Definition Hgroup := ok_group r Hr. Definition Hmap := ok_map r Hr. Definition Hinterp := ok_interp r Hr.
Definition Hparam := ok_param r Hr. Definition Hdecl := ok_decl r Hr. Definition Hstmt := ok_stmt r Hr.
Definition Hblock := ok_block r Hr. Definition Hmethod := ok_method r Hr. Definition Hprog := ok_prog r Hr.
Definition Hattr_args := ok_attr_args r Hr. Definition Hattrs := ok_attrs r Hr.
#[local] Hint Resolve Hpp Hil Hargs Hgroup Hmap Hinterp Hparam Hdecl Hstmt Hblock Hmethod Hprog Hattr_args Hattrs : lokdb.

Lemma wf_expression : wf QE (expression r).
Proof. unfold expression. eapply wf_bind; [apply wf_get|]. intros s _. apply Hpp. Qed.
#[local] Hint Resolve wf_expression : lokdb.
Lemma wf_block : wf QSs (block r). Proof. unfold block. wfgo. Qed.
#[local] Hint Resolve wf_block : lokdb.
Lemma wf_block_loop : wf QSs (block_loop r).
Proof. unfold block_loop. wfgo. destruct a1; fin. Qed.
Lemma wf_scoped_block : wf QSs (scoped_block r). Proof. unfold scoped_block. wfgo. Qed.
#[local] Hint Resolve wf_scoped_block : lokdb.
Lemma wf_args_loop m n acc : QEs acc -> wf QEs (args_loop r m n acc).
Proof. intros Ha. unfold args_loop. wfgo. Qed.
Lemma wf_argument_list k m1 m2 : wf QEs (argument_list r k m1 m2).
Proof.
  unfold argument_list. eapply wf_bind; [apply wf_check|]. intros b _.
  eapply wf_bind with (Q1 := QEs); [destruct b; [apply wf_ret; reflexivity|apply Hargs; reflexivity]|].
  intros es Hes. wfgo.
Qed.
#[local] Hint Resolve wf_argument_list : lokdb.
Lemma wf_param_loop acc : QNs acc -> wf QNs (param_loop r acc).
Proof. intros Ha. unfold param_loop. wfgo. Qed.
Lemma wf_parameter_list k : wf QNs (parameter_list r k).
Proof. unfold parameter_list. wfgo. Qed.
#[local] Hint Resolve wf_parameter_list : lokdb.
Lemma wf_binary_assign : wf QE (binary_assign r). Proof. unfold binary_assign. wfgo. Qed.
#[local] Hint Resolve wf_binary_assign : lokdb.
Lemma wf_named_variable n ca : QN n -> wf QE (named_variable r n ca).
Proof. intros Hn. unfold named_variable. wfgo. Qed.
Lemma wf_group_loop n acc : QEs acc -> wf QG (group_loop r n acc).
Proof. intros Ha. unfold group_loop. wfgo. Qed.
Lemma wf_grouping ca : wf QE (grouping r ca).
Proof.
  unfold grouping. eapply wf_bind; [apply wf_check|]. intros rp _.
  eapply wf_bind with (Q1 := QG); [destruct rp; [apply wf_ret; reflexivity|apply Hgroup; reflexivity]|].
  intros res Hres. wfgo.
Qed.
Lemma wf_map_loop n acc : QKs acc -> wf QKs (map_loop r n acc).
Proof. intros Ha. unfold map_loop. wfgo. Qed.
Lemma wf_hash_map ca : wf QE (hash_map r ca).
Proof.
  unfold hash_map. eapply wf_bind; [apply wf_check|]. intros rb _.
  eapply wf_bind with (Q1 := QKs); [destruct rb; [apply wf_ret; reflexivity|apply Hmap; reflexivity]|].
  intros kvs Hk. wfgo.
Qed.
Lemma wf_vector ca : wf QE (vector r ca). Proof. unfold vector. wfgo. Qed.
Lemma wf_unary ca : wf QE (unary r ca). Proof. unfold unary. wfgo. Qed.
Lemma wf_lambda ca : wf QE (lambda r ca).
Proof.
  unfold lambda. eapply wf_bind; [leaf|]. intros _ _. eapply wf_bind; [leaf|]. intros _ _.
  eapply wf_bind; [apply wf_previous|]. intros p _.
  eapply wf_bind with (Q1 := QNs).
  { destruct (tkind_eqb (tk p) TBar); [|apply wf_ret; reflexivity]. wfgo. }
  intros params Hps. wfgo.
Qed.
Lemma wf_string ca : wf QE (string_ ca). Proof. unfold string_. wfgo. Qed.
Lemma wf_interp_loop acc : QPs acc -> wf QI (interp_loop r acc).
Proof. intros Ha. unfold interp_loop. wfgo. Qed.
Lemma wf_interpolation ca : wf QE (interpolation r ca). Proof. unfold interpolation. wfgo. Qed.
Lemma wf_literal ca : wf QE (literal ca). Proof. unfold literal. wfgo. Qed.
Lemma wf_self ca : wf QE (self_ ca). Proof. unfold self_. wfgo. Qed.
Lemma wf_cap_self ca : wf QE (cap_self ca). Proof. unfold cap_self. wfgo. Qed.
Lemma wf_call_args : wf QEs (call_args r). Proof. unfold call_args. leaf. Qed.
#[local] Hint Resolve wf_call_args : lokdb.
Lemma wf_super ca : wf QE (super_ r ca). Proof. unfold super_. wfgo. Qed.
Lemma wf_binary l ca : QE l -> wf QE (binary rules r l ca). Proof. intros Hl. unfold binary. wfgo. Qed.
Lemma wf_call l ca : QE l -> wf QE (call r l ca). Proof. intros Hl. unfold call. wfgo. Qed.
Lemma wf_dot l ca : QE l -> wf QE (dot r l ca). Proof. intros Hl. unfold dot. wfgo. Qed.
Lemma wf_dotdot l ca : QE l -> wf QE (dotdot r l ca). Proof. intros Hl. unfold dotdot. wfgo. Qed.
Lemma wf_index l ca : QE l -> wf QE (index r l ca). Proof. intros Hl. unfold index. wfgo. Qed.
Lemma wf_and l ca : QE l -> wf QE (and_ r l ca). Proof. intros Hl. unfold and_. wfgo. Qed.
Lemma wf_or l ca : QE l -> wf QE (or_ r l ca). Proof. intros Hl. unfold or_. wfgo. Qed.
Lemma wf_infix h l ca : QE l -> wf QE (infix rules r h l ca).
Proof.
  intros Hl. destruct h; cbn [infix];
    [apply wf_call|apply wf_index|apply wf_dot|apply wf_dotdot|apply wf_binary|apply wf_and|apply wf_or]; exact Hl.
Qed.

(* the two handlers that take a lexeme whose kind is known from the dispatch only *)
Lemma variable_ok ca :
  spec (fun s => sinv s /\ tk (p_prev s) = TIdentifier) (variable r ca) (fun e s' => sinv s' /\ QE e).
Proof.
  intros s a s' [Hs Hk] E. unfold variable in E. unfold bind at 1 in E. cbn [previous] in E.
  eapply wf_named_variable; [|exact Hs|exact E]. apply tko_id; [apply Hs|exact Hk].
Qed.
Lemma number_ok ca :
  spec (fun s => sinv s /\ tk (p_prev s) = TNumber) (number ca) (fun e s' => sinv s' /\ QE e).
Proof.
  intros s a s' [Hs Hk] E. unfold number in E. unfold bind at 1 in E. cbn [previous] in E.
  assert (Hn : num_ok (tsource (p_prev s)) = true) by (apply tko_num; [apply Hs|exact Hk]).
  unfold num_ok in Hn. destruct (parse_literal (tsource (p_prev s))) as [x|]; [|discriminate E].
  cbn in E. inversion E; subst. split; [exact Hs|]. exact Hn.
Qed.
Lemma prefix_ok h ca :
  spec (fun s => sinv s /\ r_prefix (rules (tk (p_prev s))) = Some h) (prefix r h ca) (fun e s' => sinv s' /\ QE e).
Proof.
  intros s a s' [Hs Hk] E. destruct h; cbn [prefix] in E.
  - eapply wf_grouping; eassumption.
  - eapply wf_hash_map; eassumption.
  - eapply wf_vector; eassumption.
  - eapply wf_unary; eassumption.
  - eapply wf_lambda; eassumption.
  - eapply variable_ok; [split; [exact Hs|apply Hvar; exact Hk]|exact E].
  - eapply wf_string; eassumption.
  - eapply wf_interpolation; eassumption.
  - eapply number_ok; [split; [exact Hs|apply Hnum; exact Hk]|exact E].
  - eapply wf_cap_self; eassumption.
  - eapply wf_literal; eassumption.
  - eapply wf_self; eassumption.
  - eapply wf_super; eassumption.
Qed.
Lemma wf_infix_loop p ca l : QE l -> wf QE (infix_loop rules r p ca l).
Proof. intros Hl. unfold infix_loop. wfgo. apply wf_infix; exact Hl. Qed.
Lemma wf_parse_precedence p : wf QE (parse_precedence rules r p).
Proof.
  intros s a s' Hs E. unfold parse_precedence in E.
  destruct (bind_ok _ _ _ _ _ _ E) as (u & s1 & E1 & E2).
  destruct (wf_advance s u s1 Hs E1) as [H1 _].
  unfold bind at 1 in E2. cbn [previous] in E2.
  destruct (r_prefix (rules (tk (p_prev s1)))) as [h|] eqn:Eh; [|discriminate E2].
  destruct (bind_ok _ _ _ _ _ _ E2) as (e & s2 & E3 & E4).
  destruct (prefix_ok h _ s1 e s2 (conj H1 Eh) E3) as [H2 He].
  assert (W : wf QE (e' <- lr_infix_loop r p (prec_leb p PrecAssignment) e;;
                     eq <- (if prec_leb p PrecAssignment then match_token TEqual else ret false);;
                     (if eq then error "Invalid assignment target." else ret e'))).
  { eapply wf_bind; [apply Hil; exact He|]. intros e' He'. wfgo. }
  exact (W s2 a s' H2 E4).
Qed.

(* ---------- declarations ---------- *)
Lemma wf_function k : wf QF (function_ r k). Proof. unfold function_. wfgo. Qed.
#[local] Hint Resolve wf_function : lokdb.
Lemma wf_attr_args_loop acc : Forall idt acc -> wf (Forall idt) (attr_args_loop r acc).
Proof.
  intros Ha. unfold attr_args_loop. eapply wf_match_id; [apply wf_error_at_current|]. intros p Hp _.
  eapply wf_bind; [apply wf_match_token|]. intros c _. destruct c.
  - apply Hattr_args. constructor; assumption.
  - apply wf_ret. apply Forall_rev. constructor; assumption.
Qed.
Definition QAo (o : option attribute) : Prop := match o with Some a => attr_ok a | None => True end.
Lemma wf_attribute : wf QAo (attribute_ r).
Proof.
  unfold attribute_. eapply wf_match_id; [apply wf_ret; exact I|]. intros nm _ _.
  eapply wf_bind; [apply wf_match_token|]. intros lp _. destruct lp.
  - eapply wf_bind; [apply Hattr_args; constructor|]. intros args Hargs'.
    eapply wf_bind; [apply wf_match_token|]. intros rp _. destruct rp.
    + apply wf_ret. exact Hargs'.
    + apply wf_error_at_current.
  - apply wf_ret. constructor.
Qed.
Lemma wf_attrs_loop acc : Forall attr_ok acc -> wf (Forall attr_ok) (attrs_loop r acc).
Proof.
  intros Ha. unfold attrs_loop. eapply wf_bind; [apply wf_attribute|]. intros a Hok. destruct a as [a|].
  2:{ apply wf_ret. exact Ha. }
  destruct (has_attr (tsource (a_name a)) acc); [apply wf_error_at|].
  assert (Ha' : Forall attr_ok (acc ++ [a])) by (apply Forall_app; split; [exact Ha|constructor; [exact Hok|constructor]]).
  eapply wf_bind; [apply wf_match_token|]. intros c _. destruct c.
  - apply Hattrs. exact Ha'.
  - apply wf_ret. exact Ha'.
Qed.
Lemma wf_attributes_declaration : wf T (attributes_declaration r).
Proof.
  unfold attributes_declaration.
  eapply wf_bind; [apply wf_check_no_attributes|]. intros _ _.
  eapply wf_bind; [apply wf_previous|]. intros opener _.
  eapply wf_bind; [apply wf_match_token|]. intros lb _. destruct (negb lb); [apply wf_error_at_current|].
  eapply wf_bind; [apply Hattrs; constructor|]. intros al Hal.
  eapply wf_bind with (Q1 := T). { destruct al; wfgo. }
  intros _ _.
  eapply wf_bind; [apply wf_match_token|]. intros rb _. destruct (negb rb); [apply wf_error_at_current|].
  apply wf_set_attrs. exact Hal.
Qed.
#[local] Hint Resolve wf_attributes_declaration : lokdb.
Lemma wf_method : wf QM (method r). Proof. unfold method. wfgo. Qed.
#[local] Hint Resolve wf_method : lokdb.
Lemma wf_method_loop : wf QMs (method_loop r). Proof. unfold method_loop. wfgo. Qed.
Lemma wf_class_declaration : wf QS (class_declaration r).
Proof.
  unfold class_declaration.
  eapply wf_bind; [apply wf_take_attribute|]. intros ca Hca.
  eapply wf_bind; [apply wf_take_attribute|]. intros sa Hsa.
  destruct ca as [ca|], sa as [sa|]; try (pose proof (QA_hd _ Hca) as Hc1); try (pose proof (QA_hd _ Hsa) as Hs1);
    cbv beta iota zeta; wfgo.
Qed.
Lemma wf_fn_declaration : wf QS (fn_declaration r). Proof. unfold fn_declaration. wfgo. Qed.
Lemma wf_var_declaration : wf QS (var_declaration r).
Proof.
  unfold var_declaration. eapply wf_bind; [leaf|]. intros _ _.
  eapply wf_bind; [apply wf_parse_variable|]. intros x Hx.
  eapply wf_bind; [leaf|]. intros lname _. eapply wf_bind; [leaf|]. intros eq _.
  eapply wf_bind with (Q1 := QO). { destruct eq; [|apply wf_ret; exact I]. wfgo. }
  intros init Hinit. wfgo. destruct init; fin.
Qed.
#[local] Hint Resolve wf_class_declaration wf_fn_declaration wf_var_declaration : lokdb.

(* ---------- statements ---------- *)
Lemma wf_expression_statement : wf QS (expression_statement r). Proof. unfold expression_statement. wfgo. Qed.
Lemma wf_import_statement : wf QS import_statement.
Proof.
  unfold import_statement.
  eapply wf_bind; [leaf|]. intros _ _. eapply wf_bind; [apply wf_previous|]. intros path _.
  eapply wf_bind with (Q1 := T). { destruct (bytes_eqb (tsource path) (bs "main")); wfgo. }
  intros _ _. eapply wf_bind; [leaf|]. intros a _.
  eapply wf_bind with (Q1 := tko).
  { destruct a.
    - eapply wf_bind; [apply wf_consume|]. intros _ _. apply wf_previous.
    - destruct (path_file_name (tsource path)); [|apply wf_error].
      eapply wf_bind; [apply wf_current|]. intros c Hc. apply wf_ret. reflexivity. }
  intros nm Hnm. wfgo.
Qed.
Lemma wf_for_statement : wf QS (for_statement r). Proof. unfold for_statement. wfgo. Qed.
Lemma wf_if_statement : wf QS (if_statement r). Proof. unfold if_statement. wfgo. Qed.
Lemma wf_return_statement : wf QS (return_statement r). Proof. unfold return_statement. wfgo. Qed.
Lemma wf_break_statement : wf QS break_statement. Proof. unfold break_statement. wfgo. Qed.
Lemma wf_continue_statement : wf QS continue_statement. Proof. unfold continue_statement. wfgo. Qed.
Lemma wf_throw_statement : wf QS (throw_statement r). Proof. unfold throw_statement. wfgo. Qed.
Definition QC (o : option (name * list lstmt * N)) : Prop :=
  match o with Some p => QN (fst (fst p)) /\ QSs (snd (fst p)) | None => True end.
Definition QFin (o : option (list lstmt * N)) : Prop :=
  match o with Some p => QSs (fst p) | None => True end.
Lemma wf_try_statement : wf QS (try_statement r).
Proof.
  unfold try_statement.
  eapply wf_bind; [leaf|]. intros ltry _. eapply wf_bind; [leaf|]. intros _ _.
  eapply wf_bind; [apply wf_scoped_block|]. intros b Hb. eapply wf_bind; [leaf|]. intros lb _.
  eapply wf_bind; [leaf|]. intros hc _.
  eapply wf_bind with (Q1 := QC).
  { destruct hc; [|apply wf_ret; exact I]. wfgo. }
  intros c Hc. eapply wf_bind; [leaf|]. intros hf _.
  eapply wf_bind with (Q1 := QFin).
  { destruct hf; [|apply wf_ret; exact I]. wfgo. }
  intros f Hf. unfold QC, QFin in *. wfgo.
Qed.
Lemma wf_while_statement : wf QS (while_statement r). Proof. unfold while_statement. wfgo. Qed.
#[local] Hint Resolve wf_expression_statement wf_import_statement wf_for_statement wf_if_statement wf_return_statement
  wf_break_statement wf_continue_statement wf_throw_statement wf_try_statement wf_while_statement : lokdb.
Lemma wf_statement : wf QS (statement r). Proof. unfold statement. wfgo. Qed.
#[local] Hint Resolve wf_statement : lokdb.
Lemma wf_declaration : wf QD (declaration r). Proof. unfold declaration. wfgo. Qed.
Lemma wf_program_loop : wf QSs (program_loop r).
Proof. unfold program_loop. wfgo. destruct a0; fin. Qed.

Lemma step_ok : RecOk (lstep rules r).
Proof.
  constructor; cbn [lstep lr_parse_precedence lr_infix_loop lr_args_loop lr_group_loop lr_map_loop lr_interp_loop
                    lr_param_loop lr_declaration lr_statement lr_block_loop lr_method_loop lr_program_loop
                    lr_attr_args_loop lr_attrs_loop]; intros.
  - apply wf_parse_precedence.
  - apply wf_infix_loop; assumption.
  - apply wf_args_loop; assumption.
  - apply wf_group_loop; assumption.
  - apply wf_map_loop; assumption.
  - apply wf_interp_loop; assumption.
  - apply wf_param_loop; assumption.
  - apply wf_declaration.
  - apply wf_statement.
  - apply wf_block_loop.
  - apply wf_method_loop.
  - apply wf_program_loop.
  - apply wf_attr_args_loop; assumption.
  - apply wf_attrs_loop; assumption.
Qed.
End Step.

Lemma lknot_ok fuel : RecOk (lknot rules fuel).
Proof. induction fuel as [|f IH]; cbn [lknot]; [apply rec_bottom_ok|apply step_ok; exact IH]. Qed.

Lemma wf_lparse fuel : wf (fun lp : lprogram => lwf_ss (fst lp) = true) (lparse rules fuel).
Proof.
  unfold lparse. pose proof (ok_prog _ (lknot_ok fuel)) as Hp.
  eapply wf_bind; [apply wf_advance|]. intros _ _.
  eapply wf_bind; [exact Hp|]. intros p Hq. wfgo.
Qed.

Lemma sinv_init toks : Forall tko toks -> sinv (init_pstate toks).
Proof. intros H. split; [reflexivity|split; [reflexivity|split; [exact H|constructor]]]. Qed.

Theorem lparse_program_with_lwf toks lp :
  lparse_program_with rules toks = POk lp -> Forall tko toks -> lwf_ss (fst lp) = true.
Proof.
  unfold lparse_program_with, run. intros E Ht.
  destruct (lparse rules (default_fuel toks) (init_pstate toks)) as [[a s']| |] eqn:E1; try discriminate.
  inversion E; subst. exact (proj2 (wf_lparse _ _ _ _ (sinv_init _ Ht) E1)).
Qed.
End Walk.

(* ---------- the reference Pratt table ---------- *)
Lemma rules_ref_var k : r_prefix (rules_ref k) = Some PVariable -> k = TIdentifier.
Proof. destruct k; cbn; intros H; try discriminate H; reflexivity. Qed.
Lemma rules_ref_num k : r_prefix (rules_ref k) = Some PNumber -> k = TNumber.
Proof. destruct k; cbn; intros H; try discriminate H; reflexivity. Qed.

Lemma toks_ok_Forall toks : toks_ok toks = true -> Forall tko toks.
Proof. unfold toks_ok. intros H. apply Forall_forall. intros t Ht. exact (proj1 (forallb_forall _ _) H t Ht). Qed.

(* parser half: if every token satisfies tok_ok, the located tree is well formed *)
Theorem lparse_program_lwf : forall toks lp,
  lparse_program toks = POk lp -> toks_ok toks = true -> lwf_ss (fst lp) = true.
Proof.
  intros toks lp E Ht. apply (lparse_program_with_lwf rules_ref rules_ref_var rules_ref_num toks lp E).
  apply toks_ok_Forall. exact Ht.
Qed.
Print Assumptions lparse_program_lwf.

(* ================================================================== *)
(* 5. headline: every output of the located parser on a source text is well formed                     *)
Theorem lparse_source_lwf : forall src lp, lparse_source src = POk lp -> lwf_ss (fst lp) = true.
Proof.
  intros src lp E. unfold lparse_source in E. apply (lparse_program_lwf _ _ E).
  apply FullBridgeLokScan.scan_all_toks_ok.
Qed.
Print Assumptions lparse_source_lwf.

Corollary lparse_source_lok : forall src lp,
  lparse_source src = POk lp -> CE.program_ok (erase_stmts (fst lp)) = true -> B5.lok_ss (fst lp) = true.
Proof. intros src lp E Hok. exact (lwf_lok _ _ (lparse_source_lwf _ _ E) Hok). Qed.

(* the C05 statement bridge for every SOURCE TEXT: the side condition lok_ss is gone *)
Theorem full_compile_stmt_bridge_source : forall (src : list byte) (lp : lprogram),
  lparse_source src = POk lp ->
  CE.program_ok (erase_stmts (fst lp)) = true -> CE.fits (B5.prog_code lp) = true ->
  exists f, FullCompile.compile_program lp = FullCompile.COk f /\
            FullCompile.f_code f = CE.assemble (B5.prog_code lp) /\
            FullCompile.f_consts f = map FullCompileProofs.conv (CE.const_table (B5.prog_code lp)) /\
            FullCompile.f_arity f = 1%N /\ FullCompile.f_upvalues f = 0%N /\ FullCompile.f_name f = [].
Proof.
  intros src lp E Hok Hfits. apply full_compile_stmt_bridge_lwf; [|exact Hok|exact Hfits].
  exact (lparse_source_lwf _ _ E).
Qed.
Print Assumptions full_compile_stmt_bridge_source.

(* C05_compile_program_correct about FullCompile's output, for every source text *)
Theorem full_compile_stmt_correct_source : forall fuel (src : list byte) (lp : lprogram) s' o,
  lparse_source src = POk lp ->
  CE.program_ok (erase_stmts (fst lp)) = true -> CE.fits (B5.prog_code lp) = true ->
  ExprSem.run_program fuel (erase_stmts (fst lp)) = (s', o) ->
  exists f, FullCompile.compile_program lp = FullCompile.COk f /\ B5.asm_of f (B5.prog_code lp) /\
    match o with
    | ExprSem.ONormal =>
      exists k stk, FragVM.run_vm k (B5.prog_code lp) FragVM.vstate0
                    = FragVM.VDone (FragVM.mkVS (S (length (CE.cstmts true CE.cenv0 0 0 (erase_stmts (fst lp))))) stk (ExprSem.wd s'))
    | ExprSem.OErr e => exists k, FragVM.run_vm k (B5.prog_code lp) FragVM.vstate0 = FragVM.VErr e (ExprSem.wd s')
    | ExprSem.OBreak | ExprSem.OContinue => False
    | ExprSem.OFuel => True
    end.
Proof.
  intros fuel src lp s' o E Hok Hfits Hrun.
  exact (B5.full_compile_stmt_correct fuel lp s' o (lparse_source_lok _ _ E Hok) Hok Hfits Hrun).
Qed.
Print Assumptions full_compile_stmt_correct_source.

(* ---------- examples (non-vacuity) ---------- *)
(* lwf on a parse that uses every name position: classes with derive / constructor attributes, methods, lambdas,
   for, try / catch / finally, import with and without alias, interpolation, maps, member access, super *)
Example lwf_example :
  exists lp,
    lparse_source (FullCompile.bs "import ""lib/util""; import ""m"" as mm; #[constructor(make)] class B { fn make(self, n) { self.n = n; } #[static] fn s(a) { return a; } } #[derive(B)] class A { #[constructor] fn new(self, x) { super.make(x); self.f = |y| y + self.n; } fn get(self) { return self.f(1.5) + super.get; } } var m = {""k"": 1, 2: [3, (4, 5)]}; for v in 0..3 { try { m.k += v; throw ""e${v}x""; } catch e { print(e); } finally { m[2] = || { return 1000; }; } } fn g(a, b) { var c = a; c -= b; return c; }")
      = POk lp /\
    lwf_ss (fst lp) = true /\ Nat.leb 7 (length (erase_stmts (fst lp))) = true.
Proof. eexists. split; [vm_compute; reflexivity|]. split; vm_compute; reflexivity. Qed.

(* the hypotheses of full_compile_stmt_bridge_source are satisfiable: the script of
   FullBridgeC05.full_compile_stmt_bridge_nonvacuous *)
Example full_compile_stmt_bridge_source_nonvacuous :
  exists lp,
    lparse_source (FullCompile.bs "var a = 1; var b = 0; while a < 10 && b != 3 { var t = a * 2; if t > 6 || a == 2 { b += 1; continue; } else if t == 4 { break; } a = a + 1; { var u = t; a += u; print(""x${a}y"", [u, (t, a)][0]); } }")
      = POk lp /\
    CE.program_ok (erase_stmts (fst lp)) = true /\ CE.fits (B5.prog_code lp) = true.
Proof. eexists. split; [vm_compute; reflexivity|]. split; vm_compute; reflexivity. Qed.

(* lwf is not trivially true: a tree the parser can never build *)
Example lwf_not_trivial : lwf_ss (LSCons (LSExpr (LVar 1%N (FullCompile.bs "self")) 1%N) LSNil) = false.
Proof. vm_compute. reflexivity. Qed.
