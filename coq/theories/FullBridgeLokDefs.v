(* FullBridge-Lok, definitions: the token-level side condition `tok_ok` (executable, so that it can be evaluated per
   run) and the TOTAL well-formedness predicate `lwf_*` over the located syntax of ParseLoc.v.

   `lwf` says: every name that is the lexeme of an Identifier token satisfies `name_ok` (non-empty, not the bytes
   `self`) and every number literal is `plain` (no NaN, no sign bit).  Positions constrained: LVar / LAssign /
   LCompound (what lok_* / lokf_* need), member names (LGet / LSet / LSetCompound / LInvoke / LSuperGet / LSuperCall),
   parameters (lambda, fn, method), `var` names, fn names, class names, the superclass and constructor names of a
   class (arguments of the `derive` / `constructor` attributes), method names, the `for` variable, the catch variable.
   NOT constrained (not always an Identifier lexeme): the import alias (derived from the path when there is no `as`:
   `import "self";` gives the alias `self`).

   DEFINITIONS ONLY. *)
From Coq Require Import Strings.Byte Strings.String.
From Coq Require Import List NArith Bool Arith.
From Coq Require Import Floats.SpecFloat.
From YV Require Import Utf8 NumText Ast Scanner Parser ParseLoc.
From YV Require FullCompileProofs FullBridgeC05.
Import ListNotations.

Definition name_ok : name -> bool := FullBridgeC05.name_ok.
Definition plain : spec_float -> bool := FullCompileProofs.plain.

(* a number lexeme: whatever ParseLoc.number makes of it is plain (or it is rejected) *)
Definition num_ok (lex : list byte) : bool :=
  match parse_literal lex with Some x => plain x | None => true end.

(* the token hypotheses, per token *)
Definition tok_ok (t : token) : bool :=
  match tk t with
  | TIdentifier => name_ok (tsource t)
  | TNumber => num_ok (tsource t)
  | _ => true
  end.

Definition toks_ok (l : list token) : bool := forallb tok_ok l.

Definition names_ok (l : list name) : bool := forallb name_ok l.

Fixpoint lwf_e (e : lexpr) : bool :=
  match e with
  | LNil _ | LTrue _ | LFalse _ | LStr _ _ | LSelf _ | LCapSelf _ => true
  | LNum _ x => plain x
  | LInterp ps _ => lwf_ps ps
  | LVar _ x => name_ok x
  | LSuperGet m _ => name_ok m
  | LSuperCall m _ args _ => name_ok m && lwf_es args
  | LAssign x e1 _ => name_ok x && lwf_e e1
  | LCompound x _ _ e1 _ => name_ok x && lwf_e e1
  | LUnary _ e1 _ => lwf_e e1
  | LBinary _ a b _ | LRange a b _ | LIndex a b _ => lwf_e a && lwf_e b
  | LAnd a _ b | LOr a _ b => lwf_e a && lwf_e b
  | LCall f args _ => lwf_e f && lwf_es args
  | LGet o m _ => lwf_e o && name_ok m
  | LSet o m e1 _ => lwf_e o && name_ok m && lwf_e e1
  | LSetCompound o m _ _ e1 _ => lwf_e o && name_ok m && lwf_e e1
  | LInvoke o m args _ => lwf_e o && name_ok m && lwf_es args
  | LSetIndex o i e1 _ => lwf_e o && lwf_e i && lwf_e e1
  | LTuple es _ | LVec es _ => lwf_es es
  | LMap kvs _ => lwf_kvs kvs
  | LLambdaE ps b _ => names_ok ps && lwf_e b
  | LLambdaB ps b _ => names_ok ps && lwf_ss b
  end
with lwf_es (es : lexprs) : bool :=
  match es with LENil => true | LECons e r => lwf_e e && lwf_es r end
with lwf_ps (ps : lparts) : bool :=
  match ps with LPNil => true | LPStr _ _ r => lwf_ps r | LPExpr e _ r => lwf_e e && lwf_ps r end
with lwf_kvs (kvs : lkvs) : bool :=
  match kvs with LKNil => true | LKCons k v r => lwf_e k && lwf_e v && lwf_kvs r end
with lwf_s (s : lstmt) : bool :=
  match s with
  | LSExpr e _ => lwf_e e
  | LSVar x _ _ => name_ok x
  | LSVarInit x e _ => name_ok x && lwf_e e
  | LSFn f ps b _ => name_ok f && names_ok ps && lwf_ss b
  | LSClass c _ sup ctor _ ms _ =>
    name_ok c && match sup with Some (n, _) => name_ok n | None => true end &&
    match ctor with Some n => name_ok n | None => true end && lwf_ms ms
  | LSBlock b _ => lwf_ss b
  | LSIf c _ t _ => lwf_e c && lwf_ss t
  | LSIfElse c _ t _ e => lwf_e c && lwf_ss t && lwf_s e
  | LSWhile c _ b _ => lwf_e c && lwf_ss b
  | LSFor x _ it _ b _ => name_ok x && lwf_e it && lwf_ss b
  | LSReturn _ | LSBreak _ | LSContinue _ => true
  | LSReturnE e _ | LSThrow e _ => lwf_e e
  | LSTryC _ b _ x cb _ => lwf_ss b && name_ok x && lwf_ss cb
  | LSTryF _ b _ fb _ => lwf_ss b && lwf_ss fb
  | LSTryCF _ b _ x cb _ fb _ => lwf_ss b && name_ok x && lwf_ss cb && lwf_ss fb
  | LSImport _ _ _ _ => true
  end
with lwf_ss (l : lstmts) : bool :=
  match l with LSNil => true | LSCons s r => lwf_s s && lwf_ss r end
with lwf_ms (ms : lmethods) : bool :=
  match ms with
  | LMNil => true
  | LMCons _ m ps _ b _ r => name_ok m && names_ok ps && lwf_ss b && lwf_ms r
  end.

Definition lwf_program (lp : lprogram) : bool := lwf_ss (fst lp).

(* per-run evaluation of the remaining hypothesis / of the conclusion, on one source text *)
Definition toks_ok_src (src : list byte) : bool := toks_ok (scan_all src).
Definition lwf_src (src : list byte) : bool :=
  match lparse_source src with POk lp => lwf_program lp | _ => true end.
