(* FullBridge-Lok, for the FUNCTION bridge (FullBridgeFn.v): inside the function fragment of C05 (FnCompile.xstmts_ok)
   the total well-formedness predicate lwf_* of FullBridgeLokDefs.v implies the side condition lokf_* of
   FullBridgeFnDefs.v; with FullBridgeLok.lparse_source_lwf: lokf_ss holds of every parser output of the fragment.
   (Does not depend on FullBridgeFn.v; the source-level corollary of full_compile_fn_tree is one `exact` - see
   notes/FullBridge-Lok.md.) *)
From Coq Require Import Strings.Byte Strings.String.
From Coq Require Import List NArith ZArith Bool Arith Lia.
From YV Require Import Utf8 Ast Scanner Parser ParseLoc.
From YV Require Import FullBridgeLokDefs FullBridgeFnDefs.
From YV Require CompileExpr FnCompile FnProofs FullCompileProofs FullCompileRun FullBridgeLok.
Import ListNotations.
Local Open Scope list_scope.

Module FC := FnCompile.
Module FP := FnProofs.

Lemma xok_lambda_e env pend ps e1 :
  FC.xexpr_ok env pend (ELambda ps (LExpr e1)) =
  FC.nodup_names ps && (length ps <=? 255) && FC.xexpr_ok (FC.fn_env ps) (FC.pend_of env pend) e1.
Proof. reflexivity. Qed.
Lemma xok_lambda_b env pend ps b :
  FC.xexpr_ok env pend (ELambda ps (LBlock b)) =
  FC.nodup_names ps && (length ps <=? 255) && FC.xstmts_ok (FC.fn_env ps) (FC.pend_of env pend) true b.
Proof. reflexivity. Qed.
Lemma xok_fn env pend infn l f ps body :
  FC.xstmt_ok env pend infn (SFn l f ps body) =
  match CompileExpr.cdepth env with
  | O => true
  | S _ => negb (CompileExpr.declared_here (CompileExpr.cdepth env) (CompileExpr.clocals env) f) &&
           (length (CompileExpr.clocals env) <? 256)
  end && negb (FC.is_lambda_name f) && FC.nodup_names ps && (length ps <=? 255) &&
  FC.xstmts_ok (FC.fn_env ps)
    (FC.pend_of (match CompileExpr.cdepth env with O => env | S _ => CompileExpr.add_local env f end) pend) true body.
Proof. reflexivity. Qed.
Lemma xok_block env pend infn l b :
  FC.xstmt_ok env pend infn (SBlock l b) = FC.xstmts_ok (CompileExpr.begin_scope env) pend infn b.
Proof. reflexivity. Qed.
Lemma xok_if env pend infn l c t e :
  FC.xstmt_ok env pend infn (SIf l c t e) =
  FC.xexpr_ok env pend c && FC.xstmts_ok (CompileExpr.begin_scope env) pend infn t &&
  match e with
  | Some s' => match s' with SBlock _ _ | SIf _ _ _ _ => FC.xstmt_ok env pend infn s' | _ => false end
  | None => true
  end.
Proof. reflexivity. Qed.
Lemma xok_while env pend infn l c b :
  FC.xstmt_ok env pend infn (SWhile l c b) =
  FC.xexpr_ok env pend c && FC.xstmts_ok (CompileExpr.begin_scope (CompileExpr.push_loop env)) pend infn b.
Proof. reflexivity. Qed.
Lemma xok_else env pend infn s' :
  match s' with SBlock _ _ | SIf _ _ _ _ => FC.xstmt_ok env pend infn s' | _ => false end = true ->
  FC.xstmt_ok env pend infn s' = true.
Proof. destruct s'; auto; discriminate. Qed.

Ltac bsplit :=
  repeat match goal with
         | H : _ && _ = true |- _ => apply andb_prop in H; destruct H
         end.
Ltac bgoal := repeat (first [assumption | apply andb_true_intro; split]).

Lemma lwf_lokf_all :
  (forall e, lwf_e e = true -> forall env pend, FC.xexpr_ok env pend (erase_expr e) = true -> lokf_e e = true) /\
  (forall es, lwf_es es = true -> forall env pend, forallb (FC.xexpr_ok env pend) (erase_exprs es) = true -> lokf_es es = true) /\
  (forall ps, lwf_ps ps = true -> forall env pend, FP.xparts_ok env pend (erase_parts ps) = true -> lokf_ps ps = true) /\
  (forall kvs : lkvs, True) /\
  (forall s, lwf_s s = true -> forall env pend infn, FC.xstmt_ok env pend infn (erase_stmt s) = true -> lokf_s s = true) /\
  (forall l, lwf_ss l = true -> forall env pend infn, FC.xstmts_ok env pend infn (erase_stmts l) = true -> lokf_ss l = true) /\
  (forall ms : lmethods, True).
Proof.
  apply FullCompileProofs.lsyntax_mutind; intros; try exact I; try reflexivity;
    cbn [lwf_e lwf_es lwf_ps lwf_s lwf_ss erase_expr erase_exprs erase_parts erase_stmt erase_stmts
         lokf_e lokf_es lokf_ps lokf_s lokf_ss forallb FP.xparts_ok] in *;
    try (rewrite FP.xexpr_ok_interp in * );
    try (rewrite xok_lambda_e in * ); try (rewrite xok_lambda_b in * ); try (rewrite xok_fn in * );
    try (rewrite xok_block in * ); try (rewrite xok_if in * ); try (rewrite xok_while in * );
    try match goal with H : FC.xexpr_ok _ _ _ = true |- _ => cbn [FC.xexpr_ok] in H end;
    try match goal with H : FC.xstmt_ok _ _ _ _ = true |- _ => cbn [FC.xstmt_ok] in H end;
    try match goal with H : FC.xstmts_ok _ _ _ (_ :: _) = true |- _ => cbn [FC.xstmts_ok] in H end;
    try discriminate; bsplit;
    try match goal with H : match CompileExpr.cdepth ?env with O => _ | S _ => _ end = true |- _ =>
          destruct (CompileExpr.cdepth env); bsplit end;
    try match goal with H : match ?o with Some _ => _ | None => true end = true |- _ => idtac end;
    try match goal with H : match ?s with SBlock _ _ => _ | _ => _ end = true |- _ => apply xok_else in H end;
    bgoal; eauto.
Qed.

Theorem lwf_lokf : forall l env pend infn,
  lwf_ss l = true -> FC.xstmts_ok env pend infn (erase_stmts l) = true -> lokf_ss l = true.
Proof. intros l env pend infn H1 H2. exact (proj1 (proj2 (proj2 (proj2 (proj2 (proj2 lwf_lokf_all))))) l H1 env pend infn H2). Qed.

(* lokf_ss holds of every parser output inside the function fragment *)
Theorem lparse_source_lokf : forall src lp,
  lparse_source src = POk lp -> FC.xprogram_ok (FullCompileRun.erase_program lp) = true -> lokf_ss (fst lp) = true.
Proof.
  intros src lp E Hok. exact (lwf_lokf _ _ _ _ (FullBridgeLok.lparse_source_lwf _ _ E) Hok).
Qed.
Print Assumptions lparse_source_lokf.
