(* FullBridge-Lok, scanner side: EVERY token the scanner produces satisfies the token-level side condition
   `tok_ok` of FullBridgeLokDefs.v, for every source text (valid UTF-8 or not):

     scan_all_toks_ok        : forall src, toks_ok (scan_all src) = true
     scan_all_toks_ok_Forall : forall src, Forall (fun t => tok_ok t = true) (scan_all src)

   Why: an Identifier token is only made in the identifier branch of scan_token_start, with the kind
   `identifier_type lex` of a non-empty lexeme; the lexeme `self` has kind TSelf, so a lexeme of kind TIdentifier
   is not `self`.  A Number token's lexeme starts with an ASCII digit, so `parse_f64` takes no sign, and
   `nearest_double false` / `round_ratio false` only make unsigned zero / finite / infinity; the INF/NAN fallback
   cannot read NAN from a lexeme that starts with a digit.  All other kinds are unconstrained. *)
From Coq Require Import Strings.Byte Strings.String.
From Coq Require Import List NArith ZArith Bool Arith Lia.
From Coq Require Import Floats.SpecFloat.
From YV Require Import Utf8 Num NumText Scanner FullBridgeLokDefs.
From YV Require FullCompileProofs FullBridgeC05.
Import ListNotations.

(* ------------------------------------------------------------------ *)
(* 1. identifiers                                                       *)

Lemma lokscan_bytes_eqb_true : forall a b, Utf8.bytes_eqb a b = true -> a = b.
Proof.
  induction a as [|x a IH]; intros [|y b] H; cbn [Utf8.bytes_eqb] in H; try discriminate; [reflexivity|].
  apply andb_prop in H as [H1 H2]. apply Byte.byte_dec_bl in H1. subst. f_equal. now apply IH.
Qed.

Lemma identifier_type_self : identifier_type (bs "self") = TSelf.
Proof. vm_compute. reflexivity. Qed.

Lemma identifier_name_ok : forall lex,
  identifier_type lex = TIdentifier -> lex <> [] -> name_ok lex = true.
Proof.
  intros lex Hk Hne. unfold name_ok, FullBridgeC05.name_ok.
  destruct lex as [|b l]; [contradiction|]. cbn [FullCompileProofs.nonempty_name andb].
  destruct (Utf8.bytes_eqb _ (b :: l)) eqn:E; [|reflexivity].
  apply lokscan_bytes_eqb_true in E. rewrite <- E in Hk. vm_compute in Hk. discriminate Hk.
Qed.

(* the keyword trie never answers Number *)
Definition not_number (k : tkind) : bool := match k with TNumber => false | _ => true end.

Lemma check_keyword_not_number : forall lex start rest k,
  not_number k = true -> not_number (check_keyword lex start rest k) = true.
Proof. intros lex start rest k H. unfold check_keyword. destruct (_ && _); [exact H|reflexivity]. Qed.

Lemma identifier_type_not_number : forall lex, not_number (identifier_type lex) = true.
Proof.
  intros lex. unfold identifier_type.
  destruct lex as [|b t]; [reflexivity|].
  destruct b; try reflexivity; try (apply check_keyword_not_number; reflexivity);
    (destruct t as [|b2 t2]; try reflexivity;
     destruct b2; try reflexivity; try (apply check_keyword_not_number; reflexivity);
     destruct t2 as [|b3 t3]; try reflexivity;
     destruct b3; try reflexivity; apply check_keyword_not_number; reflexivity).
Qed.

(* ------------------------------------------------------------------ *)
(* 2. numbers                                                           *)

Lemma round_ratio_plain : forall n d, plain (round_ratio false n d) = true.
Proof.
  intros n d. unfold round_ratio.
  destruct (n <=? 0)%Z; [reflexivity|].
  cbv zeta.
  destruct (Z.div_eucl _ _) as [q r].
  match goal with |- context [if ?c then (two52, _) else _] => destruct c end.
  - destruct two52; try reflexivity.
    match goal with |- context [if ?c then S754_finite _ _ _ else _] => destruct c end; reflexivity.
  - match goal with |- plain (match ?q1 with Z0 => _ | Zpos _ => _ | Zneg _ => _ end) = true => destruct q1 end;
      try reflexivity.
    match goal with |- context [if ?c then S754_finite _ _ _ else _] => destruct c end; reflexivity.
Qed.

Lemma nearest_double_plain : forall d e, plain (nearest_double false d e) = true.
Proof.
  intros d e. unfold nearest_double.
  destruct (d <=? 0)%Z; [reflexivity|].
  destruct (310 <? e)%Z; [reflexivity|].
  match goal with |- context [if ?c then S754_zero false else _] => destruct c end; [reflexivity|].
  apply round_ratio_plain.
Qed.

Lemma digit_facts : forall c, is_digit c = true ->
  Byte.eqb c "-" = false /\ Byte.eqb c "+" = false /\ N.eqb (clear_case c) 78 = false.
Proof.
  intros c; destruct c; vm_compute; intros H; try discriminate H; repeat split.
Qed.

Lemma num_ok_digit : forall c r, is_digit c = true -> num_ok (c :: r) = true.
Proof.
  intros c r Hd. destruct (digit_facts c Hd) as [Hm [Hp Hn]].
  unfold num_ok, parse_literal, parse_f64. rewrite Hm, Hp. cbn [orb].
  destruct (parse_decimal (c :: r)) as [[d e]|].
  - apply nearest_double_plain.
  - unfold parse_inf_nan. cbn [map].
    match goal with |- context [if ?c then Some (S754_infinity false) else _] => destruct c end; [reflexivity|].
    cbn [N_list_eqb]. rewrite Hn. reflexivity.
Qed.

(* ------------------------------------------------------------------ *)
(* 3. kinds on which tok_ok says nothing                                *)

Definition safe_kind (k : tkind) : bool :=
  match k with TIdentifier | TNumber => false | _ => true end.

Lemma safe_kind_tok_ok : forall t, safe_kind (tk t) = true -> tok_ok t = true.
Proof. intros t H. unfold tok_ok. destruct (tk t); try reflexivity; discriminate H. Qed.

Lemma string_loop_safe : forall cs skip buf err pos line parens,
  safe_kind (tk (fst (string_loop cs skip buf err pos line parens))) = true.
Proof.
  induction cs as [|c r IH]; intros skip buf err pos line parens; cbn [string_loop].
  - reflexivity.
  - destruct skip as [|k]; [|apply IH].
    destruct (chr_is c """").
    { destruct err; reflexivity. }
    destruct (chr_is c "$").
    { destruct r as [|c2 r2]; [reflexivity|].
      destruct (negb (chr_is c2 "{")); [reflexivity|].
      destruct (Nat.leb INTERPOLATION_DEPTH_MAX (List.length parens)); reflexivity. }
    destruct (chr_is c "\").
    { destruct r as [|c2 r2]; [reflexivity|].
      destruct (simple_escape c2); [apply IH|].
      destruct (hex_escape c2) as [[n msg]|]; [|reflexivity].
      destruct (read_escaped_bytes n r2) as [[l|] k]; apply IH. }
    destruct (chr_is c "010"); apply IH.
Qed.

(* ------------------------------------------------------------------ *)
(* 4. one token                                                         *)

Lemma is_alpha_nonempty : forall c, is_alpha c = true -> c <> [].
Proof. intros [|b c] H; [discriminate H|discriminate]. Qed.

Lemma scan_token_start_tok_ok : forall st, tok_ok (fst (fst (scan_token_start st))) = true.
Proof.
  intros [rest pos line0 parens]. unfold scan_token_start.
  cbn [s_rest s_pos s_line s_parens].
  destruct (skip_ws false rest pos line0) as [[cs start] line].
  destruct cs as [|c r]; [reflexivity|].
  cbv beta zeta.
  set (P := fun x : token * nat * sstate => tok_ok (fst (fst x)) = true).
  match goal with |- tok_ok (fst (fst ?X)) = true => change (P X) end.
  destruct (is_alpha c) eqn:Ea.
  { destruct (span_ident r) as [l r']. subst P; cbv beta iota; cbn [fst snd].
    unfold tok_ok. cbn [tk tsource].
    pose proof (identifier_type_not_number (c ++ l)) as Hnn.
    destruct (identifier_type (c ++ l)) eqn:Ek; try reflexivity; try discriminate Hnn.
    apply identifier_name_ok; [exact Ek|].
    apply is_alpha_nonempty in Ea. destruct c; [contradiction|discriminate]. }
  destruct (is_digit_chr c) eqn:Ed.
  { destruct (number_tail r) as [l r']. subst P; cbv beta iota; cbn [fst snd].
    unfold tok_ok. cbn [tk tsource].
    destruct c as [|b [|b2 c']]; try discriminate Ed. cbn [is_digit_chr] in Ed.
    cbn [app]. apply num_ok_digit. exact Ed. }
  clear Ea Ed.
  destruct c as [|b [|b2 c']]; try (subst P; cbv beta iota; cbn [fst snd]; reflexivity).
  repeat match goal with
  | |- P (match scan_string ?r0 ?p ?l ?ps with _ => _ end) =>
    pose proof (string_loop_safe r0 0%nat [] None p l ps); unfold scan_string;
    destruct (string_loop r0 0 [] None p l ps) as [? ?]
  | |- P (match match_chr ?r0 ?x with _ => _ end) => destruct (match_chr r0 x) as [? ?]
  | |- P (match ?x with _ => _ end) => destruct x
  end; subst P; cbv beta iota; cbn [fst snd]; try reflexivity;
  apply safe_kind_tok_ok; cbn [fst] in *; try assumption;
  cbn [tk]; repeat match goal with |- context [if ?x then _ else _] => is_var x; destruct x end; reflexivity.
Qed.

Lemma scan_token_tok_ok : forall st, tok_ok (fst (scan_token st)) = true.
Proof.
  intros st. pose proof (scan_token_start_tok_ok st) as H. unfold scan_token.
  destruct (scan_token_start st) as [[t n] st']. exact H.
Qed.

(* ------------------------------------------------------------------ *)
(* 5. all tokens                                                        *)

Lemma scan_loop_toks_ok : forall fuel st, toks_ok (scan_loop fuel st) = true.
Proof.
  induction fuel as [|f IH]; intros st; [reflexivity|].
  cbn [scan_loop].
  pose proof (scan_token_tok_ok st) as H. destruct (scan_token st) as [t st']. cbn [fst] in H.
  unfold toks_ok in *.
  destruct (tk t); cbn [forallb]; rewrite H; cbn [andb]; try reflexivity; apply IH.
Qed.

(* HEADLINE: the scanner only produces tokens that satisfy the token-level side condition, on every input. *)
Theorem scan_all_toks_ok : forall src, toks_ok (scan_all src) = true.
Proof. intros src. unfold scan_all. apply scan_loop_toks_ok. Qed.
Print Assumptions scan_all_toks_ok.

Theorem scan_all_toks_ok_Forall : forall src, Forall (fun t => tok_ok t = true) (scan_all src).
Proof.
  intros src. apply Forall_forall. intros t Hin.
  exact (proj1 (forallb_forall tok_ok (scan_all src)) (scan_all_toks_ok src) t Hin).
Qed.
Print Assumptions scan_all_toks_ok_Forall.

(* also in the per-run form of FullBridgeLokDefs.v *)
Corollary toks_ok_src_always : forall src, toks_ok_src src = true.
Proof. exact scan_all_toks_ok. Qed.

Example scan_toks_ok_ex :
  toks_ok (scan_all (bs "var x = 1.5; fn f(a) { return a + 2; } print(""a${x}b"");")) = true.
Proof. vm_compute. reflexivity. Qed.

(* the example is not vacuous: it has Identifier, Number, Interpolation and Str tokens *)
Example scan_toks_ok_ex_kinds :
  let ks := map tk (scan_all (bs "var x = 1.5; fn f(a) { return a + 2; } print(""a${x}b"");")) in
  existsb (tkind_eqb TIdentifier) ks && existsb (tkind_eqb TNumber) ks
  && existsb (tkind_eqb TInterpolation) ks && existsb (tkind_eqb TStr) ks = true.
Proof. vm_compute. reflexivity. Qed.
