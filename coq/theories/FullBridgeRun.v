(* FullBridge: wire entries for the per-run evaluation of the bridge theorems' HYPOTHESES on generated programs.
   DEFINITIONS ONLY (the theorems are in FullBridgeC05.v ...).

   bridge_C05_thm lp =
     "nolok"    the side condition lok_ss of FullBridgeC05.full_compile_stmt_bridge fails (a variable named "" or
                "self", a NaN / negative number literal: never the case for parser output - CHECKED here, not proved)
     "notfrag"  outside CE.program_ok (the theorem says nothing)
     "nofit"    code >= 64 KiB or > 65536 constants (the theorem says nothing; FullCompile reports an error)
     "same"     all hypotheses hold and - as the theorem says - code = CE.assemble .., constants = CE.const_table ..
     "DIFF" / "cerr"   impossible while FullBridgeC05.v compiles (kept so that the check is self-contained) *)
From Coq Require Import Strings.Byte Strings.String.
From Coq Require Import List NArith Bool.
From YV Require Import Show Utf8 Num Ast Scanner Parser ParseRun ParseLoc FullCompile FullCompileRun FullBridgeC05.
From YV Require CompileExpr.
Import ListNotations.
Local Open Scope string_scope.

Definition bridge_C05_thm (lp : lprogram) : string :=
  let p := erase_program lp in
  if negb (CompileExpr.program_ok p) then "notfrag" else
  if negb (lok_ss (fst lp)) then "nolok" else
  let code := CompileExpr.cprogram true p in
  if negb (CompileExpr.fits code) then "nofit" else
  match compile_program lp with
  | COk f =>
    if Ns_eqb (f_code f) (CompileExpr.assemble code) && kconsts_eqb (f_consts f) (CompileExpr.const_table code)
    then "same" else "DIFF"
  | CErr _ _ => "cerr"
  end.

Definition bridge_C05_thm_hex (h : string) : string :=
  match lparse_source (bytes_of_hex h) with
  | POk lp => bridge_C05_thm lp
  | PErr _ _ _ => "parse"
  | POutOfFuel => "fuel"
  end.
