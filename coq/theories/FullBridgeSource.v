(* FullBridge: the function-bridge theorems of FullBridgeFn.v for SOURCE TEXTS - the located-syntax side condition
   `lokf_ss` is discharged by FullBridgeLokFn.lparse_source_lokf (every output of the located parser satisfies it).
   (The statement-fragment counterparts `full_compile_stmt_bridge_source` / `full_compile_stmt_correct_source`
   are in FullBridgeLok.v.) *)
From Coq Require Import Strings.Byte List NArith.
From YV Require Parser ParseLoc FullCompile FnCompile FnSem FnVM ExprSem.
From YV Require FullBridgeFnDefs FullBridgeFn FullBridgeLokFn.

Theorem full_compile_fn_tree_source : forall (src : list byte) (lp : ParseLoc.lprogram),
  ParseLoc.lparse_source src = Parser.POk lp ->
  FnCompile.xprogram_ok (FullBridgeFn.erase_prog lp) = true ->
  FnCompile.nocap_code (FnCompile.fo_code (FnCompile.xprogram (FullBridgeFn.erase_prog lp))) = true ->
  FullBridgeFnDefs.xfits (FnCompile.xprogram (FullBridgeFn.erase_prog lp)) = true ->
  exists g, FullCompile.compile_program lp = FullCompile.COk g /\
            FullBridgeFn.tree_rel g (FnCompile.xprogram (FullBridgeFn.erase_prog lp)).
Proof.
  intros src lp E Hok. apply FullBridgeFn.full_compile_fn_tree; [|exact Hok].
  exact (FullBridgeLokFn.lparse_source_lokf src lp E Hok).
Qed.
Print Assumptions full_compile_fn_tree_source.

Theorem full_compile_fn_correct_nocapture_source : forall fuel (src : list byte) (lp : ParseLoc.lprogram) s' o,
  ParseLoc.lparse_source src = Parser.POk lp ->
  FnCompile.xprogram_ok (FullBridgeFn.erase_prog lp) = true ->
  FnCompile.nocap_code (FnCompile.fo_code (FnCompile.xprogram (FullBridgeFn.erase_prog lp))) = true ->
  FullBridgeFnDefs.xfits (FnCompile.xprogram (FullBridgeFn.erase_prog lp)) = true ->
  FnSem.frun_program fuel (FullBridgeFn.erase_prog lp) = (s', o) ->
  exists g f, FullCompile.compile_program lp = FullCompile.COk g /\ FullBridgeFn.tree_rel g f /\
    match o with
    | FnSem.FNormal => exists k m, FnVM.mrun k (FnVM.mstate0 f) = FnVM.MDone m /\ FnVM.mwd m = FnSem.ewd s'
    | FnSem.FErr e => e <> ExprSem.Unsupported -> exists k, FnVM.mrun k (FnVM.mstate0 f) = FnVM.MFail e (FnSem.ewd s')
    | FnSem.FFuel => True
    | FnSem.FBreak | FnSem.FContinue | FnSem.FReturn _ => False
    end.
Proof.
  intros fuel src lp s' o E Hok. apply FullBridgeFn.full_compile_fn_correct_nocapture; [|exact Hok].
  exact (FullBridgeLokFn.lparse_source_lokf src lp E Hok).
Qed.
Print Assumptions full_compile_fn_correct_nocapture_source.
