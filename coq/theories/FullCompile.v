(* FullCompile, part 2: ONE Gallina model of the whole of compiler.rs' code generation:
   located syntax (ParseLoc.v) -> function tree (code bytes, constant table, line table, arity,
   upvalue count, name), meant to be BYTE-IDENTICAL to what `yarel::compiler::compile` builds.

   The state is the real one's: a stack of `Compiler`s (chunk = code + lines + constants, locals with
   depth / is_captured, upvalue list with de-duplication, scope depth, lambda counter, in_try_block,
   try_depth, loop_stack, break_stack, arity) and the stack of `ClassCompiler`s.  Every function
   below is named after the Rust function it mirrors and performs its effects in the same order
   (order matters: `make_constant` calls fix the layout of the constant table).  Static errors and
   limits of compiler.rs are reported as `CErr line msg` (first error only; the Rust compiler's
   panic-mode recovery is out of scope).  `line` is the line of the token that is `previous` in the
   Rust compiler where the syntax records it, otherwise the line of the last byte emitted.

   Bytes are `N` (as in Bytecode.v); that every emitted byte is < 256 is a THEOREM
   (FullCompileProofs.code_bytes_in_range), not a type.

   DEFINITIONS ONLY. *)
From Coq Require Import Strings.Byte Strings.String.
From Coq Require Import List NArith ZArith Bool Arith.
From Coq Require Import Floats.SpecFloat.
From YV Require Import Show Utf8 Num Ast Bytecode ParseLoc.
Definition bs (s : string) : list byte := list_byte_of_string s.
Import ListNotations.
Local Open Scope nat_scope.
Local Open Scope list_scope.
Local Open Scope string_scope.

(* ------------------------------------------------------------------ *)
(* output                                                               *)
Inductive const :=
| KNum (x : spec_float)
| KStr (s : list byte)
| KFun (f : func)
with func :=
| MkFunc (arity : N) (upvalue_count : N) (name : list byte)
         (code : list N) (consts : list const) (lines : list N).

Definition f_arity (f : func) := let 'MkFunc a _ _ _ _ _ := f in a.
Definition f_upvalues (f : func) := let 'MkFunc _ u _ _ _ _ := f in u.
Definition f_name (f : func) := let 'MkFunc _ _ n _ _ _ := f in n.
Definition f_code (f : func) := let 'MkFunc _ _ _ c _ _ := f in c.
Definition f_consts (f : func) := let 'MkFunc _ _ _ _ k _ := f in k.
Definition f_lines (f : func) := let 'MkFunc _ _ _ _ _ l := f in l.

Inductive cres (A : Type) :=
| COk (a : A)
| CErr (line : N) (msg : string).
Arguments COk {A} a.
Arguments CErr {A} line msg.

(* ------------------------------------------------------------------ *)
(* state                                                                *)
Inductive fk := KFunction | KInitialiser | KMethod | KScript | KStaticMethod.

Definition fk_eqb (a b : fk) : bool :=
  match a, b with
  | KFunction, KFunction | KInitialiser, KInitialiser | KMethod, KMethod
  | KScript, KScript | KStaticMethod, KStaticMethod => true
  | _, _ => false
  end.

Record klocal := mkKL { kl_name : list byte; kl_depth : option nat; kl_captured : bool }.

Definition LOCALS_MAX : nat := 256.
Definition UPVALUES_MAX : nat := 256.
Definition JUMP_SIZE_MAX : N := 65535%N.

Record comp := mkComp {
  k_kind : fk;
  k_name : list byte;                 (* function.name *)
  k_arity : N;                        (* function.arity (starts at 1) *)
  k_code : list N;                    (* chunk.code *)
  k_lines : list N;                   (* chunk.lines *)
  k_consts : list const;              (* chunk.constants *)
  k_locals : list klocal;             (* MOST RECENT FIRST; slot i is at position len-1-i *)
  k_upvalues : list (N * bool);       (* (index, is_local), in slot order *)
  k_scope : nat;                      (* scope_depth *)
  k_lambdas : N;                      (* lambda_count *)
  k_in_try : bool;                    (* in_try_block *)
  k_try_depth : nat;                  (* try_depth *)
  k_loops : list (nat * nat * nat);   (* loop_stack: (loop_start, scope_depth, try_depth), innermost first *)
  k_breaks : list (list nat)          (* break_stack, innermost first; positions newest first *)
}.

(* Compiler::new *)
Definition new_comp (k : fk) (name : list byte) : comp :=
  mkComp k name 1%N [] [] []
    [mkKL (match k with
           | KStaticMethod => bs "Self"
           | KFunction => []
           | _ => bs "self"
           end) (Some 0) false]
    [] 0 0%N false 0 [] [].

Record cstate := mkS {
  s_cur : comp;                       (* compilers.last() *)
  s_outer : list comp;                (* the enclosing compilers, innermost first *)
  s_classes : list bool;              (* class_compilers (has_superclass), innermost first *)
  s_line : N                          (* line of the last emitted byte (for error positions only) *)
}.

Definition C (A : Type) : Type := cstate -> cres (A * cstate).

Definition cret {A} (a : A) : C A := fun s => COk (a, s).
Definition cbind {A B} (m : C A) (k : A -> C B) : C B :=
  fun s => match m s with
           | COk (a, s') => k a s'
           | CErr l msg => CErr l msg
           end.

Declare Scope comp_scope.
Delimit Scope comp_scope with comp.
Notation "x <- m ;; k" := (cbind m (fun x => k)) (at level 61, m at next level, right associativity) : comp_scope.
Notation "m ;;; k" := (cbind m (fun _ => k)) (at level 61, right associativity) : comp_scope.
Local Open Scope comp_scope.

Definition cget : C cstate := fun s => COk (s, s).
Definition cur : C comp := fun s => COk (s_cur s, s).
(* fn error / error_at (first error only) *)
Definition cerr {A} (l : N) (msg : string) : C A := fun _ => CErr l msg.
Definition cerr_here {A} (msg : string) : C A := fun s => CErr (s_line s) msg.
Definition cwhen (b : bool) (m : C unit) : C unit := if b then m else cret tt.

Definition upd (f : comp -> comp) : C unit :=
  fun s => COk (tt, mkS (f (s_cur s)) (s_outer s) (s_classes s) (s_line s)).
Definition set_line (l : N) : C unit :=
  fun s => COk (tt, mkS (s_cur s) (s_outer s) (s_classes s) l).
Definition set_classes (cl : list bool) : C unit :=
  fun s => COk (tt, mkS (s_cur s) (s_outer s) cl (s_line s)).

Definition with_code (c : comp) (code lines : list N) : comp :=
  mkComp (k_kind c) (k_name c) (k_arity c) code lines (k_consts c) (k_locals c) (k_upvalues c)
         (k_scope c) (k_lambdas c) (k_in_try c) (k_try_depth c) (k_loops c) (k_breaks c).
Definition with_consts (c : comp) (ks : list const) : comp :=
  mkComp (k_kind c) (k_name c) (k_arity c) (k_code c) (k_lines c) ks (k_locals c) (k_upvalues c)
         (k_scope c) (k_lambdas c) (k_in_try c) (k_try_depth c) (k_loops c) (k_breaks c).
Definition with_locals (c : comp) (ls : list klocal) : comp :=
  mkComp (k_kind c) (k_name c) (k_arity c) (k_code c) (k_lines c) (k_consts c) ls (k_upvalues c)
         (k_scope c) (k_lambdas c) (k_in_try c) (k_try_depth c) (k_loops c) (k_breaks c).
Definition with_upvalues (c : comp) (us : list (N * bool)) : comp :=
  mkComp (k_kind c) (k_name c) (k_arity c) (k_code c) (k_lines c) (k_consts c) (k_locals c) us
         (k_scope c) (k_lambdas c) (k_in_try c) (k_try_depth c) (k_loops c) (k_breaks c).
Definition with_scope (c : comp) (d : nat) : comp :=
  mkComp (k_kind c) (k_name c) (k_arity c) (k_code c) (k_lines c) (k_consts c) (k_locals c) (k_upvalues c)
         d (k_lambdas c) (k_in_try c) (k_try_depth c) (k_loops c) (k_breaks c).
Definition with_lambdas (c : comp) (n : N) : comp :=
  mkComp (k_kind c) (k_name c) (k_arity c) (k_code c) (k_lines c) (k_consts c) (k_locals c) (k_upvalues c)
         (k_scope c) n (k_in_try c) (k_try_depth c) (k_loops c) (k_breaks c).
Definition with_try (c : comp) (b : bool) (d : nat) : comp :=
  mkComp (k_kind c) (k_name c) (k_arity c) (k_code c) (k_lines c) (k_consts c) (k_locals c) (k_upvalues c)
         (k_scope c) (k_lambdas c) b d (k_loops c) (k_breaks c).
Definition with_loops (c : comp) (ls : list (nat * nat * nat)) (bs_ : list (list nat)) : comp :=
  mkComp (k_kind c) (k_name c) (k_arity c) (k_code c) (k_lines c) (k_consts c) (k_locals c) (k_upvalues c)
         (k_scope c) (k_lambdas c) (k_in_try c) (k_try_depth c) ls bs_.
Definition with_arity (c : comp) (a : N) : comp :=
  mkComp (k_kind c) (k_name c) a (k_code c) (k_lines c) (k_consts c) (k_locals c) (k_upvalues c)
         (k_scope c) (k_lambdas c) (k_in_try c) (k_try_depth c) (k_loops c) (k_breaks c).

(* ------------------------------------------------------------------ *)
(* emission                                                             *)

(* Chunk::write with the line of `previous` *)
Definition emit_byte (b : N) (l : N) : C unit :=
  upd (fun c => with_code c (k_code c ++ [b]) (k_lines c ++ [l])) ;;; set_line l.

Definition emit_op (o : opcode) (l : N) : C unit := emit_byte (N_of_opcode o) l.
(* emit_bytes([op, n]) *)
Definition emit_op8 (o : opcode) (n : N) (l : N) : C unit := emit_op o l ;;; emit_byte n l.
(* emit_constant_op: opcode, then u16::to_ne_bytes (little endian on the supported targets) *)
Definition emit_u16 (n : N) (l : N) : C unit :=
  emit_byte (N.modulo n 256%N) l ;;; emit_byte (N.div n 256%N) l.
Definition emit_op16 (o : opcode) (n : N) (l : N) : C unit := emit_op o l ;;; emit_u16 n l.

Definition code_len : C nat := fun s => COk (length (k_code (s_cur s)), s).

(* fn emit_variable_op: arg_sizes() == [1] for the local / upvalue instructions *)
Definition is_op8 (o : opcode) : bool :=
  match o with OpGetLocal | OpSetLocal | OpGetUpvalue | OpSetUpvalue => true | _ => false end.
Definition emit_variable_op (o : opcode) (arg : N) (l : N) : C unit :=
  if is_op8 o then emit_op8 o arg l else emit_op16 o arg l.

(* fn emit_jump: opcode ff ff; returns the position of the operand *)
Definition emit_jump (o : opcode) (l : N) : C nat :=
  emit_op o l ;;; emit_byte 255%N l ;;; emit_byte 255%N l ;;;
  n <- code_len ;; cret (n - 2).

Fixpoint set_nth {A} (n : nat) (v : A) (l : list A) : list A :=
  match l, n with
  | [], _ => []
  | _ :: r, O => v :: r
  | x :: r, S n' => x :: set_nth n' v r
  end.

Definition patch16 (pos : nat) (v : N) : C unit :=
  upd (fun c => with_code c (set_nth (S pos) (N.div v 256%N) (set_nth pos (N.modulo v 256%N) (k_code c)))
                          (k_lines c)).

(* Compiler::patch_jump + Parser::patch_jump *)
Definition patch_jump (offset : nat) : C unit :=
  n <- code_len ;;
  let jump := N.of_nat (n - offset - 2) in
  if N.ltb JUMP_SIZE_MAX jump then cerr_here "Too much code to jump over."
  else patch16 offset jump.

(* fn patch_offset_at *)
Definition patch_offset_at (pos offset : nat) : C unit :=
  n <- code_len ;;
  let jump := N.of_nat (n - offset) in
  if N.ltb JUMP_SIZE_MAX jump then cerr_here "Too much code in block."
  else patch16 pos jump.

(* fn emit_loop *)
Definition emit_loop (loop_start : nat) (l : N) : C unit :=
  emit_op OpLoop l ;;;
  n <- code_len ;;
  let offset := N.of_nat (n - loop_start + 2) in
  if N.ltb JUMP_SIZE_MAX offset then cerr l "Loop body too large."
  else emit_u16 offset l.

(* ---------- constants ---------- *)
(* Value::eq on the values a chunk's constant_map can hold: numbers by IEEE `==`, interned strings by
   identity (= contents), functions by identity (every compiled function is a new object) *)
Definition const_eqb (a b : const) : bool :=
  match a, b with
  | KNum x, KNum y => feqb x y
  | KStr x, KStr y => bytes_eqb x y
  | _, _ => false
  end.

Fixpoint const_index (tbl : list const) (c : const) : option nat :=
  match tbl with
  | [] => None
  | d :: r => if const_eqb d c then Some 0
              else match const_index r c with Some k => Some (S k) | None => None end
  end.

(* Chunk::add_constant + fn make_constant *)
Definition make_constant (c : const) : C N :=
  k <- cur ;;
  match const_index (k_consts k) c with
  | Some i => if N.ltb 65535%N (N.of_nat i) then cerr_here "Too many constants in one chunk."
              else cret (N.of_nat i)
  | None =>
    let i := N.of_nat (length (k_consts k)) in
    upd (fun k => with_consts k (k_consts k ++ [c])) ;;;
    if N.ltb 65535%N i then cerr_here "Too many constants in one chunk." else cret i
  end.

Definition identifier_constant (x : list byte) : C N := make_constant (KStr x).

(* fn emit_constant *)
Definition emit_constant (c : const) (l : N) : C unit :=
  set_line l ;;; i <- make_constant c ;; emit_op16 OpConstant i l.

(* ---------- scopes and locals ---------- *)
Definition begin_scope : C unit := upd (fun c => with_scope c (S (k_scope c))).

(* the opcodes of fn emit_scope_end: newest first, while depth > scope_depth *)
Fixpoint scope_end_ops (d : nat) (ls : list klocal) : list opcode :=
  match ls with
  | l :: r =>
    match kl_depth l with
    | Some v => if Nat.leb v d then []
                else (if kl_captured l then OpCloseUpvalue else OpPop) :: scope_end_ops d r
    | None => []      (* `local.depth.unwrap()` would panic; no uninitialised local exists at a scope end *)
    end
  | [] => []
  end.

Fixpoint emit_ops (ops : list opcode) (l : N) : C unit :=
  match ops with
  | [] => cret tt
  | o :: r => emit_op o l ;;; emit_ops r l
  end.

(* fn emit_scope_end *)
Definition emit_scope_end (pop_locals : bool) (d : nat) (l : N) : C unit :=
  k <- cur ;;
  let ops := scope_end_ops d (k_locals k) in
  emit_ops ops l ;;;
  if pop_locals then upd (fun c => with_locals c (skipn (length ops) (k_locals c))) else cret tt.

(* fn end_scope *)
Definition end_scope (l : N) : C unit :=
  upd (fun c => with_scope c (pred (k_scope c))) ;;;
  k <- cur ;;
  emit_scope_end true (k_scope k) l.

(* Compiler::add_local; false = table full *)
Definition add_local (name : list byte) : C bool :=
  k <- cur ;;
  if Nat.eqb (length (k_locals k)) LOCALS_MAX then cret false
  else upd (fun c => with_locals c (mkKL name None false :: k_locals c)) ;;; cret true.

(* Compiler::mark_last_initialised *)
Definition mark_last_initialised : C unit :=
  upd (fun c => match k_locals c with
                | l :: r => with_locals c (mkKL (kl_name l) (Some (k_scope c)) (kl_captured l) :: r)
                | [] => c
                end).
(* Parser::mark_initialised *)
Definition mark_initialised : C unit :=
  k <- cur ;; if Nat.eqb (k_scope k) 0 then cret tt else mark_last_initialised.

(* Compiler::mark_initialised(local): slot `slot` *)
Fixpoint mark_slot (n : nat) (d : nat) (ls : list klocal) : list klocal :=
  match ls, n with
  | [], _ => []
  | l :: r, O => mkKL (kl_name l) (Some d) (kl_captured l) :: r
  | l :: r, S n' => l :: mark_slot n' d r
  end.
Definition mark_initialised_slot (slot : nat) : C unit :=
  upd (fun c => with_locals c (mark_slot (length (k_locals c) - 1 - slot) (k_scope c) (k_locals c))).

(* the duplicate check of fn declare_variable *)
Fixpoint declared_in_scope (name : list byte) (scope : nat) (ls : list klocal) : bool :=
  match ls with
  | [] => false
  | l :: r =>
    match kl_depth l with
    | Some v => if Nat.ltb v scope then false
                else bytes_eqb name (kl_name l) || declared_in_scope name scope r
    | None => bytes_eqb name (kl_name l) || declared_in_scope name scope r
    end
  end.

(* fn declare_variable (of the name `x`, reported at line `l`) *)
Definition declare_variable (x : list byte) (l : N) : C unit :=
  k <- cur ;;
  if Nat.eqb (k_scope k) 0 then cret tt else
  if declared_in_scope x (k_scope k) (k_locals k)
  then cerr l "Variable with this name already declared in this scope."
  else ok <- add_local x ;;
       if ok then cret tt else cerr l "Too many variables in function.".

(* fn parse_variable: the global's name constant, 0 for a local *)
Definition parse_variable (x : list byte) (l : N) : C N :=
  declare_variable x l ;;;
  k <- cur ;;
  if Nat.ltb 0 (k_scope k) then cret 0%N else identifier_constant x.

(* fn define_variable *)
Definition define_variable (global : N) (l : N) : C unit :=
  k <- cur ;;
  if Nat.ltb 0 (k_scope k) then mark_initialised
  else emit_op16 OpDefineGlobal global l.

(* ---------- variable resolution ---------- *)
Inductive lres := LFound (i : nat) | LUninit | LNotFound.
(* Compiler::resolve_local *)
Fixpoint resolve_local_in (name : list byte) (ls : list klocal) : lres :=
  match ls with
  | [] => LNotFound
  | l :: r =>
    if bytes_eqb (kl_name l) name then
      match kl_depth l with Some _ => LFound (length r) | None => LUninit end
    else resolve_local_in name r
  end.
Definition resolve_local_c (c : comp) (name : list byte) : lres := resolve_local_in name (k_locals c).

Fixpoint find_upvalue (u : list (N * bool)) (i : N) (is_local : bool) (pos : nat) : option nat :=
  match u with
  | [] => None
  | (j, l) :: r => if N.eqb j i && Bool.eqb l is_local then Some pos
                   else find_upvalue r i is_local (S pos)
  end.
(* Compiler::add_upvalue; None = TooManyClosureVars *)
Definition add_upvalue (c : comp) (i : N) (is_local : bool) : option (N * comp) :=
  match find_upvalue (k_upvalues c) i is_local 0 with
  | Some p => Some (N.of_nat p, c)
  | None =>
    let n := length (k_upvalues c) in
    if Nat.eqb n UPVALUES_MAX then None
    else Some (N.of_nat n, with_upvalues c (k_upvalues c ++ [(i, is_local)]))
  end.

(* locals[slot].is_captured = true *)
Fixpoint capture_at (n : nat) (ls : list klocal) : list klocal :=
  match ls, n with
  | [], _ => []
  | l :: r, O => mkKL (kl_name l) (kl_depth l) true :: r
  | l :: r, S n' => l :: capture_at n' r
  end.
Definition capture_slot (c : comp) (slot : nat) : comp :=
  with_locals c (capture_at (length (k_locals c) - 1 - slot) (k_locals c)).

(* fn resolve_upvalue for the compiler `c` whose enclosing compilers are `outer` (innermost first).
   An enclosing local that is declared but not initialised does NOT resolve (`if let Ok(..)`): the
   search goes on outwards and may end at a global. *)
Inductive ures := UFound (i : N) (c : comp) (outer : list comp) | UNotFound | UTooMany.
Fixpoint resolve_upvalue_in (name : list byte) (c : comp) (outer : list comp) : ures :=
  match outer with
  | [] => UNotFound
  | e :: outer' =>
    match resolve_local_c e name with
    | LFound i =>
      match add_upvalue c (N.of_nat i) true with
      | Some (u, c') => UFound u c' (capture_slot e i :: outer')
      | None => UTooMany
      end
    | _ =>
      match resolve_upvalue_in name e outer' with
      | UFound i e' outer2 =>
        match add_upvalue c i false with
        | Some (u, c') => UFound u c' (e' :: outer2)
        | None => UTooMany
        end
      | UNotFound => UNotFound
      | UTooMany => UTooMany
      end
    end
  end.

(* fn resolve_variable: (get_op, set_op, arg); errors reported at line l *)
Definition resolve_variable (name : list byte) (l : N) : C (opcode * opcode * N) :=
  k <- cur ;;
  match resolve_local_c k name with
  | LFound i => cret (OpGetLocal, OpSetLocal, N.of_nat i)
  | LUninit => cerr l "Cannot read local variable in its own initialiser."
  | LNotFound =>
    s <- cget ;;
    match resolve_upvalue_in name (s_cur s) (s_outer s) with
    | UFound i c' outer' =>
      (fun s => COk (tt, mkS c' outer' (s_classes s) (s_line s))) ;;;
      cret (OpGetUpvalue, OpSetUpvalue, i)
    | UTooMany => cerr l "Too many closure variables in function."
    | UNotFound =>
      set_line l ;;;
      g <- identifier_constant name ;;
      cret (OpGetGlobal, OpSetGlobal, g)
    end
  end.

(* named_variable(name, false): the Get instruction *)
Definition named_get (name : list byte) (l : N) : C unit :=
  r <- resolve_variable name l ;;
  let '(g, _, arg) := r in emit_variable_op g arg l.

(* ---------- functions ---------- *)
(* fn new_compiler *)
Definition new_compiler (k : fk) (name : list byte) : C unit :=
  fun s => COk (tt, mkS (new_comp k name) (s_cur s :: s_outer s) (s_classes s) (s_line s)).

(* fn emit_return *)
Definition emit_return (l : N) : C unit :=
  k <- cur ;;
  (if fk_eqb (k_kind k) KInitialiser then emit_op8 OpGetLocal 0%N l else emit_op OpNil l) ;;;
  cwhen (k_in_try k) (emit_op OpJumpFinally l) ;;;
  emit_op OpReturn l.

Definition func_of_comp (c : comp) : func :=
  MkFunc (k_arity c) (N.of_nat (length (k_upvalues c))) (k_name c) (k_code c) (k_consts c) (k_lines c).

(* fn finalise_compiler: emit_return, pop the compiler; the function and its upvalue descriptors *)
Definition finalise_compiler (l : N) : C (func * list (N * bool)) :=
  emit_return l ;;;
  fun s =>
    let c := s_cur s in
    match s_outer s with
    | e :: outer' => COk ((func_of_comp c, k_upvalues c), mkS e outer' (s_classes s) (s_line s))
    | [] => COk ((func_of_comp c, k_upvalues c), mkS (new_comp KScript []) [] (s_classes s) (s_line s))
    end.

Fixpoint emit_upvalues (us : list (N * bool)) (l : N) : C unit :=
  match us with
  | [] => cret tt
  | (i, il) :: r => emit_byte (if il then 1%N else 0%N) l ;;; emit_byte i l ;;; emit_upvalues r l
  end.

(* make_constant(function); emit_constant_op(Closure); the descriptors *)
Definition emit_closure (fu : func * list (N * bool)) (l : N) : C unit :=
  c <- make_constant (KFun (fst fu)) ;;
  emit_op16 OpClosure c l ;;;
  emit_upvalues (snd fu) l.

(* fn parameter_list (names already parsed) *)
Fixpoint cparams (ps : list name) (l : N) : C unit :=
  match ps with
  | [] => cret tt
  | x :: r =>
    upd (fun c => with_arity c (k_arity c + 1)%N) ;;;
    k <- cur ;;
    (if N.ltb 256%N (k_arity k) then cerr l "Cannot have more than 255 parameters." else cret tt) ;;;
    g <- parse_variable x l ;;
    define_variable g l ;;;
    cparams r l
  end.

(* fn function(kind) with the body given as an action *)
Definition with_function (k : fk) (fname : list byte) (ps : list name) (lbrace : N)
           (body : C unit) (lend : N) : C unit :=
  new_compiler k fname ;;;
  begin_scope ;;;
  cparams ps lbrace ;;;
  (if fk_eqb k KInitialiser
   then c <- cur ;; emit_op8 OpConstruct (N.modulo (k_arity c - 1) 256)%N lbrace
   else cret tt) ;;;
  body ;;;
  fu <- finalise_compiler lend ;;
  emit_closure fu lend.

(* fn initialiser: the default constructor of `#[constructor(name)] class ...` *)
Definition initialiser (name : list byte) (l : N) : C unit :=
  set_line l ;;;
  name_constant <- identifier_constant name ;;
  new_compiler KInitialiser name ;;;
  begin_scope ;;;
  emit_op8 OpConstruct 0%N l ;;;
  fu <- finalise_compiler l ;;
  c <- make_constant (KFun (fst fu)) ;;
  emit_op16 OpClosure c l ;;;
  emit_op16 OpStaticMethod name_constant l.

Definition lambda_name (n : N) : list byte := bs ("lambda-" ++ show_N n).

(* ---------- operators ---------- *)
Definition binop_ops (op : binop) : list opcode :=
  match op with
  | BNe => [OpEqual; OpLogicalNot]
  | BEq => [OpEqual]
  | BGt => [OpGreater]
  | BGe => [OpLess; OpLogicalNot]
  | BLt => [OpLess]
  | BLe => [OpGreater; OpLogicalNot]
  | BAdd => [OpAdd] | BSub => [OpSubtract] | BMul => [OpMultiply] | BDiv => [OpDivide]
  | BBitAnd => [OpBitwiseAnd] | BBitOr => [OpBitwiseOr] | BBitXor => [OpBitwiseXor]
  | BMod => [OpModulo] | BShl => [OpBitShiftLeft] | BShr => [OpBitShiftRight]
  end.
Definition is_compound_op (op : binop) : bool :=
  match op with BEq | BNe | BLt | BLe | BGt | BGe => false | _ => true end.
(* the table of fn binary_assign; the other operators have no `op=` token (`unreachable!()`) *)
Definition emit_compound (op : binop) (l : N) : C unit :=
  if is_compound_op op then emit_ops (binop_ops op) l
  else cerr l "model: not a compound assignment operator".
Definition unop_op (op : unop) : opcode :=
  match op with UNeg => OpNegate | UNot => OpLogicalNot | UBitNot => OpBitwiseNot end.

(* slot 0's name of the innermost compiler that has one (fn super_) *)
Fixpoint instance_local_name (comps : list comp) : list byte :=
  match comps with
  | [] => []
  | c :: r =>
    match kl_name (last (k_locals c) (mkKL [] None false)) with
    | [] => instance_local_name r
    | n => n
    end
  end.

Definition check_count (n : N) (l : N) (msg : string) : C unit :=
  if N.ltb 255%N n then cerr l msg else cret tt.

Definition in_class : C bool := fun s => COk (match s_classes s with [] => false | _ => true end, s).

Definition super_checks (l : N) : C unit :=
  s <- cget ;;
  match s_classes s with
  | [] => cerr l "Cannot use 'super' outside of a class."
  | false :: _ => cerr l "Cannot use 'super' in a class with no superclass."
  | true :: _ => cret tt
  end.

(* ---------- loops ---------- *)
(* Compiler::push_loop *)
Definition push_loop : C unit :=
  upd (fun c => with_loops c ((length (k_code c), k_scope c, k_try_depth c) :: k_loops c) ([] :: k_breaks c)).
(* Compiler::push_break *)
Definition push_break (pos : nat) : C unit :=
  upd (fun c => match k_breaks c with
                | b :: r => with_loops c (k_loops c) ((pos :: b) :: r)
                | [] => c
                end).
Fixpoint patch_jumps (ps : list nat) : C unit :=
  match ps with
  | [] => cret tt
  | p :: r => patch_jump p ;;; patch_jumps r
  end.
(* Compiler::pop_loop: break positions are patched in the order they were pushed *)
Definition pop_loop : C unit :=
  k <- cur ;;
  let bps := match k_breaks k with b :: _ => rev b | [] => [] end in
  upd (fun c => with_loops c (tl (k_loops c)) (tl (k_breaks c))) ;;;
  patch_jumps bps.

(* fn emit_exc_handler_pops *)
Definition emit_exc_handler_pops (try_depth : nat) (l : N) : C unit :=
  k <- cur ;;
  emit_ops (repeat OpPopExcHandler (k_try_depth k - try_depth)) l.

(* ------------------------------------------------------------------ *)
(* the compiler proper                                                  *)

Definition method_fk (k : method_kind) : fk :=
  match k with MInit => KInitialiser | MStatic => KStaticMethod | MMethod => KMethod end.

Fixpoint cexpr (e : lexpr) {struct e} : C unit :=
  match e with
  | LNil l => emit_op OpNil l
  | LTrue l => emit_op OpTrue l
  | LFalse l => emit_op OpFalse l
  | LNum l x => emit_constant (KNum x) l
  | LStr l s => emit_constant (KStr s) l
  | LInterp parts lend =>
    n <- cparts parts ;;
    check_count n lend "Cannot have more than 255 parts in an interpolated string." ;;;
    emit_op8 OpBuildString n lend
  | LVar l x => named_get x l
  | LSelf l =>
    ic <- in_class ;;
    if negb ic then cerr l "Cannot use 'self' outside of a class." else
    k <- cur ;;
    if fk_eqb (k_kind k) KStaticMethod then cerr l "Cannot use 'self' in a static method." else
    named_get (bs "self") l
  | LCapSelf l =>
    ic <- in_class ;;
    if negb ic then cerr l "Cannot use 'Self' outside of a class." else
    named_get (bs "Self") l ;;;
    emit_op OpGetClass l
  | LSuperGet m l =>
    super_checks l ;;;
    set_line l ;;;
    name <- identifier_constant m ;;
    s <- cget ;;
    named_get (instance_local_name (s_cur s :: s_outer s)) l ;;;
    named_get (bs "super") l ;;;
    emit_op16 OpGetSuper name l
  | LSuperCall m l args lclose =>
    super_checks l ;;;
    set_line l ;;;
    name <- identifier_constant m ;;
    s <- cget ;;
    named_get (instance_local_name (s_cur s :: s_outer s)) l ;;;
    n <- cargs args ;;
    check_count n lclose "Cannot have more than 255 arguments." ;;;
    named_get (bs "super") lclose ;;;
    emit_op16 OpSuperInvoke name lclose ;;;
    emit_byte n lclose
  | LAssign x e1 lend =>
    r <- resolve_variable x lend ;;
    let '(_, s_op, arg) := r in
    cexpr e1 ;;;
    emit_variable_op s_op arg lend
  | LCompound x op lop e1 lend =>
    r <- resolve_variable x lop ;;
    let '(g_op, s_op, arg) := r in
    emit_variable_op g_op arg lop ;;;
    cexpr e1 ;;;
    emit_compound op lend ;;;
    emit_variable_op s_op arg lend
  | LUnary op e1 lend => cexpr e1 ;;; emit_op (unop_op op) lend
  | LBinary op a b lend => cexpr a ;;; cexpr b ;;; emit_ops (binop_ops op) lend
  | LAnd a lop b =>
    cexpr a ;;;
    end_jump <- emit_jump OpJumpIfFalse lop ;;
    emit_op OpPop lop ;;;
    cexpr b ;;;
    patch_jump end_jump
  | LOr a lop b =>
    cexpr a ;;;
    else_jump <- emit_jump OpJumpIfFalse lop ;;
    end_jump <- emit_jump OpJump lop ;;
    patch_jump else_jump ;;;
    emit_op OpPop lop ;;;
    cexpr b ;;;
    patch_jump end_jump
  | LRange a b lend => cexpr a ;;; cexpr b ;;; emit_op OpBuildRange lend
  | LCall f args lclose =>
    cexpr f ;;;
    n <- cargs args ;;
    check_count n lclose "Cannot have more than 255 arguments." ;;;
    emit_op8 OpCall n lclose
  | LGet o m l =>
    cexpr o ;;;
    set_line l ;;;
    name <- identifier_constant m ;;
    emit_op16 OpGetProperty name l
  | LSet o m e1 lend =>
    cexpr o ;;;
    name <- identifier_constant m ;;
    cexpr e1 ;;;
    emit_op16 OpSetProperty name lend
  | LSetCompound o m op lop e1 lend =>
    cexpr o ;;;
    name <- identifier_constant m ;;
    emit_op OpCopyTop lop ;;;
    emit_op16 OpGetProperty name lop ;;;
    cexpr e1 ;;;
    emit_compound op lend ;;;
    emit_op16 OpSetProperty name lend
  | LInvoke o m args lclose =>
    cexpr o ;;;
    name <- identifier_constant m ;;
    n <- cargs args ;;
    check_count n lclose "Cannot have more than 255 arguments." ;;;
    emit_op16 OpInvoke name lclose ;;;
    emit_byte n lclose
  | LIndex o i lclose => cexpr o ;;; cexpr i ;;; emit_op OpGetItem lclose
  | LSetIndex o i e1 lend => cexpr o ;;; cexpr i ;;; cexpr e1 ;;; emit_op OpSetItem lend
  | LTuple es l =>
    n <- cargs es ;;
    check_count n l "Cannot have more than 255 Tuple elements." ;;;
    emit_op8 OpBuildTuple n l
  | LVec es l =>
    n <- cargs es ;;
    check_count n l "Cannot have more than 255 Vec elements." ;;;
    emit_op8 OpBuildVec n l
  | LMap kvs l =>
    n <- ckvs kvs ;;
    check_count n l "Cannot have more than 255 HashMap entries." ;;;
    emit_op8 OpBuildHashMap n l
  | LLambdaE ps body lend =>
    k <- cur ;;
    upd (fun c => with_lambdas c (k_lambdas c + 1)%N) ;;;
    new_compiler KFunction (lambda_name (k_lambdas k)) ;;;
    begin_scope ;;;
    cparams ps lend ;;;
    cexpr body ;;;
    emit_op OpReturn lend ;;;
    fu <- finalise_compiler lend ;;
    emit_closure fu lend
  | LLambdaB ps body lend =>
    k <- cur ;;
    upd (fun c => with_lambdas c (k_lambdas c + 1)%N) ;;;
    new_compiler KFunction (lambda_name (k_lambdas k)) ;;;
    begin_scope ;;;
    cparams ps lend ;;;
    cstmts body ;;;
    fu <- finalise_compiler lend ;;
    emit_closure fu lend
  end
(* fn argument_list: compiles the arguments, returns their number *)
with cargs (es : lexprs) {struct es} : C N :=
  match es with
  | LENil => cret 0%N
  | LECons e r => cexpr e ;;; n <- cargs r ;; cret (n + 1)%N
  end
(* the loop of fn interpolation: returns arg_count *)
with cparts (ps : lparts) {struct ps} : C N :=
  match ps with
  | LPNil => cret 0%N
  | LPStr l s r => emit_constant (KStr s) l ;;; n <- cparts r ;; cret (n + 1)%N
  | LPExpr e lend r => cexpr e ;;; emit_op OpFormatString lend ;;; n <- cparts r ;; cret (n + 1)%N
  end
with ckvs (kvs : lkvs) {struct kvs} : C N :=
  match kvs with
  | LKNil => cret 0%N
  | LKCons k v r => cexpr k ;;; cexpr v ;;; n <- ckvs r ;; cret (n + 1)%N
  end
with cstmt (st : lstmt) {struct st} : C unit :=
  match st with
  | LSExpr e l => cexpr e ;;; emit_op OpPop l
  | LSVar x lname lsemi =>
    set_line lname ;;;
    g <- parse_variable x lname ;;
    emit_op OpNil lname ;;;
    define_variable g lsemi
  | LSVarInit x e lsemi =>
    g <- parse_variable x lsemi ;;
    cexpr e ;;;
    define_variable g lsemi
  | LSFn f ps body lend =>
    g <- parse_variable f lend ;;
    mark_initialised ;;;
    with_function KFunction f ps lend (cstmts body) lend ;;;
    define_variable g lend
  | LSClass cname lname super ctor lbrace methods lend =>
    set_line lname ;;;
    name_constant <- identifier_constant cname ;;
    declare_variable cname lname ;;;
    emit_op16 OpDeclareClass name_constant lname ;;;
    define_variable name_constant lname ;;;
    s <- cget ;;
    set_classes (false :: s_classes s) ;;;
    (match super with
     | Some (sn, ls) =>
       named_get sn lname ;;;
       (if bytes_eqb cname sn then cerr lname "A class cannot inherit from itself." else cret tt) ;;;
       begin_scope ;;;
       ok <- add_local (bs "super") ;;
       (if ok then cret tt else cerr lname "Too many variables in function.") ;;;
       mark_initialised ;;;
       named_get cname lname ;;;
       emit_op OpInherit ls ;;;
       s <- cget ;;
       set_classes (true :: tl (s_classes s))
     | None => cret tt
     end) ;;;
    r <- resolve_variable cname lname ;;
    let '(_, set_op, arg) := r in
    named_get cname lname ;;;
    (match ctor with Some n => initialiser n lbrace | None => cret tt end) ;;;
    cmethods methods ;;;
    emit_op OpDefineClass lend ;;;
    emit_variable_op set_op arg lend ;;;
    emit_op OpPop lend ;;;
    s <- cget ;;
    (match s_classes s with true :: _ => end_scope lend | _ => cret tt end) ;;;
    s <- cget ;;
    set_classes (tl (s_classes s))
  | LSBlock b lend => begin_scope ;;; cstmts b ;;; end_scope lend
  | LSIf c lcond t lthen =>
    cexpr c ;;;
    then_jump <- emit_jump OpJumpIfFalse lcond ;;
    emit_op OpPop lcond ;;;
    begin_scope ;;; cstmts t ;;; end_scope lthen ;;;
    else_jump <- emit_jump OpJump lthen ;;
    patch_jump then_jump ;;;
    emit_op OpPop lthen ;;;
    patch_jump else_jump
  | LSIfElse c lcond t lthen e =>
    cexpr c ;;;
    then_jump <- emit_jump OpJumpIfFalse lcond ;;
    emit_op OpPop lcond ;;;
    begin_scope ;;; cstmts t ;;; end_scope lthen ;;;
    else_jump <- emit_jump OpJump lthen ;;
    patch_jump then_jump ;;;
    emit_op OpPop lthen ;;;
    cstmt e ;;;
    patch_jump else_jump
  | LSWhile c lcond b lend =>
    push_loop ;;;
    loop_start <- code_len ;;
    cexpr c ;;;
    exit_jump <- emit_jump OpJumpIfFalse lcond ;;
    emit_op OpPop lcond ;;;
    begin_scope ;;; cstmts b ;;; end_scope lend ;;;
    emit_loop loop_start lend ;;;
    patch_jump exit_jump ;;;
    emit_op OpPop lend ;;;
    pop_loop
  | LSFor x lx it lit b lend =>
    begin_scope ;;;
    declare_variable x lx ;;;
    k <- cur ;;
    let loop_var := length (k_locals k) - 1 in
    emit_op OpNil lx ;;;
    cexpr it ;;;
    mark_initialised_slot loop_var ;;;
    ok <- add_local (bs "... temp-iter-var ...") ;;
    (if ok then cret tt else cerr lit "Too many variables in function.") ;;;
    set_line lit ;;;
    iter_name <- identifier_constant (bs "iter") ;;
    emit_op16 OpInvoke iter_name lit ;;;
    emit_byte 0%N lit ;;;
    mark_initialised ;;;
    push_loop ;;;
    loop_start <- code_len ;;
    emit_op OpIterNext lit ;;;
    emit_op8 OpSetLocal (N.modulo (N.of_nat loop_var) 256%N) lit ;;;
    exit_jump <- emit_jump OpJumpIfStopIter lit ;;
    emit_op OpPop lit ;;;
    begin_scope ;;; cstmts b ;;; end_scope lend ;;;
    emit_loop loop_start lend ;;;
    patch_jump exit_jump ;;;
    emit_op OpPop lend ;;;
    pop_loop ;;;
    end_scope lend
  | LSReturn l =>
    k <- cur ;;
    (if fk_eqb (k_kind k) KScript then cerr l "Cannot return from top-level code." else cret tt) ;;;
    emit_return l
  | LSReturnE e l =>
    k <- cur ;;
    (if fk_eqb (k_kind k) KScript then cerr l "Cannot return from top-level code." else cret tt) ;;;
    (if fk_eqb (k_kind k) KInitialiser then cerr l "Cannot return a value from an initialiser." else cret tt) ;;;
    cexpr e ;;;
    k <- cur ;;
    cwhen (k_in_try k) (emit_op OpJumpFinally l) ;;;
    emit_op OpReturn l
  | LSBreak l =>
    k <- cur ;;
    match k_loops k with
    | [] => cerr l "Cannot use 'break' statement outside of loop body."
    | (_, scope_depth, try_depth) :: _ =>
      emit_exc_handler_pops try_depth l ;;;
      emit_scope_end false scope_depth l ;;;
      break_pos <- emit_jump OpJump l ;;
      push_break break_pos
    end
  | LSContinue l =>
    k <- cur ;;
    match k_loops k with
    | [] => cerr l "Cannot use 'continue' statement outside of loop body."
    | (jump_target, scope_depth, try_depth) :: _ =>
      emit_exc_handler_pops try_depth l ;;;
      emit_scope_end false scope_depth l ;;;
      emit_loop jump_target l
    end
  | LSThrow e l => cexpr e ;;; emit_op OpThrow l
  | LSTryC ltry b lb x cb lc =>
    k <- cur ;;
    let prev_in_try := k_in_try k in
    upd (fun c => with_try c true (S (k_try_depth c))) ;;;
    emit_op OpPushExcHandler ltry ;;;
    handler_pos <- code_len ;;
    emit_byte 255%N ltry ;;; emit_byte 255%N ltry ;;; emit_byte 255%N ltry ;;; emit_byte 255%N ltry ;;;
    post_pos <- code_len ;;
    begin_scope ;;; cstmts b ;;; end_scope lb ;;;
    upd (fun c => with_try c prev_in_try (pred (k_try_depth c))) ;;;
    emit_op OpPopExcHandler lb ;;;
    catch_jump <- emit_jump OpJump lb ;;
    patch_offset_at handler_pos post_pos ;;;
    catch_start <- code_len ;;
    begin_scope ;;;
    declare_variable x lb ;;;
    mark_initialised ;;;
    cstmts cb ;;;
    end_scope lc ;;;
    patch_jump catch_jump ;;;
    patch_offset_at (handler_pos + 2) catch_start
  | LSTryF ltry b lb fb lf =>
    k <- cur ;;
    let prev_in_try := k_in_try k in
    upd (fun c => with_try c true (S (k_try_depth c))) ;;;
    emit_op OpPushExcHandler ltry ;;;
    handler_pos <- code_len ;;
    emit_byte 255%N ltry ;;; emit_byte 255%N ltry ;;; emit_byte 255%N ltry ;;; emit_byte 255%N ltry ;;;
    post_pos <- code_len ;;
    begin_scope ;;; cstmts b ;;; end_scope lb ;;;
    upd (fun c => with_try c prev_in_try (pred (k_try_depth c))) ;;;
    emit_op OpPopExcHandler lb ;;;
    catch_jump <- emit_jump OpJump lb ;;
    patch_offset_at handler_pos post_pos ;;;
    catch_start <- code_len ;;
    patch_jump catch_jump ;;;
    patch_offset_at (handler_pos + 2) catch_start ;;;
    begin_scope ;;; cstmts fb ;;; end_scope lf ;;;
    emit_op OpEndFinally lf
  | LSTryCF ltry b lb x cb lc fb lf =>
    k <- cur ;;
    let prev_in_try := k_in_try k in
    upd (fun c => with_try c true (S (k_try_depth c))) ;;;
    emit_op OpPushExcHandler ltry ;;;
    handler_pos <- code_len ;;
    emit_byte 255%N ltry ;;; emit_byte 255%N ltry ;;; emit_byte 255%N ltry ;;; emit_byte 255%N ltry ;;;
    post_pos <- code_len ;;
    begin_scope ;;; cstmts b ;;; end_scope lb ;;;
    upd (fun c => with_try c prev_in_try (pred (k_try_depth c))) ;;;
    emit_op OpPopExcHandler lb ;;;
    catch_jump <- emit_jump OpJump lb ;;
    patch_offset_at handler_pos post_pos ;;;
    catch_start <- code_len ;;
    begin_scope ;;;
    declare_variable x lb ;;;
    mark_initialised ;;;
    cstmts cb ;;;
    end_scope lc ;;;
    patch_jump catch_jump ;;;
    patch_offset_at (handler_pos + 2) catch_start ;;;
    begin_scope ;;; cstmts fb ;;; end_scope lf ;;;
    emit_op OpEndFinally lf
  | LSImport path alias lalias lsemi =>
    (if bytes_eqb path (bs "main") then cerr lalias "Cannot import top-level module." else cret tt) ;;;
    set_line lalias ;;;
    path_constant <- identifier_constant path ;;
    declare_variable alias lalias ;;;
    emit_op16 OpStartImport path_constant lalias ;;;
    emit_op OpFinishImport lsemi ;;;
    name_constant <- identifier_constant alias ;;
    define_variable name_constant lsemi
  end
(* fn block / the loop of fn parse *)
with cstmts (l : lstmts) {struct l} : C unit :=
  match l with
  | LSNil => cret tt
  | LSCons s r => cstmt s ;;; cstmts r
  end
(* the loop over fn method *)
with cmethods (ms : lmethods) {struct ms} : C unit :=
  match ms with
  | LMNil => cret tt
  | LMCons kind m ps lbrace body lend r =>
    constant <- identifier_constant m ;;
    with_function (method_fk kind) m ps lbrace (cstmts body) lend ;;;
    emit_op16 (match kind with MMethod => OpMethod | _ => OpStaticMethod end) constant lend ;;;
    cmethods r
  end.

(* Parser::new + fn parse *)
Definition init_state : cstate := mkS (new_comp KScript []) [] [] 0%N.

Definition compile_program (p : lprogram) : cres func :=
  match (cstmts (fst p) ;;; finalise_compiler (snd p)) init_state with
  | COk ((f, _), _) => COk f
  | CErr l msg => CErr l msg
  end.
