(* FullCompileFnA: static stack heights of the code FullCompile emits (deliverable 3 of FullCompile-WF).

   Ghost = list of annotated instructions parallel to the code of the CURRENT compiler; per-instruction
   obligations are stated through Skeleton.simple_effect (the VM's effect table) and the non-simple opcodes
   of Skeleton.step_at; the Hoare triples thread the ghost through every emit function with EXACT prefix
   preservation.  See notes/FullCompileFnA.md. *)
From Coq Require Import Strings.Byte Strings.String.
From Coq Require Import List NArith ZArith Bool Arith Lia.
From Coq Require Import Floats.SpecFloat.
From YV Require Import Show Utf8 Num Ast Bytecode Skeleton VerifierProofs ParseLoc FullCompile FullCompileProofs.
Import ListNotations.
Local Open Scope nat_scope.
Local Open Scope list_scope.
Local Open Scope comp_scope.

(* ================================================================== *)
(* 1. ghost instructions                                                *)
Record ginstr := mkG {
  g_op : opcode; g_a : N; g_b : N; g_uvs : list (N * bool);
  g_h : N;            (* height BEFORE the instruction *)
  g_hole : bool       (* forward jump whose operand is not patched yet *)
}.

Definition lo8 (n : N) : N := N.modulo n 256%N.
Definition hi8 (n : N) : N := N.div n 256%N.

Definition enc_uvs (us : list (N * bool)) : list N :=
  flat_map (fun u : N * bool => [if snd u then 1%N else 0%N; fst u]) us.

Definition enc (gi : ginstr) : list N :=
  N_of_opcode (g_op gi) ::
  match layout_of (g_op gi) with
  | L0 => []
  | L8 => [g_a gi]
  | L16 => [lo8 (g_a gi); hi8 (g_a gi)]
  | L16_16 => [lo8 (g_a gi); hi8 (g_a gi); lo8 (g_b gi); hi8 (g_b gi)]
  | L16_8 => [lo8 (g_a gi); hi8 (g_a gi); g_b gi]
  | LClosure => lo8 (g_a gi) :: hi8 (g_a gi) :: enc_uvs (g_uvs gi)
  end.

Definition glen (gi : ginstr) : nat := length (enc gi).
Definition flat (g : list ginstr) : list N := flat_map enc g.
Definition flen (g : list ginstr) : nat := length (flat g).

Lemma glen_pos gi : 1 <= glen gi.
Proof. unfold glen, enc. simpl. lia. Qed.

Lemma flat_app g g' : flat (g ++ g') = flat g ++ flat g'.
Proof. unfold flat. apply flat_map_app. Qed.
Lemma flen_app g g' : flen (g ++ g') = flen g + flen g'.
Proof. unfold flen. rewrite flat_app, app_length. reflexivity. Qed.
Lemma flen_cons gi g : flen (gi :: g) = glen gi + flen g.
Proof. unfold flen, flat, glen. simpl. rewrite app_length. reflexivity. Qed.
Lemma flen_one gi : flen [gi] = glen gi.
Proof. rewrite flen_cons. unfold flen, flat. cbn [flat_map length]. lia. Qed.

(* position -> height: instruction starts |-> pre-height, end of code |-> H *)
Fixpoint hat (g : list ginstr) (H : N) (p : nat) : option N :=
  match g with
  | [] => if Nat.eqb p 0 then Some H else None
  | gi :: r => if Nat.eqb p 0 then Some (g_h gi)
               else if Nat.ltb p (glen gi) then None else hat r H (p - glen gi)
  end.

Definition hdh (g : list ginstr) (H : N) : N := match g with [] => H | gi :: _ => g_h gi end.

Lemma hat_0 g H : hat g H 0 = Some (hdh g H).
Proof. destruct g; reflexivity. Qed.

Lemma hat_app_lt g g' H H' p : p < flen g -> hat (g ++ g') H' p = hat g H p.
Proof.
  revert p. induction g as [|gi r IH]; intros p Hp.
  - unfold flen in Hp. simpl in Hp. lia.
  - rewrite flen_cons in Hp. simpl.
    destruct (Nat.eqb p 0); auto. destruct (Nat.ltb p (glen gi)) eqn:E; auto.
    apply Nat.ltb_ge in E. apply IH. lia.
Qed.

Lemma hat_app_ge g g' H' p : flen g <= p -> hat (g ++ g') H' p = hat g' H' (p - flen g).
Proof.
  revert p. induction g as [|gi r IH]; intros p Hp.
  - simpl. unfold flen; simpl. rewrite Nat.sub_0_r. reflexivity.
  - rewrite flen_cons in Hp. pose proof (glen_pos gi). simpl.
    destruct (Nat.eqb p 0) eqn:E0. apply Nat.eqb_eq in E0. lia.
    destruct (Nat.ltb p (glen gi)) eqn:E. apply Nat.ltb_lt in E. lia.
    rewrite IH by lia. rewrite flen_cons. f_equal. lia.
Qed.

Lemma hat_end g H : hat g H (flen g) = Some H.
Proof.
  replace g with (g ++ []) at 1 by apply app_nil_r.
  rewrite hat_app_ge by lia. rewrite Nat.sub_diag. reflexivity.
Qed.

Lemma hat_some_le g H p x : hat g H p = Some x -> p <= flen g.
Proof.
  revert p. induction g as [|gi r IH]; simpl; intros p Hp.
  - destruct (Nat.eqb p 0) eqn:E; [|discriminate]. apply Nat.eqb_eq in E. lia.
  - rewrite flen_cons. destruct (Nat.eqb p 0) eqn:E. apply Nat.eqb_eq in E. lia.
    destruct (Nat.ltb p (glen gi)) eqn:E2; [discriminate|]. apply Nat.ltb_ge in E2.
    apply IH in Hp. lia.
Qed.

Definition Lext (L L' : nat -> option N) : Prop := forall p x, L p = Some x -> L' p = Some x.
Lemma Lext_refl L : Lext L L. Proof. intros p x; auto. Qed.
Lemma Lext_trans L1 L2 L3 : Lext L1 L2 -> Lext L2 L3 -> Lext L1 L3.
Proof. intros A B p x Hp; auto. Qed.

Lemma Lext_app g g' H H' : hdh g' H' = H -> Lext (hat g H) (hat (g ++ g') H').
Proof.
  intros Hh p x Hp. destruct (Nat.lt_ge_cases p (flen g)) as [Hl|Hge].
  - rewrite (hat_app_lt g g' H H') by auto. auto.
  - pose proof (hat_some_le _ _ _ _ Hp). assert (p = flen g) by lia. subst p.
    rewrite hat_end in Hp. inversion Hp; subst x.
    rewrite hat_app_ge by lia. rewrite Nat.sub_diag, hat_0. congruence.
Qed.

(* ================================================================== *)
(* 2. per-instruction obligations                                      *)
Definition fn0 (ar nup : N) : fn := mkFn [] [] ar nup.
Definition gi_instr (gi : ginstr) : instr := mkInstr (g_op gi) (g_a gi) (g_b gi) [].

Definition kconst_ok (ks : list const) (rq : creq) (a : N) : Prop :=
  match rq with
  | CNone => True
  | CNotFunc => exists k, nth_error ks (N.to_nat a) = Some k /\ (forall f, k <> KFun f)
  | CString => exists s, nth_error ks (N.to_nat a) = Some (KStr s)
  end.

Definition iok (L : nat -> option N) (ks : list const) (nup ar : N) (p : nat) (gi : ginstr) : Prop :=
  let hh := g_h gi in
  let nx := p + glen gi in
  (hh <= STACK_MAX)%N /\
  match simple_effect (fn0 ar nup) (gi_instr gi) hh with
  | Some e =>
    g_hole gi = false /\ e_chk e = None /\ kconst_ok ks (e_const e) (g_a gi) /\
    (e_need e <= hh)%N /\ L nx = Some (hh - e_pops e + e_push e)%N
  | None =>
    match g_op gi with
    | OpJump => g_hole gi = true \/ L (nx + N.to_nat (g_a gi)) = Some hh
    | OpJumpIfFalse | OpJumpIfStopIter =>
      hh <> 0%N /\ L nx = Some hh /\ (g_hole gi = true \/ L (nx + N.to_nat (g_a gi)) = Some hh)
    | OpLoop => g_hole gi = false /\ N.to_nat (g_a gi) <= nx /\ L (nx - N.to_nat (g_a gi)) = Some hh
    | OpThrow | OpReturn => g_hole gi = false /\ hh <> 0%N
    | OpCloseUpvalue => g_hole gi = false /\ (ar < hh)%N /\ L nx = Some (hh - 1)%N
    | OpClosure =>
      g_hole gi = false /\
      (exists fn, nth_error ks (N.to_nat (g_a gi)) = Some (KFun fn) /\ f_upvalues fn = N.of_nat (length (g_uvs gi))) /\
      L nx = Some (hh + 1)%N
    | _ => False
    end
  end.

Lemma kconst_ok_app ks more rq a : kconst_ok ks rq a -> kconst_ok (ks ++ more) rq a.
Proof.
  destruct rq; simpl; auto.
  - intros (k & Hk & Hn). exists k. split; auto. rewrite nth_error_app1; auto.
    apply nth_error_Some. congruence.
  - intros (s & Hs). exists s. rewrite nth_error_app1; auto. apply nth_error_Some. congruence.
Qed.

(* simple_effect depends on the function record only through arity and upvalue_count, and on the upvalue
   count only through the range check of GetUpvalue / SetUpvalue *)
Lemma simple_effect_fn0 f i hh : simple_effect f i hh = simple_effect (fn0 (arity f) (upvalue_count f)) i hh.
Proof. unfold simple_effect. destruct (iop i); reflexivity. Qed.

Lemma simple_effect_nup ar nup nup' i hh : (nup <= nup')%N ->
  match simple_effect (fn0 ar nup) i hh, simple_effect (fn0 ar nup') i hh with
  | Some e, Some e' =>
    e_const e' = e_const e /\ e_need e' = e_need e /\ e_pops e' = e_pops e /\ e_push e' = e_push e /\
    (e_chk e = None -> e_chk e' = None)
  | None, None => True
  | _, _ => False
  end.
Proof.
  intros Hn. unfold simple_effect. destruct (iop i); simpl; auto 10.
  - repeat split; auto. unfold chk. destruct (N.ltb_spec (ia i) nup); [|discriminate].
    intros _. destruct (N.ltb_spec (ia i) nup'); auto. lia.
  - repeat split; auto. unfold chk. destruct (N.ltb_spec (ia i) nup); [|discriminate].
    intros _. destruct (N.ltb_spec (ia i) nup'); auto. lia.
Qed.

Lemma iok_mono L L' ks more nup nup' ar p gi :
  Lext L L' -> (nup <= nup')%N -> iok L ks nup ar p gi -> iok L' (ks ++ more) nup' ar p gi.
Proof.
  intros HL Hn [Hmax H]. split; auto.
  pose proof (simple_effect_nup ar nup nup' (gi_instr gi) (g_h gi) Hn) as Hse.
  destruct (simple_effect (fn0 ar nup) (gi_instr gi) (g_h gi)) as [e|],
           (simple_effect (fn0 ar nup') (gi_instr gi) (g_h gi)) as [e'|]; try contradiction.
  - destruct Hse as (Hc & Hnd & Hpo & Hpu & Hchk). destruct H as (A & B & C0 & D & E).
    rewrite Hc, Hnd, Hpo, Hpu. repeat split; auto. apply kconst_ok_app; auto.
  - destruct (g_op gi); auto.
    + destruct H; auto.
    + destruct H as (A & B & [C0|C0]); auto.
    + destruct H as (A & B & [C0|C0]); auto.
    + destruct H as (A & B & C0); auto.
    + destruct H as (A & (fn & B1 & B2) & C0). repeat split; auto. exists fn. split; auto.
      rewrite nth_error_app1; auto. apply nth_error_Some. congruence.
    + destruct H as (A & B & C0); auto.
Qed.

(* every instruction of the ghost meets its obligation w.r.t. the ghost's own position -> height map *)
Definition gok (ks : list const) (nup ar : N) (g : list ginstr) (H : N) : Prop :=
  forall g1 gi g2, g = g1 ++ gi :: g2 -> iok (hat g H) ks nup ar (flen g1) gi.

Lemma gok_nil ks nup ar H : gok ks nup ar [] H.
Proof. intros g1 gi g2 E. destruct g1; discriminate. Qed.

Lemma gok_mono ks more nup nup' ar g H : (nup <= nup')%N -> gok ks nup ar g H -> gok (ks ++ more) nup' ar g H.
Proof. intros Hn Hg g1 gi g2 E. eapply iok_mono; eauto. apply Lext_refl. Qed.

Lemma app_snoc_inv {A} (g g1 g2 : list A) x y :
  g ++ [x] = g1 ++ y :: g2 -> (g1 = g /\ y = x /\ g2 = []) \/ (exists g2', g2 = g2' ++ [x] /\ g = g1 ++ y :: g2').
Proof.
  revert g1. induction g as [|a g IH]; intros g1 E.
  - destruct g1 as [|b g1]; simpl in E.
    + inversion E; subst. left; auto.
    + inversion E. destruct g1; discriminate.
  - destruct g1 as [|b g1]; simpl in E.
    + inversion E; subst. right. exists g. auto.
    + inversion E; subst. destruct (IH _ H1) as [(A1 & A2 & A3)|(g2' & A1 & A2)].
      * left. subst. auto.
      * right. exists g2'. subst. auto.
Qed.

Lemma gok_snoc ks nup ar g H gi H' :
  gok ks nup ar g H -> g_h gi = H ->
  iok (hat (g ++ [gi]) H') ks nup ar (flen g) gi ->
  gok ks nup ar (g ++ [gi]) H'.
Proof.
  intros Hg Hh Hi g1 y g2 E. apply app_snoc_inv in E. destruct E as [(-> & -> & ->)|(g2' & -> & ->)].
  - exact Hi.
  - replace ks with (ks ++ []) by apply app_nil_r.
    eapply iok_mono; [| apply N.le_refl | eapply Hg; reflexivity].
    apply Lext_app. exact Hh.
Qed.

(* replacing an instruction by one of the same length and pre-height leaves the map unchanged *)
Lemma hat_replace g1 gi gi' g2 H p : glen gi' = glen gi -> g_h gi' = g_h gi ->
  hat (g1 ++ gi' :: g2) H p = hat (g1 ++ gi :: g2) H p.
Proof.
  intros Hl Hh. revert p. induction g1 as [|a r IH]; intros p; simpl.
  - rewrite Hl, Hh. reflexivity.
  - rewrite IH. reflexivity.
Qed.
Lemma flen_replace g1 gi gi' g2 : glen gi' = glen gi -> flen (g1 ++ gi' :: g2) = flen (g1 ++ gi :: g2).
Proof. intros. rewrite !flen_app, !flen_cons. lia. Qed.

Lemma app_cons_inv {A} (g1 g2 h1 h2 : list A) x y :
  g1 ++ x :: g2 = h1 ++ y :: h2 ->
  (h1 = g1 /\ y = x /\ h2 = g2) \/
  (exists m, h1 = g1 ++ x :: m /\ g2 = m ++ y :: h2) \/
  (exists m, g1 = h1 ++ y :: m /\ h2 = m ++ x :: g2).
Proof.
  revert h1. induction g1 as [|a g1 IH]; intros h1 E; simpl in E.
  - destruct h1 as [|b h1]; simpl in E; inversion E; subst.
    + left; auto.
    + right; left. exists h1. auto.
  - destruct h1 as [|b h1]; simpl in E; inversion E; subst.
    + right; right. exists g1. auto.
    + destruct (IH _ H1) as [(A1 & A2 & A3)|[(m & A1 & A2)|(m & A1 & A2)]].
      * left. subst; auto.
      * right; left. exists m. subst; auto.
      * right; right. exists m. subst; auto.
Qed.

Lemma gok_replace ks nup ar g1 gi gi' g2 H :
  gok ks nup ar (g1 ++ gi :: g2) H -> glen gi' = glen gi -> g_h gi' = g_h gi ->
  iok (hat (g1 ++ gi :: g2) H) ks nup ar (flen g1) gi' ->
  gok ks nup ar (g1 ++ gi' :: g2) H.
Proof.
  intros Hg Hl Hh Hi h1 y h2 E.
  assert (HL : forall p, hat (g1 ++ gi' :: g2) H p = hat (g1 ++ gi :: g2) H p)
    by (intros; apply hat_replace; auto).
  assert (X : forall q z, iok (hat (g1 ++ gi :: g2) H) ks nup ar q z ->
                          iok (hat (g1 ++ gi' :: g2) H) ks nup ar q z).
  { intros q z Hz. replace ks with (ks ++ []) by apply app_nil_r.
    eapply iok_mono; [| apply N.le_refl | exact Hz]. intros p x Hp. rewrite HL. exact Hp. }
  apply app_cons_inv in E. destruct E as [(-> & -> & ->)|[(m & -> & ->)|(m & -> & ->)]].
  - apply X. exact Hi.
  - apply X. rewrite (flen_replace g1 gi gi' m Hl).
    apply (Hg (g1 ++ gi :: m) y h2). rewrite <- app_assoc. reflexivity.
  - apply X. apply (Hg h1 y (m ++ gi :: g2)). rewrite <- app_assoc. reflexivity.
Qed.

Definition noholes (g : list ginstr) : Prop := Forall (fun gi => g_hole gi = false) g.
Lemma noholes_app g g' : noholes g -> noholes g' -> noholes (g ++ g').
Proof. intros. apply Forall_app; auto. Qed.
Lemma noholes_nil : noholes []. Proof. constructor. Qed.
Lemma noholes_one gi : g_hole gi = false -> noholes [gi]. Proof. repeat constructor; auto. Qed.
#[export] Hint Resolve noholes_app noholes_nil noholes_one : ht.

(* ================================================================== *)
(* 3. the compiler-state invariant and the frame                        *)
Definition nupN (c : comp) : N := N.of_nat (length (k_upvalues c)).

Record CInv (c : comp) (g : list ginstr) (H : N) : Prop := mkCInv {
  ci_code : k_code c = flat g;
  ci_ok : gok (k_consts c) (nupN c) (k_arity c) g H
}.

Definition lkey (l : klocal) : list byte * option nat := (kl_name l, kl_depth l).

(* what expression code never changes in the current compiler *)
Record cframe (c c' : comp) : Prop := mkFr {
  fr_kind : k_kind c' = k_kind c;
  fr_arity : k_arity c' = k_arity c;
  fr_locals : map lkey (k_locals c') = map lkey (k_locals c);
  fr_scope : k_scope c' = k_scope c;
  fr_try : k_in_try c' = k_in_try c;
  fr_tryd : k_try_depth c' = k_try_depth c;
  fr_loops : k_loops c' = k_loops c;
  fr_breaks : k_breaks c' = k_breaks c
}.
Lemma cframe_refl c : cframe c c. Proof. constructor; reflexivity. Qed.
Lemma cframe_trans a b c : cframe a b -> cframe b c -> cframe a c.
Proof. intros [] []; constructor; congruence. Qed.

(* growth of the tables *)
Record cgrow (c c' : comp) : Prop := mkGr {
  gr_consts : exists more, k_consts c' = k_consts c ++ more;
  gr_ups : (nupN c <= nupN c')%N;
  gr_nf : forall i h, nth_error (k_consts c') i = Some (KFun h) -> nth_error (k_consts c) i = Some (KFun h)
}.
Lemma cgrow_refl c : cgrow c c.
Proof. constructor. exists []. rewrite app_nil_r; auto. lia. auto. Qed.
Lemma cgrow_trans a b c : cgrow a b -> cgrow b c -> cgrow a c.
Proof.
  intros [[m1 E1] U1 N1] [[m2 E2] U2 N2]. constructor. exists (m1 ++ m2). rewrite E2, E1, app_assoc; auto. lia. auto.
Qed.

(* the result of a piece of compilation that appends g' *)
Record post (c : comp) (g : list ginstr) (H : N) (c' : comp) (g' : list ginstr) (H' : N) : Prop := mkPost {
  po_inv : CInv c' (g ++ g') H';
  po_ext : Lext (hat g H) (hat (g ++ g') H');
  po_fr : cframe c c';
  po_gr : cgrow c c'
}.

Lemma CInv_grow c c' g H : CInv c g H -> cgrow c c' -> k_code c' = k_code c -> k_arity c' = k_arity c -> CInv c' g H.
Proof.
  intros [Hc Hg] [[more Em] Hu] Ec Ea. constructor. congruence.
  rewrite Em, Ea. eapply gok_mono; eauto.
Qed.

Lemma post_refl c g H : CInv c g H -> post c g H c [] H.
Proof.
  intros. constructor; try rewrite app_nil_r; auto using Lext_refl, cframe_refl, cgrow_refl.
Qed.

Lemma post_trans c g H c1 g1 H1 c2 g2 H2 :
  post c g H c1 g1 H1 -> post c1 (g ++ g1) H1 c2 g2 H2 -> post c g H c2 (g1 ++ g2) H2.
Proof.
  intros [A1 A2 A3 A4] [B1 B2 B3 B4]. constructor.
  - rewrite app_assoc. auto.
  - rewrite app_assoc. eapply Lext_trans; eauto.
  - eapply cframe_trans; eauto.
  - eapply cgrow_trans; eauto.
Qed.

Lemma post_eqH c g H c' g' H' H'' : post c g H c' g' H' -> H' = H'' -> post c g H c' g' H''.
Proof. intros; subst; auto. Qed.

(* a state transition that only changes tables / bookkeeping of the current compiler *)
Lemma post_quiet c g H c' :
  CInv c g H -> cframe c c' -> cgrow c c' -> k_code c' = k_code c -> post c g H c' [] H.
Proof.
  intros Hi Hf Hg Hc. constructor; try rewrite app_nil_r; auto using Lext_refl.
  eapply CInv_grow; eauto. apply Hf.
Qed.

(* ================================================================== *)
(* 4. weakest-precondition style reasoning about the compiler monad     *)
Definition wp {A} (m : C A) (s : cstate) (Q : A -> cstate -> Prop) : Prop :=
  forall a s', m s = COk (a, s') -> Q a s'.

Lemma wp_bind {A B} (m : C A) (k : A -> C B) s (Q : B -> cstate -> Prop) :
  wp m s (fun a s1 => wp (k a) s1 Q) -> wp (cbind m k) s Q.
Proof.
  intros Hm b s' H. unfold cbind in H. destruct (m s) as [[a s1]|] eqn:E; [|discriminate].
  exact (Hm _ _ E _ _ H).
Qed.
Lemma wp_ret {A} (a : A) s (Q : A -> cstate -> Prop) : Q a s -> wp (cret a) s Q.
Proof. intros HQ a' s' H. inversion H; subst; auto. Qed.
Lemma wp_err {A} l msg s (Q : A -> cstate -> Prop) : wp (cerr l msg) s Q.
Proof. intros a s' H. discriminate. Qed.
Lemma wp_err_here {A} msg s (Q : A -> cstate -> Prop) : wp (cerr_here msg) s Q.
Proof. intros a s' H. discriminate. Qed.
Lemma wp_cur s (Q : comp -> cstate -> Prop) : Q (s_cur s) s -> wp cur s Q.
Proof. intros HQ a s' H. inversion H; subst; auto. Qed.
Lemma wp_cget s (Q : cstate -> cstate -> Prop) : Q s s -> wp cget s Q.
Proof. intros HQ a s' H. inversion H; subst; auto. Qed.
Lemma wp_code_len s (Q : nat -> cstate -> Prop) : Q (length (k_code (s_cur s))) s -> wp code_len s Q.
Proof. intros HQ a s' H. inversion H; subst; auto. Qed.
Lemma wp_in_class s (Q : bool -> cstate -> Prop) : Q (match s_classes s with [] => false | _ => true end) s -> wp in_class s Q.
Proof. intros HQ a s' H. inversion H; subst; auto. Qed.
Lemma wp_set_line l s (Q : unit -> cstate -> Prop) :
  (forall s', s_cur s' = s_cur s -> s_outer s' = s_outer s -> s_classes s' = s_classes s -> Q tt s') -> wp (set_line l) s Q.
Proof. intros HQ a s' H. inversion H; subst. apply HQ; reflexivity. Qed.
Lemma wp_conseq {A} (m : C A) s (Q Q' : A -> cstate -> Prop) :
  wp m s Q -> (forall a s', Q a s' -> Q' a s') -> wp m s Q'.
Proof. intros H HQ a s' E. auto. Qed.

(* ---------- emission of raw bytes ---------- *)
Definition emitted (bs : list N) (s s' : cstate) : Prop :=
  (exists lines', s_cur s' = with_code (s_cur s) (k_code (s_cur s) ++ bs) lines') /\
  s_outer s' = s_outer s /\ s_classes s' = s_classes s.

Definition emits {A} (m : C A) (bs : list N) : Prop := forall s a s', m s = COk (a, s') -> emitted bs s s'.

Lemma emits_byte b l : emits (emit_byte b l) [b].
Proof.
  intros s a s' H. unfold emit_byte, cbind, upd, set_line in H. inversion H; subst; clear H.
  split; [|split]; try reflexivity. eexists. reflexivity.
Qed.
Lemma emits_op o l : emits (emit_op o l) [N_of_opcode o].
Proof. apply emits_byte. Qed.

Lemma emits_bind {A B} (m1 : C A) (m2 : A -> C B) b1 b2 :
  emits m1 b1 -> (forall a, emits (m2 a) b2) -> emits (cbind m1 m2) (b1 ++ b2).
Proof.
  intros H1 H2 s a s' H. unfold cbind in H. destruct (m1 s) as [[x s1]|] eqn:E; [|discriminate].
  destruct (H1 _ _ _ E) as ([l1 E1] & O1 & C1). destruct (H2 _ _ _ _ H) as ([l2 E2] & O2 & C2).
  split; [|split]; try congruence. exists l2. rewrite E2, E1. unfold with_code; simpl.
  rewrite app_assoc. reflexivity.
Qed.
Lemma emits_op8 o n l : emits (emit_op8 o n l) [N_of_opcode o; n].
Proof. unfold emit_op8. apply (emits_bind _ _ [_] [_]). apply emits_op. intros; apply emits_byte. Qed.
Lemma emits_u16 n l : emits (emit_u16 n l) [lo8 n; hi8 n].
Proof. unfold emit_u16. apply (emits_bind _ _ [_] [_]). apply emits_byte. intros; apply emits_byte. Qed.
Lemma emits_op16 o n l : emits (emit_op16 o n l) [N_of_opcode o; lo8 n; hi8 n].
Proof. unfold emit_op16. apply (emits_bind _ _ [_] [_; _]). apply emits_op. intros; apply emits_u16. Qed.
Lemma emits_op16_8 o n b l : emits (emit_op16 o n l ;;; emit_byte b l) [N_of_opcode o; lo8 n; hi8 n; b].
Proof. apply (emits_bind _ _ [_; _; _] [_]). apply emits_op16. intros; apply emits_byte. Qed.

Lemma emitted_facts bs s s' : emitted bs s s' ->
  k_code (s_cur s') = k_code (s_cur s) ++ bs /\ k_consts (s_cur s') = k_consts (s_cur s) /\
  k_upvalues (s_cur s') = k_upvalues (s_cur s) /\ k_locals (s_cur s') = k_locals (s_cur s) /\
  cframe (s_cur s) (s_cur s') /\ cgrow (s_cur s) (s_cur s').
Proof.
  intros ([l E] & _ & _). rewrite E. simpl. repeat split; auto.
  exists []. rewrite app_nil_r. reflexivity. unfold nupN. simpl. lia.
Qed.

Lemma hat_snoc_end G gi H' : hat (G ++ [gi]) H' (flen G + glen gi) = Some H'.
Proof. rewrite <- flen_one, <- flen_app. apply hat_end. Qed.

(* appending ONE instruction *)
Lemma emit_post s s' g H gi H' :
  emitted (enc gi) s s' -> CInv (s_cur s) g H -> g_h gi = H ->
  iok (hat (g ++ [gi]) H') (k_consts (s_cur s)) (nupN (s_cur s)) (k_arity (s_cur s)) (flen g) gi ->
  post (s_cur s) g H (s_cur s') [gi] H'.
Proof.
  intros He [Hc Hg] Hh Hi. destruct (emitted_facts _ _ _ He) as (E1 & E2 & E3 & E4 & E5 & E6).
  constructor; auto.
  - constructor.
    + rewrite E1, Hc, flat_app. unfold flat at 3. simpl. rewrite app_nil_r. reflexivity.
    + rewrite E2. unfold nupN. rewrite E3. rewrite (fr_arity _ _ E5). apply gok_snoc with (H := H); auto.
  - apply Lext_app. exact Hh.
Qed.

Lemma wp_emit {A} (m : C A) gi c0 g0 H0 s gacc H H' (Q : A -> cstate -> Prop) :
  emits m (enc gi) ->
  post c0 g0 H0 (s_cur s) gacc H -> g_h gi = H ->
  iok (hat ((g0 ++ gacc) ++ [gi]) H') (k_consts (s_cur s)) (nupN (s_cur s)) (k_arity (s_cur s)) (flen (g0 ++ gacc)) gi ->
  (forall a s', post c0 g0 H0 (s_cur s') (gacc ++ [gi]) H' ->
                cgrow (s_cur s) (s_cur s') -> cframe (s_cur s) (s_cur s') -> s_outer s' = s_outer s ->
                s_classes s' = s_classes s -> Q a s') ->
  wp m s Q.
Proof.
  intros Hm P Hh Hi HQ a s' E. pose proof (Hm _ _ _ E) as He.
  pose proof (emit_post _ _ _ _ _ _ He (po_inv _ _ _ _ _ _ P) Hh Hi) as P2.
  apply HQ; try apply He.
  - eapply post_trans; eauto.
  - apply P2.
  - apply P2.
Qed.

Lemma iok_simple L ks nup ar p gi e :
  simple_effect (fn0 ar nup) (gi_instr gi) (g_h gi) = Some e -> g_hole gi = false ->
  e_chk e = None -> kconst_ok ks (e_const e) (g_a gi) -> (e_need e <= g_h gi)%N -> (g_h gi <= STACK_MAX)%N ->
  L (p + glen gi) = Some (g_h gi - e_pops e + e_push e)%N -> iok L ks nup ar p gi.
Proof. intros E. unfold iok. rewrite E. auto 10. Qed.

(* a simple instruction (one that Skeleton.simple_effect describes) *)
Lemma wp_simple {A} (m : C A) o a b e c0 g0 H0 s gacc H (Q : A -> cstate -> Prop) :
  emits m (enc (mkG o a b [] H false)) ->
  post c0 g0 H0 (s_cur s) gacc H ->
  simple_effect (fn0 (k_arity (s_cur s)) (nupN (s_cur s))) (mkInstr o a b []) H = Some e ->
  e_chk e = None -> kconst_ok (k_consts (s_cur s)) (e_const e) a -> (e_need e <= H)%N -> (H <= STACK_MAX)%N ->
  (forall x s', post c0 g0 H0 (s_cur s') (gacc ++ [mkG o a b [] H false]) (H - e_pops e + e_push e)%N ->
                cgrow (s_cur s) (s_cur s') -> cframe (s_cur s) (s_cur s') -> s_outer s' = s_outer s ->
                s_classes s' = s_classes s -> Q x s') ->
  wp m s Q.
Proof.
  intros Hm P Hse Hc Hk Hn Hmax HQ.
  eapply wp_emit with (gi := mkG o a b [] H false); eauto.
  eapply iok_simple; eauto. apply hat_snoc_end.
Qed.

(* a transition of the current compiler that appends nothing *)
Record quiet (s s' : cstate) : Prop := mkQuiet {
  q_code : k_code (s_cur s') = k_code (s_cur s);
  q_fr : cframe (s_cur s) (s_cur s');
  q_gr : cgrow (s_cur s) (s_cur s')
}.

Lemma wp_quiet {A} (m : C A) (R : A -> cstate -> Prop) c0 g0 H0 s gacc H (Q : A -> cstate -> Prop) :
  (forall a s', m s = COk (a, s') -> quiet s s' /\ R a s') ->
  post c0 g0 H0 (s_cur s) gacc H ->
  (forall a s', post c0 g0 H0 (s_cur s') gacc H -> cgrow (s_cur s) (s_cur s') -> cframe (s_cur s) (s_cur s') ->
                R a s' -> Q a s') ->
  wp m s Q.
Proof.
  intros Hm P HQ a s' E. destruct (Hm _ _ E) as [[Hc Hf Hg] HR]. apply HQ; auto.
  replace gacc with (gacc ++ []) by apply app_nil_r.
  eapply post_trans; eauto. apply post_quiet; auto. apply P.
Qed.

(* ---------- constants ---------- *)
Lemma const_index_nth tbl c i : const_index tbl c = Some i ->
  exists d, nth_error tbl i = Some d /\ const_eqb d c = true.
Proof.
  revert i. induction tbl as [|d r IH]; simpl; intros i H. discriminate.
  destruct (const_eqb d c) eqn:E.
  - inversion H; subst. exists d. auto.
  - destruct (const_index r c); inversion H; subst. destruct (IH _ eq_refl) as (d' & A & B). exists d'. auto.
Qed.

Definition const_like (d c : const) : Prop := d = c \/ const_eqb d c = true.

Lemma make_constant_spec c s i s' : (forall f, c <> KFun f) -> make_constant c s = COk (i, s') ->
  quiet s s' /\ s_outer s' = s_outer s /\ s_classes s' = s_classes s /\ k_locals (s_cur s') = k_locals (s_cur s) /\
  exists d, nth_error (k_consts (s_cur s')) (N.to_nat i) = Some d /\ const_like d c.
Proof.
  intros Hcnf. unfold make_constant, cbind, cur. intros H.
  destruct (const_index (k_consts (s_cur s)) c) eqn:E.
  - destruct (N.ltb 65535 (N.of_nat n)); [discriminate|]. inversion H; subst; clear H.
    split. constructor; auto using cframe_refl, cgrow_refl. repeat split; auto.
    rewrite Nat2N.id. destruct (const_index_nth _ _ _ E) as (d & A & B). exists d. split; auto. right; auto.
  - unfold upd in H. cbn [s_cur s_outer s_classes s_line] in H.
    destruct (N.ltb 65535 _); [discriminate|]. inversion H; subst; clear H. simpl.
    split. constructor; simpl; auto. constructor; reflexivity.
    constructor; simpl. eexists; reflexivity. unfold nupN; simpl; lia.
    { intros j h Hj. destruct (Nat.lt_ge_cases j (length (k_consts (s_cur s)))) as [Hlt|Hge].
      - rewrite nth_error_app1 in Hj; auto.
      - rewrite nth_error_app2 in Hj by lia. destruct (j - length (k_consts (s_cur s))) as [|n0]; simpl in Hj.
        + inversion Hj; subst. exfalso. eapply Hcnf; eauto.
        + destruct n0; discriminate. }
    repeat split; auto. exists c. split. rewrite Nat2N.id, nth_error_app2, Nat.sub_diag; auto. left; auto.
Qed.

Lemma const_like_str d x : const_like d (KStr x) -> exists y, d = KStr y.
Proof. intros [->|H]. eauto. destruct d; simpl in H; try discriminate. eauto. Qed.
Lemma const_like_notfun d c : (forall f, c <> KFun f) -> const_like d c -> forall f, d <> KFun f.
Proof. intros Hc [->|H]; auto. destruct d; simpl in H; try discriminate; intros f E; discriminate. Qed.

Definition kstr (c : comp) (i : N) : Prop := exists x, nth_error (k_consts c) (N.to_nat i) = Some (KStr x).
Lemma kstr_grow c c' i : kstr c i -> cgrow c c' -> kstr c' i.
Proof.
  intros [x Hx] [[more E] _]. exists x. rewrite E, nth_error_app1; auto. apply nth_error_Some. congruence.
Qed.

Lemma wp_identifier_constant x c0 g0 H0 s gacc H (Q : N -> cstate -> Prop) :
  post c0 g0 H0 (s_cur s) gacc H ->
  (forall i s', post c0 g0 H0 (s_cur s') gacc H -> cgrow (s_cur s) (s_cur s') -> cframe (s_cur s) (s_cur s') ->
                kstr (s_cur s') i /\ s_outer s' = s_outer s /\ s_classes s' = s_classes s -> Q i s') ->
  wp (identifier_constant x) s Q.
Proof.
  intros P HQ. eapply wp_quiet with (R := fun i s' => kstr (s_cur s') i /\ s_outer s' = s_outer s /\ s_classes s' = s_classes s); eauto.
  intros i s' E. apply make_constant_spec in E; [|intros ? ?; discriminate]. destruct E as (Hq & Ho & Hcl & _ & d & Hd & Hl).
  split; auto. split; auto. apply const_like_str in Hl. destruct Hl as [y ->]. exists y; auto.
Qed.

(* emit_constant of a number or a string *)
Lemma wp_emit_constant k l c0 g0 H0 s gacc H (Q : unit -> cstate -> Prop) :
  (forall f, k <> KFun f) ->
  post c0 g0 H0 (s_cur s) gacc H -> (H <= STACK_MAX)%N ->
  (forall s', (exists gi, post c0 g0 H0 (s_cur s') (gacc ++ [gi]) (H + 1)%N /\ g_hole gi = false) ->
              cgrow (s_cur s) (s_cur s') -> cframe (s_cur s) (s_cur s') -> s_outer s' = s_outer s ->
              s_classes s' = s_classes s -> Q tt s') ->
  wp (emit_constant k l) s Q.
Proof.
  intros Hk P Hmax HQ. unfold emit_constant.
  apply wp_bind. apply wp_set_line. intros s1 E1 O1 C1.
  apply wp_bind. rewrite <- E1 in P.
  eapply wp_quiet with (R := fun i s' => (exists d, nth_error (k_consts (s_cur s')) (N.to_nat i) = Some d /\ forall f, d <> KFun f)
                                        /\ s_outer s' = s_outer s1 /\ s_classes s' = s_classes s1); eauto.
  { intros i s' E. apply make_constant_spec in E; [|exact Hk]. destruct E as (Hq & Ho & Hcl & _ & d & Hd & Hl).
    split; auto. split; auto. exists d. split; auto. eapply const_like_notfun; eauto. }
  intros i s2 P2 G2 F2 ((d & Hd & Hnf) & O2 & C2).
  eapply wp_simple with (o := OpConstant) (a := i) (b := 0%N); eauto.
  - apply emits_op16.
  - reflexivity.
  - reflexivity.
  - simpl. eauto.
  - simpl. lia.
  - intros [] s3 P3 G3 F3 O3 C3. apply HQ.
    + eexists. split. eapply post_eqH. exact P3. simpl. lia. reflexivity.
    + rewrite <- E1. eapply cgrow_trans; eauto.
    + rewrite <- E1. eapply cframe_trans; eauto.
    + congruence.
    + congruence.
Qed.

(* ---------- locals as seen by expressions ---------- *)
Definition lb (c : comp) (H : N) : Prop :=
  forall x i, resolve_local_in x (k_locals c) = LFound i -> (N.of_nat i < H)%N.

Lemma resolve_lkey x ls : forall ls', map lkey ls' = map lkey ls -> resolve_local_in x ls' = resolve_local_in x ls.
Proof.
  induction ls as [|l r IH]; intros [|l' r'] E; try discriminate; auto.
  simpl in E. inversion E as [[E1 E2 E3]]. simpl. rewrite E1, E2.
  assert (length r' = length r) by (rewrite <- (map_length lkey r'), E3, map_length; auto).
  rewrite H. rewrite (IH _ E3). reflexivity.
Qed.

Lemma lb_mono c c' H H' : lb c H -> cframe c c' -> (H <= H')%N -> lb c' H'.
Proof.
  intros Hl Hf Hle x i E. rewrite (resolve_lkey x _ _ (fr_locals _ _ Hf)) in E. apply Hl in E. lia.
Qed.

(* ---------- variables ---------- *)
Definition var_ok (c : comp) (Hb : N) (r : opcode * opcode * N) : Prop :=
  let '(g, st, arg) := r in
  (g = OpGetLocal /\ st = OpSetLocal /\ (arg < Hb)%N) \/
  (g = OpGetUpvalue /\ st = OpSetUpvalue /\ (arg < nupN c)%N) \/
  (g = OpGetGlobal /\ st = OpSetGlobal /\ kstr c arg).

Lemma var_ok_grow c c' Hb r : var_ok c Hb r -> cgrow c c' -> var_ok c' Hb r.
Proof.
  destruct r as [[g st] arg]. intros [H|[(A & B & D)|(A & B & D)]] Hg; [left; auto| |].
  - right; left. repeat split; auto. destruct Hg. lia.
  - right; right. repeat split; auto. eapply kstr_grow; eauto.
Qed.

Lemma add_upvalue_spec c i il u c' : add_upvalue c i il = Some (u, c') ->
  (u < nupN c')%N /\ k_code c' = k_code c /\ cframe c c' /\ cgrow c c' /\ k_locals c' = k_locals c.
Proof.
  unfold add_upvalue. destruct (find_upvalue (k_upvalues c) i il 0) eqn:E.
  - intros H; inversion H; subst. apply find_upvalue_lt in E.
    split. unfold nupN; lia. split; auto. split. apply cframe_refl. split. apply cgrow_refl. auto.
  - destruct (Nat.eqb _ _); [discriminate|]. intros H; inversion H; subst.
    split. unfold nupN; simpl. rewrite app_length; simpl; lia.
    split; auto. split. constructor; reflexivity. split; auto.
    constructor. exists []. simpl. rewrite app_nil_r; auto. unfold nupN; simpl. rewrite app_length. lia. simpl; auto.
Qed.

Lemma resolve_upvalue_cur name c outer i c' outer' :
  resolve_upvalue_in name c outer = UFound i c' outer' -> exists j il, add_upvalue c j il = Some (i, c').
Proof.
  destruct outer as [|e outer]; simpl. discriminate.
  destruct (resolve_local_c e name).
  - destruct (add_upvalue c (N.of_nat i0) true) as [[u c1]|] eqn:E; [|discriminate]. intros H; inversion H; subst. eauto.
  - destruct (resolve_upvalue_in name e outer); try discriminate.
    destruct (add_upvalue c i0 false) as [[u c1]|] eqn:E; [|discriminate]. intros H; inversion H; subst. eauto.
  - destruct (resolve_upvalue_in name e outer); try discriminate.
    destruct (add_upvalue c i0 false) as [[u c1]|] eqn:E; [|discriminate]. intros H; inversion H; subst. eauto.
Qed.

Lemma resolve_variable_spec x l s r s' Hb : lb (s_cur s) Hb ->
  resolve_variable x l s = COk (r, s') ->
  quiet s s' /\ var_ok (s_cur s') Hb r /\ k_locals (s_cur s') = k_locals (s_cur s).
Proof.
  intros Hlb. unfold resolve_variable, cbind, cur. unfold resolve_local_c.
  destruct (resolve_local_in x (k_locals (s_cur s))) eqn:E.
  - intros H; inversion H; subst. split. constructor; auto using cframe_refl, cgrow_refl.
    split; auto. left. repeat split; auto. eapply Hlb; eauto.
  - discriminate.
  - unfold cget.
    destruct (resolve_upvalue_in x (s_cur s) (s_outer s)) as [i c' o'| |] eqn:E2.
    + intros H; inversion H; subst; clear H. simpl.
      destruct (resolve_upvalue_cur _ _ _ _ _ _ E2) as (j & il & Ha). apply add_upvalue_spec in Ha.
      destruct Ha as (A & B & D & F & G). split. constructor; auto. split; auto.
    + unfold set_line. cbn [s_cur s_outer s_classes].
      destruct (identifier_constant x _) as [[g s1]|] eqn:E3; [|discriminate].
      intros H; inversion H; subst; clear H.
      apply make_constant_spec in E3; [|intros ? ?; discriminate]. destruct E3 as (Hq & _ & _ & Hl & d & Hd & Hlk).
      destruct Hq as [Q1 Q2 Q3]. simpl in *. split. constructor; auto. split; auto.
      right; right. repeat split; auto. apply const_like_str in Hlk. destruct Hlk as [y ->]. exists y; auto.
    + discriminate.
Qed.

Lemma wp_resolve_variable x l c0 g0 H0 s gacc H Hb (Q : opcode * opcode * N -> cstate -> Prop) :
  post c0 g0 H0 (s_cur s) gacc H -> lb (s_cur s) Hb ->
  (forall r s', post c0 g0 H0 (s_cur s') gacc H -> cgrow (s_cur s) (s_cur s') -> cframe (s_cur s) (s_cur s') ->
                var_ok (s_cur s') Hb r -> Q r s') ->
  wp (resolve_variable x l) s Q.
Proof.
  intros P Hlb HQ. eapply wp_quiet with (R := fun r s' => var_ok (s_cur s') Hb r); eauto.
  intros r s' E. eapply resolve_variable_spec in E; eauto. tauto.
Qed.

Definition ghost_ext c0 g0 H0 (c' : comp) gacc (H' : N) : Prop :=
  exists g', post c0 g0 H0 c' (gacc ++ g') H' /\ noholes g'.

Lemma wp_var_get g st arg l c0 g0 H0 s gacc H Hb (Q : unit -> cstate -> Prop) :
  post c0 g0 H0 (s_cur s) gacc H ->
  var_ok (s_cur s) Hb (g, st, arg) -> (Hb <= H)%N -> (H <= STACK_MAX)%N ->
  (forall s', ghost_ext c0 g0 H0 (s_cur s') gacc (H + 1)%N ->
              cgrow (s_cur s) (s_cur s') -> cframe (s_cur s) (s_cur s') -> Q tt s') ->
  wp (emit_variable_op g arg l) s Q.
Proof.
  intros P Hv Hle Hmax HQ. unfold emit_variable_op.
  destruct Hv as [(-> & -> & Ha)|[(-> & -> & Ha)|(-> & -> & Ha)]]; simpl.
  - eapply wp_simple with (o := OpGetLocal) (a := arg) (b := 0%N); eauto.
    + apply emits_op8.
    + reflexivity.
    + simpl. unfold chk. destruct (N.ltb_spec arg H); auto. lia.
    + exact I.
    + simpl. lia.
    + intros [] s' P' G' F' _ _. apply HQ; auto. eexists. split. eapply post_eqH; eauto. simpl; lia. auto with ht.
  - eapply wp_simple with (o := OpGetUpvalue) (a := arg) (b := 0%N); eauto.
    + apply emits_op8.
    + reflexivity.
    + simpl. unfold chk. destruct (N.ltb_spec arg (nupN (s_cur s))); auto. lia.
    + exact I.
    + simpl. lia.
    + intros [] s' P' G' F' _ _. apply HQ; auto. eexists. split. eapply post_eqH; eauto. simpl; lia. auto with ht.
  - eapply wp_simple with (o := OpGetGlobal) (a := arg) (b := 0%N); eauto.
    + apply emits_op16.
    + reflexivity.
    + reflexivity.
    + exact Ha.
    + simpl. lia.
    + intros [] s' P' G' F' _ _. apply HQ; auto. eexists. split. eapply post_eqH; eauto. simpl; lia. auto with ht.
Qed.

Lemma wp_var_set g st arg l c0 g0 H0 s gacc H Hb (Q : unit -> cstate -> Prop) :
  post c0 g0 H0 (s_cur s) gacc H ->
  var_ok (s_cur s) Hb (g, st, arg) -> (Hb <= H)%N -> (1 <= H)%N -> (H <= STACK_MAX)%N ->
  (forall s', ghost_ext c0 g0 H0 (s_cur s') gacc H ->
              cgrow (s_cur s) (s_cur s') -> cframe (s_cur s) (s_cur s') -> Q tt s') ->
  wp (emit_variable_op st arg l) s Q.
Proof.
  intros P Hv Hle H1 Hmax HQ. unfold emit_variable_op.
  destruct Hv as [(-> & -> & Ha)|[(-> & -> & Ha)|(-> & -> & Ha)]]; simpl.
  - eapply wp_simple with (o := OpSetLocal) (a := arg) (b := 0%N); eauto.
    + apply emits_op8.
    + reflexivity.
    + simpl. unfold chk. destruct (N.ltb_spec arg H); auto. lia.
    + exact I.
    + simpl. lia.
    + intros [] s' P' G' F' _ _. apply HQ; auto. eexists. split. eapply post_eqH; eauto. simpl; lia. auto with ht.
  - eapply wp_simple with (o := OpSetUpvalue) (a := arg) (b := 0%N); eauto.
    + apply emits_op8.
    + reflexivity.
    + simpl. unfold chk. destruct (N.ltb_spec arg (nupN (s_cur s))); auto. lia.
    + exact I.
    + simpl. lia.
    + intros [] s' P' G' F' _ _. apply HQ; auto. eexists. split. eapply post_eqH; eauto. simpl; lia. auto with ht.
  - eapply wp_simple with (o := OpSetGlobal) (a := arg) (b := 0%N); eauto.
    + apply emits_op16.
    + reflexivity.
    + reflexivity.
    + exact Ha.
    + simpl. lia.
    + intros [] s' P' G' F' _ _. apply HQ; auto. eexists. split. eapply post_eqH; eauto. simpl; lia. auto with ht.
Qed.

Lemma wp_named_get x l c0 g0 H0 s gacc H Hb (Q : unit -> cstate -> Prop) :
  post c0 g0 H0 (s_cur s) gacc H -> lb (s_cur s) Hb -> (Hb <= H)%N -> (H <= STACK_MAX)%N ->
  (forall s', ghost_ext c0 g0 H0 (s_cur s') gacc (H + 1)%N ->
              cgrow (s_cur s) (s_cur s') -> cframe (s_cur s) (s_cur s') -> Q tt s') ->
  wp (named_get x l) s Q.
Proof.
  intros P Hlb Hle Hmax HQ. unfold named_get. apply wp_bind.
  eapply wp_resolve_variable; eauto. intros [[g st] arg] s1 P1 G1 F1 Hv.
  eapply wp_var_get; eauto. intros s2 X G2 F2. apply HQ; auto.
  eapply cgrow_trans; eauto. eapply cframe_trans; eauto.
Qed.

(* ---------- jumps ---------- *)
Definition is_fjump (o : opcode) : Prop := o = OpJump \/ o = OpJumpIfFalse \/ o = OpJumpIfStopIter.

Lemma emit_jump_spec o l s pos s' : emit_jump o l s = COk (pos, s') ->
  emitted [N_of_opcode o; 255%N; 255%N] s s' /\ pos = length (k_code (s_cur s)) + 1.
Proof.
  unfold emit_jump, emit_op, emit_byte, cbind, upd, set_line, code_len, cret. simpl. intros H.
  inversion H; subst; clear H. split.
  - split; [|split]; try reflexivity. eexists. unfold with_code; simpl. rewrite <- !app_assoc. reflexivity.
  - rewrite !app_length. simpl. lia.
Qed.

Lemma wp_emit_jump o l c0 g0 H0 s gacc H H' (Q : nat -> cstate -> Prop) :
  is_fjump o ->
  post c0 g0 H0 (s_cur s) gacc H ->
  iok (hat ((g0 ++ gacc) ++ [mkG o 65535 0 [] H true]) H') (k_consts (s_cur s)) (nupN (s_cur s)) (k_arity (s_cur s))
      (flen (g0 ++ gacc)) (mkG o 65535 0 [] H true) ->
  (forall pos s', pos = flen (g0 ++ gacc) + 1 ->
                  post c0 g0 H0 (s_cur s') (gacc ++ [mkG o 65535 0 [] H true]) H' ->
                  cgrow (s_cur s) (s_cur s') -> cframe (s_cur s) (s_cur s') -> Q pos s') ->
  wp (emit_jump o l) s Q.
Proof.
  intros Ho P Hi HQ pos s' E. apply emit_jump_spec in E. destruct E as [He Hpos].
  assert (He' : emitted (enc (mkG o 65535 0 [] H true)) s s').
  { destruct Ho as [-> | [-> | ->]]; exact He. }
  pose proof (emit_post _ _ _ _ _ _ He' (po_inv _ _ _ _ _ _ P) eq_refl Hi) as P2.
  apply HQ.
  - rewrite Hpos. rewrite (ci_code _ _ _ (po_inv _ _ _ _ _ _ P)). reflexivity.
  - eapply post_trans; eauto.
  - apply P2.
  - apply P2.
Qed.

(* the obligation of a freshly emitted hole *)
Lemma iok_hole_jump G H H' ks nup ar : (H <= STACK_MAX)%N ->
  iok (hat (G ++ [mkG OpJump 65535 0 [] H true]) H') ks nup ar (flen G) (mkG OpJump 65535 0 [] H true).
Proof. intros. split; auto. simpl. left; reflexivity. Qed.
Lemma iok_hole_jif o G H ks nup ar : o = OpJumpIfFalse \/ o = OpJumpIfStopIter -> (H <= STACK_MAX)%N -> H <> 0%N ->
  iok (hat (G ++ [mkG o 65535 0 [] H true]) H) ks nup ar (flen G) (mkG o 65535 0 [] H true).
Proof.
  intros Ho Hm Hz. split; auto.
  assert (X : hat (G ++ [mkG o 65535 0 [] H true]) H (flen G + glen (mkG o 65535 0 [] H true)) = Some H)
    by apply hat_snoc_end.
  destruct Ho as [->| ->]; simpl; repeat split; auto.
Qed.

Lemma set_nth_app {A} (l1 l2 : list A) k v : set_nth (length l1 + k) v (l1 ++ l2) = l1 ++ set_nth k v l2.
Proof. induction l1; simpl; auto. rewrite IHl1. reflexivity. Qed.

Lemma patch_bytes {A} (pre : list A) opc x y post lo hi :
  set_nth (S (length pre + 1)) hi (set_nth (length pre + 1) lo (pre ++ (opc :: x :: y :: []) ++ post)) =
  pre ++ (opc :: lo :: hi :: []) ++ post.
Proof. replace (S (length pre + 1)) with (length pre + 2) by lia. rewrite !set_nth_app. reflexivity. Qed.

Lemma patch_jump_spec pos s s' : patch_jump pos s = COk (tt, s') ->
  let v := N.of_nat (length (k_code (s_cur s)) - pos - 2) in
  (exists lines', s_cur s' = with_code (s_cur s) (set_nth (S pos) (hi8 v) (set_nth pos (lo8 v) (k_code (s_cur s)))) lines') /\
  s_outer s' = s_outer s /\ s_classes s' = s_classes s.
Proof.
  unfold patch_jump, cbind, code_len. destruct (N.ltb JUMP_SIZE_MAX _); [discriminate|].
  unfold patch16, upd. intros H; inversion H; subst; clear H. simpl. split; eauto.
Qed.

Lemma wp_patch_jump o a h pos c0 g0 H0 s gacc ga gb H (Q : unit -> cstate -> Prop) :
  post c0 g0 H0 (s_cur s) gacc H -> gacc = ga ++ mkG o a 0 [] h true :: gb ->
  is_fjump o -> pos = flen (g0 ++ ga) + 1 -> h = H ->
  (forall s', post c0 g0 H0 (s_cur s') (ga ++ mkG o (N.of_nat (flen gb)) 0 [] h false :: gb) H ->
              cgrow (s_cur s) (s_cur s') -> cframe (s_cur s) (s_cur s') -> Q tt s') ->
  wp (patch_jump pos) s Q.
Proof.
  intros P -> Ho -> -> HQ [] s' E. apply patch_jump_spec in E. destruct E as ([l' E] & _ & _).
  set (gi := mkG o a 0 [] H true) in *. set (gi' := mkG o (N.of_nat (flen gb)) 0 [] H false).
  assert (Hl : glen gi' = glen gi) by (destruct Ho as [-> | [-> | ->]]; reflexivity).
  assert (Hl3 : glen gi = 3) by (destruct Ho as [-> | [-> | ->]]; reflexivity).
  destruct P as [[Pc Pg] Pe Pf Pgr].
  assert (F : cframe (s_cur s) (s_cur s')) by (rewrite E; constructor; reflexivity).
  assert (Gr : cgrow (s_cur s) (s_cur s')).
  { rewrite E. constructor. exists []. simpl. rewrite app_nil_r; auto. unfold nupN; simpl. lia. simpl; auto. }
  apply HQ; auto. rewrite app_assoc in Pc, Pg, Pe.
  constructor.
  - rewrite app_assoc. constructor.
    + rewrite E. cbn [k_code with_code]. rewrite Pc. fold gi'.
      rewrite (flat_app (g0 ++ ga) (gi :: gb)), (flat_app (g0 ++ ga) (gi' :: gb)).
      change (flat (gi :: gb)) with (enc gi ++ flat gb). change (flat (gi' :: gb)) with (enc gi' ++ flat gb).
      assert (Hv : length (flat (g0 ++ ga) ++ enc gi ++ flat gb) - (flen (g0 ++ ga) + 1) - 2 = flen gb).
      { rewrite !app_length. fold (glen gi). fold (flen gb). fold (flen (g0 ++ ga)). lia. }
      rewrite Hv. subst gi gi'.
      destruct Ho as [-> | [-> | ->]]; exact (patch_bytes _ _ _ _ _ _ _).
    + rewrite E. simpl. unfold nupN. simpl. fold (nupN (s_cur s)).
      apply gok_replace with (gi := gi); auto.
      pose proof (Pg (g0 ++ ga) gi gb eq_refl) as [Hmax Hi]. split; auto.
      assert (Hend : hat ((g0 ++ ga) ++ gi :: gb) H (flen (g0 ++ ga) + glen gi' + N.to_nat (g_a gi')) = Some H).
      { unfold gi' at 2. cbn [g_a]. rewrite Nat2N.id, Hl.
        replace (flen (g0 ++ ga) + glen gi + flen gb) with (flen ((g0 ++ ga) ++ gi :: gb)).
        apply hat_end. rewrite flen_app, flen_cons. lia. }
      rewrite Hl in *.
      destruct Ho as [-> | [-> | ->]]; simpl in *.
      * right. exact Hend.
      * destruct Hi as (A & B & _). repeat split; auto.
      * destruct Hi as (A & B & _). repeat split; auto.
  - rewrite app_assoc. intros p x Hp. rewrite hat_replace with (gi := gi); auto.
  - eapply cframe_trans; eauto.
  - eapply cgrow_trans; eauto.
Qed.

(* ================================================================== *)
(* 5. expressions                                                       *)
Arguments N.max : simpl never.
Arguments N.add : simpl never.
Arguments N.sub : simpl never.
Arguments N.mul : simpl never.

(* maximal number of temporaries above the entry height while the code of e runs *)
Fixpoint tmpE (e : lexpr) : N :=
  match e with
  | LNil _ | LTrue _ | LFalse _ | LNum _ _ | LStr _ _ | LVar _ _ | LSelf _ | LCapSelf _ => 1
  | LInterp ps _ => N.max 1 (tmpP ps)
  | LSuperGet _ _ => 2
  | LSuperCall _ _ args _ => 2 + tmpA args
  | LAssign _ e _ => tmpE e
  | LCompound _ _ _ e _ => 1 + tmpE e
  | LUnary _ e _ => tmpE e
  | LBinary _ a b _ => N.max (tmpE a) (1 + tmpE b)
  | LRange a b _ => N.max (tmpE a) (1 + tmpE b)
  | LIndex a b _ => N.max (tmpE a) (1 + tmpE b)
  | LAnd a _ b => N.max (tmpE a) (tmpE b)
  | LOr a _ b => N.max (tmpE a) (tmpE b)
  | LCall f args _ => N.max (tmpE f) (1 + tmpA args)
  | LGet o _ _ => tmpE o
  | LSet o _ e _ => N.max (tmpE o) (1 + tmpE e)
  | LSetCompound o _ _ _ e _ => N.max (tmpE o) (2 + tmpE e)
  | LInvoke o _ args _ => N.max (tmpE o) (1 + tmpA args)
  | LSetIndex o i e _ => N.max (tmpE o) (N.max (1 + tmpE i) (2 + tmpE e))
  | LTuple es _ => N.max 1 (tmpA es)
  | LVec es _ => N.max 1 (tmpA es)
  | LMap kvs _ => N.max 1 (tmpK kvs)
  | LLambdaE _ _ _ | LLambdaB _ _ _ => 1
  end%N
with tmpA (es : lexprs) : N :=
  match es with LENil => 0 | LECons e r => N.max (tmpE e) (1 + tmpA r) end%N
with tmpP (ps : lparts) : N :=
  match ps with
  | LPNil => 0
  | LPStr _ _ r => 1 + tmpP r
  | LPExpr e _ r => N.max (tmpE e) (1 + tmpP r)
  end%N
with tmpK (kvs : lkvs) : N :=
  match kvs with LKNil => 0 | LKCons k v r => N.max (tmpE k) (N.max (1 + tmpE v) (2 + tmpK r)) end%N.

(* the expression fragment: everything except self / Self / super (classes) and lambdas *)
Fixpoint fragE (e : lexpr) : bool :=
  match e with
  | LNil _ | LTrue _ | LFalse _ | LNum _ _ | LStr _ _ | LVar _ _ => true
  | LSelf _ | LCapSelf _ | LSuperGet _ _ | LSuperCall _ _ _ _ | LLambdaE _ _ _ | LLambdaB _ _ _ => false
  | LInterp ps _ => fragP ps
  | LAssign _ e _ => fragE e
  | LCompound _ _ _ e _ => fragE e
  | LUnary _ e _ => fragE e
  | LBinary _ a b _ => fragE a && fragE b
  | LRange a b _ => fragE a && fragE b
  | LIndex a b _ => fragE a && fragE b
  | LAnd a _ b => fragE a && fragE b
  | LOr a _ b => fragE a && fragE b
  | LCall f args _ => fragE f && fragA args
  | LGet o _ _ => fragE o
  | LSet o _ e _ => fragE o && fragE e
  | LSetCompound o _ _ _ e _ => fragE o && fragE e
  | LInvoke o _ args _ => fragE o && fragA args
  | LSetIndex o i e _ => fragE o && fragE i && fragE e
  | LTuple es _ => fragA es
  | LVec es _ => fragA es
  | LMap kvs _ => fragK kvs
  end
with fragA (es : lexprs) : bool :=
  match es with LENil => true | LECons e r => fragE e && fragA r end
with fragP (ps : lparts) : bool :=
  match ps with LPNil => true | LPStr _ _ r => fragP r | LPExpr e _ r => fragE e && fragP r end
with fragK (kvs : lkvs) : bool :=
  match kvs with LKNil => true | LKCons k v r => fragE k && fragE v && fragK r end.

Lemma tmpE_pos : forall e, (1 <= tmpE e)%N.
Proof.
  apply (lexpr_mind (fun e => (1 <= tmpE e)%N) (fun _ => True) (fun _ => True) (fun _ => True)
                    (fun _ => True) (fun _ => True) (fun _ => True)); simpl; intros; auto; lia.
Qed.

Definition etriple {A} (m : C A) (n : A -> N) (t : N) : Prop :=
  forall s a s' g H, m s = COk (a, s') -> CInv (s_cur s) g H -> lb (s_cur s) H ->
    (k_arity (s_cur s) <= H)%N -> (H + t <= STACK_MAX)%N ->
    (exists g', post (s_cur s) g H (s_cur s') g' (H + n a)%N /\ noholes g') /\ (n a <= t)%N.

Lemma etriple_wp {A} (m : C A) n t :
  (forall s g H, CInv (s_cur s) g H -> lb (s_cur s) H -> (k_arity (s_cur s) <= H)%N -> (H + t <= STACK_MAX)%N ->
     post (s_cur s) g H (s_cur s) [] H ->
     wp m s (fun a s' => ghost_ext (s_cur s) g H (s_cur s') [] (H + n a)%N /\ (n a <= t)%N)) -> etriple m n t.
Proof. intros X s a s' g H E HI Hlb Har Hm. exact (X s g H HI Hlb Har Hm (post_refl _ _ _ HI) a s' E). Qed.

Lemma wp_use {A} (m : C A) n t c0 g0 H0 s gacc H (Q : A -> cstate -> Prop) :
  etriple m n t -> post c0 g0 H0 (s_cur s) gacc H -> lb c0 H0 -> (k_arity c0 <= H0)%N -> (H0 <= H)%N ->
  (H + t <= STACK_MAX)%N ->
  (forall a s', ghost_ext c0 g0 H0 (s_cur s') gacc (H + n a)%N -> (n a <= t)%N -> cgrow (s_cur s) (s_cur s') ->
                cframe (s_cur s) (s_cur s') -> Q a s') ->
  wp m s Q.
Proof.
  intros T P Hlb Har Hle Hm HQ a s' E.
  assert (Hlb' : lb (s_cur s) H) by (eapply lb_mono; eauto; apply P).
  assert (Har' : (k_arity (s_cur s) <= H)%N) by (rewrite (fr_arity _ _ (po_fr _ _ _ _ _ _ P)); lia).
  destruct (T s a s' (g0 ++ gacc) H E (po_inv _ _ _ _ _ _ P) Hlb' Har' Hm) as ((g' & P' & N') & Hn).
  apply HQ; try apply P'; auto. exists g'. split; auto. eapply post_trans; eauto.
Qed.

Lemma wp_check_count n l msg s (Q : unit -> cstate -> Prop) : Q tt s -> wp (check_count n l msg) s Q.
Proof. intros HQ. unfold check_count. destruct (N.ltb 255 n). apply wp_err. apply wp_ret; auto. Qed.

#[export] Hint Extern 1 (g_hole _ = false) => reflexivity : ht.

Ltac bnd := lazymatch goal with |- wp (cbind _ _) _ _ => apply wp_bind | _ => idtac end.
Ltac arfacts :=
  repeat match goal with
  | P : post ?c0 _ _ ?c _ _ |- _ =>
    lazymatch goal with
    | _ : k_arity c = k_arity c0 |- _ => fail
    | _ => pose proof (fr_arity _ _ (po_fr _ _ _ _ _ _ P))
    end
  end.
Ltac chk_lt :=
  try reflexivity;
  simpl; unfold chk;
  lazymatch goal with
  | |- (if ?b then _ else _) = None =>
    replace b with true; [reflexivity | symmetry; apply N.ltb_lt; arfacts; simpl; lia]
  end.
Ltac fold_kstr :=
  simpl; try exact I;
  lazymatch goal with
  | |- exists x, nth_error (k_consts ?c) (N.to_nat ?i) = Some (KStr x) => change (kstr c i)
  | _ => idtac
  end; eauto using kstr_grow.
Ltac opgen oo aa bb Em :=
  eapply wp_simple with (o := oo) (a := aa) (b := bb);
  [ apply Em | eassumption | reflexivity | chk_lt | fold_kstr | simpl; try lia | simpl; try lia
  | intros ? ?s ?P ?G ?F ?O ?Cl;
    match goal with P : post _ _ _ (s_cur _) _ (_ - e_pops _ + e_push _)%N |- _ => simpl in P end ].
Ltac op0 := bnd; lazymatch goal with |- wp (emit_op ?o _) _ _ => opgen o 0%N 0%N emits_op end.
Ltac op8 := bnd; lazymatch goal with |- wp (emit_op8 ?o ?n _) _ _ => opgen o n 0%N emits_op8 end.
Ltac op16 := bnd; lazymatch goal with |- wp (emit_op16 ?o ?n _) _ _ => opgen o n 0%N emits_op16 end.
Ltac op16_8 := lazymatch goal with |- wp (cbind (emit_op16 ?o ?n _) (fun _ => emit_byte ?b _)) _ _ => opgen o n b emits_op16_8 end.
Ltac lbt := first [ eassumption | eapply lb_mono; [eassumption | eapply po_fr; eassumption | lia] ].
Ltac use IH :=
  bnd; eapply wp_use; [ apply IH; assumption | eassumption | eassumption | eassumption | lia | simpl; lia
                      | intros ?a ?s (?g & ?P & ?NH) ?Hn ?G ?F ].
Ltac trn :=
  repeat first [ eassumption | eapply cgrow_trans; [eassumption|] | eapply cframe_trans; [eassumption|] ].
Ltac fin :=
  unfold ghost_ext;
  lazymatch goal with
  | |- exists g', post _ _ _ (s_cur ?s) _ _ /\ _ =>
    match goal with P : post _ _ _ (s_cur s) _ _ |- _ => rewrite <- ?app_assoc in P end
  end;
  eexists; split; [ eapply post_eqH; [eassumption | simpl; lia] | auto 12 with ht ].
Ltac andbs :=
  repeat match goal with H : _ && _ = true |- _ => apply andb_prop in H; destruct H end.
Ltac poss :=
  repeat match goal with
  | e : lexpr |- _ =>
    lazymatch goal with _ : (1 <= tmpE e)%N |- _ => fail | _ => pose proof (tmpE_pos e) end
  end.

Lemma wp_binops op l c0 g0 H0 s gacc H (Q : unit -> cstate -> Prop) :
  post c0 g0 H0 (s_cur s) gacc H -> (2 <= H)%N -> (H <= STACK_MAX)%N ->
  (forall s', ghost_ext c0 g0 H0 (s_cur s') gacc (H - 1)%N -> cgrow (s_cur s) (s_cur s') ->
              cframe (s_cur s) (s_cur s') -> Q tt s') ->
  wp (emit_ops (binop_ops op) l) s Q.
Proof.
  intros P H2 Hm HQ. destruct op; simpl.
  all: op0; try op0; apply wp_ret; apply HQ; [fin | trn | trn].
Qed.

Lemma wp_compound op l c0 g0 H0 s gacc H (Q : unit -> cstate -> Prop) :
  post c0 g0 H0 (s_cur s) gacc H -> (2 <= H)%N -> (H <= STACK_MAX)%N ->
  (forall s', ghost_ext c0 g0 H0 (s_cur s') gacc (H - 1)%N -> cgrow (s_cur s) (s_cur s') ->
              cframe (s_cur s) (s_cur s') -> Q tt s') ->
  wp (emit_compound op l) s Q.
Proof.
  intros. unfold emit_compound. destruct (is_compound_op op). eapply wp_binops; eauto. apply wp_err.
Qed.

Ltac useih :=
  bnd; lazymatch goal with |- wp ?m _ _ =>
    match goal with IH : _ = true -> etriple m _ _ |- _ => use IH; cbv beta in * end end.
Ltac start :=
  repeat lazymatch goal with |- forall _, _ => intro end; simpl in * |-; andbs; try discriminate;
  apply etriple_wp; intros ss gg HH HI Hlb Har Hmax P0; simpl in Hmax; poss; simpl.
Ltac nget :=
  bnd; eapply wp_named_get; [ eassumption | lbt | lia | lia | intros ?s (?g & ?P & ?NH) ?G ?F ].
Ltac ident :=
  bnd; eapply wp_identifier_constant; [ eassumption | intros ?i ?s ?P ?G ?F (?K & ?O & ?Cl) ].
Ltac sline := bnd; apply wp_set_line; intros ?s ?E ?O ?Cl;
  match goal with E : s_cur ?s' = s_cur ?s |- _ => rewrite <- E in * end.
Ltac ccount := bnd; apply wp_check_count.
Ltac econst :=
  bnd; eapply wp_emit_constant; [ intros ? ?; discriminate | eassumption | lia
                                | intros ?s (?gi & ?P & ?Hh) ?G ?F ?O ?Cl ].

Ltac split_at_hole l k :=
  lazymatch l with
  | (cons (mkG _ _ _ _ _ true) nil) ++ ?r => k (@nil ginstr) r
  | cons (mkG _ _ _ _ _ true) ?r => k (@nil ginstr) r
  | nil ++ ?r => split_at_hole r k
  | (?x :: ?l) ++ ?r => split_at_hole (l ++ r) ltac:(fun ga gb => k (x :: ga) gb)
  | ?x ++ ?r => split_at_hole r ltac:(fun ga gb => k (x ++ ga) gb)
  | ?x :: ?r => split_at_hole r ltac:(fun ga gb => k (x :: ga) gb)
  end.
Lemma flen_nil : flen [] = 0. Proof. reflexivity. Qed.
Lemma noholes_cons x r : g_hole x = false -> noholes r -> noholes (x :: r).
Proof. intros; constructor; auto. Qed.
#[export] Hint Resolve noholes_cons : ht.
Ltac posgoal := subst; repeat rewrite flen_app; repeat rewrite flen_cons; rewrite ?flen_nil; simpl; lia.
Ltac patch :=
  bnd; lazymatch goal with |- wp (patch_jump ?pos) ?s _ =>
    match goal with P : post _ _ _ (s_cur s) _ _ |- _ =>
      rewrite <- ?app_assoc in P;
      lazymatch type of P with post _ _ _ _ ?gacc _ =>
        split_at_hole gacc ltac:(fun xa xb =>
          eapply wp_patch_jump with (ga := xa) (gb := xb);
          [ exact P | rewrite <- ?app_assoc; reflexivity | unfold is_fjump; auto | posgoal | lia
          | intros ?s ?P ?G ?F ])
      end
    end
  end.
Ltac jif :=
  bnd; lazymatch goal with |- wp (emit_jump ?o _) ?s _ =>
    match goal with P : post _ _ _ (s_cur s) _ ?H |- _ =>
      eapply wp_emit_jump with (H' := H);
      [ unfold is_fjump; auto | exact P | apply iok_hole_jif; [auto | lia | lia]
      | intros ?pos ?s ?Hpos ?P ?G ?F ]
    end
  end.
Ltac jmp Hnew :=
  bnd; lazymatch goal with |- wp (emit_jump ?o _) ?s _ =>
    match goal with P : post _ _ _ (s_cur s) _ _ |- _ =>
      eapply wp_emit_jump with (H' := Hnew);
      [ unfold is_fjump; auto | exact P | apply iok_hole_jump; lia
      | intros ?pos ?s ?Hpos ?P ?G ?F ]
    end
  end.

Theorem expr_heights :
  (forall e, fragE e = true -> etriple (cexpr e) (fun _ => 1%N) (tmpE e)) /\
  (forall es, fragA es = true -> etriple (cargs es) (fun n => n) (tmpA es)) /\
  (forall ps, fragP ps = true -> etriple (cparts ps) (fun n => n) (tmpP ps)) /\
  (forall kvs, fragK kvs = true -> etriple (ckvs kvs) (fun n => (2 * n)%N) (tmpK kvs)) /\
  (forall st : lstmt, True) /\ (forall l : lstmts, True) /\ (forall ms : lmethods, True).
Proof.
  apply lsyntax_mutind; try (intros; exact I).
  - (* LNil *) start. op0. split; [fin | try lia].
  - start. op0. split; [fin | try lia].
  - start. op0. split; [fin | try lia].
  - (* LNum *) start. econst. split; [fin | try lia].
  - start. econst. split; [fin | try lia].
  - (* LInterp *) start. useih. ccount. op8. split; [fin | try lia].
  - (* LVar *) start. nget. split; [fin | try lia].
  - start.
  - start.
  - start.
  - start.
  - (* LAssign *) start. bnd. eapply wp_resolve_variable; [eassumption | lbt | intros [[gop sop] arg] ?s ?P ?G ?F ?V]. simpl.
    useih. eapply wp_var_set; [eassumption | eapply var_ok_grow; eassumption | lia | lia | lia | intros ?s (?g & ?P & ?NH) ?G ?F]. split; [fin | try lia].
  - (* LCompound *) start. bnd. eapply wp_resolve_variable; [eassumption | lbt | intros [[gop sop] arg] ?s ?P ?G ?F ?V]. simpl.
    bnd. eapply wp_var_get; [eassumption | eassumption | apply N.le_refl | lia | intros ?s (?g & ?P & ?NH) ?G ?F].
    useih. bnd. eapply wp_compound; [eassumption | lia | lia | intros ?s (?g & ?P & ?NH) ?G ?F].
    eapply wp_var_set; [eassumption | eapply var_ok_grow; [eassumption | trn] | lia | lia | lia | intros ?s (?g & ?P & ?NH) ?G ?F]. split; [fin | try lia].
  - (* LUnary *) start. useih. destruct op; simpl. all: op0. all: split; [fin | try lia].
  - (* LBinary *) start. useih. useih. eapply wp_binops; [eassumption | lia | lia | intros ?s (?g & ?P & ?NH) ?G ?F]. split; [fin | try lia].
  - (* LAnd *) start. useih. jif. op0. useih. patch. split; [fin | try lia].
  - (* LOr *) start. useih. jif. jmp (HH + 1)%N. patch. op0. useih. patch. split; [fin | try lia].
  - (* LRange *) start. useih. useih. op0. split; [fin | try lia].
  - (* LCall *) start. useih. useih. ccount. op8. split; [fin | try lia].
  - (* LGet *) start. useih. sline. ident. op16. split; [fin | try lia].
  - (* LSet *) start. useih. ident. useih. op16. split; [fin | try lia].
  - (* LSetCompound *) start. useih. ident. op0. op16. useih.
    bnd. eapply wp_compound; [eassumption | lia | lia | intros ?s (?g & ?P & ?NH) ?G ?F].
    op16. split; [fin | try lia].
  - (* LInvoke *) start. useih. ident. useih. ccount. op16_8. split; [fin | try lia].
  - (* LIndex *) start. useih. useih. op0. split; [fin | try lia].
  - (* LSetIndex *) start. useih. useih. useih. op0. split; [fin | try lia].
  - (* LTuple *) start. useih. ccount. op8. split; [fin | try lia].
  - (* LVec *) start. useih. ccount. op8. split; [fin | try lia].
  - (* LMap *) start. useih. ccount. op8. split; [fin | try lia].
  - start.
  - start.
  - (* LENil *) start. apply wp_ret. split; [fin | try lia].
  - start. useih. useih. apply wp_ret. split; [fin | try lia].
  - (* LPNil *) start. apply wp_ret. split; [fin | try lia].
  - start. econst. useih. apply wp_ret. split; [fin | try lia].
  - start. useih. op0. useih. apply wp_ret. split; [fin | try lia].
  - (* LKNil *) start. apply wp_ret. split; [fin | try lia].
  - start. useih. useih. useih. apply wp_ret. split; [fin | try lia].
Qed.
Print Assumptions expr_heights.
