(* FullCompileFnB: top-level statements of the first fragment and the semantic statement against
   Skeleton.step (no reachable state of the skeleton semantics is stuck).  See notes/FullCompileFnA.md. *)
From Coq Require Import Strings.Byte Strings.String.
From Coq Require Import List NArith ZArith Bool Arith Lia.
From Coq Require Import Floats.SpecFloat.
From YV Require Import Show Utf8 Num Ast Bytecode Skeleton VerifierProofs ParseLoc FullCompile FullCompileProofs.
From YV Require Import FullCompileFnA.
Import ListNotations.
Local Open Scope nat_scope.
Local Open Scope list_scope.
Local Open Scope comp_scope.

(* ================================================================== *)
(* 6. statements of a straight-line script (scope depth 0: every variable is a global)                 *)
Record TopInv (c : comp) : Prop := mkTop {
  ti_scope : k_scope c = 0;
  ti_lb : lb c 1%N;
  ti_ar : k_arity c = 1%N;
  ti_try : k_in_try c = false;
  ti_kind : k_kind c = KScript
}.

Lemma TopInv_frame c c' : TopInv c -> cframe c c' -> TopInv c'.
Proof.
  intros [A B D E K0] F. constructor; [| | | |rewrite (fr_kind _ _ F); auto].
  - rewrite (fr_scope _ _ F); auto.
  - eapply lb_mono; eauto. lia.
  - rewrite (fr_arity _ _ F); auto.
  - rewrite (fr_try _ _ F); auto.
Qed.

Definition stA (m : C unit) : Prop :=
  forall s u s' g, m s = COk (u, s') -> CInv (s_cur s) g 1%N -> TopInv (s_cur s) ->
    exists g', post (s_cur s) g 1%N (s_cur s') g' 1%N /\ noholes g'.

Lemma stA_wp m :
  (forall s g, CInv (s_cur s) g 1%N -> TopInv (s_cur s) -> post (s_cur s) g 1%N (s_cur s) [] 1%N ->
     wp m s (fun _ s' => ghost_ext (s_cur s) g 1%N (s_cur s') [] 1%N)) -> stA m.
Proof. intros X s u s' g E HI HT. exact (X s g HI HT (post_refl _ _ _ HI) u s' E). Qed.

Lemma scope0 c0 g0 H0 c gacc H : TopInv c0 -> post c0 g0 H0 c gacc H -> k_scope c = 0.
Proof. intros T P. rewrite (fr_scope _ _ (po_fr _ _ _ _ _ _ P)). apply T. Qed.

Lemma wp_parse_variable_top x l c0 g0 H0 s gacc H (Q : N -> cstate -> Prop) :
  TopInv c0 -> post c0 g0 H0 (s_cur s) gacc H ->
  (forall i s', post c0 g0 H0 (s_cur s') gacc H -> cgrow (s_cur s) (s_cur s') -> cframe (s_cur s) (s_cur s') ->
                kstr (s_cur s') i -> Q i s') ->
  wp (parse_variable x l) s Q.
Proof.
  intros T P HQ. pose proof (scope0 _ _ _ _ _ _ T P) as Hs.
  unfold parse_variable, declare_variable. apply wp_bind. apply wp_bind. apply wp_cur. rewrite Hs. simpl.
  apply wp_ret. apply wp_bind. apply wp_cur. rewrite Hs. simpl.
  eapply wp_identifier_constant; eauto. intros i s' P' G F (K & _). apply HQ; auto.
Qed.

Lemma wp_define_variable_top g l c0 g0 H0 s gacc H (Q : unit -> cstate -> Prop) :
  TopInv c0 -> post c0 g0 H0 (s_cur s) gacc H -> kstr (s_cur s) g -> (1 <= H)%N -> (H <= STACK_MAX)%N ->
  (forall s', ghost_ext c0 g0 H0 (s_cur s') gacc (H - 1)%N -> cgrow (s_cur s) (s_cur s') ->
              cframe (s_cur s) (s_cur s') -> Q tt s') ->
  wp (define_variable g l) s Q.
Proof.
  intros T P K H1 Hm HQ. pose proof (scope0 _ _ _ _ _ _ T P) as Hs.
  unfold define_variable. apply wp_bind. apply wp_cur. rewrite Hs. simpl.
  op16. destruct x. apply HQ; auto. fin.
Qed.

Definition fragS1 (st : lstmt) : bool :=
  match st with
  | LSExpr e _ => fragE e && (1 + tmpE e <=? STACK_MAX)%N
  | LSThrow e _ => fragE e && (1 + tmpE e <=? STACK_MAX)%N
  | LSVar _ _ _ => true
  | LSVarInit _ e _ => fragE e && (1 + tmpE e <=? STACK_MAX)%N
  | LSImport _ _ _ _ => true
  | _ => false
  end.
Fixpoint fragSs1 (l : lstmts) : bool :=
  match l with LSNil => true | LSCons s r => fragS1 s && fragSs1 r end.

Ltac useE :=
  bnd; eapply wp_use; [ apply expr_heights; assumption | eassumption | eapply ti_lb; eassumption
                      | erewrite ti_ar by eassumption; lia | lia | simpl; lia
                      | intros ?a ?s (?g & ?P & ?NH) ?Hn ?G ?F ]; cbv beta in *.

Lemma stmt_top st : fragS1 st = true -> stA (cstmt st).
Proof.
  destruct st; simpl; intros Hf; try discriminate; andbs;
    repeat match goal with H : (_ <=? _)%N = true |- _ => apply N.leb_le in H end;
    apply stA_wp; intros ss gg HI HT P0; pose proof (ti_ar _ HT) as Har0; poss;
    assert (HSM : (8 <= STACK_MAX)%N) by (unfold STACK_MAX; lia).
  - (* LSExpr *) useE. op0. fin.
  - (* LSVar *) sline. bnd. eapply wp_parse_variable_top; [eassumption | eassumption | intros ?i ?s ?P ?G ?F ?K].
    op0. eapply wp_define_variable_top; [eassumption | eassumption | eauto using kstr_grow | lia | lia
                                        | intros ?s (?g & ?P & ?NH) ?G ?F]. fin.
  - (* LSVarInit *) bnd. eapply wp_parse_variable_top; [eassumption | eassumption | intros ?i ?s ?P ?G ?F ?K].
    useE. eapply wp_define_variable_top; [eassumption | eassumption | eauto using kstr_grow | lia | lia
                                        | intros ?s (?g & ?P & ?NH) ?G ?F]. fin.
  - (* LSThrow *) useE.
    eapply wp_emit with (gi := mkG OpThrow 0 0 [] 2%N false) (H' := 1%N);
      [ apply emits_op | eassumption | simpl; lia | split; [simpl; lia | simpl; split; [reflexivity | lia]]
      | intros ? ?s ?P ?G ?F ?O ?Cl ].
    fin.
  - (* LSImport *) bnd. destruct (bytes_eqb path (bs "main")). apply wp_err. apply wp_ret.
    sline. ident. bnd. unfold declare_variable. apply wp_bind. apply wp_cur.
    rewrite (scope0 _ _ _ _ _ _ HT P). simpl. apply wp_ret.
    op16. op0. ident.
    eapply wp_define_variable_top; [eassumption | eassumption | eauto using kstr_grow | lia | lia
                                        | intros ?s (?g & ?P & ?NH) ?G ?F]. fin.
Qed.

Lemma stmts_top l : fragSs1 l = true -> stA (cstmts l).
Proof.
  induction l as [|st r IH]; simpl; intros Hf.
  - intros s u s' g E HI HT. inversion E; subst. exists []. split; auto with ht. apply post_refl; auto.
  - andbs. intros s u s' g E HI HT. unfold cbind in E.
    destruct (cstmt st s) as [[[] s1]|] eqn:E1; [|discriminate].
    destruct (stmt_top st H s tt s1 g E1 HI HT) as (g1 & P1 & N1).
    assert (HT1 : TopInv (s_cur s1)) by (eapply TopInv_frame; eauto; apply P1).
    destruct (IH H0 s1 u s' (g ++ g1) E (po_inv _ _ _ _ _ _ P1) HT1) as (g2 & P2 & N2).
    exists (g1 ++ g2). split; auto with ht. eapply post_trans; eauto.
Qed.

Definition retG : list ginstr := [mkG OpNil 0 0 [] 1%N false; mkG OpReturn 0 0 [] 2%N false].

Lemma emit_return_top l s u s' g :
  emit_return l s = COk (u, s') -> CInv (s_cur s) g 1%N -> TopInv (s_cur s) ->
  forall H', CInv (s_cur s') (g ++ retG) H'.
Proof.
  intros E HI HT H'. pose proof (post_refl _ _ _ HI) as P0. revert u s' E.
  change (wp (emit_return l) s (fun _ s' => CInv (s_cur s') (g ++ retG) H')).
  assert (HSM : (8 <= STACK_MAX)%N) by (unfold STACK_MAX; lia).
  unfold emit_return. apply wp_bind. apply wp_cur. rewrite (ti_kind _ HT), (ti_try _ HT). simpl.
  op0. bnd. apply wp_ret.
  eapply wp_emit with (gi := mkG OpReturn 0 0 [] 2%N false) (H' := H');
    [ apply emits_op | eassumption | simpl; lia | split; [simpl; lia | simpl; split; [reflexivity | lia]]
    | intros ? ?s ?P ?G ?F ?O ?Cl ].
  pose proof (po_inv _ _ _ _ _ _ P1) as X. simpl in X. unfold retG. simpl. rewrite <- ?app_assoc in X. exact X.
Qed.

Lemma TopInv_init : TopInv (s_cur init_state).
Proof.
  constructor; try reflexivity. intros x i. unfold init_state. simpl.
  match goal with |- context [if ?b then _ else _] => destruct b end; intros E; inversion E; subst; simpl; lia.
Qed.

Lemma CInv_init : CInv (s_cur init_state) [] 1%N.
Proof. constructor. reflexivity. apply gok_nil. Qed.

(* the static annotation of a straight-line script *)
Theorem script_ghost p f :
  fragSs1 (fst p) = true -> compile_program p = COk f ->
  exists G, f_code f = flat (G ++ retG) /\ noholes (G ++ retG) /\
            (forall H', gok (f_consts f) (f_upvalues f) (f_arity f) (G ++ retG) H') /\
            hdh (G ++ retG) 0%N = 1%N /\ f_arity f = 1%N.
Proof.
  intros Hf Hc. unfold compile_program in Hc.
  destruct ((cstmts (fst p);;; finalise_compiler (snd p)) init_state) as [[[f' us] s']|] eqn:E; [|discriminate].
  inversion Hc; subst f'; clear Hc. unfold cbind in E.
  destruct (cstmts (fst p) init_state) as [[[] s1]|] eqn:E1; [|discriminate].
  destruct (stmts_top _ Hf _ _ _ _ E1 CInv_init TopInv_init) as (G & P & NH).
  simpl in P. exists G.
  assert (HT1 : TopInv (s_cur s1)) by (eapply TopInv_frame; [apply TopInv_init | apply P]).
  unfold finalise_compiler, cbind in E.
  destruct (emit_return (snd p) s1) as [[[] s2]|] eqn:E2; [|discriminate].
  pose proof (emit_return_top _ _ _ _ _ E2 (po_inv _ _ _ _ _ _ P) HT1) as X. simpl in X.
  assert (Ef : f = func_of_comp (s_cur s2)) by (destruct (s_outer s2); inversion E; reflexivity).
  assert (Har : k_arity (s_cur s2) = 1%N).
  { unfold emit_return, cbind, cur in E2. rewrite (ti_kind _ HT1), (ti_try _ HT1) in E2. simpl in E2.
    unfold emit_op, emit_byte, cbind, upd, set_line in E2. inversion E2; subst. simpl. apply HT1. }
  subst f. simpl. split; [apply (X 0%N)|]. split.
  { apply noholes_app; auto. repeat constructor. }
  split; [intros H'; apply (X H')|]. split; auto.
  destruct (hat_0 (G ++ retG) 0%N) as []. pose proof (po_ext _ _ _ _ _ _ P 0 1%N eq_refl) as Y. simpl in Y.
  assert (Z : Lext (hat G 1%N) (hat (G ++ retG) 0%N)) by (apply Lext_app; reflexivity).
  apply Z in Y. rewrite hat_0 in Y. inversion Y; auto.
Qed.
Print Assumptions script_ghost.
