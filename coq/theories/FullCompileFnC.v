(* FullCompileFnC: from the static annotation (FullCompileFnA.gok) to the skeleton semantics:
   an invariant on Skeleton.fstate that contains the entry state, is closed under succs and is never Stuck. *)
From Coq Require Import Strings.Byte Strings.String.
From Coq Require Import List NArith ZArith Bool Arith Lia.
From Coq Require Import Floats.SpecFloat.
From YV Require Import Show Utf8 Num Ast Bytecode Skeleton VerifierProofs ParseLoc FullCompile FullCompileProofs.
From YV Require Import FullCompileFnA FullCompileFnB.
Import ListNotations.
Local Open Scope nat_scope.
Local Open Scope list_scope.

Fixpoint hat0 (g : list ginstr) (p : nat) : option N :=
  match g with
  | [] => None
  | gi :: r => if Nat.eqb p 0 then Some (g_h gi)
               else if Nat.ltb p (glen gi) then None else hat0 r (p - glen gi)
  end.

Lemma hat_lt_hat0 g H p : p < flen g -> hat g H p = hat0 g p.
Proof.
  revert p. induction g as [|gi r IH]; intros p Hp.
  - unfold flen in Hp; simpl in Hp; lia.
  - rewrite flen_cons in Hp. simpl. destruct (Nat.eqb p 0); auto.
    destruct (Nat.ltb p (glen gi)) eqn:E; auto. apply Nat.ltb_ge in E. apply IH. lia.
Qed.

Lemma hat0_decomp g p x : hat0 g p = Some x ->
  exists g1 gi g2, g = g1 ++ gi :: g2 /\ p = flen g1 /\ g_h gi = x.
Proof.
  revert p. induction g as [|gi r IH]; simpl; intros p Hp. discriminate.
  destruct (Nat.eqb p 0) eqn:E0.
  - apply Nat.eqb_eq in E0. inversion Hp; subst. exists [], gi, r. auto.
  - destruct (Nat.ltb p (glen gi)) eqn:E; [discriminate|]. apply Nat.ltb_ge in E.
    destruct (IH _ Hp) as (g1 & y & g2 & A & B & D). exists (gi :: g1), y, g2.
    subst. repeat split; auto. rewrite flen_cons. lia.
Qed.

Lemma hat_two G q x : hat G 0%N q = Some x -> hat G 1%N q = Some x -> hat0 G q = Some x.
Proof.
  intros A B. pose proof (hat_some_le _ _ _ _ A) as Hle.
  destruct (Nat.eq_dec q (flen G)) as [->|Hne].
  - rewrite hat_end in A, B. congruence.
  - rewrite <- (hat_lt_hat0 G 0%N) by lia. exact A.
Qed.

Definition ckind_ok (k : const) (ck : ckind) : Prop :=
  match k, ck with
  | KNum _, CNum => True
  | KStr _, CStr => True
  | KFun _, CFunc _ => True
  | _, _ => False
  end.

Definition dec (gi : ginstr) : instr :=
  match layout_of (g_op gi) with
  | L0 => mkInstr (g_op gi) 0 0 []
  | L8 | L16 | LClosure => mkInstr (g_op gi) (g_a gi) 0 []
  | L16_8 | L16_16 => mkInstr (g_op gi) (g_a gi) (g_b gi) []
  end.

Lemma opcode_rt o : opcode_of_N (N_of_opcode o) = Some o.
Proof. destruct o; reflexivity. Qed.
Lemma lohi a : (lo8 a + 256 * hi8 a = a)%N.
Proof. unfold lo8, hi8. rewrite N.add_comm. symmetry. apply N.div_mod. lia. Qed.

Lemma nth_error_Forall2 {A B} (R : A -> B -> Prop) l l' n a :
  Forall2 R l l' -> nth_error l n = Some a -> exists b, nth_error l' n = Some b /\ R a b.
Proof.
  intros H. revert n. induction H; intros [|n] E; simpl in *; try discriminate.
  - inversion E; subst. eauto.
  - eauto.
Qed.

Section Sem.
  Variables (P : program) (F : fn) (G : list ginstr) (ks : list const).
  Hypothesis Hcode : code F = flat G.
  Hypothesis Hbytes : Forall (fun b => (b < 256)%N) (flat G).
  Hypothesis Hok : forall H', gok ks (upvalue_count F) (arity F) G H'.
  Hypothesis Hnh : noholes G.
  (* pointwise agreement of the constant kinds; function constants: closure_arity; no captured variables *)
  Hypothesis Hks : forall c k, nth_error ks c = Some k -> exists ck, nth_error (consts F) c = Some ck /\ ckind_ok k ck.
  Hypothesis Hclo : forall a fn, nth_error ks (N.to_nat a) = Some (KFun fn) ->
                                 closure_arity P F a = Some (f_upvalues fn).
  Hypothesis Hnoup : forall a fn, nth_error ks a = Some (KFun fn) -> f_upvalues fn = 0%N.

  Definition SemInv (s : fstate) : Prop :=
    exists g1 gi g2, G = g1 ++ gi :: g2 /\ pc s = N.of_nat (flen g1) /\ h s = g_h gi /\
                     handlers s = [] /\ captured s = [] /\ pending s = None.

  Lemma byte_at_enc g1 gi g2 k bt q :
    G = g1 ++ gi :: g2 -> nth_error (enc gi) k = Some bt -> q = (N.of_nat (flen g1) + N.of_nat k)%N ->
    byte_at (code F) q = Some bt.
  Proof.
    intros EG Hn ->. unfold byte_at. rewrite Hcode, EG, flat_app.
    change (flat (gi :: g2)) with (enc gi ++ flat g2).
    rewrite <- Nat2N.inj_add, Nat2N.id.
    assert (Hk : k < length (enc gi)) by (apply nth_error_Some; congruence).
    unfold flen. rewrite nth_error_app2 by lia.
    replace (length (flat g1) + k - length (flat g1)) with k by lia.
    rewrite nth_error_app1 by auto. rewrite Hn.
    assert (Hb : (bt < 256)%N).
    { rewrite Forall_forall in Hbytes. apply Hbytes. rewrite EG, flat_app.
      change (flat (gi :: g2)) with (enc gi ++ flat g2).
      apply in_or_app; right. apply in_or_app; left. eapply nth_error_In; eauto. }
    apply N.ltb_lt in Hb. rewrite Hb. reflexivity.
  Qed.

  Lemma decode_gi g1 gi g2 :
    G = g1 ++ gi :: g2 -> layout_of (g_op gi) <> LClosure -> layout_of (g_op gi) <> L16_16 ->
    decode_at (byte_at (code F)) P F (N.of_nat (flen g1)) = Some (dec gi, N.of_nat (flen g1 + glen gi)).
  Proof.
    intros EG NC NX. set (q := N.of_nat (flen g1)).
    assert (B : forall k bt q', nth_error (enc gi) k = Some bt -> q' = (q + N.of_nat k)%N ->
                                byte_at (code F) q' = Some bt)
      by (intros; eapply byte_at_enc; eauto).
    unfold decode_at. rewrite (B 0 (N_of_opcode (g_op gi)) q) by (try reflexivity; lia).
    rewrite opcode_rt. unfold dec, glen. unfold enc in *.
    destruct (layout_of (g_op gi)) eqn:EL; try contradiction.
    - f_equal. f_equal. fold q. simpl. lia.
    - rewrite (B 1 (g_a gi) (q + 1)%N) by (try reflexivity; lia). f_equal. f_equal. fold q. simpl. lia.
    - unfold get16. rewrite (B 1 (lo8 (g_a gi)) (q + 1)%N) by (try reflexivity; lia).
      rewrite (B 2 (hi8 (g_a gi)) (q + 1 + 1)%N) by (try reflexivity; lia).
      rewrite lohi. f_equal. f_equal. fold q. simpl. lia.
    - unfold get16. rewrite (B 1 (lo8 (g_a gi)) (q + 1)%N) by (try reflexivity; lia).
      rewrite (B 2 (hi8 (g_a gi)) (q + 1 + 1)%N) by (try reflexivity; lia).
      rewrite (B 3 (g_b gi) (q + 3)%N) by (try reflexivity; lia).
      rewrite lohi. f_equal. f_equal. fold q. simpl. lia.
  Qed.

  Lemma const_ok_of rq a : kconst_ok ks rq a -> const_ok F rq a = None.
  Proof.
    destruct rq; simpl; auto; unfold const_at.
    - intros (k & Hk & Hnf). destruct (Hks _ _ Hk) as (ck & E & R). rewrite E.
      destruct k, ck; simpl in R; try contradiction; auto. exfalso. eapply Hnf; eauto.
    - intros (x & Hk). destruct (Hks _ _ Hk) as (ck & E & R). rewrite E.
      destruct ck; simpl in R; try contradiction; auto.
  Qed.

  (* a position that carries a height for both end heights is the start of an instruction of G *)
  Lemma target_ok q x : hat G 0%N q = Some x -> hat G 1%N q = Some x ->
    (forall ex, SemInv (Skeleton.mkS (N.of_nat q) x [] [] None ex)) /\ byte_at (code F) (N.of_nat q) <> None.
  Proof.
    intros A B. pose proof (hat_two _ _ _ A B) as Z. apply hat0_decomp in Z.
    destruct Z as (g1 & gi & g2 & EG & -> & Hh). split.
    - intros ex. exists g1, gi, g2. simpl. repeat split; auto.
    - erewrite (byte_at_enc g1 gi g2 0 (N_of_opcode (g_op gi))); eauto. discriminate. lia.
  Qed.

  Lemma se_dec f gi hh : simple_effect f (dec gi) hh = simple_effect f (gi_instr gi) hh.
  Proof. destruct gi as [op a b uvs h0 hole]. destruct op; reflexivity. Qed.

  Lemma se_layout f gi hh e : simple_effect f (gi_instr gi) hh = Some e ->
    layout_of (g_op gi) <> LClosure /\ layout_of (g_op gi) <> L16_16.
  Proof. destruct gi as [op a b uvs h0 hole]. destruct op; simpl; intros E; try discriminate; split; discriminate. Qed.

  Lemma const_dec f gi hh e : simple_effect f (gi_instr gi) hh = Some e ->
    const_ok F (e_const e) (ia (dec gi)) = const_ok F (e_const e) (g_a gi).
  Proof.
    destruct gi as [op a b uvs h0 hole]. destruct op; simpl; intros E; inversion E; subst; reflexivity.
  Qed.

  Lemma step_ok_local g1 gi g2 ex :
    G = g1 ++ gi :: g2 -> g_op gi <> OpClosure ->
    exists l, succs false P F (Skeleton.mkS (N.of_nat (flen g1)) (g_h gi) [] [] None ex) = Some l /\
              forall s', In s' l -> SemInv s'.
  Proof.
    intros EG Hnc.
    destruct (Hok 0%N g1 gi g2 EG) as [Hmax I0]. destruct (Hok 1%N g1 gi g2 EG) as [_ I1].
    assert (Hhole : g_hole gi = false).
    { unfold noholes in Hnh. rewrite Forall_forall in Hnh. apply Hnh. rewrite EG. apply in_elt. }
    unfold succs, succs_at, step_at.
    cbn [Skeleton.pc Skeleton.h Skeleton.handlers Skeleton.captured Skeleton.pending Skeleton.exc].
    destruct (N.ltb_spec STACK_MAX (g_h gi)); [lia|].
    set (nx := flen g1 + glen gi) in *.
    destruct (simple_effect (fn0 (arity F) (upvalue_count F)) (gi_instr gi) (g_h gi)) as [e|] eqn:Hse.
    - destruct (se_layout _ _ _ _ Hse) as [NC NX].
      rewrite (decode_gi g1 gi g2 EG NC NX). fold nx.
      rewrite se_dec, simple_effect_fn0, Hse.
      destruct I0 as (_ & Hchk & Hk & Hneed & L0). destruct I1 as (_ & _ & _ & _ & L1).
      unfold step_simple. cbn [Skeleton.h Skeleton.captured Skeleton.handlers Skeleton.pending Skeleton.exc].
      rewrite Hchk, (const_dec _ _ _ _ Hse), (const_ok_of _ _ Hk).
      apply N.leb_le in Hneed. rewrite Hneed. simpl negb. cbn [captured_below forallb negb].
      destruct (target_ok _ _ L0 L1) as [TI _].
      unfold exc_edge. cbn [Skeleton.handlers].
      eexists. split.
      + destruct (e_throw e); simpl; reflexivity.
      + intros s' [<-|[]]. apply TI.
    - assert (NC : layout_of (g_op gi) <> LClosure /\ layout_of (g_op gi) <> L16_16).
      { destruct gi as [op a b uvs hh hole]. destruct op; simpl in *; try discriminate; try contradiction; try (exfalso; apply Hnc; reflexivity); split; discriminate. }
      rewrite (decode_gi g1 gi g2 EG (proj1 NC) (proj2 NC)). fold nx.
      rewrite se_dec, simple_effect_fn0, Hse.
      destruct gi as [op a b uvs hh hole]. simpl in Hhole. subst hole.
      destruct op; simpl in Hse; try discriminate; simpl in I0, I1; try contradiction; try (exfalso; apply Hnc; reflexivity);
        unfold dec; cbn [layout_of g_op g_a g_b g_h g_hole g_uvs iop ia ib Skeleton.h Skeleton.handlers Skeleton.pending Skeleton.captured Skeleton.exc].
      + (* Jump *) destruct I0 as [I0|I0]; [discriminate|]. destruct I1 as [I1|I1]; [discriminate|].
        fold nx in I0, I1. destruct (target_ok _ _ I0 I1) as [TI TB].
        unfold in_code. replace (N.of_nat nx + a)%N with (N.of_nat (nx + N.to_nat a)) by lia.
        destruct (byte_at (code F) (N.of_nat (nx + N.to_nat a))); [|contradiction].
        eexists; split; [reflexivity|]. intros s' [<-|[]]. apply TI.
      + (* JumpIfFalse *) destruct I0 as (Hz & F0 & [I0|I0]); [discriminate|]. destruct I1 as (_ & F1 & [I1|I1]); [discriminate|].
        fold nx in I0, I1, F0, F1. destruct (target_ok _ _ I0 I1) as [TI TB]. destruct (target_ok _ _ F0 F1) as [TF _].
        apply N.eqb_neq in Hz. rewrite Hz.
        unfold in_code. replace (N.of_nat nx + a)%N with (N.of_nat (nx + N.to_nat a)) by lia.
        destruct (byte_at (code F) (N.of_nat (nx + N.to_nat a))); [|contradiction].
        eexists; split; [reflexivity|]. intros s' [<-|[<-|[]]]. apply TF. apply TI.
      + (* JumpIfStopIter *) destruct I0 as (Hz & F0 & [I0|I0]); [discriminate|]. destruct I1 as (_ & F1 & [I1|I1]); [discriminate|].
        fold nx in I0, I1, F0, F1. destruct (target_ok _ _ I0 I1) as [TI TB]. destruct (target_ok _ _ F0 F1) as [TF _].
        apply N.eqb_neq in Hz. rewrite Hz.
        unfold in_code. replace (N.of_nat nx + a)%N with (N.of_nat (nx + N.to_nat a)) by lia.
        destruct (byte_at (code F) (N.of_nat (nx + N.to_nat a))); [|contradiction].
        eexists; split; [reflexivity|]. intros s' [<-|[<-|[]]]. apply TF. apply TI.
      + (* Loop *) destruct I0 as (_ & Hle & I0). destruct I1 as (_ & _ & I1). fold nx in I0, I1, Hle.
        destruct (target_ok _ _ I0 I1) as [TI _].
        assert (Hle' : (a <=? N.of_nat nx)%N = true) by (apply N.leb_le; lia). rewrite Hle'.
        replace (N.of_nat nx - a)%N with (N.of_nat (nx - N.to_nat a)) by lia.
        eexists; split; [reflexivity|]. intros s' [<-|[]]. apply TI.
      + (* Throw *) destruct I0 as (_ & Hz). apply N.eqb_neq in Hz. rewrite Hz.
        unfold exc_edge. cbn [Skeleton.handlers]. eexists; split; [reflexivity|]. intros s' [].
      + (* CloseUpvalue *) destruct I0 as (_ & Har & I0). destruct I1 as (_ & _ & I1). fold nx in I0, I1.
        destruct (target_ok _ _ I0 I1) as [TI _]. apply N.ltb_lt in Har. rewrite Har.
        eexists; split; [reflexivity|]. intros s' [<-|[]]. simpl. apply TI.
      + (* Return *) destruct I0 as (_ & Hz). apply N.eqb_neq in Hz. rewrite Hz.
        eexists; split; [reflexivity|]. intros s' [].
  Qed.

  Lemma step_ok_closure g1 gi g2 ex :
    G = g1 ++ gi :: g2 -> g_op gi = OpClosure ->
    exists l, succs false P F (Skeleton.mkS (N.of_nat (flen g1)) (g_h gi) [] [] None ex) = Some l /\
              forall s', In s' l -> SemInv s'.
  Proof.
    intros EG Ho.
    destruct (Hok 0%N g1 gi g2 EG) as [Hmax I0]. destruct (Hok 1%N g1 gi g2 EG) as [_ I1].
    destruct gi as [op a b uvs hh hole]. simpl in Ho. subst op. simpl in I0, I1, Hmax.
    destruct I0 as (Hh & (fn & Hfn & Hup) & L0). destruct I1 as (_ & _ & L1). simpl in Hh. subst hole.
    assert (Hu0 : f_upvalues fn = 0%N) by (eapply Hnoup; eauto).
    assert (uvs = []) by (destruct uvs; auto; rewrite Hu0 in Hup; simpl in Hup; lia). subst uvs.
    set (gi := mkG OpClosure a b [] hh false) in *.
    destruct (target_ok _ _ L0 L1) as [TI _].
    set (q := N.of_nat (flen g1)).
    assert (B : forall k bt q', nth_error (enc gi) k = Some bt -> q' = (q + N.of_nat k)%N ->
                                byte_at (code F) q' = Some bt)
      by (intros; eapply byte_at_enc; eauto).
    unfold succs, succs_at, step_at.
    cbn [Skeleton.pc Skeleton.h Skeleton.handlers Skeleton.captured Skeleton.pending Skeleton.exc g_h].
    unfold decode_at. fold q.
    rewrite (B 0 (N_of_opcode OpClosure) q) by (try reflexivity; lia).
    change (opcode_of_N (N_of_opcode OpClosure)) with (Some OpClosure). cbn [layout_of].
    unfold get16. rewrite (B 1 (lo8 a) (q + 1)%N) by (try reflexivity; lia).
    rewrite (B 2 (hi8 a) (q + 1 + 1)%N) by (try reflexivity; lia).
    rewrite lohi, (Hclo a fn Hfn), Hu0. cbn [N.to_nat read_uvs].
    cbn [simple_effect iop uvs_ok iuvs capture_all Skeleton.h Skeleton.handlers Skeleton.captured Skeleton.pending Skeleton.exc].
    replace (STACK_MAX <? g_h gi)%N with false by (symmetry; apply N.ltb_ge; exact Hmax).
    eexists. split; [reflexivity|]. intros s' [<-|[]].
    replace (q + 3 + 2 * 0)%N with (N.of_nat (flen g1 + glen gi)) by (unfold q, gi, glen; simpl; lia).
    apply TI.
  Qed.

  Lemma step_ok s : SemInv s -> exists l, succs false P F s = Some l /\ forall s', In s' l -> SemInv s'.
  Proof.
    intros (g1 & gi & g2 & EG & Hpc & Hh & Hha & Hca & Hpe).
    destruct s as [pc0 h0 hs cap pend ex]. simpl in Hpc, Hh, Hha, Hca, Hpe. subst pc0 h0 hs cap pend.
    destruct (g_op gi) eqn:Eo; try (eapply step_ok_local; eauto; rewrite Eo; discriminate).
    eapply step_ok_closure; eauto.
  Qed.

  Hypothesis Hentry : hdh G 0%N = arity F.
  Hypothesis Hne : G <> [].

  Theorem sem_safe s : reachable false P F s -> succs false P F s <> None.
  Proof.
    intros Hr. assert (Hi : SemInv s).
    { induction Hr.
      - destruct G as [|gi r] eqn:EG; [congruence|]. exists [], gi, r. simpl in *. repeat split; auto.
      - destruct (step_ok _ IHHr) as (l' & E & Hl). rewrite E in H. inversion H; subst. auto. }
    destruct (step_ok _ Hi) as (l & E & _). rewrite E. discriminate.
  Qed.
End Sem.
Print Assumptions sem_safe.
