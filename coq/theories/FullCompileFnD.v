(* FullCompileFnD: the locals side.  Statement triples for scripts with blocks, local variables, if / if-else and
   while (no break / continue yet), re-based `post`, end_scope, emit_loop; headline for the larger fragment. *)
From Coq Require Import Strings.Byte Strings.String.
From Coq Require Import List NArith ZArith Bool Arith Lia.
From Coq Require Import Floats.SpecFloat.
From YV Require Import Show Utf8 Num Ast Bytecode Skeleton VerifierProofs ParseLoc FullCompile FullCompileProofs.
From YV Require Import FullCompileFnA FullCompileFnB FullCompileFnC.
Import ListNotations.
Local Open Scope nat_scope.
Local Open Scope list_scope.
Local Open Scope comp_scope.

Definition key : Type := list byte * option nat.
Definition lks (c : comp) : list key := map lkey (k_locals c).
Definition nloc (c : comp) : N := N.of_nat (length (k_locals c)).
Definition ctl (c : comp) := (k_scope c, k_loops c, k_breaks c).
Definition kinit (d : nat) (k : key) : Prop := exists v, snd k = Some v /\ v <= d.

Lemma nloc_lks c : nloc c = N.of_nat (length (lks c)).
Proof. unfold nloc, lks. rewrite map_length. reflexivity. Qed.

(* what no step of the try-free fragment changes, plus growth of the tables *)
Record wk (c c' : comp) : Prop := mkWk {
  wk_kind : k_kind c' = k_kind c;
  wk_arity : k_arity c' = k_arity c;
  wk_try : k_in_try c' = k_in_try c;
  wk_tryd : k_try_depth c' = k_try_depth c;
  wk_gr : cgrow c c'
}.
Lemma wk_refl c : wk c c. Proof. constructor; auto using cgrow_refl. Qed.
Lemma wk_trans a b c : wk a b -> wk b c -> wk a c.
Proof. intros [] []; constructor; try congruence. eapply cgrow_trans; eauto. Qed.
Lemma wk_of_frame c c' : cframe c c' -> cgrow c c' -> wk c c'.
Proof. intros [] G. constructor; auto. Qed.

(* a step that changes only locals / scope / loop bookkeeping of the current compiler *)
Record tweak (c c' : comp) : Prop := mkTw {
  tw_code : k_code c' = k_code c;
  tw_consts : k_consts c' = k_consts c;
  tw_ups : k_upvalues c' = k_upvalues c;
  tw_kind : k_kind c' = k_kind c;
  tw_arity : k_arity c' = k_arity c;
  tw_try : k_in_try c' = k_in_try c;
  tw_tryd : k_try_depth c' = k_try_depth c
}.
Lemma wk_of_tweak c c' : tweak c c' -> wk c c'.
Proof.
  intros []. constructor; auto. constructor. exists []. rewrite app_nil_r; auto. unfold nupN. rewrite tw_ups0. lia. rewrite tw_consts0; auto.
Qed.

Lemma post_rebase c0 g0 H0 c gacc H c' : post c0 g0 H0 c gacc H -> tweak c c' -> post c' g0 H0 c' gacc H.
Proof.
  intros [[Pc Pg] Pe _ _] []. constructor; auto using cframe_refl, cgrow_refl.
  constructor. congruence. unfold nupN. rewrite tw_consts0, tw_ups0, tw_arity0. exact Pg.
Qed.

Lemma post_reframe c0 g0 H0 c gacc H : post c0 g0 H0 c gacc H -> post c g0 H0 c gacc H.
Proof. intros [Pi Pe _ _]. constructor; auto using cframe_refl, cgrow_refl. Qed.

(* ---------- the statement-level invariant ---------- *)
Record SInv (c : comp) : Prop := mkSInv {
  si_init : Forall (kinit (k_scope c)) (lks c);
  si_len : length (k_locals c) <= 256;
  si_try : k_in_try c = false;
  si_ar : (k_arity c <= nloc c)%N
}.

Lemma resolve_keys x ls : forall i, resolve_local_in x ls = LFound i -> i < length ls.
Proof. intros. eapply resolve_local_lt; eauto. Qed.

Lemma lb_full c : lb c (nloc c).
Proof. intros x i E. apply resolve_local_lt in E. unfold nloc. lia. Qed.

Lemma lb_uninit c c' x b H : k_locals c' = mkKL x None b :: k_locals c -> lb c H -> lb c' H.
Proof.
  intros E Hl y i. rewrite E. simpl. destruct (bytes_eqb x y). discriminate. apply Hl.
Qed.

(* ---------- pops at a scope end ---------- *)
Definition is_pop (o : opcode) : Prop := o = OpPop \/ o = OpCloseUpvalue.

Lemma wp_pops ops l : Forall is_pop ops ->
  forall cb g0 H0 s gacc H (Q : unit -> cstate -> Prop),
  post cb g0 H0 (s_cur s) gacc H -> (k_arity (s_cur s) + N.of_nat (length ops) <= H)%N -> (H <= STACK_MAX)%N ->
  (forall s', ghost_ext cb g0 H0 (s_cur s') gacc (H - N.of_nat (length ops))%N ->
              cgrow (s_cur s) (s_cur s') -> cframe (s_cur s) (s_cur s') -> Q tt s') ->
  wp (emit_ops ops l) s Q.
Proof.
  induction 1 as [|o ops Ho Hops IH]; intros cb g0 H0 s gacc H Q P Har Hm HQ; simpl.
  - apply wp_ret. apply HQ; auto using cgrow_refl, cframe_refl. exists []. rewrite app_nil_r.
    split; auto with ht. eapply post_eqH; eauto. simpl. lia.
  - cbn [length] in Har. destruct Ho as [-> | ->].
    + apply wp_bind.
      eapply wp_simple with (o := OpPop) (a := 0%N) (b := 0%N);
        [ apply emits_op | eassumption | reflexivity | | exact I | simpl; lia | lia | ].
      { simpl. unfold chk. destruct (N.ltb_spec (k_arity (s_cur s)) H); auto. lia. }
      intros [] s1 P1 G1 F1 _ _. simpl in P1.
      eapply IH; [ exact P1 | rewrite (fr_arity _ _ F1); lia | lia | ].
      intros s2 (gp & P2 & N2) G2 F2. apply HQ; [ | eapply cgrow_trans; eauto | eapply cframe_trans; eauto ].
      exists ([mkG OpPop 0 0 [] H false] ++ gp). split; auto with ht.
      rewrite app_assoc. eapply post_eqH; eauto. cbn [length]. lia.
    + apply wp_bind.
      eapply wp_emit with (gi := mkG OpCloseUpvalue 0 0 [] H false) (H' := (H - 1)%N);
        [ apply emits_op | eassumption | reflexivity | | ].
      { split; [exact Hm|]. simpl. split; [reflexivity|]. split; [lia|].
        exact (hat_snoc_end (g0 ++ gacc) (mkG OpCloseUpvalue 0 0 [] H false) (H - 1)%N). }
      intros [] s1 P1 G1 F1 _ _.
      eapply IH; [ exact P1 | rewrite (fr_arity _ _ F1); lia | lia | ].
      intros s2 (gp & P2 & N2) G2 F2. apply HQ; [ | eapply cgrow_trans; eauto | eapply cframe_trans; eauto ].
      exists ([mkG OpCloseUpvalue 0 0 [] H false] ++ gp). split; auto with ht.
      rewrite app_assoc. eapply post_eqH; eauto. cbn [length]. lia.
Qed.

Lemma scope_end_spec d : forall news ls old,
  map lkey ls = news ++ old -> Forall (fun k : key => snd k = Some (S d)) news -> Forall (kinit d) old ->
  length (scope_end_ops d ls) = length news /\ Forall is_pop (scope_end_ops d ls).
Proof.
  induction news as [|k news IH]; intros ls old E Hn Ho.
  - simpl in E. destruct ls as [|l r]; simpl. auto.
    simpl in E. subst old. inversion Ho as [|? ? [v [Hv Hle]] _]; subst. simpl in Hv. rewrite Hv.
    apply Nat.leb_le in Hle. rewrite Hle. auto.
  - destruct ls as [|l r]; [discriminate|]. simpl in E. inversion E as [[E1 E2]].
    inversion Hn as [|? ? Hk Hn']; subst. simpl in Hk. simpl. rewrite Hk.
    replace (Nat.leb (S d) d) with false by (symmetry; apply Nat.leb_gt; lia).
    destruct (IH r old E2 Hn' Ho) as [A B]. split. simpl. lia.
    constructor; auto. destruct (kl_captured l); [right|left]; reflexivity.
Qed.

Lemma skipn_keys n ls news old : map lkey ls = news ++ old -> n = length news -> map lkey (skipn n ls) = old.
Proof.
  intros E ->. rewrite <- skipn_map, E. rewrite skipn_app, Nat.sub_diag, skipn_all. reflexivity.
Qed.

(* ---------- steps that only change bookkeeping: all are `upd f` ---------- *)
Lemma wp_upd f cb g0 H0 s gacc H (Q : unit -> cstate -> Prop) :
  tweak (s_cur s) (f (s_cur s)) -> post cb g0 H0 (s_cur s) gacc H ->
  (forall s', s_cur s' = f (s_cur s) -> post (s_cur s') g0 H0 (s_cur s') gacc H -> Q tt s') ->
  wp (upd f) s Q.
Proof.
  intros T P HQ u s' E. unfold upd in E. inversion E; subst. apply HQ. reflexivity.
  simpl. eapply post_rebase; eauto.
Qed.

Lemma wp_begin_scope cb g0 H0 s gacc H (Q : unit -> cstate -> Prop) :
  post cb g0 H0 (s_cur s) gacc H ->
  (forall s', post (s_cur s') g0 H0 (s_cur s') gacc H -> wk (s_cur s) (s_cur s') ->
              k_locals (s_cur s') = k_locals (s_cur s) ->
              ctl (s_cur s') = (S (k_scope (s_cur s)), k_loops (s_cur s), k_breaks (s_cur s)) -> Q tt s') ->
  wp begin_scope s Q.
Proof.
  intros P HQ. unfold begin_scope. eapply wp_upd; eauto. constructor; reflexivity.
  intros s' E P'. apply HQ; auto; rewrite E; try reflexivity. apply wk_of_tweak. constructor; reflexivity.
Qed.

Lemma wp_end_scope l d news old cb g0 H0 s gacc (Q : unit -> cstate -> Prop) :
  post cb g0 H0 (s_cur s) gacc (nloc (s_cur s)) ->
  lks (s_cur s) = news ++ old -> k_scope (s_cur s) = S d ->
  Forall (fun k : key => snd k = Some (S d)) news -> Forall (kinit d) old ->
  (k_arity (s_cur s) <= N.of_nat (length old))%N -> (nloc (s_cur s) <= STACK_MAX)%N ->
  (forall s', (exists gp, post (s_cur s') g0 H0 (s_cur s') (gacc ++ gp) (N.of_nat (length old)) /\ noholes gp) ->
              wk (s_cur s) (s_cur s') -> lks (s_cur s') = old ->
              ctl (s_cur s') = (d, k_loops (s_cur s), k_breaks (s_cur s)) -> Q tt s') ->
  wp (end_scope l) s Q.
Proof.
  intros P Hl Hs Hn Ho Har Hm HQ. unfold end_scope.
  apply wp_bind. eapply wp_upd; [constructor; reflexivity | exact P |]. intros s1 E1 P1.
  apply wp_bind. apply wp_cur. unfold emit_scope_end. apply wp_bind. apply wp_cur.
  assert (El : k_locals (s_cur s1) = k_locals (s_cur s)) by (rewrite E1; reflexivity).
  assert (Es : k_scope (s_cur s1) = d) by (rewrite E1; cbn [k_scope with_scope]; rewrite Hs; reflexivity).
  rewrite Es, El. unfold lks in Hl.
  destruct (scope_end_spec d news (k_locals (s_cur s)) old Hl Hn Ho) as [Hlen Hpop].
  assert (Hnl : nloc (s_cur s) = N.of_nat (length news + length old)).
  { unfold nloc. rewrite <- (map_length lkey), Hl, app_length. reflexivity. }
  apply wp_bind. eapply wp_pops; [exact Hpop | exact P1 | | exact Hm |].
  { rewrite E1. cbn [k_arity with_scope]. rewrite Hlen, Hnl. unfold key in *. lia. }
  intros s2 (gp & P2 & N2) G2 F2.
  eapply wp_upd; [constructor; reflexivity | exact P2 |]. intros s3 E3 P3.
  apply HQ.
  - exists gp. split; auto. eapply post_eqH; eauto. rewrite Hlen, Hnl. unfold key in *. lia.
  - apply wk_trans with (s_cur s1). apply wk_of_tweak. rewrite E1. constructor; reflexivity.
    apply wk_trans with (s_cur s2). eapply wk_of_frame; eauto. apply wk_of_tweak. rewrite E3. constructor; reflexivity.
  - unfold lks. rewrite E3. cbn [k_locals with_locals].
    pose proof (fr_locals _ _ F2) as FL. rewrite El in FL.
    eapply skipn_keys. rewrite FL. exact Hl. exact Hlen.
  - unfold ctl. rewrite E3. cbn [k_scope k_loops k_breaks with_locals].
    rewrite (fr_scope _ _ F2), (fr_loops _ _ F2), (fr_breaks _ _ F2), Es. rewrite E1. reflexivity.
Qed.

(* declare_variable at scope depth > 0 *)
Lemma wp_declare_local x l cb g0 H0 s gacc H (Q : unit -> cstate -> Prop) :
  post cb g0 H0 (s_cur s) gacc H -> k_scope (s_cur s) <> 0 -> length (k_locals (s_cur s)) <= 256 ->
  (forall s', post (s_cur s') g0 H0 (s_cur s') gacc H -> wk (s_cur s) (s_cur s') ->
              k_locals (s_cur s') = mkKL x None false :: k_locals (s_cur s) ->
              length (k_locals (s_cur s')) <= 256 -> ctl (s_cur s') = ctl (s_cur s) -> Q tt s') ->
  wp (declare_variable x l) s Q.
Proof.
  intros P Hs Hlen HQ. unfold declare_variable. apply wp_bind. apply wp_cur.
  apply Nat.eqb_neq in Hs. rewrite Hs.
  destruct (declared_in_scope _ _ _). apply wp_err.
  apply wp_bind. unfold add_local. apply wp_bind. apply wp_cur.
  destruct (Nat.eqb (length (k_locals (s_cur s))) LOCALS_MAX) eqn:E.
  - apply wp_ret. apply wp_err.
  - apply wp_bind. eapply wp_upd; [constructor; reflexivity | exact P |]. intros s1 E1 P1.
    apply wp_ret. apply wp_ret. apply Nat.eqb_neq in E. unfold LOCALS_MAX in E.
    apply HQ; auto; try (rewrite E1; reflexivity).
    + apply wk_of_tweak. rewrite E1. constructor; reflexivity.
    + rewrite E1. cbn [k_locals with_locals length]. lia.
Qed.

(* mark_initialised at scope depth > 0, the newest local being the one just declared *)
Lemma wp_mark_initialised x b r cb g0 H0 s gacc H (Q : unit -> cstate -> Prop) :
  post cb g0 H0 (s_cur s) gacc H -> k_scope (s_cur s) <> 0 -> k_locals (s_cur s) = mkKL x None b :: r ->
  (forall s', post (s_cur s') g0 H0 (s_cur s') gacc H -> wk (s_cur s) (s_cur s') ->
              k_locals (s_cur s') = mkKL x (Some (k_scope (s_cur s))) b :: r ->
              ctl (s_cur s') = ctl (s_cur s) -> Q tt s') ->
  wp mark_initialised s Q.
Proof.
  intros P Hs El HQ. unfold mark_initialised. apply wp_bind. apply wp_cur.
  apply Nat.eqb_neq in Hs. rewrite Hs. unfold mark_last_initialised.
  eapply wp_upd; [ | exact P | ].
  - rewrite El. constructor; reflexivity.
  - intros s1 E1 P1. rewrite El in E1. apply HQ; auto; try (rewrite E1; reflexivity).
    apply wk_of_tweak. rewrite E1. constructor; reflexivity.
Qed.

Lemma wp_push_loop cb g0 H0 s gacc H (Q : unit -> cstate -> Prop) :
  post cb g0 H0 (s_cur s) gacc H ->
  (forall s', post (s_cur s') g0 H0 (s_cur s') gacc H -> wk (s_cur s) (s_cur s') ->
              k_locals (s_cur s') = k_locals (s_cur s) ->
              ctl (s_cur s') = (k_scope (s_cur s),
                                (length (k_code (s_cur s)), k_scope (s_cur s), k_try_depth (s_cur s)) :: k_loops (s_cur s),
                                [] :: k_breaks (s_cur s)) -> Q tt s') ->
  wp push_loop s Q.
Proof.
  intros P HQ. unfold push_loop. eapply wp_upd; eauto. constructor; reflexivity.
  intros s' E P'. apply HQ; auto; rewrite E; try reflexivity. apply wk_of_tweak. constructor; reflexivity.
Qed.

(* pop_loop when no break was recorded *)
Lemma wp_pop_loop0 lp lps bks cb g0 H0 s gacc H (Q : unit -> cstate -> Prop) :
  post cb g0 H0 (s_cur s) gacc H -> k_loops (s_cur s) = lp :: lps -> k_breaks (s_cur s) = [] :: bks ->
  (forall s', post (s_cur s') g0 H0 (s_cur s') gacc H -> wk (s_cur s) (s_cur s') ->
              k_locals (s_cur s') = k_locals (s_cur s) ->
              ctl (s_cur s') = (k_scope (s_cur s), lps, bks) -> Q tt s') ->
  wp pop_loop s Q.
Proof.
  intros P El Eb HQ. unfold pop_loop. apply wp_bind. apply wp_cur. rewrite Eb. simpl rev.
  apply wp_bind. eapply wp_upd; [constructor; reflexivity | exact P |]. intros s1 E1 P1.
  simpl. apply wp_ret. apply HQ; auto; rewrite E1; try reflexivity.
  - apply wk_of_tweak. constructor; reflexivity.
  - unfold ctl. cbn [k_scope k_loops k_breaks with_loops]. rewrite El, Eb. reflexivity.
Qed.

(* ---------- the back edge ---------- *)
Lemma emit_loop_spec ls l s u s' : emit_loop ls l s = COk (u, s') ->
  let off := N.of_nat (length (k_code (s_cur s)) + 1 - ls + 2) in
  emitted [N_of_opcode OpLoop; lo8 off; hi8 off] s s'.
Proof.
  unfold emit_loop, emit_op, emit_byte, cbind, upd, set_line, code_len. cbn [s_cur s_outer s_classes s_line k_code with_code].
  rewrite app_length. cbn [length].
  destruct (N.ltb JUMP_SIZE_MAX _); [discriminate|].
  unfold emit_u16, emit_byte, cbind, upd, set_line. cbn [s_cur s_outer s_classes s_line k_code k_lines with_code].
  intros H; inversion H; subst; clear H. split; [|split]; try reflexivity.
  eexists. unfold with_code. cbn [k_code k_lines k_kind k_name k_arity k_consts k_locals k_upvalues k_scope k_lambdas k_in_try k_try_depth k_loops k_breaks].
  rewrite <- !app_assoc. reflexivity.
Qed.

Lemma wp_emit_loop ls l cb g0 H0 s gacc H H' (Q : unit -> cstate -> Prop) :
  post cb g0 H0 (s_cur s) gacc H -> ls <= flen (g0 ++ gacc) -> hat (g0 ++ gacc) H ls = Some H ->
  (H <= STACK_MAX)%N ->
  (forall s', (exists gi, post cb g0 H0 (s_cur s') (gacc ++ [gi]) H' /\ g_hole gi = false) ->
              cgrow (s_cur s) (s_cur s') -> cframe (s_cur s) (s_cur s') -> Q tt s') ->
  wp (emit_loop ls l) s Q.
Proof.
  intros P Hle HL Hm HQ u s' E. apply emit_loop_spec in E.
  rewrite (ci_code _ _ _ (po_inv _ _ _ _ _ _ P)) in E. fold (flen (g0 ++ gacc)) in E.
  set (off := N.of_nat (flen (g0 ++ gacc) + 1 - ls + 2)) in *.
  set (gi := mkG OpLoop off 0 [] H false).
  assert (Hi : iok (hat ((g0 ++ gacc) ++ [gi]) H') (k_consts (s_cur s)) (nupN (s_cur s)) (k_arity (s_cur s))
                   (flen (g0 ++ gacc)) gi).
  { split; [exact Hm|]. simpl. split; [reflexivity|].
    change (glen gi) with 3. unfold off. rewrite Nat2N.id. split; [lia|].
    replace (flen (g0 ++ gacc) + 3 - (flen (g0 ++ gacc) + 1 - ls + 2)) with ls by lia.
    eapply (Lext_app (g0 ++ gacc) [gi] H H'); [reflexivity | exact HL]. }
  pose proof (emit_post s s' (g0 ++ gacc) H gi H' E (po_inv _ _ _ _ _ _ P) eq_refl Hi) as P2.
  destruct u. apply HQ; try apply P2. exists gi. split; [|reflexivity]. eapply post_trans; eauto.
Qed.

(* ================================================================== *)
(* statement triples                                                    *)
Definition sresx (c : comp) (g : list ginstr) (c' : comp) (g' : list ginstr) (news : list key) : Prop :=
  CInv c' (g ++ g') (nloc c') /\ Lext (hat g (nloc c)) (hat (g ++ g') (nloc c')) /\ noholes g' /\
  wk c c' /\ ctl c' = ctl c /\ lks c' = news ++ lks c /\
  Forall (fun k : key => snd k = Some (k_scope c)) news /\ length (k_locals c') <= 256.
Definition sres (c : comp) (g : list ginstr) (c' : comp) : Prop := exists g' news, sresx c g c' g' news.

Definition striple (m : C unit) : Prop :=
  forall s g, CInv (s_cur s) g (nloc (s_cur s)) -> SInv (s_cur s) ->
    wp m s (fun _ s' => sres (s_cur s) g (s_cur s')).

Lemma SInv_sres c g c' : SInv c -> sres c g c' -> SInv c'.
Proof.
  intros [A B D E] (g' & news & _ & _ & _ & W & Ec & El & Hn & Hlen).
  assert (Es : k_scope c' = k_scope c) by (unfold ctl in Ec; congruence).
  constructor; auto.
  - rewrite El, Es. apply Forall_app. split; auto.
    eapply Forall_impl; [|exact Hn]. intros k Hk. exists (k_scope c). auto.
  - rewrite (wk_try _ _ W). auto.
  - rewrite (wk_arity _ _ W). rewrite !nloc_lks, El, app_length in *. lia.
Qed.

Lemma sres_of_ext c g c' :
  ghost_ext c g (nloc c) c' [] (nloc c) -> length (k_locals c) <= 256 -> sres c g c'.
Proof.
  intros (g' & P & NH) Hl. simpl in P. destruct P as [Pi Pe Pf Pg].
  assert (En : nloc c' = nloc c).
  { unfold nloc. rewrite <- (map_length lkey (k_locals c')), (fr_locals _ _ Pf), map_length. reflexivity. }
  exists g', []. unfold sresx. rewrite En.
  split; [exact Pi|]. split; [exact Pe|]. split; [exact NH|].
  split; [apply wk_of_frame; auto|].
  split. { unfold ctl. rewrite (fr_scope _ _ Pf), (fr_loops _ _ Pf), (fr_breaks _ _ Pf). reflexivity. }
  split. { unfold lks. rewrite (fr_locals _ _ Pf). reflexivity. }
  split; [constructor|]. unfold nloc in En. lia.
Qed.

Lemma wp_stmt_use m cb g0 H0 s gacc (Q : unit -> cstate -> Prop) :
  striple m -> post cb g0 H0 (s_cur s) gacc (nloc (s_cur s)) -> SInv (s_cur s) ->
  (forall s' g' news, post (s_cur s') g0 H0 (s_cur s') (gacc ++ g') (nloc (s_cur s')) -> noholes g' ->
        wk (s_cur s) (s_cur s') -> ctl (s_cur s') = ctl (s_cur s) -> lks (s_cur s') = news ++ lks (s_cur s) ->
        Forall (fun k : key => snd k = Some (k_scope (s_cur s))) news -> SInv (s_cur s') -> Q tt s') ->
  wp m s Q.
Proof.
  intros T P SI HQ u s' E.
  pose proof (T s (g0 ++ gacc) (po_inv _ _ _ _ _ _ P) SI u s' E) as R.
  pose proof (SInv_sres _ _ _ SI R) as SI'.
  destruct R as (g' & news & A1 & A2 & A3 & A4 & A5 & A6 & A7 & A8).
  destruct u. apply (HQ s' g' news); auto.
  constructor; auto using cframe_refl, cgrow_refl.
  - rewrite app_assoc. exact A1.
  - rewrite app_assoc. eapply Lext_trans; [apply (po_ext _ _ _ _ _ _ P) | exact A2].
Qed.

Definition okE (e : lexpr) : bool := fragE e && (300 + tmpE e <=? STACK_MAX)%N.

Fixpoint fragS (st : lstmt) : bool :=
  match st with
  | LSExpr e _ => okE e
  | LSThrow e _ => okE e
  | LSVar _ _ _ => true
  | LSVarInit _ e _ => okE e
  | LSBlock b _ => fragSs b
  | LSIf c _ t _ => okE c && fragSs t
  | _ => false
  end
with fragSs (l : lstmts) : bool :=
  match l with LSNil => true | LSCons s r => fragS s && fragSs r end.

Lemma okE_spec e : okE e = true -> fragE e = true /\ (300 + tmpE e <= STACK_MAX)%N.
Proof. unfold okE. intros H. apply andb_prop in H. destruct H as [A B]. apply N.leb_le in B. auto. Qed.

Lemma stack_300 : (300 <= STACK_MAX)%N. Proof. unfold STACK_MAX. lia. Qed.

(* key-level views of declare / mark *)
Lemma wp_declare_local_k x l cb g0 H0 s gacc H (Q : unit -> cstate -> Prop) :
  post cb g0 H0 (s_cur s) gacc H -> k_scope (s_cur s) <> 0 -> length (k_locals (s_cur s)) <= 256 ->
  (forall s', post (s_cur s') g0 H0 (s_cur s') gacc H -> wk (s_cur s) (s_cur s') ->
              lks (s_cur s') = (x, None) :: lks (s_cur s) ->
              (forall Hb, lb (s_cur s) Hb -> lb (s_cur s') Hb) ->
              length (k_locals (s_cur s')) <= 256 -> ctl (s_cur s') = ctl (s_cur s) -> Q tt s') ->
  wp (declare_variable x l) s Q.
Proof.
  intros P Hs Hl HQ. eapply wp_declare_local; eauto. intros s' P' W E Hl' Ec.
  apply HQ; auto. unfold lks. rewrite E. reflexivity. intros Hb. eapply lb_uninit; eauto.
Qed.

Lemma wp_mark_initialised_k x r cb g0 H0 s gacc H (Q : unit -> cstate -> Prop) :
  post cb g0 H0 (s_cur s) gacc H -> k_scope (s_cur s) <> 0 -> lks (s_cur s) = (x, None) :: r ->
  (forall s', post (s_cur s') g0 H0 (s_cur s') gacc H -> wk (s_cur s) (s_cur s') ->
              lks (s_cur s') = (x, Some (k_scope (s_cur s))) :: r ->
              length (k_locals (s_cur s')) = length (k_locals (s_cur s)) ->
              ctl (s_cur s') = ctl (s_cur s) -> Q tt s') ->
  wp mark_initialised s Q.
Proof.
  intros P Hs El HQ. unfold lks in El. destruct (k_locals (s_cur s)) as [|[n d b] r0] eqn:E; [discriminate|].
  simpl in El. inversion El; subst. eapply wp_mark_initialised; eauto. intros s' P' W E' Ec.
  apply HQ; auto. unfold lks. rewrite E'. reflexivity. rewrite E'. reflexivity.
Qed.

Lemma sres_close cb c g c' g' news :
  post cb g (nloc c) c' g' (nloc c') -> noholes g' -> wk c c' -> ctl c' = ctl c ->
  lks c' = news ++ lks c -> Forall (fun k : key => snd k = Some (k_scope c)) news ->
  length (k_locals c') <= 256 -> sres c g c'.
Proof.
  intros P. exists g', news. unfold sresx.
  split; [apply P|]. split; [apply P|]. auto 10.
Qed.

Ltac wkt :=
  first [ apply wk_refl | eassumption
        | eapply wk_trans;
          [ first [ eassumption | eapply wk_of_frame; eassumption ] | wkt ] ].
Ltac useX :=
  bnd; eapply wp_use; [ apply expr_heights; assumption | eassumption | eassumption | eassumption | lia | simpl; lia
                      | intros ?a ?s (?g & ?P & ?NH) ?Hn ?G ?F ]; cbv beta in *.

Lemma nloc_app c c' (news : list key) : lks c' = news ++ lks c -> nloc c' = (N.of_nat (length news) + nloc c)%N.
Proof. intros E. rewrite !nloc_lks, E, app_length. lia. Qed.
Lemma nloc_cons c c' (k : key) : lks c' = k :: lks c -> nloc c' = (nloc c + 1)%N.
Proof. intros E. rewrite (nloc_app c c' [k]); auto. simpl. lia. Qed.
Lemma lks_frame c c' : cframe c c' -> lks c' = lks c.
Proof. intros F. exact (fr_locals _ _ F). Qed.
Lemma ctl_frame c c' : cframe c c' -> ctl c' = ctl c.
Proof. intros F. unfold ctl. rewrite (fr_scope _ _ F), (fr_loops _ _ F), (fr_breaks _ _ F). reflexivity. Qed.
Lemma ctl_scope c x : ctl c = x -> k_scope c = fst (fst x).
Proof. intros <-. reflexivity. Qed.

Lemma ctl_loops c x : ctl c = x -> k_loops c = snd (fst x).
Proof. intros <-. reflexivity. Qed.
Lemma ctl_breaks c x : ctl c = x -> k_breaks c = snd x.
Proof. intros <-. reflexivity. Qed.
Lemma len_lks c c' : lks c' = lks c -> length (k_locals c') = length (k_locals c).
Proof. unfold lks. intros E. rewrite <- (map_length lkey (k_locals c')), E, map_length. reflexivity. Qed.
Lemma nloc_eq c c' : lks c' = lks c -> nloc c' = nloc c.
Proof. intros E. unfold nloc. rewrite (len_lks _ _ E). reflexivity. Qed.
Lemma kinit_mono d d' k : kinit d k -> d <= d' -> kinit d' k.
Proof. intros (v & A & B) Hd. exists v. split; auto. lia. Qed.
Lemma SInv_begin c c' : SInv c -> lks c' = lks c -> k_scope c' = S (k_scope c) -> wk c c' -> SInv c'.
Proof.
  intros [A B D E] El Es W. constructor.
  - rewrite El, Es. eapply Forall_impl; [|exact A]. intros k Hk. eapply kinit_mono; eauto.
  - rewrite (len_lks _ _ El). auto.
  - rewrite (wk_try _ _ W). auto.
  - rewrite (wk_arity _ _ W), (nloc_eq _ _ El). auto.
Qed.

Lemma wp_scoped b l (rest : C unit) (Q2 : unit -> cstate -> Prop) cb g0 H0 ss gacc (Q : unit -> cstate -> Prop) :
  striple (cstmts b) -> post cb g0 H0 (s_cur ss) gacc (nloc (s_cur ss)) -> SInv (s_cur ss) ->
  (forall s2, wp (end_scope l) s2 Q2 -> wp rest s2 Q) ->
  (forall s3, (exists gb, post (s_cur s3) g0 H0 (s_cur s3) (gacc ++ gb) (nloc (s_cur ss)) /\ noholes gb) ->
              wk (s_cur ss) (s_cur s3) -> lks (s_cur s3) = lks (s_cur ss) -> ctl (s_cur s3) = ctl (s_cur ss) ->
              Q2 tt s3) ->
  wp (cbind begin_scope (fun _ => cbind (cstmts b) (fun _ => rest))) ss Q.
Proof.
  intros IH P0 SI Hrest HQ.
  pose proof (si_len _ SI) as Hlen. pose proof stack_300 as HSM.
  apply wp_bind. eapply wp_begin_scope; [eassumption | intros s P W El Ec].
  assert (Elk : lks (s_cur s) = lks (s_cur ss)) by (unfold lks; rewrite El; reflexivity).
  apply wp_bind. eapply wp_stmt_use;
    [ exact IH
    | eapply post_eqH; [exact P | symmetry; apply nloc_eq; exact Elk]
    | eapply SInv_begin; [exact SI | exact Elk | rewrite (ctl_scope _ _ Ec); reflexivity | exact W]
    | intros s0 g news P1 NH W0 Ec0 El0 Hn SI0 ].
  apply Hrest.
  eapply wp_end_scope with (d := k_scope (s_cur ss)) (news := news) (old := lks (s_cur ss));
    [ exact P1 | rewrite El0, Elk; reflexivity
    | rewrite (ctl_scope _ _ Ec0); cbn [ctl fst]; rewrite (ctl_scope _ _ Ec); reflexivity
    | rewrite (ctl_scope _ _ Ec) in Hn; exact Hn
    | apply (si_init _ SI)
    | rewrite (wk_arity _ _ W0), (wk_arity _ _ W), <- nloc_lks; apply (si_ar _ SI)
    | pose proof (si_len _ SI0); unfold nloc; lia
    | intros s3 (gp & P3 & N3) W3 El3 Ec3 ].
  apply HQ.
  - exists (g ++ gp). split; auto with ht. rewrite app_assoc. rewrite nloc_lks. exact P3.
  - eapply wk_trans; [exact W|]. eapply wk_trans; [exact W0|exact W3].
  - exact El3.
  - rewrite Ec3, (ctl_loops _ _ Ec0), (ctl_breaks _ _ Ec0). cbn [ctl fst snd].
    rewrite (ctl_loops _ _ Ec), (ctl_breaks _ _ Ec). reflexivity.
Qed.

Lemma SInv_same c c' : SInv c -> lks c' = lks c -> k_scope c' = k_scope c -> wk c c' -> SInv c'.
Proof.
  intros [A B D E] El Es W. constructor.
  - rewrite El, Es. exact A.
  - rewrite (len_lks _ _ El). auto.
  - rewrite (wk_try _ _ W). auto.
  - rewrite (wk_arity _ _ W), (nloc_eq _ _ El). auto.
Qed.
Lemma SInv_frame c c' : SInv c -> cframe c c' -> cgrow c c' -> SInv c'.
Proof.
  intros SI F G. eapply SInv_same; eauto. apply lks_frame; auto. apply (fr_scope _ _ F). apply wk_of_frame; auto.
Qed.

(* closing a statement that declares nothing: phase 1 (frame), a re-based middle part, phase 3 (frame) *)
Lemma sres_close3 ss sk s3 se gg g' :
  cframe ss sk -> cgrow ss sk -> wk sk s3 -> lks s3 = lks sk -> ctl s3 = ctl sk ->
  post s3 gg (nloc ss) se g' (nloc ss) -> noholes g' -> length (k_locals ss) <= 256 -> sres ss gg se.
Proof.
  intros F1 G1 W El Ec P NH Hl.
  pose proof (po_fr _ _ _ _ _ _ P) as F3. pose proof (po_gr _ _ _ _ _ _ P) as G3.
  assert (Els : lks se = lks ss) by (rewrite (lks_frame _ _ F3), El, (lks_frame _ _ F1); reflexivity).
  eapply sres_close with (news := []).
  - eapply post_eqH; [exact P | symmetry; apply nloc_eq; exact Els].
  - exact NH.
  - eapply wk_trans; [apply wk_of_frame; eauto|]. eapply wk_trans; [exact W|]. apply wk_of_frame; auto.
  - rewrite (ctl_frame _ _ F3), Ec, (ctl_frame _ _ F1). reflexivity.
  - exact Els.
  - constructor.
  - rewrite (len_lks _ _ Els). exact Hl.
Qed.

(* do not `simpl` the ghost: only the height expression *)
Ltac opgen oo aa bb Em ::=
  eapply wp_simple with (o := oo) (a := aa) (b := bb);
  [ apply Em | eassumption | reflexivity | chk_lt | fold_kstr | simpl; try lia | simpl; try lia
  | intros ? ?s ?P ?G ?F ?O ?Cl;
    match goal with P : post _ _ _ (s_cur _) _ (_ - e_pops _ + e_push _)%N |- _ =>
      cbn [e_pops e_push ia ib iop] in P end ].

Ltac split_at_hole l k ::=
  lazymatch l with
  | (cons (mkG _ _ _ _ _ true) nil) ++ ?r => k (@nil ginstr) r
  | cons (mkG _ _ _ _ _ true) ?r => k (@nil ginstr) r
  | nil ++ ?r => split_at_hole r k
  | (?x :: ?l) ++ ?r => split_at_hole (l ++ r) ltac:(fun ga gb => k (x :: ga) gb)
  | (?x ++ ?y) ++ ?r => split_at_hole (x ++ (y ++ r)) k
  | ?x ++ ?r => split_at_hole r ltac:(fun ga gb => k (x ++ ga) gb)
  | ?x :: ?r => split_at_hole r ltac:(fun ga gb => k (x :: ga) gb)
  end.
Ltac patch ::=
  bnd; lazymatch goal with |- wp (patch_jump ?pos) ?s _ =>
    match goal with P : post _ _ _ (s_cur s) _ _ |- _ =>
      rewrite <- ?app_assoc in P;
      lazymatch type of P with post _ _ _ _ ?gacc _ =>
        split_at_hole gacc ltac:(fun xa xb =>
          eapply wp_patch_jump with (ga := xa) (gb := xb);
          [ exact P | repeat (rewrite <- ?app_assoc; cbn [app]); reflexivity | unfold is_fjump; auto | posgoal | lia
          | intros ?s ?P ?G ?F ])
      end
    end
  end.

Ltac posgoal ::= subst; repeat first [rewrite flen_app | rewrite flen_cons | rewrite flen_nil]; simpl; lia.

Ltac sstart :=
  repeat lazymatch goal with |- forall _, _ => intro end; simpl in * |-; andbs;
  repeat match goal with H : okE _ = true |- _ => apply okE_spec in H; destruct H end;
  try discriminate;
  intros ss gg HI SI;
  pose proof (post_refl _ _ _ HI) as P0;
  pose proof (lb_full (s_cur ss)) as Hlb;
  pose proof (si_ar _ SI) as Har;
  pose proof (si_len _ SI) as Hlen;
  assert (Hn256 : (nloc (s_cur ss) <= 256)%N) by (unfold nloc; lia);
  pose proof stack_300 as HSM; poss; simpl.

Theorem stmt_heights :
  (forall e : lexpr, True) /\ (forall es : lexprs, True) /\ (forall ps : lparts, True) /\ (forall kvs : lkvs, True) /\
  (forall st, fragS st = true -> striple (cstmt st)) /\
  (forall l, fragSs l = true -> striple (cstmts l)) /\
  (forall ms : lmethods, True).
Proof.
  apply lsyntax_mutind; try (intros; exact I).
  - (* LSExpr *) sstart. useX. op0. apply sres_of_ext; [fin | exact Hlen].
  - (* LSVar *) sstart. sline. bnd. unfold parse_variable. bnd.
    destruct (k_scope (s_cur s)) as [|d] eqn:Esc.
    + unfold declare_variable. bnd. apply wp_cur. rewrite Esc. simpl. apply wp_ret.
      bnd. apply wp_cur. rewrite Esc. simpl. ident. op0.
      unfold define_variable. bnd. apply wp_cur.
      rewrite (fr_scope _ _ F0), (fr_scope _ _ F), Esc. simpl. op16.
      apply sres_of_ext; [fin | exact Hlen].
    + eapply wp_declare_local_k; [eassumption | lia | exact Hlen | intros ?s ?P ?W ?El ?Hlbx ?Hl ?Ec].
      bnd. apply wp_cur. rewrite (ctl_scope _ _ Ec). cbn [ctl fst]. rewrite Esc. simpl. apply wp_ret.
      op0. unfold define_variable. bnd. apply wp_cur.
      rewrite (fr_scope _ _ F), (ctl_scope _ _ Ec). cbn [ctl fst]. rewrite Esc. simpl.
      eapply wp_mark_initialised_k; [eassumption | | rewrite (lks_frame _ _ F); exact El | intros ?s ?P ?W ?El ?Hl ?Ec].
      { rewrite (fr_scope _ _ F), (ctl_scope _ _ Ec). cbn [ctl fst]. rewrite Esc. discriminate. }
      eapply sres_close with (news := [(x, Some (k_scope (s_cur s1)))]);
        [ eapply post_eqH; [exact P2 | rewrite (nloc_cons _ _ _ El0); lia] | auto with ht | wkt
        | rewrite Ec0, (ctl_frame _ _ F), Ec; reflexivity | exact El0
        | constructor; [simpl; rewrite (fr_scope _ _ F), (ctl_scope _ _ Ec); reflexivity | constructor]
        | rewrite Hl0, (len_lks _ _ (lks_frame _ _ F)); exact Hl ].
  - (* LSVarInit *) sstart. bnd. unfold parse_variable. bnd.
    destruct (k_scope (s_cur ss)) as [|d] eqn:Esc.
    + unfold declare_variable. bnd. apply wp_cur. rewrite Esc. simpl. apply wp_ret.
      bnd. apply wp_cur. rewrite Esc. simpl. ident. useX.
      unfold define_variable. bnd. apply wp_cur.
      rewrite (fr_scope _ _ F0), (fr_scope _ _ F), Esc. simpl. op16.
      apply sres_of_ext; [fin | exact Hlen].
    + eapply wp_declare_local_k; [eassumption | lia | exact Hlen | intros ?s ?P ?W ?El ?Hlbx ?Hl ?Ec].
      bnd. apply wp_cur. rewrite (ctl_scope _ _ Ec). cbn [ctl fst]. rewrite Esc. simpl. apply wp_ret.
      pose proof (Hlbx _ Hlb) as Hlb1.
      assert (Har1 : (k_arity (s_cur s) <= nloc (s_cur ss))%N) by (rewrite (wk_arity _ _ W); exact Har).
      useX. unfold define_variable. bnd. apply wp_cur.
      rewrite (fr_scope _ _ F), (ctl_scope _ _ Ec). cbn [ctl fst]. rewrite Esc. simpl.
      eapply wp_mark_initialised_k; [eassumption | | rewrite (lks_frame _ _ F); exact El | intros ?s ?P ?W ?El ?Hl ?Ec].
      { rewrite (fr_scope _ _ F), (ctl_scope _ _ Ec). cbn [ctl fst]. rewrite Esc. discriminate. }
      eapply sres_close with (news := [(x, Some (k_scope (s_cur s0)))]);
        [ eapply post_eqH; [exact P2 | rewrite (nloc_cons _ _ _ El0); lia] | auto with ht | wkt
        | rewrite Ec0, (ctl_frame _ _ F), Ec; reflexivity | exact El0
        | constructor; [simpl; rewrite (fr_scope _ _ F), (ctl_scope _ _ Ec); reflexivity | constructor]
        | rewrite Hl0, (len_lks _ _ (lks_frame _ _ F)); exact Hl ].
  - sstart.
  - sstart.
  - (* LSBlock *) sstart.
    eapply wp_scoped;
      [ match goal with IH : _ -> striple _ |- _ => apply IH; assumption end | exact P0 | exact SI
      | intros ?s X; exact X | intros ?s (?g & ?P & ?NH) ?W ?El ?Ec ].
    eapply sres_close with (news := []);
      [ eapply post_eqH; [exact P | symmetry; apply nloc_eq; exact El] | exact NH | exact W | exact Ec
      | exact El | constructor | rewrite (len_lks _ _ El); exact Hlen ].
  - (* LSIf *) sstart. useX. jif. op0.
    pose proof (po_fr _ _ _ _ _ _ P2) as F01. pose proof (po_gr _ _ _ _ _ _ P2) as G01.
    pose proof (nloc_eq _ _ (lks_frame _ _ F01)) as En.
    eapply wp_scoped;
      [ match goal with IH : _ -> striple _ |- _ => apply IH; assumption end
      | eapply post_eqH; [exact P2 | lia] | eapply SInv_frame; eauto
      | intros ?s X; apply wp_bind; exact X | intros ?s (?g & ?P & ?NH) ?W ?El ?Ec ].
    assert (Har3 : (k_arity (s_cur s2) <= nloc (s_cur ss))%N)
      by (rewrite (wk_arity _ _ W), (fr_arity _ _ F01); exact Har).
    jmp (nloc (s_cur ss) + 1)%N. patch. op0. patch.
    eapply sres_close3 with (sk := s_cur s1) (s3 := s_cur s2);
      [ exact F01 | exact G01 | exact W | exact El | exact Ec
      | eapply post_eqH; [eassumption | lia] | auto 20 with ht | exact Hlen ].
  - (* LSIfElse *) sstart.
  - (* LSWhile *) sstart.
  - sstart.
  - sstart.
  - sstart.
  - sstart.
  - sstart.
  - (* LSThrow *) sstart. useX.
    eapply wp_emit with (gi := mkG OpThrow 0 0 [] (nloc (s_cur ss) + 1)%N false) (H' := nloc (s_cur ss));
      [ apply emits_op | eassumption | reflexivity | split; [simpl; lia | simpl; split; [reflexivity | lia]]
      | intros ? ?s ?P ?G ?F ?O ?Cl ].
    apply sres_of_ext; [fin | exact Hlen].
  - sstart.
  - sstart.
  - sstart.
  - sstart.
  - (* LSNil *) sstart. apply wp_ret. apply sres_of_ext; [fin | exact Hlen].
  - (* LSCons *) sstart.
    bnd. eapply wp_stmt_use;
      [ match goal with IH : _ -> striple (cstmt _) |- _ => apply IH; assumption end | exact P0 | exact SI
      | intros ?s ?g ?news ?P ?NH ?W ?Ec ?El ?Hn ?SI ].
    eapply wp_stmt_use;
      [ match goal with IH : _ -> striple (cstmts _) |- _ => apply IH; assumption end | exact P | exact SI0
      | intros ?s ?g ?news ?P ?NH ?W ?Ec ?El ?Hn ?SI ].
    eapply sres_close with (news := news0 ++ news);
      [ exact P1 | auto with ht | eapply wk_trans; eauto | rewrite Ec0; exact Ec
      | rewrite El0, El, app_assoc; reflexivity
      | apply Forall_app; split; [rewrite (ctl_scope _ _ Ec) in Hn0; exact Hn0 | exact Hn]
      | apply (si_len _ SI1) ].
Qed.
Print Assumptions stmt_heights.

(* ================================================================== *)
(* headline for scripts with blocks, local variables and if            *)
Lemma emit_return_gen l s u s' g H :
  emit_return l s = COk (u, s') -> CInv (s_cur s) g H -> k_kind (s_cur s) = KScript -> k_in_try (s_cur s) = false ->
  (H + 1 <= STACK_MAX)%N ->
  forall H', CInv (s_cur s') (g ++ [mkG OpNil 0 0 [] H false; mkG OpReturn 0 0 [] (H + 1)%N false]) H'.
Proof.
  intros E HI Hk Ht Hm H'. pose proof (post_refl _ _ _ HI) as P0. revert u s' E.
  change (wp (emit_return l) s (fun _ s' => CInv (s_cur s') (g ++ [mkG OpNil 0 0 [] H false; mkG OpReturn 0 0 [] (H + 1)%N false]) H')).
  unfold emit_return. apply wp_bind. apply wp_cur. rewrite Hk, Ht. simpl.
  op0. bnd. apply wp_ret.
  eapply wp_emit with (gi := mkG OpReturn 0 0 [] (H + 1)%N false) (H' := H');
    [ apply emits_op | eassumption | simpl; lia | split; [simpl; lia | simpl; split; [reflexivity | lia]]
    | intros ? ?s ?P ?G ?F ?O ?Cl ].
  pose proof (po_inv _ _ _ _ _ _ P1) as X. simpl in X. rewrite <- ?app_assoc in X. exact X.
Qed.

Lemma SInv_init : SInv (s_cur init_state).
Proof.
  constructor.
  - simpl. repeat constructor. exists 0. simpl. auto.
  - simpl. lia.
  - reflexivity.
  - unfold nloc. simpl. lia.
Qed.

