(* FullCompileFnE: while and if/else.  A statement triple that also records "declares nothing" (needed for the
   else branch of if/else), the while case, headline for the larger fragment. *)
From Coq Require Import Strings.Byte Strings.String.
From Coq Require Import List NArith ZArith Bool Arith Lia.
From Coq Require Import Floats.SpecFloat.
From YV Require Import Show Utf8 Num Ast Bytecode Skeleton VerifierProofs ParseLoc FullCompile FullCompileProofs.
From YV Require Import FullCompileFnA FullCompileFnB FullCompileFnC FullCompileFnD.
Import ListNotations.
Local Open Scope nat_scope.
Local Open Scope list_scope.
Local Open Scope comp_scope.

(* b = true: the statement declares no local that outlives it *)
Definition sres2 (b : bool) (c : comp) (g : list ginstr) (c' : comp) : Prop :=
  exists g' news, sresx c g c' g' news /\ (b = true -> news = []).
Definition striple2 (b : bool) (m : C unit) : Prop :=
  forall s g, CInv (s_cur s) g (nloc (s_cur s)) -> SInv (s_cur s) ->
    wp m s (fun _ s' => sres2 b (s_cur s) g (s_cur s')).

Lemma sres2_sres b c g c' : sres2 b c g c' -> sres c g c'.
Proof. intros (g' & news & A & _). exists g', news. exact A. Qed.
Lemma striple2_weak b m : striple2 b m -> striple m.
Proof. intros T s g HI SI u s' E. eapply sres2_sres. exact (T s g HI SI u s' E). Qed.

Lemma sres2_of_sres_nil b c g c' g' : sresx c g c' g' [] -> sres2 b c g c'.
Proof. intros A. exists g', []. auto. Qed.

Lemma sres2_of_ext b c g c' :
  ghost_ext c g (nloc c) c' [] (nloc c) -> length (k_locals c) <= 256 -> sres2 b c g c'.
Proof.
  intros (g' & P & NH) Hl. simpl in P. destruct P as [Pi Pe Pf Pg].
  assert (En : nloc c' = nloc c) by (apply nloc_eq, lks_frame; auto).
  eapply sres2_of_sres_nil with (g' := g'). unfold sresx. rewrite En.
  split; [exact Pi|]. split; [exact Pe|]. split; [exact NH|].
  split; [apply wk_of_frame; auto|]. split; [apply ctl_frame; auto|].
  split; [apply lks_frame; auto|]. split; [constructor|]. rewrite (len_lks _ _ (lks_frame _ _ Pf)). exact Hl.
Qed.

Lemma sres2_close b cb c g c' g' news :
  post cb g (nloc c) c' g' (nloc c') -> noholes g' -> wk c c' -> ctl c' = ctl c ->
  lks c' = news ++ lks c -> Forall (fun k : key => snd k = Some (k_scope c)) news ->
  length (k_locals c') <= 256 -> (b = true -> news = []) -> sres2 b c g c'.
Proof.
  intros P. exists g', news. unfold sresx. split; auto.
  split; [apply P|]. split; [apply P|]. auto 10.
Qed.

(* use of a statement that declares nothing *)
Lemma wp_stmt_use_nd m cb g0 H0 s gacc (Q : unit -> cstate -> Prop) :
  striple2 true m -> post cb g0 H0 (s_cur s) gacc (nloc (s_cur s)) -> SInv (s_cur s) ->
  (forall s' g', post (s_cur s') g0 H0 (s_cur s') (gacc ++ g') (nloc (s_cur s)) -> noholes g' ->
        wk (s_cur s) (s_cur s') -> ctl (s_cur s') = ctl (s_cur s) -> lks (s_cur s') = lks (s_cur s) -> Q tt s') ->
  wp m s Q.
Proof.
  intros T P SI HQ u s' E.
  destruct (T s (g0 ++ gacc) (po_inv _ _ _ _ _ _ P) SI u s' E) as (g' & news & (A1 & A2 & A3 & A4 & A5 & A6 & A7 & A8) & Hnd).
  rewrite (Hnd eq_refl) in A6. simpl in A6.
  destruct u. apply (HQ s' g'); auto.
  rewrite <- (nloc_eq _ _ A6).
  constructor; auto using cframe_refl, cgrow_refl.
  - rewrite app_assoc. exact A1.
  - rewrite app_assoc. eapply Lext_trans; [apply (po_ext _ _ _ _ _ _ P) | exact A2].
Qed.

Definition nodecl (st : lstmt) : bool :=
  match st with LSVar _ _ _ | LSVarInit _ _ _ => false | _ => true end.

(* fragment 3: + while, + if/else whose else branch is not itself a declaration (the parser only ever produces a
   block or another if there) *)
Fixpoint fragS2 (st : lstmt) : bool :=
  match st with
  | LSExpr e _ => okE e
  | LSThrow e _ => okE e
  | LSVar _ _ _ => true
  | LSVarInit _ e _ => okE e
  | LSBlock b _ => fragSs2 b
  | LSIf c _ t _ => okE c && fragSs2 t
  | LSIfElse c _ t _ e => okE c && fragSs2 t && fragS2 e && nodecl e
  | LSWhile c _ b _ => okE c && fragSs2 b
  | _ => false
  end
with fragSs2 (l : lstmts) : bool :=
  match l with LSNil => true | LSCons s r => fragS2 s && fragSs2 r end.

Ltac sstart2 :=
  repeat lazymatch goal with |- forall _, _ => intro end; simpl in * |-; andbs;
  repeat match goal with H : okE _ = true |- _ => apply okE_spec in H; destruct H end;
  try discriminate;
  intros ss gg HI SI;
  pose proof (post_refl _ _ _ HI) as P0;
  pose proof (lb_full (s_cur ss)) as Hlb;
  pose proof (si_ar _ SI) as Har;
  pose proof (si_len _ SI) as Hlen;
  assert (Hn256 : (nloc (s_cur ss) <= 256)%N) by (unfold nloc; lia);
  pose proof stack_300 as HSM; poss; simpl.

Lemma sres2_close3 b ss sk s3 se gg g' :
  cframe ss sk -> cgrow ss sk -> wk sk s3 -> lks s3 = lks sk -> ctl s3 = ctl sk ->
  post s3 gg (nloc ss) se g' (nloc ss) -> noholes g' -> length (k_locals ss) <= 256 -> sres2 b ss gg se.
Proof.
  intros F1 G1 W El Ec P NH Hl.
  pose proof (po_fr _ _ _ _ _ _ P) as F3. pose proof (po_gr _ _ _ _ _ _ P) as G3.
  assert (Els : lks se = lks ss) by (rewrite (lks_frame _ _ F3), El, (lks_frame _ _ F1); reflexivity).
  eapply sres2_close with (news := []).
  - eapply post_eqH; [exact P | symmetry; apply nloc_eq; exact Els].
  - exact NH.
  - eapply wk_trans; [apply wk_of_frame; eauto|]. eapply wk_trans; [exact W|]. apply wk_of_frame; auto.
  - rewrite (ctl_frame _ _ F3), Ec, (ctl_frame _ _ F1). reflexivity.
  - exact Els.
  - constructor.
  - rewrite (len_lks _ _ Els). exact Hl.
  - auto.
Qed.

Theorem stmt_heights2 :
  (forall e : lexpr, True) /\ (forall es : lexprs, True) /\ (forall ps : lparts, True) /\ (forall kvs : lkvs, True) /\
  (forall st, fragS2 st = true -> striple2 (nodecl st) (cstmt st)) /\
  (forall l, fragSs2 l = true -> striple2 false (cstmts l)) /\
  (forall ms : lmethods, True).
Proof.
  apply lsyntax_mutind; try (intros; exact I).
  - (* LSExpr *) sstart2. useX. op0. apply sres2_of_ext; [fin | exact Hlen].
  - (* LSVar *) sstart2. sline. bnd. unfold parse_variable. bnd.
    destruct (k_scope (s_cur s)) as [|d] eqn:Esc.
    + unfold declare_variable. bnd. apply wp_cur. rewrite Esc. simpl. apply wp_ret.
      bnd. apply wp_cur. rewrite Esc. simpl. ident. op0.
      unfold define_variable. bnd. apply wp_cur.
      rewrite (fr_scope _ _ F0), (fr_scope _ _ F), Esc. simpl. op16.
      apply sres2_of_ext; [fin | exact Hlen].
    + eapply wp_declare_local_k; [eassumption | lia | exact Hlen | intros ?s ?P ?W ?El ?Hlbx ?Hl ?Ec].
      bnd. apply wp_cur. rewrite (ctl_scope _ _ Ec). cbn [ctl fst]. rewrite Esc. simpl. apply wp_ret.
      op0. unfold define_variable. bnd. apply wp_cur.
      rewrite (fr_scope _ _ F), (ctl_scope _ _ Ec). cbn [ctl fst]. rewrite Esc. simpl.
      eapply wp_mark_initialised_k; [eassumption | | rewrite (lks_frame _ _ F); exact El | intros ?s ?P ?W ?El ?Hl ?Ec].
      { rewrite (fr_scope _ _ F), (ctl_scope _ _ Ec). cbn [ctl fst]. rewrite Esc. discriminate. }
      eapply sres2_close with (news := [(x, Some (k_scope (s_cur s1)))]);
        [ eapply post_eqH; [exact P2 | rewrite (nloc_cons _ _ _ El0); lia] | auto with ht | wkt
        | rewrite Ec0, (ctl_frame _ _ F), Ec; reflexivity | exact El0
        | constructor; [simpl; rewrite (fr_scope _ _ F), (ctl_scope _ _ Ec); reflexivity | constructor]
        | rewrite Hl0, (len_lks _ _ (lks_frame _ _ F)); exact Hl | first [intros HH; discriminate HH | intros _; reflexivity] ].
  - (* LSVarInit *) sstart2. bnd. unfold parse_variable. bnd.
    destruct (k_scope (s_cur ss)) as [|d] eqn:Esc.
    + unfold declare_variable. bnd. apply wp_cur. rewrite Esc. simpl. apply wp_ret.
      bnd. apply wp_cur. rewrite Esc. simpl. ident. useX.
      unfold define_variable. bnd. apply wp_cur.
      rewrite (fr_scope _ _ F0), (fr_scope _ _ F), Esc. simpl. op16.
      apply sres2_of_ext; [fin | exact Hlen].
    + eapply wp_declare_local_k; [eassumption | lia | exact Hlen | intros ?s ?P ?W ?El ?Hlbx ?Hl ?Ec].
      bnd. apply wp_cur. rewrite (ctl_scope _ _ Ec). cbn [ctl fst]. rewrite Esc. simpl. apply wp_ret.
      pose proof (Hlbx _ Hlb) as Hlb1.
      assert (Har1 : (k_arity (s_cur s) <= nloc (s_cur ss))%N) by (rewrite (wk_arity _ _ W); exact Har).
      useX. unfold define_variable. bnd. apply wp_cur.
      rewrite (fr_scope _ _ F), (ctl_scope _ _ Ec). cbn [ctl fst]. rewrite Esc. simpl.
      eapply wp_mark_initialised_k; [eassumption | | rewrite (lks_frame _ _ F); exact El | intros ?s ?P ?W ?El ?Hl ?Ec].
      { rewrite (fr_scope _ _ F), (ctl_scope _ _ Ec). cbn [ctl fst]. rewrite Esc. discriminate. }
      eapply sres2_close with (news := [(x, Some (k_scope (s_cur s0)))]);
        [ eapply post_eqH; [exact P2 | rewrite (nloc_cons _ _ _ El0); lia] | auto with ht | wkt
        | rewrite Ec0, (ctl_frame _ _ F), Ec; reflexivity | exact El0
        | constructor; [simpl; rewrite (fr_scope _ _ F), (ctl_scope _ _ Ec); reflexivity | constructor]
        | rewrite Hl0, (len_lks _ _ (lks_frame _ _ F)); exact Hl | first [intros HH; discriminate HH | intros _; reflexivity] ].
  - sstart2.
  - sstart2.
  - (* LSBlock *) sstart2.
    eapply wp_scoped;
      [ match goal with IH : _ -> striple2 _ _ |- _ => apply (striple2_weak _ _ (IH ltac:(assumption))) end | exact P0 | exact SI
      | intros ?s X; exact X | intros ?s (?g & ?P & ?NH) ?W ?El ?Ec ].
    eapply sres2_close with (news := []);
      [ eapply post_eqH; [exact P | symmetry; apply nloc_eq; exact El] | exact NH | exact W | exact Ec
      | exact El | constructor | rewrite (len_lks _ _ El); exact Hlen | first [intros HH; discriminate HH | intros _; reflexivity] ].
  - (* LSIf *) sstart2. useX. jif. op0.
    pose proof (po_fr _ _ _ _ _ _ P2) as F01. pose proof (po_gr _ _ _ _ _ _ P2) as G01.
    pose proof (nloc_eq _ _ (lks_frame _ _ F01)) as En.
    eapply wp_scoped;
      [ match goal with IH : _ -> striple2 _ _ |- _ => apply (striple2_weak _ _ (IH ltac:(assumption))) end
      | eapply post_eqH; [exact P2 | lia] | eapply SInv_frame; eauto
      | intros ?s X; apply wp_bind; exact X | intros ?s (?g & ?P & ?NH) ?W ?El ?Ec ].
    assert (Har3 : (k_arity (s_cur s2) <= nloc (s_cur ss))%N)
      by (rewrite (wk_arity _ _ W), (fr_arity _ _ F01); exact Har).
    jmp (nloc (s_cur ss) + 1)%N. patch. op0. patch.
    eapply sres2_close3 with (sk := s_cur s1) (s3 := s_cur s2);
      [ exact F01 | exact G01 | exact W | exact El | exact Ec
      | eapply post_eqH; [eassumption | lia] | auto 20 with ht | exact Hlen ].
  - (* LSIfElse *) sstart2. useX. jif. op0.
    pose proof (po_fr _ _ _ _ _ _ P2) as F01. pose proof (po_gr _ _ _ _ _ _ P2) as G01.
    pose proof (nloc_eq _ _ (lks_frame _ _ F01)) as En.
    eapply wp_scoped;
      [ match goal with IH : _ -> striple2 _ (cstmts _) |- _ => apply (striple2_weak _ _ (IH ltac:(assumption))) end
      | eapply post_eqH; [exact P2 | lia] | eapply SInv_frame; eauto
      | intros ?s X; apply wp_bind; exact X | intros ?s (?g & ?P & ?NH) ?W ?El ?Ec ].
    assert (Har3 : (k_arity (s_cur s2) <= nloc (s_cur ss))%N)
      by (rewrite (wk_arity _ _ W), (fr_arity _ _ F01); exact Har).
    jmp (nloc (s_cur ss) + 1)%N. patch. op0.
    pose proof (po_fr _ _ _ _ _ _ P6) as F25. pose proof (po_gr _ _ _ _ _ _ P6) as G25.
    assert (Els5 : lks (s_cur s5) = lks (s_cur ss))
      by (rewrite (lks_frame _ _ F25), El, (lks_frame _ _ F01); reflexivity).
    assert (Ecs5 : ctl (s_cur s5) = ctl (s_cur ss))
      by (rewrite (ctl_frame _ _ F25), Ec, (ctl_frame _ _ F01); reflexivity).
    assert (W5 : wk (s_cur ss) (s_cur s5)).
    { eapply wk_trans; [apply wk_of_frame; eauto|]. eapply wk_trans; [exact W|]. apply wk_of_frame; auto. }
    pose proof (nloc_eq _ _ Els5) as En5.
    bnd. eapply wp_stmt_use_nd;
      [ match goal with IH : _ -> striple2 _ (cstmt _), Hnd : nodecl _ = true |- _ =>
          rewrite <- Hnd; apply IH; assumption end
      | eapply post_eqH; [exact P6 | lia]
      | eapply SInv_same; [exact SI | exact Els5 | rewrite (ctl_scope _ _ Ecs5); reflexivity | exact W5]
      | intros ?s ?g ?P ?NH ?W ?Ec ?El ].
    patch.
    eapply sres2_close3 with (sk := s_cur ss) (s3 := s_cur s6);
      [ apply cframe_refl | apply cgrow_refl | eapply wk_trans; [exact W5 | exact W0]
      | rewrite El0; exact Els5 | rewrite Ec0; exact Ecs5
      | eapply post_eqH; [eassumption | lia] | auto 30 with ht | exact Hlen ].
  - (* LSWhile *) sstart2.
    bnd. eapply wp_push_loop; [exact P0 | intros s1 P1 W1 El1 Ec1].
    bnd. apply wp_code_len. rewrite (ci_code _ _ _ (po_inv _ _ _ _ _ _ P1)). fold (flen (gg ++ [])).
    assert (Elk1 : lks (s_cur s1) = lks (s_cur ss)) by (unfold lks; rewrite El1; reflexivity).
    assert (Hlb1 : lb (s_cur s1) (nloc (s_cur ss))) by (intros y i; rewrite El1; apply Hlb).
    assert (Har1 : (k_arity (s_cur s1) <= nloc (s_cur ss))%N) by (rewrite (wk_arity _ _ W1); exact Har).
    useX. jif. op0.
    pose proof (po_fr _ _ _ _ _ _ P3) as F12. pose proof (po_gr _ _ _ _ _ _ P3) as G12.
    assert (Els2 : lks (s_cur s2) = lks (s_cur ss)) by (rewrite (lks_frame _ _ F12); exact Elk1).
    pose proof (nloc_eq _ _ Els2) as En2.
    assert (W2 : wk (s_cur ss) (s_cur s2)) by (eapply wk_trans; [exact W1 | apply wk_of_frame; auto]).
    eapply wp_scoped;
      [ match goal with IH : _ -> striple2 _ (cstmts _) |- _ => apply (striple2_weak _ _ (IH ltac:(assumption))) end
      | eapply post_eqH; [exact P3 | lia]
      | eapply SInv_same; [exact SI | exact Els2
                          | rewrite (fr_scope _ _ F12), (ctl_scope _ _ Ec1); reflexivity | exact W2]
      | intros ?s X; apply wp_bind; exact X | intros ?s (?g & ?P & ?NH) ?W ?El ?Ec ].
    assert (Har3 : (k_arity (s_cur s3) <= nloc (s_cur ss))%N)
      by (rewrite (wk_arity _ _ W), (wk_arity _ _ W2); exact Har).
    apply (post_eqH _ _ _ _ _ _ (nloc (s_cur ss))) in P4; [|exact En2].
    bnd. eapply wp_emit_loop with (H' := (nloc (s_cur ss) + 1)%N);
      [ exact P4 | rewrite !flen_app; lia
      | apply (po_ext _ _ _ _ _ _ P4); rewrite app_nil_r; apply hat_end | lia
      | intros ?s (?gi & ?P & ?Hgi) ?G ?F ].
    patch.
    op0.
    pose proof (po_fr _ _ _ _ _ _ P7) as F36. pose proof (po_gr _ _ _ _ _ _ P7) as G36.
    assert (Ec6 : ctl (s_cur s6) = ctl (s_cur s1))
      by (rewrite (ctl_frame _ _ F36), Ec, (ctl_frame _ _ F12); reflexivity).
    assert (Els6 : lks (s_cur s6) = lks (s_cur ss))
      by (rewrite (lks_frame _ _ F36), El; exact Els2).
    eapply wp_pop_loop0;
      [ exact P7 | rewrite (ctl_loops _ _ Ec6); cbn [ctl fst snd]; rewrite (ctl_loops _ _ Ec1); reflexivity
      | rewrite (ctl_breaks _ _ Ec6); cbn [ctl fst snd]; rewrite (ctl_breaks _ _ Ec1); reflexivity
      | intros ?s ?P ?W ?El ?Ec ].
    assert (Els7 : lks (s_cur s7) = lks (s_cur ss)) by (unfold lks; rewrite El0; exact Els6).
    eapply sres2_close with (news := []);
      [ eapply post_eqH; [exact P8 | rewrite (nloc_eq _ _ Els7); lia] | auto 30 with ht
      | eapply wk_trans; [exact W2|]; eapply wk_trans; [exact W|];
        eapply wk_trans; [apply wk_of_frame; eauto | exact W0]
      | rewrite Ec0, (ctl_scope _ _ Ec6); cbn [ctl fst]; rewrite (ctl_scope _ _ Ec1); reflexivity
      | exact Els7 | constructor | rewrite (len_lks _ _ Els7); exact Hlen | auto ].
  - sstart2.
  - sstart2.
  - sstart2.
  - sstart2.
  - sstart2.
  - (* LSThrow *) sstart2. useX.
    eapply wp_emit with (gi := mkG OpThrow 0 0 [] (nloc (s_cur ss) + 1)%N false) (H' := nloc (s_cur ss));
      [ apply emits_op | eassumption | reflexivity | split; [simpl; lia | simpl; split; [reflexivity | lia]]
      | intros ? ?s ?P ?G ?F ?O ?Cl ].
    apply sres2_of_ext; [fin | exact Hlen].
  - sstart2.
  - sstart2.
  - sstart2.
  - sstart2.
  - (* LSNil *) sstart2. apply wp_ret. apply sres2_of_ext; [fin | exact Hlen].
  - (* LSCons *) sstart2.
    bnd. eapply wp_stmt_use;
      [ match goal with IH : _ -> striple2 _ (cstmt _) |- _ => apply (striple2_weak _ _ (IH ltac:(assumption))) end | exact P0 | exact SI
      | intros ?s ?g ?news ?P ?NH ?W ?Ec ?El ?Hn ?SI ].
    eapply wp_stmt_use;
      [ match goal with IH : _ -> striple2 _ (cstmts _) |- _ => apply (striple2_weak _ _ (IH ltac:(assumption))) end | exact P | exact SI0
      | intros ?s ?g ?news ?P ?NH ?W ?Ec ?El ?Hn ?SI ].
    eapply sres2_close with (news := news0 ++ news);
      [ exact P1 | auto with ht | eapply wk_trans; eauto | rewrite Ec0; exact Ec
      | rewrite El0, El, app_assoc; reflexivity
      | apply Forall_app; split; [rewrite (ctl_scope _ _ Ec) in Hn0; exact Hn0 | exact Hn]
      | apply (si_len _ SI1) | first [intros HH; discriminate HH | intros _; reflexivity] ].
Qed.
Print Assumptions stmt_heights2.

Lemma stmts_heights2 l : fragSs2 l = true -> striple (cstmts l).
Proof.
  intros H. eapply striple2_weak.
  exact (proj1 (proj2 (proj2 (proj2 (proj2 (proj2 stmt_heights2))))) l H).
Qed.

(* the program-level annotation, for ANY statement-list triple *)
Lemma script_ghost_gen p f :
  striple (cstmts (fst p)) -> compile_program p = COk f ->
  exists G, G <> [] /\ f_code f = flat G /\ noholes G /\
            (forall H', gok (f_consts f) (f_upvalues f) (f_arity f) G H') /\
            hdh G 0%N = 1%N /\ f_arity f = 1%N.
Proof.
  intros Hf Hc. unfold compile_program in Hc.
  destruct ((cstmts (fst p);;; finalise_compiler (snd p)) init_state) as [[[f' us] s']|] eqn:E; [|discriminate].
  inversion Hc; subst f'; clear Hc. unfold cbind in E.
  destruct (cstmts (fst p) init_state) as [[[] s1]|] eqn:E1; [|discriminate].
  pose proof (Hf init_state [] CInv_init SInv_init tt s1 E1) as R.
  pose proof (SInv_sres _ _ _ SInv_init R) as SI1.
  destruct R as (G & news & A1 & A2 & A3 & A4 & A5 & A6 & A7 & A8). simpl app in A1, A2.
  unfold finalise_compiler, cbind in E.
  destruct (emit_return (snd p) s1) as [[[] s2]|] eqn:E2; [|discriminate].
  assert (Hk : k_kind (s_cur s1) = KScript) by (rewrite (wk_kind _ _ A4); reflexivity).
  assert (Hm : (nloc (s_cur s1) + 1 <= STACK_MAX)%N).
  { pose proof (si_len _ SI1). pose proof stack_300. unfold nloc. lia. }
  pose proof (emit_return_gen _ _ _ _ _ _ E2 A1 Hk (si_try _ SI1) Hm) as X.
  set (R2 := [mkG OpNil 0 0 [] (nloc (s_cur s1)) false; mkG OpReturn 0 0 [] (nloc (s_cur s1) + 1)%N false]) in *.
  assert (Ef : f = func_of_comp (s_cur s2)) by (destruct (s_outer s2); inversion E; reflexivity).
  assert (Har : k_arity (s_cur s2) = 1%N).
  { unfold emit_return, cbind, cur in E2. rewrite Hk, (si_try _ SI1) in E2. simpl in E2.
    unfold emit_op, emit_byte, cbind, upd, set_line in E2. inversion E2; subst. simpl.
    rewrite (wk_arity _ _ A4). reflexivity. }
  exists (G ++ R2). subst f. simpl.
  split. { intros Z. apply app_eq_nil in Z. destruct Z as [_ Z]. discriminate. }
  split; [apply (X 0%N)|]. split. { apply noholes_app; auto. repeat constructor. }
  split; [intros H'; apply (X H')|]. split; auto.
  pose proof (A2 0 1%N eq_refl) as Y.
  assert (Z : Lext (hat G (nloc (s_cur s1))) (hat (G ++ R2) 0%N)) by (apply Lext_app; reflexivity).
  apply Z in Y. rewrite hat_0 in Y. inversion Y; auto.
Qed.

