(* FullCompileFnF: for loops (without break / continue). *)
From Coq Require Import Strings.Byte Strings.String.
From Coq Require Import List NArith ZArith Bool Arith Lia.
From Coq Require Import Floats.SpecFloat.
From YV Require Import Show Utf8 Num Ast Bytecode Skeleton VerifierProofs ParseLoc FullCompile FullCompileProofs.
From YV Require Import FullCompileFnA FullCompileFnB FullCompileFnC FullCompileFnD FullCompileFnE.
Import ListNotations.
Local Open Scope nat_scope.
Local Open Scope list_scope.
Local Open Scope comp_scope.

(* add_local used directly (the hidden iterator variable of `for`) *)
Lemma wp_add_local_k x cb g0 H0 s gacc H (Q : bool -> cstate -> Prop) :
  post cb g0 H0 (s_cur s) gacc H -> length (k_locals (s_cur s)) <= 256 ->
  Q false s ->
  (forall s', post (s_cur s') g0 H0 (s_cur s') gacc H -> wk (s_cur s) (s_cur s') ->
              lks (s_cur s') = (x, None) :: lks (s_cur s) ->
              length (k_locals (s_cur s')) <= 256 -> ctl (s_cur s') = ctl (s_cur s) -> Q true s') ->
  wp (add_local x) s Q.
Proof.
  intros P Hl Qf HQ. unfold add_local. apply wp_bind. apply wp_cur.
  destruct (Nat.eqb (length (k_locals (s_cur s))) LOCALS_MAX) eqn:E.
  - apply wp_ret. exact Qf.
  - apply wp_bind. eapply wp_upd; [constructor; reflexivity | exact P |]. intros s1 E1 P1.
    apply wp_ret. apply Nat.eqb_neq in E. unfold LOCALS_MAX in E.
    apply HQ; auto; try (rewrite E1; reflexivity).
    + apply wk_of_tweak. rewrite E1. constructor; reflexivity.
    + rewrite E1. cbn [k_locals with_locals length]. lia.
Qed.

(* Compiler::mark_initialised(slot) for the newest-but-n local; here: the newest one *)
Lemma wp_mark_slot_k x r slot cb g0 H0 s gacc H (Q : unit -> cstate -> Prop) :
  post cb g0 H0 (s_cur s) gacc H -> lks (s_cur s) = (x, None) :: r -> slot = length r ->
  (forall s', post (s_cur s') g0 H0 (s_cur s') gacc H -> wk (s_cur s) (s_cur s') ->
              lks (s_cur s') = (x, Some (k_scope (s_cur s))) :: r ->
              length (k_locals (s_cur s')) = length (k_locals (s_cur s)) ->
              ctl (s_cur s') = ctl (s_cur s) -> Q tt s') ->
  wp (mark_initialised_slot slot) s Q.
Proof.
  intros P El Hs HQ. unfold lks in El. destruct (k_locals (s_cur s)) as [|[n d b] r0] eqn:E; [discriminate|].
  simpl in El. inversion El; subst. clear El.
  unfold mark_initialised_slot. eapply wp_upd; [constructor; reflexivity | exact P |]. intros s1 E1 P1.
  assert (Ei : length (k_locals (s_cur s)) - 1 - length (map lkey r0) = 0).
  { rewrite E, map_length. simpl. lia. }
  rewrite Ei, E in E1. simpl mark_slot in E1.
  apply HQ; auto; try (rewrite E1; reflexivity);
    try (apply wk_of_tweak; rewrite E1; constructor; reflexivity);
    try (rewrite E1; cbn [k_locals with_locals length]; rewrite E; reflexivity).
Qed.

Lemma wp_assoc {A B D} (m : C A) (f : A -> C B) (k : B -> C D) s (Q : D -> cstate -> Prop) :
  wp (cbind (cbind m f) k) s Q -> wp (cbind m (fun a => cbind (f a) k)) s Q.
Proof.
  intros H d s' E. apply H. unfold cbind in *. destruct (m s) as [[a s1]|]; auto.
Qed.

Fixpoint fragS3 (st : lstmt) : bool :=
  match st with
  | LSExpr e _ => okE e
  | LSThrow e _ => okE e
  | LSVar _ _ _ => true
  | LSVarInit _ e _ => okE e
  | LSBlock b _ => fragSs3 b
  | LSIf c _ t _ => okE c && fragSs3 t
  | LSIfElse c _ t _ e => okE c && fragSs3 t && fragS3 e && nodecl e
  | LSWhile c _ b _ => okE c && fragSs3 b
  | LSFor _ _ it _ b _ => okE it && fragSs3 b
  | _ => false
  end
with fragSs3 (l : lstmts) : bool :=
  match l with LSNil => true | LSCons s r => fragS3 s && fragSs3 r end.

Theorem stmt_heights3 :
  (forall e : lexpr, True) /\ (forall es : lexprs, True) /\ (forall ps : lparts, True) /\ (forall kvs : lkvs, True) /\
  (forall st, fragS3 st = true -> striple2 (nodecl st) (cstmt st)) /\
  (forall l, fragSs3 l = true -> striple2 false (cstmts l)) /\
  (forall ms : lmethods, True).
Proof.
  apply lsyntax_mutind; try (intros; exact I).
  - (* LSExpr *) sstart2. useX. op0. apply sres2_of_ext; [fin | exact Hlen].
  - (* LSVar *) sstart2. sline. bnd. unfold parse_variable. bnd.
    destruct (k_scope (s_cur s)) as [|d] eqn:Esc.
    + unfold declare_variable. bnd. apply wp_cur. rewrite Esc. simpl. apply wp_ret.
      bnd. apply wp_cur. rewrite Esc. simpl. ident. op0.
      unfold define_variable. bnd. apply wp_cur.
      rewrite (fr_scope _ _ F0), (fr_scope _ _ F), Esc. simpl. op16.
      apply sres2_of_ext; [fin | exact Hlen].
    + eapply wp_declare_local_k; [eassumption | lia | exact Hlen | intros ?s ?P ?W ?El ?Hlbx ?Hl ?Ec].
      bnd. apply wp_cur. rewrite (ctl_scope _ _ Ec). cbn [ctl fst]. rewrite Esc. simpl. apply wp_ret.
      op0. unfold define_variable. bnd. apply wp_cur.
      rewrite (fr_scope _ _ F), (ctl_scope _ _ Ec). cbn [ctl fst]. rewrite Esc. simpl.
      eapply wp_mark_initialised_k; [eassumption | | rewrite (lks_frame _ _ F); exact El | intros ?s ?P ?W ?El ?Hl ?Ec].
      { rewrite (fr_scope _ _ F), (ctl_scope _ _ Ec). cbn [ctl fst]. rewrite Esc. discriminate. }
      eapply sres2_close with (news := [(x, Some (k_scope (s_cur s1)))]);
        [ eapply post_eqH; [exact P2 | rewrite (nloc_cons _ _ _ El0); lia] | auto with ht | wkt
        | rewrite Ec0, (ctl_frame _ _ F), Ec; reflexivity | exact El0
        | constructor; [simpl; rewrite (fr_scope _ _ F), (ctl_scope _ _ Ec); reflexivity | constructor]
        | rewrite Hl0, (len_lks _ _ (lks_frame _ _ F)); exact Hl | first [intros HH; discriminate HH | intros _; reflexivity] ].
  - (* LSVarInit *) sstart2. bnd. unfold parse_variable. bnd.
    destruct (k_scope (s_cur ss)) as [|d] eqn:Esc.
    + unfold declare_variable. bnd. apply wp_cur. rewrite Esc. simpl. apply wp_ret.
      bnd. apply wp_cur. rewrite Esc. simpl. ident. useX.
      unfold define_variable. bnd. apply wp_cur.
      rewrite (fr_scope _ _ F0), (fr_scope _ _ F), Esc. simpl. op16.
      apply sres2_of_ext; [fin | exact Hlen].
    + eapply wp_declare_local_k; [eassumption | lia | exact Hlen | intros ?s ?P ?W ?El ?Hlbx ?Hl ?Ec].
      bnd. apply wp_cur. rewrite (ctl_scope _ _ Ec). cbn [ctl fst]. rewrite Esc. simpl. apply wp_ret.
      pose proof (Hlbx _ Hlb) as Hlb1.
      assert (Har1 : (k_arity (s_cur s) <= nloc (s_cur ss))%N) by (rewrite (wk_arity _ _ W); exact Har).
      useX. unfold define_variable. bnd. apply wp_cur.
      rewrite (fr_scope _ _ F), (ctl_scope _ _ Ec). cbn [ctl fst]. rewrite Esc. simpl.
      eapply wp_mark_initialised_k; [eassumption | | rewrite (lks_frame _ _ F); exact El | intros ?s ?P ?W ?El ?Hl ?Ec].
      { rewrite (fr_scope _ _ F), (ctl_scope _ _ Ec). cbn [ctl fst]. rewrite Esc. discriminate. }
      eapply sres2_close with (news := [(x, Some (k_scope (s_cur s0)))]);
        [ eapply post_eqH; [exact P2 | rewrite (nloc_cons _ _ _ El0); lia] | auto with ht | wkt
        | rewrite Ec0, (ctl_frame _ _ F), Ec; reflexivity | exact El0
        | constructor; [simpl; rewrite (fr_scope _ _ F), (ctl_scope _ _ Ec); reflexivity | constructor]
        | rewrite Hl0, (len_lks _ _ (lks_frame _ _ F)); exact Hl | first [intros HH; discriminate HH | intros _; reflexivity] ].
  - sstart2.
  - sstart2.
  - (* LSBlock *) sstart2.
    eapply wp_scoped;
      [ match goal with IH : _ -> striple2 _ _ |- _ => apply (striple2_weak _ _ (IH ltac:(assumption))) end | exact P0 | exact SI
      | intros ?s X; exact X | intros ?s (?g & ?P & ?NH) ?W ?El ?Ec ].
    eapply sres2_close with (news := []);
      [ eapply post_eqH; [exact P | symmetry; apply nloc_eq; exact El] | exact NH | exact W | exact Ec
      | exact El | constructor | rewrite (len_lks _ _ El); exact Hlen | first [intros HH; discriminate HH | intros _; reflexivity] ].
  - (* LSIf *) sstart2. useX. jif. op0.
    pose proof (po_fr _ _ _ _ _ _ P2) as F01. pose proof (po_gr _ _ _ _ _ _ P2) as G01.
    pose proof (nloc_eq _ _ (lks_frame _ _ F01)) as En.
    eapply wp_scoped;
      [ match goal with IH : _ -> striple2 _ _ |- _ => apply (striple2_weak _ _ (IH ltac:(assumption))) end
      | eapply post_eqH; [exact P2 | lia] | eapply SInv_frame; eauto
      | intros ?s X; apply wp_bind; exact X | intros ?s (?g & ?P & ?NH) ?W ?El ?Ec ].
    assert (Har3 : (k_arity (s_cur s2) <= nloc (s_cur ss))%N)
      by (rewrite (wk_arity _ _ W), (fr_arity _ _ F01); exact Har).
    jmp (nloc (s_cur ss) + 1)%N. patch. op0. patch.
    eapply sres2_close3 with (sk := s_cur s1) (s3 := s_cur s2);
      [ exact F01 | exact G01 | exact W | exact El | exact Ec
      | eapply post_eqH; [eassumption | lia] | auto 20 with ht | exact Hlen ].
  - (* LSIfElse *) sstart2. useX. jif. op0.
    pose proof (po_fr _ _ _ _ _ _ P2) as F01. pose proof (po_gr _ _ _ _ _ _ P2) as G01.
    pose proof (nloc_eq _ _ (lks_frame _ _ F01)) as En.
    eapply wp_scoped;
      [ match goal with IH : _ -> striple2 _ (cstmts _) |- _ => apply (striple2_weak _ _ (IH ltac:(assumption))) end
      | eapply post_eqH; [exact P2 | lia] | eapply SInv_frame; eauto
      | intros ?s X; apply wp_bind; exact X | intros ?s (?g & ?P & ?NH) ?W ?El ?Ec ].
    assert (Har3 : (k_arity (s_cur s2) <= nloc (s_cur ss))%N)
      by (rewrite (wk_arity _ _ W), (fr_arity _ _ F01); exact Har).
    jmp (nloc (s_cur ss) + 1)%N. patch. op0.
    pose proof (po_fr _ _ _ _ _ _ P6) as F25. pose proof (po_gr _ _ _ _ _ _ P6) as G25.
    assert (Els5 : lks (s_cur s5) = lks (s_cur ss))
      by (rewrite (lks_frame _ _ F25), El, (lks_frame _ _ F01); reflexivity).
    assert (Ecs5 : ctl (s_cur s5) = ctl (s_cur ss))
      by (rewrite (ctl_frame _ _ F25), Ec, (ctl_frame _ _ F01); reflexivity).
    assert (W5 : wk (s_cur ss) (s_cur s5)).
    { eapply wk_trans; [apply wk_of_frame; eauto|]. eapply wk_trans; [exact W|]. apply wk_of_frame; auto. }
    pose proof (nloc_eq _ _ Els5) as En5.
    bnd. eapply wp_stmt_use_nd;
      [ match goal with IH : _ -> striple2 _ (cstmt _), Hnd : nodecl _ = true |- _ =>
          rewrite <- Hnd; apply IH; assumption end
      | eapply post_eqH; [exact P6 | lia]
      | eapply SInv_same; [exact SI | exact Els5 | rewrite (ctl_scope _ _ Ecs5); reflexivity | exact W5]
      | intros ?s ?g ?P ?NH ?W ?Ec ?El ].
    patch.
    eapply sres2_close3 with (sk := s_cur ss) (s3 := s_cur s6);
      [ apply cframe_refl | apply cgrow_refl | eapply wk_trans; [exact W5 | exact W0]
      | rewrite El0; exact Els5 | rewrite Ec0; exact Ecs5
      | eapply post_eqH; [eassumption | lia] | auto 30 with ht | exact Hlen ].
  - (* LSWhile *) sstart2.
    bnd. eapply wp_push_loop; [exact P0 | intros s1 P1 W1 El1 Ec1].
    bnd. apply wp_code_len. rewrite (ci_code _ _ _ (po_inv _ _ _ _ _ _ P1)). fold (flen (gg ++ [])).
    assert (Elk1 : lks (s_cur s1) = lks (s_cur ss)) by (unfold lks; rewrite El1; reflexivity).
    assert (Hlb1 : lb (s_cur s1) (nloc (s_cur ss))) by (intros y i; rewrite El1; apply Hlb).
    assert (Har1 : (k_arity (s_cur s1) <= nloc (s_cur ss))%N) by (rewrite (wk_arity _ _ W1); exact Har).
    useX. jif. op0.
    pose proof (po_fr _ _ _ _ _ _ P3) as F12. pose proof (po_gr _ _ _ _ _ _ P3) as G12.
    assert (Els2 : lks (s_cur s2) = lks (s_cur ss)) by (rewrite (lks_frame _ _ F12); exact Elk1).
    pose proof (nloc_eq _ _ Els2) as En2.
    assert (W2 : wk (s_cur ss) (s_cur s2)) by (eapply wk_trans; [exact W1 | apply wk_of_frame; auto]).
    eapply wp_scoped;
      [ match goal with IH : _ -> striple2 _ (cstmts _) |- _ => apply (striple2_weak _ _ (IH ltac:(assumption))) end
      | eapply post_eqH; [exact P3 | lia]
      | eapply SInv_same; [exact SI | exact Els2
                          | rewrite (fr_scope _ _ F12), (ctl_scope _ _ Ec1); reflexivity | exact W2]
      | intros ?s X; apply wp_bind; exact X | intros ?s (?g & ?P & ?NH) ?W ?El ?Ec ].
    assert (Har3 : (k_arity (s_cur s3) <= nloc (s_cur ss))%N)
      by (rewrite (wk_arity _ _ W), (wk_arity _ _ W2); exact Har).
    apply (post_eqH _ _ _ _ _ _ (nloc (s_cur ss))) in P4; [|exact En2].
    bnd. eapply wp_emit_loop with (H' := (nloc (s_cur ss) + 1)%N);
      [ exact P4 | rewrite !flen_app; lia
      | apply (po_ext _ _ _ _ _ _ P4); rewrite app_nil_r; apply hat_end | lia
      | intros ?s (?gi & ?P & ?Hgi) ?G ?F ].
    patch.
    op0.
    pose proof (po_fr _ _ _ _ _ _ P7) as F36. pose proof (po_gr _ _ _ _ _ _ P7) as G36.
    assert (Ec6 : ctl (s_cur s6) = ctl (s_cur s1))
      by (rewrite (ctl_frame _ _ F36), Ec, (ctl_frame _ _ F12); reflexivity).
    assert (Els6 : lks (s_cur s6) = lks (s_cur ss))
      by (rewrite (lks_frame _ _ F36), El; exact Els2).
    eapply wp_pop_loop0;
      [ exact P7 | rewrite (ctl_loops _ _ Ec6); cbn [ctl fst snd]; rewrite (ctl_loops _ _ Ec1); reflexivity
      | rewrite (ctl_breaks _ _ Ec6); cbn [ctl fst snd]; rewrite (ctl_breaks _ _ Ec1); reflexivity
      | intros ?s ?P ?W ?El ?Ec ].
    assert (Els7 : lks (s_cur s7) = lks (s_cur ss)) by (unfold lks; rewrite El0; exact Els6).
    eapply sres2_close with (news := []);
      [ eapply post_eqH; [exact P8 | rewrite (nloc_eq _ _ Els7); lia] | auto 30 with ht
      | eapply wk_trans; [exact W2|]; eapply wk_trans; [exact W|];
        eapply wk_trans; [apply wk_of_frame; eauto | exact W0]
      | rewrite Ec0, (ctl_scope _ _ Ec6); cbn [ctl fst]; rewrite (ctl_scope _ _ Ec1); reflexivity
      | exact Els7 | constructor | rewrite (len_lks _ _ Els7); exact Hlen | auto ].
  - (* LSFor *) sstart2.
    bnd. eapply wp_begin_scope; [exact P0 | intros s1 P1 W1 El1 Ec1].
    assert (Elk1 : lks (s_cur s1) = lks (s_cur ss)) by (unfold lks; rewrite El1; reflexivity).
    bnd. eapply wp_declare_local_k;
      [ exact P1 | rewrite (ctl_scope _ _ Ec1); discriminate | rewrite El1; exact Hlen
      | intros s2 P2 W2 El2 Hlbx Hl2 Ec2 ].
    bnd. apply wp_cur.
    set (lv := length (k_locals (s_cur s2)) - 1) in *.
    assert (Hlv : lv = length (lks (s_cur ss))).
    { unfold lv. rewrite <- (map_length lkey). fold (lks (s_cur s2)). rewrite El2, Elk1. simpl. apply Nat.sub_0_r. }
    assert (Hlv' : N.of_nat lv = nloc (s_cur ss)) by (rewrite Hlv, nloc_lks; reflexivity).
    assert (Hlb2 : lb (s_cur s2) (nloc (s_cur ss))).
    { apply Hlbx. intros y i. rewrite El1. apply Hlb. }
    assert (Har2 : (k_arity (s_cur s2) <= nloc (s_cur ss))%N)
      by (rewrite (wk_arity _ _ W2), (wk_arity _ _ W1); exact Har).
    op0. useX.
    pose proof (po_fr _ _ _ _ _ _ P3) as F24. pose proof (po_gr _ _ _ _ _ _ P3) as G24.
    bnd. eapply wp_mark_slot_k with (x := x) (r := lks (s_cur ss));
      [ exact P3 | rewrite (lks_frame _ _ F24), El2, Elk1; reflexivity | exact Hlv
      | intros s5 P5 W5 El5 Hl5 Ec5 ].
    bnd. eapply wp_add_local_k;
      [ exact P5 | rewrite Hl5, (len_lks _ _ (lks_frame _ _ F24)); exact Hl2
      | apply wp_bind; apply wp_err | intros s6 P6 W6 El6 Hl6 Ec6 ].
    bnd. apply wp_ret.
    assert (Ec0' : ctl (s_cur s0) = (S (k_scope (s_cur ss)), k_loops (s_cur ss), k_breaks (s_cur ss)))
      by (rewrite (ctl_frame _ _ F24), Ec2; exact Ec1).
    assert (Ec6' : ctl (s_cur s6) = (S (k_scope (s_cur ss)), k_loops (s_cur ss), k_breaks (s_cur ss)))
      by (rewrite Ec6, Ec5; exact Ec0').
    rewrite (ctl_scope _ _ Ec0') in El5. cbn [fst] in El5.
    assert (W06 : wk (s_cur ss) (s_cur s6)).
    { eapply wk_trans; [exact W1|]. eapply wk_trans; [exact W2|]. eapply wk_trans; [apply wk_of_frame; eauto|].
      eapply wk_trans; [exact W5 | exact W6]. }
    assert (Har6 : (k_arity (s_cur s6) <= nloc (s_cur ss))%N) by (rewrite (wk_arity _ _ W06); exact Har).
    sline. ident. apply wp_assoc. bnd. op16_8.
    pose proof (po_fr _ _ _ _ _ _ P7) as F37. pose proof (po_gr _ _ _ _ _ _ P7) as G37.
    bnd. eapply wp_mark_initialised_k with (x := bs "... temp-iter-var ...")
                                          (r := (x, Some (S (k_scope (s_cur ss)))) :: lks (s_cur ss));
      [ exact P7 | rewrite (fr_scope _ _ F37), (ctl_scope _ _ Ec6'); discriminate
      | rewrite (lks_frame _ _ F37), El6, El5; reflexivity | intros s8 P8 W8 El8 Hl8 Ec8 ].
    rewrite (fr_scope _ _ F37), (ctl_scope _ _ Ec6') in El8. cbn [fst] in El8.
    assert (En8 : nloc (s_cur s8) = (nloc (s_cur ss) + 2)%N).
    { rewrite !nloc_lks, El8. cbn [length]. lia. }
    assert (Ec8' : ctl (s_cur s8) = (S (k_scope (s_cur ss)), k_loops (s_cur ss), k_breaks (s_cur ss)))
      by (rewrite Ec8, (ctl_frame _ _ F37); exact Ec6').
    assert (W08 : wk (s_cur ss) (s_cur s8)).
    { eapply wk_trans; [exact W06|]. eapply wk_trans; [apply wk_of_frame; eauto | exact W8]. }
    assert (Hl8' : length (k_locals (s_cur s8)) <= 256).
    { rewrite Hl8, (len_lks _ _ (lks_frame _ _ F37)). exact Hl6. }
    bnd. eapply wp_push_loop; [exact P8 | intros s9 P9 W9 El9 Ec9].
    bnd. apply wp_code_len. rewrite (ci_code _ _ _ (po_inv _ _ _ _ _ _ P9)).
    match type of P9 with post _ _ _ _ ?ga _ => set (GA := ga) in * end.
    assert (NHGA : noholes GA) by (unfold GA; auto 20 with ht).
    fold (flen (gg ++ GA)).
    assert (Har9 : (k_arity (s_cur s9) <= nloc (s_cur ss))%N)
      by (rewrite (wk_arity _ _ W9), (wk_arity _ _ W08); exact Har).
    assert (Hmod : (N.of_nat lv mod 256 <= nloc (s_cur ss))%N).
    { rewrite <- Hlv'. apply N.mod_le. lia. }
    op0. op8. jif. op0.
    pose proof (po_fr _ _ _ _ _ _ P13) as F913. pose proof (po_gr _ _ _ _ _ _ P13) as G913.
    assert (Els13 : lks (s_cur s13) = (bs "... temp-iter-var ...", Some (S (k_scope (s_cur ss))))
                                       :: (x, Some (S (k_scope (s_cur ss)))) :: lks (s_cur ss)).
    { rewrite (lks_frame _ _ F913). unfold lks. rewrite El9. exact El8. }
    assert (En13 : nloc (s_cur s13) = (nloc (s_cur ss) + 2)%N).
    { rewrite !nloc_lks, Els13. cbn [length]. lia. }
    assert (Esc13 : k_scope (s_cur s13) = S (k_scope (s_cur ss))).
    { rewrite (fr_scope _ _ F913), (ctl_scope _ _ Ec9). cbn [fst]. rewrite (ctl_scope _ _ Ec8'). reflexivity. }
    assert (W013 : wk (s_cur ss) (s_cur s13)).
    { eapply wk_trans; [exact W08|]. eapply wk_trans; [exact W9 | apply wk_of_frame; auto]. }
    assert (Hl13 : length (k_locals (s_cur s13)) <= 256).
    { rewrite (len_lks _ _ (lks_frame _ _ F913)), El9. exact Hl8'. }
    assert (SI13 : SInv (s_cur s13)).
    { constructor.
      - rewrite Els13, Esc13. constructor; [eexists; split; [reflexivity | lia]|].
        constructor; [eexists; split; [reflexivity | lia]|].
        eapply Forall_impl; [|apply (si_init _ SI)]. intros k Hk. eapply kinit_mono; eauto.
      - exact Hl13.
      - rewrite (wk_try _ _ W013). apply (si_try _ SI).
      - rewrite (wk_arity _ _ W013), En13. lia. }
    eapply wp_scoped;
      [ match goal with IH : _ -> striple2 _ (cstmts _) |- _ => apply (striple2_weak _ _ (IH ltac:(assumption))) end
      | eapply post_eqH; [exact P13 | lia] | exact SI13
      | intros ?s X; apply wp_bind; exact X | intros s14 (gb & P14 & NH14) W14 El14 Ec14 ].
    apply (post_eqH _ _ _ _ _ _ (nloc (s_cur ss) + 2)%N) in P14; [|exact En13].
    assert (Har14 : (k_arity (s_cur s14) <= nloc (s_cur ss))%N)
      by (rewrite (wk_arity _ _ W14), (wk_arity _ _ W013); exact Har).
    bnd. eapply wp_emit_loop with (H' := (nloc (s_cur ss) + 3)%N);
      [ exact P14 | rewrite <- ?app_assoc; rewrite !flen_app; lia
      | rewrite <- ?app_assoc; rewrite (app_assoc gg GA); rewrite hat_app_ge by lia;
        rewrite Nat.sub_diag, hat_0; cbn [app hdh g_h]; f_equal; lia
      | lia | intros ?s (?gi & ?P & ?Hgi) ?G ?F ].
    patch. op0.
    pose proof (po_fr _ _ _ _ _ _ P17) as F1417. pose proof (po_gr _ _ _ _ _ _ P17) as G1417.
    assert (Ec17 : ctl (s_cur s17) = ctl (s_cur s9))
      by (rewrite (ctl_frame _ _ F1417), Ec14, (ctl_frame _ _ F913); reflexivity).
    assert (Els17 : lks (s_cur s17) = lks (s_cur s13)) by (rewrite (lks_frame _ _ F1417); exact El14).
    bnd. eapply wp_pop_loop0;
      [ exact P17 | rewrite (ctl_loops _ _ Ec17); cbn [ctl fst snd]; rewrite (ctl_loops _ _ Ec9); reflexivity
      | rewrite (ctl_breaks _ _ Ec17); cbn [ctl fst snd]; rewrite (ctl_breaks _ _ Ec9); reflexivity
      | intros s18 P18 W18 El18 Ec18 ].
    assert (Els18 : lks (s_cur s18) = [(bs "... temp-iter-var ...", Some (S (k_scope (s_cur ss))));
                                       (x, Some (S (k_scope (s_cur ss))))] ++ lks (s_cur ss)).
    { unfold lks. rewrite El18. fold (lks (s_cur s17)). rewrite Els17. exact Els13. }
    assert (En18 : nloc (s_cur s18) = (nloc (s_cur ss) + 2)%N).
    { rewrite !nloc_lks, Els18. cbn [length app]. lia. }
    assert (W018 : wk (s_cur ss) (s_cur s18)).
    { eapply wk_trans; [exact W013|]. eapply wk_trans; [exact W14|].
      eapply wk_trans; [apply wk_of_frame; eauto | exact W18]. }
    assert (Ec18' : ctl (s_cur s18) = (S (k_scope (s_cur ss)), k_loops (s_cur ss), k_breaks (s_cur ss))).
    { rewrite Ec18, (ctl_scope _ _ Ec17). cbn [ctl fst]. rewrite (ctl_scope _ _ Ec9). cbn [fst].
      rewrite (ctl_scope _ _ Ec8'), (ctl_loops _ _ Ec8'), (ctl_breaks _ _ Ec8'). reflexivity. }
    eapply wp_end_scope with (d := k_scope (s_cur ss)) (old := lks (s_cur ss))
        (news := [(bs "... temp-iter-var ...", Some (S (k_scope (s_cur ss)))); (x, Some (S (k_scope (s_cur ss))))]);
      [ eapply post_eqH; [exact P18 | lia] | exact Els18 | rewrite (ctl_scope _ _ Ec18'); reflexivity
      | repeat constructor | apply (si_init _ SI)
      | rewrite (wk_arity _ _ W018), <- nloc_lks; exact Har
      | lia | intros s19 (gp & P19 & N19) W19 El19 Ec19 ].
    eapply sres2_close with (news := []);
      [ eapply post_eqH; [exact P19 | rewrite (nloc_eq _ _ El19), nloc_lks; reflexivity] | auto 40 with ht
      | eapply wk_trans; [exact W018 | exact W19]
      | rewrite Ec19, (ctl_loops _ _ Ec18'), (ctl_breaks _ _ Ec18'); reflexivity
      | exact El19 | constructor | rewrite (len_lks _ _ El19); exact Hlen | auto ].
  - sstart2.
  - sstart2.
  - sstart2.
  - sstart2.
  - (* LSThrow *) sstart2. useX.
    eapply wp_emit with (gi := mkG OpThrow 0 0 [] (nloc (s_cur ss) + 1)%N false) (H' := nloc (s_cur ss));
      [ apply emits_op | eassumption | reflexivity | split; [simpl; lia | simpl; split; [reflexivity | lia]]
      | intros ? ?s ?P ?G ?F ?O ?Cl ].
    apply sres2_of_ext; [fin | exact Hlen].
  - sstart2.
  - sstart2.
  - sstart2.
  - sstart2.
  - (* LSNil *) sstart2. apply wp_ret. apply sres2_of_ext; [fin | exact Hlen].
  - (* LSCons *) sstart2.
    bnd. eapply wp_stmt_use;
      [ match goal with IH : _ -> striple2 _ (cstmt _) |- _ => apply (striple2_weak _ _ (IH ltac:(assumption))) end | exact P0 | exact SI
      | intros ?s ?g ?news ?P ?NH ?W ?Ec ?El ?Hn ?SI ].
    eapply wp_stmt_use;
      [ match goal with IH : _ -> striple2 _ (cstmts _) |- _ => apply (striple2_weak _ _ (IH ltac:(assumption))) end | exact P | exact SI0
      | intros ?s ?g ?news ?P ?NH ?W ?Ec ?El ?Hn ?SI ].
    eapply sres2_close with (news := news0 ++ news);
      [ exact P1 | auto with ht | eapply wk_trans; eauto | rewrite Ec0; exact Ec
      | rewrite El0, El, app_assoc; reflexivity
      | apply Forall_app; split; [rewrite (ctl_scope _ _ Ec) in Hn0; exact Hn0 | exact Hn]
      | apply (si_len _ SI1) | first [intros HH; discriminate HH | intros _; reflexivity] ].
Qed.
Print Assumptions stmt_heights3.

Lemma stmts_heights3 l : fragSs3 l = true -> striple (cstmts l).
Proof.
  intros H. eapply striple2_weak.
  exact (proj1 (proj2 (proj2 (proj2 (proj2 (proj2 stmt_heights3))))) l H).
Qed.

