(* FullCompileFnG: break / continue.  Statement triples that return the pending break holes (positions newly pushed on
   the head of k_breaks, all at the loop's exit height); pop_loop patches them all. *)
From Coq Require Import Strings.Byte Strings.String.
From Coq Require Import List NArith ZArith Bool Arith Lia.
From Coq Require Import Floats.SpecFloat.
From YV Require Import Show Utf8 Num Ast Bytecode Skeleton VerifierProofs ParseLoc FullCompile FullCompileProofs.
From YV Require Import FullCompileFnA FullCompileFnB FullCompileFnC FullCompileFnD FullCompileFnE FullCompileFnF.
Import ListNotations.
Local Open Scope nat_scope.
Local Open Scope list_scope.
Local Open Scope comp_scope.

(* ---------- holes of a ghost ---------- *)
Fixpoint hpos (off : nat) (g : list ginstr) : list nat :=
  match g with
  | [] => []
  | gi :: r => (if g_hole gi then [off + 1] else []) ++ hpos (off + glen gi) r
  end.

Lemma hpos_app off a b : hpos off (a ++ b) = hpos off a ++ hpos (off + flen a) b.
Proof.
  revert off. induction a as [|x a IH]; intros off; simpl.
  - rewrite flen_nil, Nat.add_0_r. reflexivity.
  - rewrite IH, flen_cons, <- app_assoc, Nat.add_assoc. reflexivity.
Qed.

Lemma hpos_noholes off a : noholes a -> hpos off a = [].
Proof.
  revert off. induction a as [|x a IH]; intros off H; simpl; auto.
  inversion H; subst. rewrite H2. simpl. apply IH; auto.
Qed.

Definition bh (LH : N) (gi : ginstr) : Prop := g_hole gi = true -> gi = mkG OpJump 65535 0 [] LH true.

Lemma noholes_bh LH a : noholes a -> Forall (bh LH) a.
Proof. intros H. eapply Forall_impl; [|exact H]. intros gi E X. congruence. Qed.

Lemma bh_nil_noholes LH a off : Forall (bh LH) a -> hpos off a = [] -> noholes a.
Proof.
  revert off. induction a as [|x a IH]; intros off H E; [constructor|].
  inversion H; subst. simpl in E. destruct (g_hole x) eqn:Ex; [discriminate|].
  constructor; auto. eapply IH; eauto.
Qed.

(* ---------- the exit height of the innermost loop ---------- *)
Fixpoint npop (d : nat) (ks : list key) : nat :=
  match ks with
  | (_, Some v) :: r => if Nat.leb v d then 0 else S (npop d r)
  | _ => 0
  end.

Lemma scope_end_npop d ls :
  length (scope_end_ops d ls) = npop d (map lkey ls) /\ Forall is_pop (scope_end_ops d ls).
Proof.
  induction ls as [|l r [IH1 IH2]]; simpl; auto.
  unfold lkey at 1. simpl. destruct (kl_depth l) as [v|]; [|auto].
  destruct (Nat.leb v d); [auto|]. simpl. split; [f_equal; exact IH1|].
  constructor; auto. destruct (kl_captured l); [right|left]; reflexivity.
Qed.

Lemma npop_le d ks : npop d ks <= length ks.
Proof. induction ks as [|[n [v|]] r IH]; simpl; try lia. destruct (Nat.leb v d); simpl; lia. Qed.

Lemma npop_news d sc (news ks : list key) :
  Forall (fun k : key => snd k = Some sc) news -> d < sc -> npop d (news ++ ks) = length news + npop d ks.
Proof.
  intros H Hd. induction H as [|[n o] news Hk Hn IH]; simpl; auto.
  simpl in Hk. subst o. replace (Nat.leb sc d) with false by (symmetry; apply Nat.leb_gt; lia). rewrite IH. reflexivity.
Qed.

Lemma npop_init d (ks : list key) : Forall (kinit d) ks -> npop d ks = 0.
Proof.
  intros H. destruct H as [|[n o] r (v & Hv & Hle) _]; simpl; auto. simpl in Hv. subst o.
  apply Nat.leb_le in Hle. rewrite Hle. reflexivity.
Qed.

Definition lexit (c : comp) : N :=
  match k_loops c with
  | (_, dL, _) :: _ => N.of_nat (length (lks c) - npop dL (lks c))
  | [] => 0%N
  end.

Lemma lexit_same c c' : k_loops c' = k_loops c -> lks c' = lks c -> lexit c' = lexit c.
Proof. intros A B. unfold lexit. rewrite A, B. reflexivity. Qed.

Definition LoopI (strict : bool) (c : comp) (g : list ginstr) : Prop :=
  match k_loops c with
  | (st, dL, _) :: _ =>
    (if strict then dL < k_scope c else dL <= k_scope c) /\ (k_arity c <= lexit c)%N /\
    st <= flen g /\ hat g (nloc c) st = Some (lexit c)
  | [] => True
  end.

Record SInv3 (strict : bool) (c : comp) (g : list ginstr) : Prop := mkSInv3 {
  s3_base : SInv c;
  s3_tryd : k_try_depth c = 0;
  s3_len : length (k_breaks c) = length (k_loops c);
  s3_loop : LoopI strict c g
}.

Lemma SInv3_weak c g : SInv3 true c g -> SInv3 false c g.
Proof.
  intros [A B D E]. constructor; auto. unfold LoopI in *. destruct (k_loops c) as [|[[st dL] td] r]; auto.
  destruct E as (E1 & E2). split; auto. lia.
Qed.

Definition pushb (nb : list nat) (bs : list (list nat)) : list (list nat) :=
  match bs with b :: r => (nb ++ b) :: r | [] => [] end.
Lemma pushb_nil bs : pushb [] bs = bs. Proof. destruct bs; reflexivity. Qed.
Lemma pushb_pushb a b bs : pushb a (pushb b bs) = pushb (a ++ b) bs.
Proof. destruct bs; simpl; auto. rewrite app_assoc. reflexivity. Qed.
Lemma pushb_length nb bs : length (pushb nb bs) = length bs.
Proof. destruct bs; reflexivity. Qed.

(* ---------- the statement triple with pending break holes ---------- *)
Definition sresx3 (c : comp) (g : list ginstr) (c' : comp) (g' : list ginstr) (news : list key) (newb : list nat) : Prop :=
  CInv c' (g ++ g') (nloc c') /\ Lext (hat g (nloc c)) (hat (g ++ g') (nloc c')) /\ wk c c' /\
  ctl c' = (k_scope c, k_loops c, pushb newb (k_breaks c)) /\ (k_breaks c = [] -> newb = []) /\
  lks c' = news ++ lks c /\ Forall (fun k : key => snd k = Some (k_scope c)) news /\
  length (k_locals c') <= 256 /\
  newb = rev (hpos (flen g) g') /\ Forall (bh (lexit c)) g'.

Definition sres3 (b : bool) (c : comp) (g : list ginstr) (c' : comp) : Prop :=
  exists g' news newb, sresx3 c g c' g' news newb /\ (b = true -> news = []).

Definition striple3 (b : bool) (m : C unit) : Prop :=
  forall s g, CInv (s_cur s) g (nloc (s_cur s)) -> SInv3 true (s_cur s) g ->
    wp m s (fun _ s' => sres3 b (s_cur s) g (s_cur s')).

Lemma ctl3 c x y z : ctl c = (x, y, z) -> k_scope c = x /\ k_loops c = y /\ k_breaks c = z.
Proof. unfold ctl. intros E. inversion E. auto. Qed.

Lemma lexit_stable c c' news :
  LoopI true c [] \/ True -> k_loops c' = k_loops c -> lks c' = news ++ lks c ->
  Forall (fun k : key => snd k = Some (k_scope c)) news ->
  (match k_loops c with (_, dL, _) :: _ => dL < k_scope c | [] => True end) ->
  lexit c' = lexit c.
Proof.
  intros _ El Ek Hn Hd. unfold lexit. rewrite El, Ek. destruct (k_loops c) as [|[[st dL] td] r]; auto.
  rewrite (npop_news dL (k_scope c)); auto. rewrite app_length. f_equal. lia.
Qed.

Lemma SInv3_sres b c g c' : SInv3 true c g -> sres3 b c g c' ->
  exists g', SInv3 true c' (g ++ g') /\ lexit c' = lexit c.
Proof.
  intros [SI Td Ln LI] (g' & news & newb & (A1 & A2 & A3 & A4 & A5 & A6 & A7 & A8 & A9 & A10) & _).
  destruct (ctl3 _ _ _ _ A4) as (Es & El & Eb). exists g'.
  assert (Hd : match k_loops c with (_, dL, _) :: _ => dL < k_scope c | [] => True end).
  { unfold LoopI in LI. destruct (k_loops c) as [|[[st dL] td] r]; auto. apply LI. }
  assert (Elx : lexit c' = lexit c) by (eapply lexit_stable; eauto).
  split; auto. constructor.
  - destruct SI as [B1 B2 B3 B4]. constructor.
    + rewrite A6, Es. apply Forall_app. split; auto.
      eapply Forall_impl; [|exact A7]. intros k Hk. exists (k_scope c). auto.
    + exact A8.
    + rewrite (wk_try _ _ A3). auto.
    + rewrite (wk_arity _ _ A3). rewrite !nloc_lks, A6, app_length in *. lia.
  - rewrite (wk_tryd _ _ A3). auto.
  - rewrite Eb, El, pushb_length. auto.
  - unfold LoopI in *. rewrite El, Es, Elx, (wk_arity _ _ A3). destruct (k_loops c) as [|[[st dL] td] r]; auto.
    destruct LI as (L1 & L2 & L3 & L4). repeat split; auto;
      try (rewrite flen_app; lia); try (apply A2; exact L4).
Qed.

Lemma wp_stmt_use3 b m cb g0 H0 s gacc (Q : unit -> cstate -> Prop) :
  striple3 b m -> post cb g0 H0 (s_cur s) gacc (nloc (s_cur s)) -> SInv3 true (s_cur s) (g0 ++ gacc) ->
  (forall s' g' news newb,
        post (s_cur s') g0 H0 (s_cur s') (gacc ++ g') (nloc (s_cur s')) -> wk (s_cur s) (s_cur s') ->
        ctl (s_cur s') = (k_scope (s_cur s), k_loops (s_cur s), pushb newb (k_breaks (s_cur s))) ->
        (k_breaks (s_cur s) = [] -> newb = []) ->
        lks (s_cur s') = news ++ lks (s_cur s) ->
        Forall (fun k : key => snd k = Some (k_scope (s_cur s))) news ->
        newb = rev (hpos (flen (g0 ++ gacc)) g') -> Forall (bh (lexit (s_cur s))) g' ->
        (b = true -> news = []) ->
        SInv3 true (s_cur s') (g0 ++ gacc ++ g') -> lexit (s_cur s') = lexit (s_cur s) -> Q tt s') ->
  wp m s Q.
Proof.
  intros T P SI HQ u s' E.
  pose proof (T s (g0 ++ gacc) (po_inv _ _ _ _ _ _ P) SI u s' E) as R.
  destruct (SInv3_sres _ _ _ _ SI R) as (gx & SI' & Elx).
  destruct R as (g' & news & newb & (A1 & A2 & A3 & A4 & A5 & A6 & A7 & A8 & A9 & A10) & Hnd).
  destruct u. apply (HQ s' g' news newb); auto.
  - constructor; auto using cframe_refl, cgrow_refl.
    + rewrite app_assoc. exact A1.
    + rewrite app_assoc. eapply Lext_trans; [apply (po_ext _ _ _ _ _ _ P) | exact A2].
  - (* SInv3 for the concrete g' : redo with the same witness *)
    destruct SI as [SIb Td Ln LI]. destruct (ctl3 _ _ _ _ A4) as (Es & El & Eb).
    destruct SI' as [S1 S2 S3 S4]. constructor; auto.
    unfold LoopI in *. rewrite El, Es, Elx, (wk_arity _ _ A3). destruct (k_loops (s_cur s)) as [|[[st dL] td] r]; auto.
    destruct LI as (L1 & L2 & L3 & L4). repeat split; auto;
      try (rewrite !flen_app in *; lia); try (rewrite app_assoc; apply A2; exact L4).
Qed.

(* ---------- pop_loop: all pending breaks of the loop are patched ---------- *)
Lemma patch_all gW : forall cb g0 H0 s ga H (Q : unit -> cstate -> Prop),
  post cb g0 H0 (s_cur s) (ga ++ gW) H -> Forall (bh H) gW ->
  (forall s' gW', post cb g0 H0 (s_cur s') (ga ++ gW') H -> noholes gW' ->
                  cgrow (s_cur s) (s_cur s') -> cframe (s_cur s) (s_cur s') -> Q tt s') ->
  wp (patch_jumps (hpos (flen (g0 ++ ga)) gW)) s Q.
Proof.
  induction gW as [|gi r IH]; intros cb g0 H0 s ga H Q P HB HQ.
  - simpl. apply wp_ret. apply (HQ s []); auto using cgrow_refl, cframe_refl with ht.
  - inversion HB as [|? ? Hgi Hr]; subst. simpl. destruct (g_hole gi) eqn:Eh.
    + pose proof (Hgi Eh) as Egi. subst gi. simpl. apply wp_bind.
      eapply wp_patch_jump with (ga := ga) (gb := r) (pos := flen (g0 ++ ga) + 1);
        [ exact P | reflexivity | left; reflexivity | reflexivity | reflexivity | ]. intros s1 P1 G1 F1.
      set (gi' := mkG OpJump (N.of_nat (flen r)) 0 [] H false) in *.
      change (ga ++ gi' :: r) with (ga ++ [gi'] ++ r) in P1. rewrite app_assoc in P1.
      replace (flen (g0 ++ ga) + glen (mkG OpJump 65535 0 [] H true)) with (flen (g0 ++ (ga ++ [gi'])))
        by (rewrite !flen_app, flen_one; unfold gi', glen; simpl; lia).
      eapply IH; [exact P1 | exact Hr |]. intros s2 gW' P2 N2 G2 F2.
      apply (HQ s2 (gi' :: gW')).
      * rewrite <- app_assoc in P2. exact P2.
      * constructor; auto.
      * eapply cgrow_trans; eauto.
      * eapply cframe_trans; eauto.
    + simpl.
      change (ga ++ gi :: r) with (ga ++ [gi] ++ r) in P. rewrite app_assoc in P.
      replace (flen (g0 ++ ga) + glen gi) with (flen (g0 ++ (ga ++ [gi])))
        by (rewrite !flen_app, flen_one; lia).
      eapply IH; [exact P | exact Hr |]. intros s2 gW' P2 N2 G2 F2.
      apply (HQ s2 (gi :: gW')); auto.
      * rewrite <- app_assoc in P2. exact P2.
      * constructor; auto.
Qed.

Lemma wp_pop_loop lp lps b bks gW cb g0 H0 s ga H (Q : unit -> cstate -> Prop) :
  post cb g0 H0 (s_cur s) (ga ++ gW) H -> k_loops (s_cur s) = lp :: lps -> k_breaks (s_cur s) = b :: bks ->
  b = rev (hpos (flen (g0 ++ ga)) gW) -> Forall (bh H) gW ->
  (forall s' gW', post (s_cur s') g0 H0 (s_cur s') (ga ++ gW') H -> noholes gW' -> wk (s_cur s) (s_cur s') ->
              lks (s_cur s') = lks (s_cur s) ->
              ctl (s_cur s') = (k_scope (s_cur s), lps, bks) -> Q tt s') ->
  wp pop_loop s Q.
Proof.
  intros P El Eb Hb HB HQ. unfold pop_loop. apply wp_bind. apply wp_cur. rewrite Eb, Hb, rev_involutive.
  apply wp_bind. eapply wp_upd; [constructor; reflexivity | exact P |]. intros s1 E1 P1.
  eapply patch_all; [exact P1 | exact HB |]. intros s2 gW' P2 N2 G2 F2.
  apply (HQ s2 gW'); auto.
  - eapply post_reframe. exact P2.
  - apply wk_trans with (s_cur s1); [apply wk_of_tweak; rewrite E1; constructor; reflexivity | apply wk_of_frame; auto].
  - rewrite (lks_frame _ _ F2). unfold lks. rewrite E1. reflexivity.
  - rewrite (ctl_frame _ _ F2). unfold ctl. rewrite E1. cbn [k_scope k_loops k_breaks with_loops].
    rewrite El, Eb. reflexivity.
Qed.

(* ---------- closers ---------- *)
Lemma sres3_close b cb c g c' g' news newb :
  post cb g (nloc c) c' g' (nloc c') -> wk c c' ->
  ctl c' = (k_scope c, k_loops c, pushb newb (k_breaks c)) -> (k_breaks c = [] -> newb = []) ->
  lks c' = news ++ lks c -> Forall (fun k : key => snd k = Some (k_scope c)) news ->
  length (k_locals c') <= 256 -> newb = rev (hpos (flen g) g') -> Forall (bh (lexit c)) g' ->
  (b = true -> news = []) -> sres3 b c g c'.
Proof.
  intros P. exists g', news, newb. split; auto. unfold sresx3.
  split; [apply P|]. split; [apply P|]. auto 12.
Qed.

Lemma sres3_of_ext b c g c' :
  ghost_ext c g (nloc c) c' [] (nloc c) -> length (k_locals c) <= 256 -> sres3 b c g c'.
Proof.
  intros (g' & P & NH) Hl. simpl in P. pose proof (po_fr _ _ _ _ _ _ P) as Pf. pose proof (po_gr _ _ _ _ _ _ P) as Pg.
  assert (En : nloc c' = nloc c) by (apply nloc_eq, lks_frame; auto).
  eapply sres3_close with (news := []) (newb := []).
  - rewrite En. exact P.
  - apply wk_of_frame; auto.
  - rewrite pushb_nil. apply ctl_frame; auto.
  - auto.
  - apply lks_frame; auto.
  - constructor.
  - rewrite (len_lks _ _ (lks_frame _ _ Pf)). exact Hl.
  - rewrite hpos_noholes; auto.
  - apply noholes_bh; auto.
  - auto.
Qed.

(* ---------- begin_scope; statements; end_scope, with pending breaks ---------- *)
Lemma wp_scoped3 bb b l (rest : C unit) (Q2 : unit -> cstate -> Prop) cb g0 H0 ss gacc (Q : unit -> cstate -> Prop) :
  striple3 bb (cstmts b) -> post cb g0 H0 (s_cur ss) gacc (nloc (s_cur ss)) ->
  SInv3 false (s_cur ss) (g0 ++ gacc) ->
  (forall s2, wp (end_scope l) s2 Q2 -> wp rest s2 Q) ->
  (forall s3 gb newb, post (s_cur s3) g0 H0 (s_cur s3) (gacc ++ gb) (nloc (s_cur ss)) ->
              wk (s_cur ss) (s_cur s3) -> lks (s_cur s3) = lks (s_cur ss) ->
              ctl (s_cur s3) = (k_scope (s_cur ss), k_loops (s_cur ss), pushb newb (k_breaks (s_cur ss))) ->
              (k_breaks (s_cur ss) = [] -> newb = []) ->
              newb = rev (hpos (flen (g0 ++ gacc)) gb) -> Forall (bh (lexit (s_cur ss))) gb ->
              Q2 tt s3) ->
  wp (cbind begin_scope (fun _ => cbind (cstmts b) (fun _ => rest))) ss Q.
Proof.
  intros IH P0 [SI Td Ln LI] Hrest HQ.
  pose proof (si_len _ SI) as Hlen. pose proof stack_300 as HSM.
  apply wp_bind. eapply wp_begin_scope; [eassumption | intros s P W El Ec].
  assert (Elk : lks (s_cur s) = lks (s_cur ss)) by (unfold lks; rewrite El; reflexivity).
  destruct (ctl3 _ _ _ _ Ec) as (Es & Elo & Eb).
  assert (Elx : lexit (s_cur s) = lexit (s_cur ss)) by (apply lexit_same; auto).
  assert (SI1 : SInv3 true (s_cur s) (g0 ++ gacc)).
  { constructor.
    - eapply SInv_begin; eauto.
    - rewrite (wk_tryd _ _ W). auto.
    - rewrite Eb, Elo. auto.
    - unfold LoopI in *. rewrite Elo, Es, Elx, (wk_arity _ _ W), (nloc_eq _ _ Elk).
      destruct (k_loops (s_cur ss)) as [|[[st dL] td] r]; auto.
      destruct LI as (L1 & L2 & L3 & L4). repeat split; auto. lia. }
  apply wp_bind. eapply wp_stmt_use3;
    [ exact IH | eapply post_eqH; [exact P | symmetry; apply nloc_eq; exact Elk] | exact SI1
    | intros s0 g news newb P1 W0 Ec0 Hnb El0 Hn Hb HB _ SI0 _ ].
  destruct (ctl3 _ _ _ _ Ec0) as (Es0 & Elo0 & Eb0).
  apply Hrest.
  eapply wp_end_scope with (d := k_scope (s_cur ss)) (news := news) (old := lks (s_cur ss));
    [ exact P1 | rewrite El0, Elk; reflexivity
    | rewrite Es0, Es; reflexivity
    | rewrite Es in Hn; exact Hn
    | apply (si_init _ SI)
    | rewrite (wk_arity _ _ W0), (wk_arity _ _ W), <- nloc_lks; apply (si_ar _ SI)
    | pose proof (si_len _ (s3_base _ _ _ SI0)); unfold nloc; lia
    | intros s3 (gp & P3 & N3) W3 El3 Ec3 ].
  apply (HQ s3 (g ++ gp) newb).
  - rewrite app_assoc. rewrite nloc_lks. exact P3.
  - eapply wk_trans; [exact W|]. eapply wk_trans; [exact W0|exact W3].
  - exact El3.
  - rewrite Ec3, Elo0, Eb0, Elo, Eb. reflexivity.
  - rewrite Eb in Hnb. exact Hnb.
  - rewrite hpos_app, (hpos_noholes _ gp N3), app_nil_r. exact Hb.
  - apply Forall_app. split; [rewrite <- Elx; exact HB | apply noholes_bh; exact N3].
Qed.

(* ---------- break and continue ---------- *)
Lemma lexit_le c : (lexit c <= nloc c)%N.
Proof. unfold lexit. destruct (k_loops c) as [|[[st dL] td] r]; rewrite nloc_lks; lia. Qed.

Lemma stmt_break l : striple3 true (cstmt (LSBreak l)).
Proof.
  intros ss gg HI [SI Td Ln LI]. pose proof (post_refl _ _ _ HI) as P0.
  pose proof (si_len _ SI) as Hlen. pose proof stack_300 as HSM.
  assert (Hn256 : (nloc (s_cur ss) <= 256)%N) by (unfold nloc; lia).
  simpl. apply wp_bind. apply wp_cur.
  destruct (k_loops (s_cur ss)) as [|[[st dL] td] lps] eqn:Elo; [apply wp_err|].
  destruct (k_breaks (s_cur ss)) as [|b0 bks] eqn:Ebr; [simpl in Ln; discriminate|].
  unfold LoopI in LI. rewrite Elo in LI. destruct LI as (L1 & L2 & L3 & L4).
  apply wp_bind. unfold emit_exc_handler_pops. apply wp_bind. apply wp_cur. rewrite Td. simpl. apply wp_ret.
  apply wp_bind. unfold emit_scope_end. apply wp_bind. apply wp_cur.
  destruct (scope_end_npop dL (k_locals (s_cur ss))) as [Hl Hpop]. fold (lks (s_cur ss)) in Hl.
  assert (Hlx : lexit (s_cur ss) = (nloc (s_cur ss) - N.of_nat (length (scope_end_ops dL (k_locals (s_cur ss)))))%N).
  { unfold lexit. rewrite Elo, Hl, nloc_lks. pose proof (npop_le dL (lks (s_cur ss))). lia. }
  assert (Hnp : (N.of_nat (length (scope_end_ops dL (k_locals (s_cur ss)))) <= nloc (s_cur ss))%N).
  { rewrite Hl, nloc_lks. pose proof (npop_le dL (lks (s_cur ss))). lia. }
  apply wp_bind. eapply wp_pops; [exact Hpop | exact P0 | lia | lia
                                | intros s1 (gp & P1 & N1) G1 F1 ].
  apply wp_ret. rewrite <- Hlx in P1.
  apply wp_bind. eapply wp_emit_jump with (H' := nloc (s_cur ss));
    [ left; reflexivity | exact P1 | apply iok_hole_jump; pose proof (lexit_le (s_cur ss)); lia
    | intros pos s2 Hpos P2 G2 F2 ].
  assert (Eb2 : k_breaks (s_cur s2) = b0 :: bks) by (rewrite (fr_breaks _ _ F2), (fr_breaks _ _ F1); exact Ebr).
  unfold push_break. eapply wp_upd; [rewrite Eb2; constructor; reflexivity | exact P2 |]. intros s3 E3 P3.
  rewrite Eb2 in E3.
  assert (El3 : lks (s_cur s3) = lks (s_cur ss)).
  { unfold lks. rewrite E3. cbn [k_locals with_loops]. fold (lks (s_cur s2)).
    rewrite (lks_frame _ _ F2), (lks_frame _ _ F1). reflexivity. }
  eapply sres3_close with (news := []) (newb := [pos]).
  - rewrite (nloc_eq _ _ El3). exact P3.
  - eapply wk_trans; [apply wk_of_frame; eauto|]. eapply wk_trans; [apply wk_of_frame; eauto|].
    apply wk_of_tweak. rewrite E3. constructor; reflexivity.
  - unfold ctl. rewrite E3. cbn [k_scope k_loops k_breaks with_loops].
    rewrite (fr_scope _ _ F2), (fr_scope _ _ F1), (fr_loops _ _ F2), (fr_loops _ _ F1), Elo, Ebr. reflexivity.
  - rewrite Ebr. discriminate.
  - exact El3.
  - constructor.
  - rewrite (len_lks _ _ El3). exact Hlen.
  - rewrite hpos_app, hpos_app, (hpos_noholes _ gp N1). simpl. rewrite Hpos.
    rewrite !flen_app, flen_nil. f_equal; try lia.
  - apply Forall_app. split; [apply Forall_app; split; [constructor | apply noholes_bh; exact N1]|].
    constructor; [intros _; reflexivity | constructor].
  - auto.
Qed.

Lemma stmt_continue l : striple3 true (cstmt (LSContinue l)).
Proof.
  intros ss gg HI [SI Td Ln LI]. pose proof (post_refl _ _ _ HI) as P0.
  pose proof (si_len _ SI) as Hlen. pose proof stack_300 as HSM.
  assert (Hn256 : (nloc (s_cur ss) <= 256)%N) by (unfold nloc; lia).
  simpl. apply wp_bind. apply wp_cur.
  destruct (k_loops (s_cur ss)) as [|[[st dL] td] lps] eqn:Elo; [apply wp_err|].
  unfold LoopI in LI. rewrite Elo in LI. destruct LI as (L1 & L2 & L3 & L4).
  apply wp_bind. unfold emit_exc_handler_pops. apply wp_bind. apply wp_cur. rewrite Td. simpl. apply wp_ret.
  apply wp_bind. unfold emit_scope_end. apply wp_bind. apply wp_cur.
  destruct (scope_end_npop dL (k_locals (s_cur ss))) as [Hl Hpop]. fold (lks (s_cur ss)) in Hl.
  assert (Hlx : lexit (s_cur ss) = (nloc (s_cur ss) - N.of_nat (length (scope_end_ops dL (k_locals (s_cur ss)))))%N).
  { unfold lexit. rewrite Elo, Hl, nloc_lks. pose proof (npop_le dL (lks (s_cur ss))). lia. }
  assert (Hnp : (N.of_nat (length (scope_end_ops dL (k_locals (s_cur ss)))) <= nloc (s_cur ss))%N).
  { rewrite Hl, nloc_lks. pose proof (npop_le dL (lks (s_cur ss))). lia. }
  apply wp_bind. eapply wp_pops; [exact Hpop | exact P0 | lia | lia
                                | intros s1 (gp & P1 & N1) G1 F1 ].
  apply wp_ret. rewrite <- Hlx in P1.
  eapply wp_emit_loop with (H' := nloc (s_cur ss));
    [ exact P1 | rewrite !flen_app; lia | apply (po_ext _ _ _ _ _ _ P1); exact L4
    | pose proof (lexit_le (s_cur ss)); lia | intros s2 (gi & P2 & Hgi) G2 F2 ].
  apply sres3_of_ext; [|exact Hlen].
  exists (gp ++ [gi]). split; [rewrite app_assoc; exact P2 | auto with ht].
Qed.

(* ---------- closers for statements without pending breaks ---------- *)
Lemma sres3_close_nb b cb c g c' g' news :
  post cb g (nloc c) c' g' (nloc c') -> noholes g' -> wk c c' -> ctl c' = ctl c ->
  lks c' = news ++ lks c -> Forall (fun k : key => snd k = Some (k_scope c)) news ->
  length (k_locals c') <= 256 -> (b = true -> news = []) -> sres3 b c g c'.
Proof.
  intros P NH W Ec El Hn Hl Hnd. eapply sres3_close with (news := news) (newb := []); eauto.
  - rewrite pushb_nil. exact Ec.
  - rewrite hpos_noholes; auto.
  - apply noholes_bh; auto.
Qed.

Lemma SInv3_post b c0 g0 c g' :
  SInv3 b c0 g0 -> post c0 g0 (nloc c0) c g' (nloc c0) -> SInv3 b c (g0 ++ g').
Proof.
  intros [SI Td Ln LI] P. pose proof (po_fr _ _ _ _ _ _ P) as F. pose proof (po_gr _ _ _ _ _ _ P) as G.
  pose proof (lks_frame _ _ F) as El. pose proof (nloc_eq _ _ El) as En.
  assert (Elx : lexit c = lexit c0) by (apply lexit_same; [apply (fr_loops _ _ F) | exact El]).
  constructor.
  - eapply SInv_frame; eauto.
  - rewrite (fr_tryd _ _ F). auto.
  - rewrite (fr_breaks _ _ F), (fr_loops _ _ F). auto.
  - unfold LoopI in *. rewrite (fr_loops _ _ F), (fr_scope _ _ F), (fr_arity _ _ F), Elx, En.
    destruct (k_loops c0) as [|[[st dL] td] r]; auto. destruct LI as (L1 & L2 & L3 & L4).
    repeat split; auto; try (rewrite flen_app; lia). apply (po_ext _ _ _ _ _ _ P). exact L4.
Qed.

Fixpoint fragS4 (st : lstmt) : bool :=
  match st with
  | LSExpr e _ => okE e
  | LSThrow e _ => okE e
  | LSVar _ _ _ => true
  | LSVarInit _ e _ => okE e
  | LSBlock b _ => fragSs4 b
  | LSIf c _ t _ => okE c && fragSs4 t
  | LSWhile c _ b _ => okE c && fragSs4 b
  | LSBreak _ => true
  | LSContinue _ => true
  | _ => false
  end
with fragSs4 (l : lstmts) : bool :=
  match l with LSNil => true | LSCons s r => fragS4 s && fragSs4 r end.

Ltac sstart3 :=
  repeat lazymatch goal with |- forall _, _ => intro end; simpl in * |-; andbs;
  repeat match goal with H : okE _ = true |- _ => apply okE_spec in H; destruct H end;
  try discriminate;
  intros ss gg HI SI3;
  pose proof (s3_base _ _ _ SI3) as SI;
  pose proof (post_refl _ _ _ HI) as P0;
  pose proof (lb_full (s_cur ss)) as Hlb;
  pose proof (si_ar _ SI) as Har;
  pose proof (si_len _ SI) as Hlen;
  assert (Hn256 : (nloc (s_cur ss) <= 256)%N) by (unfold nloc; lia);
  pose proof stack_300 as HSM; poss; simpl.

Ltac hnorm :=
  repeat first [ rewrite hpos_app | progress cbn [hpos g_hole app] ];
  repeat match goal with N : noholes ?g |- _ => rewrite (hpos_noholes _ g N) end;
  cbn [app]; rewrite ?app_nil_r.
Ltac flnorm := repeat first [rewrite flen_app | rewrite flen_cons | rewrite flen_nil]; unfold glen; simpl; try lia.
Ltac bhs :=
  repeat first [ assumption | apply noholes_bh; solve [auto 20 with ht]
               | apply Forall_nil
               | apply Forall_app; split
               | apply Forall_cons; [ let X := fresh in intro X; discriminate X | ] ].

Ltac hnorm ::=
  repeat first [ rewrite hpos_app | progress cbn [hpos g_hole app] ];
  repeat match goal with N : noholes ?g |- _ => rewrite (hpos_noholes _ g N) end;
  repeat match goal with H : g_hole ?x = false |- _ => rewrite H end;
  cbn [app]; rewrite ?app_nil_r.

Theorem stmt_heights4 :
  (forall e : lexpr, True) /\ (forall es : lexprs, True) /\ (forall ps : lparts, True) /\ (forall kvs : lkvs, True) /\
  (forall st, fragS4 st = true -> striple3 (nodecl st) (cstmt st)) /\
  (forall l, fragSs4 l = true -> striple3 false (cstmts l)) /\
  (forall ms : lmethods, True).
Proof.
  apply lsyntax_mutind; try (intros; exact I).
  - (* LSExpr *) sstart3. useX. op0. apply sres3_of_ext; [fin | exact Hlen].
  - (* LSVar *) sstart3. sline. bnd. unfold parse_variable. bnd.
    destruct (k_scope (s_cur s)) as [|d] eqn:Esc.
    + unfold declare_variable. bnd. apply wp_cur. rewrite Esc. simpl. apply wp_ret.
      bnd. apply wp_cur. rewrite Esc. simpl. ident. op0.
      unfold define_variable. bnd. apply wp_cur.
      rewrite (fr_scope _ _ F0), (fr_scope _ _ F), Esc. simpl. op16.
      apply sres3_of_ext; [fin | exact Hlen].
    + eapply wp_declare_local_k; [eassumption | lia | exact Hlen | intros ?s ?P ?W ?El ?Hlbx ?Hl ?Ec].
      bnd. apply wp_cur. rewrite (ctl_scope _ _ Ec). cbn [ctl fst]. rewrite Esc. simpl. apply wp_ret.
      op0. unfold define_variable. bnd. apply wp_cur.
      rewrite (fr_scope _ _ F), (ctl_scope _ _ Ec). cbn [ctl fst]. rewrite Esc. simpl.
      eapply wp_mark_initialised_k; [eassumption | | rewrite (lks_frame _ _ F); exact El | intros ?s ?P ?W ?El ?Hl ?Ec].
      { rewrite (fr_scope _ _ F), (ctl_scope _ _ Ec). cbn [ctl fst]. rewrite Esc. discriminate. }
      eapply sres3_close_nb with (news := [(x, Some (k_scope (s_cur s1)))]);
        [ eapply post_eqH; [exact P2 | rewrite (nloc_cons _ _ _ El0); lia] | auto with ht | wkt
        | rewrite Ec0, (ctl_frame _ _ F), Ec; reflexivity | exact El0
        | constructor; [simpl; rewrite (fr_scope _ _ F), (ctl_scope _ _ Ec); reflexivity | constructor]
        | rewrite Hl0, (len_lks _ _ (lks_frame _ _ F)); exact Hl | first [intros HH; discriminate HH | intros _; reflexivity] ].
  - (* LSVarInit *) sstart3. bnd. unfold parse_variable. bnd.
    destruct (k_scope (s_cur ss)) as [|d] eqn:Esc.
    + unfold declare_variable. bnd. apply wp_cur. rewrite Esc. simpl. apply wp_ret.
      bnd. apply wp_cur. rewrite Esc. simpl. ident. useX.
      unfold define_variable. bnd. apply wp_cur.
      rewrite (fr_scope _ _ F0), (fr_scope _ _ F), Esc. simpl. op16.
      apply sres3_of_ext; [fin | exact Hlen].
    + eapply wp_declare_local_k; [eassumption | lia | exact Hlen | intros ?s ?P ?W ?El ?Hlbx ?Hl ?Ec].
      bnd. apply wp_cur. rewrite (ctl_scope _ _ Ec). cbn [ctl fst]. rewrite Esc. simpl. apply wp_ret.
      pose proof (Hlbx _ Hlb) as Hlb1.
      assert (Har1 : (k_arity (s_cur s) <= nloc (s_cur ss))%N) by (rewrite (wk_arity _ _ W); exact Har).
      useX. unfold define_variable. bnd. apply wp_cur.
      rewrite (fr_scope _ _ F), (ctl_scope _ _ Ec). cbn [ctl fst]. rewrite Esc. simpl.
      eapply wp_mark_initialised_k; [eassumption | | rewrite (lks_frame _ _ F); exact El | intros ?s ?P ?W ?El ?Hl ?Ec].
      { rewrite (fr_scope _ _ F), (ctl_scope _ _ Ec). cbn [ctl fst]. rewrite Esc. discriminate. }
      eapply sres3_close_nb with (news := [(x, Some (k_scope (s_cur s0)))]);
        [ eapply post_eqH; [exact P2 | rewrite (nloc_cons _ _ _ El0); lia] | auto with ht | wkt
        | rewrite Ec0, (ctl_frame _ _ F), Ec; reflexivity | exact El0
        | constructor; [simpl; rewrite (fr_scope _ _ F), (ctl_scope _ _ Ec); reflexivity | constructor]
        | rewrite Hl0, (len_lks _ _ (lks_frame _ _ F)); exact Hl | first [intros HH; discriminate HH | intros _; reflexivity] ].
  - sstart3.
  - sstart3.
  - (* LSBlock *) sstart3.
    eapply wp_scoped3;
      [ match goal with IH : _ -> striple3 _ (cstmts _) |- _ => apply IH; assumption end | exact P0
      | apply SInv3_weak; rewrite app_nil_r; exact SI3
      | intros ?s X; exact X | intros s3 gb newb P3 W3 El3 Ec3 Hnb Hb HB ].
    rewrite app_nil_r in Hb.
    eapply sres3_close with (news := []) (newb := newb);
      [ eapply post_eqH; [exact P3 | symmetry; apply nloc_eq; exact El3] | exact W3 | exact Ec3 | exact Hnb
      | exact El3 | constructor | rewrite (len_lks _ _ El3); exact Hlen | exact Hb | exact HB | auto ].
  - (* LSIf *) sstart3. useX. jif. op0.
    pose proof (po_fr _ _ _ _ _ _ P2) as F01. pose proof (po_gr _ _ _ _ _ _ P2) as G01.
    pose proof (nloc_eq _ _ (lks_frame _ _ F01)) as En.
    apply (post_eqH _ _ _ _ _ _ (nloc (s_cur ss))) in P2; [|lia].
    pose proof (SInv3_post _ _ _ _ _ SI3 P2) as SI3k.
    eapply wp_scoped3;
      [ match goal with IH : _ -> striple3 _ (cstmts _) |- _ => apply IH; assumption end
      | eapply post_eqH; [exact P2 | lia] | apply SInv3_weak; exact SI3k
      | intros ?s X; apply wp_bind; exact X | intros s3 gb newb P3 W3 El3 Ec3 Hnb Hb HB ].
    cbv beta.
    assert (Har3 : (k_arity (s_cur s3) <= nloc (s_cur ss))%N)
      by (rewrite (wk_arity _ _ W3), (fr_arity _ _ F01); exact Har).
    jmp (nloc (s_cur ss) + 1)%N. patch. op0. patch.
    match goal with Pe : post (s_cur s3) _ _ (s_cur ?se) _ _ |- sres3 _ _ _ (s_cur ?se) =>
      pose proof (po_fr _ _ _ _ _ _ Pe) as F3e; pose proof (po_gr _ _ _ _ _ _ Pe) as G3e;
      assert (Else : lks (s_cur se) = lks (s_cur ss))
        by (rewrite (lks_frame _ _ F3e), El3, (lks_frame _ _ F01); reflexivity);
      rewrite (lexit_same _ _ (fr_loops _ _ F01) (lks_frame _ _ F01)) in HB;
      eapply sres3_close with (news := []) (newb := newb);
      [ eapply post_eqH; [exact Pe | rewrite (nloc_eq _ _ Else); lia]
      | eapply wk_trans; [apply wk_of_frame; eauto|]; eapply wk_trans; [exact W3 | apply wk_of_frame; auto]
      | rewrite (ctl_frame _ _ F3e), Ec3, (fr_scope _ _ F01), (fr_loops _ _ F01), (fr_breaks _ _ F01); reflexivity
      | rewrite <- (fr_breaks _ _ F01); exact Hnb
      | exact Else | constructor | rewrite (len_lks _ _ Else); exact Hlen
      | rewrite Hb; f_equal; hnorm; f_equal; flnorm
      | bhs | auto ]
    end.
  - sstart3.
  - (* LSWhile *) sstart3.
    bnd. eapply wp_push_loop; [exact P0 | intros s1 P1 W1 El1 Ec1].
    bnd. apply wp_code_len. rewrite (ci_code _ _ _ (po_inv _ _ _ _ _ _ P1)). fold (flen (gg ++ [])).
    assert (Elk1 : lks (s_cur s1) = lks (s_cur ss)) by (unfold lks; rewrite El1; reflexivity).
    assert (Hlb1 : lb (s_cur s1) (nloc (s_cur ss))) by (intros y i; rewrite El1; apply Hlb).
    assert (Har1 : (k_arity (s_cur s1) <= nloc (s_cur ss))%N) by (rewrite (wk_arity _ _ W1); exact Har).
    useX. jif. op0.
    pose proof (po_fr _ _ _ _ _ _ P3) as F12. pose proof (po_gr _ _ _ _ _ _ P3) as G12.
    assert (Els2 : lks (s_cur s2) = lks (s_cur ss)) by (rewrite (lks_frame _ _ F12); exact Elk1).
    pose proof (nloc_eq _ _ Els2) as En2.
    assert (W2 : wk (s_cur ss) (s_cur s2)) by (eapply wk_trans; [exact W1 | apply wk_of_frame; auto]).
    apply (post_eqH _ _ _ _ _ _ (nloc (s_cur s2))) in P3; [|lia].
    assert (Ec2 : ctl (s_cur s2) = ctl (s_cur s1)) by (apply ctl_frame; exact F12).
    destruct (ctl3 _ _ _ _ Ec1) as (Es1 & Elo1 & Eb1).
    destruct (ctl3 _ _ _ _ (eq_trans Ec2 Ec1)) as (Es2 & Elo2 & Eb2).
    assert (Elx2 : lexit (s_cur s2) = nloc (s_cur ss)).
    { unfold lexit. rewrite Elo2, Els2, (npop_init _ _ (si_init _ SI)), nloc_lks. f_equal. lia. }
    assert (SI3k : SInv3 false (s_cur s2) (gg ++ (([] ++ g) ++ [mkG OpJumpIfFalse 65535 0 [] (nloc (s_cur ss) + 1)%N true])
                                              ++ [mkG OpPop 0 0 [] (nloc (s_cur ss) + 1)%N false])).
    { constructor.
      - eapply SInv_same; [exact SI | exact Els2 | exact Es2 | exact W2].
      - rewrite (wk_tryd _ _ W2). apply (s3_tryd _ _ _ SI3).
      - rewrite Elo2, Eb2. simpl. f_equal. apply (s3_len _ _ _ SI3).
      - unfold LoopI. rewrite Elo2, Es2, Elx2, (wk_arity _ _ W2).
        split; [lia|]. split; [exact Har|].
        rewrite (ci_code _ _ _ HI). fold (flen gg). split; [rewrite flen_app; lia|].
        apply (po_ext _ _ _ _ _ _ P3). apply hat_end. }
    eapply wp_scoped3;
      [ match goal with IH : _ -> striple3 _ (cstmts _) |- _ => apply IH; assumption end
      | exact P3 | exact SI3k
      | intros ?s X; apply wp_bind; exact X | intros s3 gb newb P4 W3 El3 Ec3 Hnb Hb HB ].
    cbv beta.
    assert (Har3 : (k_arity (s_cur s3) <= nloc (s_cur ss))%N)
      by (rewrite (wk_arity _ _ W3), (wk_arity _ _ W2); exact Har).
    apply (post_eqH _ _ _ _ _ _ (nloc (s_cur ss))) in P4; [|exact En2].
    bnd. eapply wp_emit_loop with (H' := (nloc (s_cur ss) + 1)%N);
      [ exact P4 | rewrite !flen_app; lia
      | apply (po_ext _ _ _ _ _ _ P4); rewrite app_nil_r; apply hat_end | lia
      | intros ?s (?gi & ?P & ?Hgi) ?G ?F ].
    patch. op0.
    pose proof (po_fr _ _ _ _ _ _ P7) as F36. pose proof (po_gr _ _ _ _ _ _ P7) as G36.
    destruct (ctl3 _ _ _ _ Ec3) as (Es3 & Elo3 & Eb3).
    apply (post_eqH _ _ _ _ _ _ (nloc (s_cur ss))) in P7; [|lia].
    rewrite Elx2 in HB.
    assert (Els6 : lks (s_cur s6) = lks (s_cur ss)) by (rewrite (lks_frame _ _ F36), El3; exact Els2).
    match type of P7 with post _ _ _ _ ?GW _ =>
      eapply wp_pop_loop with (ga := []) (gW := GW) (lps := k_loops (s_cur ss)) (b := newb ++ [])
                              (bks := k_breaks (s_cur ss));
      [ exact P7
      | rewrite (fr_loops _ _ F36), Elo3, Elo2; reflexivity
      | rewrite (fr_breaks _ _ F36), Eb3, Eb2; reflexivity
      | rewrite app_nil_r, Hb; f_equal; hnorm; f_equal; flnorm
      | bhs
      | intros s7 gW' P8 N8 W8 El8 Ec8 ]
    end.
    assert (Els7 : lks (s_cur s7) = lks (s_cur ss)) by (rewrite El8; exact Els6).
    eapply sres3_close_nb with (news := []);
      [ eapply post_eqH; [exact P8 | symmetry; apply nloc_eq; exact Els7] | exact N8
      | eapply wk_trans; [exact W2|]; eapply wk_trans; [exact W3|];
        eapply wk_trans; [apply wk_of_frame; eauto | exact W8]
      | rewrite Ec8, (fr_scope _ _ F36), Es3, Es2; reflexivity
      | exact Els7 | constructor | rewrite (len_lks _ _ Els7); exact Hlen | auto ].
  - sstart3.
  - sstart3.
  - sstart3.
  - (* LSBreak *) intros l _. exact (stmt_break l).
  - (* LSContinue *) intros l _. exact (stmt_continue l).
  - (* LSThrow *) sstart3. useX.
    eapply wp_emit with (gi := mkG OpThrow 0 0 [] (nloc (s_cur ss) + 1)%N false) (H' := nloc (s_cur ss));
      [ apply emits_op | eassumption | reflexivity | split; [simpl; lia | simpl; split; [reflexivity | lia]]
      | intros ? ?s ?P ?G ?F ?O ?Cl ].
    apply sres3_of_ext; [fin | exact Hlen].
  - sstart3.
  - sstart3.
  - sstart3.
  - sstart3.
  - (* LSNil *) sstart3. apply wp_ret. apply sres3_of_ext; [fin | exact Hlen].
  - (* LSCons *) sstart3.
    bnd. eapply wp_stmt_use3;
      [ match goal with IH : _ -> striple3 _ (cstmt _) |- _ => apply IH; assumption end | exact P0
      | rewrite app_nil_r; exact SI3
      | intros s1 g1 news1 nb1 P1 W1 Ec1 Hnb1 El1 Hn1 Hb1 HB1 _ SI1 Elx1 ].
    destruct (ctl3 _ _ _ _ Ec1) as (Es1 & Elo1 & Eb1).
    eapply wp_stmt_use3;
      [ match goal with IH : _ -> striple3 _ (cstmts _) |- _ => apply IH; assumption end | exact P1
      | exact SI1
      | intros s2 g2 news2 nb2 P2 W2 Ec2 Hnb2 El2 Hn2 Hb2 HB2 _ SI2 Elx2 ].
    eapply sres3_close with (news := news2 ++ news1) (newb := nb2 ++ nb1);
      [ exact P2 | eapply wk_trans; eauto
      | rewrite Ec2, Es1, Elo1, Eb1, pushb_pushb; reflexivity
      | intros Hnil; rewrite (Hnb1 Hnil) in *; rewrite Hnil in Eb1; simpl in Eb1; rewrite (Hnb2 Eb1); reflexivity
      | rewrite El2, El1, app_assoc; reflexivity
      | apply Forall_app; split; [rewrite Es1 in Hn2; exact Hn2 | exact Hn1]
      | apply (si_len _ (s3_base _ _ _ SI2))
      | rewrite hpos_app, rev_app_distr, Hb2, Hb1, app_nil_r; f_equal; f_equal; f_equal; flnorm
      | apply Forall_app; split; [exact HB1 | rewrite <- Elx1; exact HB2]
      | intros X; discriminate X ].
Qed.
Print Assumptions stmt_heights4.

Lemma script_ghost_gen' p f :
  (forall u s1, cstmts (fst p) init_state = COk (u, s1) -> sres (s_cur init_state) [] (s_cur s1)) -> compile_program p = COk f ->
  exists G, G <> [] /\ f_code f = flat G /\ noholes G /\
            (forall H', gok (f_consts f) (f_upvalues f) (f_arity f) G H') /\
            hdh G 0%N = 1%N /\ f_arity f = 1%N.
Proof.
  intros Hf Hc. unfold compile_program in Hc.
  destruct ((cstmts (fst p);;; finalise_compiler (snd p)) init_state) as [[[f' us] s']|] eqn:E; [|discriminate].
  inversion Hc; subst f'; clear Hc. unfold cbind in E.
  destruct (cstmts (fst p) init_state) as [[[] s1]|] eqn:E1; [|discriminate].
  pose proof (Hf tt s1 eq_refl) as R.
  pose proof (SInv_sres _ _ _ SInv_init R) as SI1.
  destruct R as (G & news & A1 & A2 & A3 & A4 & A5 & A6 & A7 & A8). simpl app in A1, A2.
  unfold finalise_compiler, cbind in E.
  destruct (emit_return (snd p) s1) as [[[] s2]|] eqn:E2; [|discriminate].
  assert (Hk : k_kind (s_cur s1) = KScript) by (rewrite (wk_kind _ _ A4); reflexivity).
  assert (Hm : (nloc (s_cur s1) + 1 <= STACK_MAX)%N).
  { pose proof (si_len _ SI1). pose proof stack_300. unfold nloc. lia. }
  pose proof (emit_return_gen _ _ _ _ _ _ E2 A1 Hk (si_try _ SI1) Hm) as X.
  set (R2 := [mkG OpNil 0 0 [] (nloc (s_cur s1)) false; mkG OpReturn 0 0 [] (nloc (s_cur s1) + 1)%N false]) in *.
  assert (Ef : f = func_of_comp (s_cur s2)) by (destruct (s_outer s2); inversion E; reflexivity).
  assert (Har : k_arity (s_cur s2) = 1%N).
  { unfold emit_return, cbind, cur in E2. rewrite Hk, (si_try _ SI1) in E2. simpl in E2.
    unfold emit_op, emit_byte, cbind, upd, set_line in E2. inversion E2; subst. simpl.
    rewrite (wk_arity _ _ A4). reflexivity. }
  exists (G ++ R2). subst f. simpl.
  split. { intros Z. apply app_eq_nil in Z. destruct Z as [_ Z]. discriminate. }
  split; [apply (X 0%N)|]. split. { apply noholes_app; auto. repeat constructor. }
  split; [intros H'; apply (X H')|]. split; auto.
  pose proof (A2 0 1%N eq_refl) as Y.
  assert (Z : Lext (hat G (nloc (s_cur s1))) (hat (G ++ R2) 0%N)) by (apply Lext_app; reflexivity).
  apply Z in Y. rewrite hat_0 in Y. inversion Y; auto.
Qed.

Lemma SInv3_init : SInv3 true (s_cur init_state) [].
Proof. constructor; try reflexivity; try exact I. apply SInv_init. Qed.

Lemma sres3_init_sres b c' : sres3 b (s_cur init_state) [] c' -> sres (s_cur init_state) [] c'.
Proof.
  intros (g' & news & newb & (A1 & A2 & A3 & A4 & A5 & A6 & A7 & A8 & A9 & A10) & _).
  pose proof (A5 eq_refl) as Hnb. rewrite Hnb in A9, A4. rewrite pushb_nil in A4.
  exists g', news. unfold sresx. split; auto. split; auto.
  split. { eapply bh_nil_noholes; eauto. apply (f_equal (@rev nat)) in A9. rewrite rev_involutive in A9. symmetry. exact A9. }
  split; [exact A3|]. split; [exact A4|]. split; [exact A6|]. split; [exact A7 | exact A8].
Qed.

Lemma stmts_heights4 l : fragSs4 l = true -> striple3 false (cstmts l).
Proof. exact (proj1 (proj2 (proj2 (proj2 (proj2 (proj2 stmt_heights4))))) l). Qed.

