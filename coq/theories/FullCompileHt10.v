(* FullCompileHt10: functions (no captured variables).  Works over the FullCompileFnA..FnH copies of Ht..Ht8, in which
   (1) `iok` has a Closure case (so the SCRIPT's annotation may contain Closure instructions) and (2) `cgrow` records that
   expression / statement code never adds a function constant.  Here: `return e;`, the frame on the enclosing compiler,
   a function declaration at script level, the theorem for EVERY function of the tree. *)
From Coq Require Import Strings.Byte Strings.String.
From Coq Require Import List NArith ZArith Bool Arith Lia.
From Coq Require Import Floats.SpecFloat.
From YV Require Import Show Utf8 Num Ast Bytecode Skeleton VerifierProofs ParseLoc FullCompile FullCompileProofs.
From YV Require Import FullCompileFnA FullCompileFnB FullCompileFnC FullCompileFnD FullCompileFnE FullCompileFnF
                       FullCompileFnG FullCompileFnH.
Import ListNotations.
Local Open Scope nat_scope.
Local Open Scope list_scope.
Local Open Scope comp_scope.

Fixpoint fragS6 (st : lstmt) : bool :=
  match st with
  | LSExpr e _ => okE e
  | LSThrow e _ => okE e
  | LSVar _ _ _ => true
  | LSVarInit _ e _ => okE e
  | LSBlock b _ => fragSs6 b
  | LSIf c _ t _ => okE c && fragSs6 t
  | LSIfElse c _ t _ e => okE c && fragSs6 t && fragS6 e && nodecl e
  | LSWhile c _ b _ => okE c && fragSs6 b
  | LSFor _ _ it _ b _ => okE it && fragSs6 b
  | LSReturnE e _ => okE e
  | LSBreak _ => true
  | LSContinue _ => true
  | _ => false
  end
with fragSs6 (l : lstmts) : bool :=
  match l with LSNil => true | LSCons s r => fragS6 s && fragSs6 r end.

Theorem stmt_heights6 :
  (forall e : lexpr, True) /\ (forall es : lexprs, True) /\ (forall ps : lparts, True) /\ (forall kvs : lkvs, True) /\
  (forall st, fragS6 st = true -> striple3 (nodecl st) (cstmt st)) /\
  (forall l, fragSs6 l = true -> striple3 false (cstmts l)) /\
  (forall ms : lmethods, True).
Proof.
  apply lsyntax_mutind; try (intros; exact I).
  - (* LSExpr *) sstart3. useX. op0. apply sres3_of_ext; [fin | exact Hlen].
  - (* LSVar *) sstart3. sline. bnd. unfold parse_variable. bnd.
    destruct (k_scope (s_cur s)) as [|d] eqn:Esc.
    + unfold declare_variable. bnd. apply wp_cur. rewrite Esc. simpl. apply wp_ret.
      bnd. apply wp_cur. rewrite Esc. simpl. ident. op0.
      unfold define_variable. bnd. apply wp_cur.
      rewrite (fr_scope _ _ F0), (fr_scope _ _ F), Esc. simpl. op16.
      apply sres3_of_ext; [fin | exact Hlen].
    + eapply wp_declare_local_k; [eassumption | lia | exact Hlen | intros ?s ?P ?W ?El ?Hlbx ?Hl ?Ec].
      bnd. apply wp_cur. rewrite (ctl_scope _ _ Ec). cbn [ctl fst]. rewrite Esc. simpl. apply wp_ret.
      op0. unfold define_variable. bnd. apply wp_cur.
      rewrite (fr_scope _ _ F), (ctl_scope _ _ Ec). cbn [ctl fst]. rewrite Esc. simpl.
      eapply wp_mark_initialised_k; [eassumption | | rewrite (lks_frame _ _ F); exact El | intros ?s ?P ?W ?El ?Hl ?Ec].
      { rewrite (fr_scope _ _ F), (ctl_scope _ _ Ec). cbn [ctl fst]. rewrite Esc. discriminate. }
      eapply sres3_close_nb with (news := [(x, Some (k_scope (s_cur s1)))]);
        [ eapply post_eqH; [exact P2 | rewrite (nloc_cons _ _ _ El0); lia] | auto with ht | wkt
        | rewrite Ec0, (ctl_frame _ _ F), Ec; reflexivity | exact El0
        | constructor; [simpl; rewrite (fr_scope _ _ F), (ctl_scope _ _ Ec); reflexivity | constructor]
        | rewrite Hl0, (len_lks _ _ (lks_frame _ _ F)); exact Hl | first [intros HH; discriminate HH | intros _; reflexivity] ].
  - (* LSVarInit *) sstart3. bnd. unfold parse_variable. bnd.
    destruct (k_scope (s_cur ss)) as [|d] eqn:Esc.
    + unfold declare_variable. bnd. apply wp_cur. rewrite Esc. simpl. apply wp_ret.
      bnd. apply wp_cur. rewrite Esc. simpl. ident. useX.
      unfold define_variable. bnd. apply wp_cur.
      rewrite (fr_scope _ _ F0), (fr_scope _ _ F), Esc. simpl. op16.
      apply sres3_of_ext; [fin | exact Hlen].
    + eapply wp_declare_local_k; [eassumption | lia | exact Hlen | intros ?s ?P ?W ?El ?Hlbx ?Hl ?Ec].
      bnd. apply wp_cur. rewrite (ctl_scope _ _ Ec). cbn [ctl fst]. rewrite Esc. simpl. apply wp_ret.
      pose proof (Hlbx _ Hlb) as Hlb1.
      assert (Har1 : (k_arity (s_cur s) <= nloc (s_cur ss))%N) by (rewrite (wk_arity _ _ W); exact Har).
      useX. unfold define_variable. bnd. apply wp_cur.
      rewrite (fr_scope _ _ F), (ctl_scope _ _ Ec). cbn [ctl fst]. rewrite Esc. simpl.
      eapply wp_mark_initialised_k; [eassumption | | rewrite (lks_frame _ _ F); exact El | intros ?s ?P ?W ?El ?Hl ?Ec].
      { rewrite (fr_scope _ _ F), (ctl_scope _ _ Ec). cbn [ctl fst]. rewrite Esc. discriminate. }
      eapply sres3_close_nb with (news := [(x, Some (k_scope (s_cur s0)))]);
        [ eapply post_eqH; [exact P2 | rewrite (nloc_cons _ _ _ El0); lia] | auto with ht | wkt
        | rewrite Ec0, (ctl_frame _ _ F), Ec; reflexivity | exact El0
        | constructor; [simpl; rewrite (fr_scope _ _ F), (ctl_scope _ _ Ec); reflexivity | constructor]
        | rewrite Hl0, (len_lks _ _ (lks_frame _ _ F)); exact Hl | first [intros HH; discriminate HH | intros _; reflexivity] ].
  - sstart3.
  - sstart3.
  - (* LSBlock *) sstart3.
    eapply wp_scoped3;
      [ match goal with IH : _ -> striple3 _ (cstmts _) |- _ => apply IH; assumption end | exact P0
      | apply SInv3_weak; rewrite app_nil_r; exact SI3
      | intros ?s X; exact X | intros s3 gb newb P3 W3 El3 Ec3 Hnb Hb HB ].
    rewrite app_nil_r in Hb.
    eapply sres3_close with (news := []) (newb := newb);
      [ eapply post_eqH; [exact P3 | symmetry; apply nloc_eq; exact El3] | exact W3 | exact Ec3 | exact Hnb
      | exact El3 | constructor | rewrite (len_lks _ _ El3); exact Hlen | exact Hb | exact HB | auto ].
  - (* LSIf *) sstart3. useX. jif. op0.
    pose proof (po_fr _ _ _ _ _ _ P2) as F01. pose proof (po_gr _ _ _ _ _ _ P2) as G01.
    pose proof (nloc_eq _ _ (lks_frame _ _ F01)) as En.
    apply (post_eqH _ _ _ _ _ _ (nloc (s_cur ss))) in P2; [|lia].
    pose proof (SInv3_post _ _ _ _ _ SI3 P2) as SI3k.
    eapply wp_scoped3;
      [ match goal with IH : _ -> striple3 _ (cstmts _) |- _ => apply IH; assumption end
      | eapply post_eqH; [exact P2 | lia] | apply SInv3_weak; exact SI3k
      | intros ?s X; apply wp_bind; exact X | intros s3 gb newb P3 W3 El3 Ec3 Hnb Hb HB ].
    cbv beta.
    assert (Har3 : (k_arity (s_cur s3) <= nloc (s_cur ss))%N)
      by (rewrite (wk_arity _ _ W3), (fr_arity _ _ F01); exact Har).
    jmp (nloc (s_cur ss) + 1)%N. patch. op0. patch.
    match goal with Pe : post (s_cur s3) _ _ (s_cur ?se) _ _ |- sres3 _ _ _ (s_cur ?se) =>
      pose proof (po_fr _ _ _ _ _ _ Pe) as F3e; pose proof (po_gr _ _ _ _ _ _ Pe) as G3e;
      assert (Else : lks (s_cur se) = lks (s_cur ss))
        by (rewrite (lks_frame _ _ F3e), El3, (lks_frame _ _ F01); reflexivity);
      rewrite (lexit_same _ _ (fr_loops _ _ F01) (lks_frame _ _ F01)) in HB;
      eapply sres3_close with (news := []) (newb := newb);
      [ eapply post_eqH; [exact Pe | rewrite (nloc_eq _ _ Else); lia]
      | eapply wk_trans; [apply wk_of_frame; eauto|]; eapply wk_trans; [exact W3 | apply wk_of_frame; auto]
      | rewrite (ctl_frame _ _ F3e), Ec3, (fr_scope _ _ F01), (fr_loops _ _ F01), (fr_breaks _ _ F01); reflexivity
      | rewrite <- (fr_breaks _ _ F01); exact Hnb
      | exact Else | constructor | rewrite (len_lks _ _ Else); exact Hlen
      | rewrite Hb; f_equal; hnorm; f_equal; flnorm
      | bhs | auto ]
    end.
  - (* LSIfElse *) sstart3. useX. jif. op0.
    pose proof (po_fr _ _ _ _ _ _ P2) as F01. pose proof (po_gr _ _ _ _ _ _ P2) as G01.
    pose proof (nloc_eq _ _ (lks_frame _ _ F01)) as En.
    apply (post_eqH _ _ _ _ _ _ (nloc (s_cur ss))) in P2; [|lia].
    pose proof (SInv3_post _ _ _ _ _ SI3 P2) as SI3k.
    eapply wp_scoped3;
      [ match goal with IH : _ -> striple3 _ (cstmts _) |- _ => apply IH; assumption end
      | eapply post_eqH; [exact P2 | lia] | apply SInv3_weak; exact SI3k
      | intros ?s X; apply wp_bind; exact X | intros s3 gb newb P3 W3 El3 Ec3 Hnb Hb HB ].
    cbv beta.
    assert (Har3 : (k_arity (s_cur s3) <= nloc (s_cur ss))%N)
      by (rewrite (wk_arity _ _ W3), (fr_arity _ _ F01); exact Har).
    jmp (nloc (s_cur ss) + 1)%N. patch. op0.
    pose proof (po_fr _ _ _ _ _ _ P6) as F35. pose proof (po_gr _ _ _ _ _ _ P6) as G35.
    assert (Els5 : lks (s_cur s5) = lks (s_cur ss))
      by (rewrite (lks_frame _ _ F35), El3, (lks_frame _ _ F01); reflexivity).
    assert (Ecs5 : ctl (s_cur s5) = (k_scope (s_cur ss), k_loops (s_cur ss), pushb newb (k_breaks (s_cur ss))))
      by (rewrite (ctl_frame _ _ F35), Ec3, (fr_scope _ _ F01), (fr_loops _ _ F01), (fr_breaks _ _ F01); reflexivity).
    assert (W5 : wk (s_cur ss) (s_cur s5)).
    { eapply wk_trans; [apply wk_of_frame; eauto|]. eapply wk_trans; [exact W3|]. apply wk_of_frame; auto. }
    pose proof (nloc_eq _ _ Els5) as En5.
    apply (post_eqH _ _ _ _ _ _ (nloc (s_cur s5))) in P6; [|lia].
    pose proof (SInv3_rebased _ _ _ _ _ _ _ SI3 P6 Els5 Ecs5 W5) as SI5.
    destruct (ctl3 _ _ _ _ Ecs5) as (Es5 & Elo5 & Eb5).
    bnd. eapply wp_stmt_use3 with (b := nodecl e);
      [ match goal with IH : _ -> striple3 _ (cstmt _) |- _ => apply IH; assumption end
      | exact P6 | exact SI5
      | intros s6 g2 news2 nb2 P7 W6 Ec6 Hnb6 El6 Hn6 Hb6 HB6 Hnd6 SI6 Elx6 ].
    match goal with Hnd : nodecl _ = true |- _ => rewrite (Hnd6 Hnd) in El6 end. simpl in El6.
    assert (Els6 : lks (s_cur s6) = lks (s_cur ss)) by (rewrite El6; exact Els5).
    pose proof (nloc_eq _ _ Els6) as En6.
    patch.
    match goal with Pe : post (s_cur s6) _ _ (s_cur ?se) _ _ |- sres3 _ _ _ (s_cur ?se) =>
      pose proof (po_fr _ _ _ _ _ _ Pe) as F6e; pose proof (po_gr _ _ _ _ _ _ Pe) as G6e;
      assert (Else : lks (s_cur se) = lks (s_cur ss)) by (rewrite (lks_frame _ _ F6e); exact Els6);
      rewrite (lexit_same _ _ (fr_loops _ _ F01) (lks_frame _ _ F01)) in HB;
      rewrite (lexit_same _ _ Elo5 Els5) in HB6;
      eapply sres3_close with (news := []) (newb := nb2 ++ newb);
      [ eapply post_eqH; [exact Pe | rewrite (nloc_eq _ _ Else); lia]
      | eapply wk_trans; [exact W5|]; eapply wk_trans; [exact W6 | apply wk_of_frame; auto]
      | rewrite (ctl_frame _ _ F6e), Ec6, Es5, Elo5, Eb5, pushb_pushb; reflexivity
      | intros Hnil; rewrite (fr_breaks _ _ F01) in Hnb; rewrite (Hnb Hnil) in *;
        rewrite Hnil in Eb5; simpl in Eb5; rewrite (Hnb6 Eb5); reflexivity
      | exact Else | constructor | rewrite (len_lks _ _ Else); exact Hlen
      | rewrite Hb6, Hb, <- rev_app_distr; f_equal; hnorm; f_equal; f_equal; flnorm
      | bhs | auto ]
    end.
  - (* LSWhile *) sstart3.
    bnd. eapply wp_push_loop; [exact P0 | intros s1 P1 W1 El1 Ec1].
    bnd. apply wp_code_len. rewrite (ci_code _ _ _ (po_inv _ _ _ _ _ _ P1)). fold (flen (gg ++ [])).
    assert (Elk1 : lks (s_cur s1) = lks (s_cur ss)) by (unfold lks; rewrite El1; reflexivity).
    assert (Hlb1 : lb (s_cur s1) (nloc (s_cur ss))) by (intros y i; rewrite El1; apply Hlb).
    assert (Har1 : (k_arity (s_cur s1) <= nloc (s_cur ss))%N) by (rewrite (wk_arity _ _ W1); exact Har).
    useX. jif. op0.
    pose proof (po_fr _ _ _ _ _ _ P3) as F12. pose proof (po_gr _ _ _ _ _ _ P3) as G12.
    assert (Els2 : lks (s_cur s2) = lks (s_cur ss)) by (rewrite (lks_frame _ _ F12); exact Elk1).
    pose proof (nloc_eq _ _ Els2) as En2.
    assert (W2 : wk (s_cur ss) (s_cur s2)) by (eapply wk_trans; [exact W1 | apply wk_of_frame; auto]).
    apply (post_eqH _ _ _ _ _ _ (nloc (s_cur s2))) in P3; [|lia].
    assert (Ec2 : ctl (s_cur s2) = ctl (s_cur s1)) by (apply ctl_frame; exact F12).
    destruct (ctl3 _ _ _ _ Ec1) as (Es1 & Elo1 & Eb1).
    destruct (ctl3 _ _ _ _ (eq_trans Ec2 Ec1)) as (Es2 & Elo2 & Eb2).
    assert (Elx2 : lexit (s_cur s2) = nloc (s_cur ss)).
    { unfold lexit. rewrite Elo2, Els2, (npop_init _ _ (si_init _ SI)), nloc_lks. f_equal. lia. }
    assert (SI3k : SInv3 false (s_cur s2) (gg ++ (([] ++ g) ++ [mkG OpJumpIfFalse 65535 0 [] (nloc (s_cur ss) + 1)%N true])
                                              ++ [mkG OpPop 0 0 [] (nloc (s_cur ss) + 1)%N false])).
    { constructor.
      - eapply SInv_same; [exact SI | exact Els2 | exact Es2 | exact W2].
      - rewrite (wk_tryd _ _ W2). apply (s3_tryd _ _ _ SI3).
      - rewrite Elo2, Eb2. simpl. f_equal. apply (s3_len _ _ _ SI3).
      - unfold LoopI. rewrite Elo2, Es2, Elx2, (wk_arity _ _ W2).
        split; [lia|]. split; [exact Har|].
        rewrite (ci_code _ _ _ HI). fold (flen gg). split; [rewrite flen_app; lia|].
        apply (po_ext _ _ _ _ _ _ P3). apply hat_end. }
    eapply wp_scoped3;
      [ match goal with IH : _ -> striple3 _ (cstmts _) |- _ => apply IH; assumption end
      | exact P3 | exact SI3k
      | intros ?s X; apply wp_bind; exact X | intros s3 gb newb P4 W3 El3 Ec3 Hnb Hb HB ].
    cbv beta.
    assert (Har3 : (k_arity (s_cur s3) <= nloc (s_cur ss))%N)
      by (rewrite (wk_arity _ _ W3), (wk_arity _ _ W2); exact Har).
    apply (post_eqH _ _ _ _ _ _ (nloc (s_cur ss))) in P4; [|exact En2].
    bnd. eapply wp_emit_loop with (H' := (nloc (s_cur ss) + 1)%N);
      [ exact P4 | rewrite !flen_app; lia
      | apply (po_ext _ _ _ _ _ _ P4); rewrite app_nil_r; apply hat_end | lia
      | intros ?s (?gi & ?P & ?Hgi) ?G ?F ].
    patch. op0.
    pose proof (po_fr _ _ _ _ _ _ P7) as F36. pose proof (po_gr _ _ _ _ _ _ P7) as G36.
    destruct (ctl3 _ _ _ _ Ec3) as (Es3 & Elo3 & Eb3).
    apply (post_eqH _ _ _ _ _ _ (nloc (s_cur ss))) in P7; [|lia].
    rewrite Elx2 in HB.
    assert (Els6 : lks (s_cur s6) = lks (s_cur ss)) by (rewrite (lks_frame _ _ F36), El3; exact Els2).
    match type of P7 with post _ _ _ _ ?GW _ =>
      eapply wp_pop_loop with (ga := []) (gW := GW) (lps := k_loops (s_cur ss)) (b := newb ++ [])
                              (bks := k_breaks (s_cur ss));
      [ exact P7
      | rewrite (fr_loops _ _ F36), Elo3, Elo2; reflexivity
      | rewrite (fr_breaks _ _ F36), Eb3, Eb2; reflexivity
      | rewrite app_nil_r, Hb; f_equal; hnorm; f_equal; flnorm
      | bhs
      | intros s7 gW' P8 N8 W8 El8 Ec8 ]
    end.
    assert (Els7 : lks (s_cur s7) = lks (s_cur ss)) by (rewrite El8; exact Els6).
    eapply sres3_close_nb with (news := []);
      [ eapply post_eqH; [exact P8 | symmetry; apply nloc_eq; exact Els7] | exact N8
      | eapply wk_trans; [exact W2|]; eapply wk_trans; [exact W3|];
        eapply wk_trans; [apply wk_of_frame; eauto | exact W8]
      | rewrite Ec8, (fr_scope _ _ F36), Es3, Es2; reflexivity
      | exact Els7 | constructor | rewrite (len_lks _ _ Els7); exact Hlen | auto ].
  - (* LSFor *) sstart3.
    bnd. eapply wp_begin_scope; [exact P0 | intros s1 P1 W1 El1 Ec1].
    assert (Elk1 : lks (s_cur s1) = lks (s_cur ss)) by (unfold lks; rewrite El1; reflexivity).
    bnd. eapply wp_declare_local_k;
      [ exact P1 | rewrite (ctl_scope _ _ Ec1); discriminate | rewrite El1; exact Hlen
      | intros s2 P2 W2 El2 Hlbx Hl2 Ec2 ].
    bnd. apply wp_cur.
    set (lv := length (k_locals (s_cur s2)) - 1) in *.
    assert (Hlv : lv = length (lks (s_cur ss))).
    { unfold lv. rewrite <- (map_length lkey). fold (lks (s_cur s2)). rewrite El2, Elk1. simpl. apply Nat.sub_0_r. }
    assert (Hlv' : N.of_nat lv = nloc (s_cur ss)) by (rewrite Hlv, nloc_lks; reflexivity).
    assert (Hlb2 : lb (s_cur s2) (nloc (s_cur ss))).
    { apply Hlbx. intros y i. rewrite El1. apply Hlb. }
    assert (Har2 : (k_arity (s_cur s2) <= nloc (s_cur ss))%N)
      by (rewrite (wk_arity _ _ W2), (wk_arity _ _ W1); exact Har).
    op0. useX.
    pose proof (po_fr _ _ _ _ _ _ P3) as F24. pose proof (po_gr _ _ _ _ _ _ P3) as G24.
    bnd. eapply wp_mark_slot_k with (x := x) (r := lks (s_cur ss));
      [ exact P3 | rewrite (lks_frame _ _ F24), El2, Elk1; reflexivity | exact Hlv
      | intros s5 P5 W5 El5 Hl5 Ec5 ].
    bnd. eapply wp_add_local_k;
      [ exact P5 | rewrite Hl5, (len_lks _ _ (lks_frame _ _ F24)); exact Hl2
      | apply wp_bind; apply wp_err | intros s6 P6 W6 El6 Hl6 Ec6 ].
    bnd. apply wp_ret.
    assert (Ec0' : ctl (s_cur s0) = (S (k_scope (s_cur ss)), k_loops (s_cur ss), k_breaks (s_cur ss)))
      by (rewrite (ctl_frame _ _ F24), Ec2; exact Ec1).
    assert (Ec6' : ctl (s_cur s6) = (S (k_scope (s_cur ss)), k_loops (s_cur ss), k_breaks (s_cur ss)))
      by (rewrite Ec6, Ec5; exact Ec0').
    rewrite (ctl_scope _ _ Ec0') in El5. cbn [fst] in El5.
    assert (W06 : wk (s_cur ss) (s_cur s6)).
    { eapply wk_trans; [exact W1|]. eapply wk_trans; [exact W2|]. eapply wk_trans; [apply wk_of_frame; eauto|].
      eapply wk_trans; [exact W5 | exact W6]. }
    assert (Har6 : (k_arity (s_cur s6) <= nloc (s_cur ss))%N) by (rewrite (wk_arity _ _ W06); exact Har).
    sline. ident. apply wp_assoc. bnd. op16_8.
    pose proof (po_fr _ _ _ _ _ _ P7) as F37. pose proof (po_gr _ _ _ _ _ _ P7) as G37.
    bnd. eapply wp_mark_initialised_k with (x := bs "... temp-iter-var ...")
                                          (r := (x, Some (S (k_scope (s_cur ss)))) :: lks (s_cur ss));
      [ exact P7 | rewrite (fr_scope _ _ F37), (ctl_scope _ _ Ec6'); discriminate
      | rewrite (lks_frame _ _ F37), El6, El5; reflexivity | intros s8 P8 W8 El8 Hl8 Ec8 ].
    rewrite (fr_scope _ _ F37), (ctl_scope _ _ Ec6') in El8. cbn [fst] in El8.
    assert (En8 : nloc (s_cur s8) = (nloc (s_cur ss) + 2)%N).
    { rewrite !nloc_lks, El8. cbn [length]. lia. }
    assert (Ec8' : ctl (s_cur s8) = (S (k_scope (s_cur ss)), k_loops (s_cur ss), k_breaks (s_cur ss)))
      by (rewrite Ec8, (ctl_frame _ _ F37); exact Ec6').
    assert (W08 : wk (s_cur ss) (s_cur s8)).
    { eapply wk_trans; [exact W06|]. eapply wk_trans; [apply wk_of_frame; eauto | exact W8]. }
    assert (Hl8' : length (k_locals (s_cur s8)) <= 256).
    { rewrite Hl8, (len_lks _ _ (lks_frame _ _ F37)). exact Hl6. }
    bnd. eapply wp_push_loop; [exact P8 | intros s9 P9 W9 El9 Ec9].
    bnd. apply wp_code_len. rewrite (ci_code _ _ _ (po_inv _ _ _ _ _ _ P9)).
    match type of P9 with post _ _ _ _ ?ga _ => set (GA := ga) in * end.
    assert (NHGA : noholes GA) by (unfold GA; auto 20 with ht).
    fold (flen (gg ++ GA)).
    assert (Har9 : (k_arity (s_cur s9) <= nloc (s_cur ss))%N)
      by (rewrite (wk_arity _ _ W9), (wk_arity _ _ W08); exact Har).
    assert (Hmod : (N.of_nat lv mod 256 <= nloc (s_cur ss))%N).
    { rewrite <- Hlv'. apply N.mod_le. lia. }
    op0. op8. jif. op0.
    pose proof (po_fr _ _ _ _ _ _ P13) as F913. pose proof (po_gr _ _ _ _ _ _ P13) as G913.
    assert (Els13 : lks (s_cur s13) = (bs "... temp-iter-var ...", Some (S (k_scope (s_cur ss))))
                                       :: (x, Some (S (k_scope (s_cur ss)))) :: lks (s_cur ss)).
    { rewrite (lks_frame _ _ F913). unfold lks. rewrite El9. exact El8. }
    assert (En13 : nloc (s_cur s13) = (nloc (s_cur ss) + 2)%N).
    { rewrite !nloc_lks, Els13. cbn [length]. lia. }
    assert (Esc13 : k_scope (s_cur s13) = S (k_scope (s_cur ss))).
    { rewrite (fr_scope _ _ F913), (ctl_scope _ _ Ec9). cbn [fst]. rewrite (ctl_scope _ _ Ec8'). reflexivity. }
    assert (W013 : wk (s_cur ss) (s_cur s13)).
    { eapply wk_trans; [exact W08|]. eapply wk_trans; [exact W9 | apply wk_of_frame; auto]. }
    assert (Hl13 : length (k_locals (s_cur s13)) <= 256).
    { rewrite (len_lks _ _ (lks_frame _ _ F913)), El9. exact Hl8'. }
    assert (SI13 : SInv (s_cur s13)).
    { constructor.
      - rewrite Els13, Esc13. constructor; [eexists; split; [reflexivity | lia]|].
        constructor; [eexists; split; [reflexivity | lia]|].
        eapply Forall_impl; [|apply (si_init _ SI)]. intros k Hk. eapply kinit_mono; eauto.
      - exact Hl13.
      - rewrite (wk_try _ _ W013). apply (si_try _ SI).
      - rewrite (wk_arity _ _ W013), En13. lia. }
    destruct (ctl3 _ _ _ _ Ec9) as (Es9 & Elo9 & Eb9).
    destruct (ctl3 _ _ _ _ Ec8') as (Es8 & Elo8 & Eb8).
    assert (Ec13 : ctl (s_cur s13) = ctl (s_cur s9)) by (apply ctl_frame; exact F913).
    destruct (ctl3 _ _ _ _ (eq_trans Ec13 Ec9)) as (Es13 & Elo13 & Eb13).
    assert (Elx13 : lexit (s_cur s13) = (nloc (s_cur ss) + 2)%N).
    { unfold lexit. rewrite Elo13, Els13, Es8. cbn [npop]. rewrite Nat.leb_refl, Nat.sub_0_r.
      cbn [length]. rewrite nloc_lks. lia. }
    apply (post_eqH _ _ _ _ _ _ (nloc (s_cur s13))) in P13; [|lia].
    match type of P13 with post _ _ _ _ ?ga _ => assert (SI3k : SInv3 false (s_cur s13) (gg ++ ga)) end.
    { constructor.
      - exact SI13.
      - rewrite (wk_tryd _ _ W013). apply (s3_tryd _ _ _ SI3).
      - rewrite Elo13, Eb13, Elo8, Eb8. simpl. f_equal. apply (s3_len _ _ _ SI3).
      - unfold LoopI. rewrite Elo13, Elx13, Esc13, (wk_arity _ _ W013), Es8.
        split; [lia|]. split; [lia|].
        rewrite (ci_code _ _ _ (po_inv _ _ _ _ _ _ P8)). fold (flen (gg ++ GA)).
        split; [rewrite <- ?app_assoc; rewrite !flen_app; lia|].
        rewrite <- ?app_assoc; rewrite (app_assoc gg GA); rewrite hat_app_ge by lia;
        rewrite Nat.sub_diag, hat_0; cbn [app hdh g_h]; f_equal; lia. }
    eapply wp_scoped3;
      [ match goal with IH : _ -> striple3 _ (cstmts _) |- _ => apply IH; assumption end
      | exact P13 | exact SI3k
      | intros ?s X; apply wp_bind; exact X | intros s14 gb newb P14 W14 El14 Ec14 Hnb Hb HB ].
    cbv beta.
    apply (post_eqH _ _ _ _ _ _ (nloc (s_cur ss) + 2)%N) in P14; [|exact En13].
    assert (Har14 : (k_arity (s_cur s14) <= nloc (s_cur ss))%N)
      by (rewrite (wk_arity _ _ W14), (wk_arity _ _ W013); exact Har).
    bnd. eapply wp_emit_loop with (H' := (nloc (s_cur ss) + 3)%N);
      [ exact P14 | rewrite <- ?app_assoc; rewrite !flen_app; lia
      | rewrite <- ?app_assoc; rewrite (app_assoc gg GA); rewrite hat_app_ge by lia;
        rewrite Nat.sub_diag, hat_0; cbn [app hdh g_h]; f_equal; lia
      | lia | intros ?s (?gi & ?P & ?Hgi) ?G ?F ].
    patch. op0.
    pose proof (po_fr _ _ _ _ _ _ P17) as F1417. pose proof (po_gr _ _ _ _ _ _ P17) as G1417.
    destruct (ctl3 _ _ _ _ Ec14) as (Es14 & Elo14 & Eb14).
    apply (post_eqH _ _ _ _ _ _ (nloc (s_cur ss) + 2)%N) in P17; [|lia].
    rewrite Elx13 in HB.
    assert (Els17 : lks (s_cur s17) = lks (s_cur s13)) by (rewrite (lks_frame _ _ F1417); exact El14).
    bnd.
    match type of P17 with post _ _ _ _ ?GW _ =>
      eapply wp_pop_loop with (ga := []) (gW := GW) (lps := k_loops (s_cur ss)) (b := newb ++ [])
                              (bks := k_breaks (s_cur ss));
      [ exact P17
      | rewrite (fr_loops _ _ F1417), Elo14, Elo13, Elo8; reflexivity
      | rewrite (fr_breaks _ _ F1417), Eb14, Eb13, Eb8; reflexivity
      | rewrite app_nil_r, Hb; f_equal; hnorm; f_equal; flnorm
      | bhs
      | intros s18 gW' P18 N18 W18 El18 Ec18 ]
    end.
    assert (Els18 : lks (s_cur s18) = [(bs "... temp-iter-var ...", Some (S (k_scope (s_cur ss))));
                                       (x, Some (S (k_scope (s_cur ss))))] ++ lks (s_cur ss)).
    { rewrite El18, Els17. exact Els13. }
    assert (En18 : nloc (s_cur s18) = (nloc (s_cur ss) + 2)%N).
    { rewrite !nloc_lks, Els18. cbn [length app]. lia. }
    assert (W018 : wk (s_cur ss) (s_cur s18)).
    { eapply wk_trans; [exact W013|]. eapply wk_trans; [exact W14|].
      eapply wk_trans; [apply wk_of_frame; eauto | exact W18]. }
    assert (Ec18' : ctl (s_cur s18) = (S (k_scope (s_cur ss)), k_loops (s_cur ss), k_breaks (s_cur ss))).
    { rewrite Ec18, (fr_scope _ _ F1417), Es14, Esc13. reflexivity. }
    eapply wp_end_scope with (d := k_scope (s_cur ss)) (old := lks (s_cur ss))
        (news := [(bs "... temp-iter-var ...", Some (S (k_scope (s_cur ss)))); (x, Some (S (k_scope (s_cur ss))))]);
      [ eapply post_eqH; [exact P18 | lia] | exact Els18 | rewrite (ctl_scope _ _ Ec18'); reflexivity
      | repeat constructor | apply (si_init _ SI)
      | rewrite (wk_arity _ _ W018), <- nloc_lks; exact Har
      | lia | intros s19 (gp & P19 & N19) W19 El19 Ec19 ].
    eapply sres3_close_nb with (news := []);
      [ eapply post_eqH; [exact P19 | rewrite (nloc_eq _ _ El19), nloc_lks; reflexivity] | auto 40 with ht
      | eapply wk_trans; [exact W018 | exact W19]
      | rewrite Ec19, (ctl_loops _ _ Ec18'), (ctl_breaks _ _ Ec18'); reflexivity
      | exact El19 | constructor | rewrite (len_lks _ _ El19); exact Hlen | auto ].
  - sstart3.
  - (* LSReturnE *) sstart3.
    bnd. apply wp_cur. bnd. destruct (fk_eqb (k_kind (s_cur ss)) KScript); [apply wp_err|]. apply wp_ret.
    bnd. destruct (fk_eqb (k_kind (s_cur ss)) KInitialiser); [apply wp_err|]. apply wp_ret.
    useX. bnd. apply wp_cur. rewrite (fr_try _ _ F), (si_try _ SI). simpl. bnd. apply wp_ret.
    eapply wp_emit with (gi := mkG OpReturn 0 0 [] (nloc (s_cur ss) + 1)%N false) (H' := nloc (s_cur ss));
      [ apply emits_op | eassumption | reflexivity | split; [simpl; lia | simpl; split; [reflexivity | lia]]
      | intros ? ?s ?P ?G ?F ?O ?Cl ].
    apply sres3_of_ext; [fin | exact Hlen].
  - (* LSBreak *) intros l _. exact (stmt_break l).
  - (* LSContinue *) intros l _. exact (stmt_continue l).
  - (* LSThrow *) sstart3. useX.
    eapply wp_emit with (gi := mkG OpThrow 0 0 [] (nloc (s_cur ss) + 1)%N false) (H' := nloc (s_cur ss));
      [ apply emits_op | eassumption | reflexivity | split; [simpl; lia | simpl; split; [reflexivity | lia]]
      | intros ? ?s ?P ?G ?F ?O ?Cl ].
    apply sres3_of_ext; [fin | exact Hlen].
  - sstart3.
  - sstart3.
  - sstart3.
  - sstart3.
  - (* LSNil *) sstart3. apply wp_ret. apply sres3_of_ext; [fin | exact Hlen].
  - (* LSCons *) sstart3.
    bnd. eapply wp_stmt_use3;
      [ match goal with IH : _ -> striple3 _ (cstmt _) |- _ => apply IH; assumption end | exact P0
      | rewrite app_nil_r; exact SI3
      | intros s1 g1 news1 nb1 P1 W1 Ec1 Hnb1 El1 Hn1 Hb1 HB1 _ SI1 Elx1 ].
    destruct (ctl3 _ _ _ _ Ec1) as (Es1 & Elo1 & Eb1).
    eapply wp_stmt_use3;
      [ match goal with IH : _ -> striple3 _ (cstmts _) |- _ => apply IH; assumption end | exact P1
      | exact SI1
      | intros s2 g2 news2 nb2 P2 W2 Ec2 Hnb2 El2 Hn2 Hb2 HB2 _ SI2 Elx2 ].
    eapply sres3_close with (news := news2 ++ news1) (newb := nb2 ++ nb1);
      [ exact P2 | eapply wk_trans; eauto
      | rewrite Ec2, Es1, Elo1, Eb1, pushb_pushb; reflexivity
      | intros Hnil; rewrite (Hnb1 Hnil) in *; rewrite Hnil in Eb1; simpl in Eb1; rewrite (Hnb2 Eb1); reflexivity
      | rewrite El2, El1, app_assoc; reflexivity
      | apply Forall_app; split; [rewrite Es1 in Hn2; exact Hn2 | exact Hn1]
      | apply (si_len _ (s3_base _ _ _ SI2))
      | rewrite hpos_app, rev_app_distr, Hb2, Hb1, app_nil_r; f_equal; f_equal; f_equal; flnorm
      | apply Forall_app; split; [exact HB1 | rewrite <- Elx1; exact HB2]
      | intros X; discriminate X ].
Qed.
Print Assumptions stmt_heights6.

(* ================================================================== *)
(* the enclosing compiler (one level: the script) is untouched except for `is_captured` flags *)
Definition op {A} (m : C A) : Prop := forall s a s', m s = COk (a, s') -> s_outer s' = s_outer s.

Lemma op_ret {A} (a : A) : op (cret a). Proof. intros s x s' H. inversion H; auto. Qed.
Lemma op_err {A} l msg : op (@cerr A l msg). Proof. intros s x s' H. discriminate. Qed.
Lemma op_err_here {A} msg : op (@cerr_here A msg). Proof. intros s x s' H. discriminate. Qed.
Lemma op_bind {A B} (m : C A) (k : A -> C B) : op m -> (forall a, op (k a)) -> op (cbind m k).
Proof.
  intros Hm Hk s b s' H. unfold cbind in H. destruct (m s) as [[a s1]|] eqn:E; [|discriminate].
  rewrite (Hk _ _ _ _ H). eapply Hm; eauto.
Qed.
Lemma op_upd f : op (upd f). Proof. intros s a s' H. inversion H; auto. Qed.
Lemma op_cur : op cur. Proof. intros s a s' H. inversion H; auto. Qed.
Lemma op_cget : op cget. Proof. intros s a s' H. inversion H; auto. Qed.
Lemma op_code_len : op code_len. Proof. intros s a s' H. inversion H; auto. Qed.
Lemma op_in_class : op in_class. Proof. intros s a s' H. inversion H; auto. Qed.
Lemma op_set_line l : op (set_line l). Proof. intros s a s' H. inversion H; auto. Qed.
Lemma op_cwhen b m : op m -> op (cwhen b m). Proof. intros. destruct b; simpl; auto. apply op_ret. Qed.

Create HintDb opdb.
#[export] Hint Resolve op_ret op_err op_err_here op_upd op_cur op_cget op_code_len op_in_class op_set_line op_cwhen : opdb.
Ltac opt :=
  repeat first
    [ apply op_bind; [|intros ?]
    | match goal with
      | |- op (if ?b then _ else _) => destruct b
      | |- op (match ?x with _ => _ end) => destruct x
      end
    | solve [eauto with opdb] ].

Lemma op_emit_byte b l : op (emit_byte b l). Proof. unfold emit_byte. opt. Qed.
#[export] Hint Resolve op_emit_byte : opdb.
Lemma op_emit_op o l : op (emit_op o l). Proof. unfold emit_op. opt. Qed.
#[export] Hint Resolve op_emit_op : opdb.
Lemma op_emit_op8 o n l : op (emit_op8 o n l). Proof. unfold emit_op8. opt. Qed.
Lemma op_emit_u16 n l : op (emit_u16 n l). Proof. unfold emit_u16. opt. Qed.
#[export] Hint Resolve op_emit_op8 op_emit_u16 : opdb.
Lemma op_emit_op16 o n l : op (emit_op16 o n l). Proof. unfold emit_op16. opt. Qed.
#[export] Hint Resolve op_emit_op16 : opdb.
Lemma op_emit_variable_op o a l : op (emit_variable_op o a l). Proof. unfold emit_variable_op. opt. Qed.
Lemma op_emit_jump o l : op (emit_jump o l). Proof. unfold emit_jump. opt. Qed.
Lemma op_patch16 p v : op (patch16 p v). Proof. unfold patch16. opt. Qed.
#[export] Hint Resolve op_emit_variable_op op_emit_jump op_patch16 : opdb.
Lemma op_patch_jump p : op (patch_jump p). Proof. unfold patch_jump. opt. Qed.
Lemma op_emit_loop p l : op (emit_loop p l). Proof. unfold emit_loop. opt. Qed.
Lemma op_make_constant c : op (make_constant c). Proof. unfold make_constant. opt. Qed.
#[export] Hint Resolve op_patch_jump op_emit_loop op_make_constant : opdb.
Lemma op_identifier_constant x : op (identifier_constant x). Proof. unfold identifier_constant. opt. Qed.
Lemma op_emit_constant c l : op (emit_constant c l). Proof. unfold emit_constant. opt. Qed.
Lemma op_begin_scope : op begin_scope. Proof. unfold begin_scope. opt. Qed.
Lemma op_emit_ops ops l : op (emit_ops ops l). Proof. induction ops; simpl; opt. Qed.
#[export] Hint Resolve op_identifier_constant op_emit_constant op_begin_scope op_emit_ops : opdb.
Lemma op_emit_scope_end b d l : op (emit_scope_end b d l). Proof. unfold emit_scope_end. opt. Qed.
#[export] Hint Resolve op_emit_scope_end : opdb.
Lemma op_end_scope l : op (end_scope l). Proof. unfold end_scope. opt. Qed.
Lemma op_add_local x : op (add_local x). Proof. unfold add_local. opt. Qed.
Lemma op_mark_last : op mark_last_initialised. Proof. unfold mark_last_initialised. opt. Qed.
#[export] Hint Resolve op_end_scope op_add_local op_mark_last : opdb.
Lemma op_mark_initialised : op mark_initialised. Proof. unfold mark_initialised. opt. Qed.
Lemma op_mark_slot n : op (mark_initialised_slot n). Proof. unfold mark_initialised_slot. opt. Qed.
Lemma op_declare_variable x l : op (declare_variable x l). Proof. unfold declare_variable. opt. Qed.
#[export] Hint Resolve op_mark_initialised op_mark_slot op_declare_variable : opdb.
Lemma op_parse_variable x l : op (parse_variable x l). Proof. unfold parse_variable. opt. Qed.
Lemma op_define_variable g l : op (define_variable g l). Proof. unfold define_variable. opt. Qed.
Lemma op_push_loop : op push_loop. Proof. unfold push_loop. opt. Qed.
Lemma op_push_break p : op (push_break p). Proof. unfold push_break. opt. Qed.
Lemma op_patch_jumps ps : op (patch_jumps ps).
Proof. induction ps; cbn [patch_jumps]. apply op_ret. apply op_bind. apply op_patch_jump. intros; exact IHps. Qed.
#[export] Hint Resolve op_parse_variable op_define_variable op_push_loop op_push_break op_patch_jumps : opdb.
Lemma op_pop_loop : op pop_loop. Proof. unfold pop_loop. opt. Qed.
Lemma op_exc_pops d l : op (emit_exc_handler_pops d l). Proof. unfold emit_exc_handler_pops. opt. Qed.
Lemma op_check_count n l msg : op (check_count n l msg). Proof. unfold check_count. opt. Qed.
Lemma op_emit_compound o l : op (emit_compound o l). Proof. unfold emit_compound. opt. Qed.
Lemma op_emit_return l : op (emit_return l). Proof. unfold emit_return. opt. Qed.
#[export] Hint Resolve op_pop_loop op_exc_pops op_check_count op_emit_compound op_emit_return : opdb.

(* with one enclosing compiler e: it stays, up to captured flags *)
Definition ceq (e e' : comp) : Prop := tweak e e' /\ ctl e' = ctl e /\ lks e' = lks e.
Lemma ceq_refl e : ceq e e. Proof. split; [constructor; reflexivity | auto]. Qed.
Lemma ceq_trans a b c : ceq a b -> ceq b c -> ceq a c.
Proof.
  intros ([] & A2 & A3) ([] & B2 & B3). split; [constructor; congruence | split; congruence].
Qed.

Definition fr2 {A} (m : C A) : Prop :=
  forall s a s' e, s_outer s = [e] -> m s = COk (a, s') -> exists e', s_outer s' = [e'] /\ ceq e e'.

Lemma fr2_of_op {A} (m : C A) : op m -> fr2 m.
Proof. intros H s a s' e Ho E. exists e. rewrite (H _ _ _ E). split; auto using ceq_refl. Qed.
Lemma fr2_bind {A B} (m : C A) (k : A -> C B) : fr2 m -> (forall a, fr2 (k a)) -> fr2 (cbind m k).
Proof.
  intros Hm Hk s b s' e Ho H. unfold cbind in H. destruct (m s) as [[a s1]|] eqn:E; [|discriminate].
  destruct (Hm _ _ _ _ Ho E) as (e1 & O1 & C1). destruct (Hk _ _ _ _ _ O1 H) as (e2 & O2 & C2).
  exists e2. split; auto. eapply ceq_trans; eauto.
Qed.

Lemma capture_at_keys n ls : map lkey (capture_at n ls) = map lkey ls.
Proof. revert n. induction ls as [|l r IH]; intros [|n]; simpl; auto. rewrite IH. reflexivity. Qed.

Lemma fr2_resolve_variable x l : fr2 (resolve_variable x l).
Proof.
  intros s r s' e Ho. unfold resolve_variable, cbind, cur. cbv beta.
  destruct (resolve_local_c (s_cur s) x).
  - intros H; inversion H; subst. exists e. split; auto using ceq_refl.
  - discriminate.
  - unfold cget. cbv beta. rewrite Ho. cbn [resolve_upvalue_in].
    destruct (resolve_local_c e x) eqn:El.
    + destruct (add_upvalue (s_cur s) (N.of_nat i) true) as [[u c1]|]; [|simpl; intros H; discriminate H].
      simpl. intros H; inversion H; subst; clear H. simpl. eexists. split; [reflexivity|].
      split; [constructor; reflexivity|]. split; [reflexivity|].
      unfold lks, capture_slot. simpl. apply capture_at_keys.
    + cbv beta. unfold set_line. cbn [s_cur s_outer s_classes].
      destruct (identifier_constant x _) as [[g s1]|] eqn:E3; [|discriminate].
      unfold cret; cbv beta. intros H; inversion H; subst; clear H. apply op_identifier_constant in E3. simpl in E3.
      exists e. rewrite E3, Ho. split; auto using ceq_refl.
    + cbv beta. unfold set_line. cbn [s_cur s_outer s_classes].
      destruct (identifier_constant x _) as [[g s1]|] eqn:E3; [|discriminate].
      unfold cret; cbv beta. intros H; inversion H; subst; clear H. apply op_identifier_constant in E3. simpl in E3.
      exists e. rewrite E3, Ho. split; auto using ceq_refl.
Qed.

Create HintDb frdb.
Lemma fr2_named_get x l : fr2 (named_get x l).
Proof.
  unfold named_get. apply fr2_bind. apply fr2_resolve_variable. intros [[g st] a]. apply fr2_of_op. auto with opdb.
Qed.
#[export] Hint Resolve fr2_resolve_variable fr2_named_get : frdb.
#[export] Hint Extern 3 (fr2 _) => apply fr2_of_op; solve [eauto with opdb] : frdb.
Ltac frt :=
  repeat first
    [ solve [eauto with frdb]
    | match goal with
      | |- fr2 (if ?b then _ else _) => destruct b
      | |- fr2 (match ?x with _ => _ end) => destruct x
      | |- fr2 (cbind _ _) => apply fr2_bind; [|intros ?]
      end ].

Theorem frame_outer :
  (forall e, fragE e = true -> fr2 (cexpr e)) /\
  (forall es, fragA es = true -> fr2 (cargs es)) /\
  (forall ps, fragP ps = true -> fr2 (cparts ps)) /\
  (forall kvs, fragK kvs = true -> fr2 (ckvs kvs)) /\
  (forall st, fragS6 st = true -> fr2 (cstmt st)) /\
  (forall l, fragSs6 l = true -> fr2 (cstmts l)) /\
  (forall ms : lmethods, True).
Proof.
  apply lsyntax_mutind; try (intros; exact I);
    repeat lazymatch goal with |- forall _, _ => intro end; simpl in * |-; andbs;
    repeat match goal with H : okE _ = true |- _ => apply okE_spec in H; destruct H end;
    try discriminate; simpl; frt.
Qed.
Print Assumptions frame_outer.

(* ================================================================== *)
(* pieces of the function-level step                                    *)
Definition fn_ok (h : func) : Prop :=
  exists G, G <> [] /\ f_code h = flat G /\ noholes G /\
            (forall H', gok (f_consts h) (f_upvalues h) (f_arity h) G H') /\ hdh G 0%N = f_arity h /\
            (forall i k, nth_error (f_consts h) i = Some (KFun k) -> False).

Lemma const_index_fun tbl f : const_index tbl (KFun f) = None.
Proof.
  induction tbl as [|d r IH]; simpl; auto. replace (const_eqb d (KFun f)) with false by (destruct d; reflexivity).
  rewrite IH. reflexivity.
Qed.

Lemma emits_upvalues us l : emits (emit_upvalues us l) (enc_uvs us).
Proof.
  induction us as [|[i il] us IH]; simpl.
  - intros s a s' H. inversion H as [[Ha Hs]]. subst s'. split; [|split]; auto. exists (k_lines (s_cur s)).
    rewrite app_nil_r. destruct (s_cur s); reflexivity.
  - apply (emits_bind _ _ [_] (_ :: _)). apply emits_byte. intros _.
    apply (emits_bind _ _ [_] _). apply emits_byte. intros _. exact IH.
Qed.

(* emit_closure on a compiler whose annotation is g: the function constant is appended, the Closure instruction
   (with its descriptors) extends the annotation by one instruction, H -> H+1 *)
Lemma emit_closure_post fu us l s u s' g H :
  emit_closure (fu, us) l s = COk (u, s') -> CInv (s_cur s) g H -> (H <= STACK_MAX)%N ->
  f_upvalues fu = N.of_nat (length us) ->
  exists gi, g_op gi = OpClosure /\ g_hole gi = false /\
             CInv (s_cur s') (g ++ [gi]) (H + 1)%N /\ Lext (hat g H) (hat (g ++ [gi]) (H + 1)%N) /\
             k_consts (s_cur s') = k_consts (s_cur s) ++ [KFun fu] /\ cframe (s_cur s) (s_cur s') /\
             s_outer s' = s_outer s.
Proof.
  intros E HI Hm Hu. unfold emit_closure, cbind in E. cbn [fst snd] in E.
  destruct (make_constant (KFun fu) s) as [[i s1]|] eqn:E1; [|discriminate].
  unfold make_constant, cbind, cur in E1. rewrite const_index_fun in E1. unfold upd in E1.
  cbn [s_cur s_outer s_classes s_line] in E1.
  destruct (N.ltb 65535 (N.of_nat (length (k_consts (s_cur s))))); [discriminate|].
  inversion E1; subst i s1; clear E1.
  set (s1 := mkS (with_consts (s_cur s) (k_consts (s_cur s) ++ [KFun fu])) (s_outer s) (s_classes s) (s_line s)) in *.
  set (gi := mkG OpClosure (N.of_nat (length (k_consts (s_cur s)))) 0 us H false).
  assert (HI1 : CInv (s_cur s1) g H).
  { destruct HI as [Hc Hg]. constructor. exact Hc. unfold s1. cbn [s_cur k_consts k_arity with_consts].
    unfold nupN. cbn [k_upvalues with_consts]. eapply gok_mono; [apply N.le_refl | exact Hg]. }
  assert (Hem : emitted (enc gi) s1 s').
  { assert (X : emits (emit_op16 OpClosure (N.of_nat (length (k_consts (s_cur s)))) l;;; emit_upvalues us l)
                      ([N_of_opcode OpClosure; lo8 (N.of_nat (length (k_consts (s_cur s))));
                        hi8 (N.of_nat (length (k_consts (s_cur s))))] ++ enc_uvs us)).
    { apply emits_bind. apply emits_op16. intros _. apply emits_upvalues. }
    exact (X s1 u s' E). }
  assert (Hi : iok (hat (g ++ [gi]) (H + 1)%N) (k_consts (s_cur s1)) (nupN (s_cur s1)) (k_arity (s_cur s1)) (flen g) gi).
  { split; [exact Hm|]. simpl. split; [reflexivity|]. split.
    - exists fu. split; [|exact Hu]. rewrite Nat2N.id, nth_error_app2, Nat.sub_diag; auto.
    - apply hat_snoc_end. }
  pose proof (emit_post s1 s' g H gi (H + 1)%N Hem HI1 eq_refl Hi) as P.
  destruct (emitted_facts _ _ _ Hem) as (F1 & F2 & F3 & F4 & F5 & F6).
  exists gi. split; [reflexivity|]. split; [reflexivity|]. split; [apply P|]. split; [apply P|].
  split; [rewrite F2; reflexivity|]. split.
  - eapply cframe_trans; [|exact F5]. unfold s1. constructor; reflexivity.
  - destruct Hem as (_ & O & _). rewrite O. reflexivity.
Qed.
Print Assumptions emit_closure_post.

(* emit_return in a function body (kind KFunction): Nil; Return *)
Lemma emit_return_fn l s u s' g H :
  emit_return l s = COk (u, s') -> CInv (s_cur s) g H -> k_kind (s_cur s) = KFunction -> k_in_try (s_cur s) = false ->
  (H + 1 <= STACK_MAX)%N ->
  forall H', CInv (s_cur s') (g ++ [mkG OpNil 0 0 [] H false; mkG OpReturn 0 0 [] (H + 1)%N false]) H'.
Proof.
  intros E HI Hk Ht Hm H'. pose proof (post_refl _ _ _ HI) as P0. revert u s' E.
  change (wp (emit_return l) s (fun _ s' => CInv (s_cur s') (g ++ [mkG OpNil 0 0 [] H false; mkG OpReturn 0 0 [] (H + 1)%N false]) H')).
  unfold emit_return. apply wp_bind. apply wp_cur. rewrite Hk, Ht. simpl.
  op0. bnd. apply wp_ret.
  eapply wp_emit with (gi := mkG OpReturn 0 0 [] (H + 1)%N false) (H' := H');
    [ apply emits_op | eassumption | simpl; lia | split; [simpl; lia | simpl; split; [reflexivity | lia]]
    | intros ? ?s ?P ?G ?F ?O ?Cl ].
  pose proof (po_inv _ _ _ _ _ _ P1) as X. simpl in X. rewrite <- ?app_assoc in X. exact X.
Qed.
