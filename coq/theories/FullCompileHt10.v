(* FullCompileHt10: functions (no captured variables).  Works over the FullCompileFnA..FnH copies of Ht..Ht8, in which
   (1) `iok` has a Closure case (so the SCRIPT's annotation may contain Closure instructions) and (2) `cgrow` records that
   expression / statement code never adds a function constant.  Here: `return e;`, the frame on the enclosing compiler,
   a function declaration at script level, the theorem for EVERY function of the tree. *)
From Coq Require Import Strings.Byte Strings.String.
From Coq Require Import List NArith ZArith Bool Arith Lia.
From Coq Require Import Floats.SpecFloat.
From YV Require Import Show Utf8 Num Ast Bytecode Skeleton VerifierProofs ParseLoc FullCompile FullCompileProofs.
From YV Require Import FullCompileFnA FullCompileFnB FullCompileFnC FullCompileFnD FullCompileFnE FullCompileFnF
                       FullCompileFnG FullCompileFnH.
Import ListNotations.
Local Open Scope nat_scope.
Local Open Scope list_scope.
Local Open Scope comp_scope.

Fixpoint fragS6 (st : lstmt) : bool :=
  match st with
  | LSExpr e _ => okE e
  | LSThrow e _ => okE e
  | LSVar _ _ _ => true
  | LSVarInit _ e _ => okE e
  | LSBlock b _ => fragSs6 b
  | LSIf c _ t _ => okE c && fragSs6 t
  | LSIfElse c _ t _ e => okE c && fragSs6 t && fragS6 e && nodecl e
  | LSWhile c _ b _ => okE c && fragSs6 b
  | LSFor _ _ it _ b _ => okE it && fragSs6 b
  | LSReturnE e _ => okE e
  | LSBreak _ => true
  | LSContinue _ => true
  | _ => false
  end
with fragSs6 (l : lstmts) : bool :=
  match l with LSNil => true | LSCons s r => fragS6 s && fragSs6 r end.

Theorem stmt_heights6 :
  (forall e : lexpr, True) /\ (forall es : lexprs, True) /\ (forall ps : lparts, True) /\ (forall kvs : lkvs, True) /\
  (forall st, fragS6 st = true -> striple3 (nodecl st) (cstmt st)) /\
  (forall l, fragSs6 l = true -> striple3 false (cstmts l)) /\
  (forall ms : lmethods, True).
Proof.
  apply lsyntax_mutind; try (intros; exact I).
  - (* LSExpr *) sstart3. useX. op0. apply sres3_of_ext; [fin | exact Hlen].
  - (* LSVar *) sstart3. sline. bnd. unfold parse_variable. bnd.
    destruct (k_scope (s_cur s)) as [|d] eqn:Esc.
    + unfold declare_variable. bnd. apply wp_cur. rewrite Esc. simpl. apply wp_ret.
      bnd. apply wp_cur. rewrite Esc. simpl. ident. op0.
      unfold define_variable. bnd. apply wp_cur.
      rewrite (fr_scope _ _ F0), (fr_scope _ _ F), Esc. simpl. op16.
      apply sres3_of_ext; [fin | exact Hlen].
    + eapply wp_declare_local_k; [eassumption | lia | exact Hlen | intros ?s ?P ?W ?El ?Hlbx ?Hl ?Ec].
      bnd. apply wp_cur. rewrite (ctl_scope _ _ Ec). cbn [ctl fst]. rewrite Esc. simpl. apply wp_ret.
      op0. unfold define_variable. bnd. apply wp_cur.
      rewrite (fr_scope _ _ F), (ctl_scope _ _ Ec). cbn [ctl fst]. rewrite Esc. simpl.
      eapply wp_mark_initialised_k; [eassumption | | rewrite (lks_frame _ _ F); exact El | intros ?s ?P ?W ?El ?Hl ?Ec].
      { rewrite (fr_scope _ _ F), (ctl_scope _ _ Ec). cbn [ctl fst]. rewrite Esc. discriminate. }
      eapply sres3_close_nb with (news := [(x, Some (k_scope (s_cur s1)))]);
        [ eapply post_eqH; [exact P2 | rewrite (nloc_cons _ _ _ El0); lia] | auto with ht | wkt
        | rewrite Ec0, (ctl_frame _ _ F), Ec; reflexivity | exact El0
        | constructor; [simpl; rewrite (fr_scope _ _ F), (ctl_scope _ _ Ec); reflexivity | constructor]
        | rewrite Hl0, (len_lks _ _ (lks_frame _ _ F)); exact Hl | first [intros HH; discriminate HH | intros _; reflexivity] ].
  - (* LSVarInit *) sstart3. bnd. unfold parse_variable. bnd.
    destruct (k_scope (s_cur ss)) as [|d] eqn:Esc.
    + unfold declare_variable. bnd. apply wp_cur. rewrite Esc. simpl. apply wp_ret.
      bnd. apply wp_cur. rewrite Esc. simpl. ident. useX.
      unfold define_variable. bnd. apply wp_cur.
      rewrite (fr_scope _ _ F0), (fr_scope _ _ F), Esc. simpl. op16.
      apply sres3_of_ext; [fin | exact Hlen].
    + eapply wp_declare_local_k; [eassumption | lia | exact Hlen | intros ?s ?P ?W ?El ?Hlbx ?Hl ?Ec].
      bnd. apply wp_cur. rewrite (ctl_scope _ _ Ec). cbn [ctl fst]. rewrite Esc. simpl. apply wp_ret.
      pose proof (Hlbx _ Hlb) as Hlb1.
      assert (Har1 : (k_arity (s_cur s) <= nloc (s_cur ss))%N) by (rewrite (wk_arity _ _ W); exact Har).
      useX. unfold define_variable. bnd. apply wp_cur.
      rewrite (fr_scope _ _ F), (ctl_scope _ _ Ec). cbn [ctl fst]. rewrite Esc. simpl.
      eapply wp_mark_initialised_k; [eassumption | | rewrite (lks_frame _ _ F); exact El | intros ?s ?P ?W ?El ?Hl ?Ec].
      { rewrite (fr_scope _ _ F), (ctl_scope _ _ Ec). cbn [ctl fst]. rewrite Esc. discriminate. }
      eapply sres3_close_nb with (news := [(x, Some (k_scope (s_cur s0)))]);
        [ eapply post_eqH; [exact P2 | rewrite (nloc_cons _ _ _ El0); lia] | auto with ht | wkt
        | rewrite Ec0, (ctl_frame _ _ F), Ec; reflexivity | exact El0
        | constructor; [simpl; rewrite (fr_scope _ _ F), (ctl_scope _ _ Ec); reflexivity | constructor]
        | rewrite Hl0, (len_lks _ _ (lks_frame _ _ F)); exact Hl | first [intros HH; discriminate HH | intros _; reflexivity] ].
  - sstart3.
  - sstart3.
  - (* LSBlock *) sstart3.
    eapply wp_scoped3;
      [ match goal with IH : _ -> striple3 _ (cstmts _) |- _ => apply IH; assumption end | exact P0
      | apply SInv3_weak; rewrite app_nil_r; exact SI3
      | intros ?s X; exact X | intros s3 gb newb P3 W3 El3 Ec3 Hnb Hb HB ].
    rewrite app_nil_r in Hb.
    eapply sres3_close with (news := []) (newb := newb);
      [ eapply post_eqH; [exact P3 | symmetry; apply nloc_eq; exact El3] | exact W3 | exact Ec3 | exact Hnb
      | exact El3 | constructor | rewrite (len_lks _ _ El3); exact Hlen | exact Hb | exact HB | auto ].
  - (* LSIf *) sstart3. useX. jif. op0.
    pose proof (po_fr _ _ _ _ _ _ P2) as F01. pose proof (po_gr _ _ _ _ _ _ P2) as G01.
    pose proof (nloc_eq _ _ (lks_frame _ _ F01)) as En.
    apply (post_eqH _ _ _ _ _ _ (nloc (s_cur ss))) in P2; [|lia].
    pose proof (SInv3_post _ _ _ _ _ SI3 P2) as SI3k.
    eapply wp_scoped3;
      [ match goal with IH : _ -> striple3 _ (cstmts _) |- _ => apply IH; assumption end
      | eapply post_eqH; [exact P2 | lia] | apply SInv3_weak; exact SI3k
      | intros ?s X; apply wp_bind; exact X | intros s3 gb newb P3 W3 El3 Ec3 Hnb Hb HB ].
    cbv beta.
    assert (Har3 : (k_arity (s_cur s3) <= nloc (s_cur ss))%N)
      by (rewrite (wk_arity _ _ W3), (fr_arity _ _ F01); exact Har).
    jmp (nloc (s_cur ss) + 1)%N. patch. op0. patch.
    match goal with Pe : post (s_cur s3) _ _ (s_cur ?se) _ _ |- sres3 _ _ _ (s_cur ?se) =>
      pose proof (po_fr _ _ _ _ _ _ Pe) as F3e; pose proof (po_gr _ _ _ _ _ _ Pe) as G3e;
      assert (Else : lks (s_cur se) = lks (s_cur ss))
        by (rewrite (lks_frame _ _ F3e), El3, (lks_frame _ _ F01); reflexivity);
      rewrite (lexit_same _ _ (fr_loops _ _ F01) (lks_frame _ _ F01)) in HB;
      eapply sres3_close with (news := []) (newb := newb);
      [ eapply post_eqH; [exact Pe | rewrite (nloc_eq _ _ Else); lia]
      | eapply wk_trans; [apply wk_of_frame; eauto|]; eapply wk_trans; [exact W3 | apply wk_of_frame; auto]
      | rewrite (ctl_frame _ _ F3e), Ec3, (fr_scope _ _ F01), (fr_loops _ _ F01), (fr_breaks _ _ F01); reflexivity
      | rewrite <- (fr_breaks _ _ F01); exact Hnb
      | exact Else | constructor | rewrite (len_lks _ _ Else); exact Hlen
      | rewrite Hb; f_equal; hnorm; f_equal; flnorm
      | bhs | auto ]
    end.
  - (* LSIfElse *) sstart3. useX. jif. op0.
    pose proof (po_fr _ _ _ _ _ _ P2) as F01. pose proof (po_gr _ _ _ _ _ _ P2) as G01.
    pose proof (nloc_eq _ _ (lks_frame _ _ F01)) as En.
    apply (post_eqH _ _ _ _ _ _ (nloc (s_cur ss))) in P2; [|lia].
    pose proof (SInv3_post _ _ _ _ _ SI3 P2) as SI3k.
    eapply wp_scoped3;
      [ match goal with IH : _ -> striple3 _ (cstmts _) |- _ => apply IH; assumption end
      | eapply post_eqH; [exact P2 | lia] | apply SInv3_weak; exact SI3k
      | intros ?s X; apply wp_bind; exact X | intros s3 gb newb P3 W3 El3 Ec3 Hnb Hb HB ].
    cbv beta.
    assert (Har3 : (k_arity (s_cur s3) <= nloc (s_cur ss))%N)
      by (rewrite (wk_arity _ _ W3), (fr_arity _ _ F01); exact Har).
    jmp (nloc (s_cur ss) + 1)%N. patch. op0.
    pose proof (po_fr _ _ _ _ _ _ P6) as F35. pose proof (po_gr _ _ _ _ _ _ P6) as G35.
    assert (Els5 : lks (s_cur s5) = lks (s_cur ss))
      by (rewrite (lks_frame _ _ F35), El3, (lks_frame _ _ F01); reflexivity).
    assert (Ecs5 : ctl (s_cur s5) = (k_scope (s_cur ss), k_loops (s_cur ss), pushb newb (k_breaks (s_cur ss))))
      by (rewrite (ctl_frame _ _ F35), Ec3, (fr_scope _ _ F01), (fr_loops _ _ F01), (fr_breaks _ _ F01); reflexivity).
    assert (W5 : wk (s_cur ss) (s_cur s5)).
    { eapply wk_trans; [apply wk_of_frame; eauto|]. eapply wk_trans; [exact W3|]. apply wk_of_frame; auto. }
    pose proof (nloc_eq _ _ Els5) as En5.
    apply (post_eqH _ _ _ _ _ _ (nloc (s_cur s5))) in P6; [|lia].
    pose proof (SInv3_rebased _ _ _ _ _ _ _ SI3 P6 Els5 Ecs5 W5) as SI5.
    destruct (ctl3 _ _ _ _ Ecs5) as (Es5 & Elo5 & Eb5).
    bnd. eapply wp_stmt_use3 with (b := nodecl e);
      [ match goal with IH : _ -> striple3 _ (cstmt _) |- _ => apply IH; assumption end
      | exact P6 | exact SI5
      | intros s6 g2 news2 nb2 P7 W6 Ec6 Hnb6 El6 Hn6 Hb6 HB6 Hnd6 SI6 Elx6 ].
    match goal with Hnd : nodecl _ = true |- _ => rewrite (Hnd6 Hnd) in El6 end. simpl in El6.
    assert (Els6 : lks (s_cur s6) = lks (s_cur ss)) by (rewrite El6; exact Els5).
    pose proof (nloc_eq _ _ Els6) as En6.
    patch.
    match goal with Pe : post (s_cur s6) _ _ (s_cur ?se) _ _ |- sres3 _ _ _ (s_cur ?se) =>
      pose proof (po_fr _ _ _ _ _ _ Pe) as F6e; pose proof (po_gr _ _ _ _ _ _ Pe) as G6e;
      assert (Else : lks (s_cur se) = lks (s_cur ss)) by (rewrite (lks_frame _ _ F6e); exact Els6);
      rewrite (lexit_same _ _ (fr_loops _ _ F01) (lks_frame _ _ F01)) in HB;
      rewrite (lexit_same _ _ Elo5 Els5) in HB6;
      eapply sres3_close with (news := []) (newb := nb2 ++ newb);
      [ eapply post_eqH; [exact Pe | rewrite (nloc_eq _ _ Else); lia]
      | eapply wk_trans; [exact W5|]; eapply wk_trans; [exact W6 | apply wk_of_frame; auto]
      | rewrite (ctl_frame _ _ F6e), Ec6, Es5, Elo5, Eb5, pushb_pushb; reflexivity
      | intros Hnil; rewrite (fr_breaks _ _ F01) in Hnb; rewrite (Hnb Hnil) in *;
        rewrite Hnil in Eb5; simpl in Eb5; rewrite (Hnb6 Eb5); reflexivity
      | exact Else | constructor | rewrite (len_lks _ _ Else); exact Hlen
      | rewrite Hb6, Hb, <- rev_app_distr; f_equal; hnorm; f_equal; f_equal; flnorm
      | bhs | auto ]
    end.
  - (* LSWhile *) sstart3.
    bnd. eapply wp_push_loop; [exact P0 | intros s1 P1 W1 El1 Ec1].
    bnd. apply wp_code_len. rewrite (ci_code _ _ _ (po_inv _ _ _ _ _ _ P1)). fold (flen (gg ++ [])).
    assert (Elk1 : lks (s_cur s1) = lks (s_cur ss)) by (unfold lks; rewrite El1; reflexivity).
    assert (Hlb1 : lb (s_cur s1) (nloc (s_cur ss))) by (intros y i; rewrite El1; apply Hlb).
    assert (Har1 : (k_arity (s_cur s1) <= nloc (s_cur ss))%N) by (rewrite (wk_arity _ _ W1); exact Har).
    useX. jif. op0.
    pose proof (po_fr _ _ _ _ _ _ P3) as F12. pose proof (po_gr _ _ _ _ _ _ P3) as G12.
    assert (Els2 : lks (s_cur s2) = lks (s_cur ss)) by (rewrite (lks_frame _ _ F12); exact Elk1).
    pose proof (nloc_eq _ _ Els2) as En2.
    assert (W2 : wk (s_cur ss) (s_cur s2)) by (eapply wk_trans; [exact W1 | apply wk_of_frame; auto]).
    apply (post_eqH _ _ _ _ _ _ (nloc (s_cur s2))) in P3; [|lia].
    assert (Ec2 : ctl (s_cur s2) = ctl (s_cur s1)) by (apply ctl_frame; exact F12).
    destruct (ctl3 _ _ _ _ Ec1) as (Es1 & Elo1 & Eb1).
    destruct (ctl3 _ _ _ _ (eq_trans Ec2 Ec1)) as (Es2 & Elo2 & Eb2).
    assert (Elx2 : lexit (s_cur s2) = nloc (s_cur ss)).
    { unfold lexit. rewrite Elo2, Els2, (npop_init _ _ (si_init _ SI)), nloc_lks. f_equal. lia. }
    assert (SI3k : SInv3 false (s_cur s2) (gg ++ (([] ++ g) ++ [mkG OpJumpIfFalse 65535 0 [] (nloc (s_cur ss) + 1)%N true])
                                              ++ [mkG OpPop 0 0 [] (nloc (s_cur ss) + 1)%N false])).
    { constructor.
      - eapply SInv_same; [exact SI | exact Els2 | exact Es2 | exact W2].
      - rewrite (wk_tryd _ _ W2). apply (s3_tryd _ _ _ SI3).
      - rewrite Elo2, Eb2. simpl. f_equal. apply (s3_len _ _ _ SI3).
      - unfold LoopI. rewrite Elo2, Es2, Elx2, (wk_arity _ _ W2).
        split; [lia|]. split; [exact Har|].
        rewrite (ci_code _ _ _ HI). fold (flen gg). split; [rewrite flen_app; lia|].
        apply (po_ext _ _ _ _ _ _ P3). apply hat_end. }
    eapply wp_scoped3;
      [ match goal with IH : _ -> striple3 _ (cstmts _) |- _ => apply IH; assumption end
      | exact P3 | exact SI3k
      | intros ?s X; apply wp_bind; exact X | intros s3 gb newb P4 W3 El3 Ec3 Hnb Hb HB ].
    cbv beta.
    assert (Har3 : (k_arity (s_cur s3) <= nloc (s_cur ss))%N)
      by (rewrite (wk_arity _ _ W3), (wk_arity _ _ W2); exact Har).
    apply (post_eqH _ _ _ _ _ _ (nloc (s_cur ss))) in P4; [|exact En2].
    bnd. eapply wp_emit_loop with (H' := (nloc (s_cur ss) + 1)%N);
      [ exact P4 | rewrite !flen_app; lia
      | apply (po_ext _ _ _ _ _ _ P4); rewrite app_nil_r; apply hat_end | lia
      | intros ?s (?gi & ?P & ?Hgi) ?G ?F ].
    patch. op0.
    pose proof (po_fr _ _ _ _ _ _ P7) as F36. pose proof (po_gr _ _ _ _ _ _ P7) as G36.
    destruct (ctl3 _ _ _ _ Ec3) as (Es3 & Elo3 & Eb3).
    apply (post_eqH _ _ _ _ _ _ (nloc (s_cur ss))) in P7; [|lia].
    rewrite Elx2 in HB.
    assert (Els6 : lks (s_cur s6) = lks (s_cur ss)) by (rewrite (lks_frame _ _ F36), El3; exact Els2).
    match type of P7 with post _ _ _ _ ?GW _ =>
      eapply wp_pop_loop with (ga := []) (gW := GW) (lps := k_loops (s_cur ss)) (b := newb ++ [])
                              (bks := k_breaks (s_cur ss));
      [ exact P7
      | rewrite (fr_loops _ _ F36), Elo3, Elo2; reflexivity
      | rewrite (fr_breaks _ _ F36), Eb3, Eb2; reflexivity
      | rewrite app_nil_r, Hb; f_equal; hnorm; f_equal; flnorm
      | bhs
      | intros s7 gW' P8 N8 W8 El8 Ec8 ]
    end.
    assert (Els7 : lks (s_cur s7) = lks (s_cur ss)) by (rewrite El8; exact Els6).
    eapply sres3_close_nb with (news := []);
      [ eapply post_eqH; [exact P8 | symmetry; apply nloc_eq; exact Els7] | exact N8
      | eapply wk_trans; [exact W2|]; eapply wk_trans; [exact W3|];
        eapply wk_trans; [apply wk_of_frame; eauto | exact W8]
      | rewrite Ec8, (fr_scope _ _ F36), Es3, Es2; reflexivity
      | exact Els7 | constructor | rewrite (len_lks _ _ Els7); exact Hlen | auto ].
  - (* LSFor *) sstart3.
    bnd. eapply wp_begin_scope; [exact P0 | intros s1 P1 W1 El1 Ec1].
    assert (Elk1 : lks (s_cur s1) = lks (s_cur ss)) by (unfold lks; rewrite El1; reflexivity).
    bnd. eapply wp_declare_local_k;
      [ exact P1 | rewrite (ctl_scope _ _ Ec1); discriminate | rewrite El1; exact Hlen
      | intros s2 P2 W2 El2 Hlbx Hl2 Ec2 ].
    bnd. apply wp_cur.
    set (lv := length (k_locals (s_cur s2)) - 1) in *.
    assert (Hlv : lv = length (lks (s_cur ss))).
    { unfold lv. rewrite <- (map_length lkey). fold (lks (s_cur s2)). rewrite El2, Elk1. simpl. apply Nat.sub_0_r. }
    assert (Hlv' : N.of_nat lv = nloc (s_cur ss)) by (rewrite Hlv, nloc_lks; reflexivity).
    assert (Hlb2 : lb (s_cur s2) (nloc (s_cur ss))).
    { apply Hlbx. intros y i. rewrite El1. apply Hlb. }
    assert (Har2 : (k_arity (s_cur s2) <= nloc (s_cur ss))%N)
      by (rewrite (wk_arity _ _ W2), (wk_arity _ _ W1); exact Har).
    op0. useX.
    pose proof (po_fr _ _ _ _ _ _ P3) as F24. pose proof (po_gr _ _ _ _ _ _ P3) as G24.
    bnd. eapply wp_mark_slot_k with (x := x) (r := lks (s_cur ss));
      [ exact P3 | rewrite (lks_frame _ _ F24), El2, Elk1; reflexivity | exact Hlv
      | intros s5 P5 W5 El5 Hl5 Ec5 ].
    bnd. eapply wp_add_local_k;
      [ exact P5 | rewrite Hl5, (len_lks _ _ (lks_frame _ _ F24)); exact Hl2
      | apply wp_bind; apply wp_err | intros s6 P6 W6 El6 Hl6 Ec6 ].
    bnd. apply wp_ret.
    assert (Ec0' : ctl (s_cur s0) = (S (k_scope (s_cur ss)), k_loops (s_cur ss), k_breaks (s_cur ss)))
      by (rewrite (ctl_frame _ _ F24), Ec2; exact Ec1).
    assert (Ec6' : ctl (s_cur s6) = (S (k_scope (s_cur ss)), k_loops (s_cur ss), k_breaks (s_cur ss)))
      by (rewrite Ec6, Ec5; exact Ec0').
    rewrite (ctl_scope _ _ Ec0') in El5. cbn [fst] in El5.
    assert (W06 : wk (s_cur ss) (s_cur s6)).
    { eapply wk_trans; [exact W1|]. eapply wk_trans; [exact W2|]. eapply wk_trans; [apply wk_of_frame; eauto|].
      eapply wk_trans; [exact W5 | exact W6]. }
    assert (Har6 : (k_arity (s_cur s6) <= nloc (s_cur ss))%N) by (rewrite (wk_arity _ _ W06); exact Har).
    sline. ident. apply wp_assoc. bnd. op16_8.
    pose proof (po_fr _ _ _ _ _ _ P7) as F37. pose proof (po_gr _ _ _ _ _ _ P7) as G37.
    bnd. eapply wp_mark_initialised_k with (x := bs "... temp-iter-var ...")
                                          (r := (x, Some (S (k_scope (s_cur ss)))) :: lks (s_cur ss));
      [ exact P7 | rewrite (fr_scope _ _ F37), (ctl_scope _ _ Ec6'); discriminate
      | rewrite (lks_frame _ _ F37), El6, El5; reflexivity | intros s8 P8 W8 El8 Hl8 Ec8 ].
    rewrite (fr_scope _ _ F37), (ctl_scope _ _ Ec6') in El8. cbn [fst] in El8.
    assert (En8 : nloc (s_cur s8) = (nloc (s_cur ss) + 2)%N).
    { rewrite !nloc_lks, El8. cbn [length]. lia. }
    assert (Ec8' : ctl (s_cur s8) = (S (k_scope (s_cur ss)), k_loops (s_cur ss), k_breaks (s_cur ss)))
      by (rewrite Ec8, (ctl_frame _ _ F37); exact Ec6').
    assert (W08 : wk (s_cur ss) (s_cur s8)).
    { eapply wk_trans; [exact W06|]. eapply wk_trans; [apply wk_of_frame; eauto | exact W8]. }
    assert (Hl8' : length (k_locals (s_cur s8)) <= 256).
    { rewrite Hl8, (len_lks _ _ (lks_frame _ _ F37)). exact Hl6. }
    bnd. eapply wp_push_loop; [exact P8 | intros s9 P9 W9 El9 Ec9].
    bnd. apply wp_code_len. rewrite (ci_code _ _ _ (po_inv _ _ _ _ _ _ P9)).
    match type of P9 with post _ _ _ _ ?ga _ => set (GA := ga) in * end.
    assert (NHGA : noholes GA) by (unfold GA; auto 20 with ht).
    fold (flen (gg ++ GA)).
    assert (Har9 : (k_arity (s_cur s9) <= nloc (s_cur ss))%N)
      by (rewrite (wk_arity _ _ W9), (wk_arity _ _ W08); exact Har).
    assert (Hmod : (N.of_nat lv mod 256 <= nloc (s_cur ss))%N).
    { rewrite <- Hlv'. apply N.mod_le. lia. }
    op0. op8. jif. op0.
    pose proof (po_fr _ _ _ _ _ _ P13) as F913. pose proof (po_gr _ _ _ _ _ _ P13) as G913.
    assert (Els13 : lks (s_cur s13) = (bs "... temp-iter-var ...", Some (S (k_scope (s_cur ss))))
                                       :: (x, Some (S (k_scope (s_cur ss)))) :: lks (s_cur ss)).
    { rewrite (lks_frame _ _ F913). unfold lks. rewrite El9. exact El8. }
    assert (En13 : nloc (s_cur s13) = (nloc (s_cur ss) + 2)%N).
    { rewrite !nloc_lks, Els13. cbn [length]. lia. }
    assert (Esc13 : k_scope (s_cur s13) = S (k_scope (s_cur ss))).
    { rewrite (fr_scope _ _ F913), (ctl_scope _ _ Ec9). cbn [fst]. rewrite (ctl_scope _ _ Ec8'). reflexivity. }
    assert (W013 : wk (s_cur ss) (s_cur s13)).
    { eapply wk_trans; [exact W08|]. eapply wk_trans; [exact W9 | apply wk_of_frame; auto]. }
    assert (Hl13 : length (k_locals (s_cur s13)) <= 256).
    { rewrite (len_lks _ _ (lks_frame _ _ F913)), El9. exact Hl8'. }
    assert (SI13 : SInv (s_cur s13)).
    { constructor.
      - rewrite Els13, Esc13. constructor; [eexists; split; [reflexivity | lia]|].
        constructor; [eexists; split; [reflexivity | lia]|].
        eapply Forall_impl; [|apply (si_init _ SI)]. intros k Hk. eapply kinit_mono; eauto.
      - exact Hl13.
      - rewrite (wk_try _ _ W013). apply (si_try _ SI).
      - rewrite (wk_arity _ _ W013), En13. lia. }
    destruct (ctl3 _ _ _ _ Ec9) as (Es9 & Elo9 & Eb9).
    destruct (ctl3 _ _ _ _ Ec8') as (Es8 & Elo8 & Eb8).
    assert (Ec13 : ctl (s_cur s13) = ctl (s_cur s9)) by (apply ctl_frame; exact F913).
    destruct (ctl3 _ _ _ _ (eq_trans Ec13 Ec9)) as (Es13 & Elo13 & Eb13).
    assert (Elx13 : lexit (s_cur s13) = (nloc (s_cur ss) + 2)%N).
    { unfold lexit. rewrite Elo13, Els13, Es8. cbn [npop]. rewrite Nat.leb_refl, Nat.sub_0_r.
      cbn [length]. rewrite nloc_lks. lia. }
    apply (post_eqH _ _ _ _ _ _ (nloc (s_cur s13))) in P13; [|lia].
    match type of P13 with post _ _ _ _ ?ga _ => assert (SI3k : SInv3 false (s_cur s13) (gg ++ ga)) end.
    { constructor.
      - exact SI13.
      - rewrite (wk_tryd _ _ W013). apply (s3_tryd _ _ _ SI3).
      - rewrite Elo13, Eb13, Elo8, Eb8. simpl. f_equal. apply (s3_len _ _ _ SI3).
      - unfold LoopI. rewrite Elo13, Elx13, Esc13, (wk_arity _ _ W013), Es8.
        split; [lia|]. split; [lia|].
        rewrite (ci_code _ _ _ (po_inv _ _ _ _ _ _ P8)). fold (flen (gg ++ GA)).
        split; [rewrite <- ?app_assoc; rewrite !flen_app; lia|].
        rewrite <- ?app_assoc; rewrite (app_assoc gg GA); rewrite hat_app_ge by lia;
        rewrite Nat.sub_diag, hat_0; cbn [app hdh g_h]; f_equal; lia. }
    eapply wp_scoped3;
      [ match goal with IH : _ -> striple3 _ (cstmts _) |- _ => apply IH; assumption end
      | exact P13 | exact SI3k
      | intros ?s X; apply wp_bind; exact X | intros s14 gb newb P14 W14 El14 Ec14 Hnb Hb HB ].
    cbv beta.
    apply (post_eqH _ _ _ _ _ _ (nloc (s_cur ss) + 2)%N) in P14; [|exact En13].
    assert (Har14 : (k_arity (s_cur s14) <= nloc (s_cur ss))%N)
      by (rewrite (wk_arity _ _ W14), (wk_arity _ _ W013); exact Har).
    bnd. eapply wp_emit_loop with (H' := (nloc (s_cur ss) + 3)%N);
      [ exact P14 | rewrite <- ?app_assoc; rewrite !flen_app; lia
      | rewrite <- ?app_assoc; rewrite (app_assoc gg GA); rewrite hat_app_ge by lia;
        rewrite Nat.sub_diag, hat_0; cbn [app hdh g_h]; f_equal; lia
      | lia | intros ?s (?gi & ?P & ?Hgi) ?G ?F ].
    patch. op0.
    pose proof (po_fr _ _ _ _ _ _ P17) as F1417. pose proof (po_gr _ _ _ _ _ _ P17) as G1417.
    destruct (ctl3 _ _ _ _ Ec14) as (Es14 & Elo14 & Eb14).
    apply (post_eqH _ _ _ _ _ _ (nloc (s_cur ss) + 2)%N) in P17; [|lia].
    rewrite Elx13 in HB.
    assert (Els17 : lks (s_cur s17) = lks (s_cur s13)) by (rewrite (lks_frame _ _ F1417); exact El14).
    bnd.
    match type of P17 with post _ _ _ _ ?GW _ =>
      eapply wp_pop_loop with (ga := []) (gW := GW) (lps := k_loops (s_cur ss)) (b := newb ++ [])
                              (bks := k_breaks (s_cur ss));
      [ exact P17
      | rewrite (fr_loops _ _ F1417), Elo14, Elo13, Elo8; reflexivity
      | rewrite (fr_breaks _ _ F1417), Eb14, Eb13, Eb8; reflexivity
      | rewrite app_nil_r, Hb; f_equal; hnorm; f_equal; flnorm
      | bhs
      | intros s18 gW' P18 N18 W18 El18 Ec18 ]
    end.
    assert (Els18 : lks (s_cur s18) = [(bs "... temp-iter-var ...", Some (S (k_scope (s_cur ss))));
                                       (x, Some (S (k_scope (s_cur ss))))] ++ lks (s_cur ss)).
    { rewrite El18, Els17. exact Els13. }
    assert (En18 : nloc (s_cur s18) = (nloc (s_cur ss) + 2)%N).
    { rewrite !nloc_lks, Els18. cbn [length app]. lia. }
    assert (W018 : wk (s_cur ss) (s_cur s18)).
    { eapply wk_trans; [exact W013|]. eapply wk_trans; [exact W14|].
      eapply wk_trans; [apply wk_of_frame; eauto | exact W18]. }
    assert (Ec18' : ctl (s_cur s18) = (S (k_scope (s_cur ss)), k_loops (s_cur ss), k_breaks (s_cur ss))).
    { rewrite Ec18, (fr_scope _ _ F1417), Es14, Esc13. reflexivity. }
    eapply wp_end_scope with (d := k_scope (s_cur ss)) (old := lks (s_cur ss))
        (news := [(bs "... temp-iter-var ...", Some (S (k_scope (s_cur ss)))); (x, Some (S (k_scope (s_cur ss))))]);
      [ eapply post_eqH; [exact P18 | lia] | exact Els18 | rewrite (ctl_scope _ _ Ec18'); reflexivity
      | repeat constructor | apply (si_init _ SI)
      | rewrite (wk_arity _ _ W018), <- nloc_lks; exact Har
      | lia | intros s19 (gp & P19 & N19) W19 El19 Ec19 ].
    eapply sres3_close_nb with (news := []);
      [ eapply post_eqH; [exact P19 | rewrite (nloc_eq _ _ El19), nloc_lks; reflexivity] | auto 40 with ht
      | eapply wk_trans; [exact W018 | exact W19]
      | rewrite Ec19, (ctl_loops _ _ Ec18'), (ctl_breaks _ _ Ec18'); reflexivity
      | exact El19 | constructor | rewrite (len_lks _ _ El19); exact Hlen | auto ].
  - sstart3.
  - (* LSReturnE *) sstart3.
    bnd. apply wp_cur. bnd. destruct (fk_eqb (k_kind (s_cur ss)) KScript); [apply wp_err|]. apply wp_ret.
    bnd. destruct (fk_eqb (k_kind (s_cur ss)) KInitialiser); [apply wp_err|]. apply wp_ret.
    useX. bnd. apply wp_cur. rewrite (fr_try _ _ F), (si_try _ SI). simpl. bnd. apply wp_ret.
    eapply wp_emit with (gi := mkG OpReturn 0 0 [] (nloc (s_cur ss) + 1)%N false) (H' := nloc (s_cur ss));
      [ apply emits_op | eassumption | reflexivity | split; [simpl; lia | simpl; split; [reflexivity | lia]]
      | intros ? ?s ?P ?G ?F ?O ?Cl ].
    apply sres3_of_ext; [fin | exact Hlen].
  - (* LSBreak *) intros l _. exact (stmt_break l).
  - (* LSContinue *) intros l _. exact (stmt_continue l).
  - (* LSThrow *) sstart3. useX.
    eapply wp_emit with (gi := mkG OpThrow 0 0 [] (nloc (s_cur ss) + 1)%N false) (H' := nloc (s_cur ss));
      [ apply emits_op | eassumption | reflexivity | split; [simpl; lia | simpl; split; [reflexivity | lia]]
      | intros ? ?s ?P ?G ?F ?O ?Cl ].
    apply sres3_of_ext; [fin | exact Hlen].
  - sstart3.
  - sstart3.
  - sstart3.
  - sstart3.
  - (* LSNil *) sstart3. apply wp_ret. apply sres3_of_ext; [fin | exact Hlen].
  - (* LSCons *) sstart3.
    bnd. eapply wp_stmt_use3;
      [ match goal with IH : _ -> striple3 _ (cstmt _) |- _ => apply IH; assumption end | exact P0
      | rewrite app_nil_r; exact SI3
      | intros s1 g1 news1 nb1 P1 W1 Ec1 Hnb1 El1 Hn1 Hb1 HB1 _ SI1 Elx1 ].
    destruct (ctl3 _ _ _ _ Ec1) as (Es1 & Elo1 & Eb1).
    eapply wp_stmt_use3;
      [ match goal with IH : _ -> striple3 _ (cstmts _) |- _ => apply IH; assumption end | exact P1
      | exact SI1
      | intros s2 g2 news2 nb2 P2 W2 Ec2 Hnb2 El2 Hn2 Hb2 HB2 _ SI2 Elx2 ].
    eapply sres3_close with (news := news2 ++ news1) (newb := nb2 ++ nb1);
      [ exact P2 | eapply wk_trans; eauto
      | rewrite Ec2, Es1, Elo1, Eb1, pushb_pushb; reflexivity
      | intros Hnil; rewrite (Hnb1 Hnil) in *; rewrite Hnil in Eb1; simpl in Eb1; rewrite (Hnb2 Eb1); reflexivity
      | rewrite El2, El1, app_assoc; reflexivity
      | apply Forall_app; split; [rewrite Es1 in Hn2; exact Hn2 | exact Hn1]
      | apply (si_len _ (s3_base _ _ _ SI2))
      | rewrite hpos_app, rev_app_distr, Hb2, Hb1, app_nil_r; f_equal; f_equal; f_equal; flnorm
      | apply Forall_app; split; [exact HB1 | rewrite <- Elx1; exact HB2]
      | intros X; discriminate X ].
Qed.
Print Assumptions stmt_heights6.
