(* FullCompileHt11: the function-level step: parameters, with_function, LSFn at script level, every function of the tree. *)
From Coq Require Import Strings.Byte Strings.String.
From Coq Require Import List NArith ZArith Bool Arith Lia.
From Coq Require Import Floats.SpecFloat.
From YV Require Import Show Utf8 Num Ast Bytecode Skeleton VerifierProofs ParseLoc FullCompile FullCompileProofs.
From YV Require Import FullCompileFnA FullCompileFnB FullCompileFnC FullCompileFnD FullCompileFnE FullCompileFnF
                       FullCompileFnG FullCompileFnH FullCompileHt10.
Import ListNotations.
Local Open Scope nat_scope.
Local Open Scope list_scope.
Local Open Scope comp_scope.

(* ---------- (a) parameters ---------- *)
Record PInv (c0 c : comp) : Prop := mkPInv {
  p_code : k_code c = [];
  p_gr : cgrow c0 c;
  p_kind : k_kind c = KFunction;
  p_ctl : ctl c = (1, [], []);
  p_try : k_in_try c = false;
  p_tryd : k_try_depth c = 0;
  p_init : Forall (kinit 1) (lks c);
  p_ar : k_arity c = nloc c;
  p_len : length (k_locals c) <= 256
}.

Lemma CInv_nil c H : k_code c = [] -> CInv c [] H.
Proof. intros E. constructor. exact E. apply gok_nil. Qed.

Lemma op_cparams ps l : op (cparams ps l).
Proof.
  induction ps as [|x r IH]; cbn [cparams]. apply op_ret.
  apply op_bind. apply op_upd. intros _. apply op_bind. apply op_cur. intros k.
  apply op_bind. destruct (N.ltb 256 (k_arity k)); [apply op_err | apply op_ret]. intros _.
  apply op_bind. apply op_parse_variable. intros g. apply op_bind. apply op_define_variable. intros _. exact IH.
Qed.

Lemma wp_upd_raw f s (Q : unit -> cstate -> Prop) :
  (forall s', s_cur s' = f (s_cur s) -> Q tt s') -> wp (upd f) s Q.
Proof. intros HQ u s' E. unfold upd in E. inversion E; subst. apply HQ. reflexivity. Qed.

Lemma cparams_spec c0 ps l : forall s u s',
  cparams ps l s = COk (u, s') -> PInv c0 (s_cur s) -> PInv c0 (s_cur s').
Proof.
  induction ps as [|x r IH]; intros s u s' E HP.
  - inversion E; subst. exact HP.
  - revert u s' E. change (wp (cparams (x :: r) l) s (fun _ s' => PInv c0 (s_cur s'))).
    cbn [cparams]. apply wp_bind. apply wp_upd_raw. intros s1 E1.
    apply wp_bind. apply wp_cur. apply wp_bind.
    destruct (N.ltb 256 (k_arity (s_cur s1))) eqn:Ear; [apply wp_err|]. apply wp_ret.
    apply N.ltb_ge in Ear.
    destruct HP as [Pc Pg Pk Pctl Pt Ptd Pi Pa Pl].
    assert (Hc1 : k_code (s_cur s1) = []) by (rewrite E1; exact Pc).
    pose proof (post_refl _ _ _ (CInv_nil (s_cur s1) 0%N Hc1)) as P1.
    assert (Ec1 : ctl (s_cur s1) = (1, [], [])) by (rewrite E1; exact Pctl).
    assert (Ea1 : k_arity (s_cur s1) = (nloc (s_cur s) + 1)%N) by (rewrite E1; cbn [k_arity with_arity]; rewrite Pa; reflexivity).
    assert (Hl1 : length (k_locals (s_cur s1)) <= 256) by (rewrite E1; exact Pl).
    assert (Elk1 : lks (s_cur s1) = lks (s_cur s)) by (rewrite E1; reflexivity).
    apply wp_bind. unfold parse_variable. apply wp_bind.
    eapply wp_declare_local_k; [exact P1 | rewrite (ctl_scope _ _ Ec1); discriminate | exact Hl1
                               | intros s2 P2 W2 El2 _ Hl2 Ec2 ].
    apply wp_bind. apply wp_cur. rewrite (ctl_scope _ _ Ec2). cbn [ctl fst]. rewrite (ctl_scope _ _ Ec1). simpl.
    apply wp_ret. unfold define_variable. apply wp_bind. apply wp_bind. apply wp_cur.
    rewrite (ctl_scope _ _ Ec2). cbn [ctl fst]. rewrite (ctl_scope _ _ Ec1). simpl.
    eapply wp_mark_initialised_k; [exact P2 | rewrite (ctl_scope _ _ Ec2); cbn [ctl fst]; rewrite (ctl_scope _ _ Ec1); discriminate
                                  | exact El2 | intros s3 P3 W3 El3 Hl3 Ec3 ].
    intros u s' E. eapply IH; [exact E|].
    constructor.
    + pose proof (ci_code _ _ _ (po_inv _ _ _ _ _ _ P3)) as X. exact X.
    + eapply cgrow_trans; [exact Pg|]. eapply cgrow_trans; [|eapply cgrow_trans; [apply (wk_gr _ _ W2) | apply (wk_gr _ _ W3)]].
      rewrite E1. constructor. exists []. simpl. rewrite app_nil_r; auto. unfold nupN; simpl; lia. simpl; auto.
    + rewrite (wk_kind _ _ W3), (wk_kind _ _ W2), E1. exact Pk.
    + rewrite Ec3, Ec2. exact Ec1.
    + rewrite (wk_try _ _ W3), (wk_try _ _ W2), E1. exact Pt.
    + rewrite (wk_tryd _ _ W3), (wk_tryd _ _ W2), E1. exact Ptd.
    + rewrite El3. constructor.
      * exists (k_scope (s_cur s2)). split; [reflexivity|]. rewrite (ctl_scope _ _ Ec2). cbn [ctl fst]. rewrite (ctl_scope _ _ Ec1). simpl. lia.
      * rewrite Elk1. exact Pi.
    + rewrite (wk_arity _ _ W3), (wk_arity _ _ W2), Ea1. rewrite (nloc_cons _ _ _ (eq_trans El3 (f_equal _ Elk1))). reflexivity.
    + rewrite Hl3. exact Hl2.
Qed.

(* ---------- (b) a function declaration body ---------- *)
Lemma CInv_tweak c c' g H : tweak c c' -> CInv c g H -> CInv c' g H.
Proof.
  intros [] [Hc Hg]. constructor. congruence. unfold nupN. rewrite tw_consts, tw_ups, tw_arity. exact Hg.
Qed.

Lemma stmts_heights6 l : fragSs6 l = true -> striple3 false (cstmts l).
Proof. exact (proj1 (proj2 (proj2 (proj2 (proj2 (proj2 stmt_heights6))))) l). Qed.
Lemma frame_outer_stmts l : fragSs6 l = true -> fr2 (cstmts l).
Proof. exact (proj1 (proj2 (proj2 (proj2 (proj2 (proj2 frame_outer))))) l). Qed.

Lemma emit_return_consts l s u s' : k_kind (s_cur s) = KFunction -> k_in_try (s_cur s) = false ->
  emit_return l s = COk (u, s') ->
  k_consts (s_cur s') = k_consts (s_cur s) /\ k_upvalues (s_cur s') = k_upvalues (s_cur s) /\
  k_arity (s_cur s') = k_arity (s_cur s) /\ k_name (s_cur s') = k_name (s_cur s).
Proof.
  intros Hk Ht E. unfold emit_return, cbind, cur in E. rewrite Hk, Ht in E. simpl in E.
  unfold emit_op, emit_byte, cbind, upd, set_line in E. inversion E; subst. simpl. auto.
Qed.

Lemma bind_inv {A B} (m : C A) (k : A -> C B) s b s' :
  cbind m k s = COk (b, s') -> exists a s1, m s = COk (a, s1) /\ k a s1 = COk (b, s').
Proof. unfold cbind. destruct (m s) as [[a s1]|]; [eauto | discriminate]. Qed.

Lemma ceq_cframe e e' : ceq e e' -> cframe e e'.
Proof.
  intros ([] & Ec & El). unfold ctl in Ec. inversion Ec. constructor; auto.
Qed.

Lemma with_function_ok fname ps lb body lend s u s' g H :
  with_function KFunction fname ps lb (cstmts body) lend s = COk (u, s') ->
  s_outer s = [] -> fragSs6 body = true -> CInv (s_cur s) g H -> (H <= STACK_MAX)%N ->
  exists fu gi, fn_ok fu /\ g_op gi = OpClosure /\ g_hole gi = false /\
    CInv (s_cur s') (g ++ [gi]) (H + 1)%N /\ Lext (hat g H) (hat (g ++ [gi]) (H + 1)%N) /\
    k_consts (s_cur s') = k_consts (s_cur s) ++ [KFun fu] /\
    cframe (s_cur s) (s_cur s') /\ s_outer s' = [].
Proof.
  intros E Ho Hf HI Hm. unfold with_function in E.
  apply bind_inv in E. destruct E as ([] & s1 & E1 & E).
  apply bind_inv in E. destruct E as ([] & s2 & E2 & E).
  apply bind_inv in E. destruct E as ([] & s3 & E3 & E).
  apply bind_inv in E. destruct E as ([] & s3' & E3' & E).
  simpl in E3'. inversion E3'; subst s3'; clear E3'.
  apply bind_inv in E. destruct E as ([] & s4 & E4 & E).
  apply bind_inv in E. destruct E as ([fu us] & s6 & E6 & E).
  unfold new_compiler in E1. rewrite Ho in E1. inversion E1; subst s1; clear E1.
  unfold begin_scope, upd in E2. cbn [s_cur s_outer s_classes s_line] in E2. inversion E2; subst s2; clear E2.
  set (c2 := with_scope (new_comp KFunction fname) (S (k_scope (new_comp KFunction fname)))) in *.
  (* parameters *)
  assert (HP2 : PInv c2 c2).
  { unfold c2. constructor; try reflexivity. apply cgrow_refl.
    - simpl. repeat constructor. exists 0. simpl. auto.
    - simpl. lia. }
  pose proof (cparams_spec c2 ps lb _ tt s3 E3 HP2) as HP3.
  pose proof (op_cparams ps lb _ tt s3 E3) as Ho3. simpl in Ho3.
  destruct HP3 as [Pc Pg Pk Pctl Pt Ptd Pi Pa Pl]. destruct (ctl3 _ _ _ _ Pctl) as (Es3 & Elo3 & Eb3).
  (* body *)
  assert (HI3 : CInv (s_cur s3) [] (nloc (s_cur s3))) by (apply CInv_nil; exact Pc).
  assert (SI3 : SInv3 true (s_cur s3) []).
  { constructor.
    - constructor; auto. rewrite Es3. exact Pi. rewrite Pa. lia.
    - exact Ptd.
    - rewrite Elo3, Eb3. reflexivity.
    - unfold LoopI. rewrite Elo3. exact I. }
  pose proof (stmts_heights6 body Hf s3 [] HI3 SI3 tt s4 E4) as R.
  destruct (SInv3_sres _ _ _ _ SI3 R) as (gx & SI4x & _).
  destruct R as (G & news & newb & (A1 & A2 & A3 & A4 & A5 & A6 & A7 & A8 & A9 & A10) & _).
  simpl app in A1, A2. rewrite (A5 Eb3) in A9.
  assert (NHG : noholes G).
  { eapply bh_nil_noholes; [exact A10|]. apply (f_equal (@rev nat)) in A9. rewrite rev_involutive in A9. symmetry. exact A9. }
  destruct (frame_outer_stmts body Hf s3 tt s4 (s_cur s) Ho3 E4) as (e' & Ho4 & Ce).
  (* implicit return, pop *)
  unfold finalise_compiler in E6. apply bind_inv in E6. destruct E6 as ([] & s5 & E5 & E6).
  assert (Hk4 : k_kind (s_cur s4) = KFunction) by (rewrite (wk_kind _ _ A3); exact Pk).
  assert (Ht4 : k_in_try (s_cur s4) = false) by (rewrite (wk_try _ _ A3); exact Pt).
  assert (Hl4 : length (k_locals (s_cur s4)) <= 256) by exact A8.
  assert (Hm4 : (nloc (s_cur s4) + 1 <= STACK_MAX)%N) by (pose proof stack_300; unfold nloc; lia).
  pose proof (emit_return_fn _ _ _ _ _ _ E5 A1 Hk4 Ht4 Hm4) as X.
  destruct (emit_return_consts _ _ _ _ Hk4 Ht4 E5) as (Ec5 & Eu5 & Ea5 & En5).
  pose proof (op_emit_return lend s4 tt s5 E5) as Ho5. rewrite Ho4 in Ho5. rewrite Ho5 in E6.
  inversion E6; subst fu us s6; clear E6.
  set (R2 := [mkG OpNil 0 0 [] (nloc (s_cur s4)) false; mkG OpReturn 0 0 [] (nloc (s_cur s4) + 1)%N false]) in *.
  (* the function is fn_ok *)
  assert (Hfn : fn_ok (func_of_comp (s_cur s5))).
  { exists (G ++ R2). unfold func_of_comp. cbn [f_code f_consts f_upvalues f_arity].
    split. { intros Z. apply app_eq_nil in Z. destruct Z as [_ Z]. discriminate. }
    split; [apply (X 0%N)|]. split. { apply noholes_app; auto. repeat constructor. }
    split; [intros H'; apply (X H')|]. split.
    - pose proof (A2 0 (nloc (s_cur s3)) eq_refl) as Y.
      assert (Z : Lext (hat G (nloc (s_cur s4))) (hat (G ++ R2) 0%N)) by (apply Lext_app; reflexivity).
      apply Z in Y. rewrite hat_0 in Y. inversion Y as [Y1]. rewrite Y1, Ea5, (wk_arity _ _ A3), Pa. reflexivity.
    - intros i k Hk. rewrite Ec5 in Hk.
      apply (gr_nf _ _ (wk_gr _ _ A3)) in Hk. apply (gr_nf _ _ Pg) in Hk. unfold c2 in Hk. simpl in Hk.
      destruct i; discriminate. }
  (* the closure in the enclosing compiler *)
  set (s6 := mkS e' [] (s_classes s5) (s_line s5)) in *.
  assert (HI6 : CInv (s_cur s6) g H) by (eapply CInv_tweak; [apply Ce | exact HI]).
  assert (Hu : f_upvalues (func_of_comp (s_cur s5)) = N.of_nat (length (k_upvalues (s_cur s5)))) by reflexivity.
  destruct (emit_closure_post _ _ _ _ _ _ _ _ E HI6 Hm Hu) as (gi & B1 & B2 & B3 & B4 & B5 & B6 & B7).
  exists (func_of_comp (s_cur s5)), gi. split; [exact Hfn|]. split; [exact B1|]. split; [exact B2|].
  split; [exact B3|]. split; [exact B4|]. split.
  - rewrite B5. unfold s6. cbn [s_cur]. destruct Ce as ([] & _ & _). rewrite tw_consts. reflexivity.
  - split; [eapply cframe_trans; [apply ceq_cframe; exact Ce | exact B6] | exact B7].
Qed.
Print Assumptions with_function_ok.

(* ---------- (c) the script level: no enclosing compiler ---------- *)
Definition fr0 {A} (m : C A) : Prop := forall s a s', s_outer s = [] -> m s = COk (a, s') -> s_outer s' = [].
Lemma fr0_of_op {A} (m : C A) : op m -> fr0 m.
Proof. intros H s a s' Ho E. rewrite (H _ _ _ E). exact Ho. Qed.
Lemma fr0_bind {A B} (m : C A) (k : A -> C B) : fr0 m -> (forall a, fr0 (k a)) -> fr0 (cbind m k).
Proof.
  intros Hm Hk s b s' Ho H. apply bind_inv in H. destruct H as (a & s1 & E1 & E2).
  eapply Hk; [|exact E2]. eapply Hm; eauto.
Qed.
Lemma fr0_resolve_variable x l : fr0 (resolve_variable x l).
Proof.
  intros s r s' Ho. unfold resolve_variable, cbind, cur. cbv beta.
  destruct (resolve_local_c (s_cur s) x).
  - intros H; inversion H; subst. exact Ho.
  - discriminate.
  - unfold cget. cbv beta. rewrite Ho. cbn [resolve_upvalue_in]. cbv beta. unfold set_line. cbn [s_cur s_outer s_classes].
    destruct (identifier_constant x _) as [[g s1]|] eqn:E3; [|discriminate].
    unfold cret; cbv beta. intros H; inversion H; subst; clear H. apply op_identifier_constant in E3. simpl in E3.
    rewrite E3. exact Ho.
Qed.
Lemma fr0_named_get x l : fr0 (named_get x l).
Proof.
  unfold named_get. apply fr0_bind. apply fr0_resolve_variable. intros [[g st] a]. apply fr0_of_op. auto with opdb.
Qed.
Create HintDb fr0db.
#[export] Hint Resolve fr0_resolve_variable fr0_named_get : fr0db.
#[export] Hint Extern 3 (fr0 _) => apply fr0_of_op; solve [eauto with opdb] : fr0db.
Ltac frt0 :=
  repeat first
    [ solve [eauto with fr0db]
    | match goal with
      | |- fr0 (if ?b then _ else _) => destruct b
      | |- fr0 (match ?x with _ => _ end) => destruct x
      | |- fr0 (cbind _ _) => apply fr0_bind; [|intros ?]
      end ].

Theorem frame_outer0 :
  (forall e, fragE e = true -> fr0 (cexpr e)) /\
  (forall es, fragA es = true -> fr0 (cargs es)) /\
  (forall ps, fragP ps = true -> fr0 (cparts ps)) /\
  (forall kvs, fragK kvs = true -> fr0 (ckvs kvs)) /\
  (forall st, fragS6 st = true -> fr0 (cstmt st)) /\
  (forall l, fragSs6 l = true -> fr0 (cstmts l)) /\
  (forall ms : lmethods, True).
Proof.
  apply lsyntax_mutind; try (intros; exact I);
    repeat lazymatch goal with |- forall _, _ => intro end; simpl in * |-; andbs;
    repeat match goal with H : okE _ = true |- _ => apply okE_spec in H; destruct H end;
    try discriminate; simpl; frt0.
Qed.

Record TInv (s : cstate) (g : list ginstr) : Prop := mkTInv {
  t_outer : s_outer s = [];
  t_inv : CInv (s_cur s) g (nloc (s_cur s));
  t_s3 : SInv3 true (s_cur s) g;
  t_scope : k_scope (s_cur s) = 0;
  t_loops : k_loops (s_cur s) = [];
  t_kind : k_kind (s_cur s) = KScript;
  t_ext : Lext (hat [] 1%N) (hat g (nloc (s_cur s)));
  t_fn : forall i h, nth_error (k_consts (s_cur s)) i = Some (KFun h) -> fn_ok h;
  t_nh : noholes g;
  t_ar : k_arity (s_cur s) = 1%N
}.

Lemma frame_outer0_stmt st : fragS6 st = true -> fr0 (cstmt st).
Proof. exact (proj1 (proj2 (proj2 (proj2 (proj2 frame_outer0)))) st). Qed.
Lemma stmt_heights6_stmt st : fragS6 st = true -> striple3 (nodecl st) (cstmt st).
Proof. exact (proj1 (proj2 (proj2 (proj2 (proj2 stmt_heights6)))) st). Qed.

(* a top-level statement of the statement fragment *)
Lemma top_stmt st s u s' g : fragS6 st = true -> cstmt st s = COk (u, s') -> TInv s g ->
  exists g', TInv s' (g ++ g').
Proof.
  intros Hf E [To Ti Ts Tsc Tl Tk Te Tf Tnh Tar].
  pose proof (frame_outer0_stmt st Hf s u s' To E) as To'.
  revert u s' E To'. 
  change (wp (cstmt st) s (fun _ s' => s_outer s' = [] -> exists g', TInv s' (g ++ g'))).
  eapply wp_stmt_use3 with (g0 := g) (gacc := []);
    [ apply stmt_heights6_stmt; exact Hf | apply post_refl; exact Ti | rewrite app_nil_r; exact Ts
    | intros s' g' news newb P W Ec Hnb El Hn Hb HB _ SI' _ To' ].
  destruct (ctl3 _ _ _ _ Ec) as (Es & Elo & Eb). simpl app in *.
  exists g'. constructor; auto.
  - apply P.
  - rewrite Es. exact Tsc.
  - rewrite Elo. exact Tl.
  - rewrite (wk_kind _ _ W). exact Tk.
  - eapply Lext_trans; [exact Te | apply (po_ext _ _ _ _ _ _ P)].
  - intros i h Hk. apply (gr_nf _ _ (wk_gr _ _ W)) in Hk. eauto.
  - apply noholes_app; [exact Tnh|].
    assert (Eb0 : k_breaks (s_cur s) = []).
    { pose proof (s3_len _ _ _ Ts) as Ln. rewrite Tl in Ln. destruct (k_breaks (s_cur s)); [reflexivity|discriminate]. }
    rewrite (Hnb Eb0) in Hb. eapply bh_nil_noholes; [exact HB|].
    apply (f_equal (@rev nat)) in Hb. rewrite rev_involutive in Hb. symmetry. exact Hb.
  - rewrite (wk_arity _ _ W). exact Tar.
Qed.

Lemma SInv3_cframe_top c c' g g' : SInv3 true c g -> cframe c c' -> k_loops c = [] -> SInv3 true c' g'.
Proof.
  intros [[A B D E] Td Ln LI] F Hl. pose proof (lks_frame _ _ F) as El.
  constructor.
  - constructor.
    + rewrite El, (fr_scope _ _ F). exact A.
    + rewrite (len_lks _ _ El). exact B.
    + rewrite (fr_try _ _ F). exact D.
    + rewrite (fr_arity _ _ F), (nloc_eq _ _ El). exact E.
  - rewrite (fr_tryd _ _ F). exact Td.
  - rewrite (fr_breaks _ _ F), (fr_loops _ _ F). exact Ln.
  - unfold LoopI. rewrite (fr_loops _ _ F), Hl. exact I.
Qed.

Lemma CInv_eqH' c g H H' : CInv c g H -> H = H' -> CInv c g H'.
Proof. intros; subst; auto. Qed.
Lemma Lext_eqH' L g H H' : Lext L (hat g H) -> H = H' -> Lext L (hat g H').
Proof. intros; subst; auto. Qed.

Definition is_fn_decl (st : lstmt) : bool :=
  match st with LSFn _ _ body _ => fragSs6 body | _ => false end.

(* a function declaration at the top level of the script *)
Lemma top_fn st s u s' g : is_fn_decl st = true -> cstmt st s = COk (u, s') -> TInv s g ->
  exists g', TInv s' (g ++ g').
Proof.
  destruct st; simpl; try discriminate. intros Hf E [To Ti Ts Tsc Tl Tk Te Tf Tnh Tar].
  pose proof stack_300 as HSM. pose proof (si_len _ (s3_base _ _ _ Ts)) as Hlen.
  assert (Hn256 : (nloc (s_cur s) <= 256)%N) by (unfold nloc; lia).
  apply bind_inv in E. destruct E as (gc & s1 & E1 & E).
  apply bind_inv in E. destruct E as ([] & s2 & E2 & E).
  apply bind_inv in E. destruct E as ([] & s3 & E3 & E).
  (* parse_variable at scope 0 = identifier_constant *)
  unfold parse_variable, declare_variable, cbind, cur in E1. rewrite Tsc in E1. simpl in E1.
  rewrite ?Tsc in E1. simpl in E1. unfold identifier_constant in E1.
  apply make_constant_spec in E1; [|intros ? ?; discriminate].
  destruct E1 as ([Q1 Q2 Q3] & O1 & _ & L1 & d & Hd & Hlk).
  apply const_like_str in Hlk. destruct Hlk as [y ->].
  (* mark_initialised at scope 0 does nothing *)
  unfold mark_initialised, cbind, cur in E2. rewrite (fr_scope _ _ Q2), Tsc in E2. simpl in E2.
  inversion E2; subst s2; clear E2.
  assert (HI1 : CInv (s_cur s1) g (nloc (s_cur s))).
  { eapply CInv_grow; eauto. apply Q2. }
  destruct (with_function_ok _ _ _ _ _ _ _ _ _ _ E3 (eq_trans O1 To) Hf HI1 ltac:(lia))
    as (fu & gi & Hfn & B1 & B2 & B3 & B4 & B5 & B6 & B7).
  assert (F03 : cframe (s_cur s) (s_cur s3)) by (eapply cframe_trans; eauto).
  assert (Hsc3 : k_scope (s_cur s3) = 0) by (rewrite (fr_scope _ _ F03); exact Tsc).
  (* define_variable at scope 0 = DefineGlobal *)
  revert u s' E.
  change (wp (define_variable gc lend) s3 (fun _ s' => exists g', TInv s' (g ++ g'))).
  pose proof (post_refl _ _ _ B3) as P3.
  unfold define_variable. apply wp_bind. apply wp_cur. rewrite Hsc3. simpl.
  assert (K3 : kstr (s_cur s3) gc).
  { exists y. rewrite B5, nth_error_app1; auto. apply nth_error_Some. congruence. }
  eapply wp_simple with (o := OpDefineGlobal) (a := gc) (b := 0%N);
    [ apply emits_op16 | exact P3 | reflexivity | reflexivity | exact K3 | simpl; lia | lia
    | intros ? s4 P4 G4 F4 O4 Cl4 ].
  simpl in P4.
  assert (F04 : cframe (s_cur s) (s_cur s4)) by (eapply cframe_trans; eauto).
  pose proof (nloc_eq _ _ (lks_frame _ _ F04)) as En4.
  exists ([gi] ++ [mkG OpDefineGlobal gc 0 [] (nloc (s_cur s) + 1)%N false]).
  constructor.
  - rewrite O4. exact B7.
  - rewrite app_assoc, En4. eapply CInv_eqH'; [apply (po_inv _ _ _ _ _ _ P4) | lia].
  - eapply SInv3_cframe_top; eauto.
  - rewrite (fr_scope _ _ F04). exact Tsc.
  - rewrite (fr_loops _ _ F04). exact Tl.
  - rewrite (fr_kind _ _ F04). exact Tk.
  - rewrite app_assoc, En4. eapply Lext_trans; [exact Te|]. eapply Lext_trans; [exact B4|].
    eapply Lext_eqH'; [apply (po_ext _ _ _ _ _ _ P4) | lia].
  - intros i h Hk. destruct (gr_consts _ _ G4) as [more Em].
    pose proof (gr_nf _ _ G4 _ _ Hk) as Hk3. rewrite B5 in Hk3.
    destruct (Nat.lt_ge_cases i (length (k_consts (s_cur s1)))) as [Hlt|Hge].
    + rewrite nth_error_app1 in Hk3 by auto. apply (gr_nf _ _ Q3) in Hk3. eauto.
    + rewrite nth_error_app2 in Hk3 by lia. destruct (i - length (k_consts (s_cur s1))) as [|n0]; simpl in Hk3.
      * inversion Hk3; subst. exact Hfn.
      * destruct n0; discriminate.
  - apply noholes_app; [exact Tnh|]. constructor; [exact B2|]. repeat constructor.
  - rewrite (fr_arity _ _ F04). exact Tar.
Qed.

(* ---------- (d) every function of the tree ---------- *)
Definition topfrag (st : lstmt) : bool := fragS6 st || is_fn_decl st.
Fixpoint topfrags (l : lstmts) : bool :=
  match l with LSNil => true | LSCons s r => topfrag s && topfrags r end.

Lemma top_seq l : topfrags l = true -> forall s u s' g, cstmts l s = COk (u, s') -> TInv s g ->
  exists g', TInv s' (g ++ g').
Proof.
  induction l as [|st r IH]; simpl; intros Hf s u s' g E T.
  - inversion E; subst. exists []. rewrite app_nil_r. exact T.
  - apply andb_prop in Hf. destruct Hf as [H1 H2]. apply bind_inv in E. destruct E as ([] & s1 & E1 & E2).
    assert (X : exists g1, TInv s1 (g ++ g1)).
    { unfold topfrag in H1. apply orb_prop in H1. destruct H1 as [H1|H1].
      eapply top_stmt; eauto. eapply top_fn; eauto. }
    destruct X as (g1 & T1). destruct (IH H2 _ _ _ _ E2 T1) as (g2 & T2).
    exists (g1 ++ g2). rewrite app_assoc. exact T2.
Qed.

Lemma TInv_init : TInv init_state [].
Proof.
  constructor; try reflexivity.
  - exact CInv_init.
  - exact SInv3_init.
  - apply Lext_refl.
  - intros i h Hk. destruct i; discriminate.
  - constructor.
Qed.

(* what the semantic statement needs of one function *)
Definition ann_ok (h : func) : Prop :=
  exists G, G <> [] /\ f_code h = flat G /\ noholes G /\
            (forall H', gok (f_consts h) (f_upvalues h) (f_arity h) G H') /\ hdh G 0%N = f_arity h.
Lemma fn_ok_ann h : fn_ok h -> ann_ok h.
Proof. intros (G & A1 & A2 & A3 & A4 & A5 & _). exists G. auto. Qed.

From YV Require FullCompileWF2.
Lemma wf2_consts P F g : FullCompileWF2.models P F g ->
  (forall c k, nth_error (f_consts g) c = Some k -> exists ck, nth_error (consts F) c = Some ck /\ ckind_ok k ck) /\
  (forall a fn, nth_error (f_consts g) (N.to_nat a) = Some (KFun fn) -> closure_arity P F a = Some (f_upvalues fn)).
Proof.
  intros M. split.
  - intros c k Hk. destruct k as [x|x|h].
    + exists CNum. split; [eapply FullCompileWF2.m_num; eauto | exact I].
    + exists CStr. split; [eapply FullCompileWF2.m_str; eauto | exact I].
    + destruct (FullCompileWF2.m_fun _ _ _ M _ _ Hk) as (i & H & A & B & D). exists (CFunc i). split; [exact A | exact I].
  - intros a fn Hk. destruct (FullCompileWF2.m_fun _ _ _ M _ _ Hk) as (i & H & A & B & D).
    unfold closure_arity, const_at. rewrite A, B, D. reflexivity.
Qed.

Lemma ann_ok_safe P F g :
  ann_ok g -> Forall (fun b => (b < 256)%N) (f_code g) -> FullCompileWF2.models P F g ->
  (forall a fn, nth_error (f_consts g) a = Some (KFun fn) -> f_upvalues fn = 0%N) ->
  forall s, reachable false P F s -> succs false P F s <> None.
Proof.
  intros (G & Hne & Hc & Hnh & Hok & He) Hb M Hnu. destruct (wf2_consts _ _ _ M) as [Hk Hcl].
  apply (sem_safe P F G (f_consts g)); auto.
  - rewrite (FullCompileWF2.m_code _ _ _ M). exact Hc.
  - rewrite <- Hc. exact Hb.
  - rewrite (FullCompileWF2.m_upv _ _ _ M), (FullCompileWF2.m_arity _ _ _ M). exact Hok.
  - rewrite (FullCompileWF2.m_arity _ _ _ M). exact He.
Qed.

Definition noups (f : func) : Prop := forall g, subfunc g f -> f_upvalues g = 0%N.

(* the program-level facts: the script is annotated, every function constant of the script is fn_ok *)
Lemma program_ann p f : topfrags (fst p) = true -> compile_program p = COk f ->
  ann_ok f /\ (forall i h, nth_error (f_consts f) i = Some (KFun h) -> fn_ok h).
Proof.
  intros Hf Hc. unfold compile_program in Hc.
  destruct ((cstmts (fst p);;; finalise_compiler (snd p)) init_state) as [[[f' us] s']|] eqn:E; [|discriminate].
  inversion Hc; subst f'; clear Hc.
  apply bind_inv in E. destruct E as ([] & s1 & E1 & E).
  destruct (top_seq _ Hf _ _ _ _ E1 TInv_init) as (G & [To Ti Ts Tsc Tl Tk Te Tf Tnh Tar]). simpl app in *.
  unfold finalise_compiler in E. apply bind_inv in E. destruct E as ([] & s2 & E2 & E).
  pose proof (si_len _ (s3_base _ _ _ Ts)) as Hlen. pose proof stack_300 as HSM.
  pose proof (si_try _ (s3_base _ _ _ Ts)) as Ht.
  assert (Hm : (nloc (s_cur s1) + 1 <= STACK_MAX)%N) by (unfold nloc; lia).
  pose proof (emit_return_gen _ _ _ _ _ _ E2 Ti Tk Ht Hm) as X.
  set (R2 := [mkG OpNil 0 0 [] (nloc (s_cur s1)) false; mkG OpReturn 0 0 [] (nloc (s_cur s1) + 1)%N false]) in *.
  assert (Ef : f = func_of_comp (s_cur s2)) by (destruct (s_outer s2); inversion E; reflexivity).
  assert (Ec : k_consts (s_cur s2) = k_consts (s_cur s1) /\ k_arity (s_cur s2) = k_arity (s_cur s1)).
  { unfold emit_return, cbind, cur in E2. rewrite Tk, Ht in E2. simpl in E2.
    unfold emit_op, emit_byte, cbind, upd, set_line in E2. inversion E2; subst. simpl. auto. }
  destruct Ec as [Ec Ea]. subst f. unfold func_of_comp. cbn [f_consts]. split.
  - exists (G ++ R2). cbn [f_code f_consts f_upvalues f_arity].
    split. { intros Z. apply app_eq_nil in Z. destruct Z as [_ Z]. discriminate. }
    split; [apply (X 0%N)|]. split.
    { apply noholes_app; [exact Tnh|repeat constructor]. }
    split; [intros H'; apply (X H')|].
    pose proof (Te 0 1%N eq_refl) as Y.
    assert (Z : Lext (hat G (nloc (s_cur s1))) (hat (G ++ R2) 0%N)) by (apply Lext_app; reflexivity).
    apply Z in Y. rewrite hat_0 in Y. inversion Y as [Y1]. rewrite Y1, Ea.
    rewrite Tar. reflexivity.
  - rewrite Ec. exact Tf.
Qed.

Lemma fn_ok_leaf h g : fn_ok h -> subfunc g h -> g = h.
Proof.
  intros (G & _ & _ & _ & _ & _ & Hnf) Hs. inversion Hs as [|? k ? Hin Hsub]; subst; auto.
  exfalso. apply In_nth_error in Hin. destruct Hin as [i Hi]. eapply Hnf; eauto.
Qed.

(* HEADLINE 7: for EVERY function g of the tree of a script whose top level consists of statements of fragS6 and of
   function declarations `fn f(params) { body }` with body in fragSs6 (no lambdas, no nested fn, no bare `return;`),
   under the restriction that no function of the tree captures a variable (decidable on the output): no state reachable
   in the skeleton semantics of g's record F in P is stuck, whenever (P, F) model g (e.g. P = FullCompileWF2.flatten f). *)
Theorem fullcompile_heights_functions p f :
  topfrags (fst p) = true -> compile_program p = COk f -> noups f ->
  forall g P F, subfunc g f -> FullCompileWF2.models P F g ->
  forall s, reachable false P F s -> succs false P F s <> None.
Proof.
  intros Hf Hc Hnu g P F Hsub M.
  destruct (program_ann p f Hf Hc) as [Haf Hfn].
  pose proof (code_bytes_in_range p f g Hc Hsub) as Hb.
  inversion Hsub as [|? h ? Hin Hsub']; subst.
  - (* the script itself *)
    apply (ann_ok_safe P F f Haf Hb M). intros a fn Hk. apply Hnu.
    eapply sub_const; [eapply nth_error_In; exact Hk | apply sub_refl].
  - (* a declared function *)
    apply In_nth_error in Hin. destruct Hin as [i Hi]. pose proof (Hfn _ _ Hi) as Hok.
    pose proof (fn_ok_leaf _ _ Hok Hsub') as ->.
    apply (ann_ok_safe P F h (fn_ok_ann _ Hok) Hb M).
    intros a fn Hk. exfalso. destruct Hok as (G & _ & _ & _ & _ & _ & Hnf). eapply Hnf; eauto.
Qed.
Print Assumptions fullcompile_heights_functions.

(* the same with the owner's flattening: every function of the tree has a record in `flatten f` that is never stuck *)
Corollary fullcompile_functions_flatten p f :
  topfrags (fst p) = true -> compile_program p = COk f -> noups f ->
  forall g, subfunc g f ->
  exists F idx, nth_error (FullCompileWF2.flatten f) idx = Some F /\
    forall s, reachable false (FullCompileWF2.flatten f) F s -> succs false (FullCompileWF2.flatten f) F s <> None.
Proof.
  intros Hf Hc Hnu g Hsub. destruct (FullCompileWF2.flatten_models g f Hsub) as (F & idx & Hn & M).
  exists F, idx. split; auto. eapply fullcompile_heights_functions; eauto.
Qed.
Print Assumptions fullcompile_functions_flatten.

(* non-vacuous: two functions (one with a while loop, break and `return` inside an if; one calling the other), calls *)
Definition ex_f_body : lstmts :=
  LSCons (LSVarInit (bs "i") (LVar 2 (bs "a")) 2)
 (LSCons (LSWhile (LBinary BLt (LVar 3 (bs "i")) (LVar 3 (bs "b")) 3) 3
            (LSCons (LSIf (LBinary BEq (LVar 4 (bs "i")) (LVar 4 (bs "a")) 4) 4
                       (LSCons (LSReturnE (LBinary BAdd (LVar 4 (bs "i")) (LVar 4 (bs "b")) 4) 4) LSNil) 4)
            (LSCons (LSIf (LVar 5 (bs "b")) 5 (LSCons (LSBreak 5) LSNil) 5)
            (LSCons (LSExpr (LAssign (bs "i") (LBinary BAdd (LVar 6 (bs "i")) (LVar 6 (bs "a")) 6) 6) 6) LSNil))) 7)
 (LSCons (LSReturnE (LVar 8 (bs "i")) 8) LSNil)).
Definition ex_g_body : lstmts :=
  LSCons (LSReturnE (LCall (LVar 11 (bs "f")) (LECons (LVar 11 (bs "x")) (LECons (LTrue 11) LENil)) 11) 11) LSNil.
Definition ex_main_block : lstmts :=
  LSCons (LSVarInit (bs "t") (LVar 14 (bs "r")) 14)
 (LSCons (LSExpr (LCall (LVar 15 (bs "f")) (LECons (LVar 15 (bs "t")) (LECons (LVar 15 (bs "r")) LENil)) 15) 15) LSNil).
Definition ex_prog7 : lprogram :=
  (LSCons (LSFn (bs "f") [bs "a"; bs "b"] ex_f_body 9)
  (LSCons (LSFn (bs "g") [bs "x"] ex_g_body 12)
  (LSCons (LSVarInit (bs "r") (LCall (LVar 13 (bs "g")) (LECons (LNil 13) LENil) 13) 13)
  (LSCons (LSBlock ex_main_block 16) LSNil))), 17%N).

Example ex_prog7_in_fragment :
  topfrags (fst ex_prog7) = true /\
  exists f, compile_program ex_prog7 = COk f /\ length (FullCompileWF2.flatten f) = 3.
Proof. split. vm_compute; reflexivity. eexists. split. vm_compute; reflexivity. vm_compute. reflexivity. Qed.

Example ex_prog7_safe : forall f, compile_program ex_prog7 = COk f -> noups f ->
  forall g, subfunc g f ->
  exists F idx, nth_error (FullCompileWF2.flatten f) idx = Some F /\
    forall s, reachable false (FullCompileWF2.flatten f) F s -> succs false (FullCompileWF2.flatten f) F s <> None.
Proof.
  intros f Hc Hnu. apply (fullcompile_functions_flatten ex_prog7 f); auto.
Qed.
