(* FullCompileHt12: the decidable form of the functions headline (`noupsb`), bare `return;`. *)
From Coq Require Import Strings.Byte Strings.String.
From Coq Require Import List NArith ZArith Bool Arith Lia.
From Coq Require Import Floats.SpecFloat.
From YV Require Import Show Utf8 Num Ast Bytecode Skeleton VerifierProofs ParseLoc FullCompile FullCompileProofs.
From YV Require Import FullCompileFnA FullCompileFnB FullCompileFnC FullCompileFnD FullCompileFnE FullCompileFnF
                       FullCompileFnG FullCompileFnH FullCompileHt10 FullCompileHt11.
From YV Require FullCompileWF2.
Import ListNotations.
Local Open Scope nat_scope.
Local Open Scope list_scope.
Local Open Scope comp_scope.

(* ---------- (1) the restriction "no function of the tree captures a variable", decidably ---------- *)
Definition noupsb (f : func) : bool :=
  forallb (fun F => N.eqb (upvalue_count F) 0%N) (FullCompileWF2.flatten f).

Lemma noupsb_noups f : noupsb f = true -> noups f.
Proof.
  intros H g Hs. destruct (FullCompileWF2.flatten_models g f Hs) as (F & idx & Hn & M).
  unfold noupsb in H. rewrite forallb_forall in H. specialize (H F (nth_error_In _ _ Hn)).
  apply N.eqb_eq in H. rewrite <- (FullCompileWF2.m_upv _ _ _ M). exact H.
Qed.

Definition wf_frag (p : lprogram) : bool := topfrags (fst p).

(* HEADLINE 7, decidable form *)
Theorem fullcompile_verifies_fragment p f :
  wf_frag p = true -> compile_program p = COk f -> noupsb f = true ->
  forall g, subfunc g f ->
  exists F idx, nth_error (FullCompileWF2.flatten f) idx = Some F /\
    forall s, reachable false (FullCompileWF2.flatten f) F s -> succs false (FullCompileWF2.flatten f) F s <> None.
Proof.
  intros Hf Hc Hn. apply (fullcompile_functions_flatten p f Hf Hc). apply noupsb_noups; exact Hn.
Qed.
Print Assumptions fullcompile_verifies_fragment.

Example ex_prog7_verified : exists f, compile_program ex_prog7 = COk f /\
  forall g, subfunc g f ->
  exists F idx, nth_error (FullCompileWF2.flatten f) idx = Some F /\
    forall s, reachable false (FullCompileWF2.flatten f) F s -> succs false (FullCompileWF2.flatten f) F s <> None.
Proof.
  eexists. split. vm_compute; reflexivity.
  apply (fullcompile_verifies_fragment ex_prog7); vm_compute; reflexivity.
Qed.
