(* FullCompileHt14: towards top-level classes: with_function for the kinds KFunction / KMethod / KStaticMethod. *)
From Coq Require Import Strings.Byte Strings.String.
From Coq Require Import List NArith ZArith Bool Arith Lia.
From Coq Require Import Floats.SpecFloat.
From YV Require Import Show Utf8 Num Ast Bytecode Skeleton VerifierProofs ParseLoc FullCompile FullCompileProofs.
From YV Require Import FullCompileFnA FullCompileFnB FullCompileFnC FullCompileFnD FullCompileFnE FullCompileFnF
                       FullCompileFnG FullCompileFnH FullCompileHt10 FullCompileHt11 FullCompileHt12 FullCompileHt13.
From YV Require FullCompileWF2.
Import ListNotations.
Local Open Scope nat_scope.
Local Open Scope list_scope.
Local Open Scope comp_scope.

Record PInvK (kk : fk) (c0 c : comp) : Prop := mkPInvK {
  p_codeK : k_code c = [];
  p_grK : cgrow c0 c;
  p_kindK : k_kind c = kk;
  p_ctlK : ctl c = (1, [], []);
  p_tryK : k_in_try c = false;
  p_trydK : k_try_depth c = 0;
  p_initK : Forall (kinit 1) (lks c);
  p_arK : k_arity c = nloc c;
  p_lenK : length (k_locals c) <= 256
}.

Lemma cparams_specK kk c0 ps l : forall s u s',
  cparams ps l s = COk (u, s') -> PInvK kk c0 (s_cur s) -> PInvK kk c0 (s_cur s').
Proof.
  induction ps as [|x r IH]; intros s u s' E HP.
  - inversion E; subst. exact HP.
  - revert u s' E. change (wp (cparams (x :: r) l) s (fun _ s' => PInvK kk c0 (s_cur s'))).
    cbn [cparams]. apply wp_bind. apply wp_upd_raw. intros s1 E1.
    apply wp_bind. apply wp_cur. apply wp_bind.
    destruct (N.ltb 256 (k_arity (s_cur s1))) eqn:Ear; [apply wp_err|]. apply wp_ret.
    apply N.ltb_ge in Ear.
    destruct HP as [Pc Pg Pk Pctl Pt Ptd Pi Pa Pl].
    assert (Hc1 : k_code (s_cur s1) = []) by (rewrite E1; exact Pc).
    pose proof (post_refl _ _ _ (CInv_nil (s_cur s1) 0%N Hc1)) as P1.
    assert (Ec1 : ctl (s_cur s1) = (1, [], [])) by (rewrite E1; exact Pctl).
    assert (Ea1 : k_arity (s_cur s1) = (nloc (s_cur s) + 1)%N) by (rewrite E1; cbn [k_arity with_arity]; rewrite Pa; reflexivity).
    assert (Hl1 : length (k_locals (s_cur s1)) <= 256) by (rewrite E1; exact Pl).
    assert (Elk1 : lks (s_cur s1) = lks (s_cur s)) by (rewrite E1; reflexivity).
    apply wp_bind. unfold parse_variable. apply wp_bind.
    eapply wp_declare_local_k; [exact P1 | rewrite (ctl_scope _ _ Ec1); discriminate | exact Hl1
                               | intros s2 P2 W2 El2 _ Hl2 Ec2 ].
    apply wp_bind. apply wp_cur. rewrite (ctl_scope _ _ Ec2). cbn [ctl fst]. rewrite (ctl_scope _ _ Ec1). simpl.
    apply wp_ret. unfold define_variable. apply wp_bind. apply wp_bind. apply wp_cur.
    rewrite (ctl_scope _ _ Ec2). cbn [ctl fst]. rewrite (ctl_scope _ _ Ec1). simpl.
    eapply wp_mark_initialised_k; [exact P2 | rewrite (ctl_scope _ _ Ec2); cbn [ctl fst]; rewrite (ctl_scope _ _ Ec1); discriminate
                                  | exact El2 | intros s3 P3 W3 El3 Hl3 Ec3 ].
    intros u s' E. eapply IH; [exact E|].
    constructor.
    + pose proof (ci_code _ _ _ (po_inv _ _ _ _ _ _ P3)) as X. exact X.
    + eapply cgrow_trans; [exact Pg|]. eapply cgrow_trans; [|eapply cgrow_trans; [apply (wk_gr _ _ W2) | apply (wk_gr _ _ W3)]].
      rewrite E1. constructor. exists []. simpl. rewrite app_nil_r; auto. unfold nupN; simpl; lia. simpl; auto.
    + rewrite (wk_kind _ _ W3), (wk_kind _ _ W2), E1. exact Pk.
    + rewrite Ec3, Ec2. exact Ec1.
    + rewrite (wk_try _ _ W3), (wk_try _ _ W2), E1. exact Pt.
    + rewrite (wk_tryd _ _ W3), (wk_tryd _ _ W2), E1. exact Ptd.
    + rewrite El3. constructor.
      * exists (k_scope (s_cur s2)). split; [reflexivity|]. rewrite (ctl_scope _ _ Ec2). cbn [ctl fst]. rewrite (ctl_scope _ _ Ec1). simpl. lia.
      * rewrite Elk1. exact Pi.
    + rewrite (wk_arity _ _ W3), (wk_arity _ _ W2), Ea1. rewrite (nloc_cons _ _ _ (eq_trans El3 (f_equal _ Elk1))). reflexivity.
    + rewrite Hl3. exact Hl2.
Qed.

Lemma emit_return_k l s u s' g H :
  emit_return l s = COk (u, s') -> CInv (s_cur s) g H -> fk_eqb (k_kind (s_cur s)) KInitialiser = false -> k_in_try (s_cur s) = false ->
  (H + 1 <= STACK_MAX)%N ->
  forall H', CInv (s_cur s') (g ++ [mkG OpNil 0 0 [] H false; mkG OpReturn 0 0 [] (H + 1)%N false]) H'.
Proof.
  intros E HI Hk Ht Hm H'. pose proof (post_refl _ _ _ HI) as P0. revert u s' E.
  change (wp (emit_return l) s (fun _ s' => CInv (s_cur s') (g ++ [mkG OpNil 0 0 [] H false; mkG OpReturn 0 0 [] (H + 1)%N false]) H')).
  unfold emit_return. apply wp_bind. apply wp_cur. rewrite Hk, Ht. simpl.
  op0. bnd. apply wp_ret.
  eapply wp_emit with (gi := mkG OpReturn 0 0 [] (H + 1)%N false) (H' := H');
    [ apply emits_op | eassumption | simpl; lia | split; [simpl; lia | simpl; split; [reflexivity | lia]]
    | intros ? ?s ?P ?G ?F ?O ?Cl ].
  pose proof (po_inv _ _ _ _ _ _ P1) as X. simpl in X. rewrite <- ?app_assoc in X. exact X.
Qed.

Lemma emit_return_constsK l s u s' : fk_eqb (k_kind (s_cur s)) KInitialiser = false -> k_in_try (s_cur s) = false ->
  emit_return l s = COk (u, s') ->
  k_consts (s_cur s') = k_consts (s_cur s) /\ k_upvalues (s_cur s') = k_upvalues (s_cur s) /\
  k_arity (s_cur s') = k_arity (s_cur s) /\ k_name (s_cur s') = k_name (s_cur s).
Proof.
  intros Hk Ht E. unfold emit_return, cbind, cur in E. rewrite Hk, Ht in E. simpl in E.
  unfold emit_op, emit_byte, cbind, upd, set_line in E. inversion E; subst. simpl. auto.
Qed.

Lemma with_function_okK kk fname ps lb body lend s u s' g H :
  fk_eqb kk KInitialiser = false -> kk <> KScript ->
  with_function kk fname ps lb (cstmts body) lend s = COk (u, s') ->
  s_outer s = [] -> fragSs8 body = true -> CInv (s_cur s) g H -> (H <= STACK_MAX)%N ->
  exists fu gi, fn_ok fu /\ g_op gi = OpClosure /\ g_hole gi = false /\
    CInv (s_cur s') (g ++ [gi]) (H + 1)%N /\ Lext (hat g H) (hat (g ++ [gi]) (H + 1)%N) /\
    k_consts (s_cur s') = k_consts (s_cur s) ++ [KFun fu] /\
    cframe (s_cur s) (s_cur s') /\ s_outer s' = [].
Proof.
  intros Hki Hks E Ho Hf HI Hm. unfold with_function in E.
  apply bind_inv in E. destruct E as ([] & s1 & E1 & E).
  apply bind_inv in E. destruct E as ([] & s2 & E2 & E).
  apply bind_inv in E. destruct E as ([] & s3 & E3 & E).
  apply bind_inv in E. destruct E as ([] & s3' & E3' & E).
  rewrite Hki in E3'. simpl in E3'. inversion E3'; subst s3'; clear E3'.
  apply bind_inv in E. destruct E as ([] & s4 & E4 & E).
  apply bind_inv in E. destruct E as ([fu us] & s6 & E6 & E).
  unfold new_compiler in E1. rewrite Ho in E1. inversion E1; subst s1; clear E1.
  unfold begin_scope, upd in E2. cbn [s_cur s_outer s_classes s_line] in E2. inversion E2; subst s2; clear E2.
  set (c2 := with_scope (new_comp kk fname) (S (k_scope (new_comp kk fname)))) in *.
  (* parameters *)
  assert (HP2 : PInvK kk c2 c2).
  { unfold c2. constructor; try reflexivity. apply cgrow_refl.
    - simpl. repeat constructor. exists 0. simpl. auto.
    - simpl. lia. }
  pose proof (cparams_specK kk c2 ps lb _ tt s3 E3 HP2) as HP3.
  pose proof (op_cparams ps lb _ tt s3 E3) as Ho3. simpl in Ho3.
  destruct HP3 as [Pc Pg Pk Pctl Pt Ptd Pi Pa Pl]. destruct (ctl3 _ _ _ _ Pctl) as (Es3 & Elo3 & Eb3).
  (* body *)
  assert (HI3 : CInv (s_cur s3) [] (nloc (s_cur s3))) by (apply CInv_nil; exact Pc).
  assert (SI3 : SInv3 true (s_cur s3) []).
  { constructor.
    - constructor; auto. rewrite Es3. exact Pi. rewrite Pa. lia.
    - exact Ptd.
    - rewrite Elo3, Eb3. reflexivity.
    - unfold LoopI. rewrite Elo3. exact I. }
  assert (Hk3 : k_kind (s_cur s3) <> KInitialiser) by (rewrite Pk; intros Z; rewrite Z in Hki; discriminate).
  pose proof (stmts_heights8 body Hf s3 [] HI3 SI3 Hk3 tt s4 E4) as R.
  destruct (SInv3_sres _ _ _ _ SI3 R) as (gx & SI4x & _).
  destruct R as (G & news & newb & (A1 & A2 & A3 & A4 & A5 & A6 & A7 & A8 & A9 & A10) & _).
  simpl app in A1, A2. rewrite (A5 Eb3) in A9.
  assert (NHG : noholes G).
  { eapply bh_nil_noholes; [exact A10|]. apply (f_equal (@rev nat)) in A9. rewrite rev_involutive in A9. symmetry. exact A9. }
  destruct (frame_outer_stmts8 body Hf s3 tt s4 (s_cur s) Ho3 E4) as (e' & Ho4 & Ce).
  (* implicit return, pop *)
  unfold finalise_compiler in E6. apply bind_inv in E6. destruct E6 as ([] & s5 & E5 & E6).
  assert (Hk4 : fk_eqb (k_kind (s_cur s4)) KInitialiser = false) by (rewrite (wk_kind _ _ A3), Pk; exact Hki).
  assert (Ht4 : k_in_try (s_cur s4) = false) by (rewrite (wk_try _ _ A3); exact Pt).
  assert (Hl4 : length (k_locals (s_cur s4)) <= 256) by exact A8.
  assert (Hm4 : (nloc (s_cur s4) + 1 <= STACK_MAX)%N) by (pose proof stack_300; unfold nloc; lia).
  pose proof (emit_return_k _ _ _ _ _ _ E5 A1 Hk4 Ht4 Hm4) as X.
  destruct (emit_return_constsK _ _ _ _ Hk4 Ht4 E5) as (Ec5 & Eu5 & Ea5 & En5).
  pose proof (op_emit_return lend s4 tt s5 E5) as Ho5. rewrite Ho4 in Ho5. rewrite Ho5 in E6.
  inversion E6; subst fu us s6; clear E6.
  set (R2 := [mkG OpNil 0 0 [] (nloc (s_cur s4)) false; mkG OpReturn 0 0 [] (nloc (s_cur s4) + 1)%N false]) in *.
  (* the function is fn_ok *)
  assert (Hfn : fn_ok (func_of_comp (s_cur s5))).
  { exists (G ++ R2). unfold func_of_comp. cbn [f_code f_consts f_upvalues f_arity].
    split. { intros Z. apply app_eq_nil in Z. destruct Z as [_ Z]. discriminate. }
    split; [apply (X 0%N)|]. split. { apply noholes_app; auto. repeat constructor. }
    split; [intros H'; apply (X H')|]. split.
    - pose proof (A2 0 (nloc (s_cur s3)) eq_refl) as Y.
      assert (Z : Lext (hat G (nloc (s_cur s4))) (hat (G ++ R2) 0%N)) by (apply Lext_app; reflexivity).
      apply Z in Y. rewrite hat_0 in Y. inversion Y as [Y1]. rewrite Y1, Ea5, (wk_arity _ _ A3), Pa. reflexivity.
    - intros i k Hk. rewrite Ec5 in Hk.
      apply (gr_nf _ _ (wk_gr _ _ A3)) in Hk. apply (gr_nf _ _ Pg) in Hk. unfold c2 in Hk. simpl in Hk.
      destruct i; discriminate. }
  (* the closure in the enclosing compiler *)
  set (s6 := mkS e' [] (s_classes s5) (s_line s5)) in *.
  assert (HI6 : CInv (s_cur s6) g H) by (eapply CInv_tweak; [apply Ce | exact HI]).
  assert (Hu : f_upvalues (func_of_comp (s_cur s5)) = N.of_nat (length (k_upvalues (s_cur s5)))) by reflexivity.
  destruct (emit_closure_post _ _ _ _ _ _ _ _ E HI6 Hm Hu) as (gi & B1 & B2 & B3 & B4 & B5 & B6 & B7).
  exists (func_of_comp (s_cur s5)), gi. split; [exact Hfn|]. split; [exact B1|]. split; [exact B2|].
  split; [exact B3|]. split; [exact B4|]. split.
  - rewrite B5. unfold s6. cbn [s_cur]. destruct Ce as ([] & _ & _). rewrite tw_consts. reflexivity.
  - split; [eapply cframe_trans; [apply ceq_cframe; exact Ce | exact B6] | exact B7].
Qed.


(* the enclosing compiler's upvalue list is untouched by a function declaration *)
Lemma emit_closure_ups fu l s u s' : emit_closure fu l s = COk (u, s') -> k_upvalues (s_cur s') = k_upvalues (s_cur s).
Proof.
  intros E. unfold emit_closure in E. apply bind_inv in E. destruct E as (c & s1 & E1 & E).
  assert (U1 : k_upvalues (s_cur s1) = k_upvalues (s_cur s)).
  { unfold make_constant, cbind, cur in E1. destruct (const_index _ _).
    - destruct (N.ltb _ _); [discriminate|]. inversion E1; subst. reflexivity.
    - unfold upd in E1. cbn [s_cur s_outer s_classes s_line] in E1. destruct (N.ltb _ _); [discriminate|].
      inversion E1; subst. reflexivity. }
  assert (X : emits (emit_op16 OpClosure c l;;; emit_upvalues (snd fu) l)
                    ([N_of_opcode OpClosure; lo8 c; hi8 c] ++ enc_uvs (snd fu))).
  { apply emits_bind. apply emits_op16. intros _. apply emits_upvalues. }
  destruct (emitted_facts _ _ _ (X s1 u s' E)) as (_ & _ & F3 & _). rewrite F3. exact U1.
Qed.

Lemma with_function_ups kk fname ps lb body lend s u s' :
  with_function kk fname ps lb (cstmts body) lend s = COk (u, s') -> s_outer s = [] -> fragSs8 body = true ->
  k_upvalues (s_cur s') = k_upvalues (s_cur s).
Proof.
  intros E Ho Hf. unfold with_function in E.
  apply bind_inv in E. destruct E as ([] & s1 & E1 & E).
  apply bind_inv in E. destruct E as ([] & s2 & E2 & E).
  apply bind_inv in E. destruct E as ([] & s3 & E3 & E).
  apply bind_inv in E. destruct E as ([] & s3' & E3' & E).
  apply bind_inv in E. destruct E as ([] & s4 & E4 & E).
  apply bind_inv in E. destruct E as ([fu us] & s6 & E6 & E).
  unfold new_compiler in E1. rewrite Ho in E1. inversion E1; subst s1; clear E1.
  pose proof (op_begin_scope _ _ _ E2) as O2. simpl in O2.
  pose proof (op_cparams _ _ _ _ _ E3) as O3. rewrite O2 in O3.
  assert (O3' : s_outer s3' = [s_cur s]).
  { destruct (fk_eqb kk KInitialiser).
    - apply bind_inv in E3'. destruct E3' as (c & sx & Ea & Eb). inversion Ea; subst.
      rewrite (op_emit_op8 _ _ _ _ _ _ Eb). exact O3.
    - inversion E3'; subst. exact O3. }
  destruct (frame_outer_stmts8 body Hf s3' tt s4 (s_cur s) O3' E4) as (e' & Ho4 & Ce).
  unfold finalise_compiler in E6. apply bind_inv in E6. destruct E6 as ([] & s5 & E5 & E6).
  pose proof (op_emit_return _ _ _ _ E5) as Ho5. rewrite Ho4 in Ho5. rewrite Ho5 in E6.
  inversion E6; subst fu us s6; clear E6.
  rewrite (emit_closure_ups _ _ _ _ _ E). cbn [s_cur]. destruct Ce as ([] & _ & _). exact tw_ups.
Qed.

(* ---------- the state between the pieces of a class statement ---------- *)
Record MInv (c0 cM : comp) (g0 : list ginstr) (H0 : N) (s : cstate) (g : list ginstr) (H : N) : Prop := mkMInv {
  m_outer : s_outer s = [];
  m_inv : CInv (s_cur s) g H;
  m_fr : cframe c0 (s_cur s);
  m_ext : Lext (hat g0 H0) (hat g H);
  m_fn : forall i h, nth_error (k_consts (s_cur s)) i = Some (KFun h) -> fn_ok h;
  m_nh : noholes g;
  m_pre : exists more, k_consts (s_cur s) = k_consts cM ++ more;
  m_ups : (nupN cM <= nupN (s_cur s))%N
}.

Definition meth_ok (kind : method_kind) (body : lstmts) : bool :=
  match kind with MInit => false | _ => fragSs8 body end.

Lemma method_ok c0 cM g0 H0 kind m ps lbrace body lend s cst s1 s2 u s' g H :
  meth_ok kind body = true -> (1 <= H)%N -> (H + 1 <= STACK_MAX)%N ->
  identifier_constant m s = COk (cst, s1) ->
  with_function (method_fk kind) m ps lbrace (cstmts body) lend s1 = COk (tt, s2) ->
  emit_op16 (match kind with MMethod => OpMethod | _ => OpStaticMethod end) cst lend s2 = COk (u, s') ->
  MInv c0 cM g0 H0 s g H -> exists g', MInv c0 cM g0 H0 s' (g ++ g') H.
Proof.
  intros Hm H1 HM E1 E2 E3 [Mo Mi Mf Me Mn Mh [mo Mp] Mu].
  assert (Hf : fragSs8 body = true) by (destruct kind; simpl in Hm; try discriminate; exact Hm).
  assert (Hki : fk_eqb (method_fk kind) KInitialiser = false) by (destruct kind; simpl in Hm; try discriminate; reflexivity).
  assert (Hks : method_fk kind <> KScript) by (destruct kind; discriminate).
  unfold identifier_constant in E1. apply make_constant_spec in E1; [|intros ? ?; discriminate].
  destruct E1 as ([Q1 Q2 Q3] & O1 & _ & L1 & d & Hd & Hlk).
  apply const_like_str in Hlk. destruct Hlk as [y ->].
  assert (HI1 : CInv (s_cur s1) g H) by (eapply CInv_grow; eauto; apply Q2).
  destruct (with_function_okK _ _ _ _ _ _ _ _ _ _ _ Hki Hks E2 (eq_trans O1 Mo) Hf HI1 ltac:(lia))
    as (fu & gi & Hfn & B1 & B2 & B3 & B4 & B5 & B6 & B7).
  pose proof (with_function_ups _ _ _ _ _ _ _ _ _ E2 (eq_trans O1 Mo) Hf) as U2.
  assert (K2 : kstr (s_cur s2) cst).
  { exists y. rewrite B5, nth_error_app1; auto. apply nth_error_Some. congruence. }
  revert u s' E3.
  change (wp (emit_op16 (match kind with MMethod => OpMethod | _ => OpStaticMethod end) cst lend) s2
             (fun _ s' => exists g', MInv c0 cM g0 H0 s' (g ++ g') H)).
  pose proof (post_refl _ _ _ B3) as P3.
  assert (Y : forall o s4, post (s_cur s2) (g ++ [gi]) (H + 1)%N (s_cur s4) [mkG o cst 0 [] (H + 1)%N false] H ->
              cgrow (s_cur s2) (s_cur s4) -> cframe (s_cur s2) (s_cur s4) -> s_outer s4 = s_outer s2 ->
              exists g', MInv c0 cM g0 H0 s4 (g ++ g') H).
  { intros o s4 P4 G4 F4 O4. exists ([gi] ++ [mkG o cst 0 [] (H + 1)%N false]).
    constructor.
    - rewrite O4. exact B7.
    - rewrite app_assoc. apply (po_inv _ _ _ _ _ _ P4).
    - eapply cframe_trans; [exact Mf|]. eapply cframe_trans; [exact Q2|]. eapply cframe_trans; [exact B6 | exact F4].
    - rewrite app_assoc. eapply Lext_trans; [exact Me|]. eapply Lext_trans; [exact B4|]. apply (po_ext _ _ _ _ _ _ P4).
    - intros i h Hk. pose proof (gr_nf _ _ G4 _ _ Hk) as Hk3. rewrite B5 in Hk3.
      destruct (Nat.lt_ge_cases i (length (k_consts (s_cur s1)))) as [Hlt|Hge].
      + rewrite nth_error_app1 in Hk3 by auto. apply (gr_nf _ _ Q3) in Hk3. eauto.
      + rewrite nth_error_app2 in Hk3 by lia. destruct (i - length (k_consts (s_cur s1))) as [|n0]; simpl in Hk3.
        * inversion Hk3; subst. exact Hfn.
        * destruct n0; discriminate.
    - apply noholes_app; [exact Mh|]. constructor; [exact B2|]. repeat constructor.
    - destruct (gr_consts _ _ G4) as [m4 E4]. destruct (gr_consts _ _ Q3) as [m1 Em1].
      eexists. rewrite E4, B5, Em1, Mp, <- !app_assoc. reflexivity.
    - pose proof (gr_ups _ _ G4). pose proof (gr_ups _ _ Q3). unfold nupN in *. rewrite U2 in *. lia. }
  destruct kind; try (simpl in Hm; discriminate Hm).
  all: match goal with |- wp (emit_op16 ?oo _ _) _ _ =>
         eapply wp_simple with (o := oo) (a := cst) (b := 0%N);
           [ apply emits_op16 | exact P3 | reflexivity | reflexivity | exact K2 | simpl; lia | lia
           | intros ? s4 P4 G4 F4 O4 Cl4 ] end.
  all: eapply Y; eauto; eapply post_eqH; [exact P4 | simpl; lia].
Qed.

Fixpoint meths_ok (ms : lmethods) : bool :=
  match ms with
  | LMNil => true
  | LMCons kind _ _ _ body _ r => meth_ok kind body && meths_ok r
  end.

Lemma cmethods_ok c0 cM g0 H0 ms : meths_ok ms = true -> forall s u s' g H,
  (1 <= H)%N -> (H + 1 <= STACK_MAX)%N -> cmethods ms s = COk (u, s') -> MInv c0 cM g0 H0 s g H ->
  exists g', MInv c0 cM g0 H0 s' (g ++ g') H.
Proof.
  induction ms as [|kind m ps lbrace body lend r IH]; simpl; intros Hok s u s' g H H1 HM E M.
  - inversion E; subst. exists []. rewrite app_nil_r. exact M.
  - apply andb_prop in Hok. destruct Hok as [Hk Hr].
    apply bind_inv in E. destruct E as (cst & s1 & E1 & E).
    apply bind_inv in E. destruct E as ([] & s2 & E2 & E).
    apply bind_inv in E. destruct E as ([] & s3 & E3 & E).
    destruct (method_ok _ _ _ _ _ _ _ _ _ _ _ _ _ _ _ _ _ _ Hk H1 HM E1 E2 E3 M) as (g1 & M1).
    destruct (IH Hr _ _ _ _ _ H1 HM E M1) as (g2 & M2).
    exists (g1 ++ g2). rewrite app_assoc. exact M2.
Qed.

(* ---------- a class declaration at the top level: no superclass, no constructor attribute, no initialiser ---------- *)
Definition is_class_decl (st : lstmt) : bool :=
  match st with
  | LSClass _ _ None None _ methods _ => meths_ok methods
  | _ => false
  end.

Lemma set_classes_cur cl s u s' : set_classes cl s = COk (u, s') -> s_cur s' = s_cur s /\ s_outer s' = s_outer s.
Proof. unfold set_classes. intros H; inversion H; subst. auto. Qed.

Lemma var_ok_ext c c' Hb r : var_ok c Hb r -> (exists more, k_consts c' = k_consts c ++ more) ->
  (nupN c <= nupN c')%N -> var_ok c' Hb r.
Proof.
  destruct r as [[g st] arg]. intros [H|[(A & B & D)|(A & B & D)]] [more Em] Hu; [left; auto| |].
  - right; left. repeat split; auto. lia.
  - right; right. repeat split; auto. destruct D as [x Hx]. exists x. rewrite Em, nth_error_app1; auto.
    apply nth_error_Some. congruence.
Qed.

Lemma wp_with_outer0 {A} (m : C A) s (Q : A -> cstate -> Prop) :
  fr0 m -> s_outer s = [] -> wp m s (fun a s' => s_outer s' = [] -> Q a s') -> wp m s Q.
Proof. intros Hfr Ho Hw a s' E. apply Hw; auto. eapply Hfr; eauto. Qed.

Lemma wp_set_classes cl s (Q : unit -> cstate -> Prop) :
  (forall s', s_cur s' = s_cur s -> s_outer s' = s_outer s -> Q tt s') -> wp (set_classes cl) s Q.
Proof. intros HQ u s' E. unfold set_classes in E. inversion E; subst. apply HQ; reflexivity. Qed.

Lemma wp_with_op {A} (m : C A) s (Q : A -> cstate -> Prop) :
  op m -> wp m s (fun a s' => s_outer s' = s_outer s -> Q a s') -> wp m s Q.
Proof. intros Hop Hw a s' E. apply Hw; auto. eapply Hop; eauto. Qed.

(* end_scope at scope depth 0 (top level of the script) pops nothing *)
Lemma wp_end_scope_top l cb g0 H0 s gacc H (Q : unit -> cstate -> Prop) :
  post cb g0 H0 (s_cur s) gacc H -> k_scope (s_cur s) = 0 -> Forall (kinit 0) (lks (s_cur s)) ->
  (forall s', post (s_cur s') g0 H0 (s_cur s') gacc H -> tweak (s_cur s) (s_cur s') ->
              lks (s_cur s') = lks (s_cur s) -> ctl (s_cur s') = ctl (s_cur s) -> Q tt s') ->
  wp (end_scope l) s Q.
Proof.
  intros P Hs Hi HQ. unfold end_scope.
  apply wp_bind. eapply wp_upd; [constructor; reflexivity | exact P |]. intros s1 E1 P1.
  apply wp_bind. apply wp_cur. unfold emit_scope_end. apply wp_bind. apply wp_cur.
  assert (El : k_locals (s_cur s1) = k_locals (s_cur s)) by (rewrite E1; reflexivity).
  assert (Es : k_scope (s_cur s1) = 0) by (rewrite E1; cbn [k_scope with_scope]; rewrite Hs; reflexivity).
  rewrite Es, El.
  destruct (scope_end_npop 0 (k_locals (s_cur s))) as [Hl _]. fold (lks (s_cur s)) in Hl.
  rewrite (npop_init _ _ Hi) in Hl. destruct (scope_end_ops 0 (k_locals (s_cur s))) as [|o r] eqn:Eo; [|discriminate].
  simpl. apply wp_bind. apply wp_ret.
  eapply wp_upd; [constructor; reflexivity | exact P1 |]. intros s2 E2 P2.
  apply HQ; auto.
  - rewrite E2, E1. constructor; reflexivity.
  - unfold lks. rewrite E2. cbn [k_locals with_locals skipn]. rewrite El. reflexivity.
  - unfold ctl. rewrite E2. cbn [k_scope k_loops k_breaks with_locals]. rewrite Es, E1. cbn [k_loops k_breaks with_scope].
    rewrite Hs. reflexivity.
Qed.

Lemma tweak_cframe c c' : tweak c c' -> lks c' = lks c -> ctl c' = ctl c -> cframe c c'.
Proof. intros [] El Ec. unfold ctl in Ec. inversion Ec. constructor; auto. Qed.

Lemma top_class st s u s' g : is_class_decl st = true -> cstmt st s = COk (u, s') -> TInv s g ->
  exists g', TInv s' (g ++ g').
Proof.
  destruct st; simpl; try discriminate. destruct super; try discriminate. destruct ctor; try discriminate.
  intros Hf E [To Ti Ts Tsc Tl Tk Te Tf Tnh Tar].
  pose proof stack_300 as HSM. pose proof (s3_base _ _ _ Ts) as SI. pose proof (si_len _ SI) as Hlen.
  assert (Hn256 : (nloc (s_cur s) <= 256)%N) by (unfold nloc; lia).
  assert (Hn1 : (1 <= nloc (s_cur s))%N) by (pose proof (si_ar _ SI); lia).
  pose proof (si_init _ SI) as Hinit. rewrite Tsc in Hinit.
  revert u s' E.
  match goal with |- forall u s', ?m s = _ -> _ => change (wp m s (fun _ s' => exists g', TInv s' (g ++ g'))) end.
  pose proof (post_refl _ _ _ Ti) as P0.
  bnd. apply wp_set_line. intros sa Ea Oa Ca.
  rewrite <- Ea in P0, Hn256, Hn1, Hinit, Tsc, Tl, Tk, Tar, Tf, SI, Ts, Ti, Te, Hlen.
  assert (To_a : s_outer sa = []) by (rewrite Oa; exact To).
  assert (Har0 : (k_arity (s_cur sa) <= nloc (s_cur sa))%N) by (rewrite Tar; exact Hn1).
  ident.
  bnd. unfold declare_variable. bnd. apply wp_cur. rewrite (fr_scope _ _ F), Tsc. simpl. apply wp_ret.
  op16. unfold define_variable. bnd. bnd. apply wp_cur. rewrite (fr_scope _ _ F0), (fr_scope _ _ F), Tsc. simpl.
  op16.
  bnd. apply wp_cget. bnd. apply wp_set_classes. intros sb Eb Ob.
  rewrite <- Eb in *.
  bnd. apply wp_ret.
  assert (To_b : s_outer sb = []) by (rewrite Ob, O1, O0, O; exact To_a).
  pose proof (po_fr _ _ _ _ _ _ P2) as Fab. pose proof (po_gr _ _ _ _ _ _ P2) as Gab.
  pose proof (nloc_eq _ _ (lks_frame _ _ Fab)) as Enb.
  apply (post_eqH _ _ _ _ _ _ (nloc (s_cur sa))) in P2; [|lia].
  bnd. eapply wp_with_outer0; [apply fr0_resolve_variable | exact To_b |].
  eapply wp_resolve_variable with (Hb := nloc (s_cur sa));
    [ exact P2 | rewrite <- Enb; apply lb_full | intros [[gop sop] arg] s6 P6 G6 F6 V6 To6 ].
  simpl.
  bnd. eapply wp_with_outer0; [apply fr0_named_get | exact To6 |].
  eapply wp_named_get with (Hb := nloc (s_cur sa));
    [ exact P6 | rewrite <- (nloc_eq _ _ (lks_frame _ _ (po_fr _ _ _ _ _ _ P6))); apply lb_full | lia | lia
    | intros s7 (g7 & P7 & N7) G7 F7 To7 ].
  bnd. apply wp_ret.
  bnd. intros u8 s8 E8.
  match type of P7 with post _ _ _ _ ?ga _ =>
    assert (M7 : MInv (s_cur sa) (s_cur s6) g (nloc (s_cur sa)) s7 (g ++ ga) (nloc (s_cur sa) + 1)%N) end.
  { constructor.
    - exact To7.
    - apply P7.
    - apply P7.
    - apply P7.
    - intros j h Hk. apply (gr_nf _ _ (po_gr _ _ _ _ _ _ P7)) in Hk. eauto.
    - apply noholes_app; [exact Tnh | auto 20 with ht].
    - apply (gr_consts _ _ G7).
    - apply (gr_ups _ _ G7). }
  assert (X1 : (1 <= nloc (s_cur sa) + 1)%N) by lia.
  assert (X2 : (nloc (s_cur sa) + 1 + 1 <= STACK_MAX)%N) by lia.
  destruct (cmethods_ok _ _ _ _ methods Hf _ _ _ _ _ X1 X2 E8 M7) as (g8 & M8).
  pose proof (post_refl _ _ _ (m_inv _ _ _ _ _ _ _ M8)) as P8.
  pose proof (m_fr _ _ _ _ _ _ _ M8) as Fa8.
  assert (Har8 : (k_arity (s_cur s8) <= nloc (s_cur sa))%N) by (rewrite (fr_arity _ _ Fa8), Tar; exact Hn1).
  op0.
  bnd. eapply wp_with_op; [apply op_emit_variable_op|].
  eapply wp_var_set with (Hb := nloc (s_cur sa));
    [ eassumption
    | eapply var_ok_grow; [eapply var_ok_ext; [exact V6 | apply (m_pre _ _ _ _ _ _ _ M8) | apply (m_ups _ _ _ _ _ _ _ M8)] | eassumption]
    | lia | lia | lia | intros s10 (g10 & P10 & N10) G10 F10 O10 ].
  op0.
  pose proof (po_fr _ _ _ _ _ _ P4) as F84. pose proof (po_gr _ _ _ _ _ _ P4) as G84.
  assert (To4 : s_outer s4 = []).
  { repeat match goal with H : s_outer ?a = s_outer ?b |- s_outer ?a = [] => rewrite H end.
    exact (m_outer _ _ _ _ _ _ _ M8). }
  assert (Fa4 : cframe (s_cur sa) (s_cur s4)) by (eapply cframe_trans; eauto).
  apply (post_eqH _ _ _ _ _ _ (nloc (s_cur sa))) in P4; [|simpl; lia].
  apply post_reframe in P4.
  match type of P4 with post _ ?G8 ?H8 _ ?ga _ =>
    assert (Fin : forall sx, post (s_cur sx) G8 H8 (s_cur sx) ga (nloc (s_cur sa)) -> cframe (s_cur s4) (s_cur sx) ->
                  cgrow (s_cur s4) (s_cur sx) -> s_outer sx = [] ->
                  wp (s9 <- cget;; set_classes (tl (s_classes s9))) sx
                     (fun _ s' => exists g', TInv s' (g ++ g'))) end.
  { intros sx Px Fx Gx Ox. apply wp_bind. apply wp_cget. apply wp_set_classes. intros sf Ef Of.
    assert (Fax : cframe (s_cur sa) (s_cur sx)) by (eapply cframe_trans; eauto).
    pose proof (nloc_eq _ _ (lks_frame _ _ Fax)) as Enx.
    pose proof (po_inv _ _ _ _ _ _ Px) as X. rewrite <- !app_assoc in X.
    pose proof (po_ext _ _ _ _ _ _ Px) as Xe. rewrite <- !app_assoc in Xe.
    pose proof (m_ext _ _ _ _ _ _ _ M8) as Me. rewrite <- !app_assoc in Me.
    pose proof (m_nh _ _ _ _ _ _ _ M8) as Mh. rewrite <- !app_assoc in Mh.
    match type of X with CInv _ (g ++ ?gg) _ => exists gg end.
    constructor.
    - rewrite Of. exact Ox.
    - rewrite Ef, Enx. exact X.
    - rewrite Ef. eapply SInv3_cframe_top; eauto.
    - rewrite Ef, (fr_scope _ _ Fax). exact Tsc.
    - rewrite Ef, (fr_loops _ _ Fax). exact Tl.
    - rewrite Ef, (fr_kind _ _ Fax). exact Tk.
    - rewrite Ef, Enx. eapply Lext_trans; [exact Te|]. eapply Lext_trans; [exact Me | exact Xe].
    - rewrite Ef. intros j h Hk. apply (gr_nf _ _ Gx) in Hk. apply (gr_nf _ _ G84) in Hk.
      exact (m_fn _ _ _ _ _ _ _ M8 _ _ Hk).
    - unfold noholes in *. repeat rewrite Forall_app in Mh. repeat rewrite Forall_app. decompose [and] Mh.
      repeat split; auto; repeat constructor; auto.
    - rewrite Ef, (fr_arity _ _ Fax). exact Tar. }
  bnd. apply wp_cget. bnd.
  destruct (s_classes s4) as [|[|] ?].
  - apply wp_ret. apply Fin; auto using cframe_refl, cgrow_refl.
  - eapply wp_with_op; [apply op_end_scope|].
    eapply wp_end_scope_top;
      [ exact P4 | rewrite (fr_scope _ _ Fa4); exact Tsc | rewrite (lks_frame _ _ Fa4); exact Hinit
      | intros s12 P12 Tw12 El12 Ec12 O12 ].
    apply Fin; auto.
    + apply tweak_cframe; auto.
    + apply (wk_gr _ _ (wk_of_tweak _ _ Tw12)).
    + rewrite O12. exact To4.
  - apply wp_ret. apply Fin; auto using cframe_refl, cgrow_refl.
Qed.

(* ---------- top level: statements, function declarations, class declarations ---------- *)
Definition topfrag9 (st : lstmt) : bool := fragS8 st || is_fn_decl8 st || is_class_decl st.
Fixpoint topfrags9 (l : lstmts) : bool :=
  match l with LSNil => true | LSCons s r => topfrag9 s && topfrags9 r end.

Lemma top_seq9 l : topfrags9 l = true -> forall s u s' g, cstmts l s = COk (u, s') -> TInv s g ->
  exists g', TInv s' (g ++ g').
Proof.
  induction l as [|st r IH]; simpl; intros Hf s u s' g E T.
  - inversion E; subst. exists []. rewrite app_nil_r. exact T.
  - apply andb_prop in Hf. destruct Hf as [H1 H2]. apply bind_inv in E. destruct E as ([] & s1 & E1 & E2).
    assert (X : exists g1, TInv s1 (g ++ g1)).
    { unfold topfrag9 in H1. apply orb_prop in H1. destruct H1 as [H1|H1]; [apply orb_prop in H1; destruct H1 as [H1|H1]|].
      eapply top_stmt8; eauto. eapply top_fn8; eauto. eapply top_class; eauto. }
    destruct X as (g1 & T1). destruct (IH H2 _ _ _ _ E2 T1) as (g2 & T2).
    exists (g1 ++ g2). rewrite app_assoc. exact T2.
Qed.

Lemma program_ann9 p f : topfrags9 (fst p) = true -> compile_program p = COk f ->
  ann_ok f /\ (forall i h, nth_error (f_consts f) i = Some (KFun h) -> fn_ok h).
Proof.
  intros Hf Hc. unfold compile_program in Hc.
  destruct ((cstmts (fst p);;; finalise_compiler (snd p)) init_state) as [[[f' us] s']|] eqn:E; [|discriminate].
  inversion Hc; subst f'; clear Hc.
  apply bind_inv in E. destruct E as ([] & s1 & E1 & E).
  destruct (top_seq9 _ Hf _ _ _ _ E1 TInv_init) as (G & [To Ti Ts Tsc Tl Tk Te Tf Tnh Tar]). simpl app in *.
  unfold finalise_compiler in E. apply bind_inv in E. destruct E as ([] & s2 & E2 & E).
  pose proof (si_len _ (s3_base _ _ _ Ts)) as Hlen. pose proof stack_300 as HSM.
  pose proof (si_try _ (s3_base _ _ _ Ts)) as Ht.
  assert (Hm : (nloc (s_cur s1) + 1 <= STACK_MAX)%N) by (unfold nloc; lia).
  pose proof (emit_return_gen _ _ _ _ _ _ E2 Ti Tk Ht Hm) as X.
  set (R2 := [mkG OpNil 0 0 [] (nloc (s_cur s1)) false; mkG OpReturn 0 0 [] (nloc (s_cur s1) + 1)%N false]) in *.
  assert (Ef : f = func_of_comp (s_cur s2)) by (destruct (s_outer s2); inversion E; reflexivity).
  assert (Ec : k_consts (s_cur s2) = k_consts (s_cur s1) /\ k_arity (s_cur s2) = k_arity (s_cur s1)).
  { unfold emit_return, cbind, cur in E2. rewrite Tk, Ht in E2. simpl in E2.
    unfold emit_op, emit_byte, cbind, upd, set_line in E2. inversion E2; subst. simpl. auto. }
  destruct Ec as [Ec Ea]. subst f. unfold func_of_comp. cbn [f_consts]. split.
  - exists (G ++ R2). cbn [f_code f_consts f_upvalues f_arity].
    split. { intros Z. apply app_eq_nil in Z. destruct Z as [_ Z]. discriminate. }
    split; [apply (X 0%N)|]. split.
    { apply noholes_app; [exact Tnh|repeat constructor]. }
    split; [intros H'; apply (X H')|].
    pose proof (Te 0 1%N eq_refl) as Y.
    assert (Z : Lext (hat G (nloc (s_cur s1))) (hat (G ++ R2) 0%N)) by (apply Lext_app; reflexivity).
    apply Z in Y. rewrite hat_0 in Y. inversion Y as [Y1]. rewrite Y1, Ea.
    rewrite Tar. reflexivity.
  - rewrite Ec. exact Tf.
Qed.

Theorem fullcompile_heights_functions9 p f :
  topfrags9 (fst p) = true -> compile_program p = COk f -> noups f ->
  forall g P F, subfunc g f -> FullCompileWF2.models P F g ->
  forall s, reachable false P F s -> succs false P F s <> None.
Proof.
  intros Hf Hc Hnu g P F Hsub M.
  destruct (program_ann9 p f Hf Hc) as [Haf Hfn].
  pose proof (code_bytes_in_range p f g Hc Hsub) as Hb.
  inversion Hsub as [|? h ? Hin Hsub']; subst.
  - (* the script itself *)
    apply (ann_ok_safe P F f Haf Hb M). intros a fn Hk. apply Hnu.
    eapply sub_const; [eapply nth_error_In; exact Hk | apply sub_refl].
  - (* a declared function *)
    apply In_nth_error in Hin. destruct Hin as [i Hi]. pose proof (Hfn _ _ Hi) as Hok.
    pose proof (fn_ok_leaf _ _ Hok Hsub') as ->.
    apply (ann_ok_safe P F h (fn_ok_ann _ Hok) Hb M).
    intros a fn Hk. exfalso. destruct Hok as (G & _ & _ & _ & _ & _ & Hnf). eapply Hnf; eauto.
Qed.

Corollary fullcompile_functions_flatten9 p f :
  topfrags9 (fst p) = true -> compile_program p = COk f -> noups f ->
  forall g, subfunc g f ->
  exists F idx, nth_error (FullCompileWF2.flatten f) idx = Some F /\
    forall s, reachable false (FullCompileWF2.flatten f) F s -> succs false (FullCompileWF2.flatten f) F s <> None.
Proof.
  intros Hf Hc Hnu g Hsub. destruct (FullCompileWF2.flatten_models g f Hsub) as (F & idx & Hn & M).
  exists F, idx. split; auto. eapply fullcompile_heights_functions9; eauto.
Qed.


(* HEADLINE 10: + top-level class declarations without superclass / constructor attribute / initialiser, with methods
   and static methods whose bodies are in fragSs8 (no `self` expression yet) *)
Definition wf_frag9 (p : lprogram) : bool := topfrags9 (fst p).
Theorem fullcompile_verifies_fragment9 p f :
  wf_frag9 p = true -> compile_program p = COk f -> noupsb f = true ->
  forall g, subfunc g f ->
  exists F idx, nth_error (FullCompileWF2.flatten f) idx = Some F /\
    forall s, reachable false (FullCompileWF2.flatten f) F s -> succs false (FullCompileWF2.flatten f) F s <> None.
Proof.
  intros Hf Hc Hn. apply (fullcompile_functions_flatten9 p f Hf Hc). apply noupsb_noups; exact Hn.
Qed.
Print Assumptions fullcompile_verifies_fragment9.

Definition ex_m_body : lstmts :=
  LSCons (LSIf (LVar 3 (bs "a")) 3 (LSCons (LSReturnE (LVar 3 (bs "a")) 3) LSNil) 3)
 (LSCons (LSReturn 4) LSNil).
Definition ex_sm_body : lstmts :=
  LSCons (LSVarInit (bs "t") (LNil 6) 6) (LSCons (LSReturnE (LVar 7 (bs "t")) 7) LSNil).
Definition ex_prog10 : lprogram :=
  (LSCons (LSClass (bs "A") 1 None None 1
            (LMCons MMethod (bs "m") [bs "a"] 2 ex_m_body 5
            (LMCons MStatic (bs "make") [] 6 ex_sm_body 8 LMNil)) 9)
  (LSCons (LSFn (bs "k") [bs "a"] ex_k_body 10)
  (LSCons (LSVarInit (bs "o") (LCall (LVar 11 (bs "A")) LENil 11) 11)
  (LSCons (LSExpr (LInvoke (LVar 12 (bs "o")) (bs "m") (LECons (LCall (LGet (LVar 12 (bs "A")) (bs "make") 12) LENil 12) LENil) 12) 12)
  LSNil))), 13%N).

Example ex_prog10_verified : exists f, compile_program ex_prog10 = COk f /\
  length (FullCompileWF2.flatten f) = 4 /\
  forall g, subfunc g f ->
  exists F idx, nth_error (FullCompileWF2.flatten f) idx = Some F /\
    forall s, reachable false (FullCompileWF2.flatten f) F s -> succs false (FullCompileWF2.flatten f) F s <> None.
Proof.
  eexists. split. vm_compute; reflexivity. split. vm_compute; reflexivity.
  apply (fullcompile_verifies_fragment9 ex_prog10); vm_compute; reflexivity.
Qed.
