(* FullCompileHt15: the expression `self` (GetLocal 0 in a method); everything downstream regenerated. *)
From Coq Require Import Strings.Byte Strings.String.
From Coq Require Import List NArith ZArith Bool Arith Lia.
From Coq Require Import Floats.SpecFloat.
From YV Require Import Show Utf8 Num Ast Bytecode Skeleton VerifierProofs ParseLoc FullCompile FullCompileProofs.
From YV Require Import FullCompileFnA FullCompileFnB FullCompileFnC FullCompileFnD FullCompileFnE FullCompileFnF
                       FullCompileFnG FullCompileFnH FullCompileHt10 FullCompileHt11 FullCompileHt12 FullCompileHt13
                       FullCompileHt14.
From YV Require FullCompileWF2.
Import ListNotations.
Local Open Scope nat_scope.
Local Open Scope list_scope.
Local Open Scope comp_scope.

Fixpoint fragE9 (e : lexpr) : bool :=
  match e with
  | LNil _ | LTrue _ | LFalse _ | LNum _ _ | LStr _ _ | LVar _ _ | LSelf _ => true
  | LCapSelf _ | LSuperGet _ _ | LSuperCall _ _ _ _ | LLambdaE _ _ _ | LLambdaB _ _ _ => false
  | LInterp ps _ => fragP9 ps
  | LAssign _ e _ => fragE9 e
  | LCompound _ _ _ e _ => fragE9 e
  | LUnary _ e _ => fragE9 e
  | LBinary _ a b _ => fragE9 a && fragE9 b
  | LRange a b _ => fragE9 a && fragE9 b
  | LIndex a b _ => fragE9 a && fragE9 b
  | LAnd a _ b => fragE9 a && fragE9 b
  | LOr a _ b => fragE9 a && fragE9 b
  | LCall f args _ => fragE9 f && fragA9 args
  | LGet o _ _ => fragE9 o
  | LSet o _ e _ => fragE9 o && fragE9 e
  | LSetCompound o _ _ _ e _ => fragE9 o && fragE9 e
  | LInvoke o _ args _ => fragE9 o && fragA9 args
  | LSetIndex o i e _ => fragE9 o && fragE9 i && fragE9 e
  | LTuple es _ => fragA9 es
  | LVec es _ => fragA9 es
  | LMap kvs _ => fragK9 kvs
  end
with fragA9 (es : lexprs) : bool :=
  match es with LENil => true | LECons e r => fragE9 e && fragA9 r end
with fragP9 (ps : lparts) : bool :=
  match ps with LPNil => true | LPStr _ _ r => fragP9 r | LPExpr e _ r => fragE9 e && fragP9 r end
with fragK9 (kvs : lkvs) : bool :=
  match kvs with LKNil => true | LKCons k v r => fragE9 k && fragE9 v && fragK9 r end.


Theorem expr_heights9 :
  (forall e, fragE9 e = true -> etriple (cexpr e) (fun _ => 1%N) (tmpE e)) /\
  (forall es, fragA9 es = true -> etriple (cargs es) (fun n => n) (tmpA es)) /\
  (forall ps, fragP9 ps = true -> etriple (cparts ps) (fun n => n) (tmpP ps)) /\
  (forall kvs, fragK9 kvs = true -> etriple (ckvs kvs) (fun n => (2 * n)%N) (tmpK kvs)) /\
  (forall st : lstmt, True) /\ (forall l : lstmts, True) /\ (forall ms : lmethods, True).
Proof.
  apply lsyntax_mutind; try (intros; exact I).
  - (* LNil *) start. op0. split; [fin | try lia].
  - start. op0. split; [fin | try lia].
  - start. op0. split; [fin | try lia].
  - (* LNum *) start. econst. split; [fin | try lia].
  - start. econst. split; [fin | try lia].
  - (* LInterp *) start. useih. ccount. op8. split; [fin | try lia].
  - (* LVar *) start. nget. split; [fin | try lia].
  - (* LSelf *) start. bnd. apply wp_in_class. destruct (negb _); [apply wp_err|].
    bnd. apply wp_cur. destruct (fk_eqb _ _); [apply wp_err|]. nget. split; [fin | try lia].
  - start.
  - start.
  - start.
  - (* LAssign *) start. bnd. eapply wp_resolve_variable; [eassumption | lbt | intros [[gop sop] arg] ?s ?P ?G ?F ?V]. simpl.
    useih. eapply wp_var_set; [eassumption | eapply var_ok_grow; eassumption | lia | lia | lia | intros ?s (?g & ?P & ?NH) ?G ?F]. split; [fin | try lia].
  - (* LCompound *) start. bnd. eapply wp_resolve_variable; [eassumption | lbt | intros [[gop sop] arg] ?s ?P ?G ?F ?V]. simpl.
    bnd. eapply wp_var_get; [eassumption | eassumption | apply N.le_refl | lia | intros ?s (?g & ?P & ?NH) ?G ?F].
    useih. bnd. eapply wp_compound; [eassumption | lia | lia | intros ?s (?g & ?P & ?NH) ?G ?F].
    eapply wp_var_set; [eassumption | eapply var_ok_grow; [eassumption | trn] | lia | lia | lia | intros ?s (?g & ?P & ?NH) ?G ?F]. split; [fin | try lia].
  - (* LUnary *) start. useih. destruct op; simpl. all: op0. all: split; [fin | try lia].
  - (* LBinary *) start. useih. useih. eapply wp_binops; [eassumption | lia | lia | intros ?s (?g & ?P & ?NH) ?G ?F]. split; [fin | try lia].
  - (* LAnd *) start. useih. jif. op0. useih. patch. split; [fin | try lia].
  - (* LOr *) start. useih. jif. jmp (HH + 1)%N. patch. op0. useih. patch. split; [fin | try lia].
  - (* LRange *) start. useih. useih. op0. split; [fin | try lia].
  - (* LCall *) start. useih. useih. ccount. op8. split; [fin | try lia].
  - (* LGet *) start. useih. sline. ident. op16. split; [fin | try lia].
  - (* LSet *) start. useih. ident. useih. op16. split; [fin | try lia].
  - (* LSetCompound *) start. useih. ident. op0. op16. useih.
    bnd. eapply wp_compound; [eassumption | lia | lia | intros ?s (?g & ?P & ?NH) ?G ?F].
    op16. split; [fin | try lia].
  - (* LInvoke *) start. useih. ident. useih. ccount. op16_8. split; [fin | try lia].
  - (* LIndex *) start. useih. useih. op0. split; [fin | try lia].
  - (* LSetIndex *) start. useih. useih. useih. op0. split; [fin | try lia].
  - (* LTuple *) start. useih. ccount. op8. split; [fin | try lia].
  - (* LVec *) start. useih. ccount. op8. split; [fin | try lia].
  - (* LMap *) start. useih. ccount. op8. split; [fin | try lia].
  - start.
  - start.
  - (* LENil *) start. apply wp_ret. split; [fin | try lia].
  - start. useih. useih. apply wp_ret. split; [fin | try lia].
  - (* LPNil *) start. apply wp_ret. split; [fin | try lia].
  - start. econst. useih. apply wp_ret. split; [fin | try lia].
  - start. useih. op0. useih. apply wp_ret. split; [fin | try lia].
  - (* LKNil *) start. apply wp_ret. split; [fin | try lia].
  - start. useih. useih. useih. apply wp_ret. split; [fin | try lia].
Qed.
Print Assumptions expr_heights9.

(* ---------- statements over the extended expressions ---------- *)
Definition okE9 (e : lexpr) : bool := fragE9 e && (300 + tmpE e <=? STACK_MAX)%N.
Lemma okE9_spec e : okE9 e = true -> fragE9 e = true /\ (300 + tmpE e <= STACK_MAX)%N.
Proof. unfold okE9. intros H. apply andb_prop in H. destruct H as [A B]. apply N.leb_le in B. auto. Qed.

Ltac useX ::=
  bnd; eapply wp_use; [ apply expr_heights9; assumption | eassumption | eassumption | eassumption | lia | simpl; lia
                      | intros ?a ?s (?g & ?P & ?NH) ?Hn ?G ?F ]; cbv beta in *.
Ltac sstart3 ::=
  repeat lazymatch goal with |- forall _, _ => intro end; simpl in * |-; andbs;
  repeat match goal with H : okE9 _ = true |- _ => apply okE9_spec in H; destruct H end;
  try discriminate;
  intros ss gg HI SI3;
  pose proof (s3_base _ _ _ SI3) as SI;
  pose proof (post_refl _ _ _ HI) as P0;
  pose proof (lb_full (s_cur ss)) as Hlb;
  pose proof (si_ar _ SI) as Har;
  pose proof (si_len _ SI) as Hlen;
  assert (Hn256 : (nloc (s_cur ss) <= 256)%N) by (unfold nloc; lia);
  pose proof stack_300 as HSM; poss; simpl.

Fixpoint fragS9 (st : lstmt) : bool :=
  match st with
  | LSExpr e _ => okE9 e
  | LSThrow e _ => okE9 e
  | LSVar _ _ _ => true
  | LSVarInit _ e _ => okE9 e
  | LSBlock b _ => fragSs9 b
  | LSIf c _ t _ => okE9 c && fragSs9 t
  | LSIfElse c _ t _ e => okE9 c && fragSs9 t && fragS9 e && nodecl8 e
  | LSWhile c _ b _ => okE9 c && fragSs9 b
  | LSFor _ _ it _ b _ => okE9 it && fragSs9 b
  | LSReturn _ => true
  | LSReturnE e _ => okE9 e
  | LSBreak _ => true
  | LSContinue _ => true
  | LSImport _ _ _ _ => true
  | _ => false
  end
with fragSs9 (l : lstmts) : bool :=
  match l with LSNil => true | LSCons s r => fragS9 s && fragSs9 r end.

Theorem stmt_heights9 :
  (forall e : lexpr, True) /\ (forall es : lexprs, True) /\ (forall ps : lparts, True) /\ (forall kvs : lkvs, True) /\
  (forall st, fragS9 st = true -> striple4 (nodecl8 st) (cstmt st)) /\
  (forall l, fragSs9 l = true -> striple4 false (cstmts l)) /\
  (forall ms : lmethods, True).
Proof.
  apply lsyntax_mutind; try (intros; exact I).
  - (* LSExpr *) sstart4. useX. op0. apply sres3_of_ext; [fin | exact Hlen].
  - (* LSVar *) sstart4. sline. bnd. unfold parse_variable. bnd.
    destruct (k_scope (s_cur s)) as [|d] eqn:Esc.
    + unfold declare_variable. bnd. apply wp_cur. rewrite Esc. simpl. apply wp_ret.
      bnd. apply wp_cur. rewrite Esc. simpl. ident. op0.
      unfold define_variable. bnd. apply wp_cur.
      rewrite (fr_scope _ _ F0), (fr_scope _ _ F), Esc. simpl. op16.
      apply sres3_of_ext; [fin | exact Hlen].
    + eapply wp_declare_local_k; [eassumption | lia | exact Hlen | intros ?s ?P ?W ?El ?Hlbx ?Hl ?Ec].
      bnd. apply wp_cur. rewrite (ctl_scope _ _ Ec). cbn [ctl fst]. rewrite Esc. simpl. apply wp_ret.
      op0. unfold define_variable. bnd. apply wp_cur.
      rewrite (fr_scope _ _ F), (ctl_scope _ _ Ec). cbn [ctl fst]. rewrite Esc. simpl.
      eapply wp_mark_initialised_k; [eassumption | | rewrite (lks_frame _ _ F); exact El | intros ?s ?P ?W ?El ?Hl ?Ec].
      { rewrite (fr_scope _ _ F), (ctl_scope _ _ Ec). cbn [ctl fst]. rewrite Esc. discriminate. }
      eapply sres3_close_nb with (news := [(x, Some (k_scope (s_cur s1)))]);
        [ eapply post_eqH; [exact P2 | rewrite (nloc_cons _ _ _ El0); lia] | auto with ht | wkt
        | rewrite Ec0, (ctl_frame _ _ F), Ec; reflexivity | exact El0
        | constructor; [simpl; rewrite (fr_scope _ _ F), (ctl_scope _ _ Ec); reflexivity | constructor]
        | rewrite Hl0, (len_lks _ _ (lks_frame _ _ F)); exact Hl | first [intros HH; discriminate HH | intros _; reflexivity] ].
  - (* LSVarInit *) sstart4. bnd. unfold parse_variable. bnd.
    destruct (k_scope (s_cur ss)) as [|d] eqn:Esc.
    + unfold declare_variable. bnd. apply wp_cur. rewrite Esc. simpl. apply wp_ret.
      bnd. apply wp_cur. rewrite Esc. simpl. ident. useX.
      unfold define_variable. bnd. apply wp_cur.
      rewrite (fr_scope _ _ F0), (fr_scope _ _ F), Esc. simpl. op16.
      apply sres3_of_ext; [fin | exact Hlen].
    + eapply wp_declare_local_k; [eassumption | lia | exact Hlen | intros ?s ?P ?W ?El ?Hlbx ?Hl ?Ec].
      bnd. apply wp_cur. rewrite (ctl_scope _ _ Ec). cbn [ctl fst]. rewrite Esc. simpl. apply wp_ret.
      pose proof (Hlbx _ Hlb) as Hlb1.
      assert (Har1 : (k_arity (s_cur s) <= nloc (s_cur ss))%N) by (rewrite (wk_arity _ _ W); exact Har).
      useX. unfold define_variable. bnd. apply wp_cur.
      rewrite (fr_scope _ _ F), (ctl_scope _ _ Ec). cbn [ctl fst]. rewrite Esc. simpl.
      eapply wp_mark_initialised_k; [eassumption | | rewrite (lks_frame _ _ F); exact El | intros ?s ?P ?W ?El ?Hl ?Ec].
      { rewrite (fr_scope _ _ F), (ctl_scope _ _ Ec). cbn [ctl fst]. rewrite Esc. discriminate. }
      eapply sres3_close_nb with (news := [(x, Some (k_scope (s_cur s0)))]);
        [ eapply post_eqH; [exact P2 | rewrite (nloc_cons _ _ _ El0); lia] | auto with ht | wkt
        | rewrite Ec0, (ctl_frame _ _ F), Ec; reflexivity | exact El0
        | constructor; [simpl; rewrite (fr_scope _ _ F), (ctl_scope _ _ Ec); reflexivity | constructor]
        | rewrite Hl0, (len_lks _ _ (lks_frame _ _ F)); exact Hl | first [intros HH; discriminate HH | intros _; reflexivity] ].
  - sstart4.
  - sstart4.
  - (* LSBlock *) sstart4.
    eapply wp_scoped4;
      [ kindt | match goal with IH : _ -> striple4 _ (cstmts _) |- _ => apply IH; assumption end | exact P0
      | apply SInv3_weak; rewrite app_nil_r; exact SI3
      | intros ?s X; exact X | intros s3 gb newb P3 W3 El3 Ec3 Hnb Hb HB ].
    rewrite app_nil_r in Hb.
    eapply sres3_close with (news := []) (newb := newb);
      [ eapply post_eqH; [exact P3 | symmetry; apply nloc_eq; exact El3] | exact W3 | exact Ec3 | exact Hnb
      | exact El3 | constructor | rewrite (len_lks _ _ El3); exact Hlen | exact Hb | exact HB | auto ].
  - (* LSIf *) sstart4. useX. jif. op0.
    pose proof (po_fr _ _ _ _ _ _ P2) as F01. pose proof (po_gr _ _ _ _ _ _ P2) as G01.
    pose proof (nloc_eq _ _ (lks_frame _ _ F01)) as En.
    apply (post_eqH _ _ _ _ _ _ (nloc (s_cur ss))) in P2; [|lia].
    pose proof (SInv3_post _ _ _ _ _ SI3 P2) as SI3k.
    eapply wp_scoped4;
      [ kindt | match goal with IH : _ -> striple4 _ (cstmts _) |- _ => apply IH; assumption end
      | eapply post_eqH; [exact P2 | lia] | apply SInv3_weak; exact SI3k
      | intros ?s X; apply wp_bind; exact X | intros s3 gb newb P3 W3 El3 Ec3 Hnb Hb HB ].
    cbv beta.
    assert (Har3 : (k_arity (s_cur s3) <= nloc (s_cur ss))%N)
      by (rewrite (wk_arity _ _ W3), (fr_arity _ _ F01); exact Har).
    jmp (nloc (s_cur ss) + 1)%N. patch. op0. patch.
    match goal with Pe : post (s_cur s3) _ _ (s_cur ?se) _ _ |- sres3 _ _ _ (s_cur ?se) =>
      pose proof (po_fr _ _ _ _ _ _ Pe) as F3e; pose proof (po_gr _ _ _ _ _ _ Pe) as G3e;
      assert (Else : lks (s_cur se) = lks (s_cur ss))
        by (rewrite (lks_frame _ _ F3e), El3, (lks_frame _ _ F01); reflexivity);
      rewrite (lexit_same _ _ (fr_loops _ _ F01) (lks_frame _ _ F01)) in HB;
      eapply sres3_close with (news := []) (newb := newb);
      [ eapply post_eqH; [exact Pe | rewrite (nloc_eq _ _ Else); lia]
      | eapply wk_trans; [apply wk_of_frame; eauto|]; eapply wk_trans; [exact W3 | apply wk_of_frame; auto]
      | rewrite (ctl_frame _ _ F3e), Ec3, (fr_scope _ _ F01), (fr_loops _ _ F01), (fr_breaks _ _ F01); reflexivity
      | rewrite <- (fr_breaks _ _ F01); exact Hnb
      | exact Else | constructor | rewrite (len_lks _ _ Else); exact Hlen
      | rewrite Hb; f_equal; hnorm; f_equal; flnorm
      | bhs | auto ]
    end.
  - (* LSIfElse *) sstart4. useX. jif. op0.
    pose proof (po_fr _ _ _ _ _ _ P2) as F01. pose proof (po_gr _ _ _ _ _ _ P2) as G01.
    pose proof (nloc_eq _ _ (lks_frame _ _ F01)) as En.
    apply (post_eqH _ _ _ _ _ _ (nloc (s_cur ss))) in P2; [|lia].
    pose proof (SInv3_post _ _ _ _ _ SI3 P2) as SI3k.
    eapply wp_scoped4;
      [ kindt | match goal with IH : _ -> striple4 _ (cstmts _) |- _ => apply IH; assumption end
      | eapply post_eqH; [exact P2 | lia] | apply SInv3_weak; exact SI3k
      | intros ?s X; apply wp_bind; exact X | intros s3 gb newb P3 W3 El3 Ec3 Hnb Hb HB ].
    cbv beta.
    assert (Har3 : (k_arity (s_cur s3) <= nloc (s_cur ss))%N)
      by (rewrite (wk_arity _ _ W3), (fr_arity _ _ F01); exact Har).
    jmp (nloc (s_cur ss) + 1)%N. patch. op0.
    pose proof (po_fr _ _ _ _ _ _ P6) as F35. pose proof (po_gr _ _ _ _ _ _ P6) as G35.
    assert (Els5 : lks (s_cur s5) = lks (s_cur ss))
      by (rewrite (lks_frame _ _ F35), El3, (lks_frame _ _ F01); reflexivity).
    assert (Ecs5 : ctl (s_cur s5) = (k_scope (s_cur ss), k_loops (s_cur ss), pushb newb (k_breaks (s_cur ss))))
      by (rewrite (ctl_frame _ _ F35), Ec3, (fr_scope _ _ F01), (fr_loops _ _ F01), (fr_breaks _ _ F01); reflexivity).
    assert (W5 : wk (s_cur ss) (s_cur s5)).
    { eapply wk_trans; [apply wk_of_frame; eauto|]. eapply wk_trans; [exact W3|]. apply wk_of_frame; auto. }
    pose proof (nloc_eq _ _ Els5) as En5.
    apply (post_eqH _ _ _ _ _ _ (nloc (s_cur s5))) in P6; [|lia].
    pose proof (SInv3_rebased _ _ _ _ _ _ _ SI3 P6 Els5 Ecs5 W5) as SI5.
    destruct (ctl3 _ _ _ _ Ecs5) as (Es5 & Elo5 & Eb5).
    bnd. eapply wp_stmt_use4 with (b := nodecl8 e);
      [ kindt | match goal with IH : _ -> striple4 _ (cstmt _) |- _ => apply IH; assumption end
      | exact P6 | exact SI5
      | intros s6 g2 news2 nb2 P7 W6 Ec6 Hnb6 El6 Hn6 Hb6 HB6 Hnd6 SI6 Elx6 ].
    match goal with Hnd : nodecl8 _ = true |- _ => rewrite (Hnd6 Hnd) in El6 end. simpl in El6.
    assert (Els6 : lks (s_cur s6) = lks (s_cur ss)) by (rewrite El6; exact Els5).
    pose proof (nloc_eq _ _ Els6) as En6.
    patch.
    match goal with Pe : post (s_cur s6) _ _ (s_cur ?se) _ _ |- sres3 _ _ _ (s_cur ?se) =>
      pose proof (po_fr _ _ _ _ _ _ Pe) as F6e; pose proof (po_gr _ _ _ _ _ _ Pe) as G6e;
      assert (Else : lks (s_cur se) = lks (s_cur ss)) by (rewrite (lks_frame _ _ F6e); exact Els6);
      rewrite (lexit_same _ _ (fr_loops _ _ F01) (lks_frame _ _ F01)) in HB;
      rewrite (lexit_same _ _ Elo5 Els5) in HB6;
      eapply sres3_close with (news := []) (newb := nb2 ++ newb);
      [ eapply post_eqH; [exact Pe | rewrite (nloc_eq _ _ Else); lia]
      | eapply wk_trans; [exact W5|]; eapply wk_trans; [exact W6 | apply wk_of_frame; auto]
      | rewrite (ctl_frame _ _ F6e), Ec6, Es5, Elo5, Eb5, pushb_pushb; reflexivity
      | intros Hnil; rewrite (fr_breaks _ _ F01) in Hnb; rewrite (Hnb Hnil) in *;
        rewrite Hnil in Eb5; simpl in Eb5; rewrite (Hnb6 Eb5); reflexivity
      | exact Else | constructor | rewrite (len_lks _ _ Else); exact Hlen
      | rewrite Hb6, Hb, <- rev_app_distr; f_equal; hnorm; f_equal; f_equal; flnorm
      | bhs | auto ]
    end.
  - (* LSWhile *) sstart4.
    bnd. eapply wp_push_loop; [exact P0 | intros s1 P1 W1 El1 Ec1].
    bnd. apply wp_code_len. rewrite (ci_code _ _ _ (po_inv _ _ _ _ _ _ P1)). fold (flen (gg ++ [])).
    assert (Elk1 : lks (s_cur s1) = lks (s_cur ss)) by (unfold lks; rewrite El1; reflexivity).
    assert (Hlb1 : lb (s_cur s1) (nloc (s_cur ss))) by (intros y i; rewrite El1; apply Hlb).
    assert (Har1 : (k_arity (s_cur s1) <= nloc (s_cur ss))%N) by (rewrite (wk_arity _ _ W1); exact Har).
    useX. jif. op0.
    pose proof (po_fr _ _ _ _ _ _ P3) as F12. pose proof (po_gr _ _ _ _ _ _ P3) as G12.
    assert (Els2 : lks (s_cur s2) = lks (s_cur ss)) by (rewrite (lks_frame _ _ F12); exact Elk1).
    pose proof (nloc_eq _ _ Els2) as En2.
    assert (W2 : wk (s_cur ss) (s_cur s2)) by (eapply wk_trans; [exact W1 | apply wk_of_frame; auto]).
    apply (post_eqH _ _ _ _ _ _ (nloc (s_cur s2))) in P3; [|lia].
    assert (Ec2 : ctl (s_cur s2) = ctl (s_cur s1)) by (apply ctl_frame; exact F12).
    destruct (ctl3 _ _ _ _ Ec1) as (Es1 & Elo1 & Eb1).
    destruct (ctl3 _ _ _ _ (eq_trans Ec2 Ec1)) as (Es2 & Elo2 & Eb2).
    assert (Elx2 : lexit (s_cur s2) = nloc (s_cur ss)).
    { unfold lexit. rewrite Elo2, Els2, (npop_init _ _ (si_init _ SI)), nloc_lks. f_equal. lia. }
    assert (SI3k : SInv3 false (s_cur s2) (gg ++ (([] ++ g) ++ [mkG OpJumpIfFalse 65535 0 [] (nloc (s_cur ss) + 1)%N true])
                                              ++ [mkG OpPop 0 0 [] (nloc (s_cur ss) + 1)%N false])).
    { constructor.
      - eapply SInv_same; [exact SI | exact Els2 | exact Es2 | exact W2].
      - rewrite (wk_tryd _ _ W2). apply (s3_tryd _ _ _ SI3).
      - rewrite Elo2, Eb2. simpl. f_equal. apply (s3_len _ _ _ SI3).
      - unfold LoopI. rewrite Elo2, Es2, Elx2, (wk_arity _ _ W2).
        split; [lia|]. split; [exact Har|].
        rewrite (ci_code _ _ _ HI). fold (flen gg). split; [rewrite flen_app; lia|].
        apply (po_ext _ _ _ _ _ _ P3). apply hat_end. }
    eapply wp_scoped4;
      [ kindt | match goal with IH : _ -> striple4 _ (cstmts _) |- _ => apply IH; assumption end
      | exact P3 | exact SI3k
      | intros ?s X; apply wp_bind; exact X | intros s3 gb newb P4 W3 El3 Ec3 Hnb Hb HB ].
    cbv beta.
    assert (Har3 : (k_arity (s_cur s3) <= nloc (s_cur ss))%N)
      by (rewrite (wk_arity _ _ W3), (wk_arity _ _ W2); exact Har).
    apply (post_eqH _ _ _ _ _ _ (nloc (s_cur ss))) in P4; [|exact En2].
    bnd. eapply wp_emit_loop with (H' := (nloc (s_cur ss) + 1)%N);
      [ exact P4 | rewrite !flen_app; lia
      | apply (po_ext _ _ _ _ _ _ P4); rewrite app_nil_r; apply hat_end | lia
      | intros ?s (?gi & ?P & ?Hgi) ?G ?F ].
    patch. op0.
    pose proof (po_fr _ _ _ _ _ _ P7) as F36. pose proof (po_gr _ _ _ _ _ _ P7) as G36.
    destruct (ctl3 _ _ _ _ Ec3) as (Es3 & Elo3 & Eb3).
    apply (post_eqH _ _ _ _ _ _ (nloc (s_cur ss))) in P7; [|lia].
    rewrite Elx2 in HB.
    assert (Els6 : lks (s_cur s6) = lks (s_cur ss)) by (rewrite (lks_frame _ _ F36), El3; exact Els2).
    match type of P7 with post _ _ _ _ ?GW _ =>
      eapply wp_pop_loop with (ga := []) (gW := GW) (lps := k_loops (s_cur ss)) (b := newb ++ [])
                              (bks := k_breaks (s_cur ss));
      [ exact P7
      | rewrite (fr_loops _ _ F36), Elo3, Elo2; reflexivity
      | rewrite (fr_breaks _ _ F36), Eb3, Eb2; reflexivity
      | rewrite app_nil_r, Hb; f_equal; hnorm; f_equal; flnorm
      | bhs
      | intros s7 gW' P8 N8 W8 El8 Ec8 ]
    end.
    assert (Els7 : lks (s_cur s7) = lks (s_cur ss)) by (rewrite El8; exact Els6).
    eapply sres3_close_nb with (news := []);
      [ eapply post_eqH; [exact P8 | symmetry; apply nloc_eq; exact Els7] | exact N8
      | eapply wk_trans; [exact W2|]; eapply wk_trans; [exact W3|];
        eapply wk_trans; [apply wk_of_frame; eauto | exact W8]
      | rewrite Ec8, (fr_scope _ _ F36), Es3, Es2; reflexivity
      | exact Els7 | constructor | rewrite (len_lks _ _ Els7); exact Hlen | auto ].
  - (* LSFor *) sstart4.
    bnd. eapply wp_begin_scope; [exact P0 | intros s1 P1 W1 El1 Ec1].
    assert (Elk1 : lks (s_cur s1) = lks (s_cur ss)) by (unfold lks; rewrite El1; reflexivity).
    bnd. eapply wp_declare_local_k;
      [ exact P1 | rewrite (ctl_scope _ _ Ec1); discriminate | rewrite El1; exact Hlen
      | intros s2 P2 W2 El2 Hlbx Hl2 Ec2 ].
    bnd. apply wp_cur.
    set (lv := length (k_locals (s_cur s2)) - 1) in *.
    assert (Hlv : lv = length (lks (s_cur ss))).
    { unfold lv. rewrite <- (map_length lkey). fold (lks (s_cur s2)). rewrite El2, Elk1. simpl. apply Nat.sub_0_r. }
    assert (Hlv' : N.of_nat lv = nloc (s_cur ss)) by (rewrite Hlv, nloc_lks; reflexivity).
    assert (Hlb2 : lb (s_cur s2) (nloc (s_cur ss))).
    { apply Hlbx. intros y i. rewrite El1. apply Hlb. }
    assert (Har2 : (k_arity (s_cur s2) <= nloc (s_cur ss))%N)
      by (rewrite (wk_arity _ _ W2), (wk_arity _ _ W1); exact Har).
    op0. useX.
    pose proof (po_fr _ _ _ _ _ _ P3) as F24. pose proof (po_gr _ _ _ _ _ _ P3) as G24.
    bnd. eapply wp_mark_slot_k with (x := x) (r := lks (s_cur ss));
      [ exact P3 | rewrite (lks_frame _ _ F24), El2, Elk1; reflexivity | exact Hlv
      | intros s5 P5 W5 El5 Hl5 Ec5 ].
    bnd. eapply wp_add_local_k;
      [ exact P5 | rewrite Hl5, (len_lks _ _ (lks_frame _ _ F24)); exact Hl2
      | apply wp_bind; apply wp_err | intros s6 P6 W6 El6 Hl6 Ec6 ].
    bnd. apply wp_ret.
    assert (Ec0' : ctl (s_cur s0) = (S (k_scope (s_cur ss)), k_loops (s_cur ss), k_breaks (s_cur ss)))
      by (rewrite (ctl_frame _ _ F24), Ec2; exact Ec1).
    assert (Ec6' : ctl (s_cur s6) = (S (k_scope (s_cur ss)), k_loops (s_cur ss), k_breaks (s_cur ss)))
      by (rewrite Ec6, Ec5; exact Ec0').
    rewrite (ctl_scope _ _ Ec0') in El5. cbn [fst] in El5.
    assert (W06 : wk (s_cur ss) (s_cur s6)).
    { eapply wk_trans; [exact W1|]. eapply wk_trans; [exact W2|]. eapply wk_trans; [apply wk_of_frame; eauto|].
      eapply wk_trans; [exact W5 | exact W6]. }
    assert (Har6 : (k_arity (s_cur s6) <= nloc (s_cur ss))%N) by (rewrite (wk_arity _ _ W06); exact Har).
    sline. ident. apply wp_assoc. bnd. op16_8.
    pose proof (po_fr _ _ _ _ _ _ P7) as F37. pose proof (po_gr _ _ _ _ _ _ P7) as G37.
    bnd. eapply wp_mark_initialised_k with (x := bs "... temp-iter-var ...")
                                          (r := (x, Some (S (k_scope (s_cur ss)))) :: lks (s_cur ss));
      [ exact P7 | rewrite (fr_scope _ _ F37), (ctl_scope _ _ Ec6'); discriminate
      | rewrite (lks_frame _ _ F37), El6, El5; reflexivity | intros s8 P8 W8 El8 Hl8 Ec8 ].
    rewrite (fr_scope _ _ F37), (ctl_scope _ _ Ec6') in El8. cbn [fst] in El8.
    assert (En8 : nloc (s_cur s8) = (nloc (s_cur ss) + 2)%N).
    { rewrite !nloc_lks, El8. cbn [length]. lia. }
    assert (Ec8' : ctl (s_cur s8) = (S (k_scope (s_cur ss)), k_loops (s_cur ss), k_breaks (s_cur ss)))
      by (rewrite Ec8, (ctl_frame _ _ F37); exact Ec6').
    assert (W08 : wk (s_cur ss) (s_cur s8)).
    { eapply wk_trans; [exact W06|]. eapply wk_trans; [apply wk_of_frame; eauto | exact W8]. }
    assert (Hl8' : length (k_locals (s_cur s8)) <= 256).
    { rewrite Hl8, (len_lks _ _ (lks_frame _ _ F37)). exact Hl6. }
    bnd. eapply wp_push_loop; [exact P8 | intros s9 P9 W9 El9 Ec9].
    bnd. apply wp_code_len. rewrite (ci_code _ _ _ (po_inv _ _ _ _ _ _ P9)).
    match type of P9 with post _ _ _ _ ?ga _ => set (GA := ga) in * end.
    assert (NHGA : noholes GA) by (unfold GA; auto 20 with ht).
    fold (flen (gg ++ GA)).
    assert (Har9 : (k_arity (s_cur s9) <= nloc (s_cur ss))%N)
      by (rewrite (wk_arity _ _ W9), (wk_arity _ _ W08); exact Har).
    assert (Hmod : (N.of_nat lv mod 256 <= nloc (s_cur ss))%N).
    { rewrite <- Hlv'. apply N.mod_le. lia. }
    op0. op8. jif. op0.
    pose proof (po_fr _ _ _ _ _ _ P13) as F913. pose proof (po_gr _ _ _ _ _ _ P13) as G913.
    assert (Els13 : lks (s_cur s13) = (bs "... temp-iter-var ...", Some (S (k_scope (s_cur ss))))
                                       :: (x, Some (S (k_scope (s_cur ss)))) :: lks (s_cur ss)).
    { rewrite (lks_frame _ _ F913). unfold lks. rewrite El9. exact El8. }
    assert (En13 : nloc (s_cur s13) = (nloc (s_cur ss) + 2)%N).
    { rewrite !nloc_lks, Els13. cbn [length]. lia. }
    assert (Esc13 : k_scope (s_cur s13) = S (k_scope (s_cur ss))).
    { rewrite (fr_scope _ _ F913), (ctl_scope _ _ Ec9). cbn [fst]. rewrite (ctl_scope _ _ Ec8'). reflexivity. }
    assert (W013 : wk (s_cur ss) (s_cur s13)).
    { eapply wk_trans; [exact W08|]. eapply wk_trans; [exact W9 | apply wk_of_frame; auto]. }
    assert (Hl13 : length (k_locals (s_cur s13)) <= 256).
    { rewrite (len_lks _ _ (lks_frame _ _ F913)), El9. exact Hl8'. }
    assert (SI13 : SInv (s_cur s13)).
    { constructor.
      - rewrite Els13, Esc13. constructor; [eexists; split; [reflexivity | lia]|].
        constructor; [eexists; split; [reflexivity | lia]|].
        eapply Forall_impl; [|apply (si_init _ SI)]. intros k Hk. eapply kinit_mono; eauto.
      - exact Hl13.
      - rewrite (wk_try _ _ W013). apply (si_try _ SI).
      - rewrite (wk_arity _ _ W013), En13. lia. }
    destruct (ctl3 _ _ _ _ Ec9) as (Es9 & Elo9 & Eb9).
    destruct (ctl3 _ _ _ _ Ec8') as (Es8 & Elo8 & Eb8).
    assert (Ec13 : ctl (s_cur s13) = ctl (s_cur s9)) by (apply ctl_frame; exact F913).
    destruct (ctl3 _ _ _ _ (eq_trans Ec13 Ec9)) as (Es13 & Elo13 & Eb13).
    assert (Elx13 : lexit (s_cur s13) = (nloc (s_cur ss) + 2)%N).
    { unfold lexit. rewrite Elo13, Els13, Es8. cbn [npop]. rewrite Nat.leb_refl, Nat.sub_0_r.
      cbn [length]. rewrite nloc_lks. lia. }
    apply (post_eqH _ _ _ _ _ _ (nloc (s_cur s13))) in P13; [|lia].
    match type of P13 with post _ _ _ _ ?ga _ => assert (SI3k : SInv3 false (s_cur s13) (gg ++ ga)) end.
    { constructor.
      - exact SI13.
      - rewrite (wk_tryd _ _ W013). apply (s3_tryd _ _ _ SI3).
      - rewrite Elo13, Eb13, Elo8, Eb8. simpl. f_equal. apply (s3_len _ _ _ SI3).
      - unfold LoopI. rewrite Elo13, Elx13, Esc13, (wk_arity _ _ W013), Es8.
        split; [lia|]. split; [lia|].
        rewrite (ci_code _ _ _ (po_inv _ _ _ _ _ _ P8)). fold (flen (gg ++ GA)).
        split; [rewrite <- ?app_assoc; rewrite !flen_app; lia|].
        rewrite <- ?app_assoc; rewrite (app_assoc gg GA); rewrite hat_app_ge by lia;
        rewrite Nat.sub_diag, hat_0; cbn [app hdh g_h]; f_equal; lia. }
    eapply wp_scoped4;
      [ kindt | match goal with IH : _ -> striple4 _ (cstmts _) |- _ => apply IH; assumption end
      | exact P13 | exact SI3k
      | intros ?s X; apply wp_bind; exact X | intros s14 gb newb P14 W14 El14 Ec14 Hnb Hb HB ].
    cbv beta.
    apply (post_eqH _ _ _ _ _ _ (nloc (s_cur ss) + 2)%N) in P14; [|exact En13].
    assert (Har14 : (k_arity (s_cur s14) <= nloc (s_cur ss))%N)
      by (rewrite (wk_arity _ _ W14), (wk_arity _ _ W013); exact Har).
    bnd. eapply wp_emit_loop with (H' := (nloc (s_cur ss) + 3)%N);
      [ exact P14 | rewrite <- ?app_assoc; rewrite !flen_app; lia
      | rewrite <- ?app_assoc; rewrite (app_assoc gg GA); rewrite hat_app_ge by lia;
        rewrite Nat.sub_diag, hat_0; cbn [app hdh g_h]; f_equal; lia
      | lia | intros ?s (?gi & ?P & ?Hgi) ?G ?F ].
    patch. op0.
    pose proof (po_fr _ _ _ _ _ _ P17) as F1417. pose proof (po_gr _ _ _ _ _ _ P17) as G1417.
    destruct (ctl3 _ _ _ _ Ec14) as (Es14 & Elo14 & Eb14).
    apply (post_eqH _ _ _ _ _ _ (nloc (s_cur ss) + 2)%N) in P17; [|lia].
    rewrite Elx13 in HB.
    assert (Els17 : lks (s_cur s17) = lks (s_cur s13)) by (rewrite (lks_frame _ _ F1417); exact El14).
    bnd.
    match type of P17 with post _ _ _ _ ?GW _ =>
      eapply wp_pop_loop with (ga := []) (gW := GW) (lps := k_loops (s_cur ss)) (b := newb ++ [])
                              (bks := k_breaks (s_cur ss));
      [ exact P17
      | rewrite (fr_loops _ _ F1417), Elo14, Elo13, Elo8; reflexivity
      | rewrite (fr_breaks _ _ F1417), Eb14, Eb13, Eb8; reflexivity
      | rewrite app_nil_r, Hb; f_equal; hnorm; f_equal; flnorm
      | bhs
      | intros s18 gW' P18 N18 W18 El18 Ec18 ]
    end.
    assert (Els18 : lks (s_cur s18) = [(bs "... temp-iter-var ...", Some (S (k_scope (s_cur ss))));
                                       (x, Some (S (k_scope (s_cur ss))))] ++ lks (s_cur ss)).
    { rewrite El18, Els17. exact Els13. }
    assert (En18 : nloc (s_cur s18) = (nloc (s_cur ss) + 2)%N).
    { rewrite !nloc_lks, Els18. cbn [length app]. lia. }
    assert (W018 : wk (s_cur ss) (s_cur s18)).
    { eapply wk_trans; [exact W013|]. eapply wk_trans; [exact W14|].
      eapply wk_trans; [apply wk_of_frame; eauto | exact W18]. }
    assert (Ec18' : ctl (s_cur s18) = (S (k_scope (s_cur ss)), k_loops (s_cur ss), k_breaks (s_cur ss))).
    { rewrite Ec18, (fr_scope _ _ F1417), Es14, Esc13. reflexivity. }
    eapply wp_end_scope with (d := k_scope (s_cur ss)) (old := lks (s_cur ss))
        (news := [(bs "... temp-iter-var ...", Some (S (k_scope (s_cur ss)))); (x, Some (S (k_scope (s_cur ss))))]);
      [ eapply post_eqH; [exact P18 | lia] | exact Els18 | rewrite (ctl_scope _ _ Ec18'); reflexivity
      | repeat constructor | apply (si_init _ SI)
      | rewrite (wk_arity _ _ W018), <- nloc_lks; exact Har
      | lia | intros s19 (gp & P19 & N19) W19 El19 Ec19 ].
    eapply sres3_close_nb with (news := []);
      [ eapply post_eqH; [exact P19 | rewrite (nloc_eq _ _ El19), nloc_lks; reflexivity] | auto 40 with ht
      | eapply wk_trans; [exact W018 | exact W19]
      | rewrite Ec19, (ctl_loops _ _ Ec18'), (ctl_breaks _ _ Ec18'); reflexivity
      | exact El19 | constructor | rewrite (len_lks _ _ El19); exact Hlen | auto ].
  - (* LSReturn *) sstart4.
    bnd. apply wp_cur. bnd. destruct (fk_eqb (k_kind (s_cur ss)) KScript); [apply wp_err|]. apply wp_ret.
    unfold emit_return. bnd. apply wp_cur.
    replace (fk_eqb (k_kind (s_cur ss)) KInitialiser) with false
      by (destruct (k_kind (s_cur ss)); try reflexivity; exfalso; apply Hk0; reflexivity).
    rewrite (si_try _ SI). simpl. op0. bnd. apply wp_ret.
    eapply wp_emit with (gi := mkG OpReturn 0 0 [] (nloc (s_cur ss) + 1)%N false) (H' := nloc (s_cur ss));
      [ apply emits_op | eassumption | simpl; lia | split; [simpl; lia | simpl; split; [reflexivity | lia]]
      | intros ? ?s ?P ?G ?F ?O ?Cl ].
    apply sres3_of_ext; [fin | exact Hlen].
  - (* LSReturnE *) sstart4.
    bnd. apply wp_cur. bnd. destruct (fk_eqb (k_kind (s_cur ss)) KScript); [apply wp_err|]. apply wp_ret.
    bnd. destruct (fk_eqb (k_kind (s_cur ss)) KInitialiser); [apply wp_err|]. apply wp_ret.
    useX. bnd. apply wp_cur. rewrite (fr_try _ _ F), (si_try _ SI). simpl. bnd. apply wp_ret.
    eapply wp_emit with (gi := mkG OpReturn 0 0 [] (nloc (s_cur ss) + 1)%N false) (H' := nloc (s_cur ss));
      [ apply emits_op | eassumption | reflexivity | split; [simpl; lia | simpl; split; [reflexivity | lia]]
      | intros ? ?s ?P ?G ?F ?O ?Cl ].
    apply sres3_of_ext; [fin | exact Hlen].
  - (* LSBreak *) intros l _. apply striple4_of3. exact (stmt_break l).
  - (* LSContinue *) intros l _. apply striple4_of3. exact (stmt_continue l).
  - (* LSThrow *) sstart4. useX.
    eapply wp_emit with (gi := mkG OpThrow 0 0 [] (nloc (s_cur ss) + 1)%N false) (H' := nloc (s_cur ss));
      [ apply emits_op | eassumption | reflexivity | split; [simpl; lia | simpl; split; [reflexivity | lia]]
      | intros ? ?s ?P ?G ?F ?O ?Cl ].
    apply sres3_of_ext; [fin | exact Hlen].
  - sstart4.
  - sstart4.
  - sstart4.
  - (* LSImport *) sstart4.
    bnd. destruct (bytes_eqb path (bs "main")); [apply wp_err|]. apply wp_ret.
    sline. ident. bnd.
    destruct (k_scope (s_cur s)) as [|d] eqn:Esc.
    + unfold declare_variable. bnd. apply wp_cur. rewrite (fr_scope _ _ F), Esc. simpl. apply wp_ret.
      op16. op0. ident. unfold define_variable. bnd. apply wp_cur.
      rewrite (fr_scope _ _ F2), (fr_scope _ _ F1), (fr_scope _ _ F0), (fr_scope _ _ F), Esc. simpl. op16.
      apply sres3_of_ext; [fin | exact Hlen].
    + eapply wp_declare_local_k;
        [ eassumption | rewrite (fr_scope _ _ F), Esc; discriminate
        | rewrite (len_lks _ _ (lks_frame _ _ F)); exact Hlen | intros s2 P2 W2 El2 Hlbx Hl2 Ec2 ].
      pose proof (wk_gr _ _ W2) as G2'.
      assert (Har2 : (k_arity (s_cur s2) <= nloc (s_cur s))%N) by (rewrite (wk_arity _ _ W2), (fr_arity _ _ F); exact Har).
      op16. op0. ident.
      pose proof (po_fr _ _ _ _ _ _ P4) as F24. pose proof (po_gr _ _ _ _ _ _ P4) as G24.
      assert (Es4 : k_scope (s_cur s4) = S d).
      { rewrite (fr_scope _ _ F24), (ctl_scope _ _ Ec2). cbn [ctl fst]. rewrite (fr_scope _ _ F). exact Esc. }
      unfold define_variable. apply wp_bind. apply wp_cur. rewrite Es4. simpl.
      eapply wp_mark_initialised_k with (x := alias) (r := lks (s_cur s0));
        [ exact P4 | rewrite Es4; discriminate | rewrite (lks_frame _ _ F24); exact El2
        | intros s5 P5 W5 El5 Hl5 Ec5 ].
      rewrite (lks_frame _ _ F) in El5.
      eapply sres3_close_nb with (news := [(alias, Some (k_scope (s_cur s4)))]);
        [ eapply post_eqH; [exact P5 | rewrite (nloc_cons _ _ _ El5); lia] | auto 20 with ht
        | eapply wk_trans; [apply wk_of_frame; eauto|]; eapply wk_trans; [exact W2|];
          eapply wk_trans; [apply wk_of_frame; eauto | exact W5]
        | rewrite Ec5, (ctl_frame _ _ F24), Ec2, (ctl_frame _ _ F); reflexivity
        | exact El5
        | constructor; [simpl; rewrite Es4, Esc; reflexivity | constructor]
        | rewrite Hl5, (len_lks _ _ (lks_frame _ _ F24)); exact Hl2
        | first [intros HH; discriminate HH | intros _; reflexivity] ].
  - (* LSNil *) sstart4. apply wp_ret. apply sres3_of_ext; [fin | exact Hlen].
  - (* LSCons *) sstart4.
    bnd. eapply wp_stmt_use4;
      [ kindt | match goal with IH : _ -> striple4 _ (cstmt _) |- _ => apply IH; assumption end | exact P0
      | rewrite app_nil_r; exact SI3
      | intros s1 g1 news1 nb1 P1 W1 Ec1 Hnb1 El1 Hn1 Hb1 HB1 _ SI1 Elx1 ].
    destruct (ctl3 _ _ _ _ Ec1) as (Es1 & Elo1 & Eb1).
    eapply wp_stmt_use4;
      [ kindt | match goal with IH : _ -> striple4 _ (cstmts _) |- _ => apply IH; assumption end | exact P1
      | exact SI1
      | intros s2 g2 news2 nb2 P2 W2 Ec2 Hnb2 El2 Hn2 Hb2 HB2 _ SI2 Elx2 ].
    eapply sres3_close with (news := news2 ++ news1) (newb := nb2 ++ nb1);
      [ exact P2 | eapply wk_trans; eauto
      | rewrite Ec2, Es1, Elo1, Eb1, pushb_pushb; reflexivity
      | intros Hnil; rewrite (Hnb1 Hnil) in *; rewrite Hnil in Eb1; simpl in Eb1; rewrite (Hnb2 Eb1); reflexivity
      | rewrite El2, El1, app_assoc; reflexivity
      | apply Forall_app; split; [rewrite Es1 in Hn2; exact Hn2 | exact Hn1]
      | apply (si_len _ (s3_base _ _ _ SI2))
      | rewrite hpos_app, rev_app_distr, Hb2, Hb1, app_nil_r; f_equal; f_equal; f_equal; flnorm
      | apply Forall_app; split; [exact HB1 | rewrite <- Elx1; exact HB2]
      | intros X; discriminate X ].
Qed.
Print Assumptions stmt_heights9.
Theorem frame_outerS :
  (forall e, fragE9 e = true -> fr2 (cexpr e)) /\
  (forall es, fragA9 es = true -> fr2 (cargs es)) /\
  (forall ps, fragP9 ps = true -> fr2 (cparts ps)) /\
  (forall kvs, fragK9 kvs = true -> fr2 (ckvs kvs)) /\
  (forall st, fragS9 st = true -> fr2 (cstmt st)) /\
  (forall l, fragSs9 l = true -> fr2 (cstmts l)) /\
  (forall ms : lmethods, True).
Proof.
  apply lsyntax_mutind; try (intros; exact I);
    repeat lazymatch goal with |- forall _, _ => intro end; simpl in * |-; andbs;
    repeat match goal with H : okE9 _ = true |- _ => apply okE9_spec in H; destruct H end;
    try discriminate; simpl; frt.
Qed.

Lemma stmts_heightsS l : fragSs9 l = true -> striple4 false (cstmts l).
Proof. exact (proj1 (proj2 (proj2 (proj2 (proj2 (proj2 stmt_heights9))))) l). Qed.

Lemma frame_outer_stmtsS l : fragSs9 l = true -> fr2 (cstmts l).
Proof. exact (proj1 (proj2 (proj2 (proj2 (proj2 (proj2 frame_outerS))))) l). Qed.

Lemma with_function_okKS kk fname ps lb body lend s u s' g H :
  fk_eqb kk KInitialiser = false -> kk <> KScript ->
  with_function kk fname ps lb (cstmts body) lend s = COk (u, s') ->
  s_outer s = [] -> fragSs9 body = true -> CInv (s_cur s) g H -> (H <= STACK_MAX)%N ->
  exists fu gi, fn_ok fu /\ g_op gi = OpClosure /\ g_hole gi = false /\
    CInv (s_cur s') (g ++ [gi]) (H + 1)%N /\ Lext (hat g H) (hat (g ++ [gi]) (H + 1)%N) /\
    k_consts (s_cur s') = k_consts (s_cur s) ++ [KFun fu] /\
    cframe (s_cur s) (s_cur s') /\ s_outer s' = [].
Proof.
  intros Hki Hks E Ho Hf HI Hm. unfold with_function in E.
  apply bind_inv in E. destruct E as ([] & s1 & E1 & E).
  apply bind_inv in E. destruct E as ([] & s2 & E2 & E).
  apply bind_inv in E. destruct E as ([] & s3 & E3 & E).
  apply bind_inv in E. destruct E as ([] & s3' & E3' & E).
  rewrite Hki in E3'. simpl in E3'. inversion E3'; subst s3'; clear E3'.
  apply bind_inv in E. destruct E as ([] & s4 & E4 & E).
  apply bind_inv in E. destruct E as ([fu us] & s6 & E6 & E).
  unfold new_compiler in E1. rewrite Ho in E1. inversion E1; subst s1; clear E1.
  unfold begin_scope, upd in E2. cbn [s_cur s_outer s_classes s_line] in E2. inversion E2; subst s2; clear E2.
  set (c2 := with_scope (new_comp kk fname) (S (k_scope (new_comp kk fname)))) in *.
  (* parameters *)
  assert (HP2 : PInvK kk c2 c2).
  { unfold c2. constructor; try reflexivity. apply cgrow_refl.
    - simpl. repeat constructor. exists 0. simpl. auto.
    - simpl. lia. }
  pose proof (cparams_specK kk c2 ps lb _ tt s3 E3 HP2) as HP3.
  pose proof (op_cparams ps lb _ tt s3 E3) as Ho3. simpl in Ho3.
  destruct HP3 as [Pc Pg Pk Pctl Pt Ptd Pi Pa Pl]. destruct (ctl3 _ _ _ _ Pctl) as (Es3 & Elo3 & Eb3).
  (* body *)
  assert (HI3 : CInv (s_cur s3) [] (nloc (s_cur s3))) by (apply CInv_nil; exact Pc).
  assert (SI3 : SInv3 true (s_cur s3) []).
  { constructor.
    - constructor; auto. rewrite Es3. exact Pi. rewrite Pa. lia.
    - exact Ptd.
    - rewrite Elo3, Eb3. reflexivity.
    - unfold LoopI. rewrite Elo3. exact I. }
  assert (Hk3 : k_kind (s_cur s3) <> KInitialiser) by (rewrite Pk; intros Z; rewrite Z in Hki; discriminate).
  pose proof (stmts_heightsS body Hf s3 [] HI3 SI3 Hk3 tt s4 E4) as R.
  destruct (SInv3_sres _ _ _ _ SI3 R) as (gx & SI4x & _).
  destruct R as (G & news & newb & (A1 & A2 & A3 & A4 & A5 & A6 & A7 & A8 & A9 & A10) & _).
  simpl app in A1, A2. rewrite (A5 Eb3) in A9.
  assert (NHG : noholes G).
  { eapply bh_nil_noholes; [exact A10|]. apply (f_equal (@rev nat)) in A9. rewrite rev_involutive in A9. symmetry. exact A9. }
  destruct (frame_outer_stmtsS body Hf s3 tt s4 (s_cur s) Ho3 E4) as (e' & Ho4 & Ce).
  (* implicit return, pop *)
  unfold finalise_compiler in E6. apply bind_inv in E6. destruct E6 as ([] & s5 & E5 & E6).
  assert (Hk4 : fk_eqb (k_kind (s_cur s4)) KInitialiser = false) by (rewrite (wk_kind _ _ A3), Pk; exact Hki).
  assert (Ht4 : k_in_try (s_cur s4) = false) by (rewrite (wk_try _ _ A3); exact Pt).
  assert (Hl4 : length (k_locals (s_cur s4)) <= 256) by exact A8.
  assert (Hm4 : (nloc (s_cur s4) + 1 <= STACK_MAX)%N) by (pose proof stack_300; unfold nloc; lia).
  pose proof (emit_return_k _ _ _ _ _ _ E5 A1 Hk4 Ht4 Hm4) as X.
  destruct (emit_return_constsK _ _ _ _ Hk4 Ht4 E5) as (Ec5 & Eu5 & Ea5 & En5).
  pose proof (op_emit_return lend s4 tt s5 E5) as Ho5. rewrite Ho4 in Ho5. rewrite Ho5 in E6.
  inversion E6; subst fu us s6; clear E6.
  set (R2 := [mkG OpNil 0 0 [] (nloc (s_cur s4)) false; mkG OpReturn 0 0 [] (nloc (s_cur s4) + 1)%N false]) in *.
  (* the function is fn_ok *)
  assert (Hfn : fn_ok (func_of_comp (s_cur s5))).
  { exists (G ++ R2). unfold func_of_comp. cbn [f_code f_consts f_upvalues f_arity].
    split. { intros Z. apply app_eq_nil in Z. destruct Z as [_ Z]. discriminate. }
    split; [apply (X 0%N)|]. split. { apply noholes_app; auto. repeat constructor. }
    split; [intros H'; apply (X H')|]. split.
    - pose proof (A2 0 (nloc (s_cur s3)) eq_refl) as Y.
      assert (Z : Lext (hat G (nloc (s_cur s4))) (hat (G ++ R2) 0%N)) by (apply Lext_app; reflexivity).
      apply Z in Y. rewrite hat_0 in Y. inversion Y as [Y1]. rewrite Y1, Ea5, (wk_arity _ _ A3), Pa. reflexivity.
    - intros i k Hk. rewrite Ec5 in Hk.
      apply (gr_nf _ _ (wk_gr _ _ A3)) in Hk. apply (gr_nf _ _ Pg) in Hk. unfold c2 in Hk. simpl in Hk.
      destruct i; discriminate. }
  (* the closure in the enclosing compiler *)
  set (s6 := mkS e' [] (s_classes s5) (s_line s5)) in *.
  assert (HI6 : CInv (s_cur s6) g H) by (eapply CInv_tweak; [apply Ce | exact HI]).
  assert (Hu : f_upvalues (func_of_comp (s_cur s5)) = N.of_nat (length (k_upvalues (s_cur s5)))) by reflexivity.
  destruct (emit_closure_post _ _ _ _ _ _ _ _ E HI6 Hm Hu) as (gi & B1 & B2 & B3 & B4 & B5 & B6 & B7).
  exists (func_of_comp (s_cur s5)), gi. split; [exact Hfn|]. split; [exact B1|]. split; [exact B2|].
  split; [exact B3|]. split; [exact B4|]. split.
  - rewrite B5. unfold s6. cbn [s_cur]. destruct Ce as ([] & _ & _). rewrite tw_consts. reflexivity.
  - split; [eapply cframe_trans; [apply ceq_cframe; exact Ce | exact B6] | exact B7].
Qed.

Lemma with_function_upsS kk fname ps lb body lend s u s' :
  with_function kk fname ps lb (cstmts body) lend s = COk (u, s') -> s_outer s = [] -> fragSs9 body = true ->
  k_upvalues (s_cur s') = k_upvalues (s_cur s).
Proof.
  intros E Ho Hf. unfold with_function in E.
  apply bind_inv in E. destruct E as ([] & s1 & E1 & E).
  apply bind_inv in E. destruct E as ([] & s2 & E2 & E).
  apply bind_inv in E. destruct E as ([] & s3 & E3 & E).
  apply bind_inv in E. destruct E as ([] & s3' & E3' & E).
  apply bind_inv in E. destruct E as ([] & s4 & E4 & E).
  apply bind_inv in E. destruct E as ([fu us] & s6 & E6 & E).
  unfold new_compiler in E1. rewrite Ho in E1. inversion E1; subst s1; clear E1.
  pose proof (op_begin_scope _ _ _ E2) as O2. simpl in O2.
  pose proof (op_cparams _ _ _ _ _ E3) as O3. rewrite O2 in O3.
  assert (O3' : s_outer s3' = [s_cur s]).
  { destruct (fk_eqb kk KInitialiser).
    - apply bind_inv in E3'. destruct E3' as (c & sx & Ea & Eb). inversion Ea; subst.
      rewrite (op_emit_op8 _ _ _ _ _ _ Eb). exact O3.
    - inversion E3'; subst. exact O3. }
  destruct (frame_outer_stmtsS body Hf s3' tt s4 (s_cur s) O3' E4) as (e' & Ho4 & Ce).
  unfold finalise_compiler in E6. apply bind_inv in E6. destruct E6 as ([] & s5 & E5 & E6).
  pose proof (op_emit_return _ _ _ _ E5) as Ho5. rewrite Ho4 in Ho5. rewrite Ho5 in E6.
  inversion E6; subst fu us s6; clear E6.
  rewrite (emit_closure_ups _ _ _ _ _ E). cbn [s_cur]. destruct Ce as ([] & _ & _). exact tw_ups.
Qed.

Theorem frame_outer0S :
  (forall e, fragE9 e = true -> fr0 (cexpr e)) /\
  (forall es, fragA9 es = true -> fr0 (cargs es)) /\
  (forall ps, fragP9 ps = true -> fr0 (cparts ps)) /\
  (forall kvs, fragK9 kvs = true -> fr0 (ckvs kvs)) /\
  (forall st, fragS9 st = true -> fr0 (cstmt st)) /\
  (forall l, fragSs9 l = true -> fr0 (cstmts l)) /\
  (forall ms : lmethods, True).
Proof.
  apply lsyntax_mutind; try (intros; exact I);
    repeat lazymatch goal with |- forall _, _ => intro end; simpl in * |-; andbs;
    repeat match goal with H : okE9 _ = true |- _ => apply okE9_spec in H; destruct H end;
    try discriminate; simpl; frt0.
Qed.

Lemma frame_outer0_stmtS st : fragS9 st = true -> fr0 (cstmt st).
Proof. exact (proj1 (proj2 (proj2 (proj2 (proj2 frame_outer0S)))) st). Qed.

Lemma stmt_heightsS_stmt st : fragS9 st = true -> striple4 (nodecl8 st) (cstmt st).
Proof. exact (proj1 (proj2 (proj2 (proj2 (proj2 stmt_heights9)))) st). Qed.

Lemma top_stmtS st s u s' g : fragS9 st = true -> cstmt st s = COk (u, s') -> TInv s g ->
  exists g', TInv s' (g ++ g').
Proof.
  intros Hf E [To Ti Ts Tsc Tl Tk Te Tf Tnh Tar].
  pose proof (frame_outer0_stmtS st Hf s u s' To E) as To'.
  revert u s' E To'. 
  change (wp (cstmt st) s (fun _ s' => s_outer s' = [] -> exists g', TInv s' (g ++ g'))).
  eapply wp_stmt_use4 with (g0 := g) (gacc := []);
    [ rewrite Tk; discriminate | apply stmt_heightsS_stmt; exact Hf | apply post_refl; exact Ti | rewrite app_nil_r; exact Ts
    | intros s' g' news newb P W Ec Hnb El Hn Hb HB _ SI' _ To' ].
  destruct (ctl3 _ _ _ _ Ec) as (Es & Elo & Eb). simpl app in *.
  exists g'. constructor; auto.
  - apply P.
  - rewrite Es. exact Tsc.
  - rewrite Elo. exact Tl.
  - rewrite (wk_kind _ _ W). exact Tk.
  - eapply Lext_trans; [exact Te | apply (po_ext _ _ _ _ _ _ P)].
  - intros i h Hk. apply (gr_nf _ _ (wk_gr _ _ W)) in Hk. eauto.
  - apply noholes_app; [exact Tnh|].
    assert (Eb0 : k_breaks (s_cur s) = []).
    { pose proof (s3_len _ _ _ Ts) as Ln. rewrite Tl in Ln. destruct (k_breaks (s_cur s)); [reflexivity|discriminate]. }
    rewrite (Hnb Eb0) in Hb. eapply bh_nil_noholes; [exact HB|].
    apply (f_equal (@rev nat)) in Hb. rewrite rev_involutive in Hb. symmetry. exact Hb.
  - rewrite (wk_arity _ _ W). exact Tar.
Qed.

Definition is_fn_declS (st : lstmt) : bool :=
  match st with LSFn _ _ body _ => fragSs9 body | _ => false end.

Lemma top_fnS st s u s' g : is_fn_declS st = true -> cstmt st s = COk (u, s') -> TInv s g ->
  exists g', TInv s' (g ++ g').
Proof.
  destruct st; simpl; try discriminate. intros Hf E [To Ti Ts Tsc Tl Tk Te Tf Tnh Tar].
  pose proof stack_300 as HSM. pose proof (si_len _ (s3_base _ _ _ Ts)) as Hlen.
  assert (Hn256 : (nloc (s_cur s) <= 256)%N) by (unfold nloc; lia).
  apply bind_inv in E. destruct E as (gc & s1 & E1 & E).
  apply bind_inv in E. destruct E as ([] & s2 & E2 & E).
  apply bind_inv in E. destruct E as ([] & s3 & E3 & E).
  (* parse_variable at scope 0 = identifier_constant *)
  unfold parse_variable, declare_variable, cbind, cur in E1. rewrite Tsc in E1. simpl in E1.
  rewrite ?Tsc in E1. simpl in E1. unfold identifier_constant in E1.
  apply make_constant_spec in E1; [|intros ? ?; discriminate].
  destruct E1 as ([Q1 Q2 Q3] & O1 & _ & L1 & d & Hd & Hlk).
  apply const_like_str in Hlk. destruct Hlk as [y ->].
  (* mark_initialised at scope 0 does nothing *)
  unfold mark_initialised, cbind, cur in E2. rewrite (fr_scope _ _ Q2), Tsc in E2. simpl in E2.
  inversion E2; subst s2; clear E2.
  assert (HI1 : CInv (s_cur s1) g (nloc (s_cur s))).
  { eapply CInv_grow; eauto. apply Q2. }
  destruct (with_function_okKS KFunction _ _ _ _ _ _ _ _ _ _ eq_refl ltac:(discriminate) E3 (eq_trans O1 To) Hf HI1 ltac:(lia))
    as (fu & gi & Hfn & B1 & B2 & B3 & B4 & B5 & B6 & B7).
  assert (F03 : cframe (s_cur s) (s_cur s3)) by (eapply cframe_trans; eauto).
  assert (Hsc3 : k_scope (s_cur s3) = 0) by (rewrite (fr_scope _ _ F03); exact Tsc).
  (* define_variable at scope 0 = DefineGlobal *)
  revert u s' E.
  change (wp (define_variable gc lend) s3 (fun _ s' => exists g', TInv s' (g ++ g'))).
  pose proof (post_refl _ _ _ B3) as P3.
  unfold define_variable. apply wp_bind. apply wp_cur. rewrite Hsc3. simpl.
  assert (K3 : kstr (s_cur s3) gc).
  { exists y. rewrite B5, nth_error_app1; auto. apply nth_error_Some. congruence. }
  eapply wp_simple with (o := OpDefineGlobal) (a := gc) (b := 0%N);
    [ apply emits_op16 | exact P3 | reflexivity | reflexivity | exact K3 | simpl; lia | lia
    | intros ? s4 P4 G4 F4 O4 Cl4 ].
  simpl in P4.
  assert (F04 : cframe (s_cur s) (s_cur s4)) by (eapply cframe_trans; eauto).
  pose proof (nloc_eq _ _ (lks_frame _ _ F04)) as En4.
  exists ([gi] ++ [mkG OpDefineGlobal gc 0 [] (nloc (s_cur s) + 1)%N false]).
  constructor.
  - rewrite O4. exact B7.
  - rewrite app_assoc, En4. eapply CInv_eqH'; [apply (po_inv _ _ _ _ _ _ P4) | lia].
  - eapply SInv3_cframe_top; eauto.
  - rewrite (fr_scope _ _ F04). exact Tsc.
  - rewrite (fr_loops _ _ F04). exact Tl.
  - rewrite (fr_kind _ _ F04). exact Tk.
  - rewrite app_assoc, En4. eapply Lext_trans; [exact Te|]. eapply Lext_trans; [exact B4|].
    eapply Lext_eqH'; [apply (po_ext _ _ _ _ _ _ P4) | lia].
  - intros i h Hk. destruct (gr_consts _ _ G4) as [more Em].
    pose proof (gr_nf _ _ G4 _ _ Hk) as Hk3. rewrite B5 in Hk3.
    destruct (Nat.lt_ge_cases i (length (k_consts (s_cur s1)))) as [Hlt|Hge].
    + rewrite nth_error_app1 in Hk3 by auto. apply (gr_nf _ _ Q3) in Hk3. eauto.
    + rewrite nth_error_app2 in Hk3 by lia. destruct (i - length (k_consts (s_cur s1))) as [|n0]; simpl in Hk3.
      * inversion Hk3; subst. exact Hfn.
      * destruct n0; discriminate.
  - apply noholes_app; [exact Tnh|]. constructor; [exact B2|]. repeat constructor.
  - rewrite (fr_arity _ _ F04). exact Tar.
Qed.

Definition meth_okS (kind : method_kind) (body : lstmts) : bool :=
  match kind with MInit => false | _ => fragSs9 body end.

Lemma method_okS c0 cM g0 H0 kind m ps lbrace body lend s cst s1 s2 u s' g H :
  meth_okS kind body = true -> (1 <= H)%N -> (H + 1 <= STACK_MAX)%N ->
  identifier_constant m s = COk (cst, s1) ->
  with_function (method_fk kind) m ps lbrace (cstmts body) lend s1 = COk (tt, s2) ->
  emit_op16 (match kind with MMethod => OpMethod | _ => OpStaticMethod end) cst lend s2 = COk (u, s') ->
  MInv c0 cM g0 H0 s g H -> exists g', MInv c0 cM g0 H0 s' (g ++ g') H.
Proof.
  intros Hm H1 HM E1 E2 E3 [Mo Mi Mf Me Mn Mh [mo Mp] Mu].
  assert (Hf : fragSs9 body = true) by (destruct kind; simpl in Hm; try discriminate; exact Hm).
  assert (Hki : fk_eqb (method_fk kind) KInitialiser = false) by (destruct kind; simpl in Hm; try discriminate; reflexivity).
  assert (Hks : method_fk kind <> KScript) by (destruct kind; discriminate).
  unfold identifier_constant in E1. apply make_constant_spec in E1; [|intros ? ?; discriminate].
  destruct E1 as ([Q1 Q2 Q3] & O1 & _ & L1 & d & Hd & Hlk).
  apply const_like_str in Hlk. destruct Hlk as [y ->].
  assert (HI1 : CInv (s_cur s1) g H) by (eapply CInv_grow; eauto; apply Q2).
  destruct (with_function_okKS _ _ _ _ _ _ _ _ _ _ _ Hki Hks E2 (eq_trans O1 Mo) Hf HI1 ltac:(lia))
    as (fu & gi & Hfn & B1 & B2 & B3 & B4 & B5 & B6 & B7).
  pose proof (with_function_upsS _ _ _ _ _ _ _ _ _ E2 (eq_trans O1 Mo) Hf) as U2.
  assert (K2 : kstr (s_cur s2) cst).
  { exists y. rewrite B5, nth_error_app1; auto. apply nth_error_Some. congruence. }
  revert u s' E3.
  change (wp (emit_op16 (match kind with MMethod => OpMethod | _ => OpStaticMethod end) cst lend) s2
             (fun _ s' => exists g', MInv c0 cM g0 H0 s' (g ++ g') H)).
  pose proof (post_refl _ _ _ B3) as P3.
  assert (Y : forall o s4, post (s_cur s2) (g ++ [gi]) (H + 1)%N (s_cur s4) [mkG o cst 0 [] (H + 1)%N false] H ->
              cgrow (s_cur s2) (s_cur s4) -> cframe (s_cur s2) (s_cur s4) -> s_outer s4 = s_outer s2 ->
              exists g', MInv c0 cM g0 H0 s4 (g ++ g') H).
  { intros o s4 P4 G4 F4 O4. exists ([gi] ++ [mkG o cst 0 [] (H + 1)%N false]).
    constructor.
    - rewrite O4. exact B7.
    - rewrite app_assoc. apply (po_inv _ _ _ _ _ _ P4).
    - eapply cframe_trans; [exact Mf|]. eapply cframe_trans; [exact Q2|]. eapply cframe_trans; [exact B6 | exact F4].
    - rewrite app_assoc. eapply Lext_trans; [exact Me|]. eapply Lext_trans; [exact B4|]. apply (po_ext _ _ _ _ _ _ P4).
    - intros i h Hk. pose proof (gr_nf _ _ G4 _ _ Hk) as Hk3. rewrite B5 in Hk3.
      destruct (Nat.lt_ge_cases i (length (k_consts (s_cur s1)))) as [Hlt|Hge].
      + rewrite nth_error_app1 in Hk3 by auto. apply (gr_nf _ _ Q3) in Hk3. eauto.
      + rewrite nth_error_app2 in Hk3 by lia. destruct (i - length (k_consts (s_cur s1))) as [|n0]; simpl in Hk3.
        * inversion Hk3; subst. exact Hfn.
        * destruct n0; discriminate.
    - apply noholes_app; [exact Mh|]. constructor; [exact B2|]. repeat constructor.
    - destruct (gr_consts _ _ G4) as [m4 E4]. destruct (gr_consts _ _ Q3) as [m1 Em1].
      eexists. rewrite E4, B5, Em1, Mp, <- !app_assoc. reflexivity.
    - pose proof (gr_ups _ _ G4). pose proof (gr_ups _ _ Q3). unfold nupN in *. rewrite U2 in *. lia. }
  destruct kind; try (simpl in Hm; discriminate Hm).
  all: match goal with |- wp (emit_op16 ?oo _ _) _ _ =>
         eapply wp_simple with (o := oo) (a := cst) (b := 0%N);
           [ apply emits_op16 | exact P3 | reflexivity | reflexivity | exact K2 | simpl; lia | lia
           | intros ? s4 P4 G4 F4 O4 Cl4 ] end.
  all: eapply Y; eauto; eapply post_eqH; [exact P4 | simpl; lia].
Qed.

Fixpoint meths_okS (ms : lmethods) : bool :=
  match ms with
  | LMNil => true
  | LMCons kind _ _ _ body _ r => meth_okS kind body && meths_okS r
  end.

Lemma cmethods_okS c0 cM g0 H0 ms : meths_okS ms = true -> forall s u s' g H,
  (1 <= H)%N -> (H + 1 <= STACK_MAX)%N -> cmethods ms s = COk (u, s') -> MInv c0 cM g0 H0 s g H ->
  exists g', MInv c0 cM g0 H0 s' (g ++ g') H.
Proof.
  induction ms as [|kind m ps lbrace body lend r IH]; simpl; intros Hok s u s' g H H1 HM E M.
  - inversion E; subst. exists []. rewrite app_nil_r. exact M.
  - apply andb_prop in Hok. destruct Hok as [Hk Hr].
    apply bind_inv in E. destruct E as (cst & s1 & E1 & E).
    apply bind_inv in E. destruct E as ([] & s2 & E2 & E).
    apply bind_inv in E. destruct E as ([] & s3 & E3 & E).
    destruct (method_okS _ _ _ _ _ _ _ _ _ _ _ _ _ _ _ _ _ _ Hk H1 HM E1 E2 E3 M) as (g1 & M1).
    destruct (IH Hr _ _ _ _ _ H1 HM E M1) as (g2 & M2).
    exists (g1 ++ g2). rewrite app_assoc. exact M2.
Qed.

Definition is_class_declS (st : lstmt) : bool :=
  match st with
  | LSClass _ _ None None _ methods _ => meths_okS methods
  | _ => false
  end.

Lemma top_classS st s u s' g : is_class_declS st = true -> cstmt st s = COk (u, s') -> TInv s g ->
  exists g', TInv s' (g ++ g').
Proof.
  destruct st; simpl; try discriminate. destruct super; try discriminate. destruct ctor; try discriminate.
  intros Hf E [To Ti Ts Tsc Tl Tk Te Tf Tnh Tar].
  pose proof stack_300 as HSM. pose proof (s3_base _ _ _ Ts) as SI. pose proof (si_len _ SI) as Hlen.
  assert (Hn256 : (nloc (s_cur s) <= 256)%N) by (unfold nloc; lia).
  assert (Hn1 : (1 <= nloc (s_cur s))%N) by (pose proof (si_ar _ SI); lia).
  pose proof (si_init _ SI) as Hinit. rewrite Tsc in Hinit.
  revert u s' E.
  match goal with |- forall u s', ?m s = _ -> _ => change (wp m s (fun _ s' => exists g', TInv s' (g ++ g'))) end.
  pose proof (post_refl _ _ _ Ti) as P0.
  bnd. apply wp_set_line. intros sa Ea Oa Ca.
  rewrite <- Ea in P0, Hn256, Hn1, Hinit, Tsc, Tl, Tk, Tar, Tf, SI, Ts, Ti, Te, Hlen.
  assert (To_a : s_outer sa = []) by (rewrite Oa; exact To).
  assert (Har0 : (k_arity (s_cur sa) <= nloc (s_cur sa))%N) by (rewrite Tar; exact Hn1).
  ident.
  bnd. unfold declare_variable. bnd. apply wp_cur. rewrite (fr_scope _ _ F), Tsc. simpl. apply wp_ret.
  op16. unfold define_variable. bnd. bnd. apply wp_cur. rewrite (fr_scope _ _ F0), (fr_scope _ _ F), Tsc. simpl.
  op16.
  bnd. apply wp_cget. bnd. apply wp_set_classes. intros sb Eb Ob.
  rewrite <- Eb in *.
  bnd. apply wp_ret.
  assert (To_b : s_outer sb = []) by (rewrite Ob, O1, O0, O; exact To_a).
  pose proof (po_fr _ _ _ _ _ _ P2) as Fab. pose proof (po_gr _ _ _ _ _ _ P2) as Gab.
  pose proof (nloc_eq _ _ (lks_frame _ _ Fab)) as Enb.
  apply (post_eqH _ _ _ _ _ _ (nloc (s_cur sa))) in P2; [|lia].
  bnd. eapply wp_with_outer0; [apply fr0_resolve_variable | exact To_b |].
  eapply wp_resolve_variable with (Hb := nloc (s_cur sa));
    [ exact P2 | rewrite <- Enb; apply lb_full | intros [[gop sop] arg] s6 P6 G6 F6 V6 To6 ].
  simpl.
  bnd. eapply wp_with_outer0; [apply fr0_named_get | exact To6 |].
  eapply wp_named_get with (Hb := nloc (s_cur sa));
    [ exact P6 | rewrite <- (nloc_eq _ _ (lks_frame _ _ (po_fr _ _ _ _ _ _ P6))); apply lb_full | lia | lia
    | intros s7 (g7 & P7 & N7) G7 F7 To7 ].
  bnd. apply wp_ret.
  bnd. intros u8 s8 E8.
  match type of P7 with post _ _ _ _ ?ga _ =>
    assert (M7 : MInv (s_cur sa) (s_cur s6) g (nloc (s_cur sa)) s7 (g ++ ga) (nloc (s_cur sa) + 1)%N) end.
  { constructor.
    - exact To7.
    - apply P7.
    - apply P7.
    - apply P7.
    - intros j h Hk. apply (gr_nf _ _ (po_gr _ _ _ _ _ _ P7)) in Hk. eauto.
    - apply noholes_app; [exact Tnh | auto 20 with ht].
    - apply (gr_consts _ _ G7).
    - apply (gr_ups _ _ G7). }
  assert (X1 : (1 <= nloc (s_cur sa) + 1)%N) by lia.
  assert (X2 : (nloc (s_cur sa) + 1 + 1 <= STACK_MAX)%N) by lia.
  destruct (cmethods_okS _ _ _ _ methods Hf _ _ _ _ _ X1 X2 E8 M7) as (g8 & M8).
  pose proof (post_refl _ _ _ (m_inv _ _ _ _ _ _ _ M8)) as P8.
  pose proof (m_fr _ _ _ _ _ _ _ M8) as Fa8.
  assert (Har8 : (k_arity (s_cur s8) <= nloc (s_cur sa))%N) by (rewrite (fr_arity _ _ Fa8), Tar; exact Hn1).
  op0.
  bnd. eapply wp_with_op; [apply op_emit_variable_op|].
  eapply wp_var_set with (Hb := nloc (s_cur sa));
    [ eassumption
    | eapply var_ok_grow; [eapply var_ok_ext; [exact V6 | apply (m_pre _ _ _ _ _ _ _ M8) | apply (m_ups _ _ _ _ _ _ _ M8)] | eassumption]
    | lia | lia | lia | intros s10 (g10 & P10 & N10) G10 F10 O10 ].
  op0.
  pose proof (po_fr _ _ _ _ _ _ P4) as F84. pose proof (po_gr _ _ _ _ _ _ P4) as G84.
  assert (To4 : s_outer s4 = []).
  { repeat match goal with H : s_outer ?a = s_outer ?b |- s_outer ?a = [] => rewrite H end.
    exact (m_outer _ _ _ _ _ _ _ M8). }
  assert (Fa4 : cframe (s_cur sa) (s_cur s4)) by (eapply cframe_trans; eauto).
  apply (post_eqH _ _ _ _ _ _ (nloc (s_cur sa))) in P4; [|simpl; lia].
  apply post_reframe in P4.
  match type of P4 with post _ ?G8 ?H8 _ ?ga _ =>
    assert (Fin : forall sx, post (s_cur sx) G8 H8 (s_cur sx) ga (nloc (s_cur sa)) -> cframe (s_cur s4) (s_cur sx) ->
                  cgrow (s_cur s4) (s_cur sx) -> s_outer sx = [] ->
                  wp (s9 <- cget;; set_classes (tl (s_classes s9))) sx
                     (fun _ s' => exists g', TInv s' (g ++ g'))) end.
  { intros sx Px Fx Gx Ox. apply wp_bind. apply wp_cget. apply wp_set_classes. intros sf Ef Of.
    assert (Fax : cframe (s_cur sa) (s_cur sx)) by (eapply cframe_trans; eauto).
    pose proof (nloc_eq _ _ (lks_frame _ _ Fax)) as Enx.
    pose proof (po_inv _ _ _ _ _ _ Px) as X. rewrite <- !app_assoc in X.
    pose proof (po_ext _ _ _ _ _ _ Px) as Xe. rewrite <- !app_assoc in Xe.
    pose proof (m_ext _ _ _ _ _ _ _ M8) as Me. rewrite <- !app_assoc in Me.
    pose proof (m_nh _ _ _ _ _ _ _ M8) as Mh. rewrite <- !app_assoc in Mh.
    match type of X with CInv _ (g ++ ?gg) _ => exists gg end.
    constructor.
    - rewrite Of. exact Ox.
    - rewrite Ef, Enx. exact X.
    - rewrite Ef. eapply SInv3_cframe_top; eauto.
    - rewrite Ef, (fr_scope _ _ Fax). exact Tsc.
    - rewrite Ef, (fr_loops _ _ Fax). exact Tl.
    - rewrite Ef, (fr_kind _ _ Fax). exact Tk.
    - rewrite Ef, Enx. eapply Lext_trans; [exact Te|]. eapply Lext_trans; [exact Me | exact Xe].
    - rewrite Ef. intros j h Hk. apply (gr_nf _ _ Gx) in Hk. apply (gr_nf _ _ G84) in Hk.
      exact (m_fn _ _ _ _ _ _ _ M8 _ _ Hk).
    - unfold noholes in *. repeat rewrite Forall_app in Mh. repeat rewrite Forall_app. decompose [and] Mh.
      repeat split; auto; repeat constructor; auto.
    - rewrite Ef, (fr_arity _ _ Fax). exact Tar. }
  bnd. apply wp_cget. bnd.
  destruct (s_classes s4) as [|[|] ?].
  - apply wp_ret. apply Fin; auto using cframe_refl, cgrow_refl.
  - eapply wp_with_op; [apply op_end_scope|].
    eapply wp_end_scope_top;
      [ exact P4 | rewrite (fr_scope _ _ Fa4); exact Tsc | rewrite (lks_frame _ _ Fa4); exact Hinit
      | intros s12 P12 Tw12 El12 Ec12 O12 ].
    apply Fin; auto.
    + apply tweak_cframe; auto.
    + apply (wk_gr _ _ (wk_of_tweak _ _ Tw12)).
    + rewrite O12. exact To4.
  - apply wp_ret. apply Fin; auto using cframe_refl, cgrow_refl.
Qed.

Definition topfragS (st : lstmt) : bool := fragS9 st || is_fn_declS st || is_class_declS st.
Fixpoint topfragsS (l : lstmts) : bool :=
  match l with LSNil => true | LSCons s r => topfragS s && topfragsS r end.

Lemma top_seqS l : topfragsS l = true -> forall s u s' g, cstmts l s = COk (u, s') -> TInv s g ->
  exists g', TInv s' (g ++ g').
Proof.
  induction l as [|st r IH]; simpl; intros Hf s u s' g E T.
  - inversion E; subst. exists []. rewrite app_nil_r. exact T.
  - apply andb_prop in Hf. destruct Hf as [H1 H2]. apply bind_inv in E. destruct E as ([] & s1 & E1 & E2).
    assert (X : exists g1, TInv s1 (g ++ g1)).
    { unfold topfragS in H1. apply orb_prop in H1. destruct H1 as [H1|H1]; [apply orb_prop in H1; destruct H1 as [H1|H1]|].
      eapply top_stmtS; eauto. eapply top_fnS; eauto. eapply top_classS; eauto. }
    destruct X as (g1 & T1). destruct (IH H2 _ _ _ _ E2 T1) as (g2 & T2).
    exists (g1 ++ g2). rewrite app_assoc. exact T2.
Qed.

Lemma program_annS p f : topfragsS (fst p) = true -> compile_program p = COk f ->
  ann_ok f /\ (forall i h, nth_error (f_consts f) i = Some (KFun h) -> fn_ok h).
Proof.
  intros Hf Hc. unfold compile_program in Hc.
  destruct ((cstmts (fst p);;; finalise_compiler (snd p)) init_state) as [[[f' us] s']|] eqn:E; [|discriminate].
  inversion Hc; subst f'; clear Hc.
  apply bind_inv in E. destruct E as ([] & s1 & E1 & E).
  destruct (top_seqS _ Hf _ _ _ _ E1 TInv_init) as (G & [To Ti Ts Tsc Tl Tk Te Tf Tnh Tar]). simpl app in *.
  unfold finalise_compiler in E. apply bind_inv in E. destruct E as ([] & s2 & E2 & E).
  pose proof (si_len _ (s3_base _ _ _ Ts)) as Hlen. pose proof stack_300 as HSM.
  pose proof (si_try _ (s3_base _ _ _ Ts)) as Ht.
  assert (Hm : (nloc (s_cur s1) + 1 <= STACK_MAX)%N) by (unfold nloc; lia).
  pose proof (emit_return_gen _ _ _ _ _ _ E2 Ti Tk Ht Hm) as X.
  set (R2 := [mkG OpNil 0 0 [] (nloc (s_cur s1)) false; mkG OpReturn 0 0 [] (nloc (s_cur s1) + 1)%N false]) in *.
  assert (Ef : f = func_of_comp (s_cur s2)) by (destruct (s_outer s2); inversion E; reflexivity).
  assert (Ec : k_consts (s_cur s2) = k_consts (s_cur s1) /\ k_arity (s_cur s2) = k_arity (s_cur s1)).
  { unfold emit_return, cbind, cur in E2. rewrite Tk, Ht in E2. simpl in E2.
    unfold emit_op, emit_byte, cbind, upd, set_line in E2. inversion E2; subst. simpl. auto. }
  destruct Ec as [Ec Ea]. subst f. unfold func_of_comp. cbn [f_consts]. split.
  - exists (G ++ R2). cbn [f_code f_consts f_upvalues f_arity].
    split. { intros Z. apply app_eq_nil in Z. destruct Z as [_ Z]. discriminate. }
    split; [apply (X 0%N)|]. split.
    { apply noholes_app; [exact Tnh|repeat constructor]. }
    split; [intros H'; apply (X H')|].
    pose proof (Te 0 1%N eq_refl) as Y.
    assert (Z : Lext (hat G (nloc (s_cur s1))) (hat (G ++ R2) 0%N)) by (apply Lext_app; reflexivity).
    apply Z in Y. rewrite hat_0 in Y. inversion Y as [Y1]. rewrite Y1, Ea.
    rewrite Tar. reflexivity.
  - rewrite Ec. exact Tf.
Qed.

Theorem fullcompile_heights_functionsS p f :
  topfragsS (fst p) = true -> compile_program p = COk f -> noups f ->
  forall g P F, subfunc g f -> FullCompileWF2.models P F g ->
  forall s, reachable false P F s -> succs false P F s <> None.
Proof.
  intros Hf Hc Hnu g P F Hsub M.
  destruct (program_annS p f Hf Hc) as [Haf Hfn].
  pose proof (code_bytes_in_range p f g Hc Hsub) as Hb.
  inversion Hsub as [|? h ? Hin Hsub']; subst.
  - (* the script itself *)
    apply (ann_ok_safe P F f Haf Hb M). intros a fn Hk. apply Hnu.
    eapply sub_const; [eapply nth_error_In; exact Hk | apply sub_refl].
  - (* a declared function *)
    apply In_nth_error in Hin. destruct Hin as [i Hi]. pose proof (Hfn _ _ Hi) as Hok.
    pose proof (fn_ok_leaf _ _ Hok Hsub') as ->.
    apply (ann_ok_safe P F h (fn_ok_ann _ Hok) Hb M).
    intros a fn Hk. exfalso. destruct Hok as (G & _ & _ & _ & _ & _ & Hnf). eapply Hnf; eauto.
Qed.

Corollary fullcompile_functions_flattenS p f :
  topfragsS (fst p) = true -> compile_program p = COk f -> noups f ->
  forall g, subfunc g f ->
  exists F idx, nth_error (FullCompileWF2.flatten f) idx = Some F /\
    forall s, reachable false (FullCompileWF2.flatten f) F s -> succs false (FullCompileWF2.flatten f) F s <> None.
Proof.
  intros Hf Hc Hnu g Hsub. destruct (FullCompileWF2.flatten_models g f Hsub) as (F & idx & Hn & M).
  exists F, idx. split; auto. eapply fullcompile_heights_functionsS; eauto.
Qed.


(* HEADLINE 11: + the expression `self` (methods can use their receiver) *)
Definition wf_frag10 (p : lprogram) : bool := topfragsS (fst p).
Theorem fullcompile_verifies_fragment10 p f :
  wf_frag10 p = true -> compile_program p = COk f -> noupsb f = true ->
  forall g, subfunc g f ->
  exists F idx, nth_error (FullCompileWF2.flatten f) idx = Some F /\
    forall s, reachable false (FullCompileWF2.flatten f) F s -> succs false (FullCompileWF2.flatten f) F s <> None.
Proof.
  intros Hf Hc Hn. apply (fullcompile_functions_flattenS p f Hf Hc). apply noupsb_noups; exact Hn.
Qed.
Print Assumptions fullcompile_verifies_fragment10.

Definition ex_get_body : lstmts :=
  LSCons (LSIf (LGet (LSelf 3) (bs "x") 3) 3 (LSCons (LSReturnE (LGet (LSelf 3) (bs "x") 3) 3) LSNil) 3)
 (LSCons (LSExpr (LSet (LSelf 4) (bs "x") (LVar 4 (bs "a")) 4) 4)
 (LSCons (LSReturnE (LInvoke (LSelf 5) (bs "get") (LECons (LVar 5 (bs "a")) LENil) 5) 5) LSNil)).
Definition ex_prog11 : lprogram :=
  (LSCons (LSClass (bs "A") 1 None None 1
            (LMCons MMethod (bs "get") [bs "a"] 2 ex_get_body 6
            (LMCons MStatic (bs "make") [] 7 ex_sm_body 8 LMNil)) 9)
  (LSCons (LSVarInit (bs "o") (LCall (LVar 11 (bs "A")) LENil 11) 11)
  (LSCons (LSExpr (LInvoke (LVar 12 (bs "o")) (bs "get") (LECons (LTrue 12) LENil) 12) 12)
  LSNil)), 13%N).

Example ex_prog11_verified : exists f, compile_program ex_prog11 = COk f /\
  forall g, subfunc g f ->
  exists F idx, nth_error (FullCompileWF2.flatten f) idx = Some F /\
    forall s, reachable false (FullCompileWF2.flatten f) F s -> succs false (FullCompileWF2.flatten f) F s <> None.
Proof.
  eexists. split. vm_compute; reflexivity.
  apply (fullcompile_verifies_fragment10 ex_prog11); vm_compute; reflexivity.
Qed.
