(* FullCompileHt17: the constructor attribute (`initialiser`) of a class declaration. *)
From Coq Require Import Strings.Byte Strings.String.
From Coq Require Import List NArith ZArith Bool Arith Lia.
From Coq Require Import Floats.SpecFloat.
From YV Require Import Show Utf8 Num Ast Bytecode Skeleton VerifierProofs ParseLoc FullCompile FullCompileProofs.
From YV Require Import FullCompileFnA FullCompileFnB FullCompileFnC FullCompileFnD FullCompileFnE FullCompileFnF
                       FullCompileFnG FullCompileFnH FullCompileHt10 FullCompileHt11 FullCompileHt12 FullCompileHt13
                       FullCompileHt14 FullCompileHt15 FullCompileHt16.
From YV Require FullCompileWF2.
Import ListNotations.
Local Open Scope nat_scope.
Local Open Scope list_scope.
Local Open Scope comp_scope.

Lemma initialiser_ok c0 cM g0 H0 name l s u s' g H :
  (1 <= H)%N -> (H + 1 <= STACK_MAX)%N -> initialiser name l s = COk (u, s') ->
  MInv c0 cM g0 H0 s g H -> exists g', MInv c0 cM g0 H0 s' (g ++ g') H.
Proof.
  intros H1 HM E [Mo Mi Mf Me Mn Mh [mo Mp] Mu]. pose proof stack_300 as HSM.
  unfold initialiser in E.
  apply bind_inv in E. destruct E as ([] & sa & Ea & E).
  apply bind_inv in E. destruct E as (nc & s1 & E1 & E).
  apply bind_inv in E. destruct E as ([] & s2 & E2 & E).
  apply bind_inv in E. destruct E as ([] & s3 & E3 & E).
  apply bind_inv in E. destruct E as ([] & s4 & E4 & E).
  apply bind_inv in E. destruct E as ([fu us] & s6 & E6 & E).
  apply bind_inv in E. destruct E as (c & s7 & E7 & E).
  apply bind_inv in E. destruct E as ([] & s8 & E8 & E).
  unfold set_line in Ea. inversion Ea; subst sa; clear Ea. cbn [s_cur s_outer] in *.
  unfold identifier_constant in E1. apply make_constant_spec in E1; [|intros ? ?; discriminate].
  cbn [s_cur s_outer s_classes] in E1.
  destruct E1 as ([Q1 Q2 Q3] & O1 & _ & L1 & d & Hd & Hlk). cbn [s_cur s_outer] in *.
  apply const_like_str in Hlk. destruct Hlk as [y ->].
  assert (O1' : s_outer s1 = []) by (rewrite O1; exact Mo).
  unfold new_compiler in E2. rewrite O1' in E2. inversion E2; subst s2; clear E2.
  unfold begin_scope, upd in E3. cbn [s_cur s_outer s_classes s_line] in E3. inversion E3; subst s3; clear E3.
  set (c2 := with_scope (new_comp KInitialiser name) (S (k_scope (new_comp KInitialiser name)))) in *.
  set (s3 := mkS c2 [s_cur s1] (s_classes s1) (s_line s1)) in *.
  (* the body of the default constructor: Construct 0 *)
  set (gC := mkG OpConstruct 0 0 [] 1%N false).
  assert (HI3 : CInv (s_cur s3) [] 1%N) by (apply CInv_nil; reflexivity).
  assert (W : wp (emit_op8 OpConstruct 0%N l) s3
               (fun _ sx => post (s_cur s3) [] 1%N (s_cur sx) [gC] 1%N /\ s_outer sx = s_outer s3)).
  { eapply wp_simple with (o := OpConstruct) (a := 0%N) (b := 0%N);
      [ apply emits_op8 | apply post_refl; exact HI3 | reflexivity | reflexivity | exact I | simpl; lia | lia
      | intros ? sx Px Gx Fx Ox Cx ].
    split; [|exact Ox]. eapply post_eqH; [exact Px | simpl; lia]. }
  destruct (W tt s4 E4) as [P4 O4]. simpl in O4.
  assert (U4 : k_upvalues (s_cur s4) = []).
  { unfold emit_op8, emit_op, emit_byte, cbind, upd, set_line in E4. inversion E4; subst. reflexivity. }
  pose proof (po_fr _ _ _ _ _ _ P4) as F34. pose proof (po_gr _ _ _ _ _ _ P4) as G34.
  unfold finalise_compiler in E6. apply bind_inv in E6. destruct E6 as ([] & s5 & E5 & E6).
  assert (Hk4 : k_kind (s_cur s4) = KInitialiser) by (rewrite (fr_kind _ _ F34); reflexivity).
  assert (Ht4 : k_in_try (s_cur s4) = false) by (rewrite (fr_try _ _ F34); reflexivity).
  pose proof (emit_return_i _ _ _ _ _ _ E5 (po_inv _ _ _ _ _ _ P4) Hk4 Ht4 ltac:(lia) ltac:(lia)) as X.
  destruct (emit_return_constsI _ _ _ _ Hk4 Ht4 E5) as (Ec5 & Eu5 & Ea5 & En5).
  pose proof (op_emit_return l s4 tt s5 E5) as Ho5. rewrite O4 in Ho5. rewrite Ho5 in E6.
  inversion E6; subst fu us s6; clear E6.
  set (R2 := [mkG OpGetLocal 0 0 [] 1%N false; mkG OpReturn 0 0 [] (1 + 1)%N false]) in *.
  assert (Hfn : fn_ok (func_of_comp (s_cur s5))).
  { exists (([] ++ [gC]) ++ R2). unfold func_of_comp. cbn [f_code f_consts f_upvalues f_arity].
    split. { discriminate. }
    split; [apply (X 0%N)|]. split. { repeat constructor. }
    split; [intros H'; apply (X H')|]. split.
    - simpl. rewrite Ea5, (fr_arity _ _ F34). reflexivity.
    - intros i k Hk. rewrite Ec5 in Hk. apply (gr_nf _ _ G34) in Hk. simpl in Hk. destruct i; discriminate. }
  set (s6 := mkS (s_cur s1) [] (s_classes s5) (s_line s5)) in *.
  assert (HI6 : CInv (s_cur s6) g H) by (eapply CInv_grow; eauto; apply Q2).
  assert (Ecl : emit_closure (func_of_comp (s_cur s5), []) l s6 = COk (tt, s8)).
  { unfold emit_closure, cbind. cbn [fst snd]. rewrite Eu5, U4 in E7. cbn [fst] in E7. rewrite E7, E8. reflexivity. }
  assert (Hu : f_upvalues (func_of_comp (s_cur s5)) = N.of_nat (length (@nil (N * bool)))).
  { unfold func_of_comp. cbn [f_upvalues]. rewrite Eu5, U4. reflexivity. }
  destruct (emit_closure_post _ _ _ _ _ _ _ _ Ecl HI6 ltac:(lia) Hu) as (gi & B1 & B2 & B3 & B4 & B5 & B6 & B7).
  pose proof (emit_closure_ups _ _ _ _ _ Ecl) as U8. cbn [s_cur s6] in B3, B5, B6, U8, B7.
  assert (K8 : kstr (s_cur s8) nc).
  { exists y. rewrite B5. unfold s6. cbn [s_cur]. rewrite nth_error_app1; auto. apply nth_error_Some. congruence. }
  revert u s' E.
  change (wp (emit_op16 OpStaticMethod nc l) s8 (fun _ s' => exists g', MInv c0 cM g0 H0 s' (g ++ g') H)).
  pose proof (post_refl _ _ _ B3) as P8.
  eapply wp_simple with (o := OpStaticMethod) (a := nc) (b := 0%N);
    [ apply emits_op16 | exact P8 | reflexivity | reflexivity | exact K8 | simpl; lia | lia
    | intros ? s9 P9 G9 F9 O9 Cl9 ].
  apply (post_eqH _ _ _ _ _ _ H) in P9; [|simpl; lia].
  exists ([gi] ++ [mkG OpStaticMethod nc 0 [] (H + 1)%N false]).
  unfold s6 in B5, B6, B7. cbn [s_cur s_outer] in B5, B6, B7.
  constructor.
  - rewrite O9. exact B7.
  - rewrite app_assoc. apply (po_inv _ _ _ _ _ _ P9).
  - eapply cframe_trans; [exact Mf|]. eapply cframe_trans; [exact Q2|]. eapply cframe_trans; [exact B6 | exact F9].
  - rewrite app_assoc. eapply Lext_trans; [exact Me|]. eapply Lext_trans; [exact B4|]. apply (po_ext _ _ _ _ _ _ P9).
  - intros i h Hk. pose proof (gr_nf _ _ G9 _ _ Hk) as Hk3. rewrite B5 in Hk3.
    destruct (Nat.lt_ge_cases i (length (k_consts (s_cur s1)))) as [Hlt|Hge].
    + rewrite nth_error_app1 in Hk3 by auto. apply (gr_nf _ _ Q3) in Hk3. eauto.
    + rewrite nth_error_app2 in Hk3 by lia. destruct (i - length (k_consts (s_cur s1))) as [|n0]; simpl in Hk3.
      * inversion Hk3; subst. exact Hfn.
      * destruct n0; discriminate.
  - apply noholes_app; [exact Mh|]. constructor; [exact B2|]. repeat constructor.
  - destruct (gr_consts _ _ G9) as [m4 E4']. destruct (gr_consts _ _ Q3) as [m1 Em1].
    eexists. rewrite E4', B5, Em1, Mp, <- !app_assoc. reflexivity.
  - pose proof (gr_ups _ _ G9). pose proof (gr_ups _ _ Q3). unfold nupN in *. unfold s6 in U8. cbn [s_cur] in U8.
    rewrite U8 in *. lia.
Qed.

Definition is_class_declB (st : lstmt) : bool :=
  match st with
  | LSClass _ _ None _ _ methods _ => meths_okA methods
  | _ => false
  end.

Lemma top_classB st s u s' g : is_class_declB st = true -> cstmt st s = COk (u, s') -> TInv s g ->
  exists g', TInv s' (g ++ g').
Proof.
  destruct st; simpl; try discriminate. destruct super; try discriminate.
  intros Hf E [To Ti Ts Tsc Tl Tk Te Tf Tnh Tar].
  pose proof stack_300 as HSM. pose proof (s3_base _ _ _ Ts) as SI. pose proof (si_len _ SI) as Hlen.
  assert (Hn256 : (nloc (s_cur s) <= 256)%N) by (unfold nloc; lia).
  assert (Hn1 : (1 <= nloc (s_cur s))%N) by (pose proof (si_ar _ SI); lia).
  pose proof (si_init _ SI) as Hinit. rewrite Tsc in Hinit.
  revert u s' E.
  match goal with |- forall u s', ?m s = _ -> _ => change (wp m s (fun _ s' => exists g', TInv s' (g ++ g'))) end.
  pose proof (post_refl _ _ _ Ti) as P0.
  bnd. apply wp_set_line. intros sa Ea Oa Ca.
  rewrite <- Ea in P0, Hn256, Hn1, Hinit, Tsc, Tl, Tk, Tar, Tf, SI, Ts, Ti, Te, Hlen.
  assert (To_a : s_outer sa = []) by (rewrite Oa; exact To).
  assert (Har0 : (k_arity (s_cur sa) <= nloc (s_cur sa))%N) by (rewrite Tar; exact Hn1).
  ident.
  bnd. unfold declare_variable. bnd. apply wp_cur. rewrite (fr_scope _ _ F), Tsc. simpl. apply wp_ret.
  op16. unfold define_variable. bnd. bnd. apply wp_cur. rewrite (fr_scope _ _ F0), (fr_scope _ _ F), Tsc. simpl.
  op16.
  bnd. apply wp_cget. bnd. apply wp_set_classes. intros sb Eb Ob.
  rewrite <- Eb in *.
  bnd. apply wp_ret.
  assert (To_b : s_outer sb = []) by (rewrite Ob, O1, O0, O; exact To_a).
  pose proof (po_fr _ _ _ _ _ _ P2) as Fab. pose proof (po_gr _ _ _ _ _ _ P2) as Gab.
  pose proof (nloc_eq _ _ (lks_frame _ _ Fab)) as Enb.
  apply (post_eqH _ _ _ _ _ _ (nloc (s_cur sa))) in P2; [|lia].
  bnd. eapply wp_with_outer0; [apply fr0_resolve_variable | exact To_b |].
  eapply wp_resolve_variable with (Hb := nloc (s_cur sa));
    [ exact P2 | rewrite <- Enb; apply lb_full | intros [[gop sop] arg] s6 P6 G6 F6 V6 To6 ].
  simpl.
  bnd. eapply wp_with_outer0; [apply fr0_named_get | exact To6 |].
  eapply wp_named_get with (Hb := nloc (s_cur sa));
    [ exact P6 | rewrite <- (nloc_eq _ _ (lks_frame _ _ (po_fr _ _ _ _ _ _ P6))); apply lb_full | lia | lia
    | intros s7 (g7 & P7 & N7) G7 F7 To7 ].
  bnd. intros u7 s7' E7.
  match type of P7 with post _ _ _ _ ?ga _ =>
    assert (M7 : MInv (s_cur sa) (s_cur s6) g (nloc (s_cur sa)) s7 (g ++ ga) (nloc (s_cur sa) + 1)%N) end.
  { constructor.
    - exact To7.
    - apply P7.
    - apply P7.
    - apply P7.
    - intros j h Hk. apply (gr_nf _ _ (po_gr _ _ _ _ _ _ P7)) in Hk. eauto.
    - apply noholes_app; [exact Tnh | auto 20 with ht].
    - apply (gr_consts _ _ G7).
    - apply (gr_ups _ _ G7). }
  assert (X1 : (1 <= nloc (s_cur sa) + 1)%N) by lia.
  assert (X2 : (nloc (s_cur sa) + 1 + 1 <= STACK_MAX)%N) by lia.
  match type of M7 with MInv _ _ _ _ _ ?G7 _ =>
    assert (M7' : exists g7', MInv (s_cur sa) (s_cur s6) g (nloc (s_cur sa)) s7' (G7 ++ g7') (nloc (s_cur sa) + 1)%N) end.
  { destruct ctor as [n|].
    - eapply initialiser_ok; [exact X1 | exact X2 | exact E7 | exact M7].
    - inversion E7; subst. exists []. rewrite app_nil_r. exact M7. }
  destruct M7' as (g7' & M7').
  bnd. intros u8 s8 E8.
  destruct (cmethods_okA _ _ _ _ methods Hf _ _ _ _ _ X1 X2 E8 M7') as (g8 & M8).
  pose proof (post_refl _ _ _ (m_inv _ _ _ _ _ _ _ M8)) as P8.
  pose proof (m_fr _ _ _ _ _ _ _ M8) as Fa8.
  assert (Har8 : (k_arity (s_cur s8) <= nloc (s_cur sa))%N) by (rewrite (fr_arity _ _ Fa8), Tar; exact Hn1).
  op0.
  bnd. eapply wp_with_op; [apply op_emit_variable_op|].
  eapply wp_var_set with (Hb := nloc (s_cur sa));
    [ eassumption
    | eapply var_ok_grow; [eapply var_ok_ext; [exact V6 | apply (m_pre _ _ _ _ _ _ _ M8) | apply (m_ups _ _ _ _ _ _ _ M8)] | eassumption]
    | lia | lia | lia | intros s10 (g10 & P10 & N10) G10 F10 O10 ].
  op0.
  pose proof (po_fr _ _ _ _ _ _ P4) as F84. pose proof (po_gr _ _ _ _ _ _ P4) as G84.
  assert (To4 : s_outer s4 = []).
  { repeat match goal with H : s_outer ?a = s_outer ?b |- s_outer ?a = [] => rewrite H end.
    exact (m_outer _ _ _ _ _ _ _ M8). }
  assert (Fa4 : cframe (s_cur sa) (s_cur s4)) by (eapply cframe_trans; eauto).
  apply (post_eqH _ _ _ _ _ _ (nloc (s_cur sa))) in P4; [|simpl; lia].
  apply post_reframe in P4.
  match type of P4 with post _ ?G8 ?H8 _ ?ga _ =>
    assert (Fin : forall sx, post (s_cur sx) G8 H8 (s_cur sx) ga (nloc (s_cur sa)) -> cframe (s_cur s4) (s_cur sx) ->
                  cgrow (s_cur s4) (s_cur sx) -> s_outer sx = [] ->
                  wp (s9 <- cget;; set_classes (tl (s_classes s9))) sx
                     (fun _ s' => exists g', TInv s' (g ++ g'))) end.
  { intros sx Px Fx Gx Ox. apply wp_bind. apply wp_cget. apply wp_set_classes. intros sf Ef Of.
    assert (Fax : cframe (s_cur sa) (s_cur sx)) by (eapply cframe_trans; eauto).
    pose proof (nloc_eq _ _ (lks_frame _ _ Fax)) as Enx.
    pose proof (po_inv _ _ _ _ _ _ Px) as X. rewrite <- !app_assoc in X.
    pose proof (po_ext _ _ _ _ _ _ Px) as Xe. rewrite <- !app_assoc in Xe.
    pose proof (m_ext _ _ _ _ _ _ _ M8) as Me. rewrite <- !app_assoc in Me.
    pose proof (m_nh _ _ _ _ _ _ _ M8) as Mh. rewrite <- !app_assoc in Mh.
    match type of X with CInv _ (g ++ ?gg) _ => exists gg end.
    constructor.
    - rewrite Of. exact Ox.
    - rewrite Ef, Enx. exact X.
    - rewrite Ef. eapply SInv3_cframe_top; eauto.
    - rewrite Ef, (fr_scope _ _ Fax). exact Tsc.
    - rewrite Ef, (fr_loops _ _ Fax). exact Tl.
    - rewrite Ef, (fr_kind _ _ Fax). exact Tk.
    - rewrite Ef, Enx. eapply Lext_trans; [exact Te|]. eapply Lext_trans; [exact Me | exact Xe].
    - rewrite Ef. intros j h Hk. apply (gr_nf _ _ Gx) in Hk. apply (gr_nf _ _ G84) in Hk.
      exact (m_fn _ _ _ _ _ _ _ M8 _ _ Hk).
    - unfold noholes in *. repeat rewrite Forall_app in Mh. repeat rewrite Forall_app. decompose [and] Mh.
      repeat split; auto; repeat constructor; auto.
    - rewrite Ef, (fr_arity _ _ Fax). exact Tar. }
  bnd. apply wp_cget. bnd.
  destruct (s_classes s4) as [|[|] ?].
  - apply wp_ret. apply Fin; auto using cframe_refl, cgrow_refl.
  - eapply wp_with_op; [apply op_end_scope|].
    eapply wp_end_scope_top;
      [ exact P4 | rewrite (fr_scope _ _ Fa4); exact Tsc | rewrite (lks_frame _ _ Fa4); exact Hinit
      | intros s12 P12 Tw12 El12 Ec12 O12 ].
    apply Fin; auto.
    + apply tweak_cframe; auto.
    + apply (wk_gr _ _ (wk_of_tweak _ _ Tw12)).
    + rewrite O12. exact To4.
  - apply wp_ret. apply Fin; auto using cframe_refl, cgrow_refl.
Qed.

Definition topfragB (st : lstmt) : bool := fragS9 st || is_fn_declS st || is_class_declB st.
Fixpoint topfragsB (l : lstmts) : bool :=
  match l with LSNil => true | LSCons s r => topfragB s && topfragsB r end.

Lemma top_seqB l : topfragsB l = true -> forall s u s' g, cstmts l s = COk (u, s') -> TInv s g ->
  exists g', TInv s' (g ++ g').
Proof.
  induction l as [|st r IH]; simpl; intros Hf s u s' g E T.
  - inversion E; subst. exists []. rewrite app_nil_r. exact T.
  - apply andb_prop in Hf. destruct Hf as [H1 H2]. apply bind_inv in E. destruct E as ([] & s1 & E1 & E2).
    assert (X : exists g1, TInv s1 (g ++ g1)).
    { unfold topfragB in H1. apply orb_prop in H1. destruct H1 as [H1|H1]; [apply orb_prop in H1; destruct H1 as [H1|H1]|].
      eapply top_stmtS; eauto. eapply top_fnS; eauto. eapply top_classB; eauto. }
    destruct X as (g1 & T1). destruct (IH H2 _ _ _ _ E2 T1) as (g2 & T2).
    exists (g1 ++ g2). rewrite app_assoc. exact T2.
Qed.

Lemma program_annB p f : topfragsB (fst p) = true -> compile_program p = COk f ->
  ann_ok f /\ (forall i h, nth_error (f_consts f) i = Some (KFun h) -> fn_ok h).
Proof.
  intros Hf Hc. unfold compile_program in Hc.
  destruct ((cstmts (fst p);;; finalise_compiler (snd p)) init_state) as [[[f' us] s']|] eqn:E; [|discriminate].
  inversion Hc; subst f'; clear Hc.
  apply bind_inv in E. destruct E as ([] & s1 & E1 & E).
  destruct (top_seqB _ Hf _ _ _ _ E1 TInv_init) as (G & [To Ti Ts Tsc Tl Tk Te Tf Tnh Tar]). simpl app in *.
  unfold finalise_compiler in E. apply bind_inv in E. destruct E as ([] & s2 & E2 & E).
  pose proof (si_len _ (s3_base _ _ _ Ts)) as Hlen. pose proof stack_300 as HSM.
  pose proof (si_try _ (s3_base _ _ _ Ts)) as Ht.
  assert (Hm : (nloc (s_cur s1) + 1 <= STACK_MAX)%N) by (unfold nloc; lia).
  pose proof (emit_return_gen _ _ _ _ _ _ E2 Ti Tk Ht Hm) as X.
  set (R2 := [mkG OpNil 0 0 [] (nloc (s_cur s1)) false; mkG OpReturn 0 0 [] (nloc (s_cur s1) + 1)%N false]) in *.
  assert (Ef : f = func_of_comp (s_cur s2)) by (destruct (s_outer s2); inversion E; reflexivity).
  assert (Ec : k_consts (s_cur s2) = k_consts (s_cur s1) /\ k_arity (s_cur s2) = k_arity (s_cur s1)).
  { unfold emit_return, cbind, cur in E2. rewrite Tk, Ht in E2. simpl in E2.
    unfold emit_op, emit_byte, cbind, upd, set_line in E2. inversion E2; subst. simpl. auto. }
  destruct Ec as [Ec Ea]. subst f. unfold func_of_comp. cbn [f_consts]. split.
  - exists (G ++ R2). cbn [f_code f_consts f_upvalues f_arity].
    split. { intros Z. apply app_eq_nil in Z. destruct Z as [_ Z]. discriminate. }
    split; [apply (X 0%N)|]. split.
    { apply noholes_app; [exact Tnh|repeat constructor]. }
    split; [intros H'; apply (X H')|].
    pose proof (Te 0 1%N eq_refl) as Y.
    assert (Z : Lext (hat G (nloc (s_cur s1))) (hat (G ++ R2) 0%N)) by (apply Lext_app; reflexivity).
    apply Z in Y. rewrite hat_0 in Y. inversion Y as [Y1]. rewrite Y1, Ea.
    rewrite Tar. reflexivity.
  - rewrite Ec. exact Tf.
Qed.

Theorem fullcompile_heights_functionsB p f :
  topfragsB (fst p) = true -> compile_program p = COk f -> noups f ->
  forall g P F, subfunc g f -> FullCompileWF2.models P F g ->
  forall s, reachable false P F s -> succs false P F s <> None.
Proof.
  intros Hf Hc Hnu g P F Hsub M.
  destruct (program_annB p f Hf Hc) as [Haf Hfn].
  pose proof (code_bytes_in_range p f g Hc Hsub) as Hb.
  inversion Hsub as [|? h ? Hin Hsub']; subst.
  - (* the script itself *)
    apply (ann_ok_safe P F f Haf Hb M). intros a fn Hk. apply Hnu.
    eapply sub_const; [eapply nth_error_In; exact Hk | apply sub_refl].
  - (* a declared function *)
    apply In_nth_error in Hin. destruct Hin as [i Hi]. pose proof (Hfn _ _ Hi) as Hok.
    pose proof (fn_ok_leaf _ _ Hok Hsub') as ->.
    apply (ann_ok_safe P F h (fn_ok_ann _ Hok) Hb M).
    intros a fn Hk. exfalso. destruct Hok as (G & _ & _ & _ & _ & _ & Hnf). eapply Hnf; eauto.
Qed.

Corollary fullcompile_functions_flattenB p f :
  topfragsB (fst p) = true -> compile_program p = COk f -> noups f ->
  forall g, subfunc g f ->
  exists F idx, nth_error (FullCompileWF2.flatten f) idx = Some F /\
    forall s, reachable false (FullCompileWF2.flatten f) F s -> succs false (FullCompileWF2.flatten f) F s <> None.
Proof.
  intros Hf Hc Hnu g Hsub. destruct (FullCompileWF2.flatten_models g f Hsub) as (F & idx & Hn & M).
  exists F, idx. split; auto. eapply fullcompile_heights_functionsB; eauto.
Qed.


(* HEADLINE 13 (final): + the constructor attribute of a class (`initialiser`: default constructor Construct 0; GetLocal 0;
   Return, bound as a static method) *)
Definition wf_frag12 (p : lprogram) : bool := topfragsB (fst p).
Theorem fullcompile_verifies_fragment12 p f :
  wf_frag12 p = true -> compile_program p = COk f -> noupsb f = true ->
  forall g, subfunc g f ->
  exists F idx, nth_error (FullCompileWF2.flatten f) idx = Some F /\
    forall s, reachable false (FullCompileWF2.flatten f) F s -> succs false (FullCompileWF2.flatten f) F s <> None.
Proof.
  intros Hf Hc Hn. apply (fullcompile_functions_flattenB p f Hf Hc). apply noupsb_noups; exact Hn.
Qed.
Print Assumptions fullcompile_verifies_fragment12.

Definition ex_prog13 : lprogram :=
  (LSCons (LSClass (bs "P") 1 None (Some (bs "new")) 1
            (LMCons MMethod (bs "get") [bs "a"] 6 ex_get_body 7 LMNil) 8)
  (LSCons (LSClass (bs "A") 9 None None 9
            (LMCons MInit (bs "init") [bs "v"] 10 ex_init_body 11
            (LMCons MStatic (bs "make") [] 12 ex_sm_body 13 LMNil)) 14)
  (LSCons (LSFn (bs "k") [bs "a"] ex_k_body 15)
  (LSCons (LSVarInit (bs "p") (LCall (LGet (LVar 16 (bs "P")) (bs "new") 16) LENil 16) 16)
  (LSCons (LSExpr (LInvoke (LVar 17 (bs "p")) (bs "get") (LECons (LCall (LVar 17 (bs "A")) (LECons (LTrue 17) LENil) 17) LENil) 17) 17)
  LSNil)))), 18%N).

Example ex_prog13_verified : exists f, compile_program ex_prog13 = COk f /\
  length (FullCompileWF2.flatten f) = 6 /\
  forall g, subfunc g f ->
  exists F idx, nth_error (FullCompileWF2.flatten f) idx = Some F /\
    forall s, reachable false (FullCompileWF2.flatten f) F s -> succs false (FullCompileWF2.flatten f) F s <> None.
Proof.
  eexists. split. vm_compute; reflexivity. split. vm_compute; reflexivity.
  apply (fullcompile_verifies_fragment12 ex_prog13); vm_compute; reflexivity.
Qed.
