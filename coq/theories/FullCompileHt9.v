(* FullCompileHt9: the Closure instruction (no captured variables) in the annotation and in the semantic statement:
   `iok2` = iok or the Closure case, `sem_safe2` with the closure_arity hypothesis.  (Semantic side of the functions step;
   the compiler side - emit_closure producing the Closure case, function bodies - is NOT done, see notes.) *)
From Coq Require Import Strings.Byte Strings.String.
From Coq Require Import List NArith ZArith Bool Arith Lia.
From Coq Require Import Floats.SpecFloat.
From YV Require Import Show Utf8 Num Ast Bytecode Skeleton VerifierProofs ParseLoc FullCompile FullCompileProofs.
From YV Require Import FullCompileHt FullCompileHt2 FullCompileHt3.
Import ListNotations.
Local Open Scope nat_scope.
Local Open Scope list_scope.

(* Closure c with NO descriptors: +1; the constant is a function whose upvalue_count is 0 *)
Definition iokC (L : nat -> option N) (ks : list const) (p : nat) (gi : ginstr) : Prop :=
  g_op gi = OpClosure /\ g_hole gi = false /\ g_uvs gi = [] /\ (g_h gi <= STACK_MAX)%N /\
  (exists fn, nth_error ks (N.to_nat (g_a gi)) = Some (KFun fn) /\ f_upvalues fn = 0%N) /\
  L (p + glen gi) = Some (g_h gi + 1)%N.

Definition gok2 (ks : list const) (nup ar : N) (g : list ginstr) (H : N) : Prop :=
  forall g1 gi g2, g = g1 ++ gi :: g2 ->
    iok (hat g H) ks nup ar (flen g1) gi \/ iokC (hat g H) ks (flen g1) gi.

Lemma gok_gok2 ks nup ar g H : gok ks nup ar g H -> gok2 ks nup ar g H.
Proof. intros Hg g1 gi g2 E. left. eapply Hg; eauto. Qed.

Lemma iok_not_closure L ks nup ar p gi : g_op gi = OpClosure -> ~ iok L ks nup ar p gi.
Proof.
  intros Ho [_ H]. unfold gi_instr, simple_effect in H. cbn [iop] in H. rewrite Ho in H. exact H.
Qed.

Section Sem2.
  Variables (P : program) (F : fn) (G : list ginstr) (ks : list const).
  Hypothesis Hcode : code F = flat G.
  Hypothesis Hbytes : Forall (fun b => (b < 256)%N) (flat G).
  Hypothesis Hok : forall H', gok2 ks (upvalue_count F) (arity F) G H'.
  Hypothesis Hnh : noholes G.
  (* pointwise agreement of the constant kinds (implied by Forall2 ckind_ok and by FullCompileWF2.models) *)
  Hypothesis Hks : forall c k, nth_error ks c = Some k -> exists ck, nth_error (consts F) c = Some ck /\ ckind_ok k ck.
  (* the function constants of F are functions of P with the same number of captured variables *)
  Hypothesis Hclo : forall a fn, nth_error ks (N.to_nat a) = Some (KFun fn) ->
                                 closure_arity P F a = Some (f_upvalues fn).

  Let decode_gi := FullCompileHt3.decode_gi P F G Hcode Hbytes.
  Lemma const_ok_of rq a : kconst_ok ks rq a -> const_ok F rq a = None.
  Proof.
    destruct rq; simpl; auto; unfold const_at.
    - intros (k & Hk & Hnf). destruct (Hks _ _ Hk) as (ck & E & R). rewrite E.
      destruct k, ck; simpl in R; try contradiction; auto. exfalso. eapply Hnf; eauto.
    - intros (x & Hk). destruct (Hks _ _ Hk) as (ck & E & R). rewrite E.
      destruct ck; simpl in R; try contradiction; auto.
  Qed.
  Let target_ok := FullCompileHt3.target_ok F G Hcode Hbytes.
  Let const_dec := FullCompileHt3.const_dec F.
  Let byte_at_enc := FullCompileHt3.byte_at_enc F G Hcode Hbytes.

  Lemma step_ok_local g1 gi g2 ex :
    G = g1 ++ gi :: g2 ->
    iok (hat G 0%N) ks (upvalue_count F) (arity F) (flen g1) gi ->
    iok (hat G 1%N) ks (upvalue_count F) (arity F) (flen g1) gi ->
    exists l, succs false P F (Skeleton.mkS (N.of_nat (flen g1)) (g_h gi) [] [] None ex) = Some l /\
              forall s', In s' l -> SemInv G s'.
  Proof.
    intros EG [Hmax I0] [_ I1].
    assert (Hhole : g_hole gi = false).
    { unfold noholes in Hnh. rewrite Forall_forall in Hnh. apply Hnh. rewrite EG. apply in_elt. }
    unfold succs, succs_at, step_at.
    cbn [Skeleton.pc Skeleton.h Skeleton.handlers Skeleton.captured Skeleton.pending Skeleton.exc].
    destruct (N.ltb_spec STACK_MAX (g_h gi)); [lia|].
    set (nx := flen g1 + glen gi) in *.
    destruct (simple_effect (fn0 (arity F) (upvalue_count F)) (gi_instr gi) (g_h gi)) as [e|] eqn:Hse.
    - destruct (se_layout _ _ _ _ Hse) as [NC NX].
      rewrite (decode_gi g1 gi g2 EG NC NX). fold nx.
      rewrite se_dec, simple_effect_fn0, Hse.
      destruct I0 as (_ & Hchk & Hk & Hneed & L0). destruct I1 as (_ & _ & _ & _ & L1).
      unfold step_simple. cbn [Skeleton.h Skeleton.captured Skeleton.handlers Skeleton.pending Skeleton.exc].
      rewrite Hchk, (const_dec _ _ _ _ Hse), (const_ok_of _ _ Hk).
      apply N.leb_le in Hneed. rewrite Hneed. simpl negb. cbn [captured_below forallb negb].
      destruct (target_ok _ _ L0 L1) as [TI _].
      unfold exc_edge. cbn [Skeleton.handlers].
      eexists. split.
      + destruct (e_throw e); simpl; reflexivity.
      + intros s' [<-|[]]. apply TI.
    - assert (NC : layout_of (g_op gi) <> LClosure /\ layout_of (g_op gi) <> L16_16).
      { destruct gi as [op a b uvs hh hole]. destruct op; simpl in *; try discriminate; try contradiction; split; discriminate. }
      rewrite (decode_gi g1 gi g2 EG (proj1 NC) (proj2 NC)). fold nx.
      rewrite se_dec, simple_effect_fn0, Hse.
      destruct gi as [op a b uvs hh hole]. simpl in Hhole. subst hole.
      destruct op; simpl in Hse; try discriminate; simpl in I0, I1; try contradiction;
        unfold dec; cbn [layout_of g_op g_a g_b g_h g_hole g_uvs iop ia ib Skeleton.h Skeleton.handlers Skeleton.pending Skeleton.captured Skeleton.exc].
      + (* Jump *) destruct I0 as [I0|I0]; [discriminate|]. destruct I1 as [I1|I1]; [discriminate|].
        fold nx in I0, I1. destruct (target_ok _ _ I0 I1) as [TI TB].
        unfold in_code. replace (N.of_nat nx + a)%N with (N.of_nat (nx + N.to_nat a)) by lia.
        destruct (byte_at (code F) (N.of_nat (nx + N.to_nat a))); [|contradiction].
        eexists; split; [reflexivity|]. intros s' [<-|[]]. apply TI.
      + (* JumpIfFalse *) destruct I0 as (Hz & F0 & [I0|I0]); [discriminate|]. destruct I1 as (_ & F1 & [I1|I1]); [discriminate|].
        fold nx in I0, I1, F0, F1. destruct (target_ok _ _ I0 I1) as [TI TB]. destruct (target_ok _ _ F0 F1) as [TF _].
        apply N.eqb_neq in Hz. rewrite Hz.
        unfold in_code. replace (N.of_nat nx + a)%N with (N.of_nat (nx + N.to_nat a)) by lia.
        destruct (byte_at (code F) (N.of_nat (nx + N.to_nat a))); [|contradiction].
        eexists; split; [reflexivity|]. intros s' [<-|[<-|[]]]. apply TF. apply TI.
      + (* JumpIfStopIter *) destruct I0 as (Hz & F0 & [I0|I0]); [discriminate|]. destruct I1 as (_ & F1 & [I1|I1]); [discriminate|].
        fold nx in I0, I1, F0, F1. destruct (target_ok _ _ I0 I1) as [TI TB]. destruct (target_ok _ _ F0 F1) as [TF _].
        apply N.eqb_neq in Hz. rewrite Hz.
        unfold in_code. replace (N.of_nat nx + a)%N with (N.of_nat (nx + N.to_nat a)) by lia.
        destruct (byte_at (code F) (N.of_nat (nx + N.to_nat a))); [|contradiction].
        eexists; split; [reflexivity|]. intros s' [<-|[<-|[]]]. apply TF. apply TI.
      + (* Loop *) destruct I0 as (_ & Hle & I0). destruct I1 as (_ & _ & I1). fold nx in I0, I1, Hle.
        destruct (target_ok _ _ I0 I1) as [TI _].
        assert (Hle' : (a <=? N.of_nat nx)%N = true) by (apply N.leb_le; lia). rewrite Hle'.
        replace (N.of_nat nx - a)%N with (N.of_nat (nx - N.to_nat a)) by lia.
        eexists; split; [reflexivity|]. intros s' [<-|[]]. apply TI.
      + (* Throw *) destruct I0 as (_ & Hz). apply N.eqb_neq in Hz. rewrite Hz.
        unfold exc_edge. cbn [Skeleton.handlers]. eexists; split; [reflexivity|]. intros s' [].
      + (* CloseUpvalue *) destruct I0 as (_ & Har & I0). destruct I1 as (_ & _ & I1). fold nx in I0, I1.
        destruct (target_ok _ _ I0 I1) as [TI _]. apply N.ltb_lt in Har. rewrite Har.
        eexists; split; [reflexivity|]. intros s' [<-|[]]. simpl. apply TI.
      + (* Return *) destruct I0 as (_ & Hz). apply N.eqb_neq in Hz. rewrite Hz.
        eexists; split; [reflexivity|]. intros s' [].
  Qed.


  Lemma step_ok_closure g1 gi g2 ex :
    G = g1 ++ gi :: g2 -> iokC (hat G 0%N) ks (flen g1) gi -> iokC (hat G 1%N) ks (flen g1) gi ->
    exists l, succs false P F (Skeleton.mkS (N.of_nat (flen g1)) (g_h gi) [] [] None ex) = Some l /\
              forall s', In s' l -> SemInv G s'.
  Proof.
    intros EG (Ho & Hh & Hu & Hmax & (fn & Hfn & Hup) & L0) (_ & _ & _ & _ & _ & L1).
    destruct (target_ok _ _ L0 L1) as [TI _].
    destruct gi as [op a b uvs hh hole]. simpl in Ho, Hh, Hu, Hmax, Hfn. subst op hole uvs.
    set (gi := mkG OpClosure a b [] hh false) in *.
    set (q := N.of_nat (flen g1)).
    assert (B : forall k bt q', nth_error (enc gi) k = Some bt -> q' = (q + N.of_nat k)%N ->
                                byte_at (code F) q' = Some bt)
      by (intros; eapply byte_at_enc; eauto).
    unfold succs, succs_at, step_at.
    cbn [Skeleton.pc Skeleton.h Skeleton.handlers Skeleton.captured Skeleton.pending Skeleton.exc g_h].
    unfold decode_at. fold q.
    rewrite (B 0 (N_of_opcode OpClosure) q) by (try reflexivity; lia).
    change (opcode_of_N (N_of_opcode OpClosure)) with (Some OpClosure). cbn [layout_of].
    unfold get16. rewrite (B 1 (lo8 a) (q + 1)%N) by (try reflexivity; lia).
    rewrite (B 2 (hi8 a) (q + 1 + 1)%N) by (try reflexivity; lia).
    rewrite lohi, (Hclo a fn Hfn), Hup. cbn [N.to_nat read_uvs].
    cbn [simple_effect iop uvs_ok iuvs capture_all Skeleton.h Skeleton.handlers Skeleton.captured Skeleton.pending Skeleton.exc].
    replace (STACK_MAX <? g_h gi)%N with false by (symmetry; apply N.ltb_ge; exact Hmax).
    eexists. split; [reflexivity|]. intros s' [<-|[]].
    replace (q + 3 + 2 * 0)%N with (N.of_nat (flen g1 + glen gi)) by (unfold q, gi, glen; simpl; lia).
    apply TI.
  Qed.

  Lemma step_ok2 s : SemInv G s -> exists l, succs false P F s = Some l /\ forall s', In s' l -> SemInv G s'.
  Proof.
    intros (g1 & gi & g2 & EG & Hpc & Hh & Hha & Hca & Hpe).
    destruct s as [pc0 h0 hs cap pend ex]. simpl in Hpc, Hh, Hha, Hca, Hpe. subst pc0 h0 hs cap pend.
    destruct (Hok 0%N g1 gi g2 EG) as [I0|C0], (Hok 1%N g1 gi g2 EG) as [I1|C1].
    - eapply step_ok_local; eauto.
    - exfalso. eapply iok_not_closure; [apply C1 | exact I0].
    - exfalso. eapply iok_not_closure; [apply C0 | exact I1].
    - eapply step_ok_closure; eauto.
  Qed.

  Hypothesis Hentry : hdh G 0%N = arity F.
  Hypothesis Hne : G <> [].

  Theorem sem_safe2 s : reachable false P F s -> succs false P F s <> None.
  Proof.
    intros Hr. assert (Hi : SemInv G s).
    { induction Hr.
      - destruct G as [|gi r] eqn:EG; [congruence|]. exists [], gi, r. simpl in *. repeat split; auto.
      - destruct (step_ok2 _ IHHr) as (l' & E & Hl). rewrite E in H. inversion H; subst. auto. }
    destruct (step_ok2 _ Hi) as (l & E & _). rewrite E. discriminate.
  Qed.
End Sem2.
Print Assumptions sem_safe2.

(* the hypotheses of sem_safe2 from the owner's `models` (FullCompileWF2): constants and closure_arity *)
From YV Require FullCompileWF2.
Lemma wf2_models_consts P F g : FullCompileWF2.models P F g ->
  (forall c k, nth_error (f_consts g) c = Some k -> exists ck, nth_error (consts F) c = Some ck /\ ckind_ok k ck) /\
  (forall a fn, nth_error (f_consts g) (N.to_nat a) = Some (KFun fn) -> closure_arity P F a = Some (f_upvalues fn)).
Proof.
  intros M. split.
  - intros c k Hk. destruct k as [x|x|h].
    + exists CNum. split; [eapply FullCompileWF2.m_num; eauto | exact I].
    + exists CStr. split; [eapply FullCompileWF2.m_str; eauto | exact I].
    + destruct (FullCompileWF2.m_fun _ _ _ M _ _ Hk) as (i & H & A & B & D). exists (CFunc i). split; [exact A | exact I].
  - intros a fn Hk. destruct (FullCompileWF2.m_fun _ _ _ M _ _ Hk) as (i & H & A & B & D).
    unfold closure_arity, const_at. rewrite A, B, D. reflexivity.
Qed.

(* sem_safe2 for a function g of the flattened tree, given its annotation *)
Theorem sem_safe2_wf2 P F g G :
  FullCompileWF2.models P F g -> f_code g = flat G -> Forall (fun b => (b < 256)%N) (flat G) ->
  (forall H', gok2 (f_consts g) (f_upvalues g) (f_arity g) G H') -> noholes G ->
  hdh G 0%N = f_arity g -> G <> [] ->
  forall s, reachable false P F s -> succs false P F s <> None.
Proof.
  intros M Hc Hb Hok Hnh He Hne. destruct (wf2_models_consts _ _ _ M) as [Hk Hcl].
  apply (sem_safe2 P F G (f_consts g)); auto.
  - rewrite (FullCompileWF2.m_code _ _ _ M). exact Hc.
  - rewrite (FullCompileWF2.m_upv _ _ _ M), (FullCompileWF2.m_arity _ _ _ M). exact Hok.
  - rewrite (FullCompileWF2.m_arity _ _ _ M). exact He.
Qed.
Print Assumptions sem_safe2_wf2.
